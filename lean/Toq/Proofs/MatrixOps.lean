import Toq.Model.MatrixOps
import Toq.Model.MatrixPreds
import Toq.Spec.MatrixOps
import Toq.Proofs.Idx
import Toq.Proofs.Cert
import Toq.Proofs.Rank
import Mathlib.LinearAlgebra.Matrix.ToLin
import Mathlib.LinearAlgebra.Matrix.Rank
import Mathlib.Algebra.BigOperators.Group.Finset.Basic
import Mathlib.Algebra.BigOperators.Group.Finset.Sigma
import Mathlib.Algebra.BigOperators.Ring.Finset
import Mathlib.Algebra.Ring.Defs
import Mathlib.Algebra.Star.Basic
import Mathlib.Algebra.Star.BigOperators
import Mathlib.Tactic.Ring
import Mathlib.Tactic.Linarith
import Mathlib.Tactic.NoncommRing
import Mathlib.LinearAlgebra.Matrix.Hermitian
import Mathlib.LinearAlgebra.Matrix.PosDef
import Mathlib.Algebra.Order.Field.Rat
/-!
# Lemmas about the mirror models of `Toq/Model/MatrixOps.lean`
-/

namespace Toq.MatrixOps

/-! ## vec / unvec -/

theorem vec_f (A : Mat α) (k j : Nat) : (vec A).f k j = A.f (k % A.r) (k / A.r % A.c) := by
  simp [vec, Mat.toND, ND.vecF, unflatF, shape2, prodN]

theorem unvecShape_f (v : Nat → α) (r c i j : Nat) : (unvecShape v r c).f i j = v (i + j * r) := by
  simp [unvecShape, ND.ofFlatF, flatF, shape2, prodN]


theorem unvec_vec_f (A : Mat α) (i j : Nat) (hi : i < A.r) (hj : j < A.c) :
    (unvecShape (fun k => (vec A).f k 0) A.r A.c).f i j = A.f i j := by
  rw [unvecShape_f, vec_f]
  have hr : 0 < A.r := by omega
  have h1 : (i + j * A.r) % A.r = i := by
    rw [Nat.add_mul_mod_self_right]; exact Nat.mod_eq_of_lt hi
  have h2 : (i + j * A.r) / A.r = j := by
    rw [Nat.add_mul_div_right _ _ hr, Nat.div_eq_of_lt hi]; omega
  rw [h1, h2, Nat.mod_eq_of_lt hj]

theorem vec_unvec_f (v : Nat → α) (r c k : Nat) (hk : k < r * c) :
    (vec (unvecShape v r c)).f k 0 = v k := by
  rw [vec_f]
  show (unvecShape v r c).f (k % r) (k / r % c) = v k
  rw [unvecShape_f]
  have hr : 0 < r := by
    rcases Nat.eq_zero_or_pos r with h | h
    · subst h; simp at hk
    · exact h
  have h1 : k / r < c := by
    rw [Nat.div_lt_iff_lt_mul hr]; rw [Nat.mul_comm]; exact hk
  rw [Nat.mod_eq_of_lt h1]
  congr 1
  have := Nat.mod_add_div k r
  rw [Nat.mul_comm] at this
  exact this

theorem unvec_default_sq (v : Nat → α) (n : Nat) :
    unvec v (n * n) none = some (unvecShape v n n) := by
  simp [unvec, unvecDefault]

/-! ## Kronecker product -/

theorem kron_f [Mul α] (A B : Mat α) (i j : Nat) :
    (kron A B).f i j = A.f (i / B.r) (j / B.c) * B.f (i % B.r) (j % B.c) := rfl

theorem kron_block [Mul α] (A B : Mat α) (i1 i2 j1 j2 : Nat) (hi : i2 < B.r) (hj : j2 < B.c) :
    (kron A B).f (i1 * B.r + i2) (j1 * B.c + j2) = A.f i1 j1 * B.f i2 j2 := by
  rw [kron_f]
  have e1 : (i1 * B.r + i2) / B.r = i1 := by
    rw [Nat.add_comm, Nat.add_mul_div_right _ _ (by omega), Nat.div_eq_of_lt hi]; omega
  have e2 : (i1 * B.r + i2) % B.r = i2 := by
    rw [Nat.add_comm, Nat.add_mul_mod_self_right]; exact Nat.mod_eq_of_lt hi
  have e3 : (j1 * B.c + j2) / B.c = j1 := by
    rw [Nat.add_comm, Nat.add_mul_div_right _ _ (by omega), Nat.div_eq_of_lt hj]; omega
  have e4 : (j1 * B.c + j2) % B.c = j2 := by
    rw [Nat.add_comm, Nat.add_mul_mod_self_right]; exact Nat.mod_eq_of_lt hj
  rw [e1, e2, e3, e4]

theorem idx_assoc (i b c : Nat) :
    i / c / b = i / (b * c) ∧ i / c % b = i % (b * c) / c ∧ i % c = i % (b * c) % c := by
  refine ⟨?_, ?_, ?_⟩
  · rw [Nat.div_div_eq_div_mul, Nat.mul_comm]
  · rw [Nat.mul_comm b c, Nat.mod_mul_right_div_self]
  · rw [Nat.mul_comm b c, Nat.mod_mul_right_mod]

theorem kron_assoc [Semigroup α] (A B C : Mat α) : kron (kron A B) C = kron A (kron B C) := by
  unfold kron
  simp only [Mat.mk.injEq]
  refine ⟨Nat.mul_assoc _ _ _, Nat.mul_assoc _ _ _, ?_⟩
  funext i j
  obtain ⟨a1, a2, a3⟩ := idx_assoc i B.r C.r
  obtain ⟨b1, b2, b3⟩ := idx_assoc j B.c C.c
  rw [a1, a2, b1, b2, ← a3, ← b3, mul_assoc]


/-! ## n-fold powers -/

theorem kronPow_succ [Mul α] (A : Mat α) (a : Nat) (ha : 1 ≤ a) :
    kronPow A (a + 1) = kron (kronPow A a) A := by
  obtain ⟨a', rfl⟩ : ∃ a', a = a' + 1 := ⟨a - 1, by omega⟩
  rfl

theorem kronPow_add [Semigroup α] (A : Mat α) (a : Nat) (ha : 1 ≤ a) :
    ∀ b, 1 ≤ b → kronPow A (a + b) = kron (kronPow A a) (kronPow A b) := by
  intro b hb
  induction b with
  | zero => omega
  | succ b ih =>
    rcases Nat.eq_zero_or_pos b with h0 | hpos
    · subst h0
      exact kronPow_succ A a ha
    · rw [← Nat.add_assoc, kronPow_succ A (a + b) (by omega), ih hpos, kron_assoc,
        ← kronPow_succ A b hpos]

theorem fastExp_eq_kronPow [Semigroup α] (A : Mat α) : ∀ q, 1 ≤ q → fastExp A q = kronPow A q := by
  intro q
  induction q using Nat.strong_induction_on with
  | _ q ih =>
    intro hq
    rw [fastExp]
    split
    · have : q = 1 := by omega
      subst this; rfl
    · rename_i hgt
      have hhalf : q >>> 1 = q / 2 := by rw [Nat.shiftRight_eq_div_pow]
      have h1 : 1 ≤ q / 2 := by omega
      have hlt : q / 2 < q := by omega
      simp only []
      rw [hhalf, ih (q / 2) hlt h1, ← kronPow_add A (q / 2) h1 (q / 2) h1, Nat.and_one_is_mod]
      split
      · rename_i hodd
        have : q = 1 + (q / 2 + q / 2) := by omega
        conv_rhs => rw [this]
        rw [kronPow_add A 1 (le_refl 1) (q / 2 + q / 2) (by omega)]
        rfl
      · rename_i heven
        have : q = q / 2 + q / 2 := by omega
        conv_rhs => rw [this]


/-! ## sums -/

theorem sumN_eq_sum [AddCommMonoid α] (f : Nat → α) : ∀ n, sumN n f = ∑ i ∈ Finset.range n, f i
  | 0 => rfl
  | n + 1 => by rw [sumN, Finset.sum_range_succ, sumN_eq_sum f n]

/-- a sum over `l < p*n` is the double sum over `l = b*n + a` -/
theorem sum_range_mul_divmod [AddCommMonoid α] (g : Nat → Nat → α) (n : Nat) : ∀ p,
    ∑ l ∈ Finset.range (p * n), g (l / n) (l % n) = ∑ b ∈ Finset.range p, ∑ a ∈ Finset.range n, g b a
  | 0 => by simp
  | p + 1 => by
    rw [Nat.succ_mul, Finset.sum_range_add, sum_range_mul_divmod g n p, Finset.sum_range_succ]
    congr 1
    apply Finset.sum_congr rfl
    intro a ha
    have ha' : a < n := Finset.mem_range.mp ha
    have e1 : (p * n + a) / n = p := by
      rw [Nat.add_comm, Nat.add_mul_div_right _ _ (by omega), Nat.div_eq_of_lt ha']; omega
    have e2 : (p * n + a) % n = a := by
      rw [Nat.add_comm, Nat.add_mul_mod_self_right]; exact Nat.mod_eq_of_lt ha'
    rw [e1, e2]

theorem mul_f [AddCommMonoid α] [Mul α] (A B : Mat α) (i j : Nat) :
    (mul A B).f i j = ∑ k ∈ Finset.range A.c, A.f i k * B.f k j := by
  show sumN A.c (fun k => A.f i k * B.f k j) = _
  rw [sumN_eq_sum]

/-- `vec(A X B) = (Bᵀ ⊗ A) vec(X)` entry by entry -/
theorem vec_mul_kron_f [CommSemiring α] (A X B : Mat α) (hAX : A.c = X.r) (hXB : X.c = B.r)
    (k : Nat) (hk : k < A.r * B.c) :
    (vec (mul (mul A X) B)).f k 0 = (mul (kron (transpose B) A) (vec X)).f k 0 := by
  have hr : 0 < A.r := by
    rcases Nat.eq_zero_or_pos A.r with h | h
    · rw [h] at hk; simp at hk
    · exact h
  have hq : k / A.r < B.c := by
    rw [Nat.div_lt_iff_lt_mul hr, Nat.mul_comm]; exact hk
  rw [vec_f, mul_f, mul_f]
  show ∑ b ∈ Finset.range X.c, (mul A X).f (k % A.r) b * B.f b (k / A.r % B.c)
      = ∑ l ∈ Finset.range (B.r * A.c), (kron (transpose B) A).f k l * (vec X).f l 0
  rw [Nat.mod_eq_of_lt hq]
  obtain ⟨g, hg⟩ : ∃ g : Nat → Nat → α, g = fun b a => B.f b (k / A.r) * A.f (k % A.r) a * X.f a (b % X.c) :=
    ⟨_, rfl⟩
  have hR : ∀ l, (kron (transpose B) A).f k l * (vec X).f l 0 = g (l / A.c) (l % A.c) := by
    intro l
    rw [kron_f, vec_f, hg]
    show B.f (l / A.c) (k / A.r) * A.f (k % A.r) (l % A.c) * X.f (l % X.r) (l / X.r % X.c) = _
    rw [← hAX]
  rw [Finset.sum_congr rfl (fun l _ => hR l), sum_range_mul_divmod g A.c B.r, ← hXB, hg]
  apply Finset.sum_congr rfl
  intro b hb
  have hb' : b < X.c := Finset.mem_range.mp hb
  rw [mul_f, Finset.sum_mul]
  apply Finset.sum_congr rfl
  intro a _
  show A.f (k % A.r) a * X.f a b * B.f b (k / A.r) = B.f b (k / A.r) * A.f (k % A.r) a * X.f a (b % X.c)
  rw [Nat.mod_eq_of_lt hb']
  ring


/-! ## the linear system of `commutant` -/

theorem eye_f [Zero α] [One α] (n i j : Nat) : (eye n : Mat α).f i j = if i = j then 1 else 0 := rfl

/-- `(A ⊗ I − I ⊗ Aᵀ) · X.reshape(-1)` is `(A X − X A).reshape(-1)`, entry by entry -/
theorem commSystem_apply_f [CommRing α] (n : Nat) (A X : Mat α) (hAr : A.r = n) (hAc : A.c = n)
    (hXc : X.c = n) (i j : Nat) (hi : i < n) (hj : j < n) :
    (mul (commSystem n A) (vecC X)).f (i * n + j) 0 = (sub (mul A X) (mul X A)).f i j := by
  have e1 : (i * n + j) / n = i := by
    rw [Nat.add_comm, Nat.add_mul_div_right _ _ (by omega), Nat.div_eq_of_lt hj]; omega
  have e2 : (i * n + j) % n = j := by
    rw [Nat.add_comm, Nat.add_mul_mod_self_right]; exact Nat.mod_eq_of_lt hj
  obtain ⟨g, hg⟩ : ∃ g : Nat → Nat → α, g = fun b a =>
      (A.f i b * (if j = a then 1 else 0) - (if i = b then 1 else 0) * A.f a j) * X.f b a := ⟨_, rfl⟩
  have hterm : ∀ l, (commSystem n A).f (i * n + j) l * (vecC X).f l 0 = g (l / n) (l % n) := by
    intro l
    show ((kron A (eye n)).f (i * n + j) l - (kron (eye n) (transpose A)).f (i * n + j) l) * X.f (l / X.c) (l % X.c) = _
    rw [kron_f, kron_f, hg, hXc]
    show (A.f ((i * n + j) / n) (l / n) * (eye n : Mat α).f ((i * n + j) % n) (l % n)
        - (eye n : Mat α).f ((i * n + j) / A.c) (l / A.r) * A.f (l % A.r) ((i * n + j) % A.c)) * X.f (l / n) (l % n) = _
    rw [hAr, hAc, e1, e2, eye_f, eye_f]
  rw [mul_f]
  show ∑ l ∈ Finset.range (A.c * n), (commSystem n A).f (i * n + j) l * (vecC X).f l 0 = _
  rw [Finset.sum_congr rfl (fun l _ => hterm l), hAc, sum_range_mul_divmod g n n, hg]
  show _ = (mul A X).f i j - (mul X A).f i j
  rw [mul_f, mul_f, hAc, hXc]
  simp only [sub_mul, Finset.sum_sub_distrib]
  congr 1
  · apply Finset.sum_congr rfl
    intro b _
    simp [mul_ite, ite_mul, Finset.sum_ite_eq, hj]
  · simp only [ite_mul, one_mul, zero_mul]
    rw [Finset.sum_comm]
    apply Finset.sum_congr rfl
    intro a _
    simp [Finset.sum_ite_eq, hi, mul_comm]


/-! ## Gram matrix and outer products (conjugation = `star`) -/

/-- in proofs, the conjugation of the models is `star` -/
scoped instance starHasConj {α : Type} [Star α] : HasConj α := ⟨star⟩

theorem conj_eq_star {α : Type} [Star α] (x : α) : HasConj.conj x = star x := rfl

theorem gram_f [CommSemiring α] [StarRing α] (d n : Nat) (vs : Nat → Nat → α) (i j : Nat) :
    (gram d n vs).f i j = ∑ k ∈ Finset.range d, star (vs i k) * vs j k := by
  unfold gram
  rw [mul_f]
  rfl

theorem gram_conj [CommSemiring α] [StarRing α] (d n : Nat) (vs : Nat → Nat → α) (i j : Nat) :
    star ((gram d n vs).f i j) = (gram d n vs).f j i := by
  rw [gram_f, gram_f, star_sum]
  apply Finset.sum_congr rfl
  intro k _
  rw [star_mul', star_star, mul_comm]

theorem outerConj_f [Mul α] [Star α] (n : Nat) (v : Nat → α) (i j : Nat) :
    (outerConj n v).f i j = v i * star (v j) := rfl

/-! ## majorisation loop -/

theorem prefixSum_succ (l : List Rat) (k : Nat) : prefixSum l (k + 1) = prefixSum l k + l.getD k 0 := rfl

theorem prefixSum_cons (x : Rat) (l : List Rat) : ∀ k, prefixSum (x :: l) (k + 1) = x + prefixSum l k
  | 0 => by simp [prefixSum, sumN]
  | k + 1 => by
    rw [prefixSum_succ, prefixSum_cons x l k, prefixSum_succ]
    simp only [List.getD_cons_succ]
    ring

theorem majLoop_iff : ∀ (a b : List Rat) (ca cb : Rat), a.length = b.length →
    (majLoop a b ca cb = true ↔ ∀ k, k < a.length → cb + prefixSum b (k + 1) ≤ ca + prefixSum a (k + 1))
  | [], b, ca, cb, _ => by simp [majLoop]
  | x :: as, [], ca, cb, h => by simp at h
  | x :: as, y :: bs, ca, cb, h => by
    have hl : as.length = bs.length := by simpa using h
    rw [majLoop]
    split
    · rename_i hlt
      simp only [Bool.false_eq_true, false_iff, not_forall]
      refine ⟨0, by simp, ?_⟩
      simp only [prefixSum, sumN, List.getD_cons_zero]
      intro hle
      linarith
    · rename_i hnlt
      rw [majLoop_iff as bs (ca + x) (cb + y) hl]
      constructor
      · intro hall k hk
        rcases k with _ | k
        · simp only [prefixSum, sumN, List.getD_cons_zero]
          linarith [not_lt.mp hnlt]
        · have := hall k (by simpa using hk)
          rw [prefixSum_cons, prefixSum_cons]
          linarith
      · intro hall k hk
        have := hall (k + 1) (by simpa using hk)
        rw [prefixSum_cons, prefixSum_cons] at this
        linarith


theorem sortDesc_length (l : List Rat) : (sortDesc l).length = l.length := by
  unfold sortDesc; exact List.length_mergeSort l

theorem sortDesc_perm (l : List Rat) : (sortDesc l).Perm l := by
  unfold sortDesc; exact List.mergeSort_perm l _

theorem sortDesc_sorted (l : List Rat) : (sortDesc l).Pairwise (fun x y => y ≤ x) := by
  unfold sortDesc
  have h := List.pairwise_mergeSort (le := fun (x y : Rat) => decide (y ≤ x))
    (by intro a b c hab hbc; simp only [decide_eq_true_eq] at *; exact le_trans hbc hab)
    (by intro a b; simp only [Bool.or_eq_true, decide_eq_true_eq]; exact le_total b a) l
  simpa using h

theorem padTo_length (n : Nat) (l : List Rat) (h : l.length ≤ n) : (padTo n l).length = n := by
  simp [padTo]; omega

theorem majorizes_iff (a b : List Rat) :
    majorizes a b = true ↔
      PrefixDominates (padTo (max a.length b.length) (sortDesc a)) (padTo (max a.length b.length) (sortDesc b))
        (max a.length b.length) := by
  unfold majorizes majorizesTol
  simp only [sortDesc_length]
  have ha : (padTo (max a.length b.length) (sortDesc a)).length = max a.length b.length :=
    padTo_length _ _ (by rw [sortDesc_length]; exact le_max_left _ _)
  have hb : (padTo (max a.length b.length) (sortDesc b)).length = max a.length b.length :=
    padTo_length _ _ (by rw [sortDesc_length]; exact le_max_right _ _)
  rw [majLoop_iff _ _ 0 0 (by rw [ha, hb]), ha]
  unfold PrefixDominates
  simp


end Toq.MatrixOps

/-! ## the generic equation decider of `Toq/Model/MatrixPreds.lean` -/

namespace Toq.MatrixPreds
open Toq.MatrixOps


theorem ofMat_get (A : Mat QI) (i j : Nat) (hi : i < A.r) (hj : j < A.c) : (QMat.ofMat A).get i j = A.f i j := by
  unfold QMat.ofMat QMat.get
  simp [hi, hj]

theorem force_f (A : Mat QI) (i j : Nat) (hi : i < A.r) (hj : j < A.c) : (force A).f i j = A.f i j :=
  ofMat_get A i j hi hj

theorem eqExact_iff (L R : Mat QI) : eqExact L R = true ↔ ∀ i j, i < L.r → j < L.c → L.f i j = R.f i j := by
  unfold eqExact
  rw [allBelow_iff]
  constructor
  · intro h i j hi hj
    have := (allBelow_iff _ _).mp (h i hi) j hj
    simpa using this
  · intro h i hi
    rw [allBelow_iff]
    intro j hj
    simpa using h i j hi hj

theorem eqExact_force (L R : Mat QI) (hr : R.r = L.r) (hc : R.c = L.c) :
    eqExact (force L) (force R) = true ↔ ∀ i j, i < L.r → j < L.c → L.f i j = R.f i j := by
  rw [eqExact_iff]
  constructor
  · intro h i j hi hj
    have := h i j hi hj
    rwa [force_f L i j hi hj, force_f R i j (hr ▸ hi) (hc ▸ hj)] at this
  · intro h i j hi hj
    have hi' : i < L.r := hi
    have hj' : j < L.c := hj
    rw [force_f L i j hi' hj', force_f R i j (hr ▸ hi') (hc ▸ hj')]
    exact h i j hi' hj'

theorem eqV_yes_iff (L R : Mat QI) (m : Rat) (hr : R.r = L.r) (hc : R.c = L.c) :
    eqV L R m = .yes ↔ ∀ i j, i < L.r → j < L.c → L.f i j = R.f i j := by
  rw [← eqExact_force L R hr hc]
  unfold eqV
  simp only []
  split
  · simp [*]
  · split <;> simp [*]

theorem eqV_no_ne (L R : Mat QI) (m : Rat) (hr : R.r = L.r) (hc : R.c = L.c) (h : eqV L R m = .no) :
    ∃ i j, i < L.r ∧ j < L.c ∧ L.f i j ≠ R.f i j := by
  by_contra hcon
  have hall : ∀ i j, i < L.r → j < L.c → L.f i j = R.f i j := by
    intro i j hi hj
    by_contra hne
    exact hcon ⟨i, j, hi, hj, hne⟩
  have := (eqV_yes_iff L R m hr hc).mpr hall
  rw [this] at h
  cases h


theorem maxRat_ge_left (a b : Rat) : a ≤ maxRat a b := by
  unfold maxRat; split <;> linarith
theorem maxRat_ge_right (a b : Rat) : b ≤ maxRat a b := by
  unfold maxRat; split <;> linarith

theorem foldl_maxRat (g : Nat → Rat) : ∀ (l : List Nat) (acc : Rat),
    acc ≤ l.foldl (fun a x => maxRat a (g x)) acc ∧ ∀ x ∈ l, g x ≤ l.foldl (fun a x => maxRat a (g x)) acc
  | [], acc => by simp
  | y :: l, acc => by
    have ih := foldl_maxRat g l (maxRat acc (g y))
    simp only [List.foldl_cons, List.mem_cons, forall_eq_or_imp]
    refine ⟨le_trans (maxRat_ge_left _ _) ih.1, le_trans (maxRat_ge_right _ _) ih.1, ih.2⟩

theorem foldl_outer (h : Rat → Nat → Rat) (hmono : ∀ acc i, acc ≤ h acc i) : ∀ (l : List Nat) (acc : Rat),
    acc ≤ l.foldl h acc
  | [], acc => by simp
  | y :: l, acc => by
    simp only [List.foldl_cons]
    exact le_trans (hmono acc y) (foldl_outer h hmono l _)

theorem foldl_outer_mem (h : Rat → Nat → Rat) (hmono : ∀ acc i, acc ≤ h acc i) (b : Rat) (i0 : Nat)
    (hb : ∀ acc, b ≤ h acc i0) : ∀ (l : List Nat) (acc : Rat), i0 ∈ l → b ≤ l.foldl h acc
  | [], acc, hm => by simp at hm
  | y :: l, acc, hm => by
    simp only [List.foldl_cons]
    rcases List.mem_cons.mp hm with rfl | hm'
    · exact le_trans (hb acc) (foldl_outer h hmono l _)
    · exact foldl_outer_mem h hmono b i0 hb l _ hm'

theorem abs1_le_maxAbs1 (A : Mat QI) (i j : Nat) (hi : i < A.r) (hj : j < A.c) : (A.f i j).abs1 ≤ maxAbs1 A := by
  unfold maxAbs1
  apply foldl_outer_mem _ _ _ i
  · intro acc
    exact (foldl_maxRat (fun j => (A.f i j).abs1) (List.range A.c) acc).2 j (List.mem_range.mpr hj)
  · exact List.mem_range.mpr hi
  · intro acc i'
    exact (foldl_maxRat (fun j => (A.f i' j).abs1) (List.range A.c) acc).1

/-- a `no` of the equation decider exhibits an entry where the two sides differ by at least
    `margin·(1 + scale)`, `scale` bounding every entry of both sides -/
theorem eqV_no_far (L R : Mat QI) (m : Rat) (hr : R.r = L.r) (hc : R.c = L.c) (h : eqV L R m = .no) :
    ∃ S : Rat, (∀ i j, i < L.r → j < L.c → (L.f i j).abs1 ≤ S ∧ (R.f i j).abs1 ≤ S) ∧
      ∃ i j, i < L.r ∧ j < L.c ∧ m * (1 + S) ≤ (L.f i j - R.f i j).abs1 := by
  refine ⟨maxRat (maxAbs1 (force L)) (maxAbs1 (force R)), ?_, ?_⟩
  · intro i j hi hj
    constructor
    · have := abs1_le_maxAbs1 (force L) i j hi hj
      rw [force_f L i j hi hj] at this
      exact le_trans this (maxRat_ge_left _ _)
    · have := abs1_le_maxAbs1 (force R) i j (hr ▸ hi) (hc ▸ hj)
      rw [force_f R i j (hr ▸ hi) (hc ▸ hj)] at this
      exact le_trans this (maxRat_ge_right _ _)
  · unfold eqV at h
    simp only [] at h
    split at h
    · cases h
    · split at h
      · rename_i hfar
        unfold farApart at hfar
        simp only [] at hfar
        rw [anyBelow_iff] at hfar
        obtain ⟨i, hi, hi2⟩ := hfar
        rw [anyBelow_iff] at hi2
        obtain ⟨j, hj, hij⟩ := hi2
        have hi' : i < L.r := hi
        have hj' : j < L.c := hj
        refine ⟨i, j, hi', hj', ?_⟩
        rw [force_f L i j hi' hj', force_f R i j (hr ▸ hi') (hc ▸ hj')] at hij
        simpa using hij
      · cases h

end Toq.MatrixPreds

/-! ## invariance lemmas the generators of the harness rely on (Mathlib matrices) -/

namespace Toq.MatrixInv
set_option linter.unusedSectionVars false
open Matrix

variable {n : Type} [Fintype n] [DecidableEq n]

section star
variable {R : Type} [CommRing R] [StarRing R]

theorem herm_conj (A U : Matrix n n R) (hA : A.IsHermitian) : (U * A * Uᴴ).IsHermitian := by
  unfold Matrix.IsHermitian at *
  rw [conjTranspose_mul, conjTranspose_mul, conjTranspose_conjTranspose, hA, Matrix.mul_assoc]

theorem antiherm_conj (A U : Matrix n n R) (hA : Aᴴ = -A) : (U * A * Uᴴ)ᴴ = -(U * A * Uᴴ) := by
  rw [conjTranspose_mul, conjTranspose_mul, conjTranspose_conjTranspose, hA, Matrix.mul_assoc]
  simp

theorem normal_conj (A U : Matrix n n R) (hU : Uᴴ * U = 1) (hA : A * Aᴴ = Aᴴ * A) :
    (U * A * Uᴴ) * (U * A * Uᴴ)ᴴ = (U * A * Uᴴ)ᴴ * (U * A * Uᴴ) := by
  have e : (U * A * Uᴴ)ᴴ = U * Aᴴ * Uᴴ := by
    rw [conjTranspose_mul, conjTranspose_mul, conjTranspose_conjTranspose, Matrix.mul_assoc]
  rw [e]
  calc U * A * Uᴴ * (U * Aᴴ * Uᴴ) = U * A * (Uᴴ * U) * Aᴴ * Uᴴ := by simp only [Matrix.mul_assoc]
    _ = U * (A * Aᴴ) * Uᴴ := by rw [hU]; simp only [Matrix.mul_one, Matrix.mul_assoc]
    _ = U * (Aᴴ * A) * Uᴴ := by rw [hA]
    _ = U * Aᴴ * (Uᴴ * U) * A * Uᴴ := by rw [hU]; simp only [Matrix.mul_one, Matrix.mul_assoc]
    _ = U * Aᴴ * Uᴴ * (U * A * Uᴴ) := by simp only [Matrix.mul_assoc]

theorem unitary_mul (U V : Matrix n n R) (hU : Uᴴ * U = 1) (hV : Vᴴ * V = 1) : (U * V)ᴴ * (U * V) = 1 := by
  rw [conjTranspose_mul]
  calc Vᴴ * Uᴴ * (U * V) = Vᴴ * (Uᴴ * U) * V := by simp only [Matrix.mul_assoc]
    _ = 1 := by rw [hU, Matrix.mul_one, hV]

theorem unitary_cols (U : Matrix n n R) (hU : Uᴴ * U = 1) (i j : n) :
    ∑ k, star (U k i) * U k j = if i = j then 1 else 0 := by
  have := congrFun (congrFun hU i) j
  simpa [Matrix.mul_apply, Matrix.one_apply] using this

theorem idem_conj (A U : Matrix n n R) (hU : Uᴴ * U = 1) (hA : A * A = A) :
    (U * A * Uᴴ) * (U * A * Uᴴ) = U * A * Uᴴ := by
  calc U * A * Uᴴ * (U * A * Uᴴ) = U * A * (Uᴴ * U) * A * Uᴴ := by simp only [Matrix.mul_assoc]
    _ = U * (A * A) * Uᴴ := by rw [hU]; simp only [Matrix.mul_one, Matrix.mul_assoc]
    _ = U * A * Uᴴ := by rw [hA]

theorem symm_transpose (A : Matrix n n R) (hA : Aᵀ = A) : (Aᵀ)ᵀ = Aᵀ := by
  rw [transpose_transpose]; exact hA.symm

theorem symm_congr (A Q : Matrix n n R) (hA : Aᵀ = A) : (Q * A * Qᵀ)ᵀ = Q * A * Qᵀ := by
  rw [transpose_mul, transpose_mul, transpose_transpose, hA, Matrix.mul_assoc]

end star

/-- Cayley transform in any star ring -/
theorem cayley_unitary {R : Type} [Ring R] [StarRing R] (s u : R) (hs : star s = -s)
    (h1 : u * (1 + s) = 1) (h2 : (1 + s) * u = 1) :
    star ((1 - s) * u) * ((1 - s) * u) = 1 ∧ ((1 - s) * u) * star ((1 - s) * u) = 1 := by
  have hst : star (1 - s) = 1 + s := by rw [star_sub, star_one, hs, sub_neg_eq_add]
  have hst' : star (1 + s) = 1 - s := by rw [star_add, star_one, hs, sub_eq_add_neg]
  have hcomm : (1 + s) * (1 - s) = (1 - s) * (1 + s) := by noncomm_ring
  have hu1 : star u * (1 - s) = 1 := by rw [← hst', ← star_mul, h2, star_one]
  have hu2 : (1 - s) * star u = 1 := by rw [← hst', ← star_mul, h1, star_one]
  constructor
  · rw [star_mul, hst]
    calc star u * (1 + s) * ((1 - s) * u) = star u * ((1 + s) * (1 - s)) * u := by noncomm_ring
      _ = star u * (1 - s) * ((1 + s) * u) := by rw [hcomm]; noncomm_ring
      _ = 1 := by rw [hu1, h2, one_mul]
  · rw [star_mul, hst]
    calc (1 - s) * u * (star u * (1 + s)) = (1 - s) * (u * star u) * (1 + s) := by noncomm_ring
      _ = 1 := by
        have huu : u * star u = star u * u := by
          -- both equal the inverse of (1+s)(1-s)
          have a : u * star u * ((1 - s) * (1 + s)) = 1 := by
            calc u * star u * ((1 - s) * (1 + s)) = u * (star u * (1 - s)) * (1 + s) := by noncomm_ring
              _ = 1 := by rw [hu1, mul_one, h1]
          have b : ((1 - s) * (1 + s)) * (star u * u) = 1 := by
            rw [← hcomm]
            calc (1 + s) * (1 - s) * (star u * u) = (1 + s) * ((1 - s) * star u) * u := by noncomm_ring
              _ = 1 := by rw [hu2, mul_one, h2]
          calc u * star u = u * star u * (((1 - s) * (1 + s)) * (star u * u)) := by rw [b, mul_one]
            _ = (u * star u * ((1 - s) * (1 + s))) * (star u * u) := by noncomm_ring
            _ = star u * u := by rw [a, one_mul]
        calc (1 - s) * (u * star u) * (1 + s) = ((1 - s) * star u) * (u * (1 + s)) := by rw [huu]; noncomm_ring
          _ = 1 := by rw [hu2, h1, one_mul]

end Toq.MatrixInv

/-! ## further lemmas: Kronecker spec, Gram factors, outer products, permutation matrices, decider readings -/

namespace Toq.MatrixOps
open scoped Toq.MatrixOps

theorem enc_pair (a b i j : Nat) : enc (pair a b) (pair i j) 2 = i * b + j := by
  simp [enc, pair]

theorem kron_isKron [Mul α] (A B : Mat α) : IsKron A B (kron A B) := by
  refine ⟨rfl, rfl, ?_⟩
  intro i1 i2 j1 j2 _ hi2 _ hj2
  rw [enc_pair, enc_pair]
  exact kron_block A B i1 i2 j1 j2 hi2 hj2

theorem gram_of_conj_rows [CommSemiring α] [StarRing α] (d n : Nat) (L G : Nat → Nat → α)
    (hG : ∀ i j, G i j = ∑ k ∈ Finset.range d, L i k * star (L j k)) (i j : Nat) :
    (gram d n (fun a k => star (L a k))).f i j = G i j := by
  rw [gram_f, hG]
  apply Finset.sum_congr rfl
  intro k _
  rw [star_star]

theorem gram_of_rows [CommSemiring α] [StarRing α] (d n : Nat) (L G : Nat → Nat → α)
    (hG : ∀ i j, G i j = ∑ k ∈ Finset.range d, L i k * star (L j k)) (i j : Nat) :
    (gram d n L).f i j = G j i := by
  rw [gram_f, hG]
  apply Finset.sum_congr rfl
  intro k _
  rw [mul_comm]

theorem outerConj_conj [CommSemiring α] [StarRing α] (n : Nat) (v : Nat → α) (i j : Nat) :
    star ((outerConj n v).f i j) = (outerConj n v).f j i := by
  rw [outerConj_f, outerConj_f, star_mul', star_star, mul_comm]

theorem outerConj_sq [CommSemiring α] [StarRing α] (n : Nat) (v : Nat → α) (i j : Nat) :
    (mul (outerConj n v) (outerConj n v)).f i j
      = (∑ k ∈ Finset.range n, star (v k) * v k) * (outerConj n v).f i j := by
  rw [mul_f]
  show ∑ k ∈ Finset.range n, (outerConj n v).f i k * (outerConj n v).f k j = _
  rw [Finset.sum_mul]
  apply Finset.sum_congr rfl
  intro k _
  simp only [outerConj_f]
  ring

theorem outerConj_trace [CommSemiring α] [StarRing α] (n : Nat) (v : Nat → α) :
    sumN n (fun i => (outerConj n v).f i i) = ∑ k ∈ Finset.range n, star (v k) * v k := by
  rw [sumN_eq_sum]
  apply Finset.sum_congr rfl
  intro k _
  rw [outerConj_f, mul_comm]

/-- permutation matrix with a one at `(i, σ i)` (the harness generator `perm_matrix`) -/
def permMat [Zero α] [One α] (n : Nat) (σ : Nat → Nat) : Mat α := ⟨n, n, fun i j => if σ i = j then 1 else 0⟩

theorem permMat_mul [Semiring α] (n : Nat) (σ τ : Nat → Nat) (hσ : ∀ i, i < n → σ i < n) (i j : Nat) (hi : i < n) :
    (mul (permMat n σ) (permMat n τ : Mat α)).f i j = (permMat n (fun k => τ (σ k)) : Mat α).f i j := by
  rw [mul_f]
  show ∑ k ∈ Finset.range n, (if σ i = k then (1 : α) else 0) * (if τ k = j then 1 else 0) = if τ (σ i) = j then 1 else 0
  simp only [ite_mul, one_mul, zero_mul]
  rw [Finset.sum_ite_eq]
  simp [hσ i hi]

end Toq.MatrixOps

namespace Toq.MatrixPreds
open Toq.MatrixOps

theorem hermitianV_yes_iff (A : Mat QI) (m : Rat) :
    hermitianV A m = .yes ↔ A.r = A.c ∧ ∀ i j, i < A.r → j < A.c → A.f i j = (A.f j i).conj := by
  unfold hermitianV isSquare
  by_cases h : A.r = A.c
  · simp only [h, beq_self_eq_true, Bool.not_true, Bool.false_eq_true, ↓reduceIte, true_and]
    rw [eqV_yes_iff A (ctranspose A) m (by simp [ctranspose, h]) (by simp [ctranspose, h])]
    simp [ctranspose, h, HasConj.conj]
  · simp [h]

theorem symmetricV_yes_iff (A : Mat QI) (m : Rat) :
    symmetricV A m = .yes ↔ A.r = A.c ∧ ∀ i j, i < A.r → j < A.c → A.f i j = A.f j i := by
  unfold symmetricV isSquare
  by_cases h : A.r = A.c
  · simp only [h, beq_self_eq_true, Bool.not_true, Bool.false_eq_true, ↓reduceIte, true_and]
    rw [eqV_yes_iff A (transpose A) m (by simp [transpose, h]) (by simp [transpose, h])]
    simp [transpose, h]
  · simp [h]

theorem identityV_yes_iff (A : Mat QI) (m : Rat) :
    identityV A m = .yes ↔ A.r = A.c ∧ ∀ i j, i < A.r → j < A.c → A.f i j = if i = j then 1 else 0 := by
  unfold identityV isSquare
  by_cases h : A.r = A.c
  · simp only [h, beq_self_eq_true, Bool.not_true, Bool.false_eq_true, ↓reduceIte, true_and]
    rw [eqV_yes_iff A _ m (by simp [eye, h]) (by simp [eye])]
    simp [eye, h]
  · simp [h]

theorem idempotentV_yes_iff (A : Mat QI) (m : Rat) :
    idempotentV A m = .yes ↔ A.r = A.c ∧ ∀ i j, i < A.r → j < A.c → A.f i j = sumN A.c (fun k => A.f i k * A.f k j) := by
  unfold idempotentV isSquare
  by_cases h : A.r = A.c
  · simp only [h, beq_self_eq_true, Bool.not_true, Bool.false_eq_true, ↓reduceIte, true_and]
    rw [eqV_yes_iff A (mul A A) m (by simp [mul]) (by simp [mul])]
    simp [mul, h]
  · simp [h]

theorem Verdict.and_yes_iff (a b : Verdict) : a.and b = .yes ↔ a = .yes ∧ b = .yes := by
  cases a <;> cases b <;> simp [Verdict.and]

theorem unitaryV_yes_iff (A : Mat QI) (m : Rat) :
    unitaryV A m = .yes ↔ A.r = A.c ∧
      (∀ i j, i < A.c → j < A.c → sumN A.r (fun k => (A.f k i).conj * A.f k j) = if i = j then 1 else 0) ∧
      (∀ i j, i < A.r → j < A.r → sumN A.c (fun k => A.f i k * (A.f j k).conj) = if i = j then 1 else 0) := by
  unfold unitaryV isSquare
  by_cases h : A.r = A.c
  · simp only [h, beq_self_eq_true, Bool.not_true, Bool.false_eq_true, ↓reduceIte, true_and]
    rw [Verdict.and_yes_iff,
      eqV_yes_iff _ (eye A.c) m (by simp [eye, mul, ctranspose]) (by simp [eye, mul, ctranspose]),
      eqV_yes_iff _ (eye A.c) m (by simp [eye, mul, ctranspose, h]) (by simp [eye, mul, ctranspose, h])]
    simp [mul, ctranspose, eye, h, HasConj.conj]
  · simp [h]

theorem normalV_yes_iff (A : Mat QI) (m : Rat) :
    normalV A m = .yes ↔ A.r = A.c ∧ ∀ i j, i < A.r → j < A.r →
      sumN A.c (fun k => A.f i k * (A.f j k).conj) = sumN A.r (fun k => (A.f k i).conj * A.f k j) := by
  unfold normalV isSquare
  by_cases h : A.r = A.c
  · simp only [h, beq_self_eq_true, Bool.not_true, Bool.false_eq_true, ↓reduceIte, true_and]
    rw [eqV_yes_iff _ _ m (by simp [mul, ctranspose, h]) (by simp [mul, ctranspose, h])]
    simp [mul, ctranspose, h, HasConj.conj]
  · simp [h]

end Toq.MatrixPreds

/-! ## readings of further deciders -/

namespace Toq.MatrixPreds
open Toq.MatrixOps

theorem qi_i_mul_eq_conj_iff (a b : QI) : (⟨0, 1⟩ : QI) * a = ((⟨0, 1⟩ : QI) * b).conj ↔ a = -(b.conj) := by
  cases a with | mk ar ai => cases b with | mk br bi =>
  show (⟨0 * ar - 1 * ai, 0 * ai + 1 * ar⟩ : QI) = ⟨0 * br - 1 * bi, -(0 * bi + 1 * br)⟩ ↔ (⟨ar, ai⟩ : QI) = ⟨-br, - -bi⟩
  simp only [QI.mk.injEq]
  constructor
  · rintro ⟨h1, h2⟩
    constructor <;> linarith
  · rintro ⟨h1, h2⟩
    constructor <;> linarith

theorem antiHermitianV_yes_iff (A : Mat QI) (m : Rat) :
    antiHermitianV A m = .yes ↔ A.r = A.c ∧ ∀ i j, i < A.r → j < A.c → A.f i j = -((A.f j i).conj) := by
  unfold antiHermitianV
  rw [hermitianV_yes_iff]
  simp only [scalarMul]
  constructor
  · rintro ⟨h, hall⟩
    exact ⟨h, fun i j hi hj => (qi_i_mul_eq_conj_iff _ _).mp (hall i j hi hj)⟩
  · rintro ⟨h, hall⟩
    exact ⟨h, fun i j hi hj => (qi_i_mul_eq_conj_iff _ _).mpr (hall i j hi hj)⟩

theorem projectionV_yes_iff (A : Mat QI) (m : Rat) :
    projectionV A m = .yes ↔ A.r = A.c ∧ ∀ i j, i < A.r → j < A.c → sumN A.c (fun k => A.f i k * A.f k j) = A.f i j := by
  unfold projectionV isSquare
  by_cases h : A.r = A.c
  · simp only [h, beq_self_eq_true, Bool.not_true, Bool.false_eq_true, ↓reduceIte, true_and]
    rw [eqV_yes_iff (mul A A) A m (by simp [mul]) (by simp [mul])]
    simp [mul, h]
  · simp [h]

theorem commutingV_yes_iff (A B : Mat QI) (m : Rat) (hc : A.c = B.c) :
    commutingV A B m = .yes ↔ ∀ i j, i < A.r → j < B.c →
      sumN A.c (fun k => A.f i k * B.f k j) - sumN B.c (fun k => B.f i k * A.f k j) = 0 := by
  unfold commutingV
  rw [eqV_yes_iff _ _ m (by simp [zeroMat, sub, mul]) (by simp [zeroMat, sub, mul, hc])]
  simp [sub, mul, zeroMat]

theorem circulantV_yes_iff (A : Mat QI) (m : Rat) :
    circulantV A m = .yes ↔ A.r = A.c ∧ ∀ i j, i < A.r - 1 → j < A.r → A.f (i + 1) j = A.f i ((j + A.r - 1) % A.r) := by
  unfold circulantV isSquare
  by_cases h : A.r = A.c
  · simp only [h, beq_self_eq_true, Bool.not_true, Bool.false_eq_true, ↓reduceIte, true_and]
    exact eqV_yes_iff (⟨A.c - 1, A.c, fun i j => A.f (i + 1) j⟩ : Mat QI)
      ⟨A.c - 1, A.c, fun i j => A.f i ((j + A.c - 1) % A.c)⟩ m rfl rfl
  · simp [h]

theorem Verdict.ofBool_yes_iff (b : Bool) : Verdict.ofBool b = .yes ↔ b = true := by
  cases b <;> simp [Verdict.ofBool]

theorem diagonalV_yes_iff (A : Mat QI) :
    diagonalV A = .yes ↔ A.r = A.c ∧ ∀ i j, i < A.r → j < A.c → i ≠ j → A.f i j = 0 := by
  unfold diagonalV isSquare
  by_cases h : A.r = A.c
  · simp only [h, beq_self_eq_true, Bool.not_true, Bool.false_eq_true, ↓reduceIte, true_and]
    rw [Verdict.ofBool_yes_iff, allBelow_iff]
    constructor
    · intro hall i j hi hj hne
      have := (allBelow_iff _ _).mp (hall i hi) j hj
      simpa [hne] using this
    · intro hall i hi
      rw [allBelow_iff]
      intro j hj
      by_cases hij : i = j
      · simp [hij]
      · simp [hall i j hi hj hij]
  · simp [h]

theorem permutationV_yes_iff (A : Mat QI) :
    permutationV A = .yes ↔ (∀ i j, i < A.r → j < A.c → A.f i j = 0 ∨ A.f i j = 1) ∧
      (∀ i, i < A.r → sumN A.c (fun j => A.f i j) = 1) ∧ (∀ j, j < A.c → sumN A.r (fun i => A.f i j) = 1) := by
  unfold permutationV
  rw [Verdict.ofBool_yes_iff]
  simp only [Bool.and_eq_true, allBelow_iff, Bool.or_eq_true, beq_iff_eq, and_assoc]
  exact ⟨fun ⟨a, b, c⟩ => ⟨fun i j hi hj => a i hi j hj, b, c⟩, fun ⟨a, b, c⟩ => ⟨fun i hi j hj => a i j hi hj, b, c⟩⟩

theorem isRealMat_iff (A : Mat QI) : isRealMat A = true ↔ ∀ i j, i < A.r → j < A.c → (A.f i j).im = 0 := by
  unfold isRealMat
  simp only [allBelow_iff, beq_iff_eq]
  exact ⟨fun h i j hi hj => h i hi j hj, fun h i hi j hj => h i j hi hj⟩

theorem nonnegativeV_yes_iff (A : Mat QI) :
    nonnegativeV A = .yes ↔ ∀ i j, i < A.r → j < A.c → (A.f i j).im = 0 ∧ 0 ≤ (A.f i j).re := by
  unfold nonnegativeV
  by_cases hr : isRealMat A = true
  · simp only [hr, Bool.not_true, Bool.false_eq_true, ↓reduceIte]
    rw [Verdict.ofBool_yes_iff]
    simp only [allBelow_iff, decide_eq_true_eq]
    rw [isRealMat_iff] at hr
    constructor
    · intro h i j hi hj; exact ⟨hr i j hi hj, h i hi j hj⟩
    · intro h i hi j hj; exact (h i j hi hj).2
  · simp only [hr, Bool.not_false, ↓reduceIte, reduceCtorEq, false_iff]
    intro h
    exact hr ((isRealMat_iff A).mpr (fun i j hi hj => (h i j hi hj).1))

end Toq.MatrixPreds

/-! ## soundness of the definiteness certificates -/

namespace Toq.MatrixPreds
open Matrix
open scoped ComplexOrder MatrixOrder

theorem toM_diagE {n : Nat} (D : Fin n → Rat) :
    (diagE D).toM = Matrix.diagonal (fun i => (((D i : Rat) : ℝ) : ℂ)) := by
  ext i j
  simp only [EMat.toM_apply, diagE, EMat.get_ofFn, Matrix.diagonal_apply]
  split
  · exact QI.toC_ofRat _
  · apply Complex.ext <;> simp

theorem psdCertLDL_sound {n : Nat} (A L : EMat n n) (D : Fin n → Rat) :
    psdCertLDL A L D = true → A.toM.PosSemidef := by
  intro h
  simp only [psdCertLDL, Bool.and_eq_true, EMat.allFin_iff, decide_eq_true_eq] at h
  obtain ⟨hD, hA⟩ := h
  have hE := EMat.beq_sound _ _ hA
  rw [EMat.toM_mul, EMat.toM_mul, EMat.toM_ct, toM_diagE] at hE
  rw [hE, ← Matrix.mul_assoc]
  apply Matrix.PosSemidef.mul_mul_conjTranspose_same
  apply Matrix.PosSemidef.diagonal
  intro i
  show (0 : ℂ) ≤ (((D i : Rat) : ℝ) : ℂ)
  exact_mod_cast hD i

theorem npsdCert_sound {n : Nat} (A : EMat n n) (x : EMat n 1) (μ : Rat) :
    npsdCert A x μ = true → ¬ (A.toM + (((μ : Rat) : ℝ) : ℂ) • (1 : Matrix (Fin n) (Fin n) ℂ)).PosSemidef := by
  intro h hpsd
  simp only [npsdCert, decide_eq_true_eq] at h
  have h1 := hpsd.conjTranspose_mul_mul_same x.toM
  have h2 := h1.diag_nonneg (i := (⟨0, by omega⟩ : Fin 1))
  have e : (x.toMᴴ * (A.toM + (((μ : Rat) : ℝ) : ℂ) • (1 : Matrix (Fin n) (Fin n) ℂ)) * x.toM)
      = (x.ct.mul ((A + EMat.scalar μ).mul x)).toM := by
    rw [EMat.toM_mul, EMat.toM_mul, EMat.toM_ct, EMat.toM_add, EMat.toM_scalar, Matrix.mul_assoc]
  rw [e] at h2
  have h3 := (Complex.nonneg_iff.mp h2).1
  simp only [EMat.toM_apply, QI.toC_re] at h3
  have : ((((x.ct.mul ((A + EMat.scalar μ).mul x)).get ⟨0, by omega⟩ ⟨0, by omega⟩).re : Rat) : ℝ) < 0 := by
    exact_mod_cast h
  linarith

end Toq.MatrixPreds

/-! ## soundness of the rank / independence certificates -/

namespace Toq.MatrixPreds
open Matrix

theorem linIndepCert_sound {d n : Nat} (V : EMat d n) (W : EMat n d) :
    linIndepCert V W = true → LinearIndependent ℂ V.toM.col := by
  intro h
  have hE := EMat.beq_sound _ _ h
  rw [EMat.toM_mul, EMat.toM_one] at hE
  rw [← Matrix.mulVec_injective_iff]
  intro x y hxy
  have := congrArg (fun v => W.toM *ᵥ v) hxy
  simp only [Matrix.mulVec_mulVec, hE, Matrix.one_mulVec] at this
  exact this

theorem beq_zero_iff {n m : Nat} (c : EMat n m) : c.beq EMat.zero = true ↔ ∀ i j, c.get i j = 0 := by
  simp [EMat.beq, EMat.allFin_iff]

theorem linDepCert_sound {d n : Nat} (V : EMat d n) (c : EMat n 1) :
    linDepCert V c = true → ¬ LinearIndependent ℂ V.toM.col := by
  intro h hli
  simp only [linDepCert, Bool.and_eq_true, Bool.not_eq_true', Bool.not_eq_eq_eq_not, Bool.not_true] at h
  obtain ⟨hc, hV⟩ := h
  have hE := EMat.beq_sound _ _ hV
  rw [EMat.toM_mul, EMat.toM_zero] at hE
  rw [← Matrix.mulVec_injective_iff] at hli
  have h0 : V.toM *ᵥ (fun k => c.toM k ⟨0, by omega⟩) = V.toM *ᵥ 0 := by
    rw [Matrix.mulVec_zero]
    ext a
    have := congrFun (congrFun hE a) ⟨0, by omega⟩
    simpa [Matrix.mul_apply, Matrix.mulVec, dotProduct] using this
  have hz := hli h0
  apply Bool.eq_false_iff.mp hc
  rw [beq_zero_iff]
  intro i j
  have hj : j = ⟨0, by omega⟩ := Fin.ext (by omega)
  subst hj
  have := congrFun hz i
  simp only [EMat.toM_apply, Pi.zero_apply] at this
  exact QI.toC_injective (by rw [this]; apply Complex.ext <;> simp)


theorem rankCert_sound {R C r k : Nat} (S : EMat R C) (P : EMat r R) (Q : EMat C r) (N : EMat C k) (M : EMat k C) :
    rankCert S P Q N M = true → S.toM.rank = r ∧ Module.finrank ℂ (LinearMap.ker S.toM.mulVecLin) = k := by
  intro h
  simp only [rankCert, Bool.and_eq_true, decide_eq_true_eq] at h
  obtain ⟨⟨⟨hrk, hP⟩, hN⟩, hM⟩ := h
  have eP := EMat.beq_sound _ _ hP
  have eN := EMat.beq_sound _ _ hN
  have eM := EMat.beq_sound _ _ hM
  rw [EMat.toM_mul, EMat.toM_mul, EMat.toM_one] at eP
  rw [EMat.toM_mul, EMat.toM_zero] at eN
  rw [EMat.toM_mul, EMat.toM_one] at eM
  -- rank S ≥ r
  have h1 : r ≤ S.toM.rank := by
    have : (1 : Matrix (Fin r) (Fin r) ℂ).rank = r := by rw [Matrix.rank_one]; simp
    calc r = (1 : Matrix (Fin r) (Fin r) ℂ).rank := this.symm
      _ = (P.toM * (S.toM * Q.toM)).rank := by rw [eP]
      _ ≤ (S.toM * Q.toM).rank := Matrix.rank_mul_le_right _ _
      _ ≤ S.toM.rank := Matrix.rank_mul_le_left _ _
  -- rank N = k
  have h2 : k ≤ N.toM.rank := by
    have : (1 : Matrix (Fin k) (Fin k) ℂ).rank = k := by rw [Matrix.rank_one]; simp
    calc k = (1 : Matrix (Fin k) (Fin k) ℂ).rank := this.symm
      _ = (M.toM * N.toM).rank := by rw [eM]
      _ ≤ N.toM.rank := Matrix.rank_mul_le_right _ _
  -- range N ≤ ker S
  have h3 : LinearMap.range N.toM.mulVecLin ≤ LinearMap.ker S.toM.mulVecLin := by
    rintro _ ⟨v, rfl⟩
    rw [LinearMap.mem_ker, Matrix.mulVecLin_apply, Matrix.mulVecLin_apply, Matrix.mulVec_mulVec, eN, Matrix.zero_mulVec]
  have h4 : k ≤ Module.finrank ℂ (LinearMap.ker S.toM.mulVecLin) :=
    le_trans h2 (Submodule.finrank_mono h3)
  have h5 := LinearMap.finrank_range_add_finrank_ker S.toM.mulVecLin
  have h6 : Module.finrank ℂ (Fin C → ℂ) = C := by simp
  rw [h6] at h5
  have h7 : S.toM.rank = Module.finrank ℂ (LinearMap.range S.toM.mulVecLin) := rfl
  omega

end Toq.MatrixPreds


/-! ## exact rank (shared routine `Toq.Rank`): rank, spark, linear independence, commutant nullity -/

namespace Toq.MatrixOps
open Matrix


/-- the complex `r × c` matrix denoted by the leading block of exact rows -/
def qmatToM (r c : Nat) (M : QMat) : Matrix (Fin r) (Fin c) ℂ := fun i j => (M.get i.val j.val).toC

theorem rank_eq_rank (rows cols : Nat) (M : QMat) : rank rows cols M = (qmatToM rows cols M).rank :=
  Toq.Rank.rankFn_eq_rank rows cols M.get

theorem selectCols_get (M : QMat) (cols : List Nat) (i t : Nat) (ht : t < cols.length) :
    (selectCols M cols).get i t = M.get i cols[t] := by
  unfold selectCols QMat.get
  by_cases hi : i < M.size
  · simp [hi, ht]
  · have hd : (default : Array QI) = #[] := rfl
    simp [hi, hd]

/-- the columns `cols` of `M` (with `m` rows) as complex vectors -/
def colFamily (m : Nat) (M : QMat) (cols : List Nat) : Fin cols.length → Fin m → ℂ :=
  fun t i => (M.get i.val cols[t.val]).toC

theorem rank_selectCols_lt_iff (m : Nat) (M : QMat) (cols : List Nat) :
    rank m cols.length (selectCols M cols) < cols.length ↔ ¬ LinearIndependent ℂ (colFamily m M cols) := by
  rw [rank_eq_rank]
  have hle : (qmatToM m cols.length (selectCols M cols)).rank ≤ cols.length := Matrix.rank_le_width _
  have hcol : (qmatToM m cols.length (selectCols M cols)).col = colFamily m M cols := by
    funext t i
    simp [qmatToM, colFamily, Matrix.col, selectCols_get]
  rw [← hcol, Toq.Rank.linearIndependent_col_iff_rank]
  omega

theorem length_of_mem_go (n : Nat) : ∀ (fuel lo k : Nat) (c : List Nat), c ∈ combinations.go n lo k fuel → c.length = k := by
  intro fuel
  induction fuel with
  | zero =>
    intro lo k c hc
    unfold combinations.go at hc
    split at hc
    · simp at hc; subst hc; simp_all
    · simp at hc
  | succ fuel ih =>
    intro lo k c hc
    unfold combinations.go at hc
    split at hc
    · simp at hc; subst hc; simp_all
    · split at hc
      · simp at hc
      · rw [List.mem_append, List.mem_map] at hc
        rcases hc with ⟨t, ht, rfl⟩ | hc
        · have := ih _ _ _ ht
          simp [this]; omega
        · exact ih _ _ _ hc

theorem length_of_mem_combinations (n k : Nat) (c : List Nat) (hc : c ∈ combinations n k) : c.length = k := by
  cases k with
  | zero => simp [combinations] at hc; subst hc; rfl
  | succ k => exact length_of_mem_go n _ _ _ c hc

theorem find?_range {p : Nat → Bool} : ∀ (N k : Nat), (List.range N).find? p = some k →
    p k = true ∧ k < N ∧ ∀ j, j < k → p j = false
  | 0, k, h => by simp at h
  | N + 1, k, h => by
    rw [List.range_succ, List.find?_append] at h
    cases hN : (List.range N).find? p with
    | some k' =>
      rw [hN] at h
      simp at h
      subst h
      obtain ⟨h1, h2, h3⟩ := find?_range N k' hN
      exact ⟨h1, by omega, h3⟩
    | none =>
      rw [hN] at h
      simp at h
      obtain ⟨hp, rfl⟩ := h
      refine ⟨hp, by omega, fun j hj => ?_⟩
      rw [List.find?_eq_none] at hN
      have := hN j (List.mem_range.mpr hj)
      simpa using this

theorem find?_range_none {p : Nat → Bool} (N : Nat) (h : (List.range N).find? p = none) (j : Nat) (hj : j < N) : p j = false := by
  rw [List.find?_eq_none] at h
  simpa using h j (List.mem_range.mpr hj)

/-- some `k` columns of `M` (`m` rows, `n` columns), with indices enumerated by `combinations n k` (the order of
    `itertools.combinations(range(n), k)`), are linearly dependent over `ℂ` -/
def DependentCols (m n : Nat) (M : QMat) (k : Nat) : Prop :=
  ∃ cols ∈ combinations n k, ¬ LinearIndependent ℂ (colFamily m M cols)

theorem any_rank_test_iff (m n : Nat) (M : QMat) (k : Nat) :
    (combinations n k).any (fun cols => rank m k (selectCols M cols) < k) = true ↔ DependentCols m n M k := by
  rw [List.any_eq_true]
  constructor
  · rintro ⟨cols, hc, h⟩
    have hl := length_of_mem_combinations n k cols hc
    refine ⟨cols, hc, ?_⟩
    rw [← rank_selectCols_lt_iff, hl]
    simpa using h
  · rintro ⟨cols, hc, h⟩
    have hl := length_of_mem_combinations n k cols hc
    refine ⟨cols, hc, ?_⟩
    rw [← rank_selectCols_lt_iff, hl] at h
    simpa using h

def HasZeroCol (m n : Nat) (M : QMat) : Prop := ∃ j, j < n ∧ ∀ i, i < m → M.get i j = 0

theorem zeroCol_iff (m n : Nat) (M : QMat) :
    anyBelow n (fun j => allBelow m (fun i => M.get i j == 0)) = true ↔ HasZeroCol m n M := by
  rw [anyBelow_iff]
  constructor
  · rintro ⟨j, hj, h⟩
    rw [allBelow_iff] at h
    exact ⟨j, hj, fun i hi => by simpa using h i hi⟩
  · rintro ⟨j, hj, h⟩
    refine ⟨j, hj, ?_⟩
    rw [allBelow_iff]
    intro i hi
    simpa using h i hi

theorem spark_of_zeroCol (m n : Nat) (M : QMat) (h : HasZeroCol m n M) : spark m n M = 1 := by
  unfold spark
  rw [if_pos ((zeroCol_iff m n M).mpr h)]

theorem spark_spec_aux (m n : Nat) (M : QMat) (h : ¬ HasZeroCol m n M) :
    1 ≤ spark m n M ∧ spark m n M ≤ min m n + 1 ∧
    (spark m n M ≤ min m n → DependentCols m n M (spark m n M)) ∧
    (∀ k, 1 ≤ k → k < spark m n M → ¬ DependentCols m n M k) := by
  unfold spark
  rw [if_neg (fun hz => h ((zeroCol_iff m n M).mp hz))]
  cases hf : (List.range (min m n)).find? (fun k0 =>
        (combinations n (k0 + 1)).any (fun cols => rank m (k0 + 1) (selectCols M cols) < k0 + 1)) with
  | some k0 =>
    obtain ⟨h1, h2, h3⟩ := find?_range _ _ hf
    refine ⟨by simp, by simp; omega, fun _ => (any_rank_test_iff m n M (k0 + 1)).mp h1, ?_⟩
    intro k hk1 hk2 hd
    have hk2' : k - 1 < k0 := by simp at hk2; omega
    have := h3 (k - 1) hk2'
    have hk : k - 1 + 1 = k := by omega
    rw [hk] at this
    rw [← any_rank_test_iff, this] at hd
    exact Bool.false_ne_true hd
  | none =>
    refine ⟨by simp, le_refl _, fun hle => absurd hle (by simp only [not_le]; omega), ?_⟩
    intro k hk1 hk2 hd
    have hk2' : k - 1 < min m n := by simp at hk2 ⊢; omega
    have := find?_range_none _ hf (k - 1) hk2'
    have hk : k - 1 + 1 = k := by omega
    simp only [hk] at this
    rw [← any_rank_test_iff, this] at hd
    exact Bool.false_ne_true hd

theorem commutantDim_eq (dim : Nat) (gens : List (Mat QI)) :
    commutantDim dim gens
      = Module.finrank ℂ (LinearMap.ker (qmatToM (gens.length * dim * dim) (dim * dim) (commStack dim gens)).mulVecLin) := by
  unfold commutantDim
  rw [rank_eq_rank, Toq.Rank.finrank_ker_eq]


theorem mem_go_iff (n : Nat) : ∀ (fuel lo k : Nat) (c : List Nat), n - lo ≤ fuel →
    (c ∈ combinations.go n lo k fuel ↔ c.length = k ∧ c.Pairwise (· < ·) ∧ ∀ x ∈ c, lo ≤ x ∧ x < n) := by
  intro fuel
  induction fuel with
  | zero =>
    intro lo k c hf
    unfold combinations.go
    split
    · next hk =>
      subst hk
      simp only [List.mem_singleton]
      constructor
      · rintro rfl; simp
      · rintro ⟨h, _, _⟩; exact List.length_eq_zero_iff.mp h
    · next hk =>
      simp only [List.not_mem_nil, false_iff]
      rintro ⟨hl, _, hx⟩
      cases c with
      | nil => exact hk hl.symm
      | cons x t => have := hx x (List.mem_cons_self); omega
  | succ fuel ih =>
    intro lo k c hf
    unfold combinations.go
    split
    · next hk =>
      subst hk
      simp only [List.mem_singleton]
      constructor
      · rintro rfl; simp
      · rintro ⟨h, _, _⟩; exact List.length_eq_zero_iff.mp h
    · next hk =>
      split
      · next hlo =>
        simp only [List.not_mem_nil, false_iff]
        rintro ⟨hl, _, hx⟩
        cases c with
        | nil => exact hk hl.symm
        | cons x t => have := hx x (List.mem_cons_self); omega
      · next hlo =>
        rw [List.mem_append, List.mem_map]
        constructor
        · rintro (⟨t, ht, rfl⟩ | hc)
          · obtain ⟨h1, h2, h3⟩ := (ih (lo + 1) (k - 1) t (by omega)).mp ht
            refine ⟨by simp [h1]; omega, ?_, ?_⟩
            · rw [List.pairwise_cons]
              exact ⟨fun a ha => by have := h3 a ha; omega, h2⟩
            · intro x hx
              rcases List.mem_cons.mp hx with rfl | hx
              · omega
              · have := h3 x hx; omega
          · obtain ⟨h1, h2, h3⟩ := (ih (lo + 1) k c (by omega)).mp hc
            exact ⟨h1, h2, fun x hx => by have := h3 x hx; omega⟩
        · rintro ⟨h1, h2, h3⟩
          cases c with
          | nil => exact absurd h1.symm hk
          | cons x t =>
            rw [List.pairwise_cons] at h2
            have hx := h3 x List.mem_cons_self
            by_cases hxl : x = lo
            · left
              refine ⟨t, (ih (lo + 1) (k - 1) t (by omega)).mpr ⟨by simp at h1; omega, h2.2, ?_⟩, by rw [hxl]⟩
              intro y hy
              have := h2.1 y hy
              have := h3 y (List.mem_cons_of_mem _ hy)
              omega
            · right
              refine (ih (lo + 1) k (x :: t) (by omega)).mpr ⟨h1, List.pairwise_cons.mpr h2, ?_⟩
              intro y hy
              rcases List.mem_cons.mp hy with rfl | hy
              · omega
              · have := h2.1 y hy
                have := h3 y (List.mem_cons_of_mem _ hy)
                omega

/-- `combinations n k` lists exactly the strictly increasing index lists of length `k` below `n` -/
theorem mem_combinations_iff (n k : Nat) (c : List Nat) :
    c ∈ combinations n k ↔ c.length = k ∧ c.Pairwise (· < ·) ∧ ∀ x ∈ c, x < n := by
  cases k with
  | zero =>
    simp only [combinations, List.mem_singleton]
    constructor
    · rintro rfl; simp
    · rintro ⟨h, _, _⟩; exact List.length_eq_zero_iff.mp h
  | succ k =>
    show c ∈ combinations.go n 0 (k + 1) n ↔ _
    rw [mem_go_iff n n 0 (k + 1) c (by omega)]
    simp


theorem dependentCols_iff (m n : Nat) (M : QMat) (k : Nat) :
    DependentCols m n M k ↔ ∃ cols : List Nat, cols.length = k ∧ cols.Pairwise (· < ·) ∧ (∀ x ∈ cols, x < n) ∧
      ¬ LinearIndependent ℂ (colFamily m M cols) := by
  unfold DependentCols
  constructor
  · rintro ⟨cols, hc, h⟩
    obtain ⟨h1, h2, h3⟩ := (mem_combinations_iff n k cols).mp hc
    exact ⟨cols, h1, h2, h3, h⟩
  · rintro ⟨cols, h1, h2, h3, h⟩
    exact ⟨cols, (mem_combinations_iff n k cols).mpr ⟨h1, h2, h3⟩, h⟩

end Toq.MatrixOps

namespace Toq.MatrixPreds
open Toq.MatrixOps Matrix


theorem qmatToM_ofMat (A : Mat QI) : qmatToM A.r A.c (QMat.ofMat A) = fun i j => (A.f i.val j.val).toC := by
  funext i j
  simp [qmatToM, ofMat_get A i.val j.val i.isLt j.isLt]

theorem rankOfColumns_eq (d n : Nat) (vs : Nat → Nat → QI) :
    rankOfColumns d n vs = (Matrix.of fun (a : Fin d) (k : Fin n) => (vs k.val a.val).toC).rank := by
  unfold rankOfColumns
  rw [rank_eq_rank, qmatToM_ofMat ⟨d, n, fun a k => vs k a⟩]
  rfl

theorem linIndepV_yes_iff' (d n : Nat) (vs : Nat → Nat → QI) :
    linIndepV d n vs = .yes ↔ LinearIndependent ℂ (fun (k : Fin n) (a : Fin d) => (vs k.val a.val).toC) := by
  unfold linIndepV
  rw [Verdict.ofBool_yes_iff, beq_iff_eq, rankOfColumns_eq, ← Toq.Rank.linearIndependent_col_iff_rank]
  rfl


end Toq.MatrixPreds
