import Toq.Proofs.XorTsirelson
/-!
# Every Tsirelson-feasible point is feasible for the level-1 NPA program of the converted game (C08)

toqito's level-1 moment matrix of a game with two answers per player is indexed by the words `1, A_x^0, B_y^0`
(projectors on answer 0) and is tied to the behaviour `K(a,b|x,y)` by `R[1,1] = 1`, `R[A_x^0, B_y^0] = K(0,0|x,y)`,
`R[1, A_x^0] = R[A_x^0, A_x^0] = Σ_b K(0,b|x,y)`, `R[1, B_y^0] = R[B_y^0, B_y^0] = Σ_a K(a,0|x,y)` (for every `y`, resp. `x`:
marginal consistency), `K ≥ 0`, `Σ_{a,b} K = 1`.  From unit vectors `u_x, v_y` with `⟨u_x, v_y⟩ = c[x,y]` the behaviour
`K(a,b|x,y) = (1 + (-1)^{a+b} c[x,y])/4` and the Gram matrix of `1 ↦ e₀`, `A_x^0 ↦ (e₀ + u_x)/2`, `B_y^0 ↦ (e₀ + v_y)/2`
satisfy all of them.
-/

open Matrix
open scoped ComplexOrder MatrixOrder

namespace Toq.Xor

/-- `(-1)^a` for an answer bit -/
def sgn (a : Fin 2) : ℝ := if a = 0 then 1 else -1

/-- the behaviour with unbiased marginals and correlators `c` : `K(a,b|x,y) = (1 + (-1)^{a+b} c[x,y]) / 4` -/
noncomputable def corrBeh {X Y : Type*} (c : X → Y → ℝ) (a b : Fin 2) (x : X) (y : Y) : ℝ :=
  (1 + sgn a * sgn b * c x y) / 4

section
variable {X Y : Type*} [Fintype X] [Fintype Y]

/-- vectors of the level-1 words in the projector basis: `1 ↦ e₀`, `P_i ↦ (e₀ + w_i)/2` -/
noncomputable def npa1Vec {κ : Type*} {n : Nat} (w : κ → Fin n → ℝ) : Unit ⊕ κ → Unit ⊕ Fin n → ℝ
  | .inl _ => Sum.elim (fun _ => 1) (fun _ => 0)
  | .inr i => Sum.elim (fun _ => 1 / 2) (fun k => w i k / 2)

theorem abs_inner_le_one {n : Nat} (u v : Fin n → ℝ) (hu : ∑ k, u k ^ 2 = 1) (hv : ∑ k, v k ^ 2 = 1) :
    -1 ≤ ∑ k, u k * v k ∧ ∑ k, u k * v k ≤ 1 := by
  have h1 : 0 ≤ ∑ k, (u k - v k) ^ 2 := Finset.sum_nonneg fun k _ => sq_nonneg _
  have h2 : 0 ≤ ∑ k, (u k + v k) ^ 2 := Finset.sum_nonneg fun k _ => sq_nonneg _
  have e1 : ∑ k, (u k - v k) ^ 2 = ∑ k, u k ^ 2 + ∑ k, v k ^ 2 - 2 * ∑ k, u k * v k := by
    rw [Finset.mul_sum, ← Finset.sum_add_distrib, ← Finset.sum_sub_distrib]
    exact Finset.sum_congr rfl fun k _ => by ring
  have e2 : ∑ k, (u k + v k) ^ 2 = ∑ k, u k ^ 2 + ∑ k, v k ^ 2 + 2 * ∑ k, u k * v k := by
    rw [Finset.mul_sum, ← Finset.sum_add_distrib, ← Finset.sum_add_distrib]
    exact Finset.sum_congr rfl fun k _ => by ring
  rw [e1, hu, hv] at h1
  rw [e2, hu, hv] at h2
  constructor <;> linarith

omit [Fintype X] [Fintype Y] in
theorem corrBeh_props (c : X → Y → ℝ) (hc : ∀ x y, -1 ≤ c x y ∧ c x y ≤ 1) :
    (∀ a b x y, 0 ≤ corrBeh c a b x y) ∧
    (∀ x y, ∑ a, ∑ b, corrBeh c a b x y = 1) ∧
    (∀ a x y, ∑ b, corrBeh c a b x y = 1 / 2) ∧
    (∀ b x y, ∑ a, corrBeh c a b x y = 1 / 2) ∧
    (∀ x y, ∑ a, ∑ b, sgn a * sgn b * corrBeh c a b x y = c x y) := by
  refine ⟨fun a b x y => ?_, fun x y => ?_, fun a x y => ?_, fun b x y => ?_, fun x y => ?_⟩
  · obtain ⟨h1, h2⟩ := hc x y
    unfold corrBeh sgn
    split <;> split <;> norm_num <;> linarith
  · simp [Fin.sum_univ_two, corrBeh, sgn]; ring
  · fin_cases a <;> simp [Fin.sum_univ_two, corrBeh, sgn] <;> ring
  · fin_cases b <;> simp [Fin.sum_univ_two, corrBeh, sgn] <;> ring
  · simp [Fin.sum_univ_two, corrBeh, sgn]; ring

/-- **Tsirelson-feasible ⇒ level-1 NPA feasible (projector basis).**  For a vector correlation `c` there is a
    positive semidefinite `R` on the words `1, A_x^0, B_y^0` satisfying every relation that ties toqito's level-1 moment
    matrix to the behaviour `corrBeh c`. -/
theorem npa1_feasible_of_vectorCorr [DecidableEq X] [DecidableEq Y] (c : X → Y → ℝ) (h : IsVectorCorr c) :
    (∀ x y, -1 ≤ c x y ∧ c x y ≤ 1) ∧
    ∃ R : Matrix (Unit ⊕ (X ⊕ Y)) (Unit ⊕ (X ⊕ Y)) ℂ, R.PosSemidef ∧ R (.inl ()) (.inl ()) = 1 ∧
      (∀ x y, R (.inr (.inl x)) (.inr (.inr y)) = ((corrBeh c 0 0 x y : ℝ) : ℂ)) ∧
      (∀ x y, R (.inl ()) (.inr (.inl x)) = ((∑ b, corrBeh c 0 b x y : ℝ) : ℂ)) ∧
      (∀ x y, R (.inr (.inl x)) (.inr (.inl x)) = ((∑ b, corrBeh c 0 b x y : ℝ) : ℂ)) ∧
      (∀ x y, R (.inl ()) (.inr (.inr y)) = ((∑ a, corrBeh c a 0 x y : ℝ) : ℂ)) ∧
      (∀ x y, R (.inr (.inr y)) (.inr (.inr y)) = ((∑ a, corrBeh c a 0 x y : ℝ) : ℂ)) := by
  obtain ⟨n, u, v, hu, hv, hc⟩ := (isVectorCorr_iff_vectors c).mp h
  have hb : ∀ x y, -1 ≤ c x y ∧ c x y ≤ 1 := fun x y => by
    rw [← hc x y]; exact abs_inner_le_one _ _ (hu x) (hv y)
  have hP := corrBeh_props c hb
  have hu' : ∀ x, ∑ k, u x k * u x k = 1 := fun x => by
    rw [← hu x]; exact Finset.sum_congr rfl fun k _ => (sq _).symm
  have hv' : ∀ y, ∑ k, v y k * v y k = 1 := fun y => by
    rw [← hv y]; exact Finset.sum_congr rfl fun k _ => (sq _).symm
  refine ⟨hb, gram (npa1Vec (Sum.elim u v)), gram_psd _, ?_, ?_, ?_, ?_, ?_, ?_⟩
  · simp [gram, npa1Vec]
  · intro x y
    simp only [gram, npa1Vec, Fintype.sum_sum_type, Sum.elim_inl, Sum.elim_inr, corrBeh, sgn]
    congr 1
    have : ∑ k, u x k / 2 * (v y k / 2) = (∑ k, u x k * v y k) / 4 := by
      rw [Finset.sum_div]; exact Finset.sum_congr rfl fun k _ => by ring
    simp [this, hc]; ring
  · intro x y
    rw [hP.2.2.1 0 x y]
    simp [gram, npa1Vec]
  · intro x y
    rw [hP.2.2.1 0 x y]
    simp only [gram, npa1Vec, Fintype.sum_sum_type, Sum.elim_inl, Sum.elim_inr]
    congr 1
    have : ∑ k, u x k / 2 * (u x k / 2) = (∑ k, u x k * u x k) / 4 := by
      rw [Finset.sum_div]; exact Finset.sum_congr rfl fun k _ => by ring
    simp [this, hu']; norm_num
  · intro x y
    rw [hP.2.2.2.1 0 x y]
    simp [gram, npa1Vec]
  · intro x y
    rw [hP.2.2.2.1 0 x y]
    simp only [gram, npa1Vec, Fintype.sum_sum_type, Sum.elim_inl, Sum.elim_inr]
    congr 1
    have : ∑ k, v y k / 2 * (v y k / 2) = (∑ k, v y k * v y k) / 4 := by
      rw [Finset.sum_div]; exact Finset.sum_congr rfl fun k _ => by ring
    simp [this, hv']; norm_num

end

end Toq.Xor
