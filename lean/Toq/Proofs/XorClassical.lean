import Toq.Model.XorPath
import Toq.Proofs.Xor
import Toq.Proofs.Games
/-!
# `XORGame.classical_value` through the converted game (C08, on top of the C07 model of `NonlocalGame`)

`XORGame.classical_value` is literally `self.to_nonlocal_game().classical_value()`: the predicate tensor
`nlgPred pred` (2 answers per player) is handed to `NonlocalGame(prob_mat, nlg_pred_mat, reps)`, whose
`classical_value` is mirrored line by line by `Toq.Games.classicalValueFixed` (scaled copy, role swap, transposes,
`process_iteration`, running maximum).  Here the two mirrors are composed and shown to return the specification
`xorClassicalValue` (maximum of the winning probability over all pairs of bit-valued answer functions) for all sizes.
-/

namespace Toq.Xor
open Toq.Games Toq.Games.Spec

/-- `detWin` is the deterministic value of the converted game in the vocabulary of the `NonlocalGame` model -/
theorem detWin_eq_detValueN (m n : Nat) (prob : Nat → Nat → Rat) (pred : Nat → Nat → Nat) (α β : Nat → Nat) :
    detWin m n prob pred α β = detValueN m n prob (nlgPred pred) α β := rfl

/-- `xorClassicalValue` is the maximum of the specification `detValue` of the converted game -/
theorem xorClassicalValue_isMaxDet (m n : Nat) (prob : Nat → Nat → Rat) (pred : Nat → Nat → Nat) :
    IsMaxDet 2 2 m n prob (nlgPred pred) (xorClassicalValue m n prob pred) := by
  constructor
  · obtain ⟨α, β, hb, e⟩ := classicalValue_attained m n prob pred
    refine ⟨fun x => ⟨α x, hb.1 x x.2⟩, fun y => ⟨β y, hb.2 y y.2⟩, ?_⟩
    rw [← e, detWin_eq_detValueN]
    exact (detValueN_eq 2 2 m n prob (nlgPred pred) α β _ _ (fun _ => rfl) (fun _ => rfl)).symm
  · intro f g
    have h := detWin_le_classicalValue m n prob pred (ext f) (ext g)
      ⟨fun x hx => ext_lt f x hx, fun y hy => ext_lt g y hy⟩
    rw [detWin_eq_detValueN,
      detValueN_eq 2 2 m n prob (nlgPred pred) (ext f) (ext g) f g (fun x => ext_val f x) (fun y => ext_val g y)] at h
    exact h

/-- the composed mirror returns the specification, for all sizes, distributions and predicates -/
theorem xorClassicalPath_eq (m n : Nat) (prob : Nat → Nat → Rat) (pred : Nat → Nat → Nat) :
    xorClassicalPath m n prob pred = some (xorClassicalValue m n prob pred) := by
  obtain ⟨v, hv, hmax⟩ := classicalValueGen_isMaxDet true 2 2 m n prob (nlgPred pred) (by omega) (by omega)
    (Or.inl rfl)
  have e1 := isMaxDet_eq 2 2 m n prob (nlgPred pred) v hmax
  have e2 := isMaxDet_eq 2 2 m n prob (nlgPred pred) _ (xorClassicalValue_isMaxDet m n prob pred)
  unfold xorClassicalPath classicalValueFixed
  rw [hv, e1, ← e2]

instance (r : Nat) : NeZero (2 ^ r) := ⟨Nat.pos_iff_ne_zero.mp (Nat.pow_pos (by omega))⟩

/-- with repetitions the composed mirror returns the classical value (maximum over all pairs of answer functions) of the
    product game that the constructor builds -/
theorem xorClassicalPathReps_eq (m n reps : Nat) (prob : Nat → Nat → Rat) (pred : Nat → Nat → Nat) :
    xorClassicalPathReps m n reps prob pred
      = some (maxDetValue (2 ^ reps) (2 ^ reps) (m ^ reps) (n ^ reps) (productProb m n reps prob)
          (productPred 2 2 m n reps (nlgPred pred))) := by
  obtain ⟨v, hv, hmax⟩ := classicalValueGen_isMaxDet true (2 ^ reps) (2 ^ reps) (m ^ reps) (n ^ reps)
    (productProb m n reps prob) (productPred 2 2 m n reps (nlgPred pred)) (Nat.pow_pos (by omega))
    (Nat.pow_pos (by omega)) (Or.inl rfl)
  unfold xorClassicalPathReps classicalValueFixed
  rw [hv, isMaxDet_eq _ _ _ _ _ _ v hmax]

/-- one repetition: the call is the single-shot path -/
theorem xorClassicalCall_one (m n : Nat) (prob : Nat → Nat → Rat) (pred : Nat → Nat → Nat) :
    xorClassicalCall m n 1 prob pred = some (xorClassicalValue m n prob pred) := by
  unfold xorClassicalCall
  rw [if_pos rfl, xorClassicalPath_eq]

end Toq.Xor
