import Toq.Proofs.MetricsWatrousGen
/-!
# Matsumoto fidelity: the Hermitian-restricted program computes `tr(ρ # σ)` for positive definite `ρ` (Cree–Sikora)

`sub_posSemidef_of_sq_le_sq` (`K² ≤ T² ⟹ K ≤ T`, operator monotonicity of the square root, by a minimal-eigenvector argument in trace
form), feasibility of `ρ # σ`, and the Schur-complement argument `W ≤ ρ # σ` for every Hermitian feasible `W`.
-/

open Matrix
open scoped ComplexOrder MatrixOrder

set_option linter.unusedSectionVars false

namespace Toq.Metrics
section Matsumoto
variable {ι : Type*} [Fintype ι] [DecidableEq ι]

theorem conjDiag_ind_mul (V : Matrix ι ι ℂ) (i : ι) (f : ι → ℝ) :
    conjDiag V (fun j => ind i j * f j) = ((f i : ℝ) : ℂ) • conjDiag V (ind i) := by
  unfold conjDiag
  rw [← Matrix.smul_mul, ← Matrix.mul_smul]
  congr 2
  ext a b
  by_cases hab : a = b
  · subst hab
    by_cases hai : a = i
    · subst hai; simp [ind]
    · simp [ind, hai]
  · simp [hab]

/-- operator monotonicity of the square root in the form needed here: `K² ≤ T²`, `T ⪰ 0`, `K` Hermitian give `K ≤ T` -/
theorem sub_posSemidef_of_sq_le_sq {K T : Matrix ι ι ℂ} (hK : K.IsHermitian) (hT : T.PosSemidef)
    (h : (T * T - K * K).PosSemidef) : (T - K).PosSemidef := by
  have hD : (T - K).IsHermitian := hT.isHermitian.sub hK
  obtain ⟨V, hV, hV', hDe⟩ := exists_conjDiag hD
  set mu := hD.eigenvalues with hmu
  rw [hDe]
  refine conjDiag_posSemidef V fun i => ?_
  have hpvm := isPVM_basis hV hV'
  set P := conjDiag V (ind i) with hP
  have hPD : P * (T - K) = ((mu i : ℝ) : ℂ) • P := by
    rw [hDe, hP, conjDiag_mul hV, conjDiag_ind_mul]
  have hDP : (T - K) * P = ((mu i : ℝ) : ℂ) • P := by
    rw [hDe, hP, conjDiag_mul hV]
    have : (fun j => mu j * ind i j) = fun j => ind i j * mu j := funext fun j => mul_comm _ _
    rw [this, conjDiag_ind_mul]
  have ht : 0 ≤ (P * T).trace.re := psd_trace_mul_nonneg (hpvm.posSemidef i) hT
  have hq : 0 ≤ (P * (T * T - K * K)).trace.re := psd_trace_mul_nonneg (hpvm.posSemidef i) h
  have hPtr : P.trace.re = 1 := by rw [hP, conjDiag_trace_re hV]; simp [ind]
  -- T² − K² = T D + D T − D D with D = T − K
  have e : T * T - K * K = T * (T - K) + (T - K) * T - (T - K) * (T - K) := by
    simp only [Matrix.mul_sub, Matrix.sub_mul]; abel
  have e1 : (P * (T * (T - K))).trace = ((mu i : ℝ) : ℂ) * (P * T).trace := by
    calc (P * (T * (T - K))).trace = ((P * T) * (T - K)).trace := by rw [Matrix.mul_assoc]
      _ = ((T - K) * (P * T)).trace := Matrix.trace_mul_comm _ _
      _ = (((T - K) * P) * T).trace := by rw [Matrix.mul_assoc]
      _ = _ := by rw [hDP, Matrix.smul_mul, Matrix.trace_smul, smul_eq_mul]
  have e2 : (P * ((T - K) * T)).trace = ((mu i : ℝ) : ℂ) * (P * T).trace := by
    rw [← Matrix.mul_assoc, hPD, Matrix.smul_mul, Matrix.trace_smul, smul_eq_mul]
  have e3 : (P * ((T - K) * (T - K))).trace = ((mu i : ℝ) : ℂ) * (((mu i : ℝ) : ℂ) * P.trace) := by
    rw [← Matrix.mul_assoc, hPD, Matrix.smul_mul, hPD, Matrix.trace_smul, Matrix.trace_smul, smul_eq_mul, smul_eq_mul]
  rw [e, Matrix.mul_sub, Matrix.mul_add, Matrix.trace_sub, Matrix.trace_add, e1, e2, e3] at hq
  simp only [Complex.sub_re, Complex.add_re, Complex.re_ofReal_mul, hPtr] at hq
  by_contra hneg
  rw [not_le] at hneg
  nlinarith

/-- the matrix geometric mean `ρ # σ = ρ^{1/2} (ρ^{-1/2} σ ρ^{-1/2})^{1/2} ρ^{1/2}` (for invertible `ρ`) -/
noncomputable def geoMean (ρ σ : Matrix ι ι ℂ) : Matrix ι ι ℂ :=
  CFC.sqrt ρ * CFC.sqrt ((CFC.sqrt ρ)⁻¹ * σ * (CFC.sqrt ρ)⁻¹) * CFC.sqrt ρ

/-- facts about `R = √ρ` for positive definite `ρ` -/
theorem sqrt_posDef_facts {ρ : Matrix ι ι ℂ} (hρ : ρ.PosDef) :
    (CFC.sqrt ρ).IsHermitian ∧ CFC.sqrt ρ * CFC.sqrt ρ = ρ ∧ (CFC.sqrt ρ)⁻¹ * CFC.sqrt ρ = 1 ∧
      CFC.sqrt ρ * (CFC.sqrt ρ)⁻¹ = 1 ∧ ((CFC.sqrt ρ)⁻¹).IsHermitian := by
  set R := CFC.sqrt ρ
  have hRp : R.PosSemidef := (CFC.sqrt_nonneg ρ).posSemidef
  have eR : R * R = ρ := CFC.sqrt_mul_sqrt_self ρ hρ.posSemidef.nonneg
  have hdet : IsUnit R.det := by
    have h1 : R.det * R.det = ρ.det := by rw [← Matrix.det_mul, eR]
    have h2 : ρ.det ≠ 0 := hρ.det_pos.ne'
    refine isUnit_iff_ne_zero.mpr fun h0 => h2 ?_
    rw [← h1, h0, mul_zero]
  exact ⟨hRp.isHermitian, eR, Matrix.nonsing_inv_mul R hdet, Matrix.mul_nonsing_inv R hdet, hRp.isHermitian.inv⟩

/-- `ρ # σ` is a Hermitian feasible point of the fidelity program -/
theorem geoMean_feasible {ρ σ : Matrix ι ι ℂ} (hρ : ρ.PosDef) (hσ : σ.PosSemidef) :
    (geoMean ρ σ).IsHermitian ∧ FidFeasible ρ σ (geoMean ρ σ) := by
  obtain ⟨hRH, eR, e1, e2, hRiH⟩ := sqrt_posDef_facts hρ
  unfold geoMean
  set R := CFC.sqrt ρ
  set Ri := R⁻¹
  have hMp : (Ri * σ * Ri).PosSemidef := by
    have := hσ.conjTranspose_mul_mul_same Ri; rwa [hRiH.eq] at this
  set T := CFC.sqrt (Ri * σ * Ri)
  have hTp : T.PosSemidef := (CFC.sqrt_nonneg _).posSemidef
  have eT : T * T = Ri * σ * Ri := CFC.sqrt_mul_sqrt_self _ hMp.nonneg
  have hGH : (R * T * R).IsHermitian := by
    unfold Matrix.IsHermitian
    rw [Matrix.conjTranspose_mul, Matrix.conjTranspose_mul, hRH.eq, hTp.isHermitian.eq, Matrix.mul_assoc]
  refine ⟨hGH, ?_⟩
  have hg := posSemidef_fromBlocks_gram R (T * R)
  have eB : (T * R)ᴴ = R * T := by rw [Matrix.conjTranspose_mul, hRH.eq, hTp.isHermitian.eq]
  rw [hRH.eq, eR, eB] at hg
  have e3 : R * T * (T * R) = σ := by
    calc R * T * (T * R) = R * (T * T) * R := by simp only [Matrix.mul_assoc]
      _ = (R * Ri) * σ * (Ri * R) := by rw [eT]; simp only [Matrix.mul_assoc]
      _ = σ := by rw [e1, e2, Matrix.one_mul, Matrix.mul_one]
  rw [e3, ← Matrix.mul_assoc] at hg
  unfold FidFeasible
  rwa [hGH.eq]

/-- every Hermitian feasible point has trace at most `tr(ρ # σ)` -/
theorem trace_le_trace_geoMean {ρ σ W : Matrix ι ι ℂ} (hρ : ρ.PosDef) (hσ : σ.PosSemidef) (hW : W.IsHermitian)
    (hF : FidFeasible ρ σ W) : W.trace.re ≤ (geoMean ρ σ).trace.re := by
  obtain ⟨hRH, eR, e1, e2, hRiH⟩ := sqrt_posDef_facts hρ
  unfold geoMean
  set R := CFC.sqrt ρ
  set Ri := R⁻¹
  have hMp : (Ri * σ * Ri).PosSemidef := by
    have := hσ.conjTranspose_mul_mul_same Ri; rwa [hRiH.eq] at this
  set T := CFC.sqrt (Ri * σ * Ri)
  have hTp : T.PosSemidef := (CFC.sqrt_nonneg _).posSemidef
  have eT : T * T = Ri * σ * Ri := CFC.sqrt_mul_sqrt_self _ hMp.nonneg
  set K := Ri * W * Ri with hKd
  have hKH : K.IsHermitian := by
    unfold Matrix.IsHermitian
    rw [hKd, Matrix.conjTranspose_mul, Matrix.conjTranspose_mul, hRiH.eq, hW.eq, Matrix.mul_assoc]
  -- conjugate the block matrix by diag(Ri, Ri)
  unfold FidFeasible at hF
  have hc := hF.conjTranspose_mul_mul_same (fromBlocks Ri (0 : Matrix ι ι ℂ) (0 : Matrix ι ι ℂ) Ri)
  rw [fromBlocks_conjTranspose, fromBlocks_multiply, fromBlocks_multiply, hRiH.eq] at hc
  simp only [Matrix.conjTranspose_zero, Matrix.zero_mul, Matrix.mul_zero, add_zero, zero_add, hW.eq] at hc
  have e4 : Ri * ρ * Ri = 1 := by
    calc Ri * ρ * Ri = (Ri * R) * (R * Ri) := by rw [← eR]; simp only [Matrix.mul_assoc]
      _ = 1 := by rw [e1, e2, Matrix.one_mul]
  rw [e4, ← eT, ← hKd] at hc
  -- Schur complement with respect to the identity block
  have hs := hc.conjTranspose_mul_mul_same (fromBlocks (0 : Matrix ι ι ℂ) (-K) (0 : Matrix ι ι ℂ) (1 : Matrix ι ι ℂ))
  rw [fromBlocks_conjTranspose, fromBlocks_multiply, fromBlocks_multiply] at hs
  simp only [Matrix.conjTranspose_zero, Matrix.conjTranspose_neg, Matrix.conjTranspose_one, hKH.eq, Matrix.zero_mul,
    Matrix.mul_zero, add_zero, zero_add, Matrix.one_mul, Matrix.mul_one, Matrix.neg_mul, Matrix.mul_neg,
    neg_add_cancel, neg_zero] at hs
  have hsch : (T * T - K * K).PosSemidef := by
    have := hs.submatrix (Sum.inr : ι → ι ⊕ ι)
    have e : (fromBlocks (0 : Matrix ι ι ℂ) 0 0 (-(K * K) + T * T)).submatrix Sum.inr Sum.inr = T * T - K * K := by
      ext a b; simp [Matrix.submatrix]; ring
    rwa [e] at this
  have hle := sub_posSemidef_of_sq_le_sq hKH hTp hsch
  have hnn := psd_trace_mul_nonneg hρ.posSemidef hle
  have eW : W = R * K * R := by
    calc W = (R * Ri) * W * (Ri * R) := by rw [e1, e2, Matrix.one_mul, Matrix.mul_one]
      _ = R * K * R := by rw [hKd]; simp only [Matrix.mul_assoc]
  have etr : ∀ Z : Matrix ι ι ℂ, (R * Z * R).trace = (ρ * Z).trace := by
    intro Z
    rw [Matrix.trace_mul_comm, ← Matrix.mul_assoc, eR]
  rw [eW, etr, etr]
  rw [Matrix.mul_sub, Matrix.trace_sub, Complex.sub_re] at hnn
  linarith

end Matsumoto
end Toq.Metrics
