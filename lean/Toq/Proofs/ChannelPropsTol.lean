import Toq.Model.ChannelPropsTol
import Toq.Proofs.ChannelProps
import Mathlib.Analysis.Complex.Norm
import Mathlib.Tactic.Linarith
import Mathlib.Tactic.Positivity
/-!
# `np.allclose` on exact data: meaning of the mirror `closeQ` / `allcloseQ`  (helper lemmas for C06)
-/
open Matrix
open scoped ComplexOrder

namespace Toq.ChanPropProofs
open Toq.ChannelProps

theorem nsq_cast (a : QI) : ((nsq a : Rat) : ℝ) = ‖a.toC‖ ^ 2 := by
  rw [← Complex.normSq_eq_norm_sq, Complex.normSq_apply]
  simp [nsq, QI.toC]

/-- the two-squarings test is the inequality between moduli -/
theorem close_real_iff {δ β t ρ : ℝ} (hδ : 0 ≤ δ) (hβ : 0 ≤ β) (ht : 0 ≤ t) (hρ : 0 ≤ ρ) :
    (δ ^ 2 - t * t - ρ * ρ * β ^ 2 ≤ 0 ∨
      (δ ^ 2 - t * t - ρ * ρ * β ^ 2) * (δ ^ 2 - t * t - ρ * ρ * β ^ 2) ≤ 4 * (t * t) * (ρ * ρ) * β ^ 2)
      ↔ δ ≤ t + ρ * β := by
  have hm : 0 ≤ t * ρ * β := by positivity
  have hs : 0 ≤ t + ρ * β := by positivity
  constructor
  · intro h
    by_contra hc
    rw [not_le] at hc
    have h1 : (t + ρ * β) ^ 2 < δ ^ 2 := by nlinarith
    rcases h with h | h
    · nlinarith
    · have h2 : 2 * (t * ρ * β) < δ ^ 2 - t * t - ρ * ρ * β ^ 2 := by nlinarith
      nlinarith
  · intro h
    have h1 : δ ^ 2 ≤ (t + ρ * β) ^ 2 := by nlinarith
    by_cases h0 : δ ^ 2 - t * t - ρ * ρ * β ^ 2 ≤ 0
    · exact Or.inl h0
    · right
      rw [not_le] at h0
      have h2 : δ ^ 2 - t * t - ρ * ρ * β ^ 2 ≤ 2 * (t * ρ * β) := by nlinarith
      nlinarith

/-- **`closeQ` is `np.isclose`**: `|a - b| ≤ atol + rtol·|b|` for the denoted complex numbers. -/
theorem closeQ_iff (rtol atol : Rat) (hr : 0 ≤ rtol) (ha : 0 ≤ atol) (a b : QI) :
    closeQ rtol atol a b = true ↔ ‖a.toC - b.toC‖ ≤ (atol : ℝ) + (rtol : ℝ) * ‖b.toC‖ := by
  have hr' : (0 : ℝ) ≤ rtol := by exact_mod_cast hr
  have ha' : (0 : ℝ) ≤ atol := by exact_mod_cast ha
  rw [← close_real_iff (norm_nonneg _) (norm_nonneg _) ha' hr', ← QI.toC_sub, ← nsq_cast, ← nsq_cast]
  unfold closeQ
  simp only [Bool.or_eq_true, decide_eq_true_eq]
  constructor
  · rintro (h | h)
    · left; exact_mod_cast h
    · right; exact_mod_cast h
  · rintro (h | h)
    · left; exact_mod_cast h
    · right; exact_mod_cast h

/-- **`allcloseQ` is `np.allclose`** on the denoted complex matrices. -/
theorem allcloseQ_iff {n m : Nat} (rtol atol : Rat) (hr : 0 ≤ rtol) (ha : 0 ≤ atol) (A B : EMat n m) :
    allcloseQ rtol atol A B = true ↔
      ∀ i j, ‖A.toM i j - B.toM i j‖ ≤ (atol : ℝ) + (rtol : ℝ) * ‖B.toM i j‖ := by
  unfold allcloseQ
  simp only [EMat.allFin_iff, closeQ_iff rtol atol hr ha]
  rfl

/-- equal matrices are close for all non-negative tolerances -/
theorem allcloseQ_of_eq {n m : Nat} (rtol atol : Rat) (hr : 0 ≤ rtol) (ha : 0 ≤ atol) (A B : EMat n m)
    (h : A.toM = B.toM) : allcloseQ rtol atol A B = true := by
  rw [allcloseQ_iff rtol atol hr ha]
  intro i j
  rw [h, sub_self, norm_zero]
  have hr' : (0 : ℝ) ≤ rtol := by exact_mod_cast hr
  have ha' : (0 : ℝ) ≤ atol := by exact_mod_cast ha
  positivity

/-! ## the margin of the three-valued verdicts is outside `np.allclose`'s tolerance -/

theorem abs1_cast (a : QI) : ((a.abs1 : Rat) : ℝ) = |(a.re : ℝ)| + |(a.im : ℝ)| := by
  have h : ∀ q : Rat, ((if q < 0 then -q else q : Rat) : ℝ) = |(q : ℝ)| := by
    intro q
    split
    · next hq =>
      have : (q : ℝ) < 0 := by exact_mod_cast hq
      rw [abs_of_neg this]; push_cast; rfl
    · next hq =>
      have : (0 : ℝ) ≤ (q : ℝ) := by exact_mod_cast (not_lt.mp hq)
      rw [abs_of_nonneg this]
  simp only [QI.abs1, Rat.cast_add, h]

theorem abs1_le_two_norm (a : QI) : ((a.abs1 : Rat) : ℝ) ≤ 2 * ‖a.toC‖ := by
  rw [abs1_cast]
  have h1 : |(a.re : ℝ)| ≤ ‖a.toC‖ := by simpa using Complex.abs_re_le_norm a.toC
  have h2 : |(a.im : ℝ)| ≤ ‖a.toC‖ := by simpa using Complex.abs_im_le_norm a.toC
  linarith

theorem le_maxRat_left (a b : Rat) : a ≤ maxRat a b := by
  unfold maxRat; split
  · next h => exact le_of_lt h
  · exact le_refl a

theorem le_maxRat_right (a b : Rat) : b ≤ maxRat a b := by
  unfold maxRat; split
  · exact le_refl b
  · next h => exact not_lt.mp h

theorem foldl_ge_init {ι : Type} (g : Rat → ι → Rat) (hg : ∀ a x, a ≤ g a x) : ∀ (l : List ι) (a : Rat), a ≤ l.foldl g a := by
  intro l
  induction l with
  | nil => intro a; exact le_refl a
  | cons x xs ih => intro a; exact (hg a x).trans (ih (g a x))

theorem foldl_ge_of_mem {ι : Type} (g : Rat → ι → Rat) (hg : ∀ a x, a ≤ g a x) (c : Rat) (x : ι) (hx : ∀ a, c ≤ g a x) :
    ∀ (l : List ι) (a : Rat), x ∈ l → c ≤ l.foldl g a := by
  intro l
  induction l with
  | nil => intro a h; simp at h
  | cons y ys ih =>
    intro a h
    rcases List.mem_cons.mp h with rfl | h
    · exact (hx a).trans (foldl_ge_init g hg ys _)
    · exact ih _ h

theorem abs1_le_maxAbs1 {n m : Nat} (A : EMat n m) (i : Fin n) (j : Fin m) : (A.get i j).abs1 ≤ maxAbs1 A := by
  unfold maxAbs1
  let gin : Fin n → Rat → Fin m → Rat := fun i' acc j => maxRat acc (A.get i' j).abs1
  let gout : Rat → Fin n → Rat := fun acc i' => (List.finRange m).foldl (gin i') acc
  have hin : ∀ (i' : Fin n) (a : Rat) (x : Fin m), a ≤ gin i' a x := fun i' a x => le_maxRat_left _ _
  have hout : ∀ (a : Rat) (i' : Fin n), a ≤ gout a i' := fun a i' => foldl_ge_init (gin i') (hin i') _ a
  have h1 : ∀ a : Rat, (A.get i j).abs1 ≤ gout a i := fun a =>
    foldl_ge_of_mem (gin i) (hin i) _ j (fun a => le_maxRat_right _ _) _ a (List.mem_finRange j)
  exact foldl_ge_of_mem gout hout _ i h1 _ 0 (List.mem_finRange i)

/-- **A verdict `no` of the exact deciders lies outside `np.allclose`'s tolerance**: if some entry of `A - B` is at least
    `100·(1e-8 + 1e-5·scale)` in `|re| + |im|`, then `np.allclose(A, B, rtol, atol)` is false for all tolerances up to the
    defaults `rtol = 1e-5`, `atol = 1e-8`. -/
theorem not_allcloseQ_of_farApart {n m : Nat} (rtol atol : Rat) (hr0 : 0 ≤ rtol) (ha0 : 0 ≤ atol)
    (hr : rtol ≤ 1 / 100000) (ha : atol ≤ 1 / 100000000) (A B : EMat n m) (h : farApart A B = true) :
    allcloseQ rtol atol A B = false := by
  rw [Bool.eq_false_iff]
  intro hc
  rw [allcloseQ_iff rtol atol hr0 ha0] at hc
  simp only [farApart, List.any_eq_true, decide_eq_true_eq] at h
  obtain ⟨i, -, j, -, hij⟩ := h
  have h1 := hc i j
  set s : Rat := maxRat (maxAbs1 A) (maxAbs1 B) with hs
  have hb : ‖B.toM i j‖ ≤ (s : ℝ) := by
    have h2 := QI.norm_toC_le_abs1 (B.get i j)
    have h3 : (B.get i j).abs1 ≤ s := (abs1_le_maxAbs1 B i j).trans (le_maxRat_right _ _)
    have h3' : (((B.get i j).abs1 : Rat) : ℝ) ≤ (s : ℝ) := by exact_mod_cast h3
    exact h2.trans h3'
  have hd := abs1_le_two_norm (A.get i j - B.get i j)
  rw [QI.toC_sub] at hd
  have hij' : ((tolOf s : Rat) : ℝ) ≤ (((A.get i j - B.get i j).abs1 : Rat) : ℝ) := by exact_mod_cast hij
  have ht : ((tolOf s : Rat) : ℝ) = 100 * (1 / 100000000 + (s : ℝ) / 100000) := by
    unfold tolOf; push_cast; ring
  have hs0 : (0 : ℝ) ≤ (s : ℝ) := by
    have : 0 ≤ s := maxRat_nonneg _ (maxAbs1_nonneg A)
    exact_mod_cast this
  have hr' : (rtol : ℝ) ≤ 1 / 100000 := by
    have := (Rat.cast_le (K := ℝ)).mpr hr; push_cast at this; exact this
  have ha' : (atol : ℝ) ≤ 1 / 100000000 := by
    have := (Rat.cast_le (K := ℝ)).mpr ha; push_cast at this; exact this
  have hr0' : (0 : ℝ) ≤ rtol := by exact_mod_cast hr0
  have hmul : (rtol : ℝ) * ‖B.toM i j‖ ≤ 1 / 100000 * (s : ℝ) :=
    mul_le_mul hr' hb (norm_nonneg _) (by norm_num)
  change ‖(A.get i j).toC - (B.get i j).toC‖ ≤ _ at h1
  rw [ht] at hij'
  linarith

end Toq.ChanPropProofs
