import Toq.Model.SepCascade
import Toq.Proofs.Sep
/-!
# Lemmas about the decision logic of `is_separable` / `has_symmetric_extension` (`Toq/Model/SepCascade.lean`)

* `firstSome`: the verdict of the cascade is the verdict of one of its stages, and of the FIRST one that returns;
* the square-root-free comparisons `gtAddSqrt`, `geSubSqrt` are the comparisons with the real square root;
* Johnston's spectrum condition in the 1-indexed form of the paper;
* the blocks `A`, `B`, `C` of the `2 ⊗ n` tests and the homothetic image in terms of the pair-indexed operator;
* the Frobenius norm of the Lemma-1 test dominates the operator norm;
* the parameters of the qutrit maps.
-/

open Matrix
open scoped ComplexOrder MatrixOrder Kronecker

namespace Toq.Sep
open EMat

/-! ## `firstSome` -/

theorem firstSome_mem {α : Type} : ∀ {l : List (Option α)} {a : α}, firstSome l = some a → some a ∈ l
  | [], _, h => by simp [firstSome] at h
  | some b :: l, a, h => by
      simp only [firstSome, Option.some.injEq] at h
      subst h
      exact List.mem_cons_self
  | none :: l, a, h => by
      simp only [firstSome] at h
      exact List.mem_cons_of_mem _ (firstSome_mem h)

theorem firstSome_none_cons {α : Type} (l : List (Option α)) : firstSome (none :: l) = firstSome l := rfl
theorem firstSome_some_cons {α : Type} (a : α) (l : List (Option α)) : firstSome (some a :: l) = some a := rfl

/-- every stage of the cascade that answers `false` is one of the five necessary criteria, with its condition -/
theorem stage_false {dA dB : Nat} {tol : Rat} {q : Quant} {b : Branch}
    (h : some (b, false) ∈ stages dA dB tol q) :
    (b = .pptReject ∧ q.ppt = false) ∨
    (b = .pptSufficient ∧ q.ppt = false) ∨
    (b = .realignment ∧ 1 + tol < q.realignNorm) ∨
    (b = .zhang ∧ gtAddSqrt q.zhangNorm tol (zhangRadicand q) = true) ∨
    (b = .rank4 ∧ q.rank = 4 ∧ dA = 3 ∧ dB = 3 ∧ max (tol * tol) eps34 ≤ q.absF) ∨
    (b = .haMaps ∧ dA = 3 ∧ dB = 3 ∧ ∃ x ∈ q.haPsd, x = false) := by
  simp only [stages, List.mem_cons, List.not_mem_nil, or_false] at h
  rcases h with h | h | h | h | h | h | h | h | h | h | h | h | h | h
  · simp only [stDim1] at h; split at h <;> simp at h
  · simp only [stPpt] at h; split at h
    · next hc => simp at h; exact Or.inl ⟨h, hc⟩
    · simp at h
  · simp only [stSmall] at h; split at h
    · simp at h; exact Or.inr (Or.inl ⟨h.1, h.2⟩)
    · simp at h
  · simp only [stRealign] at h; split at h
    · next hc => simp at h; exact Or.inr (Or.inr (Or.inl ⟨h, hc⟩))
    · simp at h
  · simp only [stZhang] at h; split at h
    · next hc => simp at h; exact Or.inr (Or.inr (Or.inr (Or.inl ⟨h, hc⟩)))
    · simp at h
  · simp only [stSpectrum] at h; split at h <;> simp at h
  · simp only [stHankel] at h; split at h <;> simp at h
  · simp only [stHomothetic] at h; split at h <;> simp at h
  · simp only [stLemma1] at h; split at h <;> simp at h
  · simp only [stRank4] at h; split at h
    · next hc =>
      simp only [Option.some.injEq, Prod.mk.injEq] at h
      have h2 : ¬ q.absF < max (tol * tol) eps34 := by
        intro hlt; have := h.2; simp [hlt] at this
      have hA : dA = 3 := by omega
      have hB : dB = 3 := by omega
      exact Or.inr (Or.inr (Or.inr (Or.inr (Or.inl ⟨h.1, hc.1, hA, hB, not_lt.mp h2⟩))))
    · simp at h
  · simp only [stBall] at h; split at h <;> simp at h
  · simp only [stRank1] at h; split at h <;> simp at h
  · simp only [stOsr] at h; split at h <;> simp at h
  · simp only [stHa] at h; split at h
    · next hc =>
      simp at h
      obtain ⟨hA, hB, hany⟩ := hc
      rw [List.any_eq_true] at hany
      obtain ⟨x, hx, hx2⟩ := hany
      refine Or.inr (Or.inr (Or.inr (Or.inr (Or.inr ⟨h, hA, hB, x, hx, ?_⟩))))
      simpa using hx2
    · simp at h

/-! ## The square-root-free comparisons -/

theorem gtAddSqrt_iff (x tol r : Rat) (hr : 0 ≤ r) :
    gtAddSqrt x tol r = true ↔ (tol : ℝ) + √(r : ℝ) < (x : ℝ) := by
  unfold gtAddSqrt
  rw [Bool.and_eq_true, decide_eq_true_eq, decide_eq_true_eq]
  have hr' : (0 : ℝ) ≤ (r : ℝ) := by exact_mod_cast hr
  have e1 : (0 < x - tol) ↔ (0 : ℝ) < (x : ℝ) - (tol : ℝ) := by
    rw [← Rat.cast_sub]; exact_mod_cast Iff.rfl
  have e2 : (r < (x - tol) * (x - tol)) ↔ (r : ℝ) < ((x : ℝ) - (tol : ℝ)) ^ 2 := by
    rw [pow_two, ← Rat.cast_sub, ← Rat.cast_mul]; exact_mod_cast Iff.rfl
  rw [e1, e2]
  constructor
  · rintro ⟨h1, h2⟩
    have := (Real.sqrt_lt' h1).mpr h2
    linarith
  · intro h
    have hs := Real.sqrt_nonneg (r : ℝ)
    have h1 : (0 : ℝ) < (x : ℝ) - (tol : ℝ) := by linarith
    exact ⟨h1, (Real.sqrt_lt' h1).mp (by linarith)⟩

theorem geSubSqrt_iff (a b d tol : Rat) :
    geSubSqrt a b d tol = true ↔ (b : ℝ) - 4 * √(max (d : ℝ) 0) - (tol : ℝ) ≤ (a : ℝ) := by
  unfold geSubSqrt
  rw [Bool.or_eq_true, decide_eq_true_eq, decide_eq_true_eq]
  have hm : ((max d 0 : Rat) : ℝ) = max (d : ℝ) 0 := by push_cast; rfl
  have h0 : (0 : ℝ) ≤ max (d : ℝ) 0 := le_max_right _ _
  set s : ℝ := (b : ℝ) - (a : ℝ) - (tol : ℝ) with hs
  have e1 : (b - a - tol ≤ 0) ↔ s ≤ 0 := by
    rw [hs, ← Rat.cast_sub, ← Rat.cast_sub]; exact_mod_cast Iff.rfl
  have e2 : ((b - a - tol) * (b - a - tol) ≤ 16 * max d 0) ↔ s ^ 2 ≤ 16 * max (d : ℝ) 0 := by
    rw [hs, pow_two, ← hm, ← Rat.cast_sub, ← Rat.cast_sub, ← Rat.cast_mul]
    have : (16 : ℝ) * ((max d 0 : Rat) : ℝ) = ((16 * max d 0 : Rat) : ℝ) := by push_cast; rfl
    rw [this]; exact_mod_cast Iff.rfl
  rw [e1, e2]
  have key : (4 * √(max (d : ℝ) 0)) ^ 2 = 16 * max (d : ℝ) 0 := by
    rw [mul_pow, Real.sq_sqrt h0]; norm_num
  have hq := Real.sqrt_nonneg (max (d : ℝ) 0)
  constructor
  · rintro (h | h)
    · linarith
    · have : s ≤ 4 * √(max (d : ℝ) 0) := by
        by_contra hc
        rw [not_le] at hc
        rw [← key] at h
        nlinarith
      linarith
  · intro h
    by_cases hs0 : s ≤ 0
    · exact Or.inl hs0
    · right
      have hs1 : 0 ≤ s := le_of_lt (not_le.mp hs0)
      have h2 : s ≤ 4 * √(max (d : ℝ) 0) := by linarith
      rw [← key]
      exact pow_le_pow_left₀ hs1 h2 2

/-! ## Johnston's spectrum condition: the indices -/

/-- the `k`-th largest eigenvalue, numbered from 1 as in the literature: `λ_k = lam[k − 1]` -/
noncomputable def ev1 (q : Quant) (k : Nat) : ℝ := ((lamAt q (k - 1) : Rat) : ℝ)

/-- the test of the code, `(lam[0] − lam[2n−2])² ≤ 4·lam[2n−3]·lam[2n−1] + tol²` with `n = max_dim`, reads
`(λ₁ − λ_{2n−1})² ≤ 4 λ_{2n−2} λ_{2n} + tol²`, whichever party is the qubit -/
theorem stSpectrum_iff (dA dB n : Nat) (hn : 2 ≤ n) (hd : (dA = 2 ∧ dB = n) ∨ (dA = n ∧ dB = 2)) (tol : Rat)
    (q : Quant) :
    stSpectrum dA dB tol q = some (.spectrum2n, true) ↔
      (ev1 q 1 - ev1 q (2 * n - 1)) ^ 2 ≤ 4 * ev1 q (2 * n - 2) * ev1 q (2 * n) + (tol : ℝ) ^ 2 := by
  have hmax : max dA dB = n := by rcases hd with ⟨rfl, rfl⟩ | ⟨rfl, rfl⟩ <;> omega
  have hmin : min dA dB = 2 := by rcases hd with ⟨rfl, rfl⟩ | ⟨rfl, rfl⟩ <;> omega
  unfold stSpectrum ev1
  simp only [hmax, hmin, true_and]
  have i1 : 2 * n - 1 - 1 = 2 * n - 2 := by omega
  have i2 : 2 * n - 2 - 1 = 2 * n - 3 := by omega
  have i3 : 1 - 1 = 0 := rfl
  rw [i1, i2, i3]
  constructor
  · intro h
    split at h
    · next hc =>
      have := (Rat.cast_le (K := ℝ)).mpr hc
      push_cast at this
      rw [pow_two, pow_two]; exact this
    · simp at h
  · intro h
    have hc : (lamAt q 0 - lamAt q (2 * n - 2)) * (lamAt q 0 - lamAt q (2 * n - 2))
        ≤ 4 * lamAt q (2 * n - 3) * lamAt q (2 * n - 1) + tol * tol := by
      rw [pow_two, pow_two] at h
      have : (((lamAt q 0 - lamAt q (2 * n - 2)) * (lamAt q 0 - lamAt q (2 * n - 2)) : Rat) : ℝ)
          ≤ ((4 * lamAt q (2 * n - 3) * lamAt q (2 * n - 1) + tol * tol : Rat) : ℝ) := by
        push_cast; exact h
      exact (Rat.cast_le (K := ℝ)).mp this
    rw [if_pos hc]

/-- for `x₁ ≥ x₂` and `y, z ≥ 0`: `(x₁ − x₂)² ≤ 4yz ⟺ x₁ − x₂ ≤ 2√(yz)` -/
theorem sq_le_four_mul_iff (x1 x2 y z : ℝ) (hx : x2 ≤ x1) (hy : 0 ≤ y) (hz : 0 ≤ z) :
    (x1 - x2) ^ 2 ≤ 4 * y * z ↔ x1 - x2 ≤ 2 * √(y * z) := by
  have hyz : 0 ≤ y * z := mul_nonneg hy hz
  have hd : 0 ≤ x1 - x2 := by linarith
  have key : (2 * √(y * z)) ^ 2 = 4 * y * z := by
    rw [mul_pow, Real.sq_sqrt hyz]; ring
  rw [← key]
  exact pow_le_pow_iff_left₀ hd (by positivity) (by norm_num)

/-! ## The blocks of the `2 ⊗ n` tests -/

section Blocks
variable {n : Nat}

theorem blk_toM (Y : EMat (2 * n) (2 * n)) (i j : Fin 2) :
    (blk Y i j).toM = blockB (unflat Y.toM) i j := by
  ext b b'
  simp [blk, blockB]

theorem blk_qubitFirst_toM (X : EMat (n * 2) (n * 2)) (i j : Fin 2) :
    (blk (qubitFirst X) i j).toM = blockA (unflat X.toM) i j := by
  ext b b'
  simp [blk, qubitFirst, swapAB, blockA]

/-- `X_2n_ppt_check = ρ − (1/6)·(1 ⊗ ρ_B)` for a Hermitian operator `ρ` on `ℂ² ⊗ ℂⁿ` (`ρ_B = tr_A ρ = A + C`) -/
theorem homothetic_toM (Y : EMat (2 * n) (2 * n)) (hY : Y.toM.IsHermitian) :
    unflat (homothetic Y).toM
      = unflat Y.toM - ((1 / 6 : ℝ) : ℂ) • ((1 : Matrix (Fin 2) (Fin 2) ℂ) ⊗ₖ ptrA (unflat Y.toM)) := by
  have hH : ∀ i j, Y.toM i j = (starRingEnd ℂ) (Y.toM j i) := fun i j => by
    have := congrFun (congrFun hY j) i
    rw [conjTranspose_apply] at this
    rw [← this]; simp
  ext ⟨i, b⟩ ⟨j, b'⟩
  have hl := hH (pair 1 b) (pair 0 b')
  simp only [EMat.toM_apply] at hl
  fin_cases i <;> fin_cases j <;>
    simp [homothetic, blk, ptrA, Fin.sum_univ_two, kroneckerMap_apply, QI.toC_sub, QI.toC_smul, QI.toC_conj, hl] <;> ring

end Blocks

/-! ## Lemma 1 of Johnston is stated with the operator norm; the code uses the Frobenius norm, which is larger -/

theorem nsq_mulVec_le_frobSq {ι κ : Type*} [Fintype ι] [Fintype κ] (B : Matrix ι κ ℂ) (x : κ → ℂ) :
    nsq (B *ᵥ x) ≤ frobSq B * nsq x := by
  unfold nsq frobSq
  rw [Finset.sum_mul]
  refine Finset.sum_le_sum fun i _ => ?_
  have h := normSq_dot_le (fun j => (starRingEnd ℂ) (B i j)) x
  have e : star (fun j => (starRingEnd ℂ) (B i j)) ⬝ᵥ x = (B *ᵥ x) i := by
    simp [Matrix.mulVec, dotProduct, Pi.star_apply]
  rw [e] at h
  have e2 : nsq (fun j => (starRingEnd ℂ) (B i j)) = ∑ j, Complex.normSq (B i j) := by
    unfold nsq; simp [Complex.normSq_conj]
  rw [e2] at h
  unfold nsq at h
  exact h

/-! ## The parameters of the qutrit maps -/

/-- for every `t ≥ 0` the parameters `a = (1−t)²/(1−t+t²)`, `b = t²/(1−t+t²)`, `c = 1/(1−t+t²)` satisfy
`0 ≤ a ≤ 1`, `a + b + c = 2`, `bc = (1 − a)²`: the boundary of the Cho–Kye–Lee positivity region -/
theorem ha_abc_region (t : ℝ) (ht : 0 ≤ t) :
    let D := 1 - t + t ^ 2
    let a := (1 - t) ^ 2 / D
    let b := t ^ 2 / D
    let c := 1 / D
    0 < D ∧ 0 ≤ a ∧ a ≤ 1 ∧ a + b + c = 2 ∧ b * c = (1 - a) ^ 2 := by
  intro D a b c
  have hD : 0 < D := by
    show 0 < 1 - t + t ^ 2
    nlinarith [sq_nonneg (t - 1 / 2)]
  have hD' : D ≠ 0 := ne_of_gt hD
  have hDdef : D = 1 - t + t ^ 2 := rfl
  refine ⟨hD, div_nonneg (sq_nonneg _) hD.le, ?_, ?_, ?_⟩
  · show (1 - t) ^ 2 / D ≤ 1
    rw [div_le_one hD]
    show (1 - t) ^ 2 ≤ 1 - t + t ^ 2
    nlinarith
  · show (1 - t) ^ 2 / D + t ^ 2 / D + 1 / D = 2
    field_simp
    rw [hDdef]
    ring
  · show t ^ 2 / D * (1 / D) = (1 - (1 - t) ^ 2 / D) ^ 2
    have e : 1 - (1 - t) ^ 2 / D = t / D := by
      field_simp
      rw [hDdef]
      ring
    rw [e]
    field_simp

end Toq.Sep
