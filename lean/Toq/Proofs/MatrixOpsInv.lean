import Toq.Proofs.MatrixOps
import Mathlib.LinearAlgebra.Matrix.Trace
import Mathlib.LinearAlgebra.Matrix.Determinant.Basic
import Mathlib.LinearAlgebra.Matrix.Block
import Mathlib.Data.Matrix.PEquiv
import Mathlib.LinearAlgebra.LinearIndependent.Basic
import Mathlib.Order.Fin.Basic
import Mathlib.Analysis.Complex.Basic
/-!
# Invariance of the matrix / state-set predicates of C16 under the property-preserving transformations

The harness (`harness/corr/c16.py`, `PREDS[..]["tr"]` and `set_transforms`) re-asks every verdict after a
transformation that is supposed to preserve the predicate.  Here each predicate's *defining relation* is shown to be
preserved by each such transformation, for Mathlib matrices of every size.

Conventions: permutation similarity `P A Pᵀ` is `A.submatrix σ σ` (`σ : n ≃ n`), left permutation is `A.submatrix σ id`
(see `perm_similarity_eq_submatrix`, `perm_left_eq_submatrix`), "phase" is `D A Dᴴ` with `D = diagonal d`,
`star (d i) * d i = 1` (a unitary, `phase_unitary`), "conj" is `A.map star`, scaling is `c • A`.
Lemmas for general unitary conjugation of Hermitian / anti-Hermitian / normal / idempotent / symmetric matrices are in
`Toq/Proofs/MatrixOps.lean` (same namespace).
-/

namespace Toq.MatrixInv
set_option linter.unusedSectionVars false
set_option linter.unusedVariables false
open Matrix

variable {n : Type} [Fintype n] [DecidableEq n]

section star
variable {R : Type} [CommRing R] [StarRing R]

/-! ## the transformations themselves -/

/-- entrywise conjugation is the transpose of the conjugate transpose -/
theorem map_star_eq (A : Matrix n n R) : A.map star = (Aᴴ)ᵀ := by
  ext i j; simp [conjTranspose_apply]

/-- conjugate transpose of the entrywise conjugate is the transpose -/
theorem map_star_conjTranspose (A : Matrix n n R) : (A.map star)ᴴ = Aᵀ := by
  ext i j; simp [conjTranspose_apply]

/-- entrywise conjugation is multiplicative -/
theorem map_star_mul (A B : Matrix n n R) : (A * B).map star = A.map star * B.map star := by
  ext i j; simp [Matrix.mul_apply, star_sum]

/-- entrywise conjugation of the identity is the identity -/
theorem one_map_star : (1 : Matrix n n R).map star = 1 := by
  ext i j; by_cases h : i = j <;> simp [Matrix.one_apply, h]

/-- entrywise conjugation commutes with the conjugate transpose -/
theorem map_star_conjTranspose_comm (A : Matrix n n R) : (A.map star)ᴴ = (Aᴴ).map star := by
  ext i j; simp [conjTranspose_apply]

/-- entrywise conjugation commutes with the transpose -/
theorem map_star_transpose (A : Matrix n n R) : (A.map star)ᵀ = (Aᵀ).map star := by
  ext i j; simp

/-- conjugate transpose of the transpose is the transpose of the conjugate transpose -/
theorem transpose_conjTranspose_comm (A : Matrix n n R) : (Aᵀ)ᴴ = (Aᴴ)ᵀ := by
  ext i j; simp [conjTranspose_apply]

/-- the permutation matrix of `σ` acting by similarity is the simultaneous reindexing of rows and columns -/
theorem perm_similarity_eq_submatrix (σ : n ≃ n) (A : Matrix n n R) :
    σ.toPEquiv.toMatrix * A * (σ.toPEquiv.toMatrix : Matrix n n R)ᵀ = A.submatrix σ σ := by
  rw [PEquiv.toMatrix_toPEquiv_mul]
  have : ((σ.toPEquiv.toMatrix : Matrix n n R))ᵀ = (σ.symm.toPEquiv.toMatrix : Matrix n n R) := by
    rw [← PEquiv.toMatrix_symm]; rfl
  rw [this, PEquiv.mul_toMatrix_toPEquiv]
  ext i j; simp

/-- the permutation matrix of `σ` acting from the left reorders the rows -/
theorem perm_left_eq_submatrix (σ : n ≃ n) (A : Matrix n n R) :
    σ.toPEquiv.toMatrix * A = A.submatrix σ id :=
  PEquiv.toMatrix_toPEquiv_mul σ A

/-- a diagonal matrix of unit-modulus entries is unitary (the harness's "phase" matrices) -/
theorem phase_unitary (d : n → R) (hd : ∀ i, star (d i) * d i = 1) :
    (diagonal d)ᴴ * diagonal d = 1 ∧ diagonal d * (diagonal d)ᴴ = 1 := by
  have e : (diagonal d)ᴴ = diagonal (fun i => star (d i)) := by
    rw [diagonal_conjTranspose]; rfl
  rw [e, diagonal_mul_diagonal, diagonal_mul_diagonal]
  constructor
  · rw [← diagonal_one]; congr 1; funext i; exact hd i
  · rw [← diagonal_one]; congr 1; funext i; rw [mul_comm]; exact hd i

/-- entries of a phase conjugation `D A Dᴴ` -/
theorem phase_conj_apply (d : n → R) (A : Matrix n n R) (i j : n) :
    (diagonal d * A * (diagonal d)ᴴ) i j = d i * A i j * star (d j) := by
  have e : (diagonal d)ᴴ = diagonal (fun i => star (d i)) := by
    rw [diagonal_conjTranspose]; rfl
  rw [e, mul_diagonal, diagonal_mul]

/-- for square matrices over a commutative ring one unitarity relation gives the other -/
theorem unitary_right_of_left (U : Matrix n n R) (hU : Uᴴ * U = 1) : U * Uᴴ = 1 :=
  mul_eq_one_comm.mp hU

/-- a permutation matrix is unitary -/
theorem perm_matrix_unitary (σ : n ≃ n) :
    ((σ.toPEquiv.toMatrix : Matrix n n R))ᴴ * σ.toPEquiv.toMatrix = 1 := by
  ext i j
  simp only [Matrix.mul_apply, conjTranspose_apply, PEquiv.toMatrix_apply, Equiv.toPEquiv_apply,
    Option.mem_def, Option.some.injEq, Matrix.one_apply]
  by_cases h : i = j
  · subst h
    rw [Finset.sum_eq_single (σ.symm i)]
    · simp
    · intro b _ hb
      have : σ b ≠ i := fun h => hb (by rw [← h]; simp)
      simp [this]
    · simp
  · rw [if_neg h]
    apply Finset.sum_eq_zero
    intro k _
    by_cases h1 : σ k = i
    · have : σ k ≠ j := fun h2 => h (h1.symm.trans h2)
      simp [this]
    · simp [h1]

/-! ## Hermitian -/

/-- transpose of a Hermitian matrix is Hermitian -/
theorem herm_transpose (A : Matrix n n R) (hA : A.IsHermitian) : Aᵀ.IsHermitian := hA.transpose

/-- entrywise conjugate of a Hermitian matrix is Hermitian -/
theorem herm_map_star (A : Matrix n n R) (hA : A.IsHermitian) : (A.map star).IsHermitian := by
  unfold Matrix.IsHermitian at *
  rw [map_star_conjTranspose_comm, hA]

/-- negative of a Hermitian matrix is Hermitian -/
theorem herm_neg (A : Matrix n n R) (hA : A.IsHermitian) : (-A).IsHermitian := hA.neg

/-- a self-adjoint multiple of a Hermitian matrix is Hermitian -/
theorem herm_smul (A : Matrix n n R) (c : R) (hc : star c = c) (hA : A.IsHermitian) : (c • A).IsHermitian := by
  unfold Matrix.IsHermitian at *
  rw [conjTranspose_smul, hA, hc]

/-- simultaneous reindexing of rows and columns keeps a matrix Hermitian -/
theorem herm_submatrix (A : Matrix n n R) (σ : n ≃ n) (hA : A.IsHermitian) : (A.submatrix σ σ).IsHermitian :=
  hA.submatrix σ

/-- the reindexed matrix is Hermitian exactly when the original is -/
theorem herm_submatrix_iff (A : Matrix n n R) (σ : n ≃ n) : (A.submatrix σ σ).IsHermitian ↔ A.IsHermitian := by
  refine ⟨fun h => ?_, herm_submatrix A σ⟩
  have := h.submatrix σ.symm
  simpa using this

/-- sum of Hermitian matrices is Hermitian -/
theorem herm_add (A B : Matrix n n R) (hA : A.IsHermitian) (hB : B.IsHermitian) : (A + B).IsHermitian := hA.add hB

/-! ## anti-Hermitian -/

/-- transpose of an anti-Hermitian matrix is anti-Hermitian -/
theorem antiherm_transpose (A : Matrix n n R) (hA : Aᴴ = -A) : (Aᵀ)ᴴ = -Aᵀ := by
  rw [transpose_conjTranspose_comm, hA, transpose_neg]

/-- entrywise conjugate of an anti-Hermitian matrix is anti-Hermitian -/
theorem antiherm_map_star (A : Matrix n n R) (hA : Aᴴ = -A) : (A.map star)ᴴ = -(A.map star) := by
  rw [map_star_conjTranspose_comm, hA]
  ext i j; simp

/-- negative of an anti-Hermitian matrix is anti-Hermitian -/
theorem antiherm_neg (A : Matrix n n R) (hA : Aᴴ = -A) : (-A)ᴴ = -(-A) := by
  rw [conjTranspose_neg, hA]

/-- a self-adjoint multiple of an anti-Hermitian matrix is anti-Hermitian -/
theorem antiherm_smul (A : Matrix n n R) (c : R) (hc : star c = c) (hA : Aᴴ = -A) : (c • A)ᴴ = -(c • A) := by
  rw [conjTranspose_smul, hA, hc, smul_neg]

/-- simultaneous reindexing keeps a matrix anti-Hermitian -/
theorem antiherm_submatrix (A : Matrix n n R) (σ : n ≃ n) (hA : Aᴴ = -A) :
    (A.submatrix σ σ)ᴴ = -(A.submatrix σ σ) := by
  rw [conjTranspose_submatrix, hA, submatrix_neg]; rfl

/-! ## symmetric -/

/-- entrywise conjugate of a symmetric matrix is symmetric -/
theorem symm_map_star (A : Matrix n n R) (hA : Aᵀ = A) : (A.map star)ᵀ = A.map star := by
  rw [map_star_transpose, hA]

/-- negative of a symmetric matrix is symmetric -/
theorem symm_neg (A : Matrix n n R) (hA : Aᵀ = A) : (-A)ᵀ = -A := by
  rw [transpose_neg, hA]

/-- any multiple of a symmetric matrix is symmetric -/
theorem symm_smul (A : Matrix n n R) (c : R) (hA : Aᵀ = A) : (c • A)ᵀ = c • A := by
  rw [transpose_smul, hA]

/-- simultaneous reindexing keeps a matrix symmetric -/
theorem symm_submatrix (A : Matrix n n R) (σ : n ≃ n) (hA : Aᵀ = A) : (A.submatrix σ σ)ᵀ = A.submatrix σ σ := by
  rw [transpose_submatrix, hA]

/-! ## normal -/

/-- transpose of a normal matrix is normal -/
theorem normal_transpose (A : Matrix n n R) (hA : A * Aᴴ = Aᴴ * A) : Aᵀ * (Aᵀ)ᴴ = (Aᵀ)ᴴ * Aᵀ := by
  rw [transpose_conjTranspose_comm, ← transpose_mul, ← transpose_mul, hA]

/-- entrywise conjugate of a normal matrix is normal -/
theorem normal_map_star (A : Matrix n n R) (hA : A * Aᴴ = Aᴴ * A) :
    A.map star * (A.map star)ᴴ = (A.map star)ᴴ * A.map star := by
  rw [map_star_conjTranspose_comm, ← map_star_mul, ← map_star_mul, hA]

/-- negative of a normal matrix is normal -/
theorem normal_neg (A : Matrix n n R) (hA : A * Aᴴ = Aᴴ * A) : (-A) * (-A)ᴴ = (-A)ᴴ * (-A) := by
  rw [conjTranspose_neg, neg_mul_neg, neg_mul_neg, hA]

/-- any scalar multiple of a normal matrix is normal -/
theorem normal_smul (A : Matrix n n R) (c : R) (hA : A * Aᴴ = Aᴴ * A) :
    (c • A) * (c • A)ᴴ = (c • A)ᴴ * (c • A) := by
  rw [conjTranspose_smul, smul_mul_smul_comm, smul_mul_smul_comm, hA, mul_comm]

/-- a normal matrix shifted by a multiple of the identity is normal -/
theorem normal_add_smul_one (A : Matrix n n R) (c : R) (hA : A * Aᴴ = Aᴴ * A) :
    (A + c • 1) * (A + c • 1)ᴴ = (A + c • 1)ᴴ * (A + c • 1) := by
  rw [conjTranspose_add, conjTranspose_smul, conjTranspose_one]
  simp only [add_mul, mul_add, smul_mul_assoc, mul_smul_comm, Matrix.one_mul, Matrix.mul_one, hA, smul_add,
    smul_smul, mul_comm (star c) c]
  abel

/-- simultaneous reindexing keeps a matrix normal -/
theorem normal_submatrix (A : Matrix n n R) (σ : n ≃ n) (hA : A * Aᴴ = Aᴴ * A) :
    A.submatrix σ σ * (A.submatrix σ σ)ᴴ = (A.submatrix σ σ)ᴴ * A.submatrix σ σ := by
  rw [conjTranspose_submatrix, submatrix_mul_equiv, submatrix_mul_equiv, hA]

/-! ## unitary -/

/-- transpose of a unitary matrix is unitary (both relations) -/
theorem unitary_transpose (U : Matrix n n R) (hU : Uᴴ * U = 1 ∧ U * Uᴴ = 1) :
    (Uᵀ)ᴴ * Uᵀ = 1 ∧ Uᵀ * (Uᵀ)ᴴ = 1 := by
  rw [transpose_conjTranspose_comm, ← transpose_mul, ← transpose_mul, hU.1, hU.2, transpose_one]
  exact ⟨rfl, rfl⟩

/-- entrywise conjugate of a unitary matrix is unitary (both relations) -/
theorem unitary_map_star (U : Matrix n n R) (hU : Uᴴ * U = 1 ∧ U * Uᴴ = 1) :
    (U.map star)ᴴ * U.map star = 1 ∧ U.map star * (U.map star)ᴴ = 1 := by
  rw [map_star_conjTranspose_comm, ← map_star_mul, ← map_star_mul, hU.1, hU.2, one_map_star]
  exact ⟨rfl, rfl⟩

/-- negative of a unitary matrix is unitary (both relations) -/
theorem unitary_neg (U : Matrix n n R) (hU : Uᴴ * U = 1 ∧ U * Uᴴ = 1) :
    (-U)ᴴ * (-U) = 1 ∧ (-U) * (-U)ᴴ = 1 := by
  rw [conjTranspose_neg, neg_mul_neg, neg_mul_neg]; exact hU

/-- product of unitary matrices is unitary, right relation (left relation: `unitary_mul`) -/
theorem unitary_mul_right (U V : Matrix n n R) (hU : U * Uᴴ = 1) (hV : V * Vᴴ = 1) : (U * V) * (U * V)ᴴ = 1 := by
  rw [conjTranspose_mul]
  calc U * V * (Vᴴ * Uᴴ) = U * (V * Vᴴ) * Uᴴ := by simp only [Matrix.mul_assoc]
    _ = 1 := by rw [hV, Matrix.mul_one, hU]

/-- product of unitary matrices is unitary (both relations) -/
theorem unitary_mul_both (U V : Matrix n n R) (hU : Uᴴ * U = 1 ∧ U * Uᴴ = 1) (hV : Vᴴ * V = 1 ∧ V * Vᴴ = 1) :
    (U * V)ᴴ * (U * V) = 1 ∧ (U * V) * (U * V)ᴴ = 1 :=
  ⟨unitary_mul U V hU.1 hV.1, unitary_mul_right U V hU.2 hV.2⟩

/-- conjugate transpose of a unitary matrix is unitary -/
theorem unitary_conjTranspose (U : Matrix n n R) (hU : Uᴴ * U = 1 ∧ U * Uᴴ = 1) :
    (Uᴴ)ᴴ * Uᴴ = 1 ∧ Uᴴ * (Uᴴ)ᴴ = 1 := by
  rw [conjTranspose_conjTranspose]; exact ⟨hU.2, hU.1⟩

/-- conjugation of a unitary matrix by a unitary matrix is unitary (both relations) -/
theorem unitary_conj (U V : Matrix n n R) (hU : Uᴴ * U = 1 ∧ U * Uᴴ = 1) (hV : Vᴴ * V = 1 ∧ V * Vᴴ = 1) :
    (V * U * Vᴴ)ᴴ * (V * U * Vᴴ) = 1 ∧ (V * U * Vᴴ) * (V * U * Vᴴ)ᴴ = 1 :=
  unitary_mul_both (V * U) Vᴴ (unitary_mul_both V U hV hU) (unitary_conjTranspose V hV)

/-- simultaneous reindexing keeps a matrix unitary (both relations) -/
theorem unitary_submatrix (U : Matrix n n R) (σ : n ≃ n) (hU : Uᴴ * U = 1 ∧ U * Uᴴ = 1) :
    (U.submatrix σ σ)ᴴ * U.submatrix σ σ = 1 ∧ U.submatrix σ σ * (U.submatrix σ σ)ᴴ = 1 := by
  rw [conjTranspose_submatrix, submatrix_mul_equiv, submatrix_mul_equiv, hU.1, hU.2, submatrix_one_equiv]
  exact ⟨rfl, rfl⟩

/-- independent reindexing of rows and columns by bijections keeps a matrix unitary -/
theorem unitary_submatrix_two (U : Matrix n n R) (σ τ : n ≃ n) (hU : Uᴴ * U = 1 ∧ U * Uᴴ = 1) :
    (U.submatrix σ τ)ᴴ * U.submatrix σ τ = 1 ∧ U.submatrix σ τ * (U.submatrix σ τ)ᴴ = 1 := by
  rw [conjTranspose_submatrix, submatrix_mul_equiv, submatrix_mul_equiv, hU.1, hU.2, submatrix_one_equiv,
    submatrix_one_equiv]
  exact ⟨rfl, rfl⟩

/-- a unit-modulus multiple of a unitary matrix is unitary -/
theorem unitary_smul (U : Matrix n n R) (c : R) (hc : star c * c = 1) (hU : Uᴴ * U = 1 ∧ U * Uᴴ = 1) :
    (c • U)ᴴ * (c • U) = 1 ∧ (c • U) * (c • U)ᴴ = 1 := by
  rw [conjTranspose_smul, smul_mul_smul_comm, smul_mul_smul_comm, hU.1, hU.2, hc, mul_comm, hc, one_smul]
  exact ⟨rfl, rfl⟩

/-! ## pseudo-unitary (`Aᴴ J A = J` for a fixed signature matrix `J`) -/

/-- left multiplication by a `J`-isometry keeps a matrix pseudo-unitary -/
theorem pseudoU_mul_left (J A W : Matrix n n R) (hW : Wᴴ * J * W = J) (hA : Aᴴ * J * A = J) :
    (W * A)ᴴ * J * (W * A) = J := by
  rw [conjTranspose_mul]
  calc Aᴴ * Wᴴ * J * (W * A) = Aᴴ * (Wᴴ * J * W) * A := by simp only [Matrix.mul_assoc]
    _ = J := by rw [hW, hA]

/-- right multiplication by a `J`-isometry keeps a matrix pseudo-unitary -/
theorem pseudoU_mul_right (J A W : Matrix n n R) (hW : Wᴴ * J * W = J) (hA : Aᴴ * J * A = J) :
    (A * W)ᴴ * J * (A * W) = J :=
  pseudoU_mul_left J W A hA hW

/-- entrywise conjugate of a pseudo-unitary matrix is pseudo-unitary when `J` is real -/
theorem pseudoU_map_star (J A : Matrix n n R) (hJ : J.map star = J) (hA : Aᴴ * J * A = J) :
    (A.map star)ᴴ * J * A.map star = J := by
  have := congrArg (fun M => M.map star) hA
  simp only [map_star_mul, hJ] at this
  rw [map_star_conjTranspose_comm]; exact this

/-- negative of a pseudo-unitary matrix is pseudo-unitary -/
theorem pseudoU_neg (J A : Matrix n n R) (hA : Aᴴ * J * A = J) : (-A)ᴴ * J * (-A) = J := by
  rw [conjTranspose_neg, Matrix.neg_mul, Matrix.neg_mul, Matrix.mul_neg, neg_neg, hA]

/-- a block-diagonal matrix of two unitaries preserves the signature `diag(1, -1)` (the harness's `t_block_unitary`) -/
theorem block_unitary_isometry {p q : Type} [Fintype p] [DecidableEq p] [Fintype q] [DecidableEq q]
    (U : Matrix p p R) (V : Matrix q q R) (hU : Uᴴ * U = 1) (hV : Vᴴ * V = 1) :
    (fromBlocks U 0 0 V)ᴴ * fromBlocks (1 : Matrix p p R) 0 0 (-1 : Matrix q q R) * fromBlocks U 0 0 V
      = fromBlocks 1 0 0 (-1) := by
  rw [fromBlocks_conjTranspose, fromBlocks_multiply, fromBlocks_multiply]
  simp [hU, hV]

/-- a pseudo-unitary matrix multiplied by a unit-modulus scalar is pseudo-unitary -/
theorem pseudoU_smul (J A : Matrix n n R) (c : R) (hc : star c * c = 1) (hA : Aᴴ * J * A = J) :
    (c • A)ᴴ * J * (c • A) = J := by
  rw [conjTranspose_smul, smul_mul_assoc, smul_mul_assoc, mul_smul_comm, smul_smul, hc, one_smul, hA]

/-! ## pseudo-Hermitian (`η H = Hᴴ η`, inverse-free form of `η H η⁻¹ = Hᴴ`) -/

/-- the inverse-free relation is the one with the inverse -/
theorem pseudoH_iff (η ηinv H : Matrix n n R) (h1 : η * ηinv = 1) (h2 : ηinv * η = 1) :
    η * H = Hᴴ * η ↔ η * H * ηinv = Hᴴ := by
  constructor
  · intro h
    rw [h, Matrix.mul_assoc, h1, Matrix.mul_one]
  · intro h
    rw [← h, Matrix.mul_assoc (η * H), h2, Matrix.mul_one]

/-- simultaneous unitary congruence of `η` and `H` keeps the pseudo-Hermitian relation -/
theorem pseudoH_congr (η H U : Matrix n n R) (hU : Uᴴ * U = 1) (h : η * H = Hᴴ * η) :
    (U * η * Uᴴ) * (U * H * Uᴴ) = (U * H * Uᴴ)ᴴ * (U * η * Uᴴ) := by
  have e : (U * H * Uᴴ)ᴴ = U * Hᴴ * Uᴴ := by
    rw [conjTranspose_mul, conjTranspose_mul, conjTranspose_conjTranspose, Matrix.mul_assoc]
  rw [e]
  calc U * η * Uᴴ * (U * H * Uᴴ) = U * η * (Uᴴ * U) * H * Uᴴ := by simp only [Matrix.mul_assoc]
    _ = U * (η * H) * Uᴴ := by rw [hU]; simp only [Matrix.mul_one, Matrix.mul_assoc]
    _ = U * (Hᴴ * η) * Uᴴ := by rw [h]
    _ = U * Hᴴ * (Uᴴ * U) * η * Uᴴ := by rw [hU]; simp only [Matrix.mul_one, Matrix.mul_assoc]
    _ = U * Hᴴ * Uᴴ * (U * η * Uᴴ) := by simp only [Matrix.mul_assoc]

/-- the converse: the relation for the congruent pair gives it for the original pair -/
theorem pseudoH_congr_iff (η H U : Matrix n n R) (hU : Uᴴ * U = 1) :
    (U * η * Uᴴ) * (U * H * Uᴴ) = (U * H * Uᴴ)ᴴ * (U * η * Uᴴ) ↔ η * H = Hᴴ * η := by
  refine ⟨fun h => ?_, pseudoH_congr η H U hU⟩
  have hU' : (Uᴴ)ᴴ * Uᴴ = 1 := by rw [conjTranspose_conjTranspose]; exact unitary_right_of_left U hU
  have := pseudoH_congr _ _ Uᴴ hU' h
  have back : ∀ X : Matrix n n R, Uᴴ * (U * X * Uᴴ) * Uᴴᴴ = X := by
    intro X
    rw [conjTranspose_conjTranspose]
    calc Uᴴ * (U * X * Uᴴ) * U = (Uᴴ * U) * X * (Uᴴ * U) := by simp only [Matrix.mul_assoc]
      _ = X := by rw [hU, Matrix.one_mul, Matrix.mul_one]
  rwa [back, back] at this

/-- rescaling the metric `η` keeps the pseudo-Hermitian relation -/
theorem pseudoH_smul_eta (η H : Matrix n n R) (c : R) (h : η * H = Hᴴ * η) : (c • η) * H = Hᴴ * (c • η) := by
  rw [smul_mul_assoc, mul_smul_comm, h]

/-- a self-adjoint multiple of `H` is pseudo-Hermitian for the same metric -/
theorem pseudoH_smul_H (η H : Matrix n n R) (c : R) (hc : star c = c) (h : η * H = Hᴴ * η) :
    η * (c • H) = (c • H)ᴴ * η := by
  rw [conjTranspose_smul, hc, smul_mul_assoc, mul_smul_comm, h]

/-- congruence and rescaling of the metric together (exactly the harness's `t_pseudo_h_congruence`) -/
theorem pseudoH_congr_smul (η H U : Matrix n n R) (c : R) (hU : Uᴴ * U = 1) (h : η * H = Hᴴ * η) :
    (c • (U * η * Uᴴ)) * (U * H * Uᴴ) = (U * H * Uᴴ)ᴴ * (c • (U * η * Uᴴ)) :=
  pseudoH_smul_eta _ _ c (pseudoH_congr η H U hU h)

/-! ## idempotent -/

/-- transpose of an idempotent matrix is idempotent -/
theorem idem_transpose (A : Matrix n n R) (hA : A * A = A) : Aᵀ * Aᵀ = Aᵀ := by
  rw [← transpose_mul, hA]

/-- entrywise conjugate of an idempotent matrix is idempotent -/
theorem idem_map_star (A : Matrix n n R) (hA : A * A = A) : A.map star * A.map star = A.map star := by
  rw [← map_star_mul, hA]

/-- conjugate transpose of an idempotent matrix is idempotent -/
theorem idem_conjTranspose (A : Matrix n n R) (hA : A * A = A) : Aᴴ * Aᴴ = Aᴴ := by
  rw [← conjTranspose_mul, hA]

/-- a matrix similar to an idempotent matrix is idempotent -/
theorem idem_similarity (A S Sinv : Matrix n n R) (hS : Sinv * S = 1) (hA : A * A = A) :
    (S * A * Sinv) * (S * A * Sinv) = S * A * Sinv := by
  calc S * A * Sinv * (S * A * Sinv) = S * A * (Sinv * S) * A * Sinv := by simp only [Matrix.mul_assoc]
    _ = S * (A * A) * Sinv := by rw [hS]; simp only [Matrix.mul_one, Matrix.mul_assoc]
    _ = S * A * Sinv := by rw [hA]

/-- simultaneous reindexing keeps a matrix idempotent -/
theorem idem_submatrix (A : Matrix n n R) (σ : n ≃ n) (hA : A * A = A) :
    A.submatrix σ σ * A.submatrix σ σ = A.submatrix σ σ := by
  rw [submatrix_mul_equiv, hA]

/-- an orthogonal projection (Hermitian idempotent) stays one under unitary conjugation -/
theorem projection_conj (A U : Matrix n n R) (hU : Uᴴ * U = 1) (hA : A.IsHermitian ∧ A * A = A) :
    (U * A * Uᴴ).IsHermitian ∧ (U * A * Uᴴ) * (U * A * Uᴴ) = U * A * Uᴴ :=
  ⟨herm_conj A U hA.1, idem_conj A U hU hA.2⟩

/-- an orthogonal projection stays one under transposition, conjugation and reindexing -/
theorem projection_transpose_conj_submatrix (A : Matrix n n R) (σ : n ≃ n) (hA : A.IsHermitian ∧ A * A = A) :
    (Aᵀ.IsHermitian ∧ Aᵀ * Aᵀ = Aᵀ) ∧ ((A.map star).IsHermitian ∧ A.map star * A.map star = A.map star) ∧
      ((A.submatrix σ σ).IsHermitian ∧ A.submatrix σ σ * A.submatrix σ σ = A.submatrix σ σ) :=
  ⟨⟨herm_transpose A hA.1, idem_transpose A hA.2⟩, ⟨herm_map_star A hA.1, idem_map_star A hA.2⟩,
    ⟨herm_submatrix A σ hA.1, idem_submatrix A σ hA.2⟩⟩

/-! ## identity -/

/-- conjugating the identity by a unitary gives the identity -/
theorem one_conj (U : Matrix n n R) (hU : U * Uᴴ = 1) : U * 1 * Uᴴ = 1 := by
  rw [Matrix.mul_one, hU]

/-- a similarity of the identity is the identity -/
theorem one_similarity (S Sinv : Matrix n n R) (hS : S * Sinv = 1) : S * 1 * Sinv = 1 := by
  rw [Matrix.mul_one, hS]

/-- reindexing the identity by a bijection gives the identity -/
theorem one_submatrix (σ : n ≃ n) : (1 : Matrix n n R).submatrix σ σ = 1 := submatrix_one_equiv σ

/-- transpose of the identity -/
theorem one_transpose : (1 : Matrix n n R)ᵀ = 1 := transpose_one

/-- only the identity is mapped to the identity by a unitary conjugation -/
theorem conj_eq_one_iff (A U : Matrix n n R) (hU : Uᴴ * U = 1) : U * A * Uᴴ = 1 ↔ A = 1 := by
  constructor
  · intro h
    have := congrArg (fun M => Uᴴ * M * U) h
    simp only [Matrix.mul_one, hU] at this
    rw [← this]
    calc A = (Uᴴ * U) * A * (Uᴴ * U) := by rw [hU, Matrix.one_mul, Matrix.mul_one]
      _ = Uᴴ * (U * A * Uᴴ) * U := by simp only [Matrix.mul_assoc]
  · rintro rfl; exact one_conj U (unitary_right_of_left U hU)

/-! ## diagonal (`A i j = 0` off the diagonal) -/

/-- simultaneous reindexing keeps a matrix diagonal -/
theorem diag_submatrix (A : Matrix n n R) (σ : n ≃ n) (hA : ∀ i j, i ≠ j → A i j = 0) :
    ∀ i j, i ≠ j → (A.submatrix σ σ) i j = 0 := fun i j h => hA _ _ (fun e => h (σ.injective e))

/-- transpose of a diagonal matrix is diagonal -/
theorem diag_transpose (A : Matrix n n R) (hA : ∀ i j, i ≠ j → A i j = 0) : ∀ i j, i ≠ j → Aᵀ i j = 0 :=
  fun i j h => hA j i (Ne.symm h)

/-- entrywise conjugate of a diagonal matrix is diagonal -/
theorem diag_map_star (A : Matrix n n R) (hA : ∀ i j, i ≠ j → A i j = 0) : ∀ i j, i ≠ j → (A.map star) i j = 0 :=
  fun i j h => by simp [hA i j h]

/-- negative of a diagonal matrix is diagonal -/
theorem diag_neg (A : Matrix n n R) (hA : ∀ i j, i ≠ j → A i j = 0) : ∀ i j, i ≠ j → (-A) i j = 0 :=
  fun i j h => by simp [hA i j h]

/-- any multiple of a diagonal matrix is diagonal -/
theorem diag_smul (A : Matrix n n R) (c : R) (hA : ∀ i j, i ≠ j → A i j = 0) : ∀ i j, i ≠ j → (c • A) i j = 0 :=
  fun i j h => by simp [hA i j h]

/-- conjugation by a diagonal matrix keeps a matrix diagonal -/
theorem diag_phase (A : Matrix n n R) (d : n → R) (hA : ∀ i j, i ≠ j → A i j = 0) :
    ∀ i j, i ≠ j → (diagonal d * A * (diagonal d)ᴴ) i j = 0 :=
  fun i j h => by rw [phase_conj_apply, hA i j h]; simp

/-- a diagonal matrix with unit-modulus phases applied is the same matrix -/
theorem diag_phase_eq (A : Matrix n n R) (d : n → R) (hd : ∀ i, star (d i) * d i = 1)
    (hA : ∀ i j, i ≠ j → A i j = 0) : diagonal d * A * (diagonal d)ᴴ = A := by
  ext i j
  rw [phase_conj_apply]
  by_cases h : i = j
  · subst h; rw [mul_comm (d i), mul_assoc, mul_comm (d i), hd, mul_one]
  · rw [hA i j h]; simp

/-! ## commuting pairs -/

/-- simultaneous unitary conjugation keeps a pair commuting -/
theorem comm_conj (A B U : Matrix n n R) (hU : Uᴴ * U = 1) (h : A * B = B * A) :
    (U * A * Uᴴ) * (U * B * Uᴴ) = (U * B * Uᴴ) * (U * A * Uᴴ) := by
  calc U * A * Uᴴ * (U * B * Uᴴ) = U * A * (Uᴴ * U) * B * Uᴴ := by simp only [Matrix.mul_assoc]
    _ = U * (A * B) * Uᴴ := by rw [hU]; simp only [Matrix.mul_one, Matrix.mul_assoc]
    _ = U * (B * A) * Uᴴ := by rw [h]
    _ = U * B * (Uᴴ * U) * A * Uᴴ := by rw [hU]; simp only [Matrix.mul_one, Matrix.mul_assoc]
    _ = U * B * Uᴴ * (U * A * Uᴴ) := by simp only [Matrix.mul_assoc]

/-- commuting is symmetric in the two matrices -/
theorem comm_swap (A B : Matrix n n R) (h : A * B = B * A) : B * A = A * B := h.symm

/-- simultaneous transposition keeps a pair commuting -/
theorem comm_transpose (A B : Matrix n n R) (h : A * B = B * A) : Aᵀ * Bᵀ = Bᵀ * Aᵀ := by
  rw [← transpose_mul, ← transpose_mul, h]

/-- simultaneous entrywise conjugation keeps a pair commuting -/
theorem comm_map_star (A B : Matrix n n R) (h : A * B = B * A) : A.map star * B.map star = B.map star * A.map star := by
  rw [← map_star_mul, ← map_star_mul, h]

/-- simultaneous reindexing keeps a pair commuting -/
theorem comm_submatrix (A B : Matrix n n R) (σ : n ≃ n) (h : A * B = B * A) :
    A.submatrix σ σ * B.submatrix σ σ = B.submatrix σ σ * A.submatrix σ σ := by
  rw [submatrix_mul_equiv, submatrix_mul_equiv, h]

/-! ## permutation matrices (0/1 entries, every row and column sums to 1) -/

/-- transpose of a permutation matrix is a permutation matrix -/
theorem permMat_transpose (A : Matrix n n R)
    (hA : (∀ i j, A i j = 0 ∨ A i j = 1) ∧ (∀ i, ∑ j, A i j = 1) ∧ (∀ j, ∑ i, A i j = 1)) :
    (∀ i j, Aᵀ i j = 0 ∨ Aᵀ i j = 1) ∧ (∀ i, ∑ j, Aᵀ i j = 1) ∧ (∀ j, ∑ i, Aᵀ i j = 1) :=
  ⟨fun i j => hA.1 j i, fun i => hA.2.2 i, fun j => hA.2.1 j⟩

/-- reordering rows and columns (independently) keeps a permutation matrix one -/
theorem permMat_submatrix (A : Matrix n n R) (σ τ : n ≃ n)
    (hA : (∀ i j, A i j = 0 ∨ A i j = 1) ∧ (∀ i, ∑ j, A i j = 1) ∧ (∀ j, ∑ i, A i j = 1)) :
    (∀ i j, (A.submatrix σ τ) i j = 0 ∨ (A.submatrix σ τ) i j = 1) ∧ (∀ i, ∑ j, (A.submatrix σ τ) i j = 1) ∧
      (∀ j, ∑ i, (A.submatrix σ τ) i j = 1) := by
  refine ⟨fun i j => hA.1 _ _, fun i => ?_, fun j => ?_⟩
  · simp only [submatrix_apply]
    rw [Equiv.sum_comp τ (fun j => A (σ i) j)]; exact hA.2.1 _
  · simp only [submatrix_apply]
    rw [Equiv.sum_comp σ (fun i => A i (τ j))]; exact hA.2.2 _

/-- the permutation matrix of a bijection satisfies the permutation-matrix predicate -/
theorem permMat_of_equiv (σ : n ≃ n) :
    (∀ i j, (σ.toPEquiv.toMatrix : Matrix n n R) i j = 0 ∨ (σ.toPEquiv.toMatrix : Matrix n n R) i j = 1) ∧
      (∀ i, ∑ j, (σ.toPEquiv.toMatrix : Matrix n n R) i j = 1) ∧
      (∀ j, ∑ i, (σ.toPEquiv.toMatrix : Matrix n n R) i j = 1) := by
  have h1 : (σ.toPEquiv.toMatrix : Matrix n n R) = (1 : Matrix n n R).submatrix σ id := by
    rw [← perm_left_eq_submatrix, Matrix.mul_one]
  have one : (∀ i j, (1 : Matrix n n R) i j = 0 ∨ (1 : Matrix n n R) i j = 1) ∧
      (∀ i, ∑ j, (1 : Matrix n n R) i j = 1) ∧ (∀ j, ∑ i, (1 : Matrix n n R) i j = 1) := by
    refine ⟨fun i j => ?_, fun i => ?_, fun j => ?_⟩
    · by_cases h : i = j <;> simp [Matrix.one_apply, h]
    · simp [Matrix.one_apply]
    · simp [Matrix.one_apply]
  rw [h1]
  exact permMat_submatrix 1 σ (Equiv.refl n) one

/-! ## circulant matrices in the shift-invariant form, indices in a finite commutative group -/

section circulant
variable {G : Type} [Fintype G] [DecidableEq G] [AddCommGroup G]

/-- transpose of a circulant matrix is circulant -/
theorem circ_transpose (A : Matrix G G R) (hA : ∀ i j k : G, A (i + k) (j + k) = A i j) :
    ∀ i j k : G, Aᵀ (i + k) (j + k) = Aᵀ i j := fun i j k => hA j i k

/-- entrywise conjugate of a circulant matrix is circulant -/
theorem circ_map_star (A : Matrix G G R) (hA : ∀ i j k : G, A (i + k) (j + k) = A i j) :
    ∀ i j k : G, (A.map star) (i + k) (j + k) = (A.map star) i j := fun i j k => by simp [hA i j k]

/-- negative of a circulant matrix is circulant -/
theorem circ_neg (A : Matrix G G R) (hA : ∀ i j k : G, A (i + k) (j + k) = A i j) :
    ∀ i j k : G, (-A) (i + k) (j + k) = (-A) i j := fun i j k => by simp [hA i j k]

/-- any multiple of a circulant matrix is circulant -/
theorem circ_smul (A : Matrix G G R) (c : R) (hA : ∀ i j k : G, A (i + k) (j + k) = A i j) :
    ∀ i j k : G, (c • A) (i + k) (j + k) = (c • A) i j := fun i j k => by simp [hA i j k]

/-- sum of circulant matrices is circulant -/
theorem circ_add (A B : Matrix G G R) (hA : ∀ i j k : G, A (i + k) (j + k) = A i j)
    (hB : ∀ i j k : G, B (i + k) (j + k) = B i j) :
    ∀ i j k : G, (A + B) (i + k) (j + k) = (A + B) i j := fun i j k => by simp [hA i j k, hB i j k]

/-- the identity is circulant -/
theorem circ_one : ∀ i j k : G, (1 : Matrix G G R) (i + k) (j + k) = (1 : Matrix G G R) i j := fun i j k => by
  simp [Matrix.one_apply]

/-- a circulant matrix shifted by a multiple of the identity is circulant -/
theorem circ_add_smul_one (A : Matrix G G R) (c : R) (hA : ∀ i j k : G, A (i + k) (j + k) = A i j) :
    ∀ i j k : G, (A + c • 1) (i + k) (j + k) = (A + c • 1) i j :=
  circ_add A (c • 1) hA (circ_smul 1 c circ_one)

/-- a cyclic shift of rows and columns leaves a circulant matrix unchanged -/
theorem circ_shift_eq (A : Matrix G G R) (s : G) (hA : ∀ i j k : G, A (i + k) (j + k) = A i j) :
    A.submatrix (· + s) (· + s) = A := by
  ext i j; exact hA i j s

/-- a cyclic shift of rows and columns of a circulant matrix is circulant -/
theorem circ_shift (A : Matrix G G R) (s : G) (hA : ∀ i j k : G, A (i + k) (j + k) = A i j) :
    ∀ i j k : G, (A.submatrix (· + s) (· + s)) (i + k) (j + k) = (A.submatrix (· + s) (· + s)) i j := by
  rw [circ_shift_eq A s hA]; exact hA

/-- product of circulant matrices is circulant -/
theorem circ_mul (A B : Matrix G G R) (hA : ∀ i j k : G, A (i + k) (j + k) = A i j)
    (hB : ∀ i j k : G, B (i + k) (j + k) = B i j) :
    ∀ i j k : G, (A * B) (i + k) (j + k) = (A * B) i j := by
  intro i j k
  simp only [Matrix.mul_apply]
  rw [← Equiv.sum_comp (Equiv.addRight k) (fun l => A (i + k) l * B l (j + k))]
  apply Finset.sum_congr rfl
  intro l _
  simp only [Equiv.coe_addRight]
  rw [hA, hB]

/-- a circulant matrix is determined by its first column: `A i j = A (i - j) 0` -/
theorem circ_first_column (A : Matrix G G R) (hA : ∀ i j k : G, A (i + k) (j + k) = A i j) (i j : G) :
    A i j = A (i - j) 0 := by
  have := hA (i - j) 0 j
  rw [sub_add_cancel, zero_add] at this
  exact this

/-- circulant matrices commute with each other -/
theorem circ_comm (A B : Matrix G G R) (hA : ∀ i j k : G, A (i + k) (j + k) = A i j)
    (hB : ∀ i j k : G, B (i + k) (j + k) = B i j) : A * B = B * A := by
  ext i j
  simp only [Matrix.mul_apply]
  -- substitute l ↦ i + j - l
  rw [← Equiv.sum_comp (Equiv.subLeft (i + j)) (fun l => B i l * A l j)]
  apply Finset.sum_congr rfl
  intro l _
  simp only [Equiv.subLeft_apply]
  rw [circ_first_column A hA i l, circ_first_column B hB l j, circ_first_column B hB i (i + j - l),
    circ_first_column A hA (i + j - l) j, mul_comm]
  congr 2 <;> abel

end circulant

/-! ## trace under the transformations -/

/-- unitary conjugation preserves the trace -/
theorem trace_conj (A U : Matrix n n R) (hU : Uᴴ * U = 1) : (U * A * Uᴴ).trace = A.trace := by
  rw [trace_mul_cycle, hU, Matrix.one_mul]

/-- similarity preserves the trace -/
theorem trace_similarity (A S Sinv : Matrix n n R) (hS : Sinv * S = 1) : (S * A * Sinv).trace = A.trace := by
  rw [trace_mul_cycle, hS, Matrix.one_mul]

/-- trace of the entrywise conjugate is the conjugate of the trace -/
theorem trace_map_star (A : Matrix n n R) : (A.map star).trace = star A.trace := by
  rw [map_star_eq, trace_transpose, trace_conjTranspose]

/-- simultaneous reindexing preserves the trace -/
theorem trace_submatrix (A : Matrix n n R) (σ : n ≃ n) : (A.submatrix σ σ).trace = A.trace := by
  simp only [trace, diag_apply, submatrix_apply]
  exact Equiv.sum_comp σ (fun i => A i i)

/-- unitary conjugation preserves the purity `tr ρ²` -/
theorem trace_sq_conj (A U : Matrix n n R) (hU : Uᴴ * U = 1) :
    ((U * A * Uᴴ) * (U * A * Uᴴ)).trace = (A * A).trace := by
  have : (U * A * Uᴴ) * (U * A * Uᴴ) = U * (A * A) * Uᴴ := by
    calc U * A * Uᴴ * (U * A * Uᴴ) = U * A * (Uᴴ * U) * A * Uᴴ := by simp only [Matrix.mul_assoc]
      _ = U * (A * A) * Uᴴ := by rw [hU]; simp only [Matrix.mul_one, Matrix.mul_assoc]
  rw [this, trace_conj _ _ hU]

/-- transposition preserves the purity `tr ρ²` -/
theorem trace_sq_transpose (A : Matrix n n R) : (Aᵀ * Aᵀ).trace = (A * A).trace := by
  rw [← transpose_mul, trace_transpose]

/-- entrywise conjugation conjugates the purity `tr ρ²` -/
theorem trace_sq_map_star (A : Matrix n n R) : (A.map star * A.map star).trace = star (A * A).trace := by
  rw [← map_star_mul, trace_map_star]

/-- simultaneous reindexing preserves the purity `tr ρ²` -/
theorem trace_sq_submatrix (A : Matrix n n R) (σ : n ≃ n) :
    (A.submatrix σ σ * A.submatrix σ σ).trace = (A * A).trace := by
  rw [submatrix_mul_equiv, trace_submatrix]

end star

/-! ## positive semidefinite, positive definite, density and pure-state predicates -/

section order
variable {S : Type} [CommRing S] [PartialOrder S] [StarRing S] [StarOrderedRing S]

/-- transpose of a positive semidefinite matrix is positive semidefinite -/
theorem psd_transpose (A : Matrix n n S) (hA : A.PosSemidef) : Aᵀ.PosSemidef := hA.transpose

/-- entrywise conjugate of a positive semidefinite matrix is positive semidefinite -/
theorem psd_map_star (A : Matrix n n S) (hA : A.PosSemidef) : (A.map star).PosSemidef := by
  rw [map_star_eq]; exact hA.conjTranspose.transpose

/-- a nonnegative multiple of a positive semidefinite matrix is positive semidefinite -/
theorem psd_smul (A : Matrix n n S) (c : S) (hc : 0 ≤ c) (hA : A.PosSemidef) : (c • A).PosSemidef := hA.smul hc

/-- simultaneous reindexing keeps a matrix positive semidefinite -/
theorem psd_submatrix (A : Matrix n n S) (σ : n ≃ n) (hA : A.PosSemidef) : (A.submatrix σ σ).PosSemidef :=
  hA.submatrix σ

/-- the reindexed matrix is positive semidefinite exactly when the original is -/
theorem psd_submatrix_iff (A : Matrix n n S) (σ : n ≃ n) : (A.submatrix σ σ).PosSemidef ↔ A.PosSemidef :=
  posSemidef_submatrix_equiv σ

/-- conjugation (by any matrix, in particular a unitary or a phase matrix) keeps a matrix positive semidefinite -/
theorem psd_conj (A U : Matrix n n S) (hA : A.PosSemidef) : (U * A * Uᴴ).PosSemidef :=
  hA.mul_mul_conjTranspose_same U

/-- unitary conjugation: positive semidefinite exactly when the original is -/
theorem psd_conj_iff (A U : Matrix n n S) (hU : Uᴴ * U = 1) : (U * A * Uᴴ).PosSemidef ↔ A.PosSemidef := by
  refine ⟨fun h => ?_, psd_conj A U⟩
  have := h.conjTranspose_mul_mul_same U
  have e : Uᴴ * (U * A * Uᴴ) * U = A := by
    calc Uᴴ * (U * A * Uᴴ) * U = (Uᴴ * U) * A * (Uᴴ * U) := by simp only [Matrix.mul_assoc]
      _ = A := by rw [hU, Matrix.one_mul, Matrix.mul_one]
  rwa [e] at this

/-- transpose of a positive definite matrix is positive definite -/
theorem pd_transpose (A : Matrix n n S) (hA : A.PosDef) : Aᵀ.PosDef := hA.transpose

/-- entrywise conjugate of a positive definite matrix is positive definite -/
theorem pd_map_star (A : Matrix n n S) (hA : A.PosDef) : (A.map star).PosDef := by
  rw [map_star_eq]; exact hA.conjTranspose.transpose

/-- a positive multiple of a positive definite matrix is positive definite -/
theorem pd_smul [PosSMulStrictMono S S] (A : Matrix n n S) (c : S) (hc : 0 < c) (hA : A.PosDef) :
    (c • A).PosDef := hA.smul hc

/-- simultaneous reindexing by a bijection keeps a matrix positive definite -/
theorem pd_submatrix (A : Matrix n n S) (σ : n ≃ n) (hA : A.PosDef) : (A.submatrix σ σ).PosDef :=
  hA.submatrix σ.injective

/-- congruence by an invertible matrix keeps a matrix positive definite -/
theorem pd_conj_invertible (A B Binv : Matrix n n S) (hB : B * Binv = 1) (hA : A.PosDef) : (B * A * Bᴴ).PosDef := by
  apply hA.mul_mul_conjTranspose_same
  intro x y hxy
  have := congrArg (fun v => v ᵥ* Binv) hxy
  simpa [vecMul_vecMul, hB] using this

/-- unitary conjugation keeps a matrix positive definite -/
theorem pd_conj (A U : Matrix n n S) (hU : Uᴴ * U = 1) (hA : A.PosDef) : (U * A * Uᴴ).PosDef :=
  pd_conj_invertible A U Uᴴ (unitary_right_of_left U hU) hA

/-- unitary conjugation of a density matrix is a density matrix -/
theorem density_conj (A U : Matrix n n S) (hU : Uᴴ * U = 1) (hA : A.PosSemidef ∧ A.trace = 1) :
    (U * A * Uᴴ).PosSemidef ∧ (U * A * Uᴴ).trace = 1 :=
  ⟨psd_conj A U hA.1, by rw [trace_conj A U hU, hA.2]⟩

/-- transpose of a density matrix is a density matrix -/
theorem density_transpose (A : Matrix n n S) (hA : A.PosSemidef ∧ A.trace = 1) :
    Aᵀ.PosSemidef ∧ Aᵀ.trace = 1 :=
  ⟨hA.1.transpose, by rw [trace_transpose, hA.2]⟩

/-- entrywise conjugate of a density matrix is a density matrix -/
theorem density_map_star (A : Matrix n n S) (hA : A.PosSemidef ∧ A.trace = 1) :
    (A.map star).PosSemidef ∧ (A.map star).trace = 1 :=
  ⟨psd_map_star A hA.1, by rw [trace_map_star, hA.2, star_one]⟩

/-- simultaneous reindexing of a density matrix is a density matrix -/
theorem density_submatrix (A : Matrix n n S) (σ : n ≃ n) (hA : A.PosSemidef ∧ A.trace = 1) :
    (A.submatrix σ σ).PosSemidef ∧ (A.submatrix σ σ).trace = 1 :=
  ⟨psd_submatrix A σ hA.1, by rw [trace_submatrix, hA.2]⟩

/-- unitary conjugation of a pure state is a pure state -/
theorem pure_conj (A U : Matrix n n S) (hU : Uᴴ * U = 1) (hA : A.PosSemidef ∧ A.trace = 1 ∧ (A * A).trace = 1) :
    (U * A * Uᴴ).PosSemidef ∧ (U * A * Uᴴ).trace = 1 ∧ ((U * A * Uᴴ) * (U * A * Uᴴ)).trace = 1 :=
  ⟨psd_conj A U hA.1, by rw [trace_conj A U hU, hA.2.1], by rw [trace_sq_conj A U hU, hA.2.2]⟩

/-- transpose of a pure state is a pure state -/
theorem pure_transpose (A : Matrix n n S) (hA : A.PosSemidef ∧ A.trace = 1 ∧ (A * A).trace = 1) :
    Aᵀ.PosSemidef ∧ Aᵀ.trace = 1 ∧ (Aᵀ * Aᵀ).trace = 1 :=
  ⟨hA.1.transpose, by rw [trace_transpose, hA.2.1], by rw [trace_sq_transpose, hA.2.2]⟩

/-- entrywise conjugate of a pure state is a pure state -/
theorem pure_map_star (A : Matrix n n S) (hA : A.PosSemidef ∧ A.trace = 1 ∧ (A * A).trace = 1) :
    (A.map star).PosSemidef ∧ (A.map star).trace = 1 ∧ (A.map star * A.map star).trace = 1 :=
  ⟨psd_map_star A hA.1, by rw [trace_map_star, hA.2.1, star_one], by rw [trace_sq_map_star, hA.2.2, star_one]⟩

/-- simultaneous reindexing of a pure state is a pure state -/
theorem pure_submatrix (A : Matrix n n S) (σ : n ≃ n) (hA : A.PosSemidef ∧ A.trace = 1 ∧ (A * A).trace = 1) :
    (A.submatrix σ σ).PosSemidef ∧ (A.submatrix σ σ).trace = 1 ∧ (A.submatrix σ σ * A.submatrix σ σ).trace = 1 :=
  ⟨psd_submatrix A σ hA.1, by rw [trace_submatrix, hA.2.1], by rw [trace_sq_submatrix, hA.2.2]⟩

/-- a mixed state (density matrix with `tr ρ² ≠ 1`) stays mixed under unitary conjugation -/
theorem mixed_conj (A U : Matrix n n S) (hU : Uᴴ * U = 1) (hA : (A * A).trace ≠ 1) :
    ((U * A * Uᴴ) * (U * A * Uᴴ)).trace ≠ 1 := by rwa [trace_sq_conj A U hU]

end order

section complexOrder
open scoped ComplexOrder

/-- over ℂ: a nonnegative real multiple of a positive semidefinite matrix is positive semidefinite -/
theorem psd_smul_real (A : Matrix n n ℂ) (c : ℝ) (hc : 0 ≤ c) (hA : A.PosSemidef) : (c • A).PosSemidef := hA.smul hc

/-- over ℂ: a positive real multiple of a positive definite matrix is positive definite -/
theorem pd_smul_real (A : Matrix n n ℂ) (c : ℝ) (hc : 0 < c) (hA : A.PosDef) : (c • A).PosDef := hA.smul hc

/-- over ℂ: a positive multiple of a positive definite matrix is positive definite -/
theorem pd_smul_complex (A : Matrix n n ℂ) (c : ℂ) (hc : 0 < c) (hA : A.PosDef) : (c • A).PosDef := hA.smul hc

end complexOrder

/-! ## diagonally dominant (strict and non-strict), over `ℝ` or `ℂ` -/

section diagDom
variable {𝕜 : Type} [RCLike 𝕜]

/-- off-diagonal row sums after simultaneous reindexing -/
theorem offdiag_sum_submatrix (A : Matrix n n 𝕜) (σ : n ≃ n) (i : n) :
    ∑ j ∈ Finset.univ.erase i, ‖(A.submatrix σ σ) i j‖ = ∑ j ∈ Finset.univ.erase (σ i), ‖A (σ i) j‖ := by
  refine Finset.sum_equiv σ (fun j => ?_) (fun j _ => rfl)
  simp [Finset.mem_erase]

/-- entries of a phase conjugation have the same modulus -/
theorem norm_phase_conj_apply (A : Matrix n n 𝕜) (d : n → 𝕜) (hd : ∀ i, ‖d i‖ = 1) (i j : n) :
    ‖(diagonal d * A * (diagonal d)ᴴ) i j‖ = ‖A i j‖ := by
  rw [phase_conj_apply, norm_mul, norm_mul, norm_star, hd, hd, one_mul, mul_one]

/-- simultaneous reindexing keeps a matrix strictly diagonally dominant -/
theorem sdd_submatrix (A : Matrix n n 𝕜) (σ : n ≃ n) (hA : ∀ i, ∑ j ∈ Finset.univ.erase i, ‖A i j‖ < ‖A i i‖) :
    ∀ i, ∑ j ∈ Finset.univ.erase i, ‖(A.submatrix σ σ) i j‖ < ‖(A.submatrix σ σ) i i‖ := by
  intro i; rw [offdiag_sum_submatrix]; exact hA (σ i)

/-- simultaneous reindexing keeps a matrix diagonally dominant -/
theorem dd_submatrix (A : Matrix n n 𝕜) (σ : n ≃ n) (hA : ∀ i, ∑ j ∈ Finset.univ.erase i, ‖A i j‖ ≤ ‖A i i‖) :
    ∀ i, ∑ j ∈ Finset.univ.erase i, ‖(A.submatrix σ σ) i j‖ ≤ ‖(A.submatrix σ σ) i i‖ := by
  intro i; rw [offdiag_sum_submatrix]; exact hA (σ i)

/-- entrywise conjugation keeps a matrix strictly diagonally dominant -/
theorem sdd_map_star (A : Matrix n n 𝕜) (hA : ∀ i, ∑ j ∈ Finset.univ.erase i, ‖A i j‖ < ‖A i i‖) :
    ∀ i, ∑ j ∈ Finset.univ.erase i, ‖(A.map star) i j‖ < ‖(A.map star) i i‖ := by
  intro i; simpa [norm_star] using hA i

/-- entrywise conjugation keeps a matrix diagonally dominant -/
theorem dd_map_star (A : Matrix n n 𝕜) (hA : ∀ i, ∑ j ∈ Finset.univ.erase i, ‖A i j‖ ≤ ‖A i i‖) :
    ∀ i, ∑ j ∈ Finset.univ.erase i, ‖(A.map star) i j‖ ≤ ‖(A.map star) i i‖ := by
  intro i; simpa [norm_star] using hA i

/-- negation keeps a matrix strictly diagonally dominant -/
theorem sdd_neg (A : Matrix n n 𝕜) (hA : ∀ i, ∑ j ∈ Finset.univ.erase i, ‖A i j‖ < ‖A i i‖) :
    ∀ i, ∑ j ∈ Finset.univ.erase i, ‖(-A) i j‖ < ‖(-A) i i‖ := by
  intro i; simpa [norm_neg] using hA i

/-- negation keeps a matrix diagonally dominant -/
theorem dd_neg (A : Matrix n n 𝕜) (hA : ∀ i, ∑ j ∈ Finset.univ.erase i, ‖A i j‖ ≤ ‖A i i‖) :
    ∀ i, ∑ j ∈ Finset.univ.erase i, ‖(-A) i j‖ ≤ ‖(-A) i i‖ := by
  intro i; simpa [norm_neg] using hA i

/-- off-diagonal row sums of a scalar multiple -/
theorem offdiag_sum_smul (A : Matrix n n 𝕜) (c : 𝕜) (i : n) :
    ∑ j ∈ Finset.univ.erase i, ‖(c • A) i j‖ = ‖c‖ * ∑ j ∈ Finset.univ.erase i, ‖A i j‖ := by
  rw [Finset.mul_sum]
  exact Finset.sum_congr rfl (fun j _ => by rw [Matrix.smul_apply, smul_eq_mul, norm_mul])

/-- a non-zero multiple of a strictly diagonally dominant matrix is strictly diagonally dominant -/
theorem sdd_smul (A : Matrix n n 𝕜) (c : 𝕜) (hc : c ≠ 0) (hA : ∀ i, ∑ j ∈ Finset.univ.erase i, ‖A i j‖ < ‖A i i‖) :
    ∀ i, ∑ j ∈ Finset.univ.erase i, ‖(c • A) i j‖ < ‖(c • A) i i‖ := by
  intro i
  rw [offdiag_sum_smul, Matrix.smul_apply, smul_eq_mul, norm_mul]
  exact mul_lt_mul_of_pos_left (hA i) (norm_pos_iff.mpr hc)

/-- any multiple of a diagonally dominant matrix is diagonally dominant -/
theorem dd_smul (A : Matrix n n 𝕜) (c : 𝕜) (hA : ∀ i, ∑ j ∈ Finset.univ.erase i, ‖A i j‖ ≤ ‖A i i‖) :
    ∀ i, ∑ j ∈ Finset.univ.erase i, ‖(c • A) i j‖ ≤ ‖(c • A) i i‖ := by
  intro i
  rw [offdiag_sum_smul, Matrix.smul_apply, smul_eq_mul, norm_mul]
  exact mul_le_mul_of_nonneg_left (hA i) (norm_nonneg c)

/-- phase conjugation keeps a matrix strictly diagonally dominant -/
theorem sdd_phase (A : Matrix n n 𝕜) (d : n → 𝕜) (hd : ∀ i, ‖d i‖ = 1)
    (hA : ∀ i, ∑ j ∈ Finset.univ.erase i, ‖A i j‖ < ‖A i i‖) :
    ∀ i, ∑ j ∈ Finset.univ.erase i, ‖(diagonal d * A * (diagonal d)ᴴ) i j‖ < ‖(diagonal d * A * (diagonal d)ᴴ) i i‖ := by
  intro i; simp only [norm_phase_conj_apply A d hd]; exact hA i

/-- phase conjugation keeps a matrix diagonally dominant -/
theorem dd_phase (A : Matrix n n 𝕜) (d : n → 𝕜) (hd : ∀ i, ‖d i‖ = 1)
    (hA : ∀ i, ∑ j ∈ Finset.univ.erase i, ‖A i j‖ ≤ ‖A i i‖) :
    ∀ i, ∑ j ∈ Finset.univ.erase i, ‖(diagonal d * A * (diagonal d)ᴴ) i j‖ ≤ ‖(diagonal d * A * (diagonal d)ᴴ) i i‖ := by
  intro i; simp only [norm_phase_conj_apply A d hd]; exact hA i

/-- a unit-modulus number has `star d * d = 1` (links the two ways of saying "phase") -/
theorem star_mul_self_of_norm_one (d : 𝕜) (hd : ‖d‖ = 1) : star d * d = 1 := by
  rw [RCLike.star_def, RCLike.conj_mul, hd]; simp

end diagDom

/-! ## stochastic, entrywise nonnegative and entrywise positive matrices over an ordered ring -/

section ordered
variable {K : Type} [CommRing K] [LinearOrder K] [IsStrictOrderedRing K]

/-- simultaneous reindexing keeps a matrix row-stochastic -/
theorem rowStoch_submatrix (A : Matrix n n K) (σ : n ≃ n) (hA : (∀ i j, 0 ≤ A i j) ∧ ∀ i, ∑ j, A i j = 1) :
    (∀ i j, 0 ≤ (A.submatrix σ σ) i j) ∧ ∀ i, ∑ j, (A.submatrix σ σ) i j = 1 := by
  refine ⟨fun i j => hA.1 _ _, fun i => ?_⟩
  simp only [submatrix_apply]
  rw [Equiv.sum_comp σ (fun j => A (σ i) j)]; exact hA.2 _

/-- simultaneous reindexing keeps a matrix column-stochastic -/
theorem colStoch_submatrix (A : Matrix n n K) (σ : n ≃ n) (hA : (∀ i j, 0 ≤ A i j) ∧ ∀ j, ∑ i, A i j = 1) :
    (∀ i j, 0 ≤ (A.submatrix σ σ) i j) ∧ ∀ j, ∑ i, (A.submatrix σ σ) i j = 1 := by
  refine ⟨fun i j => hA.1 _ _, fun j => ?_⟩
  simp only [submatrix_apply]
  rw [Equiv.sum_comp σ (fun i => A i (σ j))]; exact hA.2 _

/-- transposition turns a row-stochastic matrix into a column-stochastic one -/
theorem rowStoch_transpose (A : Matrix n n K) (hA : (∀ i j, 0 ≤ A i j) ∧ ∀ i, ∑ j, A i j = 1) :
    (∀ i j, 0 ≤ Aᵀ i j) ∧ ∀ j, ∑ i, Aᵀ i j = 1 := ⟨fun i j => hA.1 j i, fun j => hA.2 j⟩

/-- transposition turns a column-stochastic matrix into a row-stochastic one -/
theorem colStoch_transpose (A : Matrix n n K) (hA : (∀ i j, 0 ≤ A i j) ∧ ∀ j, ∑ i, A i j = 1) :
    (∀ i j, 0 ≤ Aᵀ i j) ∧ ∀ i, ∑ j, Aᵀ i j = 1 := ⟨fun i j => hA.1 j i, fun i => hA.2 i⟩

/-- transposition keeps a matrix doubly stochastic -/
theorem doublyStoch_transpose (A : Matrix n n K)
    (hA : (∀ i j, 0 ≤ A i j) ∧ (∀ i, ∑ j, A i j = 1) ∧ ∀ j, ∑ i, A i j = 1) :
    (∀ i j, 0 ≤ Aᵀ i j) ∧ (∀ i, ∑ j, Aᵀ i j = 1) ∧ ∀ j, ∑ i, Aᵀ i j = 1 :=
  ⟨fun i j => hA.1 j i, fun i => hA.2.2 i, fun j => hA.2.1 j⟩

/-- reindexing rows and columns (even independently) keeps a matrix doubly stochastic -/
theorem doublyStoch_submatrix (A : Matrix n n K) (σ τ : n ≃ n)
    (hA : (∀ i j, 0 ≤ A i j) ∧ (∀ i, ∑ j, A i j = 1) ∧ ∀ j, ∑ i, A i j = 1) :
    (∀ i j, 0 ≤ (A.submatrix σ τ) i j) ∧ (∀ i, ∑ j, (A.submatrix σ τ) i j = 1) ∧
      ∀ j, ∑ i, (A.submatrix σ τ) i j = 1 := by
  refine ⟨fun i j => hA.1 _ _, fun i => ?_, fun j => ?_⟩
  · simp only [submatrix_apply]
    rw [Equiv.sum_comp τ (fun j => A (σ i) j)]; exact hA.2.1 _
  · simp only [submatrix_apply]
    rw [Equiv.sum_comp σ (fun i => A i (τ j))]; exact hA.2.2 _

/-- product of row-stochastic matrices is row-stochastic -/
theorem rowStoch_mul (A B : Matrix n n K) (hA : (∀ i j, 0 ≤ A i j) ∧ ∀ i, ∑ j, A i j = 1)
    (hB : (∀ i j, 0 ≤ B i j) ∧ ∀ i, ∑ j, B i j = 1) :
    (∀ i j, 0 ≤ (A * B) i j) ∧ ∀ i, ∑ j, (A * B) i j = 1 := by
  refine ⟨fun i j => ?_, fun i => ?_⟩
  · rw [Matrix.mul_apply]
    exact Finset.sum_nonneg (fun k _ => mul_nonneg (hA.1 i k) (hB.1 k j))
  · simp only [Matrix.mul_apply]
    rw [Finset.sum_comm]
    simp only [← Finset.mul_sum, hB.2, mul_one, hA.2]

/-- product of column-stochastic matrices is column-stochastic -/
theorem colStoch_mul (A B : Matrix n n K) (hA : (∀ i j, 0 ≤ A i j) ∧ ∀ j, ∑ i, A i j = 1)
    (hB : (∀ i j, 0 ≤ B i j) ∧ ∀ j, ∑ i, B i j = 1) :
    (∀ i j, 0 ≤ (A * B) i j) ∧ ∀ j, ∑ i, (A * B) i j = 1 := by
  refine ⟨fun i j => ?_, fun j => ?_⟩
  · rw [Matrix.mul_apply]
    exact Finset.sum_nonneg (fun k _ => mul_nonneg (hA.1 i k) (hB.1 k j))
  · simp only [Matrix.mul_apply]
    rw [Finset.sum_comm]
    simp only [← Finset.sum_mul, hA.2, one_mul, hB.2]

variable {m : Type} [Fintype m] [DecidableEq m]

/-- reindexing rows and columns keeps a matrix entrywise nonnegative -/
theorem nonneg_submatrix {l o : Type} (A : Matrix m n K) (σ : l → m) (τ : o → n) (hA : ∀ i j, 0 ≤ A i j) :
    ∀ i j, 0 ≤ (A.submatrix σ τ) i j := fun i j => hA _ _

/-- transpose of an entrywise nonnegative matrix is entrywise nonnegative -/
theorem nonneg_transpose (A : Matrix m n K) (hA : ∀ i j, 0 ≤ A i j) : ∀ i j, 0 ≤ Aᵀ i j := fun i j => hA j i

/-- a nonnegative multiple of an entrywise nonnegative matrix is entrywise nonnegative -/
theorem nonneg_smul (A : Matrix m n K) (c : K) (hc : 0 ≤ c) (hA : ∀ i j, 0 ≤ A i j) : ∀ i j, 0 ≤ (c • A) i j :=
  fun i j => by rw [Matrix.smul_apply, smul_eq_mul]; exact mul_nonneg hc (hA i j)

/-- reindexing rows and columns keeps a matrix entrywise positive -/
theorem pos_submatrix {l o : Type} (A : Matrix m n K) (σ : l → m) (τ : o → n) (hA : ∀ i j, 0 < A i j) :
    ∀ i j, 0 < (A.submatrix σ τ) i j := fun i j => hA _ _

/-- transpose of an entrywise positive matrix is entrywise positive -/
theorem pos_transpose (A : Matrix m n K) (hA : ∀ i j, 0 < A i j) : ∀ i j, 0 < Aᵀ i j := fun i j => hA j i

/-- a positive multiple of an entrywise positive matrix is entrywise positive -/
theorem pos_smul (A : Matrix m n K) (c : K) (hc : 0 < c) (hA : ∀ i j, 0 < A i j) : ∀ i j, 0 < (c • A) i j :=
  fun i j => by rw [Matrix.smul_apply, smul_eq_mul]; exact mul_pos hc (hA i j)

/-! ## totally positive matrices (all minors with increasing row and column selections positive) -/

/-- transpose of a totally positive matrix is totally positive -/
theorem totPos_transpose {p q : ℕ} (A : Matrix (Fin p) (Fin q) K)
    (hA : ∀ (k : ℕ) (r : Fin k ↪o Fin p) (c : Fin k ↪o Fin q), 0 < (A.submatrix r c).det) :
    ∀ (k : ℕ) (r : Fin k ↪o Fin q) (c : Fin k ↪o Fin p), 0 < (Aᵀ.submatrix r c).det := by
  intro k r c
  have : Aᵀ.submatrix r c = (A.submatrix c r)ᵀ := rfl
  rw [this, det_transpose]; exact hA k c r

/-- a positive multiple of a totally positive matrix is totally positive -/
theorem totPos_smul {p q : ℕ} (A : Matrix (Fin p) (Fin q) K) (a : K) (ha : 0 < a)
    (hA : ∀ (k : ℕ) (r : Fin k ↪o Fin p) (c : Fin k ↪o Fin q), 0 < (A.submatrix r c).det) :
    ∀ (k : ℕ) (r : Fin k ↪o Fin p) (c : Fin k ↪o Fin q), 0 < ((a • A).submatrix r c).det := by
  intro k r c
  have e : (a • A).submatrix r c = a • A.submatrix r c := rfl
  rw [e, det_smul]
  exact mul_pos (pow_pos ha _) (hA k r c)

/-- positive diagonal scaling of rows and columns keeps a matrix totally positive -/
theorem totPos_diag_scaling {p q : ℕ} (A : Matrix (Fin p) (Fin q) K) (d₁ : Fin p → K) (d₂ : Fin q → K)
    (h₁ : ∀ i, 0 < d₁ i) (h₂ : ∀ j, 0 < d₂ j)
    (hA : ∀ (k : ℕ) (r : Fin k ↪o Fin p) (c : Fin k ↪o Fin q), 0 < (A.submatrix r c).det) :
    ∀ (k : ℕ) (r : Fin k ↪o Fin p) (c : Fin k ↪o Fin q),
      0 < ((diagonal d₁ * A * diagonal d₂).submatrix r c).det := by
  intro k r c
  have e : (diagonal d₁ * A * diagonal d₂).submatrix r c
      = diagonal (fun i => d₁ (r i)) * A.submatrix r c * diagonal (fun j => d₂ (c j)) := by
    ext i j
    simp only [submatrix_apply, mul_diagonal, diagonal_mul]
  rw [e, det_mul, det_mul, det_diagonal, det_diagonal]
  exact mul_pos (mul_pos (Finset.prod_pos (fun i _ => h₁ _)) (hA k r c)) (Finset.prod_pos (fun j _ => h₂ _))

/-- an increasing selection conjugated by the two order reversals is an increasing selection -/
def revEmb {k p : ℕ} (r : Fin k ↪o Fin p) : Fin k ↪o Fin p :=
  OrderEmbedding.ofStrictMono (fun i => Fin.rev (r (Fin.rev i))) (by
    intro i j hij
    exact Fin.rev_lt_rev.mpr (r.strictMono (Fin.rev_lt_rev.mpr hij)))

/-- value of the conjugated selection -/
theorem revEmb_apply {k p : ℕ} (r : Fin k ↪o Fin p) (i : Fin k) : revEmb r i = Fin.rev (r (Fin.rev i)) := rfl

/-- reversing the order of both the rows and the columns keeps a matrix totally positive -/
theorem totPos_reverse_both {p q : ℕ} (A : Matrix (Fin p) (Fin q) K)
    (hA : ∀ (k : ℕ) (r : Fin k ↪o Fin p) (c : Fin k ↪o Fin q), 0 < (A.submatrix r c).det) :
    ∀ (k : ℕ) (r : Fin k ↪o Fin p) (c : Fin k ↪o Fin q),
      0 < ((A.submatrix Fin.rev Fin.rev).submatrix r c).det := by
  intro k r c
  have e : (A.submatrix Fin.rev Fin.rev).submatrix r c
      = (A.submatrix (revEmb r) (revEmb c)).submatrix (Fin.revPerm : Fin k ≃ Fin k) Fin.revPerm := by
    ext i j
    simp [revEmb_apply]
  rw [e, det_submatrix_equiv_self]
  exact hA k _ _

end ordered

/-! ## sets of vectors: linear independence, mutual orthogonality, orthonormality, mutual unbiasedness -/

section sets
variable {ι : Type} {R : Type} [CommRing R] [StarRing R]

/-- a common isometry preserves every inner product -/
theorem inner_mulVec (U : Matrix n n R) (hU : Uᴴ * U = 1) (x y : n → R) :
    star (U.mulVec x) ⬝ᵥ U.mulVec y = star x ⬝ᵥ y := by
  rw [star_mulVec, dotProduct_mulVec, vecMul_vecMul, hU, vecMul_one]

/-- an isometry acts injectively on vectors -/
theorem mulVec_injective_of_isometry (U : Matrix n n R) (hU : Uᴴ * U = 1) : Function.Injective U.mulVec := by
  intro x y h
  have := congrArg (fun v => Uᴴ.mulVec v) h
  simpa [mulVec_mulVec, hU] using this

/-- applying a common isometry to every vector does not change linear independence -/
theorem linIndep_common_unitary_iff (U : Matrix n n R) (hU : Uᴴ * U = 1) (v : ι → (n → R)) :
    LinearIndependent R (fun k => U.mulVec (v k)) ↔ LinearIndependent R v := by
  have hk : LinearMap.ker U.mulVecLin = ⊥ :=
    LinearMap.ker_eq_bot.mpr (by
      have := mulVec_injective_of_isometry U hU
      simpa [Matrix.coe_mulVecLin] using this)
  exact LinearMap.linearIndependent_iff (v := v) U.mulVecLin hk

/-- a linearly independent family stays so after a common isometry -/
theorem linIndep_common_unitary (U : Matrix n n R) (hU : Uᴴ * U = 1) (v : ι → (n → R))
    (hv : LinearIndependent R v) : LinearIndependent R (fun k => U.mulVec (v k)) :=
  (linIndep_common_unitary_iff U hU v).mpr hv

/-- reordering the vectors does not change linear independence -/
theorem linIndep_reorder_iff (σ : ι ≃ ι) (v : ι → (n → R)) :
    LinearIndependent R (v ∘ σ) ↔ LinearIndependent R v := linearIndependent_equiv σ

/-- multiplying the vectors by invertible scalars does not change linear independence -/
theorem linIndep_units_smul_iff (c : ι → Rˣ) (v : ι → (n → R)) :
    LinearIndependent R (fun k => (c k : R) • v k) ↔ LinearIndependent R v :=
  LinearIndependent.units_smul_iff v c

/-- over a field: multiplying the vectors by non-zero scalars does not change linear independence -/
theorem linIndep_smul_iff {F : Type} [Field F] (c : ι → F) (hc : ∀ k, c k ≠ 0) (v : ι → (n → F)) :
    LinearIndependent F (fun k => c k • v k) ↔ LinearIndependent F v :=
  LinearIndependent.units_smul_iff v (fun k => Units.mk0 (c k) (hc k))

/-- a common isometry keeps a family mutually orthogonal (and conversely) -/
theorem orth_common_unitary_iff (U : Matrix n n R) (hU : Uᴴ * U = 1) (v : ι → (n → R)) :
    (∀ i j, i ≠ j → star (U.mulVec (v i)) ⬝ᵥ U.mulVec (v j) = 0) ↔ (∀ i j, i ≠ j → star (v i) ⬝ᵥ v j = 0) := by
  simp only [inner_mulVec U hU]

/-- reordering keeps a family mutually orthogonal -/
theorem orth_reorder (σ : ι ≃ ι) (v : ι → (n → R)) (hv : ∀ i j, i ≠ j → star (v i) ⬝ᵥ v j = 0) :
    ∀ i j, i ≠ j → star ((v ∘ σ) i) ⬝ᵥ (v ∘ σ) j = 0 :=
  fun i j h => hv _ _ (fun e => h (σ.injective e))

/-- rescaling the vectors keeps a family mutually orthogonal -/
theorem orth_smul (c : ι → R) (v : ι → (n → R)) (hv : ∀ i j, i ≠ j → star (v i) ⬝ᵥ v j = 0) :
    ∀ i j, i ≠ j → star (c i • v i) ⬝ᵥ (c j • v j) = 0 := by
  intro i j h
  rw [star_smul, smul_dotProduct, dotProduct_smul, hv i j h]; simp

/-- a common isometry keeps a family orthonormal (and conversely) -/
theorem orthonormal_common_unitary_iff [DecidableEq ι] (U : Matrix n n R) (hU : Uᴴ * U = 1) (v : ι → (n → R)) :
    (∀ i j, star (U.mulVec (v i)) ⬝ᵥ U.mulVec (v j) = if i = j then 1 else 0) ↔
      (∀ i j, star (v i) ⬝ᵥ v j = if i = j then 1 else 0) := by
  simp only [inner_mulVec U hU]

/-- reordering keeps a family orthonormal -/
theorem orthonormal_reorder [DecidableEq ι] (σ : ι ≃ ι) (v : ι → (n → R))
    (hv : ∀ i j, star (v i) ⬝ᵥ v j = if i = j then 1 else 0) :
    ∀ i j, star ((v ∘ σ) i) ⬝ᵥ (v ∘ σ) j = if i = j then 1 else 0 := by
  intro i j
  simp only [Function.comp_apply, hv, σ.injective.eq_iff]

/-- unit-modulus phases on the vectors keep a family orthonormal -/
theorem orthonormal_phases [DecidableEq ι] (c : ι → R) (hc : ∀ k, star (c k) * c k = 1) (v : ι → (n → R))
    (hv : ∀ i j, star (v i) ⬝ᵥ v j = if i = j then 1 else 0) :
    ∀ i j, star (c i • v i) ⬝ᵥ (c j • v j) = if i = j then 1 else 0 := by
  intro i j
  rw [star_smul, smul_dotProduct, dotProduct_smul, hv i j]
  by_cases h : i = j
  · subst h; simp [hc]
  · simp [h]

/-- the overlaps between two families are unchanged by a common isometry -/
theorem mub_overlap_common_unitary {κ : Type} (U : Matrix n n R) (hU : Uᴴ * U = 1) (v : ι → (n → R))
    (w : κ → (n → R)) (i : ι) (j : κ) :
    star (U.mulVec (v i)) ⬝ᵥ U.mulVec (w j) = star (v i) ⬝ᵥ w j := inner_mulVec U hU _ _

/-- the squared moduli of the overlaps are unchanged by a common isometry -/
theorem mub_overlap_sq_common_unitary {κ : Type} (U : Matrix n n R) (hU : Uᴴ * U = 1) (v : ι → (n → R))
    (w : κ → (n → R)) (i : ι) (j : κ) :
    star (star (U.mulVec (v i)) ⬝ᵥ U.mulVec (w j)) * (star (U.mulVec (v i)) ⬝ᵥ U.mulVec (w j))
      = star (star (v i) ⬝ᵥ w j) * (star (v i) ⬝ᵥ w j) := by rw [inner_mulVec U hU]

end sets

section setsNorm
variable {ι κ : Type} {𝕜 : Type} [RCLike 𝕜]

/-- the moduli of the overlaps between two families are unchanged by a common isometry -/
theorem mub_norm_common_unitary (U : Matrix n n 𝕜) (hU : Uᴴ * U = 1) (v : ι → (n → 𝕜)) (w : κ → (n → 𝕜))
    (i : ι) (j : κ) : ‖star (U.mulVec (v i)) ⬝ᵥ U.mulVec (w j)‖ = ‖star (v i) ⬝ᵥ w j‖ := by
  rw [inner_mulVec U hU]

/-- the moduli of the overlaps are unchanged by unit-modulus phases on the vectors -/
theorem mub_norm_phases (c : ι → 𝕜) (e : κ → 𝕜) (hc : ∀ k, ‖c k‖ = 1) (he : ∀ k, ‖e k‖ = 1)
    (v : ι → (n → 𝕜)) (w : κ → (n → 𝕜)) (i : ι) (j : κ) :
    ‖star (c i • v i) ⬝ᵥ (e j • w j)‖ = ‖star (v i) ⬝ᵥ w j‖ := by
  rw [star_smul, smul_dotProduct, dotProduct_smul, smul_eq_mul, smul_eq_mul, norm_mul, norm_mul, norm_star,
    hc, he, one_mul, one_mul]

/-- the moduli of the overlaps are unchanged by reordering within the two families -/
theorem mub_norm_reorder (σ : ι ≃ ι) (τ : κ ≃ κ) (v : ι → (n → 𝕜)) (w : κ → (n → 𝕜)) (a : ℝ)
    (h : ∀ i j, ‖star (v i) ⬝ᵥ w j‖ = a) : ∀ i j, ‖star ((v ∘ σ) i) ⬝ᵥ (w ∘ τ) j‖ = a :=
  fun i j => h _ _

/-- over `ℝ`/`ℂ`: non-zero rescalings of the vectors do not change linear independence -/
theorem linIndep_phases_iff (c : ι → 𝕜) (hc : ∀ k, ‖c k‖ = 1) (v : ι → (n → 𝕜)) :
    LinearIndependent 𝕜 (fun k => c k • v k) ↔ LinearIndependent 𝕜 v :=
  linIndep_smul_iff c (fun k h => by have := hc k; rw [h, norm_zero] at this; exact zero_ne_one this) v

end setsNorm

/-! ## both directions: the transformations are invertible, so a "no" verdict is preserved as well -/

section iff
variable {R : Type} [CommRing R] [StarRing R]

/-- entrywise conjugation is an involution -/
theorem map_star_map_star (A : Matrix n n R) : (A.map star).map star = A := by
  ext i j; simp

/-- reindexing by `σ` is undone by reindexing by `σ⁻¹` -/
theorem submatrix_symm_cancel {α : Type} (A : Matrix n n α) (σ : n ≃ n) : (A.submatrix σ σ).submatrix σ.symm σ.symm = A := by
  ext i j; simp

/-- the adjoint of an isometry of a finite square size is an isometry -/
theorem unitary_conjTranspose_left (U : Matrix n n R) (hU : Uᴴ * U = 1) : (Uᴴ)ᴴ * Uᴴ = 1 := by
  rw [conjTranspose_conjTranspose]; exact unitary_right_of_left U hU

/-- unitary conjugation is undone by conjugation with the adjoint -/
theorem conj_cancel (A U : Matrix n n R) (hU : Uᴴ * U = 1) : Uᴴ * (U * A * Uᴴ) * (Uᴴ)ᴴ = A := by
  rw [conjTranspose_conjTranspose]
  calc Uᴴ * (U * A * Uᴴ) * U = (Uᴴ * U) * A * (Uᴴ * U) := by simp only [Matrix.mul_assoc]
    _ = A := by rw [hU, Matrix.one_mul, Matrix.mul_one]

/-- similarity is undone by the inverse similarity -/
theorem similarity_cancel (A S Sinv : Matrix n n R) (h : Sinv * S = 1) : Sinv * (S * A * Sinv) * S = A := by
  calc Sinv * (S * A * Sinv) * S = (Sinv * S) * A * (Sinv * S) := by simp only [Matrix.mul_assoc]
    _ = A := by rw [h, Matrix.one_mul, Matrix.mul_one]

/-- Hermitian iff the transpose is -/
theorem herm_transpose_iff (A : Matrix n n R) : Aᵀ.IsHermitian ↔ A.IsHermitian :=
  ⟨fun h => by simpa using herm_transpose _ h, herm_transpose A⟩

/-- Hermitian iff the entrywise conjugate is -/
theorem herm_map_star_iff (A : Matrix n n R) : (A.map star).IsHermitian ↔ A.IsHermitian :=
  ⟨fun h => by simpa only [map_star_map_star] using herm_map_star _ h, herm_map_star A⟩

/-- Hermitian iff the negative is -/
theorem herm_neg_iff (A : Matrix n n R) : (-A).IsHermitian ↔ A.IsHermitian :=
  ⟨fun h => by simpa using herm_neg _ h, herm_neg A⟩

/-- Hermitian iff a unitary conjugate is -/
theorem herm_conj_iff (A U : Matrix n n R) (hU : Uᴴ * U = 1) : (U * A * Uᴴ).IsHermitian ↔ A.IsHermitian :=
  ⟨fun h => by simpa only [conj_cancel A U hU] using herm_conj _ Uᴴ h, herm_conj A U⟩

/-- anti-Hermitian iff the transpose is -/
theorem antiherm_transpose_iff (A : Matrix n n R) : (Aᵀ)ᴴ = -Aᵀ ↔ Aᴴ = -A :=
  ⟨fun h => by simpa using antiherm_transpose _ h, antiherm_transpose A⟩

/-- anti-Hermitian iff the entrywise conjugate is -/
theorem antiherm_map_star_iff (A : Matrix n n R) : (A.map star)ᴴ = -(A.map star) ↔ Aᴴ = -A :=
  ⟨fun h => by simpa only [map_star_map_star] using antiherm_map_star _ h, antiherm_map_star A⟩

/-- anti-Hermitian iff the negative is -/
theorem antiherm_neg_iff (A : Matrix n n R) : (-A)ᴴ = -(-A) ↔ Aᴴ = -A :=
  ⟨fun h => by simpa using antiherm_neg _ h, antiherm_neg A⟩

/-- anti-Hermitian iff the reindexed matrix is -/
theorem antiherm_submatrix_iff (A : Matrix n n R) (σ : n ≃ n) :
    (A.submatrix σ σ)ᴴ = -(A.submatrix σ σ) ↔ Aᴴ = -A :=
  ⟨fun h => by simpa only [submatrix_symm_cancel] using antiherm_submatrix _ σ.symm h, antiherm_submatrix A σ⟩

/-- anti-Hermitian iff a unitary conjugate is -/
theorem antiherm_conj_iff (A U : Matrix n n R) (hU : Uᴴ * U = 1) : (U * A * Uᴴ)ᴴ = -(U * A * Uᴴ) ↔ Aᴴ = -A :=
  ⟨fun h => by simpa only [conj_cancel A U hU] using antiherm_conj _ Uᴴ h, antiherm_conj A U⟩

/-- symmetric iff the entrywise conjugate is -/
theorem symm_map_star_iff (A : Matrix n n R) : (A.map star)ᵀ = A.map star ↔ Aᵀ = A :=
  ⟨fun h => by simpa only [map_star_map_star] using symm_map_star _ h, symm_map_star A⟩

/-- symmetric iff the negative is -/
theorem symm_neg_iff (A : Matrix n n R) : (-A)ᵀ = -A ↔ Aᵀ = A :=
  ⟨fun h => by simpa using symm_neg _ h, symm_neg A⟩

/-- symmetric iff the reindexed matrix is -/
theorem symm_submatrix_iff (A : Matrix n n R) (σ : n ≃ n) : (A.submatrix σ σ)ᵀ = A.submatrix σ σ ↔ Aᵀ = A :=
  ⟨fun h => by simpa only [submatrix_symm_cancel] using symm_submatrix _ σ.symm h, symm_submatrix A σ⟩

/-- normal iff the transpose is -/
theorem normal_transpose_iff (A : Matrix n n R) : Aᵀ * (Aᵀ)ᴴ = (Aᵀ)ᴴ * Aᵀ ↔ A * Aᴴ = Aᴴ * A :=
  ⟨fun h => by simpa using normal_transpose _ h, normal_transpose A⟩

/-- normal iff the entrywise conjugate is -/
theorem normal_map_star_iff (A : Matrix n n R) :
    A.map star * (A.map star)ᴴ = (A.map star)ᴴ * A.map star ↔ A * Aᴴ = Aᴴ * A :=
  ⟨fun h => by simpa only [map_star_map_star] using normal_map_star _ h, normal_map_star A⟩

/-- normal iff the negative is -/
theorem normal_neg_iff (A : Matrix n n R) : (-A) * (-A)ᴴ = (-A)ᴴ * (-A) ↔ A * Aᴴ = Aᴴ * A :=
  ⟨fun h => by simpa using normal_neg _ h, normal_neg A⟩

/-- normal iff the reindexed matrix is -/
theorem normal_submatrix_iff (A : Matrix n n R) (σ : n ≃ n) :
    A.submatrix σ σ * (A.submatrix σ σ)ᴴ = (A.submatrix σ σ)ᴴ * A.submatrix σ σ ↔ A * Aᴴ = Aᴴ * A :=
  ⟨fun h => by simpa only [submatrix_symm_cancel] using normal_submatrix _ σ.symm h, normal_submatrix A σ⟩

/-- normal iff a unitary conjugate is -/
theorem normal_conj_iff (A U : Matrix n n R) (hU : Uᴴ * U = 1) :
    (U * A * Uᴴ) * (U * A * Uᴴ)ᴴ = (U * A * Uᴴ)ᴴ * (U * A * Uᴴ) ↔ A * Aᴴ = Aᴴ * A :=
  ⟨fun h => by simpa only [conj_cancel A U hU] using normal_conj _ Uᴴ (unitary_conjTranspose_left U hU) h,
    normal_conj A U hU⟩

/-- normal iff the matrix shifted by a multiple of the identity is -/
theorem normal_add_smul_one_iff (A : Matrix n n R) (c : R) :
    (A + c • 1) * (A + c • 1)ᴴ = (A + c • 1)ᴴ * (A + c • 1) ↔ A * Aᴴ = Aᴴ * A :=
  ⟨fun h => by
    have := normal_add_smul_one _ (-c) h
    simpa [add_assoc] using this, normal_add_smul_one A c⟩

/-- unitary iff the transpose is -/
theorem unitary_transpose_iff (U : Matrix n n R) :
    ((Uᵀ)ᴴ * Uᵀ = 1 ∧ Uᵀ * (Uᵀ)ᴴ = 1) ↔ (Uᴴ * U = 1 ∧ U * Uᴴ = 1) :=
  ⟨fun h => by simpa using unitary_transpose _ h, unitary_transpose U⟩

/-- unitary iff the entrywise conjugate is -/
theorem unitary_map_star_iff (U : Matrix n n R) :
    ((U.map star)ᴴ * U.map star = 1 ∧ U.map star * (U.map star)ᴴ = 1) ↔ (Uᴴ * U = 1 ∧ U * Uᴴ = 1) :=
  ⟨fun h => by simpa only [map_star_map_star] using unitary_map_star _ h, unitary_map_star U⟩

/-- unitary iff the negative is -/
theorem unitary_neg_iff (U : Matrix n n R) :
    ((-U)ᴴ * (-U) = 1 ∧ (-U) * (-U)ᴴ = 1) ↔ (Uᴴ * U = 1 ∧ U * Uᴴ = 1) :=
  ⟨fun h => by simpa using unitary_neg _ h, unitary_neg U⟩

/-- unitary iff the reindexed matrix is -/
theorem unitary_submatrix_iff (U : Matrix n n R) (σ : n ≃ n) :
    ((U.submatrix σ σ)ᴴ * U.submatrix σ σ = 1 ∧ U.submatrix σ σ * (U.submatrix σ σ)ᴴ = 1) ↔
      (Uᴴ * U = 1 ∧ U * Uᴴ = 1) :=
  ⟨fun h => by simpa only [submatrix_symm_cancel] using unitary_submatrix _ σ.symm h, unitary_submatrix U σ⟩

/-- unitary iff a unitary conjugate is -/
theorem unitary_conj_iff (U V : Matrix n n R) (hV : Vᴴ * V = 1 ∧ V * Vᴴ = 1) :
    ((V * U * Vᴴ)ᴴ * (V * U * Vᴴ) = 1 ∧ (V * U * Vᴴ) * (V * U * Vᴴ)ᴴ = 1) ↔ (Uᴴ * U = 1 ∧ U * Uᴴ = 1) :=
  ⟨fun h => by simpa only [conj_cancel U V hV.1] using unitary_conj _ Vᴴ h (unitary_conjTranspose V hV),
    fun h => unitary_conj U V h hV⟩

/-- unitary iff the product with a unitary on the left is -/
theorem unitary_mul_left_iff (U V : Matrix n n R) (hV : Vᴴ * V = 1 ∧ V * Vᴴ = 1) :
    ((V * U)ᴴ * (V * U) = 1 ∧ (V * U) * (V * U)ᴴ = 1) ↔ (Uᴴ * U = 1 ∧ U * Uᴴ = 1) :=
  ⟨fun h => by
    have := unitary_mul_both Vᴴ (V * U) (unitary_conjTranspose V hV) h
    have e : Vᴴ * (V * U) = U := by rw [← Matrix.mul_assoc, hV.1, Matrix.one_mul]
    rwa [e] at this,
    fun h => unitary_mul_both V U hV h⟩

/-- idempotent iff the transpose is -/
theorem idem_transpose_iff (A : Matrix n n R) : Aᵀ * Aᵀ = Aᵀ ↔ A * A = A :=
  ⟨fun h => by simpa using idem_transpose _ h, idem_transpose A⟩

/-- idempotent iff the entrywise conjugate is -/
theorem idem_map_star_iff (A : Matrix n n R) : A.map star * A.map star = A.map star ↔ A * A = A :=
  ⟨fun h => by simpa only [map_star_map_star] using idem_map_star _ h, idem_map_star A⟩

/-- idempotent iff the reindexed matrix is -/
theorem idem_submatrix_iff (A : Matrix n n R) (σ : n ≃ n) :
    A.submatrix σ σ * A.submatrix σ σ = A.submatrix σ σ ↔ A * A = A :=
  ⟨fun h => by simpa only [submatrix_symm_cancel] using idem_submatrix _ σ.symm h, idem_submatrix A σ⟩

/-- idempotent iff a unitary conjugate is -/
theorem idem_conj_iff (A U : Matrix n n R) (hU : Uᴴ * U = 1) :
    (U * A * Uᴴ) * (U * A * Uᴴ) = U * A * Uᴴ ↔ A * A = A :=
  ⟨fun h => by simpa only [conj_cancel A U hU] using idem_conj _ Uᴴ (unitary_conjTranspose_left U hU) h,
    idem_conj A U hU⟩

/-- idempotent iff a similar matrix is -/
theorem idem_similarity_iff (A S Sinv : Matrix n n R) (h1 : Sinv * S = 1) (h2 : S * Sinv = 1) :
    (S * A * Sinv) * (S * A * Sinv) = S * A * Sinv ↔ A * A = A :=
  ⟨fun h => by simpa only [similarity_cancel A S Sinv h1] using idem_similarity _ Sinv S h2 h,
    idem_similarity A S Sinv h1⟩

/-- diagonal iff the reindexed matrix is -/
theorem diag_submatrix_iff (A : Matrix n n R) (σ : n ≃ n) :
    (∀ i j, i ≠ j → (A.submatrix σ σ) i j = 0) ↔ (∀ i j, i ≠ j → A i j = 0) :=
  ⟨fun h => by simpa only [submatrix_symm_cancel] using diag_submatrix _ σ.symm h, diag_submatrix A σ⟩

/-- diagonal iff the transpose is -/
theorem diag_transpose_iff (A : Matrix n n R) : (∀ i j, i ≠ j → Aᵀ i j = 0) ↔ (∀ i j, i ≠ j → A i j = 0) :=
  ⟨fun h => diag_transpose _ h, diag_transpose A⟩

/-- diagonal iff the entrywise conjugate is -/
theorem diag_map_star_iff (A : Matrix n n R) :
    (∀ i j, i ≠ j → (A.map star) i j = 0) ↔ (∀ i j, i ≠ j → A i j = 0) :=
  ⟨fun h => by simpa only [map_star_map_star] using diag_map_star _ h, diag_map_star A⟩

/-- commuting iff the simultaneously conjugated pair is -/
theorem comm_conj_iff (A B U : Matrix n n R) (hU : Uᴴ * U = 1) :
    (U * A * Uᴴ) * (U * B * Uᴴ) = (U * B * Uᴴ) * (U * A * Uᴴ) ↔ A * B = B * A :=
  ⟨fun h => by
    simpa only [conj_cancel _ U hU] using comm_conj _ _ Uᴴ (unitary_conjTranspose_left U hU) h, comm_conj A B U hU⟩

/-- commuting iff the transposed pair is -/
theorem comm_transpose_iff (A B : Matrix n n R) : Aᵀ * Bᵀ = Bᵀ * Aᵀ ↔ A * B = B * A :=
  ⟨fun h => by simpa using comm_transpose _ _ h, comm_transpose A B⟩

/-- permutation-matrix predicate: reordering rows and columns, both directions -/
theorem permMat_submatrix_iff (A : Matrix n n R) (σ τ : n ≃ n) :
    ((∀ i j, (A.submatrix σ τ) i j = 0 ∨ (A.submatrix σ τ) i j = 1) ∧ (∀ i, ∑ j, (A.submatrix σ τ) i j = 1) ∧
      (∀ j, ∑ i, (A.submatrix σ τ) i j = 1)) ↔
    ((∀ i j, A i j = 0 ∨ A i j = 1) ∧ (∀ i, ∑ j, A i j = 1) ∧ (∀ j, ∑ i, A i j = 1)) := by
  refine ⟨fun h => ?_, permMat_submatrix A σ τ⟩
  have := permMat_submatrix _ σ.symm τ.symm h
  have e : (A.submatrix σ τ).submatrix σ.symm τ.symm = A := by ext i j; simp
  rwa [e] at this

end iff

section iffOrder
variable {S : Type} [CommRing S] [PartialOrder S] [StarRing S] [StarOrderedRing S]

/-- positive semidefinite iff the entrywise conjugate is -/
theorem psd_map_star_iff (A : Matrix n n S) : (A.map star).PosSemidef ↔ A.PosSemidef :=
  ⟨fun h => by simpa only [map_star_map_star] using psd_map_star _ h, psd_map_star A⟩

/-- positive definite iff the entrywise conjugate is -/
theorem pd_map_star_iff (A : Matrix n n S) : (A.map star).PosDef ↔ A.PosDef :=
  ⟨fun h => by simpa only [map_star_map_star] using pd_map_star _ h, pd_map_star A⟩

/-- positive definite iff the reindexed matrix is -/
theorem pd_submatrix_iff (A : Matrix n n S) (σ : n ≃ n) : (A.submatrix σ σ).PosDef ↔ A.PosDef :=
  ⟨fun h => by simpa only [submatrix_symm_cancel] using pd_submatrix _ σ.symm h, pd_submatrix A σ⟩

/-- positive definite iff a unitary conjugate is -/
theorem pd_conj_iff (A U : Matrix n n S) (hU : Uᴴ * U = 1) : (U * A * Uᴴ).PosDef ↔ A.PosDef :=
  ⟨fun h => by simpa only [conj_cancel A U hU] using pd_conj _ Uᴴ (unitary_conjTranspose_left U hU) h,
    pd_conj A U hU⟩

/-- density matrix iff a unitary conjugate is -/
theorem density_conj_iff (A U : Matrix n n S) (hU : Uᴴ * U = 1) :
    ((U * A * Uᴴ).PosSemidef ∧ (U * A * Uᴴ).trace = 1) ↔ (A.PosSemidef ∧ A.trace = 1) := by
  rw [psd_conj_iff A U hU, trace_conj A U hU]

/-- pure state iff a unitary conjugate is -/
theorem pure_conj_iff (A U : Matrix n n S) (hU : Uᴴ * U = 1) :
    ((U * A * Uᴴ).PosSemidef ∧ (U * A * Uᴴ).trace = 1 ∧ ((U * A * Uᴴ) * (U * A * Uᴴ)).trace = 1) ↔
      (A.PosSemidef ∧ A.trace = 1 ∧ (A * A).trace = 1) := by
  rw [psd_conj_iff A U hU, trace_conj A U hU, trace_sq_conj A U hU]

/-- density matrix iff the reindexed matrix is -/
theorem density_submatrix_iff (A : Matrix n n S) (σ : n ≃ n) :
    ((A.submatrix σ σ).PosSemidef ∧ (A.submatrix σ σ).trace = 1) ↔ (A.PosSemidef ∧ A.trace = 1) := by
  rw [psd_submatrix_iff, trace_submatrix]

/-- density matrix iff the transpose is -/
theorem density_transpose_iff (A : Matrix n n S) : (Aᵀ.PosSemidef ∧ Aᵀ.trace = 1) ↔ (A.PosSemidef ∧ A.trace = 1) := by
  rw [posSemidef_transpose_iff, trace_transpose]

end iffOrder

section iffNorm
variable {𝕜 : Type} [RCLike 𝕜]

/-- strictly diagonally dominant iff the reindexed matrix is -/
theorem sdd_submatrix_iff (A : Matrix n n 𝕜) (σ : n ≃ n) :
    (∀ i, ∑ j ∈ Finset.univ.erase i, ‖(A.submatrix σ σ) i j‖ < ‖(A.submatrix σ σ) i i‖) ↔
      (∀ i, ∑ j ∈ Finset.univ.erase i, ‖A i j‖ < ‖A i i‖) :=
  ⟨fun h => by simpa only [submatrix_symm_cancel] using sdd_submatrix _ σ.symm h, sdd_submatrix A σ⟩

/-- diagonally dominant iff the reindexed matrix is -/
theorem dd_submatrix_iff (A : Matrix n n 𝕜) (σ : n ≃ n) :
    (∀ i, ∑ j ∈ Finset.univ.erase i, ‖(A.submatrix σ σ) i j‖ ≤ ‖(A.submatrix σ σ) i i‖) ↔
      (∀ i, ∑ j ∈ Finset.univ.erase i, ‖A i j‖ ≤ ‖A i i‖) :=
  ⟨fun h => by simpa only [submatrix_symm_cancel] using dd_submatrix _ σ.symm h, dd_submatrix A σ⟩

/-- strictly diagonally dominant iff a phase conjugate is -/
theorem sdd_phase_iff (A : Matrix n n 𝕜) (d : n → 𝕜) (hd : ∀ i, ‖d i‖ = 1) :
    (∀ i, ∑ j ∈ Finset.univ.erase i, ‖(diagonal d * A * (diagonal d)ᴴ) i j‖ < ‖(diagonal d * A * (diagonal d)ᴴ) i i‖) ↔
      (∀ i, ∑ j ∈ Finset.univ.erase i, ‖A i j‖ < ‖A i i‖) := by
  simp only [norm_phase_conj_apply A d hd]

/-- diagonally dominant iff a phase conjugate is -/
theorem dd_phase_iff (A : Matrix n n 𝕜) (d : n → 𝕜) (hd : ∀ i, ‖d i‖ = 1) :
    (∀ i, ∑ j ∈ Finset.univ.erase i, ‖(diagonal d * A * (diagonal d)ᴴ) i j‖ ≤ ‖(diagonal d * A * (diagonal d)ᴴ) i i‖) ↔
      (∀ i, ∑ j ∈ Finset.univ.erase i, ‖A i j‖ ≤ ‖A i i‖) := by
  simp only [norm_phase_conj_apply A d hd]

/-- strictly diagonally dominant iff the entrywise conjugate / the negative is -/
theorem sdd_map_star_neg_iff (A : Matrix n n 𝕜) :
    ((∀ i, ∑ j ∈ Finset.univ.erase i, ‖(A.map star) i j‖ < ‖(A.map star) i i‖) ↔
      (∀ i, ∑ j ∈ Finset.univ.erase i, ‖A i j‖ < ‖A i i‖)) ∧
    ((∀ i, ∑ j ∈ Finset.univ.erase i, ‖(-A) i j‖ < ‖(-A) i i‖) ↔
      (∀ i, ∑ j ∈ Finset.univ.erase i, ‖A i j‖ < ‖A i i‖)) := by
  exact ⟨by simp, by simp [norm_neg]⟩

/-- diagonally dominant iff the entrywise conjugate / the negative is -/
theorem dd_map_star_neg_iff (A : Matrix n n 𝕜) :
    ((∀ i, ∑ j ∈ Finset.univ.erase i, ‖(A.map star) i j‖ ≤ ‖(A.map star) i i‖) ↔
      (∀ i, ∑ j ∈ Finset.univ.erase i, ‖A i j‖ ≤ ‖A i i‖)) ∧
    ((∀ i, ∑ j ∈ Finset.univ.erase i, ‖(-A) i j‖ ≤ ‖(-A) i i‖) ↔
      (∀ i, ∑ j ∈ Finset.univ.erase i, ‖A i j‖ ≤ ‖A i i‖)) := by
  exact ⟨by simp, by simp [norm_neg]⟩

/-- strictly diagonally dominant iff a non-zero multiple is -/
theorem sdd_smul_iff (A : Matrix n n 𝕜) (c : 𝕜) (hc : c ≠ 0) :
    (∀ i, ∑ j ∈ Finset.univ.erase i, ‖(c • A) i j‖ < ‖(c • A) i i‖) ↔
      (∀ i, ∑ j ∈ Finset.univ.erase i, ‖A i j‖ < ‖A i i‖) :=
  ⟨fun h => by
    have := sdd_smul _ c⁻¹ (inv_ne_zero hc) h
    simpa only [smul_smul, inv_mul_cancel₀ hc, one_smul] using this, sdd_smul A c hc⟩

/-- diagonally dominant iff a non-zero multiple is -/
theorem dd_smul_iff (A : Matrix n n 𝕜) (c : 𝕜) (hc : c ≠ 0) :
    (∀ i, ∑ j ∈ Finset.univ.erase i, ‖(c • A) i j‖ ≤ ‖(c • A) i i‖) ↔
      (∀ i, ∑ j ∈ Finset.univ.erase i, ‖A i j‖ ≤ ‖A i i‖) :=
  ⟨fun h => by
    have := dd_smul _ c⁻¹ h
    simpa only [smul_smul, inv_mul_cancel₀ hc, one_smul] using this, dd_smul A c⟩

end iffNorm

section iffOrdered
variable {K : Type} [CommRing K] [LinearOrder K] [IsStrictOrderedRing K]

/-- row-stochastic iff the reindexed matrix is -/
theorem rowStoch_submatrix_iff (A : Matrix n n K) (σ : n ≃ n) :
    ((∀ i j, 0 ≤ (A.submatrix σ σ) i j) ∧ ∀ i, ∑ j, (A.submatrix σ σ) i j = 1) ↔
      ((∀ i j, 0 ≤ A i j) ∧ ∀ i, ∑ j, A i j = 1) :=
  ⟨fun h => by simpa only [submatrix_symm_cancel] using rowStoch_submatrix _ σ.symm h, rowStoch_submatrix A σ⟩

/-- column-stochastic iff the reindexed matrix is -/
theorem colStoch_submatrix_iff (A : Matrix n n K) (σ : n ≃ n) :
    ((∀ i j, 0 ≤ (A.submatrix σ σ) i j) ∧ ∀ j, ∑ i, (A.submatrix σ σ) i j = 1) ↔
      ((∀ i j, 0 ≤ A i j) ∧ ∀ j, ∑ i, A i j = 1) :=
  ⟨fun h => by simpa only [submatrix_symm_cancel] using colStoch_submatrix _ σ.symm h, colStoch_submatrix A σ⟩

/-- the transpose is column-stochastic iff the matrix is row-stochastic -/
theorem rowStoch_transpose_iff (A : Matrix n n K) :
    ((∀ i j, 0 ≤ Aᵀ i j) ∧ ∀ j, ∑ i, Aᵀ i j = 1) ↔ ((∀ i j, 0 ≤ A i j) ∧ ∀ i, ∑ j, A i j = 1) :=
  ⟨fun h => ⟨fun i j => h.1 j i, fun i => h.2 i⟩, rowStoch_transpose A⟩

/-- entrywise nonnegative iff the matrix with rows and columns reordered is -/
theorem nonneg_submatrix_iff (A : Matrix n n K) (σ τ : n ≃ n) :
    (∀ i j, 0 ≤ (A.submatrix σ τ) i j) ↔ (∀ i j, 0 ≤ A i j) :=
  ⟨fun h i j => by simpa using h (σ.symm i) (τ.symm j), nonneg_submatrix A σ τ⟩

/-- entrywise positive iff the matrix with rows and columns reordered is -/
theorem pos_submatrix_iff (A : Matrix n n K) (σ τ : n ≃ n) :
    (∀ i j, 0 < (A.submatrix σ τ) i j) ↔ (∀ i j, 0 < A i j) :=
  ⟨fun h i j => by simpa using h (σ.symm i) (τ.symm j), pos_submatrix A σ τ⟩

/-- totally positive iff the transpose is -/
theorem totPos_transpose_iff {p q : ℕ} (A : Matrix (Fin p) (Fin q) K) :
    (∀ (k : ℕ) (r : Fin k ↪o Fin q) (c : Fin k ↪o Fin p), 0 < (Aᵀ.submatrix r c).det) ↔
      (∀ (k : ℕ) (r : Fin k ↪o Fin p) (c : Fin k ↪o Fin q), 0 < (A.submatrix r c).det) :=
  ⟨fun h => by simpa using totPos_transpose _ h, totPos_transpose A⟩

/-- totally positive iff the matrix with both orders reversed is -/
theorem totPos_reverse_both_iff {p q : ℕ} (A : Matrix (Fin p) (Fin q) K) :
    (∀ (k : ℕ) (r : Fin k ↪o Fin p) (c : Fin k ↪o Fin q), 0 < ((A.submatrix Fin.rev Fin.rev).submatrix r c).det) ↔
      (∀ (k : ℕ) (r : Fin k ↪o Fin p) (c : Fin k ↪o Fin q), 0 < (A.submatrix r c).det) := by
  refine ⟨fun h => ?_, totPos_reverse_both A⟩
  have := totPos_reverse_both _ h
  have e : (A.submatrix Fin.rev Fin.rev).submatrix Fin.rev Fin.rev = A := by ext i j; simp
  rwa [e] at this

end iffOrdered

/-! ## doubly nonnegative real matrices (positive semidefinite and entrywise nonnegative) -/

section doublyNonneg

/-- simultaneous reindexing keeps a real matrix doubly nonnegative -/
theorem doublyNonneg_submatrix (A : Matrix n n ℝ) (σ : n ≃ n) (hA : A.PosSemidef ∧ ∀ i j, 0 ≤ A i j) :
    (A.submatrix σ σ).PosSemidef ∧ ∀ i j, 0 ≤ (A.submatrix σ σ) i j :=
  ⟨psd_submatrix A σ hA.1, fun i j => hA.2 _ _⟩

/-- transpose of a doubly nonnegative real matrix is doubly nonnegative -/
theorem doublyNonneg_transpose (A : Matrix n n ℝ) (hA : A.PosSemidef ∧ ∀ i j, 0 ≤ A i j) :
    Aᵀ.PosSemidef ∧ ∀ i j, 0 ≤ Aᵀ i j :=
  ⟨psd_transpose A hA.1, fun i j => hA.2 j i⟩

/-- a nonnegative multiple of a doubly nonnegative real matrix is doubly nonnegative -/
theorem doublyNonneg_smul (A : Matrix n n ℝ) (c : ℝ) (hc : 0 ≤ c) (hA : A.PosSemidef ∧ ∀ i j, 0 ≤ A i j) :
    (c • A).PosSemidef ∧ ∀ i j, 0 ≤ (c • A) i j :=
  ⟨psd_smul A c hc hA.1, nonneg_smul A c hc hA.2⟩

end doublyNonneg

end Toq.MatrixInv
