import Toq.Model.ExtGames
import Toq.Proofs.Cert
import Toq.Proofs.Idx
import Toq.Proofs.Npa
import Mathlib.LinearAlgebra.Matrix.Kronecker
import Mathlib.Logic.Equiv.Fin.Basic
/-!
# Helper lemmas for C09 (extended games, hedging, cloning)

* Rayleigh quotients and `λ_max` certificates;
* the question-averaged operator of an extended game and the enumeration of answer functions;
* partial trace over the first tensor factor on `α × β`-indexed matrices, its adjointness to `Y ↦ 1 ⊗ Y`,
  weak duality of the hedging / cloning programs;
* the bridge from the executable flat-index operations (`ptr1`, `kronIY`, `reindex`) to these.
-/

open Matrix Kronecker
open scoped ComplexOrder MatrixOrder

namespace Toq.ExtGames
open EMat

/-! ## Rayleigh quotients -/

section Rayleigh
variable {ι κ : Type*} [Fintype ι] [DecidableEq ι] [Fintype κ]

/-- if `c·1 − A ⪰ 0` then `Re tr(Vᴴ A V) ≤ c · Re tr(Vᴴ V)` for every (column) matrix `V` -/
theorem rayleigh_le_of_psd {A : Matrix ι ι ℂ} {c : ℝ}
    (h : ((c : ℂ) • (1 : Matrix ι ι ℂ) - A).PosSemidef) (V : Matrix ι κ ℂ) :
    (Vᴴ * A * V).trace.re ≤ c * (Vᴴ * V).trace.re := by
  have h1 := (h.conjTranspose_mul_mul_same V).trace_nonneg
  have h2 : (Vᴴ * ((c : ℂ) • (1 : Matrix ι ι ℂ) - A) * V).trace
      = (c : ℂ) * (Vᴴ * V).trace - (Vᴴ * A * V).trace := by
    rw [Matrix.mul_sub, Matrix.sub_mul, Matrix.trace_sub, Matrix.mul_smul, Matrix.smul_mul,
      Matrix.trace_smul, Matrix.mul_one, smul_eq_mul]
  rw [h2] at h1
  have h3 := (Complex.nonneg_iff.mp h1).1
  rw [Complex.sub_re, Complex.re_ofReal_mul] at h3
  linarith

/-- `Re tr(A ρ) ≤ c` for every density operator `ρ` when `c·1 − A ⪰ 0` -/
theorem trace_mul_le_of_psd {A ρ : Matrix ι ι ℂ} {c : ℝ}
    (h : ((c : ℂ) • (1 : Matrix ι ι ℂ) - A).PosSemidef) (hρ : ρ.PosSemidef) (htr : ρ.trace = 1) :
    (A * ρ).trace.re ≤ c := by
  have h1 := psd_trace_mul_nonneg h hρ
  rw [Matrix.sub_mul, Matrix.trace_sub, Matrix.smul_mul, Matrix.trace_smul, Matrix.one_mul, htr,
    Complex.sub_re, smul_eq_mul, mul_one, Complex.ofReal_re] at h1
  linarith

end Rayleigh

/-! ## Density operators from vectors; PSD-ness from expectation values -/

section Density
variable {ι κ : Type*} [Fintype ι] [DecidableEq ι] [Fintype κ] [DecidableEq κ]

/-- a density operator: positive semidefinite with unit trace -/
def IsDensity (ρ : Matrix ι ι ℂ) : Prop := ρ.PosSemidef ∧ ρ.trace = 1

omit [DecidableEq ι] [DecidableEq κ] in
theorem trace_conjTranspose_mul_self_eq_re (V : Matrix ι κ ℂ) :
    (Vᴴ * V).trace = (((Vᴴ * V).trace.re : ℝ) : ℂ) := by
  have h := (Matrix.posSemidef_conjTranspose_mul_self V).trace_nonneg
  obtain ⟨-, him⟩ := Complex.nonneg_iff.mp h
  exact Complex.ext (by simp) (by simpa using him.symm)

omit [DecidableEq ι] [DecidableEq κ] in
/-- the normalised projector onto the range of `V`: `ρ = V Vᴴ / tr(Vᴴ V)` is a density operator and
    `tr(A ρ) = tr(Vᴴ A V) / tr(Vᴴ V)` -/
theorem density_of_col (V : Matrix ι κ ℂ) (hpos : 0 < (Vᴴ * V).trace.re) :
    IsDensity (((((Vᴴ * V).trace.re)⁻¹ : ℝ) : ℂ) • (V * Vᴴ)) ∧
      ∀ A : Matrix ι ι ℂ, (A * ((((Vᴴ * V).trace.re)⁻¹ : ℝ) : ℂ) • (V * Vᴴ)).trace.re
        = ((Vᴴ * V).trace.re)⁻¹ * (Vᴴ * A * V).trace.re := by
  refine ⟨⟨?_, ?_⟩, fun A => ?_⟩
  · refine (Matrix.posSemidef_self_mul_conjTranspose V).smul ?_
    exact_mod_cast (inv_pos.mpr hpos).le
  · rw [Matrix.trace_smul, Matrix.trace_mul_comm V Vᴴ, trace_conjTranspose_mul_self_eq_re V, smul_eq_mul,
      ← Complex.ofReal_mul, Complex.ofReal_re, inv_mul_cancel₀ hpos.ne', Complex.ofReal_one]
  · rw [Matrix.mul_smul, Matrix.trace_smul, smul_eq_mul, Complex.re_ofReal_mul, ← Matrix.mul_assoc,
      Matrix.trace_mul_comm (A * V) Vᴴ, ← Matrix.mul_assoc]

omit [DecidableEq ι] in
/-- a Hermitian matrix with non-negative expectation on every PSD matrix is PSD -/
theorem psd_of_trace_mul_nonneg {W : Matrix ι ι ℂ} (hW : W.IsHermitian)
    (h : ∀ ρ : Matrix ι ι ℂ, ρ.PosSemidef → 0 ≤ (W * ρ).trace.re) : W.PosSemidef := by
  refine Matrix.PosSemidef.of_dotProduct_mulVec_nonneg hW fun x => ?_
  have h1 := h _ (Matrix.posSemidef_vecMulVec_self_star x)
  rw [Matrix.mul_vecMulVec, Matrix.trace_vecMulVec, dotProduct_comm] at h1
  have him : (star x ⬝ᵥ W *ᵥ x).im = 0 := by
    have hs : star x ⬝ᵥ W *ᵥ x = star (star x ⬝ᵥ W *ᵥ x) := by
      conv_lhs => rw [Matrix.star_dotProduct, Matrix.star_mulVec, hW.eq, ← Matrix.dotProduct_mulVec]
    exact Complex.conj_eq_iff_im.mp hs.symm
  exact Complex.nonneg_iff.mpr ⟨h1, him.symm⟩

/-- `c·1 − M ⪰ 0` iff every density operator has expectation `Re tr(M ρ) ≤ c` (for Hermitian `M`):
    `c` bounds `λ_max(M)` iff it bounds the value of every state -/
theorem psd_sub_iff_forall_density {M : Matrix ι ι ℂ} (hM : M.IsHermitian) (c : ℝ) :
    ((c : ℂ) • (1 : Matrix ι ι ℂ) - M).PosSemidef ↔ ∀ ρ : Matrix ι ι ℂ, IsDensity ρ → (M * ρ).trace.re ≤ c := by
  constructor
  · intro h ρ hρ
    exact trace_mul_le_of_psd h hρ.1 hρ.2
  · intro h
    have hW : ((c : ℂ) • (1 : Matrix ι ι ℂ) - M).IsHermitian := by
      refine Matrix.IsHermitian.sub ?_ hM
      rw [Matrix.IsHermitian, Matrix.conjTranspose_smul, Matrix.conjTranspose_one]
      simp
    refine psd_of_trace_mul_nonneg hW fun ρ hρ => ?_
    have htr := hρ.trace_nonneg
    obtain ⟨hre, him⟩ := Complex.nonneg_iff.mp htr
    have hρtr : ρ.trace = ((ρ.trace.re : ℝ) : ℂ) := Complex.ext (by simp) (by simpa using him.symm)
    rcases hre.lt_or_eq with hpos | hzero
    · have hd : IsDensity ((((ρ.trace.re)⁻¹ : ℝ) : ℂ) • ρ) := by
        refine ⟨hρ.smul (by exact_mod_cast (inv_pos.mpr hpos).le), ?_⟩
        rw [Matrix.trace_smul, smul_eq_mul, hρtr, ← Complex.ofReal_mul]
        simp [inv_mul_cancel₀ hpos.ne']
      have h2 := h _ hd
      rw [Matrix.mul_smul, Matrix.trace_smul, smul_eq_mul, Complex.re_ofReal_mul] at h2
      rw [Matrix.sub_mul, Matrix.trace_sub, Matrix.smul_mul, Matrix.trace_smul, Matrix.one_mul,
        Complex.sub_re, smul_eq_mul, hρtr, ← Complex.ofReal_mul, Complex.ofReal_re]
      have h3 : (M * ρ).trace.re ≤ c * ρ.trace.re := by
        have := mul_le_mul_of_nonneg_left h2 hpos.le
        rwa [← mul_assoc, mul_inv_cancel₀ hpos.ne', one_mul, mul_comm] at this
      linarith
    · have hz : ρ = 0 := hρ.trace_eq_zero_iff.mp (by rw [hρtr, ← hzero]; simp)
      simp [hz]

end Density

/-! ## `λ_max` certificates -/

section LamMax
variable {n k : Nat}

theorem checkLamMaxUpper_sound (A : EMat n n) (c : Rat) (L : EMat n k)
    (h : checkLamMaxUpper A c L = true) :
    ((((c : Rat) : ℝ) : ℂ) • (1 : Matrix (Fin n) (Fin n) ℂ) - A.toM).PosSemidef := by
  have := psdCert_sound _ _ h
  rwa [toM_sub, toM_scalar] at this

theorem normSq_cast (v : EMat n 1) : ((normSq v : Rat) : ℝ) = (v.toMᴴ * v.toM).trace.re := by
  unfold normSq
  rw [re_trace, toM_mul, toM_ct]

theorem quadForm_cast (A : EMat n n) (v : EMat n 1) :
    ((quadForm A v : Rat) : ℝ) = (v.toMᴴ * A.toM * v.toM).trace.re := by
  unfold quadForm
  rw [re_trace, toM_mul, toM_mul, toM_ct, Matrix.mul_assoc]

theorem checkLamMaxLower_sound (A : EMat n n) (v : EMat n 1) (lo : Rat)
    (h : checkLamMaxLower A v = some lo) :
    A.toM.IsHermitian ∧ 0 < (v.toMᴴ * v.toM).trace.re ∧
      (v.toMᴴ * A.toM * v.toM).trace.re = (lo : ℝ) * (v.toMᴴ * v.toM).trace.re := by
  unfold checkLamMaxLower at h
  split at h
  · next hc =>
    simp only [Bool.and_eq_true, decide_eq_true_eq] at hc
    obtain ⟨hH, hpos⟩ := hc
    have hpos' : (0 : ℝ) < ((normSq v : Rat) : ℝ) := by exact_mod_cast hpos
    have hlo : lo = quadForm A v / normSq v := (Option.some.inj h).symm
    refine ⟨isHermitian_sound A hH, by rwa [← normSq_cast], ?_⟩
    rw [← normSq_cast, ← quadForm_cast, hlo, Rat.cast_div, div_mul_cancel₀ _ hpos'.ne']
  · exact absurd h (by simp)

end LamMax

/-! ## Partial trace over the first factor and weak duality -/

section Prod
variable {α β : Type*} [Fintype α] [Fintype β] [DecidableEq α] [DecidableEq β]

/-- partial trace over the first tensor factor: `(Tr_1 X) j j' = Σ_i X (i,j) (i,j')` -/
def ptrace1 (X : Matrix (α × β) (α × β) ℂ) : Matrix β β ℂ := fun j j' => ∑ i, X (i, j) (i, j')

omit [DecidableEq β] in
/-- adjointness of `Y ↦ 1 ⊗ Y` and `Tr_1`: `tr((1 ⊗ Y) X) = tr(Y · Tr_1 X)` -/
theorem trace_one_kron_mul (Y : Matrix β β ℂ) (X : Matrix (α × β) (α × β) ℂ) :
    (((1 : Matrix α α ℂ) ⊗ₖ Y) * X).trace = (Y * ptrace1 X).trace := by
  simp only [Matrix.trace, Matrix.diag_apply, Matrix.mul_apply, Matrix.kroneckerMap_apply,
    Fintype.sum_prod_type, Matrix.one_apply, ptrace1, Finset.mul_sum]
  have h : ∀ i j, (∑ i', ∑ j', (if i = i' then (1 : ℂ) else 0) * Y j j' * X (i', j') (i, j))
      = ∑ j', Y j j' * X (i, j') (i, j) := by
    intro i j
    rw [Finset.sum_eq_single i]
    · simp
    · intro i' _ hne
      simp [Ne.symm hne]
    · simp
  simp only [h]
  rw [Finset.sum_comm]
  exact Finset.sum_congr rfl fun j _ => Finset.sum_comm

/-- a point of the primal feasible set `{X ⪰ 0, Tr_1 X = 1}` -/
def HedgeFeasible (X : Matrix (α × β) (α × β) ℂ) : Prop := X.PosSemidef ∧ ptrace1 X = 1

/-- weak duality, maximisation: `Re tr(Q X) ≤ Re tr Y` when `1 ⊗ Y − Q ⪰ 0` -/
theorem hedge_max_weak_duality_prod (Q X : Matrix (α × β) (α × β) ℂ) (Y : Matrix β β ℂ)
    (hX : HedgeFeasible X) (hY : (((1 : Matrix α α ℂ) ⊗ₖ Y) - Q).PosSemidef) :
    (Q * X).trace.re ≤ Y.trace.re := by
  have h := psd_trace_mul_nonneg hY hX.1
  rw [Matrix.sub_mul, Matrix.trace_sub, trace_one_kron_mul, hX.2, Matrix.mul_one, Complex.sub_re] at h
  linarith

/-- weak duality, minimisation: `Re tr Y ≤ Re tr(Q X)` when `Q − 1 ⊗ Y ⪰ 0` -/
theorem hedge_min_weak_duality_prod (Q X : Matrix (α × β) (α × β) ℂ) (Y : Matrix β β ℂ)
    (hX : HedgeFeasible X) (hY : (Q - ((1 : Matrix α α ℂ) ⊗ₖ Y)).PosSemidef) :
    Y.trace.re ≤ (Q * X).trace.re := by
  have h := psd_trace_mul_nonneg hY hX.1
  rw [Matrix.sub_mul, Matrix.trace_sub, trace_one_kron_mul, hX.2, Matrix.mul_one, Complex.sub_re] at h
  linarith

omit [Fintype β] in
theorem ptrace1_one : ptrace1 (1 : Matrix (α × β) (α × β) ℂ) = (Fintype.card α : ℂ) • (1 : Matrix β β ℂ) := by
  ext j j'
  simp only [ptrace1, Matrix.one_apply, Prod.mk.injEq, true_and, Matrix.smul_apply, smul_eq_mul]
  by_cases h : j = j' <;> simp [h]

omit [Fintype β] in
/-- the primal feasible set is non-empty: `X = 1 / |α|` -/
theorem hedgeFeasible_exists [Nonempty α] : ∃ X : Matrix (α × β) (α × β) ℂ, HedgeFeasible X := by
  classical
  have hc : (0 : ℝ) < Fintype.card α := by exact_mod_cast Fintype.card_pos
  refine ⟨(((Fintype.card α : ℝ)⁻¹ : ℝ) : ℂ) • (1 : Matrix (α × β) (α × β) ℂ), ?_, ?_⟩
  · refine Matrix.PosSemidef.one.smul ?_
    exact_mod_cast (inv_pos.mpr hc).le
  · ext j j'
    have : ptrace1 ((((Fintype.card α : ℝ)⁻¹ : ℝ) : ℂ) • (1 : Matrix (α × β) (α × β) ℂ)) j j'
        = (((Fintype.card α : ℝ)⁻¹ : ℝ) : ℂ) * ptrace1 (1 : Matrix (α × β) (α × β) ℂ) j j' := by
      simp only [ptrace1, Matrix.smul_apply, smul_eq_mul, Finset.mul_sum]
    rw [this, ptrace1_one, Matrix.smul_apply, smul_eq_mul, ← mul_assoc]
    have : ((((Fintype.card α : ℝ)⁻¹ : ℝ) : ℂ) * (Fintype.card α : ℂ)) = 1 := by
      push_cast
      exact inv_mul_cancel₀ (by exact_mod_cast hc.ne')
    rw [this, one_mul]

end Prod

/-! ## Arbitrary arrangement of the tensor factors -/

section Equiv
variable {α β ι : Type*} [Fintype α] [Fintype β] [DecidableEq α] [DecidableEq β] [Fintype ι]
  [DecidableEq ι]

omit [DecidableEq ι] [DecidableEq α] in
theorem trace_submatrix_equiv (e : α ≃ ι) (M : Matrix ι ι ℂ) : (M.submatrix e e).trace = M.trace := by
  simp only [Matrix.trace, Matrix.diag_apply, Matrix.submatrix_apply]
  exact Equiv.sum_comp e fun i => M i i

omit [DecidableEq ι] [DecidableEq α] in
theorem trace_mul_submatrix_equiv (e : α ≃ ι) (M N : Matrix ι ι ℂ) :
    (M.submatrix e e * N.submatrix e e).trace = (M * N).trace := by
  rw [Matrix.submatrix_mul_equiv M N e e e, trace_submatrix_equiv]

omit [DecidableEq ι] in
/-- weak duality (maximisation) when the systems are arranged by an arbitrary identification
    `e : (outputs) × (inputs) ≃ ι` of the index set -/
theorem hedge_max_weak_duality_equiv (e : α × β ≃ ι) (Q X : Matrix ι ι ℂ) (Y : Matrix β β ℂ)
    (hX : HedgeFeasible (X.submatrix e e))
    (hY : (((1 : Matrix α α ℂ) ⊗ₖ Y) - Q.submatrix e e).PosSemidef) :
    (Q * X).trace.re ≤ Y.trace.re := by
  rw [← trace_mul_submatrix_equiv e]
  exact hedge_max_weak_duality_prod _ _ _ hX hY

omit [DecidableEq ι] in
/-- weak duality (minimisation) for an arbitrary arrangement of the systems -/
theorem hedge_min_weak_duality_equiv (e : α × β ≃ ι) (Q X : Matrix ι ι ℂ) (Y : Matrix β β ℂ)
    (hX : HedgeFeasible (X.submatrix e e))
    (hY : (Q.submatrix e e - ((1 : Matrix α α ℂ) ⊗ₖ Y)).PosSemidef) :
    Y.trace.re ≤ (Q * X).trace.re := by
  rw [← trace_mul_submatrix_equiv e]
  exact hedge_min_weak_duality_prod _ _ _ hX hY

end Equiv

/-! ## Bridge from the flat-index executable operations -/

section Flat
variable {a b k : Nat}

/-- a flat-indexed operator on `ℂ^a ⊗ ℂ^b` (index `i·b + j`) as a matrix on the product index set -/
def unflat (M : Matrix (Fin (a * b)) (Fin (a * b)) ℂ) : Matrix (Fin a × Fin b) (Fin a × Fin b) ℂ :=
  M.submatrix finProdFinEquiv finProdFinEquiv

theorem pair_eq (i : Fin a) (j : Fin b) : pair i j = finProdFinEquiv (i, j) := rfl

theorem fstIdx_eq (p : Fin (a * b)) : fstIdx p = (finProdFinEquiv.symm p).1 := rfl

theorem sndIdx_eq (p : Fin (a * b)) : sndIdx p = (finProdFinEquiv.symm p).2 := rfl

theorem toM_ptr1 (X : EMat (a * b) (a * b)) : (ptr1 a b X).toM = ptrace1 (unflat X.toM) := by
  ext j j'
  simp [ptr1, ptrace1, unflat, sumFin_toC, pair_eq]

theorem unflat_kronIY (Y : EMat b b) :
    unflat (kronIY a Y).toM = (1 : Matrix (Fin a) (Fin a) ℂ) ⊗ₖ Y.toM := by
  ext ⟨i, j⟩ ⟨i', j'⟩
  simp only [unflat, Matrix.submatrix_apply, toM_apply, kronIY, get_ofFn, fstIdx_eq, sndIdx_eq,
    Equiv.symm_apply_apply, Matrix.kroneckerMap_apply, Matrix.one_apply]
  split <;> simp

theorem unflat_sub (M N : Matrix (Fin (a * b)) (Fin (a * b)) ℂ) : unflat (M - N) = unflat M - unflat N := rfl

theorem unflat_psd (M : Matrix (Fin (a * b)) (Fin (a * b)) ℂ) : (unflat M).PosSemidef ↔ M.PosSemidef :=
  Matrix.posSemidef_submatrix_equiv _

theorem checkHedgePrimal_sound (Q X : EMat (a * b) (a * b)) (L : EMat (a * b) k) (v : Rat)
    (h : checkHedgePrimal a b Q X L = some v) :
    Q.toM.IsHermitian ∧ HedgeFeasible (unflat X.toM) ∧
      (unflat Q.toM * unflat X.toM).trace.re = (v : ℝ) := by
  unfold checkHedgePrimal at h
  split at h
  · next hc =>
    simp only [Bool.and_eq_true] at hc
    obtain ⟨⟨hQ, hpsd⟩, hptr⟩ := hc
    refine ⟨isHermitian_sound Q hQ, ⟨(unflat_psd _).mpr (psdCert_sound _ _ hpsd), ?_⟩, ?_⟩
    · rw [← toM_ptr1, beq_sound _ _ hptr, toM_one]
    · unfold unflat
      rw [trace_mul_submatrix_equiv, ← toM_mul, ← re_trace]
      exact congrArg _ (Option.some.inj h)
  · exact absurd h (by simp)

theorem checkHedgeMaxDual_sound (Q : EMat (a * b) (a * b)) (Y : EMat b b) (L : EMat (a * b) k) (v : Rat)
    (h : checkHedgeMaxDual a b Q Y L = some v) :
    Y.toM.IsHermitian ∧ (((1 : Matrix (Fin a) (Fin a) ℂ) ⊗ₖ Y.toM) - unflat Q.toM).PosSemidef ∧
      Y.toM.trace.re = (v : ℝ) := by
  unfold checkHedgeMaxDual at h
  split at h
  · next hc =>
    simp only [Bool.and_eq_true] at hc
    obtain ⟨hY, hpsd⟩ := hc
    refine ⟨isHermitian_sound Y hY, ?_, ?_⟩
    · have := (unflat_psd _).mpr (psdCert_sound _ _ hpsd)
      rwa [toM_sub, unflat_sub, unflat_kronIY] at this
    · rw [← re_trace]
      exact congrArg _ (Option.some.inj h)
  · exact absurd h (by simp)

theorem checkHedgeMinDual_sound (Q : EMat (a * b) (a * b)) (Y : EMat b b) (L : EMat (a * b) k) (v : Rat)
    (h : checkHedgeMinDual a b Q Y L = some v) :
    Y.toM.IsHermitian ∧ (unflat Q.toM - ((1 : Matrix (Fin a) (Fin a) ℂ) ⊗ₖ Y.toM)).PosSemidef ∧
      Y.toM.trace.re = (v : ℝ) := by
  unfold checkHedgeMinDual at h
  split at h
  · next hc =>
    simp only [Bool.and_eq_true] at hc
    obtain ⟨hY, hpsd⟩ := hc
    refine ⟨isHermitian_sound Y hY, ?_, ?_⟩
    · have := (unflat_psd _).mpr (psdCert_sound _ _ hpsd)
      rwa [toM_sub, unflat_sub, unflat_kronIY] at this
    · rw [← re_trace]
      exact congrArg _ (Option.some.inj h)
  · exact absurd h (by simp)

end Flat

/-! ## Reindexing -/

section Reindex
variable {N : Nat}

theorem toM_reindex (σ : Fin N → Fin N) (A : EMat N N) : (reindex σ A).toM = A.toM.submatrix σ σ := by
  ext p q
  simp [reindex]

theorem isSurj_sound (σ : Fin N → Fin N) (h : isSurj σ = true) : Function.Bijective σ := by
  have hs : Function.Surjective σ := by
    intro q
    simp only [isSurj, allFin_iff, List.any_eq_true, beq_iff_eq] at h
    obtain ⟨p, -, hp⟩ := h q
    exact ⟨p, hp⟩
  exact ⟨Finite.injective_iff_surjective.mpr hs, hs⟩

end Reindex

/-! ## Extended games -/

section Games
variable {d : Nat}

theorem sumFin_congr {k : Nat} (f g : Fin k → QI) (h : ∀ l, f l = g l) : sumFin k f = sumFin k g :=
  congrArg (sumFin k) (funext h)

/-- the averaged operator only looks at `f` below `nX` and `g` below `nY` -/
theorem avgOperator_congr (G : Game d) (f f' g g' : Nat → Nat) (hf : ∀ x, x < G.nX → f x = f' x)
    (hg : ∀ y, y < G.nY → g y = g' y) : avgOperator G f g = avgOperator G f' g' := by
  unfold avgOperator
  congr 1
  funext i j
  refine sumFin_congr _ _ fun x => sumFin_congr _ _ fun y => ?_
  rw [hf x.val x.isLt, hg y.val y.isLt]

theorem toM_avgOperator (G : Game d) (f g : Nat → Nat) :
    (avgOperator G f g).toM = ∑ x : Fin G.nX, ∑ y : Fin G.nY,
      ((((G.prob x.val y.val : Rat) : ℝ) : ℂ)) • (G.pred (f x.val) (g y.val) x.val y.val).toM := by
  ext i j
  simp [avgOperator, sumFin_toC, QI.toC_smul, Matrix.sum_apply]

/-- every function with values below `n` on `0..k-1` is enumerated by `fnOfIdx` -/
theorem fnOfIdx_surj (n k : Nat) (f : Nat → Nat) (hf : ∀ x, x < k → f x < n) :
    ∃ i, i < numFns n k ∧ ∀ x, x < k → fnOfIdx n k i x = f x :=
  ⟨enc (fun _ => n) f k, enc_lt _ _ _ hf, dec_enc _ _ _ hf⟩

theorem fnValid_iff (n k : Nat) (f : Nat → Nat) : fnValid n k f = true ↔ ∀ x, x < k → f x < n := by
  simp [fnValid, allBelow_iff]

theorem checkUnentUpper_sound (G : Game d) (c : Rat) (Ls : Nat → EMat d d)
    (h : checkUnentUpper G c Ls = true) (f g : Nat → Nat) (hf : ∀ x, x < G.nX → f x < G.nA)
    (hg : ∀ y, y < G.nY → g y < G.nB) :
    ((((c : Rat) : ℝ) : ℂ) • (1 : Matrix (Fin d) (Fin d) ℂ) - (avgOperator G f g).toM).PosSemidef := by
  simp only [checkUnentUpper, allBelow_iff] at h
  obtain ⟨i, hi, hfi⟩ := fnOfIdx_surj G.nA G.nX f hf
  obtain ⟨j, hj, hgj⟩ := fnOfIdx_surj G.nB G.nY g hg
  have := checkLamMaxUpper_sound _ _ _ (h i hi j hj)
  rwa [avgOperator_congr G _ f _ g hfi hgj] at this

theorem checkUnentConstUpper_sound (G : Game d) (c : Rat) (Ls : Nat → EMat d d)
    (h : checkUnentConstUpper G c Ls = true) (a b : Nat) (ha : a < G.nA) (hb : b < G.nB) :
    ((((c : Rat) : ℝ) : ℂ) • (1 : Matrix (Fin d) (Fin d) ℂ) - (constOperator G a b).toM).PosSemidef := by
  simp only [checkUnentConstUpper, allBelow_iff] at h
  exact checkLamMaxUpper_sound _ _ _ (h a ha b hb)

end Games

/-! ## Feasibility embedding of unentangled strategies into `npa_constraints(…, referee_dim = d)`

`npa_constraints` with `referee_dim = d > 1` runs the same loop over pairs of words as in the scalar case and emits, per
pair, one equation between `d × d` blocks (`r_var[i::dim, j::dim]` is block `(i, j)` of the moment matrix).  The mirror
`Toq.Npa.npaConstraints` of that loop is therefore reused with values in `d × d` blocks: `Blk d ρ` is the type of blocks in
which the scalar `1` of the generator is read as the referee state `ρ` (`R[0,0]`-block `= ρ`, `Σ_{a,b} K(a,b|x,y) = ρ`; the
code asks for the traces of these equations only) and `≤` is the Loewner order (`K(a,b|x,y) ⪰ 0`).  A scalar point
`(R, K)` over ℚ becomes the block point `(R·ρ, K·ρ)`; `sat_blk_of_sat` transfers every satisfied constraint. -/

section ExtEmbed
open Toq.Npa
variable {d : Nat}

/-- `d × d` blocks in which the scalar `1` of the NPA generator is read as the referee state `ρ` -/
def Blk (d : Nat) (_ρ : Matrix (Fin d) (Fin d) ℂ) : Type := Matrix (Fin d) (Fin d) ℂ

namespace Blk
variable {ρ : Matrix (Fin d) (Fin d) ℂ}

instance : AddCommMonoid (Blk d ρ) := inferInstanceAs (AddCommMonoid (Matrix (Fin d) (Fin d) ℂ))
instance : One (Blk d ρ) := ⟨ρ⟩
/-- the underlying matrix -/
def mat (A : Blk d ρ) : Matrix (Fin d) (Fin d) ℂ := A
instance : LE (Blk d ρ) := ⟨fun A B => (B.mat - A.mat).PosSemidef⟩
/-- a matrix as a block -/
def of (ρ : Matrix (Fin d) (Fin d) ℂ) (A : Matrix (Fin d) (Fin d) ℂ) : Blk d ρ := A

theorem one_mat : (1 : Blk d ρ).mat = ρ := rfl
theorem zero_mat : (0 : Blk d ρ).mat = 0 := rfl
theorem add_mat (A B : Blk d ρ) : (A + B).mat = A.mat + B.mat := rfl
theorem le_iff (A B : Blk d ρ) : A ≤ B ↔ (B.mat - A.mat).PosSemidef := Iff.rfl
end Blk

/-- the block `q · ρ` of a rational scalar `q` -/
def blkOf (ρ : Matrix (Fin d) (Fin d) ℂ) (q : ℚ) : Blk d ρ := Blk.of ρ (((q : ℚ) : ℂ) • ρ)

theorem blkOf_zero (ρ : Matrix (Fin d) (Fin d) ℂ) : blkOf ρ 0 = 0 := by
  show ((((0 : ℚ) : ℂ)) • ρ : Matrix (Fin d) (Fin d) ℂ) = 0
  simp

theorem blkOf_one (ρ : Matrix (Fin d) (Fin d) ℂ) : blkOf ρ 1 = 1 := by
  show ((((1 : ℚ) : ℂ)) • ρ : Matrix (Fin d) (Fin d) ℂ) = ρ
  simp

theorem blkOf_add (ρ : Matrix (Fin d) (Fin d) ℂ) (p q : ℚ) : blkOf ρ (p + q) = blkOf ρ p + blkOf ρ q := by
  show ((((p + q : ℚ) : ℂ)) • ρ : Matrix (Fin d) (Fin d) ℂ) = ((p : ℚ) : ℂ) • ρ + ((q : ℚ) : ℂ) • ρ
  rw [Rat.cast_add, add_smul]

theorem blkOf_sumN (ρ : Matrix (Fin d) (Fin d) ℂ) (F : Nat → ℚ) : ∀ n, blkOf ρ (sumN n F) = sumN n (fun k => blkOf ρ (F k))
  | 0 => blkOf_zero ρ
  | n + 1 => by
    show blkOf ρ (sumN n F + F n) = sumN n (fun k => blkOf ρ (F k)) + blkOf ρ (F n)
    rw [blkOf_add, blkOf_sumN ρ F n]

theorem blkOf_nonneg {ρ : Matrix (Fin d) (Fin d) ℂ} (hρ : ρ.PosSemidef) {q : ℚ} (hq : 0 ≤ q) : (0 : Blk d ρ) ≤ blkOf ρ q := by
  show ((blkOf ρ q).mat - (0 : Blk d ρ).mat).PosSemidef
  rw [Blk.zero_mat, sub_zero]
  show ((((q : ℚ) : ℂ)) • ρ : Matrix (Fin d) (Fin d) ℂ).PosSemidef
  refine hρ.smul ?_
  rw [← Complex.ofReal_ratCast]
  exact Complex.zero_le_real.mpr (by exact_mod_cast hq)

/-- transfer of a satisfied constraint from the scalar point `(R, K)` to the block point `(R·ρ, K·ρ)` -/
theorem sat_blk_of_sat {ρ : Matrix (Fin d) (Fin d) ℂ} (hρ : ρ.PosSemidef) (psd psd' : Prop) (hp : psd → psd')
    (ao bo : Nat) (R : Nat → Nat → ℚ) (K : Nat → Nat → Nat → Nat → ℚ) (c : Constr)
    (h : Sat psd ao bo R K c) :
    Sat psd' ao bo (fun i j => blkOf ρ (R i j)) (fun a b x y => blkOf ρ (K a b x y)) c := by
  cases c with
  | norm => show blkOf ρ (R 0 0) = 1; rw [show R 0 0 = 1 from h, blkOf_one]
  | psd => exact hp h
  | zero i j => show blkOf ρ (R i j) = 0; rw [show R i j = 0 from h, blkOf_zero]
  | meas i j x y a b => show blkOf ρ (R i j) = blkOf ρ (K a b x y); rw [show R i j = K a b x y from h]
  | margA i j x a =>
    show blkOf ρ (R i j) = sumN bo (fun b => blkOf ρ (K a b x 0))
    rw [show R i j = sumN bo (fun b => K a b x 0) from h, blkOf_sumN]
  | margB i j y b =>
    show blkOf ρ (R i j) = sumN ao (fun a => blkOf ρ (K a b 0 y))
    rw [show R i j = sumN ao (fun a => K a b 0 y) from h, blkOf_sumN]
  | same i j i' j' => show blkOf ρ (R i j) = blkOf ρ (R i' j'); rw [show R i j = R i' j' from h]
  | kNonneg x y a b => exact blkOf_nonneg hρ (show (0 : ℚ) ≤ K a b x y from h)
  | kNorm x y =>
    show sumN ao (fun a => sumN bo (fun b => blkOf ρ (K a b x y))) = 1
    have h' : sumN ao (fun a => sumN bo (fun b => K a b x y)) = 1 := h
    rw [← blkOf_one ρ, ← h', blkOf_sumN]
    congr 1; funext a; rw [blkOf_sumN]
  | nsBob y b x =>
    show sumN ao (fun a => blkOf ρ (K a b 0 y)) = sumN ao (fun a => blkOf ρ (K a b x y))
    have h' : sumN ao (fun a => K a b 0 y) = sumN ao (fun a => K a b x y) := h
    rw [← blkOf_sumN, ← blkOf_sumN, h']
  | nsAlice x a y =>
    show sumN bo (fun b => blkOf ρ (K a b x 0)) = sumN bo (fun b => blkOf ρ (K a b x y))
    have h' : sumN bo (fun b => K a b x 0) = sumN bo (fun b => K a b x y) := h
    rw [← blkOf_sumN, ← blkOf_sumN, h']

/-- the moment matrix `ρ ⊗ z zᵀ` of an unentangled strategy in the layout of `npa_constraints(…, referee_dim = d)`:
    flat index `i + n·p` for referee index `p` and word number `i` (so that `r_var[i::n, j::n]` is block `(i, j)`) -/
noncomputable def extR (n : Nat) (z : Nat → ℚ) (ρ : Matrix (Fin d) (Fin d) ℂ) : Matrix (Fin (d * n)) (Fin (d * n)) ℂ :=
  (ρ ⊗ₖ (Matrix.of fun i j : Fin n => (((z i * z j : ℚ)) : ℂ))).submatrix finProdFinEquiv.symm finProdFinEquiv.symm

theorem extR_psd (n : Nat) (z : Nat → ℚ) {ρ : Matrix (Fin d) (Fin d) ℂ} (hρ : ρ.PosSemidef) : (extR n z ρ).PosSemidef :=
  (hρ.kronecker (psdQ_of_rank_one n z)).submatrix _

theorem extR_apply (n : Nat) (z : Nat → ℚ) (ρ : Matrix (Fin d) (Fin d) ℂ) (p q : Fin d) (i j : Fin n) :
    extR n z ρ (finProdFinEquiv (p, i)) (finProdFinEquiv (q, j)) = (((z i * z j : ℚ)) : ℂ) * ρ p q := by
  simp [extR, Matrix.kroneckerMap_apply, mul_comm]

theorem sum4_comm {A B X Y M : Type*} [Fintype A] [Fintype B] [Fintype X] [Fintype Y] [AddCommMonoid M]
    (F : A → B → X → Y → M) : ∑ a, ∑ b, ∑ x, ∑ y, F a b x y = ∑ x, ∑ y, ∑ a, ∑ b, F a b x y := by
  calc ∑ a, ∑ b, ∑ x, ∑ y, F a b x y = ∑ a, ∑ x, ∑ b, ∑ y, F a b x y :=
        Finset.sum_congr rfl fun a _ => Finset.sum_comm
    _ = ∑ x, ∑ a, ∑ b, ∑ y, F a b x y := Finset.sum_comm
    _ = ∑ x, ∑ a, ∑ y, ∑ b, F a b x y :=
        Finset.sum_congr rfl fun x _ => Finset.sum_congr rfl fun a _ => Finset.sum_comm
    _ = ∑ x, ∑ y, ∑ a, ∑ b, F a b x y := Finset.sum_congr rfl fun x _ => Finset.sum_comm

theorem wordAt_genWords_zero (base : Nat) (conf : List (Nat × Nat)) (ao ai bo bi : Nat) :
    wordAt (genWords base conf ao ai bo bi) 0 = [Sym.ident] ∧
      0 < (genWords base conf ao ai bo bi).length := by
  constructor
  · simp [genWords, wordAt]
  · simp [genWords]

end ExtEmbed

end Toq.ExtGames
