import Toq.Proofs.Xor
/-!
# The one-sided enumeration of the classical bias is the two-sided maximum (C08)

`xorClassicalBiasBR` enumerates Alice's `2^m` sign vectors and lets Bob answer optimally (`Σ_y |Σ_x s_x D[x,y]|`); it equals
`xorClassicalBias` (enumeration of all `2^(m+n)` pairs) for all sizes and all rational cost matrices.
-/

namespace Toq.Xor

theorem rabs_eq_abs (a : Rat) : rabs a = |a| := by
  unfold rabs
  split
  · next h => rw [abs_of_neg h]
  · next h => rw [abs_of_nonneg (le_of_not_gt h)]

/-- `Σ_{x,y} D s t = Σ_y t_y Σ_x s_x D[x,y]` -/
theorem signBias_swap (m n : Nat) (D : Nat → Nat → Rat) (s t : Nat → Rat) :
    signBias m n D s t = sumN n fun y => t y * sumN m fun x => s x * D x y := by
  unfold signBias
  simp only [sumN_eq_sum]
  rw [Finset.sum_comm]
  refine Finset.sum_congr rfl fun y _ => ?_
  rw [Finset.mul_sum]
  refine Finset.sum_congr rfl fun x _ => by ring

/-- against a fixed `s`, no sign vector of Bob beats the best response -/
theorem signBias_le_bestResponse (m n : Nat) (D : Nat → Nat → Rat) (s t : Nat → Rat)
    (ht : ∀ y, y < n → t y = 1 ∨ t y = -1) :
    signBias m n D s t ≤ sumN n fun y => |sumN m fun x => s x * D x y| := by
  rw [signBias_swap]
  simp only [sumN_eq_sum]
  refine Finset.sum_le_sum fun y hy => ?_
  rcases ht y (Finset.mem_range.mp hy) with h | h <;> rw [h]
  · rw [one_mul]; exact le_abs_self _
  · rw [neg_one_mul]; exact neg_le_abs _

/-- the best response is a sign vector -/
theorem bestResponse_attained (m n : Nat) (D : Nat → Nat → Rat) (s : Nat → Rat) :
    ∃ t : Nat → Rat, (∀ y, t y = 1 ∨ t y = -1) ∧
      signBias m n D s t = sumN n fun y => |sumN m fun x => s x * D x y| := by
  refine ⟨fun y => if (sumN m fun x => s x * D x y) < 0 then -1 else 1, fun y => by dsimp only; split <;> simp, ?_⟩
  rw [signBias_swap]
  refine sumN_congr _ _ n fun y _ => ?_
  split
  · next h => rw [abs_of_neg h, neg_one_mul]
  · next h => rw [abs_of_nonneg (le_of_not_gt h), one_mul]

theorem bestResponse_eq (m n : Nat) (D : Nat → Nat → Rat) (k : Nat) :
    bestResponse m n D k = sumN n fun y => |sumN m fun x => negOnePow (bits m k x) * D x y| := by
  unfold bestResponse
  exact sumN_congr _ _ n fun y _ => rabs_eq_abs _

/-- **one-sided enumeration = two-sided enumeration**, all sizes -/
theorem xorClassicalBiasBR_eq (m n : Nat) (D : Nat → Nat → Rat) :
    xorClassicalBiasBR m n D = xorClassicalBias m n D := by
  apply le_antisymm
  · -- every enumerated value is the bias of a sign pair
    apply maxUpTo_le
    intro k _
    rw [bestResponse_eq]
    obtain ⟨t, ht, e⟩ := bestResponse_attained m n D (fun x => negOnePow (bits m k x))
    rw [← e]
    exact signBias_le_classicalBias m n D _ t ⟨fun _ _ => negOnePow_cases _, fun y _ => ht y⟩
  · -- the optimal pair is dominated by the best response to its first component, which is enumerated
    obtain ⟨s, t, hst, e⟩ := classicalBias_attained m n D
    rw [← e]
    refine le_trans (signBias_le_bestResponse m n D s t hst.2) ?_
    let α : Nat → Nat := fun x => if s x = 1 then 0 else 1
    have hα : ∀ x, x < m → negOnePow (α x) = s x := by
      intro x hx
      rcases hst.1 x hx with h | h
      · simp [α, h, negOnePow_zero]
      · have : ¬ s x = 1 := by rw [h]; norm_num
        show negOnePow (if s x = 1 then 0 else 1) = s x
        rw [if_neg this, negOnePow_one, h]
    obtain ⟨k, hk, h1, -⟩ := exists_code m 0 α (fun _ => 0) (fun x _ => by simp only [α]; split <;> omega)
      (fun y hy => absurd hy (Nat.not_lt_zero y))
    have hk' : k ≤ 2 ^ m - 1 := hk
    have hbits : ∀ x, x < m → negOnePow (bits m k x) = s x := fun x hx => by
      have := h1 x hx
      simp only [aliceOf, Nat.add_zero] at this
      rw [this, hα x hx]
    have : (sumN n fun y => |sumN m fun x => s x * D x y|) = bestResponse m n D k := by
      rw [bestResponse_eq]
      refine sumN_congr _ _ n fun y _ => ?_
      congr 1
      exact sumN_congr _ _ m fun x hx => by rw [hbits x hx]
    rw [this]
    exact le_maxUpTo (fun k => bestResponse m n D k) _ k hk'

/-- the fast classical value is the classical value (0/1 predicates) -/
theorem xorClassicalValueBR_eq (m n : Nat) (prob : Nat → Nat → Rat) (pred : Nat → Nat → Nat)
    (hf : ∀ x y, x < m → y < n → pred x y < 2) :
    xorClassicalValueBR m n prob pred = xorClassicalValue m n prob pred := by
  unfold xorClassicalValueBR
  rw [xorClassicalBiasBR_eq, classicalValue_eq_bias m n prob pred hf]

end Toq.Xor
