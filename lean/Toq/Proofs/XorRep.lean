import Toq.Proofs.XorMult
/-!
# Parallel repetition of XOR games (C08): the value of the `r`-fold repetition is at most `((1 + β)/2)^r`

`quantum_value` with `reps = r` returns the `r`-th power of the single-shot value.  Here the upper-bound half of the theorem
behind it (Cleve–Slofstra–Unger–Upadhyay) is proved for every `r`, every strategy with projective measurements in every
dimension, from a dual certificate of the single game:

* `tsirelsonDual_marginals_psd` — the marginals of `π` are a dual certificate (value 1) of the trivial game with cost `π`;
* `tsirelsonDual_pi_psd` — the product of `r` dual certificates is a dual certificate of the `r`-fold XOR-sum;
* Fourier expansion of the winning condition over subsets `S` of rounds: the winning probability of a strategy is the
  average over `S` of the biases of the ±1 observables `A_S = Σ_a χ_S(a) P_a`, `B_S` in the XOR-sum games with costs
  `D_S = ⊗_k (D if k ∈ S else π)`, each bounded by the product certificate.
-/

open Matrix
open scoped ComplexOrder MatrixOrder Kronecker

namespace Toq.Xor


section Trivial
variable {X Y : Type*} [Fintype X] [Fintype Y] [DecidableEq X] [DecidableEq Y]

omit [Fintype X] [Fintype Y] in
theorem tsirelsonDual_isHermitian (D : X → Y → ℝ) (a : X → ℝ) (b : Y → ℝ) : (tsirelsonDual D a b).IsHermitian := by
  unfold tsirelsonDual
  rw [Matrix.IsHermitian, fromBlocks_conjTranspose, diagonal_conjTranspose, diagonal_conjTranspose]
  congr 1
  · ext i j; simp [diagonal_apply]
  · ext i j; simp
  · ext i j; simp
  · ext i j; simp [diagonal_apply]

theorem tsirelsonDual_offdiag_inl (D : X → Y → ℝ) (a : X → ℝ) (b : Y → ℝ) (x : X) :
    ∑ j ∈ Finset.univ.erase (Sum.inl x : X ⊕ Y), ‖tsirelsonDual D a b (Sum.inl x) j‖ = ∑ y, |D x y| := by
  rw [Finset.sum_erase_eq_sub (Finset.mem_univ _), Fintype.sum_sum_type]
  have h1 : ∑ x', ‖tsirelsonDual D a b (Sum.inl x) (Sum.inl x')‖ = ‖tsirelsonDual D a b (Sum.inl x) (Sum.inl x)‖ := by
    rw [Finset.sum_eq_single x]
    · intro x' _ hne
      simp [tsirelsonDual, Ne.symm hne]
    · intro h; exact absurd (Finset.mem_univ x) h
  rw [h1, add_sub_cancel_left]
  refine Finset.sum_congr rfl fun y _ => ?_
  simp [tsirelsonDual]

theorem tsirelsonDual_offdiag_inr (D : X → Y → ℝ) (a : X → ℝ) (b : Y → ℝ) (y : Y) :
    ∑ j ∈ Finset.univ.erase (Sum.inr y : X ⊕ Y), ‖tsirelsonDual D a b (Sum.inr y) j‖ = ∑ x, |D x y| := by
  rw [Finset.sum_erase_eq_sub (Finset.mem_univ _), Fintype.sum_sum_type]
  have h1 : ∑ y', ‖tsirelsonDual D a b (Sum.inr y) (Sum.inr y')‖ = ‖tsirelsonDual D a b (Sum.inr y) (Sum.inr y)‖ := by
    rw [Finset.sum_eq_single y]
    · intro y' _ hne
      simp [tsirelsonDual, Ne.symm hne]
    · intro h; exact absurd (Finset.mem_univ y) h
  rw [h1, add_sub_cancel_right]
  refine Finset.sum_congr rfl fun x _ => ?_
  simp [tsirelsonDual]

/-- **the dual certificate of the trivial game** (`f = 0`, cost matrix `π ≥ 0`): the marginals of `π` -/
theorem tsirelsonDual_marginals_psd (π : X → Y → ℝ) (hπ : ∀ x y, 0 ≤ π x y) :
    (tsirelsonDual π (fun x => ∑ y, π x y) (fun y => ∑ x, π x y)).PosSemidef := by
  apply Matrix.posSemidef_of_diagDominant (tsirelsonDual_isHermitian _ _ _)
  rintro (x | y)
  · rw [tsirelsonDual_offdiag_inl]
    simp only [tsirelsonDual, fromBlocks_apply₁₁, diagonal_apply_eq, Complex.ofReal_re]
    exact le_of_eq (Finset.sum_congr rfl fun y _ => abs_of_nonneg (hπ x y))
  · rw [tsirelsonDual_offdiag_inr]
    simp only [tsirelsonDual, fromBlocks_apply₂₂, diagonal_apply_eq, Complex.ofReal_re]
    exact le_of_eq (Finset.sum_congr rfl fun x _ => abs_of_nonneg (hπ x y))

end Trivial

section Pi
variable {X Y : Type*} [Fintype X] [Fintype Y] [DecidableEq X] [DecidableEq Y]

/-- cost matrix of the XOR-sum of `r` games: `Π_k E_k(x_k, y_k)` -/
def piCost {r : Nat} (E : Fin r → X → Y → ℝ) : (Fin r → X) → (Fin r → Y) → ℝ := fun x y => ∏ k, E k (x k) (y k)

/-- product vector `Π_k a_k(x_k)` -/
def piVec {r : Nat} {Z : Type*} (a : Fin r → Z → ℝ) : (Fin r → Z) → ℝ := fun x => ∏ k, a k (x k)

/-- split off the first round -/
def headTail {r : Nat} : (Fin (r + 1) → X) ⊕ (Fin (r + 1) → Y) → (X × (Fin r → X)) ⊕ (Y × (Fin r → Y)) :=
  Sum.map (fun x => (x 0, Fin.tail x)) (fun y => (y 0, Fin.tail y))

theorem eq_iff_head_tail {Z : Type*} {r : Nat} (u v : Fin (r + 1) → Z) :
    u = v ↔ (u 0 = v 0 ∧ Fin.tail u = Fin.tail v) := by
  constructor
  · rintro rfl; exact ⟨rfl, rfl⟩
  · rintro ⟨h0, ht⟩
    rw [← Fin.cons_self_tail u, ← Fin.cons_self_tail v, h0, ht]

omit [Fintype X] [Fintype Y] in
theorem tsirelsonDual_pi_succ {r : Nat} (E : Fin (r + 1) → X → Y → ℝ) (a : Fin (r + 1) → X → ℝ) (b : Fin (r + 1) → Y → ℝ) :
    tsirelsonDual (piCost E) (piVec a) (piVec b)
      = (tsirelsonDual (kronD (E 0) (piCost fun k => E k.succ)) (fun p => a 0 p.1 * piVec (fun k => a k.succ) p.2)
          (fun q => b 0 q.1 * piVec (fun k => b k.succ) q.2)).submatrix headTail headTail := by
  ext i j
  rcases i with x | y <;> rcases j with x' | y'
  · simp only [tsirelsonDual, headTail, submatrix_apply, Sum.map_inl, fromBlocks_apply₁₁, diagonal_apply, Prod.mk.injEq]
    by_cases h : x = x'
    · subst h; simp [piVec, Fin.prod_univ_succ, Fin.tail]
    · have h' : ¬ (x 0 = x' 0 ∧ Fin.tail x = Fin.tail x') := fun hh => h ((eq_iff_head_tail x x').mpr hh)
      simp [h, h']
  · simp [tsirelsonDual, headTail, kronD, piCost, Fin.prod_univ_succ, Fin.tail]
  · simp [tsirelsonDual, headTail, kronD, piCost, Fin.prod_univ_succ, Fin.tail]
  · simp only [tsirelsonDual, headTail, submatrix_apply, Sum.map_inr, fromBlocks_apply₂₂, diagonal_apply, Prod.mk.injEq]
    by_cases h : y = y'
    · subst h; simp [piVec, Fin.prod_univ_succ, Fin.tail]
    · have h' : ¬ (y 0 = y' 0 ∧ Fin.tail y = Fin.tail y') := fun hh => h ((eq_iff_head_tail y y').mpr hh)
      simp [h, h']

/-- **product of `r` dual certificates** -/
theorem tsirelsonDual_pi_psd : ∀ {r : Nat} (E : Fin r → X → Y → ℝ) (a : Fin r → X → ℝ) (b : Fin r → Y → ℝ),
    (∀ k, (tsirelsonDual (E k) (a k) (b k)).PosSemidef) → (tsirelsonDual (piCost E) (piVec a) (piVec b)).PosSemidef
  | 0, E, a, b, _ => by
    apply Matrix.posSemidef_of_diagDominant (tsirelsonDual_isHermitian _ _ _)
    rintro (x | y)
    · rw [tsirelsonDual_offdiag_inl]
      simp [tsirelsonDual, piCost, piVec]
    · rw [tsirelsonDual_offdiag_inr]
      simp [tsirelsonDual, piCost, piVec]
  | r + 1, E, a, b, h => by
    rw [tsirelsonDual_pi_succ]
    exact (tsirelsonDual_kron_psd (h 0) (tsirelsonDual_pi_psd _ _ _ fun k => h k.succ)).submatrix _

omit [DecidableEq X] [DecidableEq Y] [Fintype Y] in
theorem piVec_sum {r : Nat} (a : Fin r → X → ℝ) : ∑ x, piVec a x = ∏ k, ∑ x, a k x := by
  unfold piVec
  rw [Finset.prod_univ_sum, Fintype.piFinset_univ]

end Pi


/-- `(-1)^t` for an answer / predicate bit -/
def sgb (t : Bool) : ℝ := if t then -1 else 1

theorem sgb_sq (t : Bool) : sgb t * sgb t = 1 := by cases t <;> simp [sgb]

/-- `[a ⊕ b = f] = (1 + (-1)^a (-1)^b (-1)^f) / 2` -/
theorem xor_indicator (a b f : Bool) : (if xor a b = f then (1 : ℝ) else 0) = (1 + sgb a * sgb b * sgb f) / 2 := by
  cases a <;> cases b <;> cases f <;> simp [sgb]

section Fourier
variable {r : Nat}

/-- character `χ_S(a) = Π_{k ∈ S} (-1)^{a_k}` -/
def chi (S : Finset (Fin r)) (a : Fin r → Bool) : ℝ := ∏ k ∈ S, sgb (a k)

theorem chi_sq (S : Finset (Fin r)) (a : Fin r → Bool) : chi S a * chi S a = 1 := by
  unfold chi
  rw [← Finset.prod_mul_distrib]
  exact Finset.prod_eq_one fun k _ => sgb_sq _

/-- **Fourier expansion of the winning condition of the `r`-fold AND-repetition** -/
theorem and_indicator (a b f : Fin r → Bool) :
    (if ∀ k, xor (a k) (b k) = f k then (1 : ℝ) else 0)
      = (1 / 2) ^ r * ∑ S ∈ (Finset.univ : Finset (Fin r)).powerset, chi S a * chi S b * chi S f := by
  have h1 : (if ∀ k, xor (a k) (b k) = f k then (1 : ℝ) else 0) = ∏ k, (if xor (a k) (b k) = f k then (1 : ℝ) else 0) := by
    rw [Finset.prod_ite_zero]
    simp
  rw [h1]
  simp only [xor_indicator]
  have h2 : ∏ k : Fin r, (1 + sgb (a k) * sgb (b k) * sgb (f k)) / 2
      = (1 / 2) ^ r * ∏ k : Fin r, (1 + sgb (a k) * sgb (b k) * sgb (f k)) := by
    rw [Finset.prod_div_distrib, Finset.prod_const, Finset.card_univ, Fintype.card_fin]
    rw [one_div, inv_pow]; ring
  rw [h2, Finset.prod_one_add]
  congr 1
  refine Finset.sum_congr rfl fun S _ => ?_
  unfold chi
  rw [Finset.prod_mul_distrib, Finset.prod_mul_distrib]

end Fourier


section ProjStrategy
variable {Q R : Type*} {An : Type*} [Fintype An] [DecidableEq An] {d : Type*} [Fintype d] [DecidableEq d]

/-- a quantum strategy with projective measurements: state `ρ`, for every question `q` of Alice orthogonal projectors
    `P q a` (answers `a`) summing to 1, likewise `Qm s b` for Bob, and Alice's projectors commute with Bob's -/
structure IsProjStrategy (ρ : Matrix d d ℂ) (P : Q → An → Matrix d d ℂ) (Qm : R → An → Matrix d d ℂ) : Prop where
  psd : ρ.PosSemidef
  tr_one : ρ.trace = 1
  P_herm : ∀ q a, (P q a).IsHermitian
  P_orth : ∀ q a a', P q a * P q a' = if a = a' then P q a else 0
  P_sum : ∀ q, ∑ a, P q a = 1
  Q_herm : ∀ s b, (Qm s b).IsHermitian
  Q_orth : ∀ s b b', Qm s b * Qm s b' = if b = b' then Qm s b else 0
  Q_sum : ∀ s, ∑ b, Qm s b = 1
  comm : ∀ q a s b, P q a * Qm s b = Qm s b * P q a

/-- the ±1 observable `Σ_a χ(a) P_a` of a sign function `χ` on the answers -/
def signObs (χ : An → ℝ) (P : An → Matrix d d ℂ) : Matrix d d ℂ := ∑ a, (χ a : ℂ) • P a

omit [DecidableEq An] [Fintype d] [DecidableEq d] in
theorem signObs_herm (χ : An → ℝ) (P : An → Matrix d d ℂ) (h : ∀ a, (P a).IsHermitian) : (signObs χ P).IsHermitian := by
  unfold signObs Matrix.IsHermitian
  rw [conjTranspose_sum]
  refine Finset.sum_congr rfl fun a _ => ?_
  rw [conjTranspose_smul, (h a).eq]; simp

omit [DecidableEq An] [DecidableEq d] in
theorem signObs_mul (χ χ' : An → ℝ) (P P' : An → Matrix d d ℂ) :
    signObs χ P * signObs χ' P' = ∑ a, ∑ a', ((χ a : ℂ) * (χ' a' : ℂ)) • (P a * P' a') := by
  unfold signObs
  rw [Finset.sum_mul]
  refine Finset.sum_congr rfl fun a _ => ?_
  rw [Finset.mul_sum]
  refine Finset.sum_congr rfl fun a' _ => ?_
  rw [smul_mul_assoc, mul_smul_comm, smul_smul]

theorem signObs_sq (χ : An → ℝ) (hχ : ∀ a, χ a * χ a = 1) (P : An → Matrix d d ℂ)
    (horth : ∀ a a', P a * P a' = if a = a' then P a else 0) (hsum : ∑ a, P a = 1) :
    signObs χ P * signObs χ P = 1 := by
  rw [signObs_mul, ← hsum]
  refine Finset.sum_congr rfl fun a _ => ?_
  rw [Finset.sum_eq_single a]
  · rw [horth, if_pos rfl]
    have : ((χ a : ℂ) * (χ a : ℂ)) = 1 := by exact_mod_cast hχ a
    rw [this, one_smul]
  · intro a' _ hne
    rw [horth, if_neg (Ne.symm hne), smul_zero]
  · intro h; exact absurd (Finset.mem_univ a) h

omit [DecidableEq An] [DecidableEq d] in
theorem signObs_comm (χ χ' : An → ℝ) (P P' : An → Matrix d d ℂ) (h : ∀ a a', P a * P' a' = P' a' * P a) :
    signObs χ P * signObs χ' P' = signObs χ' P' * signObs χ P := by
  rw [signObs_mul, signObs_mul, Finset.sum_comm]
  refine Finset.sum_congr rfl fun a' _ => Finset.sum_congr rfl fun a _ => ?_
  rw [h, mul_comm]

/-- the sign observables of a projective strategy form a strategy with ±1 observables -/
theorem isStrategy_signObs {ρ : Matrix d d ℂ} {P : Q → An → Matrix d d ℂ} {Qm : R → An → Matrix d d ℂ}
    (h : IsProjStrategy ρ P Qm) (χ χ' : An → ℝ) (hχ : ∀ a, χ a * χ a = 1) (hχ' : ∀ a, χ' a * χ' a = 1) :
    IsStrategy ρ (fun q => signObs χ (P q)) (fun s => signObs χ' (Qm s)) where
  psd := h.psd
  tr_one := h.tr_one
  A_herm := fun q => signObs_herm χ _ (h.P_herm q)
  A_sq := fun q => signObs_sq χ hχ _ (h.P_orth q) (h.P_sum q)
  B_herm := fun s => signObs_herm χ' _ (h.Q_herm s)
  B_sq := fun s => signObs_sq χ' hχ' _ (h.Q_orth s) (h.Q_sum s)
  comm := fun q s => signObs_comm χ χ' _ _ (fun a b => h.comm q a s b)

omit [DecidableEq An] [DecidableEq d] in
/-- `Σ_{a,b} χ(a) χ'(b) Re tr(ρ P_a Q_b) = Re tr(ρ A B)` -/
theorem corr_signObs (ρ : Matrix d d ℂ) (χ χ' : An → ℝ) (P P' : An → Matrix d d ℂ) :
    ∑ a, ∑ b, χ a * χ' b * (ρ * P a * P' b).trace.re = (ρ * signObs χ P * signObs χ' P').trace.re := by
  rw [Matrix.mul_assoc ρ, signObs_mul, Finset.mul_sum, trace_sum, Complex.re_sum]
  refine Finset.sum_congr rfl fun a _ => ?_
  rw [Finset.mul_sum, trace_sum, Complex.re_sum]
  refine Finset.sum_congr rfl fun b _ => ?_
  rw [Matrix.mul_smul, trace_smul, smul_eq_mul, ← Complex.ofReal_mul, Complex.re_ofReal_mul, Matrix.mul_assoc]

end ProjStrategy


section GeoStrategy
variable {X Y : Type*} [Fintype X] [Fintype Y] [DecidableEq X] [DecidableEq Y] {d : Type*} [Fintype d] [DecidableEq d]

/-- quantum strategies obey weak duality in the geometric-mean form -/
theorem quantum_xor_le_geo (D : X → Y → ℝ) (a : X → ℝ) (b : Y → ℝ) (ρ : Matrix d d ℂ)
    (A : X → Matrix d d ℂ) (B : Y → Matrix d d ℂ) (h : IsStrategy ρ A B) (hZ : (tsirelsonDual D a b).PosSemidef) :
    ∑ x, ∑ y, D x y * corrQ ρ A B x y ≤ Real.sqrt ((∑ x, a x) * ∑ y, b y) := by
  have hO : ∀ i, (Sum.elim A B i)ᴴ * Sum.elim A B i = 1 := by
    rintro (x | y)
    · simp only [Sum.elim_inl]; rw [(h.A_herm x).eq, h.A_sq]
    · simp only [Sum.elim_inr]; rw [(h.B_herm y).eq, h.B_sq]
  have hΓ := isMoment_momentMatrix ρ h.psd h.tr_one (Sum.elim A B) hO
  have := tsirelson_weak_duality_geo D a b _ hΓ hZ
  simpa [momentMatrix, corrQ, (h.A_herm _).eq] using this

end GeoStrategy

section Repetition
variable {X Y : Type*} [Fintype X] [Fintype Y] [DecidableEq X] [DecidableEq Y] {d : Type*} [Fintype d] [DecidableEq d]
  {r : Nat}

/-- cost matrix `D[x,y] = π(x,y) (-1)^{f(x,y)}` for a Boolean predicate -/
def costB (π : X → Y → ℝ) (f : X → Y → Bool) : X → Y → ℝ := fun x y => π x y * sgb (f x y)

/-- winning probability of a strategy in the `r`-fold AND-repetition of the XOR game `(π, f)`: questions `x⃗, y⃗` drawn from
    `π^{⊗r}`, answers `a⃗, b⃗ ∈ {0,1}^r`, the players win iff `a_k ⊕ b_k = f(x_k, y_k)` in EVERY round -/
noncomputable def andWin (π : X → Y → ℝ) (f : X → Y → Bool) (ρ : Matrix d d ℂ)
    (P : (Fin r → X) → (Fin r → Bool) → Matrix d d ℂ) (Qm : (Fin r → Y) → (Fin r → Bool) → Matrix d d ℂ) : ℝ :=
  ∑ x, ∑ y, (∏ k, π (x k) (y k)) *
    ∑ a, ∑ b, (if ∀ k, xor (a k) (b k) = f (x k) (y k) then (1 : ℝ) else 0) * (ρ * P x a * Qm y b).trace.re

/-- the factor of round `k` in the cost matrix of the subset `S`: the game itself if `k ∈ S`, the trivial game otherwise -/
def roundCost (π : X → Y → ℝ) (f : X → Y → Bool) (S : Finset (Fin r)) (k : Fin r) : X → Y → ℝ :=
  if k ∈ S then costB π f else π

omit [Fintype X] [Fintype Y] [DecidableEq X] [DecidableEq Y] in
theorem piCost_roundCost (π : X → Y → ℝ) (f : X → Y → Bool) (S : Finset (Fin r)) (x : Fin r → X) (y : Fin r → Y) :
    piCost (roundCost π f S) x y = (∏ k, π (x k) (y k)) * chi S (fun k => f (x k) (y k)) := by
  unfold piCost chi
  rw [← Finset.prod_ite_mem_eq S, ← Finset.prod_mul_distrib]
  refine Finset.prod_congr rfl fun k _ => ?_
  unfold roundCost costB
  split <;> simp

omit [DecidableEq X] [DecidableEq Y] [DecidableEq d] in
/-- Fourier expansion of the winning probability -/
theorem andWin_fourier (π : X → Y → ℝ) (f : X → Y → Bool) (ρ : Matrix d d ℂ)
    (P : (Fin r → X) → (Fin r → Bool) → Matrix d d ℂ) (Qm : (Fin r → Y) → (Fin r → Bool) → Matrix d d ℂ) :
    andWin π f ρ P Qm = (1 / 2) ^ r * ∑ S ∈ (Finset.univ : Finset (Fin r)).powerset,
      ∑ x, ∑ y, piCost (roundCost π f S) x y *
        corrQ ρ (fun x => signObs (chi S) (P x)) (fun y => signObs (chi S) (Qm y)) x y := by
  unfold andWin
  have inner : ∀ x y, (∑ a, ∑ b, (if ∀ k, xor (a k) (b k) = f (x k) (y k) then (1 : ℝ) else 0) * (ρ * P x a * Qm y b).trace.re)
      = (1 / 2) ^ r * ∑ S ∈ (Finset.univ : Finset (Fin r)).powerset, chi S (fun k => f (x k) (y k)) *
          corrQ ρ (fun x => signObs (chi S) (P x)) (fun y => signObs (chi S) (Qm y)) x y := by
    intro x y
    simp only [corrQ, ← corr_signObs, and_indicator, Finset.mul_sum, Finset.sum_mul]
    have h1 : ∀ a : Fin r → Bool, ∑ b : Fin r → Bool, ∑ S ∈ (Finset.univ : Finset (Fin r)).powerset,
          (1 / 2) ^ r * (chi S a * chi S b * chi S fun k => f (x k) (y k)) * (ρ * P x a * Qm y b).trace.re
        = ∑ S ∈ (Finset.univ : Finset (Fin r)).powerset, ∑ b : Fin r → Bool,
          (1 / 2) ^ r * (chi S a * chi S b * chi S fun k => f (x k) (y k)) * (ρ * P x a * Qm y b).trace.re :=
      fun a => Finset.sum_comm
    simp only [h1]
    rw [Finset.sum_comm]
    refine Finset.sum_congr rfl fun S _ => Finset.sum_congr rfl fun a _ => Finset.sum_congr rfl fun b _ => ?_
    ring
  simp only [inner, piCost_roundCost]
  rw [Finset.mul_sum]
  have h2 : ∀ x : Fin r → X, ∑ y : Fin r → Y, (∏ k, π (x k) (y k)) * ((1 / 2) ^ r *
        ∑ S ∈ (Finset.univ : Finset (Fin r)).powerset, (chi S fun k => f (x k) (y k)) *
          corrQ ρ (fun x => signObs (chi S) (P x)) (fun y => signObs (chi S) (Qm y)) x y)
      = ∑ S ∈ (Finset.univ : Finset (Fin r)).powerset, ∑ y : Fin r → Y, (1 / 2) ^ r * ((∏ k, π (x k) (y k)) *
          (chi S fun k => f (x k) (y k)) * corrQ ρ (fun x => signObs (chi S) (P x)) (fun y => signObs (chi S) (Qm y)) x y) := by
    intro x
    rw [Finset.sum_comm]
    refine Finset.sum_congr rfl fun y _ => ?_
    rw [Finset.mul_sum, Finset.mul_sum]
    refine Finset.sum_congr rfl fun S _ => ?_
    ring
  simp only [h2]
  rw [Finset.sum_comm]
  refine Finset.sum_congr rfl fun S _ => ?_
  rw [Finset.mul_sum]
  refine Finset.sum_congr rfl fun x _ => ?_
  rw [Finset.mul_sum]

/-- the dual certificate of round `k` for the subset `S` -/
noncomputable def roundA (π : X → Y → ℝ) (a : X → ℝ) (S : Finset (Fin r)) (k : Fin r) : X → ℝ :=
  if k ∈ S then a else fun x => ∑ y, π x y
/-- the dual certificate of round `k` for the subset `S` -/
noncomputable def roundB (π : X → Y → ℝ) (b : Y → ℝ) (S : Finset (Fin r)) (k : Fin r) : Y → ℝ :=
  if k ∈ S then b else fun y => ∑ x, π x y

/-- every Fourier term is bounded by `√(Σa·Σb)^{|S|}` -/
theorem fourier_term_le (π : X → Y → ℝ) (f : X → Y → Bool) (hπ0 : ∀ x y, 0 ≤ π x y) (hπ1 : ∑ x, ∑ y, π x y = 1)
    (a : X → ℝ) (b : Y → ℝ) (hZ : (tsirelsonDual (costB π f) a b).PosSemidef) (S : Finset (Fin r))
    (ρ : Matrix d d ℂ) (A : (Fin r → X) → Matrix d d ℂ) (B : (Fin r → Y) → Matrix d d ℂ) (h : IsStrategy ρ A B) :
    ∑ x, ∑ y, piCost (roundCost π f S) x y * corrQ ρ A B x y ≤ Real.sqrt ((∑ x, a x) * ∑ y, b y) ^ S.card := by
  obtain ⟨ha, hb⟩ := tsirelsonDual_diag_nonneg hZ
  have hA : 0 ≤ ∑ x, a x := Finset.sum_nonneg fun x _ => ha x
  have hB : 0 ≤ ∑ y, b y := Finset.sum_nonneg fun y _ => hb y
  have hk : ∀ k, (tsirelsonDual (roundCost π f S k) (roundA π a S k) (roundB π b S k)).PosSemidef := by
    intro k
    unfold roundCost roundA roundB
    split
    · exact hZ
    · exact tsirelsonDual_marginals_psd π hπ0
  have hbound := quantum_xor_le_geo _ _ _ ρ A B h (tsirelsonDual_pi_psd _ _ _ hk)
  have hπ1' : ∑ y, ∑ x, π x y = 1 := by rw [Finset.sum_comm]; exact hπ1
  have eA : ∑ x, piVec (roundA π a S) x = (∑ x, a x) ^ S.card := by
    rw [piVec_sum, ← Finset.prod_const, ← Finset.prod_ite_mem_eq S]
    refine Finset.prod_congr rfl fun k _ => ?_
    unfold roundA
    split
    · rfl
    · exact hπ1
  have eB : ∑ y, piVec (roundB π b S) y = (∑ y, b y) ^ S.card := by
    rw [piVec_sum, ← Finset.prod_const, ← Finset.prod_ite_mem_eq S]
    refine Finset.prod_congr rfl fun k _ => ?_
    unfold roundB
    split
    · rfl
    · exact hπ1'
  rw [eA, eB] at hbound
  refine le_trans hbound ?_
  rw [Real.sqrt_le_iff]
  refine ⟨pow_nonneg (Real.sqrt_nonneg _) _, ?_⟩
  rw [← pow_mul, mul_comm S.card 2, pow_mul, Real.sq_sqrt (mul_nonneg hA hB), mul_pow]

/-- **Upper bound for the `r`-fold repetition.**  From a dual certificate `(a, b)` of the single XOR game, every strategy with
    projective measurements (any dimension) wins the `r`-fold AND-repetition with probability at most
    `((1 + √(Σa·Σb))/2)^r ≤ (1/2 + 1/2·(Σa + Σb)/2)^r`. -/
theorem andWin_le (π : X → Y → ℝ) (f : X → Y → Bool) (hπ0 : ∀ x y, 0 ≤ π x y) (hπ1 : ∑ x, ∑ y, π x y = 1)
    (a : X → ℝ) (b : Y → ℝ) (hZ : (tsirelsonDual (costB π f) a b).PosSemidef)
    (ρ : Matrix d d ℂ) (P : (Fin r → X) → (Fin r → Bool) → Matrix d d ℂ) (Qm : (Fin r → Y) → (Fin r → Bool) → Matrix d d ℂ)
    (h : IsProjStrategy ρ P Qm) :
    andWin π f ρ P Qm ≤ ((1 + Real.sqrt ((∑ x, a x) * ∑ y, b y)) / 2) ^ r ∧
    ((1 + Real.sqrt ((∑ x, a x) * ∑ y, b y)) / 2) ^ r ≤ (1 / 2 + (∑ x, a x + ∑ y, b y) / 2 / 2) ^ r := by
  obtain ⟨ha, hb⟩ := tsirelsonDual_diag_nonneg hZ
  have hA : 0 ≤ ∑ x, a x := Finset.sum_nonneg fun x _ => ha x
  have hB : 0 ≤ ∑ y, b y := Finset.sum_nonneg fun y _ => hb y
  set g := Real.sqrt ((∑ x, a x) * ∑ y, b y) with hg
  have hg0 : 0 ≤ g := Real.sqrt_nonneg _
  constructor
  · rw [andWin_fourier]
    have hterm : ∀ S ∈ (Finset.univ : Finset (Fin r)).powerset,
        ∑ x, ∑ y, piCost (roundCost π f S) x y *
          corrQ ρ (fun x => signObs (chi S) (P x)) (fun y => signObs (chi S) (Qm y)) x y ≤ g ^ S.card * 1 ^ (r - S.card) := by
      intro S _
      rw [one_pow, mul_one]
      exact fourier_term_le π f hπ0 hπ1 a b hZ S ρ _ _ (isStrategy_signObs h (chi S) (chi S) (chi_sq S) (chi_sq S))
    have hsum := Finset.sum_le_sum hterm
    have hbin := Finset.sum_pow_mul_eq_add_pow g 1 (Finset.univ : Finset (Fin r))
    rw [Finset.card_univ, Fintype.card_fin] at hbin
    rw [hbin] at hsum
    calc (1 / 2) ^ r * _ ≤ (1 / 2) ^ r * (g + 1) ^ r := mul_le_mul_of_nonneg_left hsum (by positivity)
      _ = ((1 + g) / 2) ^ r := by rw [← mul_pow]; congr 1; ring
  · apply pow_le_pow_left₀ (by linarith)
    have := sqrt_mul_le_half_add _ _ hA hB
    linarith

end Repetition


section CheckerRep
open EMat
variable {m n k : Nat} {d : Type*} [Fintype d] [DecidableEq d]

/-- the predicate bit as a Boolean -/
def predBit (pred : Nat → Nat → Nat) : Fin m → Fin n → Bool := fun x y => decide (pred x.val y.val % 2 = 1)

theorem castD_dMat (prob : Nat → Nat → Rat) (pred : Nat → Nat → Nat) :
    (castD (dMat prob pred) : Fin m → Fin n → ℝ) = costB (castD prob) (predBit pred) := by
  funext x y
  simp only [castD, dMat, costB, predBit, negOnePow, sgb]
  by_cases h : pred x.val y.val % 2 = 0
  · have h' : ¬ pred x.val y.val % 2 = 1 := by omega
    simp [h]
  · have h' : pred x.val y.val % 2 = 1 := by omega
    simp [h']

theorem totalProb_cast (prob : Nat → Nat → Rat) :
    ((totalProb m n prob : Rat) : ℝ) = ∑ x : Fin m, ∑ y : Fin n, (castD prob : Fin m → Fin n → ℝ) x y := by
  unfold totalProb
  rw [sumN_cast_fin]
  refine Finset.sum_congr rfl fun x _ => ?_
  rw [sumN_cast_fin]
  rfl

/-- an accepted dual certificate of the single game bounds the winning probability of every projective strategy in the
    `r`-fold repetition by the value `quantum_value` reports for `reps = r` at that certificate -/
theorem checkXorDual_repetition (prob : Nat → Nat → Rat) (pred : Nat → Nat → Nat)
    (hp0 : ∀ x y, x < m → y < n → 0 ≤ prob x y) (hp1 : totalProb m n prob = 1)
    (a b : Nat → Rat) (L : EMat (m + n) k) (hi : Rat) (h : checkXorDual m n (dMat prob pred) a b L = some hi)
    (r : Nat) (ρ : Matrix d d ℂ) (P : (Fin r → Fin m) → (Fin r → Bool) → Matrix d d ℂ)
    (Qm : (Fin r → Fin n) → (Fin r → Bool) → Matrix d d ℂ) (hs : IsProjStrategy ρ P Qm) :
    andWin (castD prob) (predBit pred) ρ P Qm ≤ ((xorValue (2 * hi) r : Rat) : ℝ) := by
  obtain ⟨hZ, hv⟩ := checkXorDual_sound' (dMat prob pred) a b L hi h
  rw [castD_dMat] at hZ
  have hπ0 : ∀ (x : Fin m) (y : Fin n), 0 ≤ (castD prob : Fin m → Fin n → ℝ) x y := fun x y => by
    simp only [castD]; exact_mod_cast hp0 x.val y.val x.isLt y.isLt
  have hπ1 : ∑ x : Fin m, ∑ y : Fin n, (castD prob : Fin m → Fin n → ℝ) x y = 1 := by
    rw [← totalProb_cast, hp1]; simp
  obtain ⟨h1, h2⟩ := andWin_le (castD prob) (predBit pred) hπ0 hπ1 _ _ hZ ρ P Qm hs
  refine le_trans h1 (le_trans h2 (le_of_eq ?_))
  rw [hv]
  simp only [xorValue, powN_eq_pow]
  push_cast
  congr 1
  ring

end CheckerRep
end Toq.Xor
