import Toq.Proofs.MatrixOps
import Mathlib.Analysis.Matrix.Spectrum
import Mathlib.Analysis.Matrix.PosDef
import Mathlib.LinearAlgebra.Matrix.PosDef
import Mathlib.LinearAlgebra.Matrix.Rank
import Mathlib.Tactic.Ring
import Mathlib.Tactic.Linarith
/-!
# Spectral facts behind the C16 predicates (all sizes)

The exact deciders of `Toq/Model/MatrixPreds.lean` avoid eigenvalues (`Tr ρ² = 1`, `A + μ·1` PSD, …) while the
Python code (`is_pure`, `is_positive_semidefinite`, `kp_norm`, `vectors_from_gram_matrix`, `trace_norm`) is written
with eigenvalues / singular values.  This file proves, for every size, that the two readings coincide.
Eigenvalues are Mathlib's `Matrix.IsHermitian.eigenvalues` (spectral theorem `A = U · diag(λ) · Uᴴ`).

1. purity: `Tr ρ² = 1` ⇔ some / the largest eigenvalue is 1 ⇔ rank one; `Tr ρ² ≤ 1 − 2m` ⇒ all eigenvalues `≤ 1 − m`;
2. `A + t·1` PSD ⇔ every eigenvalue `≥ −t`;
3. Frobenius norm² = `Tr AᴴA` = sum of ALL squared singular values (the `kp_norm` shortcut `k ≥ min(shape)`, `p = 2`);
4. Gram matrices are PSD; Cholesky / eigen-branch round trip of `vectors_from_gram_matrix` as pure algebra;
5. trace norm of a Hermitian matrix = `Σ |λ_i|`, of a PSD matrix = its trace, of a density matrix = 1.
-/

open Matrix Unitary
open scoped ComplexOrder

namespace Toq.MatrixSpectral

variable {n : Type*} [Fintype n] [DecidableEq n]

/-! ## 0. The spectral theorem in plain matrix form -/

/-- Spectral decomposition of a Hermitian matrix written with ordinary products: `A = U · diag(λ) · Uᴴ`. -/
theorem spectral_mul (A : Matrix n n ℂ) (hA : A.IsHermitian) :
    A = (hA.eigenvectorUnitary : Matrix n n ℂ) *
        diagonal (fun i => ((hA.eigenvalues i : ℝ) : ℂ)) *
        star (hA.eigenvectorUnitary : Matrix n n ℂ) := by
  have h := hA.spectral_theorem
  rw [conjStarAlgAut_apply] at h
  exact h

/-- The trace is invariant under unitary conjugation: `Tr (U D Uᴴ) = Tr D`. -/
theorem conj_trace (U : unitaryGroup n ℂ) (D : Matrix n n ℂ) :
    ((U : Matrix n n ℂ) * D * star (U : Matrix n n ℂ)).trace = D.trace := by
  rw [trace_mul_cycle, coe_star_mul_self, one_mul]

/-- Unitary conjugation is multiplicative: `(U D Uᴴ)(U E Uᴴ) = U (D E) Uᴴ`. -/
theorem conj_mul_conj (U : unitaryGroup n ℂ) (D E : Matrix n n ℂ) :
    ((U : Matrix n n ℂ) * D * star (U : Matrix n n ℂ)) *
        ((U : Matrix n n ℂ) * E * star (U : Matrix n n ℂ))
      = (U : Matrix n n ℂ) * (D * E) * star (U : Matrix n n ℂ) := by
  have h : star (U : Matrix n n ℂ) * (U : Matrix n n ℂ) = 1 := coe_star_mul_self U
  calc _ = (U : Matrix n n ℂ) * D * (star (U : Matrix n n ℂ) * (U : Matrix n n ℂ)) * E *
            star (U : Matrix n n ℂ) := by simp only [mul_assoc]
    _ = _ := by rw [h]; simp only [mul_one, mul_assoc]

/-! ## 1. Purity (`is_pure`: "largest eigenvalue is 1" versus the decider's `Tr ρ² = 1`) -/

/-- (1a) `Tr A² = Σ λ_i²` for a Hermitian matrix (as a complex number). -/
theorem trace_sq_eq_sum_sq (A : Matrix n n ℂ) (hA : A.IsHermitian) :
    (A * A).trace = ∑ i, ((hA.eigenvalues i : ℝ) : ℂ) ^ 2 := by
  conv_lhs => rw [spectral_mul A hA]
  rw [conj_mul_conj, conj_trace, diagonal_mul_diagonal, trace_diagonal]
  simp [sq]

/-- (1a) `Re Tr A² = Σ λ_i²` for a Hermitian matrix (the real number the decider `pureV` computes). -/
theorem trace_sq_re (A : Matrix n n ℂ) (hA : A.IsHermitian) :
    ((A * A).trace).re = ∑ i, (hA.eigenvalues i) ^ 2 := by
  rw [trace_sq_eq_sum_sq A hA, Complex.re_sum]
  refine Finset.sum_congr rfl fun i _ => ?_
  rw [← Complex.ofReal_pow, Complex.ofReal_re]

/-- (1a) `Tr A = Σ λ_i` for a Hermitian matrix (complex form; Mathlib's `trace_eq_sum_eigenvalues`). -/
theorem trace_eq_sum (A : Matrix n n ℂ) (hA : A.IsHermitian) :
    A.trace = ∑ i, ((hA.eigenvalues i : ℝ) : ℂ) :=
  hA.trace_eq_sum_eigenvalues

/-- (1a) `Re Tr A = Σ λ_i` for a Hermitian matrix. -/
theorem trace_re (A : Matrix n n ℂ) (hA : A.IsHermitian) :
    (A.trace).re = ∑ i, hA.eigenvalues i := by
  rw [hA.trace_eq_sum_eigenvalues, Complex.re_sum]
  simp

/-- The eigenvalues of a trace-one Hermitian matrix sum to 1. -/
theorem sum_eigenvalues_eq_one {ρ : Matrix n n ℂ} (hρ : ρ.IsHermitian) (htr : ρ.trace = 1) :
    ∑ i, hρ.eigenvalues i = 1 := by
  rw [← trace_re ρ hρ, htr, Complex.one_re]

/-- (1d) Every eigenvalue of a density matrix (PSD, trace 1) lies in `[0, 1]`. -/
theorem eigenvalue_mem_Icc {ρ : Matrix n n ℂ} (hρ : ρ.PosSemidef) (htr : ρ.trace = 1) (i : n) :
    0 ≤ hρ.1.eigenvalues i ∧ hρ.1.eigenvalues i ≤ 1 := by
  refine ⟨hρ.eigenvalues_nonneg i, ?_⟩
  rw [← sum_eigenvalues_eq_one hρ.1 htr]
  exact Finset.single_le_sum (fun j _ => hρ.eigenvalues_nonneg j) (Finset.mem_univ i)

omit [DecidableEq n] in
/-- Real-number core of purity: a probability vector has `Σ l_i² = 1` iff it is a point mass
    (one entry is 1, all the others are 0). -/
theorem sum_sq_eq_one_iff (l : n → ℝ) (h0 : ∀ i, 0 ≤ l i) (h1 : ∑ i, l i = 1) :
    ∑ i, l i ^ 2 = 1 ↔ ∃ i, l i = 1 ∧ ∀ j, j ≠ i → l j = 0 := by
  classical
  have hle : ∀ i, l i ≤ 1 := fun i => by
    rw [← h1]; exact Finset.single_le_sum (fun j _ => h0 j) (Finset.mem_univ i)
  constructor
  · intro h
    have hz : ∑ i, (l i - l i ^ 2) = 0 := by rw [Finset.sum_sub_distrib, h, h1]; ring
    have hnn : ∀ i ∈ Finset.univ, 0 ≤ l i - l i ^ 2 := fun i _ => by nlinarith [h0 i, hle i]
    have hall := (Finset.sum_eq_zero_iff_of_nonneg hnn).1 hz
    have h01 : ∀ i, l i = 0 ∨ l i = 1 := fun i => by
      have := hall i (Finset.mem_univ i)
      have h' : l i * (l i - 1) = 0 := by nlinarith
      rcases mul_eq_zero.1 h' with h | h
      · exact Or.inl h
      · exact Or.inr (by linarith)
    have hex : ∃ i, l i = 1 := by
      by_contra hne
      push Not at hne
      have : ∑ i, l i = 0 := Finset.sum_eq_zero fun i _ => (h01 i).resolve_right (hne i)
      rw [h1] at this; exact one_ne_zero this
    obtain ⟨i, hi⟩ := hex
    refine ⟨i, hi, fun j hj => ?_⟩
    have hs : l i + ∑ k ∈ Finset.univ.erase i, l k = 1 := by
      rw [Finset.add_sum_erase _ _ (Finset.mem_univ i)]; exact h1
    have hz' : ∑ k ∈ Finset.univ.erase i, l k = 0 := by linarith
    exact (Finset.sum_eq_zero_iff_of_nonneg (fun k _ => h0 k)).1 hz' j
      (Finset.mem_erase.2 ⟨hj, Finset.mem_univ j⟩)
  · rintro ⟨i, hi, hz⟩
    rw [Finset.sum_eq_single i (fun j _ hj => by rw [hz j hj]; ring)
      (fun h => absurd (Finset.mem_univ i) h), hi]
    ring

/-- (1b) For a density matrix, `Tr ρ² = 1` (the decider's test) iff some eigenvalue equals 1. -/
theorem purity_iff_exists_eigenvalue_one {ρ : Matrix n n ℂ} (hρ : ρ.PosSemidef)
    (htr : ρ.trace = 1) :
    (ρ * ρ).trace = 1 ↔ ∃ i, hρ.1.eigenvalues i = 1 := by
  have hsum := sum_eigenvalues_eq_one hρ.1 htr
  have hcore := sum_sq_eq_one_iff hρ.1.eigenvalues hρ.eigenvalues_nonneg hsum
  constructor
  · intro h
    have : ∑ i, hρ.1.eigenvalues i ^ 2 = 1 := by rw [← trace_sq_re ρ hρ.1, h, Complex.one_re]
    obtain ⟨i, hi, _⟩ := hcore.1 this
    exact ⟨i, hi⟩
  · rintro ⟨i, hi⟩
    have hz : ∀ j, j ≠ i → hρ.1.eigenvalues j = 0 := by
      intro j hj
      have hs : hρ.1.eigenvalues i + ∑ k ∈ Finset.univ.erase i, hρ.1.eigenvalues k = 1 := by
        rw [Finset.add_sum_erase _ _ (Finset.mem_univ i)]; exact hsum
      have hz' : ∑ k ∈ Finset.univ.erase i, hρ.1.eigenvalues k = 0 := by linarith
      exact (Finset.sum_eq_zero_iff_of_nonneg (fun k _ => hρ.eigenvalues_nonneg k)).1 hz' j
        (Finset.mem_erase.2 ⟨hj, Finset.mem_univ j⟩)
    have h2 := hcore.2 ⟨i, hi, hz⟩
    rw [trace_sq_eq_sum_sq ρ hρ.1]
    have : ((∑ i, hρ.1.eigenvalues i ^ 2 : ℝ) : ℂ) = 1 := by rw [h2]; simp
    rw [← this]; push_cast; rfl

/-- (1b) For a density matrix, `Tr ρ² = 1` iff the LARGEST eigenvalue is 1 — the quantity
    `np.max(eigs)` that `is_pure` compares with 1. -/
theorem purity_iff_isGreatest {ρ : Matrix n n ℂ} (hρ : ρ.PosSemidef) (htr : ρ.trace = 1) :
    (ρ * ρ).trace = 1 ↔ IsGreatest (Set.range hρ.1.eigenvalues) 1 := by
  rw [purity_iff_exists_eigenvalue_one hρ htr]
  constructor
  · rintro ⟨i, hi⟩
    exact ⟨⟨i, hi⟩, by rintro _ ⟨j, rfl⟩; exact (eigenvalue_mem_Icc hρ htr j).2⟩
  · rintro ⟨⟨i, hi⟩, _⟩
    exact ⟨i, hi⟩

/-- (1b) A density matrix with `Tr ρ² = 1` has one eigenvalue 1 and all other eigenvalues 0. -/
theorem pure_other_eigenvalues_zero {ρ : Matrix n n ℂ} (hρ : ρ.PosSemidef) (htr : ρ.trace = 1)
    (hp : (ρ * ρ).trace = 1) :
    ∃ i, hρ.1.eigenvalues i = 1 ∧ ∀ j, j ≠ i → hρ.1.eigenvalues j = 0 := by
  have hsum := sum_eigenvalues_eq_one hρ.1 htr
  refine (sum_sq_eq_one_iff hρ.1.eigenvalues hρ.eigenvalues_nonneg hsum).1 ?_
  rw [← trace_sq_re ρ hρ.1, hp, Complex.one_re]

/-- (1b) For a density matrix, `Tr ρ² = 1` iff `ρ` has rank one (the documented meaning of "pure"). -/
theorem purity_iff_rank_one {ρ : Matrix n n ℂ} (hρ : ρ.PosSemidef) (htr : ρ.trace = 1) :
    (ρ * ρ).trace = 1 ↔ ρ.rank = 1 := by
  rw [hρ.1.rank_eq_card_non_zero_eigs]
  constructor
  · intro hp
    obtain ⟨i, hi, hz⟩ := pure_other_eigenvalues_zero hρ htr hp
    rw [Fintype.card_eq_one_iff]
    refine ⟨⟨i, by rw [hi]; exact one_ne_zero⟩, fun ⟨j, hj⟩ => ?_⟩
    apply Subtype.ext
    by_contra hne
    exact hj (hz j hne)
  · intro hc
    obtain ⟨⟨i, hi⟩, huniq⟩ := Fintype.card_eq_one_iff.1 hc
    rw [purity_iff_exists_eigenvalue_one hρ htr]
    refine ⟨i, ?_⟩
    have hsum := sum_eigenvalues_eq_one hρ.1 htr
    rw [Finset.sum_eq_single i (fun j _ hj => ?_) (fun h => absurd (Finset.mem_univ i) h)] at hsum
    · exact hsum
    · by_contra hne
      exact hj (congrArg Subtype.val (huniq ⟨j, hne⟩))

/-- (1c) The decider's "no" test: if a PSD matrix has `Re Tr ρ² ≤ 1 − 2m` with `m ≥ 0`, then every
    eigenvalue (in particular the largest one, which `is_pure` compares with 1) is `≤ 1 − m`.
    (No trace hypothesis is needed: `λ² ≤ Σλ² ≤ 1 − 2m ≤ (1 − m)²`.) -/
theorem eigenvalue_le_of_purity_le {ρ : Matrix n n ℂ} (hρ : ρ.PosSemidef)
    {m : ℝ} (hm : 0 ≤ m) (hp : ((ρ * ρ).trace).re ≤ 1 - 2 * m) (i : n) :
    hρ.1.eigenvalues i ≤ 1 - m := by
  rw [trace_sq_re ρ hρ.1] at hp
  have h1 : hρ.1.eigenvalues i ^ 2 ≤ ∑ j, hρ.1.eigenvalues j ^ 2 :=
    Finset.single_le_sum (f := fun j => hρ.1.eigenvalues j ^ 2) (fun j _ => sq_nonneg _)
      (Finset.mem_univ i)
  have h0 := hρ.eigenvalues_nonneg i
  have hm1 : m ≤ 1 / 2 := by nlinarith [sq_nonneg (hρ.1.eigenvalues i)]
  by_contra hlt
  push Not at hlt
  nlinarith

/-! ## 2. Shifted positive semidefiniteness (`is_positive_semidefinite`: `all(eigvalsh(A) ≥ −atol)`) -/

/-- `A + t·1 = U · diag(λ + t) · Uᴴ`: shifting by a multiple of the identity shifts the eigenvalues. -/
theorem shift_spectral (A : Matrix n n ℂ) (hA : A.IsHermitian) (t : ℝ) :
    A + (t : ℂ) • (1 : Matrix n n ℂ) = (hA.eigenvectorUnitary : Matrix n n ℂ) *
        diagonal (fun i => ((hA.eigenvalues i + t : ℝ) : ℂ)) *
        star (hA.eigenvectorUnitary : Matrix n n ℂ) := by
  have hd : diagonal (fun i => ((hA.eigenvalues i + t : ℝ) : ℂ)) =
      diagonal (fun i => ((hA.eigenvalues i : ℝ) : ℂ)) + (t : ℂ) • (1 : Matrix n n ℂ) := by
    ext i j
    by_cases h : i = j <;> simp [diagonal, h, one_apply]
  rw [hd, mul_add, add_mul, ← spectral_mul A hA, mul_smul_comm, smul_mul_assoc, mul_one,
    mul_star_self_of_mem hA.eigenvectorUnitary.prop]

/-- (2) For Hermitian `A` and real `t`: `A + t·1` is PSD iff every eigenvalue of `A` is `≥ −t`
    (with `t = atol` this is exactly the eigenvalue test of `is_positive_semidefinite`). -/
theorem posSemidef_shift_iff (A : Matrix n n ℂ) (hA : A.IsHermitian) (t : ℝ) :
    (A + (t : ℂ) • (1 : Matrix n n ℂ)).PosSemidef ↔ ∀ i, -t ≤ hA.eigenvalues i := by
  rw [shift_spectral A hA t, isUnit_coe.posSemidef_star_right_conjugate_iff,
    posSemidef_diagonal_iff]
  refine forall_congr' fun i => ?_
  rw [Complex.zero_le_real]
  constructor <;> intro h <;> linarith

/-- (2) The decider's "no" test: `A + t·1` is NOT PSD iff some eigenvalue of `A` is `< −t`. -/
theorem not_posSemidef_shift_iff (A : Matrix n n ℂ) (hA : A.IsHermitian) (t : ℝ) :
    ¬ (A + (t : ℂ) • (1 : Matrix n n ℂ)).PosSemidef ↔ ∃ i, hA.eigenvalues i < -t := by
  rw [posSemidef_shift_iff A hA t]
  push Not
  rfl

/-- (2) The decider's "yes" test: a Hermitian matrix is PSD iff all its eigenvalues are `≥ 0`. -/
theorem posSemidef_iff_eigenvalues (A : Matrix n n ℂ) (hA : A.IsHermitian) :
    A.PosSemidef ↔ ∀ i, 0 ≤ hA.eigenvalues i := by
  have := posSemidef_shift_iff A hA 0
  simpa using this

/-- (2) Monotonicity in the tolerance: a PSD matrix passes the eigenvalue test for every `atol ≥ 0`. -/
theorem eigenvalues_ge_neg_of_posSemidef {A : Matrix n n ℂ} (hA : A.PosSemidef) {t : ℝ}
    (ht : 0 ≤ t) (i : n) : -t ≤ hA.1.eigenvalues i := by
  have := hA.eigenvalues_nonneg i
  linarith

/-! ## 3. Frobenius shortcut of `kp_norm` (`k ≥ min(shape)` and `p = 2`) -/

section Frobenius
variable {m : Type*} [Fintype m]

omit [DecidableEq n] in
/-- (3) `Σ_{ij} |A_ij|² = Tr (Aᴴ A)` (as a complex number), for rectangular `A`. -/
theorem frobenius_sq_eq_trace (A : Matrix m n ℂ) :
    ((∑ i, ∑ j, ‖A i j‖ ^ 2 : ℝ) : ℂ) = (Aᴴ * A).trace := by
  rw [Finset.sum_comm]
  simp only [trace, diag_apply, mul_apply, conjTranspose_apply]
  push_cast
  refine Finset.sum_congr rfl fun j _ => Finset.sum_congr rfl fun i _ => ?_
  rw [← Complex.conj_mul']
  rfl

omit [DecidableEq n] in
/-- (3) `Σ_{ij} |A_ij|² = Re Tr (Aᴴ A)`. -/
theorem frobenius_sq_eq_trace_re (A : Matrix m n ℂ) :
    ∑ i, ∑ j, ‖A i j‖ ^ 2 = ((Aᴴ * A).trace).re := by
  rw [← frobenius_sq_eq_trace, Complex.ofReal_re]

/-- (3) `Σ_{ij} |A_ij|²` is the sum of all eigenvalues of `Aᴴ A`, i.e. of all squared singular values. -/
theorem frobenius_sq_eq_sum_eigenvalues (A : Matrix m n ℂ) :
    ∑ i, ∑ j, ‖A i j‖ ^ 2 = ∑ k, (isHermitian_conjTranspose_mul_self A).eigenvalues k := by
  rw [frobenius_sq_eq_trace_re, trace_re]

/-- The singular values of `A`: square roots of the eigenvalues of `Aᴴ A` (indexed by the columns; for a
    tall/wide matrix the entries beyond `min(shape)` are zeros, see `card_nonzero_singularValues_le`). -/
noncomputable def singularValue (A : Matrix m n ℂ) (k : n) : ℝ :=
  Real.sqrt ((isHermitian_conjTranspose_mul_self A).eigenvalues k)

/-- Singular values are non-negative. -/
theorem singularValue_nonneg (A : Matrix m n ℂ) (k : n) : 0 ≤ singularValue A k :=
  Real.sqrt_nonneg _

/-- The squared singular values are the eigenvalues of `Aᴴ A`. -/
theorem singularValue_sq (A : Matrix m n ℂ) (k : n) :
    singularValue A k ^ 2 = (isHermitian_conjTranspose_mul_self A).eigenvalues k :=
  Real.sq_sqrt (eigenvalues_conjTranspose_mul_self_nonneg A k)

/-- (3) `Σ_{ij} |A_ij|² = Σ_k σ_k²`. -/
theorem frobenius_sq_eq_sum_singularValue_sq (A : Matrix m n ℂ) :
    ∑ i, ∑ j, ‖A i j‖ ^ 2 = ∑ k, singularValue A k ^ 2 := by
  rw [frobenius_sq_eq_sum_eigenvalues]
  simp only [singularValue_sq]

/-- (3) The Frobenius norm is the 2-norm of ALL singular values — what `kp_norm` returns on its shortcut
    branch equals `np.linalg.norm(s_vals[:k], 2)` whenever `k ≥ min(shape)`. -/
theorem frobenius_eq_two_norm_singularValues (A : Matrix m n ℂ) :
    Real.sqrt (∑ i, ∑ j, ‖A i j‖ ^ 2) = Real.sqrt (∑ k, singularValue A k ^ 2) := by
  rw [frobenius_sq_eq_sum_singularValue_sq]

/-- (3) At most `min(rows, cols)` singular values are non-zero (their number is the rank), so "all" singular
    values are the `min(shape)` ones `np.linalg.svd` returns; the remaining ones contribute 0. -/
theorem card_nonzero_singularValues_le (A : Matrix m n ℂ) :
    Fintype.card {k // singularValue A k ≠ 0} ≤ min (Fintype.card m) (Fintype.card n) := by
  have h1 : Fintype.card {k // singularValue A k ≠ 0} =
      Fintype.card {k // (isHermitian_conjTranspose_mul_self A).eigenvalues k ≠ 0} := by
    refine Fintype.card_congr (Equiv.subtypeEquivRight fun k => ?_)
    unfold singularValue
    rw [Ne, Real.sqrt_eq_zero (eigenvalues_conjTranspose_mul_self_nonneg A k)]
  rw [h1, ← (isHermitian_conjTranspose_mul_self A).rank_eq_card_non_zero_eigs,
    rank_conjTranspose_mul_self]
  exact le_min (rank_le_card_height A) (rank_le_card_width A)

/-- (3) The number of non-zero singular values is the rank. -/
theorem card_nonzero_singularValues_eq_rank (A : Matrix m n ℂ) :
    Fintype.card {k // singularValue A k ≠ 0} = A.rank := by
  have h1 : Fintype.card {k // singularValue A k ≠ 0} =
      Fintype.card {k // (isHermitian_conjTranspose_mul_self A).eigenvalues k ≠ 0} := by
    refine Fintype.card_congr (Equiv.subtypeEquivRight fun k => ?_)
    unfold singularValue
    rw [Ne, Real.sqrt_eq_zero (eigenvalues_conjTranspose_mul_self_nonneg A k)]
  rw [h1, ← (isHermitian_conjTranspose_mul_self A).rank_eq_card_non_zero_eigs,
    rank_conjTranspose_mul_self]

end Frobenius

/-! ## 4. Gram matrices (`vectors_to_gram_matrix`, `vectors_from_gram_matrix`) -/

section Gram
variable {k d : Type*} [Fintype d]

/-- Gram matrix of a family of vectors, `G i j = ⟨v_i, v_j⟩ = Σ_a conj(v_i a) · v_j a`
    (`vectors_to_gram_matrix`). -/
def gramMatrix (v : k → d → ℂ) : Matrix k k ℂ := Matrix.of fun i j => star (v i) ⬝ᵥ v j

/-- (4) The Gram matrix is `Vᴴ V` for the matrix `V` whose columns are the vectors. -/
theorem gramMatrix_eq_conjTranspose_mul (v : k → d → ℂ) :
    gramMatrix v = (Matrix.of fun a i => v i a)ᴴ * (Matrix.of fun a i => v i a) := by
  ext i j
  simp [gramMatrix, mul_apply, dotProduct, conjTranspose_apply]

variable [Fintype k]

/-- (4) Every Gram matrix is positive semidefinite. -/
theorem gramMatrix_posSemidef (v : k → d → ℂ) : (gramMatrix v).PosSemidef := by
  rw [gramMatrix_eq_conjTranspose_mul]
  exact posSemidef_conjTranspose_mul_self _

/-- (4) Every Gram matrix is Hermitian. -/
theorem gramMatrix_isHermitian (v : k → d → ℂ) : (gramMatrix v).IsHermitian :=
  (gramMatrix_posSemidef v).1

/-- (4) All eigenvalues of a Gram matrix are non-negative (so a matrix with a negative eigenvalue is the
    Gram matrix of no family of vectors). -/
theorem gramMatrix_eigenvalues_nonneg [DecidableEq k] (v : k → d → ℂ) (i : k) :
    0 ≤ (gramMatrix_isHermitian v).eigenvalues i := (gramMatrix_posSemidef v).eigenvalues_nonneg i

end Gram

section GramAlgebra
variable {R : Type*} [CommRing R] [StarRing R] {ι κ : Type*} [Fintype κ]

/-- (4) Eigen-branch round trip of `vectors_from_gram_matrix`, pure algebra over a commutative star ring:
    if `G = V · diag(dd) · Vᴴ` and `dd k = conj(s k) · s k` (i.e. `s k = √(dd k)` with `dd k ≥ 0`), then the
    returned vectors `w i k = s k · conj(V i k)` have Gram matrix `G`.  (For a negative `dd k` the hypothesis
    fails: `conj(√dd)·√dd = |dd|`; by `gramMatrix_posSemidef` no vectors exist in that case anyway.) -/
theorem gram_eig_roundtrip (G : ι → ι → R) (V : ι → κ → R) (dd s : κ → R)
    (hG : ∀ i j, G i j = ∑ k, V i k * dd k * star (V j k))
    (hd : ∀ k, dd k = star (s k) * s k) (i j : ι) :
    ∑ k, star (s k * star (V i k)) * (s k * star (V j k)) = G i j := by
  rw [hG]
  refine Finset.sum_congr rfl fun k _ => ?_
  rw [hd, star_mul', star_star]
  ring

/-- (4) Cholesky-branch round trip of `vectors_from_gram_matrix`: if `G = L · Lᴴ` then the returned
    vectors `w i = conj(L[i, :])` have Gram matrix `G`. -/
theorem gram_chol_roundtrip (G : ι → ι → R) (L : ι → κ → R)
    (hG : ∀ i j, G i j = ∑ k, L i k * star (L j k)) (i j : ι) :
    ∑ k, star (star (L i k)) * star (L j k) = G i j := by
  rw [hG]
  simp only [star_star]

end GramAlgebra

/-! ## 5. Trace norm (`trace_norm`, singular values of Hermitian matrices) -/

/-- If a Hermitian `B` equals `U · diag(d) · Uᴴ` for SOME unitary `U` and real `d`, then its eigenvalues
    are `d` up to order (equality of multisets; characteristic polynomial argument). -/
theorem eigenvalues_multiset_of_unitary_diag {B : Matrix n n ℂ} (hB : B.IsHermitian)
    (U : unitaryGroup n ℂ) (d : n → ℝ)
    (h : B = (U : Matrix n n ℂ) * diagonal (fun i => ((d i : ℝ) : ℂ)) * star (U : Matrix n n ℂ)) :
    Multiset.map hB.eigenvalues Finset.univ.val = Multiset.map d Finset.univ.val := by
  have h1 := hB.roots_charpoly_eq_eigenvalues
  have h2 : B.charpoly = ∏ i, (Polynomial.X - Polynomial.C ((d i : ℝ) : ℂ)) := by
    conv_lhs => rw [h, charpoly_mul_comm, ← mul_assoc]
    rw [mul_eq_one_comm.1 (mul_star_self_of_mem U.prop), one_mul, charpoly_diagonal]
  have h3 : B.charpoly.roots = Multiset.map (fun i => ((d i : ℝ) : ℂ)) Finset.univ.val := by
    rw [h2, Polynomial.roots_prod]
    · simp
    · simp [Finset.prod_ne_zero_iff, Polynomial.X_sub_C_ne_zero]
  rw [h3] at h1
  have h4 : Multiset.map Complex.ofReal (Multiset.map d Finset.univ.val) =
      Multiset.map Complex.ofReal (Multiset.map hB.eigenvalues Finset.univ.val) := by
    rw [Multiset.map_map, Multiset.map_map]; exact h1
  exact (Multiset.map_injective Complex.ofReal_injective h4).symm

/-- Consequence: any symmetric function of the eigenvalues of `B = U · diag(d) · Uᴴ` of the form `Σ f(λ_i)` can
    be computed from `d`. -/
theorem sum_comp_eigenvalues_of_unitary_diag {B : Matrix n n ℂ} (hB : B.IsHermitian)
    (U : unitaryGroup n ℂ) (d : n → ℝ)
    (h : B = (U : Matrix n n ℂ) * diagonal (fun i => ((d i : ℝ) : ℂ)) * star (U : Matrix n n ℂ))
    (f : ℝ → ℝ) : ∑ i, f (hB.eigenvalues i) = ∑ i, f (d i) := by
  have := congrArg (fun s => (Multiset.map f s).sum)
    (eigenvalues_multiset_of_unitary_diag hB U d h)
  simpa [Multiset.map_map] using this

/-- For Hermitian `A`: `Aᴴ A = U · diag(λ²) · Uᴴ`. -/
theorem conjTranspose_mul_self_spectral (A : Matrix n n ℂ) (hA : A.IsHermitian) :
    Aᴴ * A = (hA.eigenvectorUnitary : Matrix n n ℂ) *
        diagonal (fun i => ((hA.eigenvalues i ^ 2 : ℝ) : ℂ)) *
        star (hA.eigenvectorUnitary : Matrix n n ℂ) := by
  rw [hA.eq]
  conv_lhs => rw [spectral_mul A hA]
  rw [conj_mul_conj, diagonal_mul_diagonal]
  congr 2
  ext i j
  by_cases h : i = j <;> simp [diagonal, h, sq]

/-- (5) For Hermitian `A` the eigenvalues of `Aᴴ A` (squared singular values) are the squares of the
    eigenvalues of `A`, as multisets. -/
theorem singular_sq_multiset_hermitian (A : Matrix n n ℂ) (hA : A.IsHermitian) :
    Multiset.map (isHermitian_conjTranspose_mul_self A).eigenvalues Finset.univ.val =
      Multiset.map (fun i => hA.eigenvalues i ^ 2) Finset.univ.val :=
  eigenvalues_multiset_of_unitary_diag _ _ _ (conjTranspose_mul_self_spectral A hA)

/-- (5) The singular values of a Hermitian matrix are the absolute values of its eigenvalues (as multisets) —
    what `majorizes` compares for Hermitian arguments. -/
theorem singularValue_multiset_hermitian (A : Matrix n n ℂ) (hA : A.IsHermitian) :
    Multiset.map (singularValue A) Finset.univ.val =
      Multiset.map (fun i => |hA.eigenvalues i|) Finset.univ.val := by
  have h := congrArg (Multiset.map Real.sqrt) (singular_sq_multiset_hermitian A hA)
  simp only [Multiset.map_map] at h
  have h1 : (fun i => |hA.eigenvalues i|) = Real.sqrt ∘ fun i => hA.eigenvalues i ^ 2 := by
    funext i
    simp [Real.sqrt_sq_eq_abs]
  rw [h1, ← h]
  rfl

/-- (5) Trace norm (sum of singular values) of a Hermitian matrix = `Σ |λ_i|`. -/
theorem traceNorm_hermitian (A : Matrix n n ℂ) (hA : A.IsHermitian) :
    ∑ k, singularValue A k = ∑ i, |hA.eigenvalues i| := by
  unfold singularValue
  rw [sum_comp_eigenvalues_of_unitary_diag _ _ _ (conjTranspose_mul_self_spectral A hA) Real.sqrt]
  simp [Real.sqrt_sq_eq_abs]

/-- (5) Trace norm of a PSD matrix = its trace. -/
theorem traceNorm_posSemidef (A : Matrix n n ℂ) (hA : A.PosSemidef) :
    ∑ k, singularValue A k = (A.trace).re := by
  rw [traceNorm_hermitian A hA.1, trace_re A hA.1]
  exact Finset.sum_congr rfl fun i _ => abs_of_nonneg (hA.eigenvalues_nonneg i)

/-- (5) Trace norm of a density matrix is 1. -/
theorem traceNorm_density (ρ : Matrix n n ℂ) (hρ : ρ.PosSemidef) (htr : ρ.trace = 1) :
    ∑ k, singularValue ρ k = 1 := by
  rw [traceNorm_posSemidef ρ hρ, htr, Complex.one_re]

/-- (5) For Hermitian `A` the squared singular values sum to `Re Tr A²` (Frobenius norm² of a Hermitian matrix,
    the quantity the purity decider computes). -/
theorem sum_singularValue_sq_hermitian (A : Matrix n n ℂ) (hA : A.IsHermitian) :
    ∑ k, singularValue A k ^ 2 = ((A * A).trace).re := by
  rw [trace_sq_re A hA]
  simp only [singularValue_sq]
  exact sum_comp_eigenvalues_of_unitary_diag _ _ _ (conjTranspose_mul_self_spectral A hA) id

/-! ## Satisfiability of the hypotheses -/

/-- The hypotheses "PSD, trace 1" are satisfiable with a non-trivial instance (`|0⟩⟨0|` on a qubit), and
    for it the purity test succeeds. -/
example : (diagonal ![(1 : ℂ), 0]).PosSemidef ∧ (diagonal ![(1 : ℂ), 0]).trace = 1 ∧
    (diagonal ![(1 : ℂ), 0] * diagonal ![(1 : ℂ), 0]).trace = 1 := by
  refine ⟨PosSemidef.diagonal fun i => ?_, ?_, ?_⟩
  · fin_cases i <;> simp
  · simp [trace_diagonal]
  · simp [diagonal_mul_diagonal, trace_diagonal]

end Toq.MatrixSpectral
