import Toq.Model.MatrixPredsDet
import Toq.Proofs.MatrixOps
import Mathlib.LinearAlgebra.Matrix.Determinant.Basic
import Mathlib.LinearAlgebra.Matrix.Adjugate
import Mathlib.LinearAlgebra.Matrix.NonsingularInverse
/-!
# Correctness of the Laplace determinant, the cofactor inverse and the deciders built on them
(`Toq/Model/MatrixPredsDet.lean`)
-/

namespace Toq.MatrixPreds
open Toq.MatrixOps Toq.Rank Matrix

/-! ## sums and the bridge `fnToM` -/

/-- the complex value of an exact finite sum is the sum of the complex values -/
theorem sumN_toC (g : Nat → QI) : ∀ n, (sumN n g).toC = ∑ i : Fin n, (g i.val).toC
  | 0 => by simp [sumN]
  | n + 1 => by
    rw [sumN, QI.toC_add, sumN_toC g n, Fin.sum_univ_castSucc]
    rfl

theorem val_succAbove {n : Nat} (p : Fin (n + 1)) (a : Fin n) :
    (p.succAbove a).val = if a.val < p.val then a.val else a.val + 1 := by
  unfold Fin.succAbove
  by_cases h : a.val < p.val
  · rw [if_pos (by simpa [Fin.lt_def] using h), if_pos h]; rfl
  · rw [if_neg (by simpa [Fin.lt_def] using h), if_neg h]; rfl

/-- deleting a row and a column of a function matrix is Mathlib's `submatrix succAbove succAbove` -/
theorem fnToM_delFn (n : Nat) (f : Nat → Nat → QI) (i j : Fin (n + 1)) :
    fnToM n n (delFn f i.val j.val) = (fnToM (n + 1) (n + 1) f).submatrix i.succAbove j.succAbove := by
  ext a b
  simp only [fnToM, delFn, submatrix_apply, val_succAbove]

theorem fnToM_minorFn (n : Nat) (f : Nat → Nat → QI) (j : Fin (n + 1)) :
    fnToM n n (minorFn f j.val) = (fnToM (n + 1) (n + 1) f).submatrix Fin.succ j.succAbove := by
  ext a b
  simp only [fnToM, minorFn, submatrix_apply, val_succAbove, Fin.val_succ]

theorem signed_toC (j : Nat) (x : QI) : (if j % 2 = 0 then x else -x).toC = (-1 : ℂ) ^ j * x.toC := by
  by_cases h : j % 2 = 0
  · rw [if_pos h, (Nat.even_iff.mpr h).neg_one_pow, one_mul]
  · rw [if_neg h, QI.toC_neg, (Nat.odd_iff.mpr (by omega)).neg_one_pow, neg_one_mul]

/-- **the Laplace determinant is correct**: its complex value is Mathlib's determinant of the denoted matrix -/
theorem detL_eq_det : ∀ (n : Nat) (f : Nat → Nat → QI), (detL n f).toC = (fnToM n n f).det
  | 0, f => by simp [detL]
  | n + 1, f => by
    rw [detL, sumN_toC, Matrix.det_succ_row_zero]
    apply Finset.sum_congr rfl
    intro j _
    rw [QI.toC_mul, signed_toC, detL_eq_det n, fnToM_minorFn]
    rfl

/-! ## the cofactor inverse -/

theorem toC_qinv' (a : QI) : (Toq.MatrixOps.qinv a).toC = (a.toC)⁻¹ := by
  apply Complex.ext
  · simp [Toq.MatrixOps.qinv, Complex.inv_re, Complex.normSq_apply]
  · simp [Toq.MatrixOps.qinv, Complex.inv_im, Complex.normSq_apply]

/-- the exact adjugate denotes Mathlib's adjugate -/
theorem fnToM_adjL : ∀ (n : Nat) (f : Nat → Nat → QI), fnToM n n (adjL n f) = (fnToM n n f).adjugate
  | 0, f => by ext i; exact i.elim0
  | n + 1, f => by
    ext i j
    rw [Matrix.adjugate_fin_succ_eq_det_submatrix, ← fnToM_delFn, ← detL_eq_det, ← signed_toC]
    rfl

/-- **the cofactor inverse is correct**: it denotes Mathlib's nonsingular inverse (the zero matrix for a singular block) -/
theorem fnToM_invL (n : Nat) (f : Nat → Nat → QI) : fnToM n n (invL n f) = (fnToM n n f)⁻¹ := by
  rw [Matrix.inv_def, ← fnToM_adjL, Ring.inverse_eq_inv', ← detL_eq_det, ← toC_qinv']
  ext i j
  simp only [fnToM, invL, QI.toC_mul, Matrix.smul_apply, smul_eq_mul]

/-! ## `Verdict.all` -/

theorem verdictAnd_no_iff (a b : Verdict) : a.and b = .no ↔ a = .no ∨ b = .no := by
  cases a <;> cases b <;> simp [Verdict.and]

theorem verdictFoldl_yes_iff : ∀ (l : List Verdict) (acc : Verdict),
    l.foldl Verdict.and acc = .yes ↔ acc = .yes ∧ ∀ v ∈ l, v = .yes
  | [], acc => by simp
  | x :: l, acc => by
    rw [List.foldl_cons, verdictFoldl_yes_iff l, Verdict.and_yes_iff]
    simp [and_assoc]

theorem verdictFoldl_no_iff : ∀ (l : List Verdict) (acc : Verdict),
    l.foldl Verdict.and acc = .no ↔ acc = .no ∨ ∃ v ∈ l, v = .no
  | [], acc => by simp
  | x :: l, acc => by
    rw [List.foldl_cons, verdictFoldl_no_iff l, verdictAnd_no_iff]
    simp [or_assoc, eq_comm]

/-- a conjunction of verdicts is `yes` iff every verdict is `yes` -/
theorem verdictAll_yes_iff (l : List Verdict) : Verdict.all l = .yes ↔ ∀ v ∈ l, v = .yes := by
  unfold Verdict.all
  rw [verdictFoldl_yes_iff]
  simp

/-- a conjunction of verdicts is `no` iff some verdict is `no` -/
theorem verdictAll_no_iff (l : List Verdict) : Verdict.all l = .no ↔ ∃ v ∈ l, v = .no := by
  unfold Verdict.all
  rw [verdictFoldl_no_iff]
  simp

/-! ## `is_totally_positive` -/

/-- `l` is a strictly increasing list of `k` indices below `n` -/
def IsIndexList (n k : Nat) (l : List Nat) : Prop := l.length = k ∧ l.Pairwise (· < ·) ∧ ∀ x ∈ l, x < n

/-- `combinations n k` (the order of `itertools.combinations(range(n), k)`) lists exactly the index lists -/
theorem mem_combinations_iff' (n k : Nat) (l : List Nat) : l ∈ combinations n k ↔ IsIndexList n k l :=
  Toq.MatrixOps.mem_combinations_iff n k l

/-- the complex `k × k` sub-matrix of `A` with the listed rows and columns (`mat[np.ix_(rows, cols)]`) -/
def subM (A : Mat QI) (k : Nat) (rows cols : List Nat) : Matrix (Fin k) (Fin k) ℂ :=
  Matrix.of fun a b => (A.f (rows.getD a.val 0) (cols.getD b.val 0)).toC

theorem idxList_getD_eq (l : List Nat) (a : Nat) (hl : a < l.length) : l.getD a 0 = l[a] := by
  rw [List.getD_eq_getElem?_getD, List.getElem?_eq_getElem hl, Option.getD_some]

theorem idxList_getD_lt {n k : Nat} {l : List Nat} (h : IsIndexList n k l) (a : Nat) (ha : a < k) : l.getD a 0 < n := by
  obtain ⟨h1, _, h3⟩ := h
  have hl : a < l.length := by omega
  rw [idxList_getD_eq l a hl]
  exact h3 _ (List.getElem_mem hl)

/-- the computed minor is Mathlib's determinant of the sub-matrix -/
theorem minor_toC (A : Mat QI) (j : Nat) (kr kc : List Nat) (hr : IsIndexList A.r j kr) (hc : IsIndexList A.c j kc) :
    (detL j (subFn (force A) kr kc)).toC = (subM A j kr kc).det := by
  rw [detL_eq_det]
  congr 1
  ext a b
  simp only [fnToM, subFn, subM, Matrix.of_apply]
  rw [force_f A _ _ (idxList_getD_lt hr a.val a.isLt) (idxList_getD_lt hc b.val b.isLt)]

theorem minorVerdict_yes_iff (m : Rat) (d : QI) :
    minorVerdict m d = .yes ↔ d.toC.im = 0 ∧ ((m : ℚ) : ℝ) ≤ d.toC.re := by
  simp only [QI.toC_im, QI.toC_re, Rat.cast_eq_zero, Rat.cast_le]
  unfold minorVerdict
  split
  · simp [*]
  · split <;> simp [*]

theorem minorVerdict_no_iff (m : Rat) (hm : 0 < m) (d : QI) :
    minorVerdict m d = .no ↔ d.toC.re ≤ -((m : ℚ) : ℝ) ∨ ((m : ℚ) : ℝ) ≤ |d.toC.im| := by
  have e1 : d.toC.re ≤ -((m : ℚ) : ℝ) ↔ d.re ≤ -m := by
    rw [QI.toC_re, ← Rat.cast_neg, Rat.cast_le]
  have e2 : ((m : ℚ) : ℝ) ≤ |d.toC.im| ↔ (m ≤ d.im ∨ d.im ≤ -m) := by
    rw [QI.toC_im, le_abs', ← Rat.cast_neg, Rat.cast_le, Rat.cast_le]
    exact or_comm
  rw [e1, e2]
  unfold minorVerdict
  split
  · rename_i h
    constructor
    · intro h'; cases h'
    · rintro (h1 | h1 | h1) <;> exfalso <;> linarith [h.1, h.2]
  · split <;> simp [*]

theorem mem_minorsL (A : Mat QI) (ss : Option (List Nat)) (d : QI) :
    d ∈ minorsL A ss ↔ ∃ j ∈ tpSizes A ss, ∃ kr, IsIndexList A.r j kr ∧ ∃ kc, IsIndexList A.c j kc ∧
      detL j (subFn A kr kc) = d := by
  simp only [minorsL, List.mem_flatMap, List.mem_map, mem_combinations_iff']

/-- **`is_totally_positive`, verdict `yes`**: exactly when every minor of the sizes considered
    (`sub_sizes`, default `1 … min(r, c)`), for all strictly increasing row and column index lists, is a real number
    `≥ margin` -/
theorem totallyPositiveVL_yes_iff (A : Mat QI) (ss : Option (List Nat)) (m : Rat) :
    totallyPositiveVL A ss m = .yes ↔
      ∀ j ∈ tpSizes A ss, ∀ rows cols, IsIndexList A.r j rows → IsIndexList A.c j cols →
        (subM A j rows cols).det.im = 0 ∧ ((m : ℚ) : ℝ) ≤ (subM A j rows cols).det.re := by
  unfold totallyPositiveVL
  simp only []
  rw [verdictAll_yes_iff]
  constructor
  · intro h j hj rows cols hr hc
    have := h _ (List.mem_map.mpr ⟨_, (mem_minorsL (force A) ss _).mpr ⟨j, hj, rows, hr, cols, hc, rfl⟩, rfl⟩)
    rw [minorVerdict_yes_iff, minor_toC A j rows cols hr hc] at this
    exact this
  · intro h v hv
    obtain ⟨d, hd, rfl⟩ := List.mem_map.mp hv
    obtain ⟨j, hj, kr, hr, kc, hc, rfl⟩ := (mem_minorsL (force A) ss d).mp hd
    rw [minorVerdict_yes_iff, minor_toC A j kr kc hr hc]
    exact h j hj kr kc hr hc

/-- **`is_totally_positive`, verdict `no`** (positive margin): exactly when some minor of the sizes considered has
    real part `≤ -margin` or imaginary part of modulus `≥ margin` -/
theorem totallyPositiveVL_no_iff (A : Mat QI) (ss : Option (List Nat)) (m : Rat) (hm : 0 < m) :
    totallyPositiveVL A ss m = .no ↔
      ∃ j ∈ tpSizes A ss, ∃ rows cols, IsIndexList A.r j rows ∧ IsIndexList A.c j cols ∧
        ((subM A j rows cols).det.re ≤ -((m : ℚ) : ℝ) ∨ ((m : ℚ) : ℝ) ≤ |(subM A j rows cols).det.im|) := by
  unfold totallyPositiveVL
  simp only []
  rw [verdictAll_no_iff]
  constructor
  · rintro ⟨v, hv, hno⟩
    obtain ⟨d, hd, rfl⟩ := List.mem_map.mp hv
    obtain ⟨j, hj, kr, hr, kc, hc, rfl⟩ := (mem_minorsL (force A) ss d).mp hd
    rw [minorVerdict_no_iff m hm, minor_toC A j kr kc hr hc] at hno
    exact ⟨j, hj, kr, kc, hr, hc, hno⟩
  · rintro ⟨j, hj, rows, cols, hr, hc, h⟩
    refine ⟨_, List.mem_map.mpr ⟨_, (mem_minorsL (force A) ss _).mpr ⟨j, hj, rows, hr, cols, hc, rfl⟩, rfl⟩, ?_⟩
    rw [minorVerdict_no_iff m hm, minor_toC A j rows cols hr hc]
    exact h

/-! ### the same with order embeddings -/

/-- an index list as an order embedding `Fin k ↪o Fin n` -/
def embOfList {n k : Nat} (l : List Nat) (h : IsIndexList n k l) : Fin k ↪o Fin n :=
  OrderEmbedding.ofStrictMono (fun a => ⟨l.getD a.val 0, idxList_getD_lt h a.val a.isLt⟩) (by
    intro a b hab
    show l.getD a.val 0 < l.getD b.val 0
    have ha : a.val < l.length := by have := h.1; omega
    have hb : b.val < l.length := by have := h.1; omega
    rw [idxList_getD_eq l a.val ha, idxList_getD_eq l b.val hb]
    exact List.pairwise_iff_getElem.mp h.2.1 _ _ ha hb hab)

/-- an order embedding `Fin k ↪o Fin n` as an index list -/
def listOfEmb {n k : Nat} (e : Fin k ↪o Fin n) : List Nat := List.ofFn (fun a => (e a).val)

theorem listOfEmb_isIndexList {n k : Nat} (e : Fin k ↪o Fin n) : IsIndexList n k (listOfEmb e) := by
  refine ⟨by simp [listOfEmb], ?_, ?_⟩
  · unfold listOfEmb
    rw [List.pairwise_ofFn]
    intro a b hab
    exact e.strictMono hab
  · intro x hx
    unfold listOfEmb at hx
    rw [List.mem_ofFn] at hx
    obtain ⟨a, rfl⟩ := hx
    exact (e a).isLt

theorem listOfEmb_getD {n k : Nat} (e : Fin k ↪o Fin n) (a : Fin k) : (listOfEmb e).getD a.val 0 = (e a).val := by
  rw [idxList_getD_eq _ _ (by simp [listOfEmb])]
  simp [listOfEmb]

theorem subM_embOfList (A : Mat QI) (j : Nat) (rows cols : List Nat) (hr : IsIndexList A.r j rows)
    (hc : IsIndexList A.c j cols) :
    subM A j rows cols = (fnToM A.r A.c A.f).submatrix (embOfList rows hr) (embOfList cols hc) := by
  ext a b; rfl

theorem subM_listOfEmb (A : Mat QI) (j : Nat) (r : Fin j ↪o Fin A.r) (c : Fin j ↪o Fin A.c) :
    subM A j (listOfEmb r) (listOfEmb c) = (fnToM A.r A.c A.f).submatrix r c := by
  ext a b
  simp only [subM, Matrix.of_apply, listOfEmb_getD, fnToM, Matrix.submatrix_apply]

/-- **`is_totally_positive`, verdict `yes`** in Mathlib's terms: every minor
    `det (M.submatrix r c)` with order embeddings `r : Fin j ↪o Fin rows`, `c : Fin j ↪o Fin cols` of a size `j` considered
    is real and `≥ margin` -/
theorem totallyPositiveVL_yes_iff_orderEmb (A : Mat QI) (ss : Option (List Nat)) (m : Rat) :
    totallyPositiveVL A ss m = .yes ↔
      ∀ j ∈ tpSizes A ss, ∀ (r : Fin j ↪o Fin A.r) (c : Fin j ↪o Fin A.c),
        ((fnToM A.r A.c A.f).submatrix r c).det.im = 0 ∧ ((m : ℚ) : ℝ) ≤ ((fnToM A.r A.c A.f).submatrix r c).det.re := by
  rw [totallyPositiveVL_yes_iff]
  constructor
  · intro h j hj r c
    have := h j hj _ _ (listOfEmb_isIndexList r) (listOfEmb_isIndexList c)
    rwa [subM_listOfEmb] at this
  · intro h j hj rows cols hr hc
    rw [subM_embOfList A j rows cols hr hc]
    exact h j hj _ _

/-- **`is_totally_positive`, verdict `no`** in Mathlib's terms (positive margin): some minor `det (M.submatrix r c)` of a
    size considered has real part `≤ -margin` or imaginary part of modulus `≥ margin` -/
theorem totallyPositiveVL_no_iff_orderEmb (A : Mat QI) (ss : Option (List Nat)) (m : Rat) (hm : 0 < m) :
    totallyPositiveVL A ss m = .no ↔
      ∃ j ∈ tpSizes A ss, ∃ (r : Fin j ↪o Fin A.r) (c : Fin j ↪o Fin A.c),
        ((fnToM A.r A.c A.f).submatrix r c).det.re ≤ -((m : ℚ) : ℝ) ∨
          ((m : ℚ) : ℝ) ≤ |((fnToM A.r A.c A.f).submatrix r c).det.im| := by
  rw [totallyPositiveVL_no_iff A ss m hm]
  constructor
  · rintro ⟨j, hj, rows, cols, hr, hc, h⟩
    rw [subM_embOfList A j rows cols hr hc] at h
    exact ⟨j, hj, _, _, h⟩
  · rintro ⟨j, hj, r, c, h⟩
    rw [← subM_listOfEmb] at h
    exact ⟨j, hj, _, _, listOfEmb_isIndexList r, listOfEmb_isIndexList c, h⟩

/-- the sizes considered by default are `1, …, min(r, c)` -/
theorem mem_tpSizes_none (A : Mat QI) (j : Nat) : j ∈ tpSizes A none ↔ 1 ≤ j ∧ j ≤ min A.r A.c := by
  simp only [tpSizes, List.mem_map, List.mem_range]
  constructor
  · rintro ⟨a, ha, rfl⟩; omega
  · rintro ⟨h1, h2⟩; exact ⟨j - 1, by omega, by omega⟩

theorem tpSizes_some (A : Mat QI) (l : List Nat) : tpSizes A (some l) = l := rfl

/-! ## the bridge for products, conjugate transposes, identity, stored matrices -/

theorem fnToM_eq_iff (n p : Nat) (f g : Nat → Nat → QI) :
    fnToM n p f = fnToM n p g ↔ ∀ i j, i < n → j < p → f i j = g i j := by
  constructor
  · intro h i j hi hj
    exact QI.toC_injective (congrFun (congrFun h ⟨i, hi⟩) ⟨j, hj⟩)
  · intro h
    ext i j
    simp only [fnToM, h i.val j.val i.isLt j.isLt]

/-- the exact product denotes the matrix product -/
theorem fnToM_mul (n k p : Nat) (A B : Mat QI) (hk : A.c = k) :
    fnToM n p (mul A B).f = fnToM n k A.f * fnToM k p B.f := by
  subst hk
  ext i j
  simp only [fnToM, mul, Matrix.mul_apply, sumN_toC, QI.toC_mul]

/-- the exact conjugate transpose denotes the conjugate transpose -/
theorem fnToM_ctranspose (n p : Nat) (A : Mat QI) : fnToM n p (ctranspose A).f = (fnToM p n A.f)ᴴ := by
  ext i j
  simp only [fnToM, ctranspose, Matrix.conjTranspose_apply]
  exact QI.toC_conj _

theorem fnToM_eye (n : Nat) : fnToM n n (eye n : Mat QI).f = 1 := by
  ext i j
  simp only [fnToM, eye, Matrix.one_apply, Fin.ext_iff]
  split <;> simp

theorem fnToM_force (A : Mat QI) : fnToM A.r A.c (force A).f = fnToM A.r A.c A.f := by
  ext i j
  simp only [fnToM, force_f A i.val j.val i.isLt j.isLt]

theorem abs1_toC (a : QI) : ((a.abs1 : Rat) : ℝ) = |a.toC.re| + |a.toC.im| := by
  have h : ∀ q : Rat, ((if q < 0 then -q else q : Rat) : ℝ) = |(q : ℝ)| := by
    intro q
    split
    · next hq =>
      have : (q : ℝ) < 0 := by exact_mod_cast hq
      rw [abs_of_neg this]; push_cast; rfl
    · next hq =>
      have : (0 : ℝ) ≤ (q : ℝ) := by exact_mod_cast (not_lt.mp hq)
      rw [abs_of_nonneg this]
  simp only [QI.abs1, Rat.cast_add, h, QI.toC_re, QI.toC_im]

/-- a square exact matrix passes `is_hermitian` exactly iff the denoted matrix is Hermitian -/
theorem hermitianV_yes_iff_isHermitian (A : Mat QI) (m : Rat) :
    hermitianV A m = .yes ↔ A.c = A.r ∧ (fnToM A.r A.r A.f).IsHermitian := by
  rw [hermitianV_yes_iff]
  obtain ⟨r, c, f⟩ := A
  simp only
  constructor
  · rintro ⟨rfl, h⟩
    refine ⟨rfl, ?_⟩
    ext i j
    rw [Matrix.conjTranspose_apply]
    simp only [fnToM]
    rw [h j.val i.val j.isLt i.isLt, QI.toC_conj]
    simp
  · rintro ⟨rfl, h⟩
    refine ⟨rfl, fun i j hi hj => QI.toC_injective ?_⟩
    have := congrFun (congrFun h ⟨i, hi⟩) ⟨j, hj⟩
    rw [Matrix.conjTranspose_apply] at this
    simp only [fnToM] at this
    rw [QI.toC_conj, ← this]
    rfl

/-- a square matrix over a field has full rank iff its determinant is a unit -/
theorem rank_eq_iff_isUnit_det {n : Nat} (M : Matrix (Fin n) (Fin n) ℂ) : M.rank = n ↔ IsUnit M.det := by
  rw [← Toq.Rank.linearIndependent_col_iff_rank, Matrix.linearIndependent_cols_iff_isUnit,
    Matrix.isUnit_iff_isUnit_det]

/-! ## `is_pseudo_hermitian` -/

theorem pseudoShape_guard_iff (H η : Mat QI) :
    (!isSquare H || H.r * H.c != η.r * η.c) = true ↔ ¬(H.r = H.c ∧ H.r * H.c = η.r * η.c) := by
  unfold isSquare
  simp only [Bool.or_eq_true, Bool.not_eq_true', beq_eq_false_iff_ne, bne_iff_ne, ne_eq]
  tauto

theorem rank_ofMat (η : Mat QI) : rank η.r η.c (QMat.ofMat η) = (fnToM η.r η.c η.f).rank := by
  rw [rank_eq_rank, qmatToM_ofMat]; rfl

/-- the four branches of `pseudoHermitianVL` -/
theorem pseudoHermitianVL_cases (H η : Mat QI) (m : Rat) :
    (hermitianV η m ≠ .yes ∧ pseudoHermitianVL H η m = .error "SignatureNotHermitian") ∨
    (hermitianV η m = .yes ∧ (fnToM η.r η.c η.f).rank ≠ η.r ∧
      pseudoHermitianVL H η m = .error "SignatureNotInvertible") ∨
    (hermitianV η m = .yes ∧ (fnToM η.r η.c η.f).rank = η.r ∧ ¬(H.r = H.c ∧ H.r * H.c = η.r * η.c) ∧
      pseudoHermitianVL H η m = .ok .no) ∨
    (hermitianV η m = .yes ∧ (fnToM η.r η.c η.f).rank = η.r ∧ (H.r = H.c ∧ H.r * H.c = η.r * η.c) ∧
      pseudoHermitianVL H η m
        = .ok (eqV (mul (mul η H) (force ⟨η.r, η.c, invL η.r (force η).f⟩)) (ctranspose H) m)) := by
  unfold pseudoHermitianVL
  by_cases h1 : hermitianV η m = .yes
  · have g1 : ¬ (hermitianV η m != Verdict.yes) = true := by simp [h1]
    rw [if_neg g1]
    by_cases h2 : (fnToM η.r η.c η.f).rank = η.r
    · have g2 : ¬ (rank η.r η.c (QMat.ofMat η) != η.r) = true := by simp [rank_ofMat, h2]
      rw [if_neg g2]
      by_cases h3 : H.r = H.c ∧ H.r * H.c = η.r * η.c
      · rw [if_neg (by rw [pseudoShape_guard_iff]; exact not_not.mpr h3)]
        exact Or.inr (Or.inr (Or.inr ⟨h1, h2, h3, rfl⟩))
      · rw [if_pos ((pseudoShape_guard_iff H η).mpr h3)]
        exact Or.inr (Or.inr (Or.inl ⟨h1, h2, h3, rfl⟩))
    · have g2 : (rank η.r η.c (QMat.ofMat η) != η.r) = true := by simp [rank_ofMat, h2]
      rw [if_pos g2]
      exact Or.inr (Or.inl ⟨h1, h2, rfl⟩)
  · have g1 : (hermitianV η m != Verdict.yes) = true := by simp [h1]
    rw [if_pos g1]
    exact Or.inl ⟨h1, rfl⟩

/-- the `ValueError` "Signature not hermitian matrix" is raised exactly when `is_hermitian(signature)` is not `yes` -/
theorem pseudoHermitianVL_error_notHermitian_iff (H η : Mat QI) (m : Rat) :
    pseudoHermitianVL H η m = .error "SignatureNotHermitian" ↔ hermitianV η m ≠ .yes := by
  rcases pseudoHermitianVL_cases H η m with ⟨h, e⟩ | ⟨h, _, e⟩ | ⟨h, _, _, e⟩ | ⟨h, _, _, e⟩ <;> rw [e] <;> simp [h]

/-- the `ValueError` "Signature is not invertible" is raised exactly when the signature is (exactly) Hermitian and
    its rank (Mathlib's `Matrix.rank` of the denoted matrix) is not its size -/
theorem pseudoHermitianVL_error_notInvertible_iff (H η : Mat QI) (m : Rat) :
    pseudoHermitianVL H η m = .error "SignatureNotInvertible" ↔
      hermitianV η m = .yes ∧ (fnToM η.r η.c η.f).rank ≠ η.r := by
  rcases pseudoHermitianVL_cases H η m with ⟨h, e⟩ | ⟨h, h2, e⟩ | ⟨h, h2, _, e⟩ | ⟨h, h2, _, e⟩ <;> rw [e] <;> first | simp [h, h2] | simp [h]

theorem pseudoShape_iff (a b n : Nat) : (a = b ∧ a * b = n * n) ↔ (a = n ∧ b = n) := by
  constructor
  · rintro ⟨rfl, h⟩
    have := Nat.mul_self_inj.mp h
    exact ⟨this, this⟩
  · rintro ⟨rfl, rfl⟩
    exact ⟨rfl, rfl⟩

/-- the left-hand side `signature @ mat @ inv(signature)` of the comparison denotes `E * H * E⁻¹` -/
theorem pseudo_lhs (n : Nat) (f h : Nat → Nat → QI) :
    fnToM n n (mul (mul (⟨n, n, f⟩ : Mat QI) ⟨n, n, h⟩) (force ⟨n, n, invL n (force (⟨n, n, f⟩ : Mat QI)).f⟩)).f
      = fnToM n n f * fnToM n n h * (fnToM n n f)⁻¹ := by
  rw [fnToM_mul n n n _ _ rfl, fnToM_mul n n n _ _ rfl]
  have e1 := fnToM_force (⟨n, n, invL n (force (⟨n, n, f⟩ : Mat QI)).f⟩ : Mat QI)
  have e2 := fnToM_force (⟨n, n, f⟩ : Mat QI)
  simp only at e1 e2
  rw [e1, fnToM_invL, e2]

theorem pseudo_eqV_yes_iff (n : Nat) (f h : Nat → Nat → QI) (m : Rat) :
    eqV (mul (mul (⟨n, n, f⟩ : Mat QI) ⟨n, n, h⟩) (force ⟨n, n, invL n (force (⟨n, n, f⟩ : Mat QI)).f⟩))
        (ctranspose (⟨n, n, h⟩ : Mat QI)) m = .yes ↔
      fnToM n n f * fnToM n n h * (fnToM n n f)⁻¹ = (fnToM n n h)ᴴ := by
  have key := eqV_yes_iff (mul (mul (⟨n, n, f⟩ : Mat QI) ⟨n, n, h⟩)
    (force ⟨n, n, invL n (force (⟨n, n, f⟩ : Mat QI)).f⟩)) (ctranspose (⟨n, n, h⟩ : Mat QI)) m rfl rfl
  rw [key, ← pseudo_lhs, ← fnToM_ctranspose n n ⟨n, n, h⟩, fnToM_eq_iff]
  rfl

/-- **`is_pseudo_hermitian`, verdict `yes`**: exactly when the signature `E` is square, Hermitian and invertible, `H` is
    square of the same size, and `E * H * E⁻¹ = Hᴴ` (Mathlib's inverse and conjugate transpose) -/
theorem pseudoHermitianVL_yes_iff (H η : Mat QI) (m : Rat) :
    pseudoHermitianVL H η m = .ok .yes ↔
      η.c = η.r ∧ H.r = η.r ∧ H.c = η.r ∧ (fnToM η.r η.r η.f).IsHermitian ∧ IsUnit (fnToM η.r η.r η.f).det ∧
        fnToM η.r η.r η.f * fnToM η.r η.r H.f * (fnToM η.r η.r η.f)⁻¹ = (fnToM η.r η.r H.f)ᴴ := by
  obtain ⟨n, c, f⟩ := η
  obtain ⟨hr, hc, h⟩ := H
  rcases pseudoHermitianVL_cases ⟨hr, hc, h⟩ ⟨n, c, f⟩ m with
    ⟨h1, e⟩ | ⟨h1, h2, e⟩ | ⟨h1, h2, h3, e⟩ | ⟨h1, h2, h3, e⟩
  · rw [e]
    simp only [reduceCtorEq, false_iff]
    rintro ⟨hc', _, _, hh, _⟩
    exact h1 ((hermitianV_yes_iff_isHermitian _ m).mpr ⟨hc', hh⟩)
  · rw [e]
    simp only [reduceCtorEq, false_iff]
    rintro ⟨hc', _, _, _, hu, _⟩
    have hc'' : c = n := hc'
    subst hc''
    exact h2 ((rank_eq_iff_isUnit_det _).mpr hu)
  · rw [e]
    simp only [Except.ok.injEq, reduceCtorEq, false_iff]
    rintro ⟨hc', h4, h5, _⟩
    have hc'' : c = n := hc'
    have h4' : hr = n := h4
    have h5' : hc = n := h5
    subst hc'' h4' h5'
    exact h3 ⟨rfl, rfl⟩
  · rw [e, Except.ok.injEq]
    obtain ⟨hc', hh⟩ := (hermitianV_yes_iff_isHermitian _ m).mp h1
    have hc'' : c = n := hc'
    subst hc''
    obtain ⟨h4, h5⟩ := (pseudoShape_iff hr hc c).mp h3
    subst h4 h5
    rw [pseudo_eqV_yes_iff]
    have hu := (rank_eq_iff_isUnit_det _).mp h2
    exact ⟨fun hx => ⟨rfl, rfl, rfl, hh, hu, hx⟩, fun hx => hx.2.2.2.2.2⟩

/-- for a square signature the "not invertible" error is: Hermitian with determinant zero -/
theorem pseudoHermitianVL_error_notInvertible_iff_det (H η : Mat QI) (m : Rat) :
    pseudoHermitianVL H η m = .error "SignatureNotInvertible" ↔
      η.c = η.r ∧ (fnToM η.r η.r η.f).IsHermitian ∧ (fnToM η.r η.r η.f).det = 0 := by
  rw [pseudoHermitianVL_error_notInvertible_iff, hermitianV_yes_iff_isHermitian]
  obtain ⟨n, c, f⟩ := η
  constructor
  · rintro ⟨⟨hc, hh⟩, hrk⟩
    have hc' : c = n := hc
    subst hc'
    refine ⟨rfl, hh, ?_⟩
    by_contra hne
    exact hrk ((rank_eq_iff_isUnit_det _).mpr (isUnit_iff_ne_zero.mpr hne))
  · rintro ⟨hc, hh, hd⟩
    have hc' : c = n := hc
    subst hc'
    refine ⟨⟨rfl, hh⟩, fun hrk => ?_⟩
    have hu := (rank_eq_iff_isUnit_det _).mp hrk
    rw [hd] at hu
    exact not_isUnit_zero hu

/-- a verdict (no `ValueError`) is returned exactly when the signature is square, Hermitian and invertible -/
theorem pseudoHermitianVL_ok_iff (H η : Mat QI) (m : Rat) :
    (∃ v, pseudoHermitianVL H η m = .ok v) ↔
      η.c = η.r ∧ (fnToM η.r η.r η.f).IsHermitian ∧ IsUnit (fnToM η.r η.r η.f).det := by
  have key : (hermitianV η m = .yes ∧ (fnToM η.r η.c η.f).rank = η.r) ↔
      η.c = η.r ∧ (fnToM η.r η.r η.f).IsHermitian ∧ IsUnit (fnToM η.r η.r η.f).det := by
    rw [hermitianV_yes_iff_isHermitian]
    obtain ⟨n, c, f⟩ := η
    constructor
    · rintro ⟨⟨hc, hh⟩, hrk⟩
      have hc' : c = n := hc
      subst hc'
      exact ⟨rfl, hh, (rank_eq_iff_isUnit_det _).mp hrk⟩
    · rintro ⟨hc, hh, hu⟩
      have hc' : c = n := hc
      subst hc'
      exact ⟨⟨rfl, hh⟩, (rank_eq_iff_isUnit_det _).mpr hu⟩
  rw [← key]
  rcases pseudoHermitianVL_cases H η m with ⟨h1, e⟩ | ⟨h1, h2, e⟩ | ⟨h1, h2, _, e⟩ | ⟨h1, h2, _, e⟩ <;> rw [e]
  · simp [h1]
  · simp [h2]
  · simp [h1, h2]
  · simp [h1, h2]

/-- `|re| + |im|` of a complex number (the entrywise size used by the margins) -/
noncomputable def abs1C (z : ℂ) : ℝ := |z.re| + |z.im|

theorem pseudo_eqV_no_far (n : Nat) (f h : Nat → Nat → QI) (m : Rat)
    (hno : eqV (mul (mul (⟨n, n, f⟩ : Mat QI) ⟨n, n, h⟩) (force ⟨n, n, invL n (force (⟨n, n, f⟩ : Mat QI)).f⟩))
        (ctranspose (⟨n, n, h⟩ : Mat QI)) m = .no) :
    ∃ S : ℚ, (∀ i j : Fin n, abs1C ((fnToM n n f * fnToM n n h * (fnToM n n f)⁻¹) i j) ≤ (S : ℝ) ∧
        abs1C ((fnToM n n h)ᴴ i j) ≤ (S : ℝ)) ∧
      ∃ i j : Fin n, ((m * (1 + S) : ℚ) : ℝ) ≤
        abs1C ((fnToM n n f * fnToM n n h * (fnToM n n f)⁻¹ - (fnToM n n h)ᴴ) i j) := by
  obtain ⟨S, hb, i, j, hi, hj, hfar⟩ := eqV_no_far (mul (mul (⟨n, n, f⟩ : Mat QI) ⟨n, n, h⟩)
    (force ⟨n, n, invL n (force (⟨n, n, f⟩ : Mat QI)).f⟩)) (ctranspose (⟨n, n, h⟩ : Mat QI)) m rfl rfl hno
  have eL : ∀ i j : Fin n, ((mul (mul (⟨n, n, f⟩ : Mat QI) ⟨n, n, h⟩)
      (force ⟨n, n, invL n (force (⟨n, n, f⟩ : Mat QI)).f⟩)).f i.val j.val).toC
        = (fnToM n n f * fnToM n n h * (fnToM n n f)⁻¹) i j :=
    fun i j => congrFun (congrFun (pseudo_lhs n f h) i) j
  have eR : ∀ i j : Fin n, ((ctranspose (⟨n, n, h⟩ : Mat QI)).f i.val j.val).toC = (fnToM n n h)ᴴ i j :=
    fun i j => congrFun (congrFun (fnToM_ctranspose n n ⟨n, n, h⟩) i) j
  refine ⟨S, fun i j => ?_, ⟨i, hi⟩, ⟨j, hj⟩, ?_⟩
  · have hbij := hb i.val j.val i.isLt j.isLt
    rw [← eL, ← eR]
    unfold abs1C
    rw [← abs1_toC, ← abs1_toC]
    exact ⟨by exact_mod_cast hbij.1, by exact_mod_cast hbij.2⟩
  · rw [Matrix.sub_apply, ← eL, ← eR, ← QI.toC_sub]
    unfold abs1C
    rw [← abs1_toC]
    exact_mod_cast hfar

/-- **`is_pseudo_hermitian`, verdict `no`**: the signature is square, Hermitian and invertible, and either the shapes do
    not fit, or some entry of `E * H * E⁻¹` and `Hᴴ` differs by at least `margin·(1 + S)` in `|re| + |im|`, where `S`
    bounds the entries of both sides -/
theorem pseudoHermitianVL_no_imp (H η : Mat QI) (m : Rat) (hno : pseudoHermitianVL H η m = .ok .no) :
    η.c = η.r ∧ (fnToM η.r η.r η.f).IsHermitian ∧ IsUnit (fnToM η.r η.r η.f).det ∧
      (¬(H.r = η.r ∧ H.c = η.r) ∨
        ∃ S : ℚ, (∀ i j : Fin η.r,
            abs1C ((fnToM η.r η.r η.f * fnToM η.r η.r H.f * (fnToM η.r η.r η.f)⁻¹) i j) ≤ (S : ℝ) ∧
            abs1C ((fnToM η.r η.r H.f)ᴴ i j) ≤ (S : ℝ)) ∧
          ∃ i j : Fin η.r, ((m * (1 + S) : ℚ) : ℝ) ≤
            abs1C ((fnToM η.r η.r η.f * fnToM η.r η.r H.f * (fnToM η.r η.r η.f)⁻¹ - (fnToM η.r η.r H.f)ᴴ) i j)) := by
  obtain ⟨hc, hh, hu⟩ := (pseudoHermitianVL_ok_iff H η m).mp ⟨_, hno⟩
  refine ⟨hc, hh, hu, ?_⟩
  obtain ⟨n, c, f⟩ := η
  obtain ⟨hr, hcc, h⟩ := H
  have hc' : c = n := hc
  subst hc'
  rcases pseudoHermitianVL_cases ⟨hr, hcc, h⟩ ⟨c, c, f⟩ m with
    ⟨_, e⟩ | ⟨_, _, e⟩ | ⟨_, _, h3, e⟩ | ⟨_, _, h3, e⟩
  · rw [e] at hno; cases hno
  · rw [e] at hno; cases hno
  · left
    intro h4
    exact h3 ((pseudoShape_iff hr hcc c).mpr h4)
  · right
    obtain ⟨h4, h5⟩ := (pseudoShape_iff hr hcc c).mp h3
    subst h4 h5
    rw [e, Except.ok.injEq] at hno
    exact pseudo_eqV_no_far _ f h m hno

/-- verdict `no` is sound for the exact relation: `H` is then not pseudo-Hermitian with respect to the signature -/
theorem pseudoHermitianVL_no_not (H η : Mat QI) (m : Rat) (hno : pseudoHermitianVL H η m = .ok .no) :
    ¬(H.r = η.r ∧ H.c = η.r ∧
      fnToM η.r η.r η.f * fnToM η.r η.r H.f * (fnToM η.r η.r η.f)⁻¹ = (fnToM η.r η.r H.f)ᴴ) := by
  rintro ⟨h1, h2, h3⟩
  obtain ⟨hc, hh, hu⟩ := (pseudoHermitianVL_ok_iff H η m).mp ⟨_, hno⟩
  have hy := (pseudoHermitianVL_yes_iff H η m).mpr ⟨hc, h1, h2, hh, hu, h3⟩
  rw [hno] at hy
  cases hy

/-! ## concrete instances (kernel-checked evaluation of the executable definitions) -/

/-- entry function of a matrix given by rows -/
def rowsFn (rows : List (List QI)) : Nat → Nat → QI := fun i j => (rows.getD i []).getD j 0

/-- matrix given by rows -/
def rowsMat (r c : Nat) (rows : List (List QI)) : Mat QI := ⟨r, c, rowsFn rows⟩

/-- `det [[1, i, 2], [0, 1+i, 1], [-i, 3, 1]] = -3 + 3i` -/
example : detL 3 (rowsFn [[⟨1, 0⟩, ⟨0, 1⟩, ⟨2, 0⟩], [⟨0, 0⟩, ⟨1, 1⟩, ⟨1, 0⟩], [⟨0, -1⟩, ⟨3, 0⟩, ⟨1, 0⟩]]) = ⟨-3, 3⟩ := by
  decide +kernel

/-- the Vandermonde matrix `[[1,1,1],[1,2,4],[1,3,9]]` is totally positive (all 19 minors are `≥ 1`) -/
example : totallyPositiveVL (rowsMat 3 3 [[⟨1, 0⟩, ⟨1, 0⟩, ⟨1, 0⟩], [⟨1, 0⟩, ⟨2, 0⟩, ⟨4, 0⟩], [⟨1, 0⟩, ⟨3, 0⟩, ⟨9, 0⟩]])
    none (1 / 1000) = .yes := by
  decide +kernel

/-- `[[1,2],[3,4]]` has determinant `-2`: not totally positive; restricted to `sub_sizes = [1]` it passes -/
example : totallyPositiveVL (rowsMat 2 2 [[⟨1, 0⟩, ⟨2, 0⟩], [⟨3, 0⟩, ⟨4, 0⟩]]) none (1 / 1000) = .no ∧
    totallyPositiveVL (rowsMat 2 2 [[⟨1, 0⟩, ⟨2, 0⟩], [⟨3, 0⟩, ⟨4, 0⟩]]) (some [1]) (1 / 1000) = .yes := by
  decide +kernel

/-- a complex minor: `[[1, i], [1, 1]]` has the non-real determinant `1 - i` -/
example : totallyPositiveVL (rowsMat 2 2 [[⟨1, 0⟩, ⟨0, 1⟩], [⟨1, 0⟩, ⟨1, 0⟩]]) (some [2]) (1 / 1000) = .no := by
  decide +kernel

/-- the docstring example of `is_pseudo_hermitian`: `A = [[1, 1+i], [-1+i, -1]]`, `η = diag(1, -1)` -/
example : pseudoHermitianVL (rowsMat 2 2 [[⟨1, 0⟩, ⟨1, 1⟩], [⟨-1, 1⟩, ⟨-1, 0⟩]])
    (rowsMat 2 2 [[⟨1, 0⟩, ⟨0, 0⟩], [⟨0, 0⟩, ⟨-1, 0⟩]]) (1 / 1000) = .ok .yes := by
  decide +kernel

/-- the second docstring example: `A = [[1, i], [-i, 1]]` is not pseudo-Hermitian for `η = diag(1, -1)` -/
example : pseudoHermitianVL (rowsMat 2 2 [[⟨1, 0⟩, ⟨0, 1⟩], [⟨0, -1⟩, ⟨1, 0⟩]])
    (rowsMat 2 2 [[⟨1, 0⟩, ⟨0, 0⟩], [⟨0, 0⟩, ⟨-1, 0⟩]]) (1 / 1000) = .ok .no := by
  decide +kernel

/-- a non-diagonal complex signature `η = [[0, -i], [i, 0]]` (`σ_y`): `η [[a, b], [c, d]] η⁻¹ = [[d, -c], [-b, a]]`, so
    `H = [[1+i, 2], [3, -1+i]]` is far from pseudo-Hermitian and `H = [[1+i, 2i], [3i, 1-i]]` is pseudo-Hermitian -/
example : pseudoHermitianVL (rowsMat 2 2 [[⟨1, 1⟩, ⟨2, 0⟩], [⟨3, 0⟩, ⟨-1, 1⟩]])
      (rowsMat 2 2 [[⟨0, 0⟩, ⟨0, -1⟩], [⟨0, 1⟩, ⟨0, 0⟩]]) (1 / 1000) = .ok .no ∧
    pseudoHermitianVL (rowsMat 2 2 [[⟨1, 1⟩, ⟨0, 2⟩], [⟨0, 3⟩, ⟨1, -1⟩]])
      (rowsMat 2 2 [[⟨0, 0⟩, ⟨0, -1⟩], [⟨0, 1⟩, ⟨0, 0⟩]]) (1 / 1000) = .ok .yes := by
  decide +kernel

/-- the two `ValueError`s and the shape guard -/
example : pseudoHermitianVL (rowsMat 2 2 [[⟨1, 0⟩, ⟨0, 0⟩], [⟨0, 0⟩, ⟨1, 0⟩]])
      (rowsMat 2 2 [[⟨0, 0⟩, ⟨1, 0⟩], [⟨0, 0⟩, ⟨0, 0⟩]]) (1 / 1000) = .error "SignatureNotHermitian" ∧
    pseudoHermitianVL (rowsMat 2 2 [[⟨1, 0⟩, ⟨0, 0⟩], [⟨0, 0⟩, ⟨1, 0⟩]])
      (rowsMat 2 2 [[⟨1, 0⟩, ⟨1, 0⟩], [⟨1, 0⟩, ⟨1, 0⟩]]) (1 / 1000) = .error "SignatureNotInvertible" ∧
    pseudoHermitianVL (rowsMat 1 1 [[⟨1, 0⟩]])
      (rowsMat 2 2 [[⟨1, 0⟩, ⟨0, 0⟩], [⟨0, 0⟩, ⟨-1, 0⟩]]) (1 / 1000) = .ok .no := by
  decide +kernel

end Toq.MatrixPreds
