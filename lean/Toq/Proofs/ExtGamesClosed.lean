import Toq.Proofs.ExtGamesRep
import Mathlib.Analysis.SpecialFunctions.Trigonometric.Basic
/-!
# Closed forms for C09: Wiesner's money (3/4) — exact certificates

Wiesner's ensemble `{|0⟩, |1⟩, |+⟩, |−⟩}` with uniform priors.  The cloning operator is homogeneous of degree 6 in the
state vectors, so `|±⟩ = (1, ±1)/√2` enter as the integer vectors `(1, ±1)` with prior `(1/4)·(1/√2)^6 = 1/32`: the operator
`wiesnerQ` below IS the operator `Σ_k p_k |ψ_kψ_kψ̄_k⟩⟨ψ_kψ_kψ̄_k|` of the ensemble, and it is rational.
Primal point: the Choi operator of the optimal cloner of Molina–Vidick–Watrous (Kraus operators
`A₀ = [[3,0],[0,1],[0,1],[1,0]]/√12`, `A₁ = [[0,1],[1,0],[1,0],[0,3]]/√12`); dual point `Y = (3/8)·1`.
The PSD witnesses are exact factorisations over `ℚ[i]` (`L Lᴴ = A`; rational `LDLᵀ` with every pivot written as a sum of
squares of Gaussian rationals).
-/

open Matrix Kronecker
open scoped ComplexOrder MatrixOrder

namespace Toq.ExtGames
open EMat

private def rq (rows : Array (Array Rat)) (n m : Nat) : EMat n m :=
  EMat.ofRows (rows.map fun r => r.map fun q => (⟨q, 0⟩ : QI)) n m

/-- `|0⟩`, `|1⟩`, `√2|+⟩`, `√2|−⟩` -/
def wiesnerStates : List (EMat 2 1) :=
  [rq #[#[1], #[0]] 2 1, rq #[#[0], #[1]] 2 1, rq #[#[1], #[1]] 2 1, rq #[#[1], #[-1]] 2 1]

/-- priors `1/4` each; the factor `(1/√2)^6 = 1/8` of the unnormalised `|±⟩` is absorbed here -/
def wiesnerProbs : List Rat := [1 / 4, 1 / 4, 1 / 32, 1 / 32]

/-- the operator `Q` of `optimal_clone` for Wiesner's ensemble (on `(ℂ² ⊗ ℂ²) ⊗ ℂ²`) -/
def wiesnerQ : EMat (4 * 2) (4 * 2) := cloneQ wiesnerStates wiesnerProbs

/-- Choi operator of the optimal cloner -/
def wiesnerX : EMat (4 * 2) (4 * 2) := rq
  #[#[(3/4), 0, 0, (1/4), 0, (1/4), (1/4), 0],
    #[0, (1/12), (1/12), 0, (1/12), 0, 0, (1/4)],
    #[0, (1/12), (1/12), 0, (1/12), 0, 0, (1/4)],
    #[(1/4), 0, 0, (1/12), 0, (1/12), (1/12), 0],
    #[0, (1/12), (1/12), 0, (1/12), 0, 0, (1/4)],
    #[(1/4), 0, 0, (1/12), 0, (1/12), (1/12), 0],
    #[(1/4), 0, 0, (1/12), 0, (1/12), (1/12), 0],
    #[0, (1/4), (1/4), 0, (1/4), 0, 0, (3/4)]] (4 * 2) (4 * 2)

/-- `wiesnerX = L Lᴴ` -/
def wiesnerLX : EMat (4 * 2) 6 := EMat.ofRows
  #[#[⟨(1/2), 0⟩, ⟨0, 0⟩, ⟨(1/2), 0⟩, ⟨0, 0⟩, ⟨(1/2), 0⟩, ⟨0, 0⟩],
    #[⟨0, 0⟩, ⟨(1/6), 0⟩, ⟨0, 0⟩, ⟨(1/6), 0⟩, ⟨0, 0⟩, ⟨(1/6), 0⟩],
    #[⟨0, 0⟩, ⟨(1/6), 0⟩, ⟨0, 0⟩, ⟨(1/6), 0⟩, ⟨0, 0⟩, ⟨(1/6), 0⟩],
    #[⟨(1/6), 0⟩, ⟨0, 0⟩, ⟨(1/6), 0⟩, ⟨0, 0⟩, ⟨(1/6), 0⟩, ⟨0, 0⟩],
    #[⟨0, 0⟩, ⟨(1/6), 0⟩, ⟨0, 0⟩, ⟨(1/6), 0⟩, ⟨0, 0⟩, ⟨(1/6), 0⟩],
    #[⟨(1/6), 0⟩, ⟨0, 0⟩, ⟨(1/6), 0⟩, ⟨0, 0⟩, ⟨(1/6), 0⟩, ⟨0, 0⟩],
    #[⟨(1/6), 0⟩, ⟨0, 0⟩, ⟨(1/6), 0⟩, ⟨0, 0⟩, ⟨(1/6), 0⟩, ⟨0, 0⟩],
    #[⟨0, 0⟩, ⟨(1/2), 0⟩, ⟨0, 0⟩, ⟨(1/2), 0⟩, ⟨0, 0⟩, ⟨(1/2), 0⟩]] (4 * 2) 6

/-- dual point `Y = (3/8)·1` -/
def wiesnerY : EMat 2 2 := rq #[#[3 / 8, 0], #[0, 3 / 8]] 2 2

/-- `1 ⊗ Y − Q = L Lᴴ` -/
def wiesnerLY : EMat (4 * 2) 8 := EMat.ofRows
  #[#[⟨(1/4), 0⟩, ⟨0, 0⟩, ⟨0, 0⟩, ⟨0, 0⟩, ⟨0, 0⟩, ⟨0, 0⟩, ⟨0, 0⟩, ⟨0, 0⟩],
    #[⟨0, 0⟩, ⟨(1/4), (1/2)⟩, ⟨0, 0⟩, ⟨0, 0⟩, ⟨0, 0⟩, ⟨0, 0⟩, ⟨0, 0⟩, ⟨0, 0⟩],
    #[⟨0, 0⟩, ⟨(-1/20), (-1/10)⟩, ⟨(1/2), (1/5)⟩, ⟨(1/10), 0⟩, ⟨0, 0⟩, ⟨0, 0⟩, ⟨0, 0⟩, ⟨0, 0⟩],
    #[⟨(-1/4), 0⟩, ⟨0, 0⟩, ⟨0, 0⟩, ⟨0, 0⟩, ⟨(1/2), 0⟩, ⟨0, 0⟩, ⟨0, 0⟩, ⟨0, 0⟩],
    #[⟨0, 0⟩, ⟨(-1/20), (-1/10)⟩, ⟨(-1/8), (-1/20)⟩, ⟨(-1/40), 0⟩, ⟨0, 0⟩, ⟨(3/8), (3/8)⟩, ⟨0, 0⟩, ⟨0, 0⟩],
    #[⟨(-1/4), 0⟩, ⟨0, 0⟩, ⟨0, 0⟩, ⟨0, 0⟩, ⟨(-1/4), 0⟩, ⟨0, 0⟩, ⟨(1/4), (1/4)⟩, ⟨(1/4), 0⟩],
    #[⟨(-1/4), 0⟩, ⟨0, 0⟩, ⟨0, 0⟩, ⟨0, 0⟩, ⟨(-1/4), 0⟩, ⟨0, 0⟩, ⟨(-1/4), (-1/4)⟩, ⟨(-1/4), 0⟩],
    #[⟨0, 0⟩, ⟨(-1/20), (-1/10)⟩, ⟨(-1/8), (-1/20)⟩, ⟨(-1/40), 0⟩, ⟨0, 0⟩, ⟨(-1/8), (-1/8)⟩, ⟨0, 0⟩, ⟨0, 0⟩]] (4 * 2) 8

theorem wiesner_primal_accepts : checkHedgeMaxPrimal 4 2 wiesnerQ wiesnerX wiesnerLX = some (3 / 4) := by decide +kernel

theorem wiesner_dual_accepts : checkHedgeMaxDual 4 2 wiesnerQ wiesnerY wiesnerLY = some (3 / 4) := by decide +kernel


/-! ## Rank-one operators in Schmidt form: `Q = |w⟩⟨w|`, `w = Σ_i a_i |i i⟩`, `a ≥ 0` — optimum `(Σ a_i)²`

Primal point: the Choi operator `|Φ⟩⟨Φ|`, `Φ = Σ_i |i i⟩` of the identity channel (`rankOneQ 1`), value `|⟨Φ|w⟩|² = (Σ a_i)²`;
dual point `Y = (Σ a)·diag(a)`: `1 ⊗ Y − |w⟩⟨w| ⪰ 0` by the weighted Cauchy–Schwarz inequality.  The Molina–Watrous operator
`q₁ = w wᵀ`, `w = cos(π/8)/√2 |00⟩ + sin(π/8)/√2 |11⟩` of the docstring of `QuantumHedging` is the case `m = 2`. -/

section RankOne
variable {m : ℕ}

/-- `Σ_i a_i |i i⟩` -/
def diagVec (a : Fin m → ℝ) : Fin m × Fin m → ℂ := fun p => if p.1 = p.2 then (a p.1 : ℂ) else 0

/-- `|w⟩⟨w|` for `w = Σ_i a_i |i i⟩` -/
def rankOneQ (a : Fin m → ℝ) : Matrix (Fin m × Fin m) (Fin m × Fin m) ℂ := vecMulVec (diagVec a) (star (diagVec a))

/-- dual point `Y = (Σ a) · diag(a)` -/
def rankOneY (a : Fin m → ℝ) : Matrix (Fin m) (Fin m) ℂ := Matrix.diagonal fun i => (((∑ k, a k) * a i : ℝ) : ℂ)

theorem star_diagVec (a : Fin m → ℝ) : star (diagVec a) = diagVec a := by
  funext p
  simp only [Pi.star_apply, diagVec]
  split <;> simp

theorem diagVec_dot (a b : Fin m → ℝ) : diagVec a ⬝ᵥ diagVec b = ((∑ i, a i * b i : ℝ) : ℂ) := by
  simp only [dotProduct, Fintype.sum_prod_type, diagVec]
  push_cast
  refine Finset.sum_congr rfl fun i _ => ?_
  rw [Finset.sum_eq_single i]
  · simp
  · intro j _ hj; simp [Ne.symm hj]
  · simp

theorem idChoi_feasible : HedgeFeasible (rankOneQ (m := m) fun _ => 1) := by
  refine ⟨Matrix.posSemidef_vecMulVec_self_star _, ?_⟩
  ext j j'
  simp only [ptrace1, rankOneQ, Matrix.vecMulVec_apply, star_diagVec, diagVec, Matrix.one_apply]
  by_cases h : j = j'
  · subst h
    rw [Finset.sum_eq_single j]
    · simp
    · intro i _ hi; simp [hi]
    · simp
  · rw [if_neg h]
    refine Finset.sum_eq_zero fun i _ => ?_
    by_cases h1 : i = j
    · subst h1; simp [h]
    · simp [h1]

theorem rankOne_value (a : Fin m → ℝ) :
    (rankOneQ a * rankOneQ (m := m) fun _ => 1).trace = (((∑ i, a i) ^ 2 : ℝ) : ℂ) := by
  unfold rankOneQ
  rw [Matrix.vecMulVec_mul_vecMulVec, Matrix.trace_vecMulVec, dotProduct_smul, star_diagVec, star_diagVec, diagVec_dot,
    smul_eq_mul]
  push_cast
  simp only [mul_one]
  ring

theorem rankOneY_trace (a : Fin m → ℝ) : (rankOneY a).trace = (((∑ i, a i) ^ 2 : ℝ) : ℂ) := by
  simp only [rankOneY, Matrix.trace_diagonal]
  push_cast
  rw [← Finset.mul_sum]
  ring


/-- weighted Cauchy–Schwarz: `(Σ a_i t_i)² ≤ (Σ a_i)(Σ a_i t_i²)` for `a ≥ 0` -/
theorem weighted_cs (a t : Fin m → ℝ) (ha : ∀ i, 0 ≤ a i) :
    (∑ i, a i * t i) ^ 2 ≤ (∑ i, a i) * ∑ i, a i * t i ^ 2 := by
  have h := Finset.sum_mul_sq_le_sq_mul_sq Finset.univ (fun i => Real.sqrt (a i)) (fun i => Real.sqrt (a i) * t i)
  have e1 : ∀ i, Real.sqrt (a i) * (Real.sqrt (a i) * t i) = a i * t i := fun i => by
    rw [← mul_assoc, Real.mul_self_sqrt (ha i)]
  have e2 : ∀ i, Real.sqrt (a i) ^ 2 = a i := fun i => Real.sq_sqrt (ha i)
  have e3 : ∀ i, (Real.sqrt (a i) * t i) ^ 2 = a i * t i ^ 2 := fun i => by rw [mul_pow, e2]
  simpa only [e1, e2, e3] using h

theorem rankOne_dual_psd (a : Fin m → ℝ) (ha : ∀ i, 0 ≤ a i) :
    (((1 : Matrix (Fin m) (Fin m) ℂ) ⊗ₖ rankOneY a) - rankOneQ a).PosSemidef := by
  set S : ℝ := ∑ k, a k with hS
  have hdiag : ((1 : Matrix (Fin m) (Fin m) ℂ) ⊗ₖ rankOneY a)
      = Matrix.diagonal fun p : Fin m × Fin m => (((S * a p.2 : ℝ)) : ℂ) := by
    rw [← Matrix.diagonal_one, rankOneY, Matrix.diagonal_kronecker_diagonal]
    congr 1; funext p; rw [one_mul]
  have hH : (((1 : Matrix (Fin m) (Fin m) ℂ) ⊗ₖ rankOneY a) - rankOneQ a).IsHermitian := by
    refine Matrix.IsHermitian.sub ?_ (Matrix.posSemidef_vecMulVec_self_star _).isHermitian
    rw [hdiag, Matrix.IsHermitian, Matrix.diagonal_conjTranspose]
    congr 1; funext p; simp
  refine Matrix.PosSemidef.of_dotProduct_mulVec_nonneg hH fun x => ?_
  -- the quadratic form
  have hz : star (diagVec a) ⬝ᵥ x = ∑ i, (a i : ℂ) * x (i, i) := by
    rw [star_diagVec]
    simp only [dotProduct, Fintype.sum_prod_type, diagVec]
    refine Finset.sum_congr rfl fun i _ => ?_
    rw [Finset.sum_eq_single i]
    · simp
    · intro j _ hj; simp [Ne.symm hj]
    · simp
  set z : ℂ := ∑ i, (a i : ℂ) * x (i, i) with hzdef
  have hq : star x ⬝ᵥ (rankOneQ a *ᵥ x) = ((Complex.normSq z : ℝ) : ℂ) := by
    unfold rankOneQ
    have hz' : star x ⬝ᵥ diagVec a = star z := by rw [Matrix.star_dotProduct, hz]
    rw [Matrix.vecMulVec_mulVec, hz, dotProduct_smul, hz', MulOpposite.smul_eq_mul_unop, MulOpposite.unop_op,
      Complex.normSq_eq_conj_mul_self, Complex.star_def]
  have hd : star x ⬝ᵥ (((1 : Matrix (Fin m) (Fin m) ℂ) ⊗ₖ rankOneY a) *ᵥ x)
      = ((∑ p : Fin m × Fin m, S * a p.2 * Complex.normSq (x p) : ℝ) : ℂ) := by
    rw [hdiag]
    simp only [dotProduct, Matrix.mulVec_diagonal, Pi.star_apply]
    push_cast
    refine Finset.sum_congr rfl fun p _ => ?_
    rw [Complex.star_def, Complex.normSq_eq_conj_mul_self]
    ring
  rw [Matrix.sub_mulVec, dotProduct_sub, hq, hd, ← Complex.ofReal_sub]
  refine Complex.zero_le_real.mpr (sub_nonneg.mpr ?_)
  -- the real inequality
  have h1 : Complex.normSq z ≤ (∑ i, a i * ‖x (i, i)‖) ^ 2 := by
    rw [Complex.normSq_eq_norm_sq]
    refine pow_le_pow_left₀ (norm_nonneg _) ?_ 2
    refine (norm_sum_le _ _).trans (le_of_eq ?_)
    refine Finset.sum_congr rfl fun i _ => ?_
    rw [norm_mul, Complex.norm_real, Real.norm_of_nonneg (ha i)]
  have h2 := weighted_cs a (fun i => ‖x (i, i)‖) ha
  have h3 : ∑ i, a i * ‖x (i, i)‖ ^ 2 ≤ ∑ p : Fin m × Fin m, a p.2 * Complex.normSq (x p) := by
    rw [Fintype.sum_prod_type, Finset.sum_comm]
    refine Finset.sum_le_sum fun j _ => ?_
    have hnn : ∀ i ∈ Finset.univ, 0 ≤ a j * Complex.normSq (x (i, j)) :=
      fun i _ => mul_nonneg (ha j) (Complex.normSq_nonneg _)
    refine le_trans (le_of_eq ?_) (Finset.single_le_sum hnn (Finset.mem_univ j))
    rw [Complex.normSq_eq_norm_sq]
  have hS0 : 0 ≤ S := Finset.sum_nonneg fun i _ => ha i
  calc Complex.normSq z ≤ (∑ i, a i * ‖x (i, i)‖) ^ 2 := h1
    _ ≤ S * ∑ i, a i * ‖x (i, i)‖ ^ 2 := h2
    _ ≤ S * ∑ p : Fin m × Fin m, a p.2 * Complex.normSq (x p) := mul_le_mul_of_nonneg_left h3 hS0
    _ = ∑ p : Fin m × Fin m, S * a p.2 * Complex.normSq (x p) := by
        rw [Finset.mul_sum]; exact Finset.sum_congr rfl fun p _ => by ring

end RankOne

section MW
open Real

/-- `(cos(π/8)/√2 + sin(π/8)/√2)² = cos²(π/8)` -/
theorem mw_value : (cos (π / 8) / √2 + sin (π / 8) / √2) ^ 2 = cos (π / 8) ^ 2 := by
  have h2 : (2 : ℝ) * (π / 8) = π / 4 := by ring
  have hs : sin (π / 4) = 2 * sin (π / 8) * cos (π / 8) := by rw [← h2, sin_two_mul]
  have hc : cos (π / 8) ^ 2 = 1 / 2 + cos (π / 4) / 2 := by rw [← h2]; exact cos_sq _
  have h1 := sin_sq_add_cos_sq (π / 8)
  have hr : (√2 : ℝ) ^ 2 = 2 := sq_sqrt (by norm_num)
  rw [sin_pi_div_four] at hs
  have hsum : cos (π / 8) / √2 + sin (π / 8) / √2 = (cos (π / 8) + sin (π / 8)) / √2 := by ring
  rw [hc, cos_pi_div_four, hsum, div_pow, hr]
  nlinarith [hs, h1]

/-- the Schmidt coefficients of the Molina–Watrous vector `w = α cos θ |00⟩ + √(1-α²) sin θ |11⟩`, `α = 1/√2`, `θ = π/8` -/
noncomputable def mwCoeff : Fin 2 → ℝ := ![cos (π / 8) / √2, sin (π / 8) / √2]

theorem mwCoeff_nonneg : ∀ i, 0 ≤ mwCoeff i := by
  have hc : 0 ≤ cos (π / 8) := cos_nonneg_of_mem_Icc ⟨by linarith [pi_pos], by linarith [pi_pos]⟩
  have hs : 0 ≤ sin (π / 8) := sin_nonneg_of_nonneg_of_le_pi (by linarith [pi_pos]) (by linarith [pi_pos])
  intro i
  fin_cases i
  · exact div_nonneg hc (sqrt_nonneg _)
  · exact div_nonneg hs (sqrt_nonneg _)

theorem mwCoeff_sum_sq : (∑ i, mwCoeff i) ^ 2 = cos (π / 8) ^ 2 := by
  rw [Fin.sum_univ_two]
  exact mw_value

end MW

end Toq.ExtGames
