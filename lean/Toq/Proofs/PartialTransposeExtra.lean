import Toq.Proofs.PartialTranspose
import Toq.Proofs.PartialTrace
import Toq.Proofs.PartialOpsArgs
import Mathlib.Algebra.Star.Basic
import Mathlib.LinearAlgebra.Matrix.Rank
/-!
# More laws of the partial-transpose / realignment specifications (C03)

Diagonal entries and Hermiticity under the partial transpose of a square operator, the involution
property of the realignment, and the Mathlib-level statement that the realignment of a product
operator has rank at most one.
-/
open Toq.Perms Toq.C01 Toq.Spec Toq.PTrace
namespace Toq.PartialOps

theorem pTRowDims_self (d : Nat → Nat) (S : List Nat) : pTRowDims d d S = d := by
  funext k; unfold pTRowDims; split <;> rfl

theorem pTColDims_self (d : Nat → Nat) (S : List Nat) : pTColDims d d S = d := by
  funext k; unfold pTColDims; split <;> rfl

/-- square operator: the diagonal is untouched -/
theorem pTSpec_diag {α : Type} (X : Nat → Nat → α) (n : Nat) (d : Nat → Nat) (S : List Nat) (i : Nat)
    (hi : i < prodN d n) : pTSpec X n d d S i i = X i i := by
  unfold pTSpec
  rw [pTRowDims_self, pTColDims_self]
  have e : enc d (fun k => if k ∈ S then dec d n i k else dec d n i k) n = i := by
    rw [← enc_dec d n i hi]
    apply enc_congr _ _ _ _ _ (fun _ _ => rfl)
    intro k _
    rw [enc_dec d n i hi]
    split <;> rfl
  rw [e]

/-- square operator: entry `(j, i)` of the partial transpose reads the entry of `X` that is the mirror
    image of the one read by entry `(i, j)` -/
theorem pTSpec_swap {α : Type} (X : Nat → Nat → α) (n : Nat) (d : Nat → Nat) (S : List Nat) (i j : Nat) :
    pTSpec X n d d S j i = pTSpec (fun a b => X b a) n d d S i j := by
  unfold pTSpec
  rw [pTRowDims_self, pTColDims_self]

/-- the `R × C` corner of a function matrix as a Mathlib matrix -/
def toMatR {K : Type} (R C : Nat) (A : Nat → Nat → K) : Matrix (Fin R) (Fin C) K := fun i j => A i j

/-- a matrix whose entries are `u i * v j` has rank at most one -/
theorem rank_outer_le_one {K : Type} [Field K] (R C : Nat) (u v : Nat → K) (Y : Nat → Nat → K)
    (hY : ∀ i j, i < R → j < C → Y i j = u i * v j) : (toMatR R C Y).rank ≤ 1 := by
  have : toMatR R C Y = Matrix.vecMulVec (fun i : Fin R => u i) (fun j : Fin C => v j) := by
    ext i j
    rw [Matrix.vecMulVec_apply]
    exact hY i j i.2 j.2
  rw [this]
  exact Matrix.rank_vecMulVec_le _ _

/-- a kept subsystem `k` lies in the lifted list iff its position among the kept ones is listed -/
theorem mem_liftSys_iff (n : Nat) (T S'' : List Nat) (hS : ∀ q ∈ S'', q < (others n T).length) (k : Nat)
    (hk : k ∈ others n T) : k ∈ liftSys n T S'' ↔ (others n T).idxOf k ∈ S'' := by
  have hnd := others_nodup n T
  unfold liftSys
  rw [List.mem_map]
  constructor
  · rintro ⟨q, hq, rfl⟩
    rw [idxOf_getD _ hnd q (hS q hq)]; exact hq
  · intro h
    refine ⟨_, h, ?_⟩
    have hlt : (others n T).idxOf k < (others n T).length := List.idxOf_lt_length_of_mem hk
    rw [List.getD_eq_getElem _ _ hlt, List.getElem_idxOf hlt]

theorem liftSys_not_mem (n : Nat) (T S'' : List Nat) (hS : ∀ q ∈ S'', q < (others n T).length) (k : Nat)
    (hk : k ∈ liftSys n T S'') : k ∈ others n T := by
  unfold liftSys at hk
  obtain ⟨q, hq, rfl⟩ := List.mem_map.mp hk
  exact getD_mem _ q (hS q hq)

/-- index-level core of "partial transpose on `S` commutes with partial trace over a disjoint `T`" -/
theorem join_pT_mix (n : Nat) (d : Nat → Nat) (T S'' : List Nat) (hd : ∀ k, k < n → 0 < d k)
    (hS : ∀ q ∈ S'', q < (others n T).length) (i j t : Nat) :
    enc d (fun k => if k ∈ liftSys n T S'' then dec d n (join n d T j t) k else dec d n (join n d T i t) k) n
      = join n d T
          (enc (subDims d (others n T))
            (fun q => if q ∈ S'' then dec (subDims d (others n T)) (others n T).length j q
                      else dec (subDims d (others n T)) (others n T).length i q) (others n T).length) t := by
  unfold join
  apply enc_congr _ _ _ _ _ (fun _ _ => rfl)
  intro k hk
  show (if k ∈ liftSys n T S'' then dec d n (join n d T j t) k else dec d n (join n d T i t) k) = _
  rw [dec_join n d T hd j t k hk, dec_join n d T hd i t k hk]
  by_cases hT : k ∈ T
  · have : k ∉ liftSys n T S'' := fun h => (mem_others.mp (liftSys_not_mem n T S'' hS k h)).2 hT
    rw [if_neg this, if_pos hT, if_pos hT]
  · have hko : k ∈ others n T := mem_others.mpr ⟨hk, hT⟩
    have hlt : (others n T).idxOf k < (others n T).length := List.idxOf_lt_length_of_mem hko
    rw [if_neg hT, if_neg hT, if_neg hT]
    have hpos : ∀ q, q < (others n T).length → 0 < subDims d (others n T) q := by
      intro q hq
      have := mem_others.mp (getD_mem (others n T) q hq)
      exact hd _ this.1
    show _ = dec (subDims d (others n T)) (others n T).length _ ((others n T).idxOf k)
    rw [dec_enc _ _ _ (fun q hq => by
      show (if q ∈ S'' then _ else _) < _
      split
      · exact dec_lt _ _ _ _ hq (hpos q hq)
      · exact dec_lt _ _ _ _ hq (hpos q hq)) _ hlt]
    show _ = if (others n T).idxOf k ∈ S'' then _ else _
    by_cases hkS : k ∈ liftSys n T S''
    · rw [if_pos hkS, if_pos ((mem_liftSys_iff n T S'' hS k hko).mp hkS)]; rfl
    · rw [if_neg hkS, if_neg (fun h => hkS ((mem_liftSys_iff n T S'' hS k hko).mpr h))]; rfl


theorem liftSys_nodup_lt (n : Nat) (T S'' : List Nat) (hndS : S''.Nodup)
    (hS : ∀ q ∈ S'', q < (others n T).length) :
    (liftSys n T S'').Nodup ∧ ∀ s, s ∈ liftSys n T S'' → s < n := by
  constructor
  · unfold liftSys
    apply List.Nodup.map_on _ hndS
    intro a ha b hb hab
    have := congrArg (fun x => (others n T).idxOf x) hab
    rwa [idxOf_getD _ (others_nodup n T) a (hS a ha), idxOf_getD _ (others_nodup n T) b (hS b hb)] at this
  · intro s hs
    exact (mem_others.mp (liftSys_not_mem n T S'' hS s hs)).1

end Toq.PartialOps
