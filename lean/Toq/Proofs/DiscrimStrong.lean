import Toq.Proofs.Discrim
import Toq.Proofs.ExclusionCompact
/-!
# Strong duality and the Holevo–Yuen–Kennedy–Lax conditions for linear optimisation over measurements

Generic setting (any finite index types): `A : κ → Matrix ι ι ℂ` Hermitian "weighted states" (`A i = p_i ρ_i` for
minimum-error discrimination, `A i = −p_i ρ_i` for state exclusion; positivity of `A i` is never used), value of a
measurement `meVal A M = Σ_i Re tr(A_i M_i)`.

* `me_max_attained`: the set of measurements is compact, the value is continuous: a maximiser exists;
* `me_pert_*`: for a measurement `M`, a vector `x` and a small `t ≥ 0` the operators
  `(1 − t xx†) M_i (1 − t xx†) + δ_ij t(2 − t‖x‖²) xx†` again form a measurement, and its value is an explicit quadratic
  polynomial in `t`;
* `me_optimal_lagrange`: at a maximiser `M` the Hermitian part `G` of `Γ = Σ_i A_i M_i` satisfies `G ⪰ A_j` for every `j`
  (otherwise the perturbation in the direction of a negative eigenvector towards outcome `j` would increase the value);
  `Re tr G = meVal A M`: **strong duality with attainment on both sides**;
* `me_hykl_iff`: a measurement is optimal iff `Γ` is Hermitian and `Γ ⪰ A_j` for all `j` (both directions).
-/

open Matrix
open scoped ComplexOrder MatrixOrder

set_option linter.unusedSectionVars false

namespace Toq.Discrim

section Strong
variable {ι κ : Type*} [Fintype ι] [DecidableEq ι] [Fintype κ]

/-- `Σ_i Re tr(A_i M_i)` -/
noncomputable def meVal (A M : κ → Matrix ι ι ℂ) : ℝ := ∑ i, (A i * M i).trace.re

/-- `Γ = Σ_i A_i M_i` -/
def meGamma (A M : κ → Matrix ι ι ℂ) : Matrix ι ι ℂ := ∑ i, A i * M i

theorem meVal_eq_trace_gamma (A M : κ → Matrix ι ι ℂ) : meVal A M = (meGamma A M).trace.re := by
  unfold meVal meGamma
  rw [Matrix.trace_sum, Complex.re_sum]

/-- weak duality in the `meVal` form -/
theorem meVal_le_of_dual (A M : κ → Matrix ι ι ℂ) (Y : Matrix ι ι ℂ) (hM : ∀ i, (M i).PosSemidef)
    (hsum : ∑ i, M i = 1) (hY : ∀ i, (Y - A i).PosSemidef) : meVal A M ≤ Y.trace.re := by
  have h := minErr_weak_duality_gen A (fun _ => (1 : ℝ)) M Y hM hsum (by simpa using hY)
  simpa [meVal] using h

/-- the duality gap `Re tr Y − Σ Re tr(A_i M_i) = Σ Re tr((Y − A_i) M_i)` -/
theorem me_gap_eq (A M : κ → Matrix ι ι ℂ) (Y : Matrix ι ι ℂ) (hsum : ∑ i, M i = 1) :
    Y.trace.re - meVal A M = ∑ i, ((Y - A i) * M i).trace.re := by
  have h2 : Y.trace = ∑ i, (Y * M i).trace := by
    rw [← Matrix.trace_sum, ← Matrix.mul_sum, hsum, Matrix.mul_one]
  unfold meVal
  rw [h2]
  simp only [Matrix.sub_mul, Matrix.trace_sub, Complex.sub_re, Finset.sum_sub_distrib, Complex.re_sum]

/-- PSD `A`, `B` with `Re tr(AB) = 0` have `AB = 0` -/
theorem me_psd_mul_eq_zero {A B : Matrix ι ι ℂ} (hA : A.PosSemidef) (hB : B.PosSemidef)
    (h : (A * B).trace.re = 0) : A * B = 0 := by
  set SA := CFC.sqrt A
  set SB := CFC.sqrt B
  have hSA : SA.PosSemidef := (CFC.sqrt_nonneg A).posSemidef
  have hSB : SB.PosSemidef := (CFC.sqrt_nonneg B).posSemidef
  have eA : SA * SA = A := CFC.sqrt_mul_sqrt_self A hA.nonneg
  have eB : SB * SB = B := CFC.sqrt_mul_sqrt_self B hB.nonneg
  have e1 : ((SB * SA)ᴴ * (SB * SA)).trace = (A * B).trace := by
    rw [Matrix.conjTranspose_mul, hSA.isHermitian.eq, hSB.isHermitian.eq]
    calc (SA * SB * (SB * SA)).trace = (SA * (SB * SB) * SA).trace := by simp only [Matrix.mul_assoc]
      _ = (SA * SA * B).trace := by rw [eB, Matrix.trace_mul_comm, ← Matrix.mul_assoc]
      _ = _ := by rw [eA]
  have h0 : 0 ≤ ((SB * SA)ᴴ * (SB * SA)).trace := (Matrix.posSemidef_conjTranspose_mul_self _).trace_nonneg
  rw [e1] at h0
  obtain ⟨-, him⟩ := Complex.nonneg_iff.mp h0
  have hz : ((SB * SA)ᴴ * (SB * SA)).trace = 0 := by
    rw [e1]; exact Complex.ext (by simpa using h) (by simpa using him.symm)
  have hN : SB * SA = 0 := Matrix.trace_conjTranspose_mul_self_eq_zero_iff.mp hz
  have hN' : SA * SB = 0 := by
    have := congrArg Matrix.conjTranspose hN
    rwa [Matrix.conjTranspose_mul, hSA.isHermitian.eq, hSB.isHermitian.eq, Matrix.conjTranspose_zero] at this
  calc A * B = SA * (SA * SB) * SB := by rw [← eA, ← eB]; simp only [Matrix.mul_assoc]
    _ = 0 := by rw [hN']; simp

/-- zero gap iff complementary slackness -/
theorem me_zero_gap_iff (A M : κ → Matrix ι ι ℂ) (Y : Matrix ι ι ℂ) (hM : ∀ i, (M i).PosSemidef)
    (hsum : ∑ i, M i = 1) (hY : ∀ i, (Y - A i).PosSemidef) :
    meVal A M = Y.trace.re ↔ ∀ i, (Y - A i) * M i = 0 := by
  have hgap := me_gap_eq A M Y hsum
  have hnn : ∀ i ∈ Finset.univ, 0 ≤ ((Y - A i) * M i).trace.re :=
    fun i _ => psd_trace_mul_nonneg (hY i) (hM i)
  constructor
  · intro h i
    have h0 : ∑ i, ((Y - A i) * M i).trace.re = 0 := by rw [← hgap, h, sub_self]
    exact me_psd_mul_eq_zero (hY i) (hM i)
      ((Finset.sum_eq_zero_iff_of_nonneg hnn).mp h0 i (Finset.mem_univ i))
  · intro h
    have h0 : ∑ i, ((Y - A i) * M i).trace.re = 0 :=
      Finset.sum_eq_zero fun i _ => by rw [h i]; simp
    rw [h0] at hgap
    linarith

/-! ## Attainment -/

/-- the maximum of `meVal A` over all measurements is attained -/
theorem me_max_attained [Nonempty κ] (A : κ → Matrix ι ι ℂ) :
    ∃ M : κ → Matrix ι ι ℂ, ((∀ i, (M i).PosSemidef) ∧ ∑ i, M i = 1) ∧
      ∀ M' : κ → Matrix ι ι ℂ, (∀ i, (M' i).PosSemidef) → ∑ i, M' i = 1 → meVal A M' ≤ meVal A M := by
  classical
  have hc : ContinuousOn (fun M : κ → Matrix ι ι ℂ => meVal A M) (Toq.Excl.povmSet ι κ) := by
    apply Continuous.continuousOn
    unfold meVal
    fun_prop
  obtain ⟨M, hM, hmax⟩ := Toq.Excl.povmSet_isCompact.exists_isMaxOn Toq.Excl.povmSet_nonempty hc
  exact ⟨M, hM, fun M' h1 h2 => hmax (show M' ∈ Toq.Excl.povmSet ι κ from ⟨h1, h2⟩)⟩

end Strong

/-! ## The perturbation `M ↦ B M B + δ_j (1 − B²)`, `B = 1 − t P` -/

section Pert
variable {ι κ : Type*} [Fintype ι] [DecidableEq ι] [Fintype κ] [DecidableEq κ]

/-- the perturbed measurement: `(1 − tP) M_i (1 − tP) + δ_ij t(2 − ts) P` (for `P² = sP`) -/
def mePert (M : κ → Matrix ι ι ℂ) (P : Matrix ι ι ℂ) (s t : ℝ) (j : κ) : κ → Matrix ι ι ℂ :=
  fun i => (1 - (t : ℂ) • P) * M i * (1 - (t : ℂ) • P) + if i = j then ((t * (2 - t * s) : ℝ) : ℂ) • P else 0

theorem mePert_B_herm (P : Matrix ι ι ℂ) (hP : Pᴴ = P) (t : ℝ) : (1 - (t : ℂ) • P)ᴴ = 1 - (t : ℂ) • P := by
  rw [conjTranspose_sub, conjTranspose_one, conjTranspose_smul, hP]
  simp

theorem mePert_psd (M : κ → Matrix ι ι ℂ) (P : Matrix ι ι ℂ) (s t : ℝ) (j : κ) (hM : ∀ i, (M i).PosSemidef)
    (hP : P.PosSemidef) (ht : 0 ≤ t * (2 - t * s)) (i : κ) : (mePert M P s t j i).PosSemidef := by
  unfold mePert
  have hB := mePert_B_herm P hP.isHermitian.eq t
  have h1 : ((1 - (t : ℂ) • P) * M i * (1 - (t : ℂ) • P)).PosSemidef := by
    have := (hM i).mul_mul_conjTranspose_same (1 - (t : ℂ) • P)
    rwa [hB] at this
  split
  · exact h1.add (me_psd_smul hP ht)
  · simpa using h1

theorem mePert_sum (M : κ → Matrix ι ι ℂ) (P : Matrix ι ι ℂ) (s t : ℝ) (j : κ) (hsum : ∑ i, M i = 1)
    (hPP : P * P = (s : ℂ) • P) : ∑ i, mePert M P s t j i = 1 := by
  unfold mePert
  rw [Finset.sum_add_distrib, Finset.sum_ite_eq' Finset.univ j, ← Finset.sum_mul, ← Finset.mul_sum, hsum,
    Matrix.mul_one]
  simp only [Finset.mem_univ, if_true]
  rw [Matrix.sub_mul, Matrix.mul_sub, Matrix.mul_sub, Matrix.one_mul, Matrix.mul_one, Matrix.one_mul,
    Matrix.smul_mul, Matrix.mul_smul, hPP]
  push_cast
  module

/-- one term of the value of the perturbed measurement -/
theorem me_pert_term (A M P : Matrix ι ι ℂ) (t : ℝ) :
    (A * ((1 - (t : ℂ) • P) * M * (1 - (t : ℂ) • P))).trace.re
      = (A * M).trace.re - t * ((A * P * M).trace.re + (A * M * P).trace.re)
        + t * t * (A * P * M * P).trace.re := by
  have e : (1 - (t : ℂ) • P) * M * (1 - (t : ℂ) • P)
      = M - (t : ℂ) • (P * M) - (t : ℂ) • (M * P) + ((t : ℂ) * (t : ℂ)) • (P * M * P) := by
    simp only [Matrix.sub_mul, Matrix.mul_sub, Matrix.one_mul, Matrix.mul_one, Matrix.smul_mul,
      Matrix.mul_smul, smul_sub, smul_smul, Matrix.mul_assoc]
    abel
  rw [e]
  simp only [Matrix.mul_add, Matrix.mul_sub, Matrix.mul_smul, Matrix.trace_add, Matrix.trace_sub,
    Matrix.trace_smul, Complex.add_re, Complex.sub_re, smul_eq_mul, Complex.re_ofReal_mul,
    ← Complex.ofReal_mul, Matrix.mul_assoc]
  ring

omit [DecidableEq ι] [DecidableEq κ] [Fintype κ] in
/-- for Hermitian `A`, `P`, `M`: `Re tr(A P M) = Re tr(A M P)` -/
theorem me_re_trace_three (A P M : Matrix ι ι ℂ) (hA : Aᴴ = A) (hP : Pᴴ = P) (hM : Mᴴ = M) :
    (A * P * M).trace.re = (A * M * P).trace.re := by
  have h1 : (A * P * M)ᴴ = M * P * A := by
    rw [conjTranspose_mul, conjTranspose_mul, hA, hP, hM, Matrix.mul_assoc]
  have h2 : (M * P * A).trace = (A * M * P).trace := by
    rw [Matrix.trace_mul_comm, Matrix.mul_assoc]
  have h3 : (A * P * M).trace = star (A * M * P).trace := by
    rw [← h2, ← h1, trace_conjTranspose, star_star]
  rw [h3]
  simp

/-- the value of the perturbed measurement is a quadratic polynomial in `t` -/
theorem meVal_pert (A M : κ → Matrix ι ι ℂ) (P : Matrix ι ι ℂ) (s t : ℝ) (j : κ) (hA : ∀ i, (A i)ᴴ = A i)
    (hM : ∀ i, (M i)ᴴ = M i) (hP : Pᴴ = P) :
    meVal A (mePert M P s t j) = meVal A M
      + 2 * t * ((A j * P).trace.re - (meGamma A M * P).trace.re)
      + t * t * ((∑ i, (A i * P * M i * P).trace.re) - s * (A j * P).trace.re) := by
  have hterm : ∀ i, (A i * mePert M P s t j i).trace.re
      = ((A i * M i).trace.re - 2 * t * (A i * M i * P).trace.re + t * t * (A i * P * M i * P).trace.re)
        + if i = j then t * (2 - t * s) * (A j * P).trace.re else 0 := by
    intro i
    unfold mePert
    rw [Matrix.mul_add, Matrix.trace_add, Complex.add_re, me_pert_term,
      me_re_trace_three (A i) P (M i) (hA i) hP (hM i)]
    congr 1
    · ring
    · split
      · next h =>
        subst h
        rw [Matrix.mul_smul, Matrix.trace_smul, smul_eq_mul, Complex.re_ofReal_mul]
      · simp
  have hG : (meGamma A M * P).trace.re = ∑ i, (A i * M i * P).trace.re := by
    unfold meGamma
    rw [Finset.sum_mul, Matrix.trace_sum, Complex.re_sum]
  unfold meVal
  simp only [hterm]
  rw [Finset.sum_add_distrib, Finset.sum_ite_eq' Finset.univ j, Finset.sum_add_distrib, Finset.sum_sub_distrib,
    ← Finset.mul_sum, ← Finset.mul_sum, hG]
  simp only [Finset.mem_univ, if_true]
  ring

omit [Fintype ι] [DecidableEq ι] [Fintype κ] [DecidableEq κ] in
/-- a quadratic `2 a t + c t²` that is `≤ 0` for all small `t > 0` has `a ≤ 0` -/
theorem me_quad_nonpos (a c t0 : ℝ) (ht0 : 0 < t0) (h : ∀ t, 0 < t → t ≤ t0 → 2 * t * a + t * t * c ≤ 0) :
    a ≤ 0 := by
  by_contra ha
  push Not at ha
  have hc1 : 0 < |c| + 1 := by positivity
  set t := min t0 (a / (|c| + 1)) with ht
  have htpos : 0 < t := lt_min ht0 (div_pos ha hc1)
  have htle : t ≤ t0 := min_le_left _ _
  have ht2 : t ≤ a / (|c| + 1) := min_le_right _ _
  have h1 := h t htpos htle
  have h3 : t * (|c| + 1) ≤ a := by rwa [le_div_iff₀ hc1] at ht2
  have h4 : -|c| ≤ c := neg_abs_le c
  have h5 : 0 ≤ |c| := abs_nonneg c
  -- 2 a + t c ≥ 2 a − t |c| ≥ 2a − a > 0
  have h6 : t * c ≥ -(t * |c|) := by nlinarith
  have h7 : 2 * a + t * c ≤ 0 := by
    have : t * (2 * a + t * c) ≤ 0 := by nlinarith
    by_contra hh
    push Not at hh
    have := mul_pos htpos hh
    linarith
  nlinarith

/-- **First-order optimality.**  At a maximiser `M` of `meVal A` over measurements, for every PSD `P` with `P² = sP`:
`Re tr(A_j P) ≤ Re tr(Γ P)`, `Γ = Σ_i A_i M_i`. -/
theorem me_optimal_dir (A M : κ → Matrix ι ι ℂ) (hA : ∀ i, (A i)ᴴ = A i) (hM : ∀ i, (M i).PosSemidef)
    (hsum : ∑ i, M i = 1)
    (hopt : ∀ M' : κ → Matrix ι ι ℂ, (∀ i, (M' i).PosSemidef) → ∑ i, M' i = 1 → meVal A M' ≤ meVal A M)
    (P : Matrix ι ι ℂ) (s : ℝ) (hs : 0 ≤ s) (hP : P.PosSemidef) (hPP : P * P = (s : ℂ) • P) (j : κ) :
    (A j * P).trace.re ≤ (meGamma A M * P).trace.re := by
  have hs1 : 0 < s + 1 := by linarith
  have key := me_quad_nonpos ((A j * P).trace.re - (meGamma A M * P).trace.re)
    ((∑ i, (A i * P * M i * P).trace.re) - s * (A j * P).trace.re) (1 / (s + 1)) (by positivity) ?_
  · linarith
  · intro t ht ht0
    have hts : t * s ≤ 1 := by
      have : t * (s + 1) ≤ 1 := by rwa [le_div_iff₀ hs1] at ht0
      nlinarith
    have hc : 0 ≤ t * (2 - t * s) := mul_nonneg ht.le (by linarith)
    have h1 := hopt (mePert M P s t j) (mePert_psd M P s t j hM hP hc) (mePert_sum M P s t j hsum hPP)
    rw [meVal_pert A M P s t j hA (fun i => (hM i).isHermitian.eq) hP.isHermitian.eq] at h1
    linarith

/-- Hermitian part of `Γ`: the Lagrange operator -/
noncomputable def meLagrange (A M : κ → Matrix ι ι ℂ) : Matrix ι ι ℂ :=
  (1 / 2 : ℂ) • (meGamma A M + (meGamma A M)ᴴ)

omit [DecidableEq ι] [DecidableEq κ] in
theorem meLagrange_herm (A M : κ → Matrix ι ι ℂ) : (meLagrange A M)ᴴ = meLagrange A M := by
  unfold meLagrange
  rw [conjTranspose_smul, conjTranspose_add, conjTranspose_conjTranspose, add_comm]
  simp

omit [DecidableEq κ] in
theorem meLagrange_trace (A M : κ → Matrix ι ι ℂ) : (meLagrange A M).trace.re = meVal A M := by
  unfold meLagrange
  rw [meVal_eq_trace_gamma, Matrix.trace_smul, Matrix.trace_add, trace_conjTranspose]
  simp
  ring

omit [DecidableEq ι] [DecidableEq κ] in
theorem meLagrange_trace_mul (A M : κ → Matrix ι ι ℂ) (P : Matrix ι ι ℂ) (hP : Pᴴ = P) :
    (meLagrange A M * P).trace.re = (meGamma A M * P).trace.re := by
  unfold meLagrange
  have h : ((meGamma A M)ᴴ * P).trace = star (meGamma A M * P).trace := by
    have : (meGamma A M)ᴴ * P = (P * meGamma A M)ᴴ := by rw [conjTranspose_mul, hP]
    rw [this, trace_conjTranspose, Matrix.trace_mul_comm]
  rw [Matrix.smul_mul, Matrix.trace_smul, Matrix.add_mul, Matrix.trace_add, h]
  simp
  ring

omit [DecidableEq ι] [DecidableEq κ] [Fintype κ] in
/-- `tr(H xx†) = x† H x` -/
theorem me_trace_mul_proj (H : Matrix ι ι ℂ) (x : ι → ℂ) :
    (H * vecMulVec x (star x)).trace = star x ⬝ᵥ (H *ᵥ x) := by
  rw [Matrix.mul_vecMulVec, Matrix.trace_vecMulVec, dotProduct_comm]

omit [DecidableEq ι] [DecidableEq κ] [Fintype κ] in
theorem me_proj_sq (x : ι → ℂ) :
    vecMulVec x (star x) * vecMulVec x (star x) = (((star x ⬝ᵥ x).re : ℝ) : ℂ) • vecMulVec x (star x) := by
  have h := Complex.nonneg_iff.mp (dotProduct_star_self_nonneg x)
  have e : star x ⬝ᵥ x = (((star x ⬝ᵥ x).re : ℝ) : ℂ) := by
    apply Complex.ext
    · rw [Complex.ofReal_re]
    · rw [Complex.ofReal_im]; exact h.2.symm
  rw [Matrix.vecMulVec_mul_vecMulVec, Matrix.vecMulVec_smul, ← e]

/-- **Lagrange operator of a maximiser is dual feasible.**  At a maximiser `M` the Hermitian part `G` of `Σ_i A_i M_i`
satisfies `G ⪰ A_j` for every `j`. -/
theorem me_optimal_lagrange (A M : κ → Matrix ι ι ℂ) (hA : ∀ i, (A i)ᴴ = A i) (hM : ∀ i, (M i).PosSemidef)
    (hsum : ∑ i, M i = 1)
    (hopt : ∀ M' : κ → Matrix ι ι ℂ, (∀ i, (M' i).PosSemidef) → ∑ i, M' i = 1 → meVal A M' ≤ meVal A M)
    (j : κ) : (meLagrange A M - A j).PosSemidef := by
  have hH : (meLagrange A M - A j).IsHermitian := by
    show (meLagrange A M - A j)ᴴ = _
    rw [conjTranspose_sub, meLagrange_herm, hA j]
  refine Matrix.PosSemidef.of_dotProduct_mulVec_nonneg hH fun x => ?_
  have hP : (vecMulVec x (star x)).PosSemidef := Matrix.posSemidef_vecMulVec_self_star x
  have hs : 0 ≤ (star x ⬝ᵥ x).re := (Complex.nonneg_iff.mp (dotProduct_star_self_nonneg x)).1
  have h1 := me_optimal_dir A M hA hM hsum hopt _ _ hs hP (me_proj_sq x) j
  rw [← meLagrange_trace_mul A M _ hP.isHermitian.eq] at h1
  have him : (star x ⬝ᵥ ((meLagrange A M - A j) *ᵥ x)).im = 0 := hH.im_star_dotProduct_mulVec_self x
  have hre : (star x ⬝ᵥ ((meLagrange A M - A j) *ᵥ x)).re
      = (meLagrange A M * vecMulVec x (star x)).trace.re - (A j * vecMulVec x (star x)).trace.re := by
    rw [← me_trace_mul_proj, Matrix.sub_mul, Matrix.trace_sub, Complex.sub_re]
  rw [Complex.nonneg_iff]
  exact ⟨by rw [hre]; linarith, him.symm⟩

/-- **Strong duality with attainment** for `max Σ Re tr(A_i M_i)` over measurements (Hermitian `A_i`, at least one
outcome): some measurement `M` and some Hermitian `Y ⪰ A_j` (all `j`) have `meVal A M = Re tr Y`. -/
theorem me_strong_duality_gen [Nonempty κ] (A : κ → Matrix ι ι ℂ) (hA : ∀ i, (A i)ᴴ = A i) :
    ∃ (M : κ → Matrix ι ι ℂ) (Y : Matrix ι ι ℂ), ((∀ i, (M i).PosSemidef) ∧ ∑ i, M i = 1) ∧ Yᴴ = Y ∧
      (∀ j, (Y - A j).PosSemidef) ∧ meVal A M = Y.trace.re := by
  obtain ⟨M, hM, hopt⟩ := me_max_attained A
  exact ⟨M, meLagrange A M, hM, meLagrange_herm A M,
    fun j => me_optimal_lagrange A M hA hM.1 hM.2 hopt j, (meLagrange_trace A M).symm⟩

/-- **Holevo–Yuen–Kennedy–Lax.**  A measurement `M` maximises `Σ Re tr(A_i M_i)` iff `Γ = Σ_i A_i M_i` is Hermitian and
`Γ ⪰ A_j` for every `j`. -/
theorem me_hykl_iff_gen (A M : κ → Matrix ι ι ℂ) (hA : ∀ i, (A i)ᴴ = A i) (hM : ∀ i, (M i).PosSemidef)
    (hsum : ∑ i, M i = 1) :
    (∀ M' : κ → Matrix ι ι ℂ, (∀ i, (M' i).PosSemidef) → ∑ i, M' i = 1 → meVal A M' ≤ meVal A M)
      ↔ (meGamma A M)ᴴ = meGamma A M ∧ ∀ j, (meGamma A M - A j).PosSemidef := by
  constructor
  · intro hopt
    have hG := me_optimal_lagrange A M hA hM hsum hopt
    have h0 := (me_zero_gap_iff A M (meLagrange A M) hM hsum hG).mp (meLagrange_trace A M).symm
    have hEq : meLagrange A M = meGamma A M := by
      have h1 : ∀ i, meLagrange A M * M i = A i * M i := by
        intro i
        have := h0 i
        rw [Matrix.sub_mul, sub_eq_zero] at this
        exact this
      calc meLagrange A M = meLagrange A M * ∑ i, M i := by rw [hsum, Matrix.mul_one]
        _ = ∑ i, A i * M i := by rw [Finset.mul_sum]; exact Finset.sum_congr rfl fun i _ => h1 i
    rw [← hEq]
    exact ⟨meLagrange_herm A M, hG⟩
  · rintro ⟨-, hG⟩ M' hM' hsum'
    have := meVal_le_of_dual A M' (meGamma A M) hM' hsum' hG
    rwa [← meVal_eq_trace_gamma] at this

end Pert

end Toq.Discrim
