import Toq.Model.Rand
import Toq.Spec.Rand
import Toq.Properties.C01
import Mathlib.Algebra.BigOperators.Group.Finset.Basic
import Mathlib.Tactic.Ring
/-!
# Helper lemmas for C19

1. the seeding state machine (`Toq.Rand.run`): induction over call histories;
2. index algebra of the Schmidt-rank construction of `random_state_vector` (mirror = closed form);
3. matrix algebra over ℂ for the post-processing of the generators, PGM / PBM and `measure`.
-/

open Matrix
open scoped ComplexOrder MatrixOrder

namespace Toq.Rand

/-! ## 1. State machine -/
section machine
variable {Gen Args Seed G E V : Type}
theorem run_nil (env : Env Gen Args Seed G E V) (w : World G E) : run env w [] = (w, []) := rfl

theorem run_cons (env : Env Gen Args Seed G E V) (w : World G E) (op : Op Gen Args) (rest : List (Op Gen Args)) :
    run env w (op :: rest) = ((run env (step env w op).1 rest).1, (step env w op).2 :: (run env (step env w op).1 rest).2) := rfl

theorem step_seeded (env : Env Gen Args Seed G E V) (w : World G E) (g : Gen) (a : Args) (s : Nat) :
    step env w (.seeded g a s) = (w, some (env.draws g a (env.user s))) := rfl

theorem run_length (env : Env Gen Args Seed G E V) : ∀ (h : List (Op Gen Args)) (w : World G E), (run env w h).2.length = h.length
  | [], _ => rfl
  | op :: rest, w => by rw [run_cons]; simp [run_length env rest]

theorem seeded_output_at (env : Env Gen Args Seed G E V) (g : Gen) (a : Args) (s : Nat) :
    ∀ (h : List (Op Gen Args)) (w : World G E) (i : Nat), h[i]? = some (.seeded g a s) →
      (run env w h).2[i]? = some (some (env.draws g a (env.user s)))
  | [], _, i, hi => by simp at hi
  | op :: rest, w, 0, hi => by
      simp only [List.getElem?_cons_zero, Option.some.injEq] at hi
      subst hi
      rw [run_cons]; rfl
  | op :: rest, w, i + 1, hi => by
      rw [run_cons]
      simp only [List.getElem?_cons_succ] at hi ⊢
      exact seeded_output_at env g a s rest _ i hi

theorem step_world_of_seeded (env : Env Gen Args Seed G E V) (w : World G E) (op : Op Gen Args)
    (h : op.isSeeded = true) : (step env w op).1 = w := by
  cases op <;> simp_all [step, Op.isSeeded]

theorem run_filter_not_seeded (env : Env Gen Args Seed G E V) :
    ∀ (h : List (Op Gen Args)) (w : World G E),
      run env w (h.filter (fun op => !op.isSeeded))
        = ((run env w h).1, outputsWhere (fun op => !op.isSeeded) h (run env w h).2)
  | [], w => rfl
  | op :: rest, w => by
      by_cases hop : op.isSeeded = true
      · have ih := run_filter_not_seeded env rest w
        have hw := step_world_of_seeded env w op hop
        simp only [List.filter, hop, Bool.not_true]
        rw [run_cons, hw, ih]
        simp [outputsWhere, hop]
      · have hop' : op.isSeeded = false := by simpa using hop
        have ih := run_filter_not_seeded env rest (step env w op).1
        simp only [List.filter, hop', Bool.not_false]
        rw [run_cons, run_cons, ih]
        simp [outputsWhere, hop']

/-- non-global operations leave the global token alone -/
theorem step_glob_of_not_global (env : Env Gen Args Seed G E V) (w : World G E) (op : Op Gen Args)
    (h : op.isGlobal = false) : (step env w op).1.glob = w.glob := by
  cases op <;> simp_all [step, Op.isGlobal]

/-- global operations only look at the global token -/
theorem step_global_congr (env : Env Gen Args Seed G E V) (w w' : World G E) (op : Op Gen Args)
    (h : op.isGlobal = true) (hg : w.glob = w'.glob) :
    (step env w op).1.glob = (step env w' op).1.glob ∧ (step env w op).2 = (step env w' op).2 := by
  cases op <;> simp_all [step, Op.isGlobal]

theorem global_view (env : Env Gen Args Seed G E V) :
    ∀ (h : List (Op Gen Args)) (w w' : World G E), w.glob = w'.glob →
      (run env w' (h.filter Op.isGlobal)).1.glob = (run env w h).1.glob ∧
      (run env w' (h.filter Op.isGlobal)).2 = outputsWhere Op.isGlobal h (run env w h).2
  | [], w, w', hg => ⟨hg.symm, rfl⟩
  | op :: rest, w, w', hg => by
      by_cases hop : op.isGlobal = true
      · obtain ⟨h1, h2⟩ := step_global_congr env w w' op hop hg
        obtain ⟨i1, i2⟩ := global_view env rest (step env w op).1 (step env w' op).1 h1
        simp only [List.filter, hop]
        rw [run_cons, run_cons]
        refine ⟨i1, ?_⟩
        simp only [outputsWhere, hop, if_true]
        rw [i2, h2]
      · have hop' : op.isGlobal = false := by simpa using hop
        have h1 := step_glob_of_not_global env w op hop'
        obtain ⟨i1, i2⟩ := global_view env rest (step env w op).1 w' (h1.trans hg)
        simp only [List.filter, hop']
        rw [run_cons]
        refine ⟨i1, ?_⟩
        simp only [outputsWhere, hop']
        simpa using i2
end machine

/-! ## 2. `random_state_vector`: mirror = closed form -/
open Toq.Perms

section sums
variable {α : Type} [Semiring α]

theorem sumN_congr' (f g : Nat → α) (n : Nat) (h : ∀ k, k < n → f k = g k) : sumN n f = sumN n g :=
  sumN_congr f g n h

theorem sumN_zero_fn : ∀ n : Nat, sumN n (fun _ => (0 : α)) = 0
  | 0 => rfl
  | n + 1 => by show sumN n _ + 0 = 0; rw [sumN_zero_fn n, add_zero]

theorem sumN_add_index (f : Nat → α) (m : Nat) : ∀ d, sumN (m + d) f = sumN m f + sumN d (fun i => f (m + i))
  | 0 => by show sumN m f = sumN m f + 0; rw [add_zero]
  | d + 1 => by
      show sumN (m + d) f + f (m + d) = sumN m f + (sumN d (fun i => f (m + i)) + f (m + d))
      rw [sumN_add_index f m d, add_assoc]

theorem sumN_mul_index (f : Nat → α) (D : Nat) : ∀ n, sumN (n * D) f = sumN n (fun c => sumN D (fun r => f (c * D + r)))
  | 0 => by simp [sumN]
  | n + 1 => by
      rw [Nat.succ_mul, sumN_add_index, sumN_mul_index f D n]; rfl

/-- `Σ_{r'<D} δ(r = r') · g r' = g r` -/
theorem sumN_delta (g : Nat → α) (r : Nat) : ∀ D, r < D → sumN D (fun r' => (if r = r' then 1 else 0) * g r') = g r
  | 0, h => absurd h (Nat.not_lt_zero _)
  | D + 1, h => by
      show sumN D _ + (if r = D then 1 else 0) * g D = g r
      by_cases hr : r = D
      · subst hr
        rw [sumN_congr' _ (fun _ => 0) r (fun k hk => by rw [if_neg (by omega), zero_mul]), sumN_zero_fn]
        simp
      · rw [sumN_delta g r D (by omega), if_neg hr, zero_mul, add_zero]
end sums

variable {α : Type} [CommSemiring α]

theorem svDims_swap (k d0 d1 : Nat) (m : Nat) :
    svDims k d0 d1 (swapPerm 1 2 m) = (if m = 0 then k else if m = 1 then k else if m = 2 then d0 else d1) := by
  unfold svDims swapPerm
  by_cases h0 : m = 0
  · subst h0; simp
  by_cases h1 : m = 1
  · subst h1; simp
  by_cases h2 : m = 2
  · subst h2; simp
  simp [h0, h1, h2]

/-- `mat_2[(j*k+j')*d0*d1 + s*d1 + t] = a[j*d0+s] * b[j'*d1+t]` -/
theorem svMat2_apply (k d0 d1 : Nat) (a b : Nat → α) (hk : 0 < k) (_h0 : 0 < d0) (h1 : 0 < d1)
    (j j' s t : Nat) (hj : j < k) (hj' : j' < k) (hs : s < d0) (ht : t < d1) :
    svMat2 k d0 d1 a b ((j * k + j') * (d0 * d1) + (s * d1 + t)) = a (j * d0 + s) * b (j' * d1 + t) := by
  let y : Nat → Nat := fun m => if m = 0 then j else if m = 1 then j' else if m = 2 then s else t
  have hperm : Toq.C01.IsPermN 4 (swapPerm 1 2) := Toq.C01.swapPerm_isPerm 4 1 2 (by omega) (by omega)
  have hy : ∀ m, m < 4 → y m < svDims k d0 d1 (swapPerm 1 2 m) := by
    intro m _; rw [svDims_swap]; simp only [y]; split_ifs <;> assumption
  have hidx : (j * k + j') * (d0 * d1) + (s * d1 + t) = enc (fun m => svDims k d0 d1 (swapPerm 1 2 m)) y 4 := by
    simp only [enc, svDims_swap, y]
    simp; ring
  unfold svMat2
  rw [hidx, Toq.C01.permuteVec_relabel _ 4 _ _ y hperm hy]
  have hinv : ∀ m, m < 4 → invPerm 4 (swapPerm 1 2) m = swapPerm 1 2 m := by decide
  have hidx2 : enc (svDims k d0 d1) (fun m => y (invPerm 4 (swapPerm 1 2) m)) 4 = (j * d0 + s) * (k * d1) + (j' * d1 + t) := by
    simp only [enc]
    rw [hinv 0 (by omega), hinv 1 (by omega), hinv 2 (by omega), hinv 3 (by omega)]
    simp [svDims, swapPerm, y]; ring
  rw [hidx2]
  unfold kronCol
  have hlt : j' * d1 + t < k * d1 := by
    calc j' * d1 + t < j' * d1 + d1 := by omega
      _ = (j' + 1) * d1 := by ring
      _ ≤ k * d1 := Nat.mul_le_mul_right _ hj'
  have hpos : 0 < k * d1 := Nat.mul_pos hk h1
  rw [Nat.mul_comm (j * d0 + s), Nat.mul_add_div hpos, Nat.div_eq_of_lt hlt, Nat.add_zero,
    Nat.mul_add_mod, Nat.mod_eq_of_lt hlt]


theorem maxEnt_apply (k j j' : Nat) (hj : j < k) (hj' : j' < k) :
    (maxEnt k (j * k + j') : α) = if j = j' then 1 else 0 := by
  unfold maxEnt
  have hk : 0 < k := by omega
  have h1 : (j * k + j') / k = j := by
    rw [Nat.mul_comm, Nat.mul_add_div hk, Nat.div_eq_of_lt hj', Nat.add_zero]
  have h2 : (j * k + j') % k = j' := by
    rw [Nat.mul_comm, Nat.mul_add_mod, Nat.mod_eq_of_lt hj']
  have h3 : j * k + j' < k * k := by
    calc j * k + j' < j * k + k := by omega
      _ = (j + 1) * k := by ring
      _ ≤ k * k := Nat.mul_le_mul_right _ hj
  rw [h1, h2]
  simp [h3]

/-- **mirror = closed form**: entry `s*d1+t` of `mat_1 @ mat_2` is `Σ_{j<k} a[j*d0+s]·b[j*d1+t]` -/
theorem svRaw_eq_amp (k d0 d1 : Nat) (a b : Nat → α) (hk : 0 < k) (h0 : 0 < d0) (h1 : 0 < d1)
    (s t : Nat) (hs : s < d0) (ht : t < d1) :
    svRaw k d0 d1 a b (s * d1 + t) = svAmp k d0 d1 a b s t := by
  have hD : 0 < d0 * d1 := Nat.mul_pos h0 h1
  have hr : s * d1 + t < d0 * d1 := by
    calc s * d1 + t < s * d1 + d1 := by omega
      _ = (s + 1) * d1 := by ring
      _ ≤ d0 * d1 := Nat.mul_le_mul_right _ hs
  unfold svRaw svAmp
  rw [sumN_mul_index, sumN_mul_index]
  apply sumN_congr' _ _ k
  intro j hj
  -- inner sums over j' and r'
  have inner : ∀ j', j' < k →
      sumN (d0 * d1) (fun r' => svMat1 k (d0 * d1) (s * d1 + t) ((j * k + j') * (d0 * d1) + r') *
          svMat2 k d0 d1 a b ((j * k + j') * (d0 * d1) + r'))
        = (if j = j' then 1 else 0) * (a (j * d0 + s) * b (j' * d1 + t)) := by
    intro j' hj'
    rw [sumN_congr' _ (fun r' => (if s * d1 + t = r' then 1 else 0) *
        ((maxEnt k (j * k + j') : α) * svMat2 k d0 d1 a b ((j * k + j') * (d0 * d1) + r'))) _ ?_]
    · rw [sumN_delta _ _ _ hr, maxEnt_apply k j j' hj hj', svMat2_apply k d0 d1 a b hk h0 h1 j j' s t hj hj' hs ht]
    · intro r' hr'
      unfold svMat1
      have e1 : ((j * k + j') * (d0 * d1) + r') / (d0 * d1) = j * k + j' := by
        rw [Nat.mul_comm, Nat.mul_add_div hD, Nat.div_eq_of_lt hr', Nat.add_zero]
      have e2 : ((j * k + j') * (d0 * d1) + r') % (d0 * d1) = r' := by
        rw [Nat.mul_comm, Nat.mul_add_mod, Nat.mod_eq_of_lt hr']
      rw [e1, e2]; ring
  rw [sumN_congr' _ (fun j' => (if j = j' then 1 else 0) * (a (j * d0 + s) * b (j' * d1 + t))) k inner]
  exact sumN_delta (fun j' => a (j * d0 + s) * b (j' * d1 + t)) j k hj


/-! ## 3. Matrix algebra -/

section density
variable {d k : Nat}
/-- trace of G Gᴴ is a non-negative real -/
theorem trace_self_mul_ct_nonneg {m n : Type*} [Fintype m] [Fintype n] (G : Matrix m n ℂ) : 0 ≤ (G * Gᴴ).trace :=
  (posSemidef_self_mul_conjTranspose G).trace_nonneg

theorem density_psd {m n : Type*} [Fintype m] [Fintype n] (G : Matrix m n ℂ) :
    ((G * Gᴴ).trace⁻¹ • (G * Gᴴ)).PosSemidef := by
  have h := trace_self_mul_ct_nonneg G
  exact (posSemidef_self_mul_conjTranspose G).smul (inv_nonneg.mpr h)

theorem density_trace {m n : Type*} [Fintype m] [Fintype n] (G : Matrix m n ℂ) (h : (G * Gᴴ).trace ≠ 0) :
    ((G * Gᴴ).trace⁻¹ • (G * Gᴴ)).trace = 1 := by
  rw [trace_smul, smul_eq_mul, inv_mul_cancel₀ h]

theorem rank_smul_le {m n : Type*} [Fintype m] [Fintype n] (c : ℂ) (A : Matrix m n ℂ) : (c • A).rank ≤ A.rank := by
  classical
  have : c • A = A * (c • (1 : Matrix n n ℂ)) := by simp
  rw [this]; exact rank_mul_le_left _ _

theorem density_rank  (G : Matrix (Fin d) (Fin k) ℂ) :
    ((G * Gᴴ).trace⁻¹ • (G * Gᴴ)).rank ≤ k := by
  refine (rank_smul_le _ _).trans ((rank_mul_le_left _ _).trans ?_)
  simpa using rank_le_card_width G
end density

section unitary
variable {R : Type*} [CommRing R] [StarRing R] {ι : Type*} [Fintype ι] [DecidableEq ι]

theorem diag_unimodular_ct_mul (u : ι → R) (hu : ∀ i, star (u i) * u i = 1) :
    (diagonal u)ᴴ * diagonal u = 1 := by
  rw [diagonal_conjTranspose, diagonal_mul_diagonal]
  ext i j
  by_cases h : i = j
  · subst h; simp [hu]
  · simp [h]

theorem unitary_post_left (Q : Matrix ι ι R) (u : ι → R) (hQ : Qᴴ * Q = 1) (hu : ∀ i, star (u i) * u i = 1) :
    (Q * diagonal u)ᴴ * (Q * diagonal u) = 1 := by
  rw [conjTranspose_mul, Matrix.mul_assoc, ← Matrix.mul_assoc Qᴴ, hQ, Matrix.one_mul, diag_unimodular_ct_mul u hu]

theorem unitary_post_right (Q : Matrix ι ι R) (u : ι → R) (hQ : Qᴴ * Q = 1) (hu : ∀ i, star (u i) * u i = 1) :
    (Q * diagonal u) * (Q * diagonal u)ᴴ = 1 :=
  mul_eq_one_comm.mp (unitary_post_left Q u hQ hu)
end unitary

theorem csign_unimodular (z : ℂ) : star (csign z) * csign z = 1 := by
  unfold csign
  split_ifs with h
  · simp
  · have hn : (‖z‖ : ℂ) ≠ 0 := by simpa using h
    rw [Complex.star_def, map_div₀, Complex.conj_ofReal, div_mul_div_comm, mul_comm, Complex.mul_conj, Complex.normSq_eq_norm_sq]
    field_simp
    push_cast; ring

theorem rsign_unimodular (x : ℝ) : star (rsign x) * rsign x = 1 := by
  unfold rsign; split_ifs <;> simp

theorem psd_post {ι : Type*} [Fintype ι] [DecidableEq ι] (Q : Matrix ι ι ℂ) (ev : ι → ℝ) :
    (Q * diagonal (fun i => ((|ev i| : ℝ) : ℂ)) * Qᴴ).PosSemidef := by
  apply PosSemidef.mul_mul_conjTranspose_same
  apply PosSemidef.diagonal
  intro i; simp

section povm
variable {ι : Type*} [Fintype ι] [DecidableEq ι] {κ : Type*} [Fintype κ]

omit [DecidableEq ι] in
/-- conjugating a family by `B` -/
theorem sum_conj (B : Matrix ι ι ℂ) (T : κ → Matrix ι ι ℂ) :
    ∑ i, Bᴴ * T i * B = Bᴴ * (∑ i, T i) * B := by
  rw [Matrix.mul_sum, Matrix.sum_mul]

theorem povm_of_conj (B : Matrix ι ι ℂ) (T : κ → Matrix ι ι ℂ) (hT : ∀ i, (T i).PosSemidef)
    (h : Bᴴ * (∑ i, T i) * B = 1) : IsPOVM (fun i => Bᴴ * T i * B) :=
  ⟨fun i => (hT i).conjTranspose_mul_mul_same B, by rw [sum_conj, h]⟩

/-- random_povm -/
theorem povm_post (A : κ → Matrix ι ι ℂ) (U : Matrix ι ι ℂ) (s : ι → ℝ)
    (hU : Uᴴ * U = 1) (hs : ∀ i, 0 < s i)
    (hS : ∑ i, (A i)ᴴ * A i = U * diagonal (fun i => (s i : ℂ)) * Uᴴ) :
    IsPOVM (fun i => (A i * U * diagonal (fun j => (((Real.sqrt (s j))⁻¹ : ℝ) : ℂ)))ᴴ *
        (A i * U * diagonal (fun j => (((Real.sqrt (s j))⁻¹ : ℝ) : ℂ)))) := by
  set D := diagonal (fun j => (((Real.sqrt (s j))⁻¹ : ℝ) : ℂ)) with hD
  have hDh : Dᴴ = D := by
    rw [hD, diagonal_conjTranspose]; congr 1; ext j; simp
  have key : (U * D)ᴴ * (∑ i, (A i)ᴴ * A i) * (U * D) = 1 := by
    rw [hS, conjTranspose_mul, hDh]
    have : D * Uᴴ * (U * diagonal (fun i => (s i : ℂ)) * Uᴴ) * (U * D)
        = D * (Uᴴ * U) * diagonal (fun i => (s i : ℂ)) * (Uᴴ * U) * D := by
      simp only [Matrix.mul_assoc]
    rw [this, hU, Matrix.mul_one, Matrix.mul_one, hD, diagonal_mul_diagonal, diagonal_mul_diagonal]
    rw [← diagonal_one]; congr 1; ext j
    have h0 : 0 ≤ s j := (hs j).le
    have h1 : Real.sqrt (s j) ≠ 0 := (Real.sqrt_pos.mpr (hs j)).ne'
    have : ((Real.sqrt (s j))⁻¹ * s j * (Real.sqrt (s j))⁻¹ : ℝ) = 1 := by
      field_simp
      rw [Real.sq_sqrt h0]
    exact_mod_cast this
  have := povm_of_conj (U * D) (fun i => (A i)ᴴ * A i) (fun i => posSemidef_conjTranspose_mul_self (A i)) key
  convert this using 2
  simp only [conjTranspose_mul, Matrix.mul_assoc]

/-- pretty good measurement -/
theorem pgm_is_povm (ρ : κ → Matrix ι ι ℂ) (p : κ → ℝ) (S : Matrix ι ι ℂ)
    (hρ : ∀ i, (ρ i).PosSemidef) (hp : ∀ i, 0 ≤ p i) (hS : Sᴴ = S)
    (hSPS : S * (∑ i, (p i : ℂ) • ρ i) * S = 1) :
    IsPOVM (fun i => S * ((p i : ℂ) • ρ i) * S) := by
  have := povm_of_conj S (fun i => (p i : ℂ) • ρ i)
    (fun i => (hρ i).smul (by exact_mod_cast hp i)) (by rw [hS]; exact hSPS)
  simpa [hS] using this

omit [DecidableEq ι] [Fintype ι] in
theorem sum_erase_eq [DecidableEq κ] (G : κ → Matrix ι ι ℂ) (i : κ) : ∑ j, G j - G i = ∑ j ∈ Finset.univ.erase i, G j := by
  rw [← Finset.add_sum_erase _ _ (Finset.mem_univ i)]; abel

theorem pbm_is_povm (G : κ → Matrix ι ι ℂ) (hG : IsPOVM G) (hn : 2 ≤ Fintype.card κ) :
    IsPOVM (fun i => ((Fintype.card κ : ℂ) - 1)⁻¹ • (1 - G i)) := by
  classical
  have hc : ((Fintype.card κ : ℂ) - 1) ≠ 0 := by
    have : (1 : ℝ) < (Fintype.card κ : ℝ) := by exact_mod_cast hn
    have h2 : ((Fintype.card κ : ℂ) - 1) = (((Fintype.card κ : ℝ) - 1 : ℝ) : ℂ) := by push_cast; ring
    rw [h2]; exact_mod_cast (sub_pos.mpr this).ne'
  have hc0 : (0 : ℂ) ≤ ((Fintype.card κ : ℂ) - 1)⁻¹ := by
    have : (1 : ℝ) < (Fintype.card κ : ℝ) := by exact_mod_cast hn
    have h2 : ((Fintype.card κ : ℂ) - 1)⁻¹ = ((((Fintype.card κ : ℝ) - 1)⁻¹ : ℝ) : ℂ) := by push_cast; ring
    rw [h2]; exact_mod_cast (inv_pos.mpr (sub_pos.mpr this)).le
  refine ⟨fun i => ?_, ?_⟩
  · refine PosSemidef.smul ?_ hc0
    rw [← hG.2, sum_erase_eq]
    exact posSemidef_sum _ (fun j _ => hG.1 j)
  · rw [← Finset.smul_sum, Finset.sum_sub_distrib, hG.2, Finset.sum_const, Finset.card_univ]
    rw [← Nat.cast_smul_eq_nsmul ℂ]
    nth_rewrite 2 [← one_smul ℂ (1 : Matrix ι ι ℂ)]
    rw [← sub_smul, smul_smul, inv_mul_cancel₀ hc, one_smul]
end povm

section measure
variable {ι : Type*} [Fintype ι] {μ : Type*} [Fintype μ] {κ : Type*} [Fintype κ]

theorem measure_born (K : Matrix μ ι ℂ) (ρ : Matrix ι ι ℂ) :
    (K * ρ * Kᴴ).trace = (Kᴴ * K * ρ).trace := by
  rw [Matrix.mul_assoc, Matrix.trace_mul_comm, Matrix.trace_mul_comm (Kᴴ * K), Matrix.mul_assoc]
  

theorem measure_prob_real_nonneg (K : Matrix μ ι ℂ) (ρ : Matrix ι ι ℂ) (hρ : ρ.PosSemidef) :
    0 ≤ (K * ρ * Kᴴ).trace.re ∧ (K * ρ * Kᴴ).trace.im = 0 := by
  have h := (hρ.mul_mul_conjTranspose_same K).trace_nonneg
  rw [Complex.nonneg_iff] at h
  exact ⟨h.1, h.2.symm⟩

theorem measure_probs_sum [DecidableEq ι] (K : κ → Matrix μ ι ℂ) (ρ : Matrix ι ι ℂ) (hK : ∑ i, (K i)ᴴ * K i = 1) :
    ∑ i, (K i * ρ * (K i)ᴴ).trace = ρ.trace := by
  simp_rw [measure_born]
  rw [← Matrix.trace_sum, ← Matrix.sum_mul, hK, Matrix.one_mul]

theorem measure_probs_sum_one [DecidableEq ι] (K : κ → Matrix μ ι ℂ) (ρ : Matrix ι ι ℂ) (hK : ∑ i, (K i)ᴴ * K i = 1)
    (hρ : ρ.trace = 1) : ∑ i, (K i * ρ * (K i)ᴴ).trace.re = 1 := by
  have := congrArg Complex.re (measure_probs_sum K ρ hK)
  rw [Complex.re_sum, hρ] at this
  simpa using this

theorem measure_post_normalised (K : Matrix μ ι ℂ) (ρ : Matrix ι ι ℂ) (hρ : ρ.PosSemidef)
    (hp : (K * ρ * Kᴴ).trace.re ≠ 0) :
    ((((K * ρ * Kᴴ).trace.re : ℝ) : ℂ)⁻¹ • (K * ρ * Kᴴ)).PosSemidef ∧
    ((((K * ρ * Kᴴ).trace.re : ℝ) : ℂ)⁻¹ • (K * ρ * Kᴴ)).trace = 1 := by
  obtain ⟨h0, him⟩ := measure_prob_real_nonneg K ρ hρ
  have htr : (((K * ρ * Kᴴ).trace.re : ℝ) : ℂ) = (K * ρ * Kᴴ).trace := by
    apply Complex.ext <;> simp [him]
  constructor
  · refine (hρ.mul_mul_conjTranspose_same K).smul ?_
    rw [inv_nonneg]; exact_mod_cast h0
  · rw [trace_smul, smul_eq_mul]
    nth_rewrite 2 [← htr]
    exact inv_mul_cancel₀ (by exact_mod_cast hp)

/-- normalisation of a non-zero vector -/
theorem normalise_unit (v : ι → ℂ) (h : ∑ i, Complex.normSq (v i) ≠ 0) :
    ∑ i, Complex.normSq (v i / ((Real.sqrt (∑ j, Complex.normSq (v j)) : ℝ) : ℂ)) = 1 := by
  have hpos : 0 ≤ ∑ j, Complex.normSq (v j) := Finset.sum_nonneg (fun j _ => Complex.normSq_nonneg _)
  simp_rw [map_div₀, Complex.normSq_ofReal, ← sq, Real.sq_sqrt hpos]
  rw [← Finset.sum_div, div_self h]

theorem unitary_columns_orthonormal [DecidableEq ι] (U : Matrix ι ι ℂ) (hU : Uᴴ * U = 1) (i j : ι) :
    ∑ r, star (U r i) * U r j = if i = j then 1 else 0 := by
  have := congrFun (congrFun hU i) j
  simpa [Matrix.mul_apply, Matrix.one_apply] using this
end measure

section circulant
variable {d : Nat}

theorem circGram_apply (c : ℝ) (ω : ℂ) (lam : Fin d → ℝ) (i j : Fin d) :
    circGram d c ω lam i j = ∑ k : Fin d, (c : ℂ) ^ 2 * (lam k : ℂ) * (star (ω ^ (k.val * i.val)) * ω ^ (k.val * j.val)) := by
  unfold circGram
  rw [Matrix.mul_apply]
  refine Finset.sum_congr rfl (fun k _ => ?_)
  rw [Matrix.mul_diagonal, conjTranspose_apply, dftMat_apply, dftMat_apply]
  simp only [star_mul', Complex.star_def, Complex.conj_ofReal]
  ring

theorem circGram_psd (c : ℝ) (ω : ℂ) (lam : Fin d → ℝ) (h : ∀ k, 0 ≤ lam k) : (circGram d c ω lam).PosSemidef := by
  unfold circGram
  apply PosSemidef.conjTranspose_mul_mul_same
  apply PosSemidef.diagonal
  intro k; simpa using h k

theorem pow_mod_of_pow_eq_one {ω : ℂ} {d : Nat} (h : ω ^ d = 1) (m : Nat) : ω ^ m = ω ^ (m % d) := by
  conv_lhs => rw [← Nat.div_add_mod m d, pow_add, pow_mul, h, one_pow, one_mul]

theorem circ_phase (ω : ℂ) (hω : ω ^ d = 1) (hu : star ω * ω = 1) (k i j i' j' : Nat)
    (h : (i + j') % d = (i' + j) % d) :
    star (ω ^ (k * i)) * ω ^ (k * j) = star (ω ^ (k * i')) * ω ^ (k * j') := by
  have hinv : ∀ m : Nat, star (ω ^ m) * ω ^ m = 1 := by
    intro m; rw [star_pow, ← mul_pow, hu, one_pow]
  -- multiply both sides by the unit ω^(k i) ω^(k i')
  have hne : ∀ m : Nat, ω ^ m ≠ 0 := by
    intro m hm; have := hinv m; rw [hm, mul_zero] at this; exact zero_ne_one this
  have e1 : star (ω ^ (k * i)) = (ω ^ (k * i))⁻¹ := eq_inv_of_mul_eq_one_left (hinv _)
  have e2 : star (ω ^ (k * i')) = (ω ^ (k * i'))⁻¹ := eq_inv_of_mul_eq_one_left (hinv _)
  rw [e1, e2, inv_mul_eq_iff_eq_mul₀ (hne _), ← mul_assoc, mul_comm (ω ^ (k * i)), mul_assoc, eq_comm,
    inv_mul_eq_iff_eq_mul₀ (hne _), ← pow_add, ← pow_add, ← Nat.mul_add, ← Nat.mul_add]
  rw [pow_mod_of_pow_eq_one hω (k * (i + j')), pow_mod_of_pow_eq_one hω (k * (i' + j)), Nat.mul_mod, h, ← Nat.mul_mod]

/-- circulant: the `(i,j)` entry only depends on `(i - j) mod d` -/
theorem circGram_circulant (c : ℝ) (ω : ℂ) (lam : Fin d → ℝ) (hω : ω ^ d = 1) (hu : star ω * ω = 1)
    (i j i' j' : Fin d) (h : (i.val + j'.val) % d = (i'.val + j.val) % d) :
    circGram d c ω lam i j = circGram d c ω lam i' j' := by
  rw [circGram_apply, circGram_apply]
  refine Finset.sum_congr rfl (fun k _ => ?_)
  rw [circ_phase ω hω hu k.val i.val j.val i'.val j'.val h]

theorem re_map_eq {ι : Type*} (C : Matrix ι ι ℂ) (hC : C.IsHermitian) :
    (C.map fun z => ((z.re : ℝ) : ℂ)) = (2 : ℂ)⁻¹ • (C + Cᵀ) := by
  ext i j
  have : C j i = star (C i j) := (hC.apply j i).symm
  simp only [map_apply, Matrix.smul_apply, Matrix.add_apply, transpose_apply, this, smul_eq_mul, Complex.star_def]
  rw [Complex.add_conj]; push_cast; ring

theorem psd_re_complex {ι : Type*} [Fintype ι] (C : Matrix ι ι ℂ) (hC : C.PosSemidef) :
    (C.map fun z => ((z.re : ℝ) : ℂ)).PosSemidef := by
  rw [re_map_eq C hC.isHermitian]
  have h2 : (0 : ℂ) ≤ 2 := by exact_mod_cast (show (0 : ℝ) ≤ 2 by norm_num)
  exact (hC.add hC.transpose).smul (inv_nonneg.mpr h2)

theorem psd_real_of_complex {ι : Type*} [Fintype ι] (R : Matrix ι ι ℝ)
    (h : (R.map (fun x => (x : ℂ))).PosSemidef) : R.PosSemidef := by
  refine PosSemidef.of_dotProduct_mulVec_nonneg ?_ ?_
  · ext i j
    have := h.isHermitian.apply i j
    simp only [map_apply, Complex.star_def, Complex.conj_ofReal] at this
    simpa using (by exact_mod_cast this : R j i = R i j)
  · intro x
    have := h.dotProduct_mulVec_nonneg (fun i => (x i : ℂ))
    have e : star (fun i => (x i : ℂ)) ⬝ᵥ (R.map (fun x => (x : ℂ))) *ᵥ (fun i => (x i : ℂ))
        = ((star x ⬝ᵥ R *ᵥ x : ℝ) : ℂ) := by
      simp only [dotProduct, mulVec, Pi.star_apply, map_apply, Complex.star_def, Complex.conj_ofReal, star_trivial]
      push_cast; rfl
    rw [e] at this
    exact_mod_cast this

theorem circGramRe_psd (c : ℝ) (ω : ℂ) (lam : Fin d → ℝ) (h : ∀ k, 0 ≤ lam k) : (circGramRe d c ω lam).PosSemidef := by
  apply psd_real_of_complex
  exact psd_re_complex _ (circGram_psd c ω lam h)

theorem dftRoot_pow (d : Nat) (hd : 0 < d) : dftRoot d ^ d = 1 := by
  unfold dftRoot
  rw [← Complex.exp_nat_mul]
  have : (d : ℂ) ≠ 0 := by exact_mod_cast hd.ne'
  rw [mul_div_cancel₀ _ this, Complex.exp_neg, Complex.exp_two_pi_mul_I, inv_one]

theorem dftRoot_unimodular (d : Nat) : star (dftRoot d) * dftRoot d = 1 := by
  unfold dftRoot
  rw [Complex.star_def, ← Complex.exp_conj, ← Complex.exp_add]
  have : (starRingEnd ℂ) (-(2 * (Real.pi : ℂ) * Complex.I) / d) + -(2 * Real.pi * Complex.I) / d = 0 := by
    simp only [map_div₀, map_neg, map_mul, Complex.conj_ofReal, Complex.conj_I, map_natCast, map_ofNat]
    ring
  rw [this, Complex.exp_zero]
end circulant

/-! ## 4. Schmidt rank of the `random_state_vector` construction -/

theorem sumN_eq_sum_fin {α : Type} [Semiring α] (f : Nat → α) : ∀ n, sumN n f = ∑ i : Fin n, f i.val
  | 0 => by simp [sumN]
  | n + 1 => by rw [Fin.sum_univ_castSucc]; simp [sumN, sumN_eq_sum_fin f n]

theorem svAmp_eq_mul (k d0 d1 : Nat) (a b : Nat → ℂ) :
    (Matrix.of fun (s : Fin d0) (t : Fin d1) => svAmp k d0 d1 a b s.val t.val)
      = (Matrix.of fun (j : Fin k) (s : Fin d0) => a (j.val * d0 + s.val))ᵀ *
        (Matrix.of fun (j : Fin k) (t : Fin d1) => b (j.val * d1 + t.val)) := by
  ext s t
  simp [svAmp, Matrix.mul_apply, sumN_eq_sum_fin]

theorem svAmp_rank_le (k d0 d1 : Nat) (a b : Nat → ℂ) (c : ℂ) :
    (c • Matrix.of fun (s : Fin d0) (t : Fin d1) => svAmp k d0 d1 a b s.val t.val).rank ≤ k := by
  refine (rank_smul_le _ _).trans ?_
  rw [svAmp_eq_mul]
  refine (rank_mul_le_right _ _).trans ?_
  simpa using rank_le_card_height (Matrix.of fun (j : Fin k) (t : Fin d1) => b (j.val * d1 + t.val))

end Toq.Rand
