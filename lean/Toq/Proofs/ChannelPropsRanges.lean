import Toq.Proofs.ChannelProps
import Toq.Proofs.ChannelPropsExtremal
/-!
# Helper lemmas for the parameter ranges of `depolarizing` / `dephasing`, for Pauli strings and for rank-one Hermitian matrices  (C06)
-/
open Toq.ChannelProps Toq.ChanPropSpec Matrix
open scoped ComplexOrder Kronecker

namespace Toq.ChanPropProofs

/-- `d·1 - ψψᴴ ⪰ 0` for the unnormalised maximally entangled vector `ψ` (`‖ψ‖² = d`). -/
theorem smul_one_sub_maxEnt_psd (d : Nat) :
    (((d : ℂ)) • (1 : TMat d d) - vecMulVec (maxEntVec d) (star (maxEntVec d))).PosSemidef := by
  have h := trace_smul_one_sub_posSemidef (posSemidef_vecMulVec_self_star (maxEntVec d))
  have ht : (vecMulVec (maxEntVec d) (star (maxEntVec d))).trace = (d : ℂ) := by
    rw [Matrix.trace_vecMulVec, star_maxEntVec, maxEnt_dot_self]
  rwa [ht] at h

/-- the quadratic form of `c·1 + p·ψψᴴ` at `ψ` is `c·d + p·d²` -/
theorem quad_maxEnt_depol (d : Nat) (c p : ℂ) :
    star (maxEntVec d) ⬝ᵥ ((c • (1 : TMat d d) + p • vecMulVec (maxEntVec d) (star (maxEntVec d))) *ᵥ maxEntVec d)
      = c * d + p * (d * d) := by
  rw [star_maxEntVec]
  have hin : ∀ P : Fin d × Fin d,
      ∑ Q, (c * (1 : TMat d d) P Q + p * (maxEntVec d P * maxEntVec d Q)) * maxEntVec d Q
        = ∑ j, (c * (1 : TMat d d) P (j, j) + p * (maxEntVec d P * maxEntVec d (j, j))) := by
    intro P
    rw [← sum_maxEnt (fun Q => c * (1 : TMat d d) P Q + p * (maxEntVec d P * maxEntVec d Q))]
    exact Finset.sum_congr rfl fun Q _ => mul_comm _ _
  simp only [dotProduct, Matrix.mulVec, Matrix.add_apply, Matrix.smul_apply, vecMulVec_apply, smul_eq_mul, hin]
  rw [sum_maxEnt]
  have h1 : ∀ i j : Fin d, (c * (1 : TMat d d) (i, i) (j, j) + p * (maxEntVec d (i, i) * maxEntVec d (j, j)))
      = (if i = j then c else 0) + p := by
    intro i j
    by_cases h : i = j
    · subst h; simp [maxEntVec]
    · have : ¬ ((i, i) : Fin d × Fin d) = (j, j) := fun e => h (Prod.ext_iff.mp e).1
      simp [maxEntVec, h, Matrix.one_apply_ne this]
  simp only [h1, Finset.sum_add_distrib, Finset.sum_ite_eq, Finset.mem_univ, if_true, Finset.sum_const, Finset.card_univ,
    Fintype.card_fin, nsmul_eq_mul]
  ring


/-- the isometry `e_i ↦ e_i ⊗ e_i` -/
def diagEmb (d : Nat) : Matrix (Fin d × Fin d) (Fin d) ℂ := fun P i => if P = (i, i) then 1 else 0

theorem diagEmb_mul_ct (d : Nat) :
    diagEmb d * (diagEmb d)ᴴ = diagonal (fun q : Fin d × Fin d => maxEntVec d q * maxEntVec d q) := by
  ext ⟨i, a⟩ Q
  rw [Matrix.mul_apply, Matrix.diagonal_apply]
  by_cases h1 : i = a
  · subst h1
    have hE : ∀ x, diagEmb d (i, i) x = if x = i then 1 else 0 := by
      intro x; simp [diagEmb, eq_comm]
    simp only [hE, Matrix.conjTranspose_apply, ite_mul, one_mul, zero_mul, Finset.sum_ite_eq', Finset.mem_univ, if_true]
    by_cases h2 : (i, i) = Q
    · subst h2; simp [diagEmb, maxEntVec]
    · have : ¬ Q = (i, i) := fun e => h2 e.symm
      simp [diagEmb, h2, this]
  · have hE : ∀ x, diagEmb d (i, a) x = 0 := by
      intro x
      simp only [diagEmb, Prod.mk.injEq, ite_eq_right_iff, one_ne_zero, imp_false, not_and]
      intro hx hx'; exact h1 (hx.trans hx'.symm)
    simp only [hE, zero_mul, Finset.sum_const_zero]
    split_ifs <;> simp [maxEntVec, h1]

theorem diagEmb_ones (d : Nat) :
    diagEmb d * vecMulVec (fun _ : Fin d => (1 : ℂ)) (star fun _ : Fin d => (1 : ℂ)) * (diagEmb d)ᴴ
      = vecMulVec (maxEntVec d) (star (maxEntVec d)) := by
  have h : ∀ P : Fin d × Fin d, ∑ i, diagEmb d P i = maxEntVec d P := by
    rintro ⟨i, a⟩
    simp only [diagEmb, maxEntVec, Prod.mk.injEq]
    by_cases h1 : i = a
    · subst h1; simp [Finset.sum_ite_eq]
    · have : ∀ x : Fin d, ¬ (i = x ∧ a = x) := fun x hx => h1 (hx.1.trans hx.2.symm)
      simp [h1, this]
  have hs : ∀ (Q : Fin d × Fin d) (j : Fin d), star (diagEmb d Q j) = diagEmb d Q j := by
    intro Q j; simp only [diagEmb]; split_ifs <;> simp
  ext P Q
  simp only [Matrix.mul_apply, vecMulVec_apply, Matrix.conjTranspose_apply, Pi.star_apply, star_one, mul_one]
  rw [← Finset.mul_sum, h P]
  simp only [hs, h Q]
  have := congrFun (star_maxEntVec d) Q
  rw [Pi.star_apply] at this
  rw [this]

/-- `d·D - ψψᴴ ⪰ 0` with `D = diag(ψ²)` the projector onto the span of the `e_i ⊗ e_i` -/
theorem smul_diag_sub_maxEnt_psd (d : Nat) :
    ((d : ℂ) • diagonal (fun q : Fin d × Fin d => maxEntVec d q * maxEntVec d q)
      - vecMulVec (maxEntVec d) (star (maxEntVec d))).PosSemidef := by
  have h1 : ((d : ℂ) • (1 : Matrix (Fin d) (Fin d) ℂ)
      - vecMulVec (fun _ : Fin d => (1 : ℂ)) (star fun _ : Fin d => (1 : ℂ))).PosSemidef := by
    have h := trace_smul_one_sub_posSemidef (posSemidef_vecMulVec_self_star (fun _ : Fin d => (1 : ℂ)))
    have ht : (vecMulVec (fun _ : Fin d => (1 : ℂ)) (star fun _ : Fin d => (1 : ℂ))).trace = (d : ℂ) := by
      rw [Matrix.trace_vecMulVec]; simp [dotProduct]
    rwa [ht] at h
  have h2 := h1.mul_mul_conjTranspose_same (diagEmb d)
  rw [Matrix.mul_sub, Matrix.sub_mul, Matrix.mul_smul, Matrix.mul_one, Matrix.smul_mul, diagEmb_mul_ct, diagEmb_ones] at h2
  exact h2


theorem toSq_kron_hermitian (m n : Nat) (U V : Nat → Nat → ℂ)
    (hU : (toSq m U)ᴴ = toSq m U) (hV : (toSq n V)ᴴ = toSq n V) :
    (toSq (m * n) (fun a b => U (a / n) (b / n) * V (a % n) (b % n)))ᴴ
      = toSq (m * n) (fun a b => U (a / n) (b / n) * V (a % n) (b % n)) := by
  rw [toSq_kron, Matrix.conjTranspose_submatrix, Matrix.conjTranspose_kronecker, hU, hV]


/-- A Hermitian matrix of rank one with positive trace is `v vᴴ`. -/
theorem hermitian_rank_one_eq {N : Type*} [Fintype N] [DecidableEq N] (A : Matrix N N ℂ) (hA : A.IsHermitian)
    (hr : A.rank = 1) (ht : 0 < A.trace.re) : ∃ v : N → ℂ, A = vecMulVec v (star v) := by
  obtain ⟨U, lam, hAe, hcard, htrs⟩ : ∃ (U : Matrix N N ℂ) (lam : N → ℝ), A = U * diagonal (fun i => (lam i : ℂ)) * Uᴴ ∧
      Fintype.card {i // lam i ≠ 0} = 1 ∧ A.trace = ∑ i, (lam i : ℂ) := by
    refine ⟨hA.eigenvectorUnitary, hA.eigenvalues, ?_, ?_, hA.trace_eq_sum_eigenvalues⟩
    · have := hA.spectral_theorem
      rw [Unitary.conjStarAlgAut_apply] at this
      exact this
    · rw [← hA.rank_eq_card_non_zero_eigs, hr]
  obtain ⟨⟨i₀, hi₀⟩, huniq⟩ := Fintype.card_eq_one_iff.mp hcard
  have hz : ∀ i, i ≠ i₀ → lam i = 0 := by
    intro i hi
    by_contra hne
    exact hi (congrArg Subtype.val (huniq ⟨i, hne⟩))
  have htr : A.trace = (lam i₀ : ℂ) := by
    rw [htrs]
    exact Finset.sum_eq_single i₀ (fun i _ hi => by rw [hz i hi]; simp) (fun h => absurd (Finset.mem_univ _) h)
  have hpos : 0 < lam i₀ := by
    rw [htr] at ht; simpa using ht
  refine ⟨fun p => ((Real.sqrt (lam i₀) : ℝ) : ℂ) * U p i₀, ?_⟩
  ext p q
  have hs : ((Real.sqrt (lam i₀) : ℝ) : ℂ) * ((Real.sqrt (lam i₀) : ℝ) : ℂ) = (lam i₀ : ℂ) := by
    rw [← Complex.ofReal_mul, Real.mul_self_sqrt hpos.le]
  rw [hAe, Matrix.mul_apply]
  rw [Finset.sum_eq_single i₀ (fun i _ hi => by rw [Matrix.mul_diagonal, hz i hi]; simp)
    (fun h => absurd (Finset.mem_univ _) h)]
  rw [Matrix.mul_diagonal, Matrix.conjTranspose_apply, vecMulVec_apply, Pi.star_apply, star_mul', ← hs]
  simp only [Complex.star_def, Complex.conj_ofReal]
  ring

/-- a matrix of rank zero is zero -/
theorem eq_zero_of_rank_eq_zero {N : Type*} [Fintype N] [DecidableEq N] (A : Matrix N N ℂ) (h : A.rank = 0) : A = 0 := by
  apply eq_zero_of_mulVec
  intro x
  have h0 : LinearMap.range A.mulVecLin = ⊥ := by
    rw [← Submodule.finrank_eq_zero]; exact h
  have : A *ᵥ x ∈ LinearMap.range A.mulVecLin := ⟨x, rfl⟩
  rw [h0] at this
  exact this


end Toq.ChanPropProofs
