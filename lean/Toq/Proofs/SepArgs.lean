import Toq.Model.SepCascade
import Toq.Properties.C03
/-!
# Argument forms of `is_ppt` (C15): which operator is tested

`is_ppt(mat, sys, dim, tol)` tests `partial_transpose(mat, [sys - 1], dim)`; the C03 model of `partial_transpose`
(`partialTransposeArgs`, all argument forms) is specialised here to two parties and tied to the flat-index
formulas `X[a·dB + b', a'·dB + b]` (second party transposed) and `X[a'·dB + b, a·dB + b']` (first party).
-/

namespace Toq.Sep
open Toq.Perms Toq.PartialOps Toq.Spec

theorem pTSpec_two_one {α : Type} (x : Nat → Nat → α) (a0 a1 b0 b1 I J : Nat) :
    pTSpec x 2 (fnOfList [a0, a1]) (fnOfList [b0, b1]) [1] I J
      = x (((I / b1) % a0) * a1 + J % a1) (((J / a1) % b0) * b1 + I % b1) := by
  simp [pTSpec, enc, dec, fnOfList, pTRowDims, pTColDims]

/-- the value of the bipartite partial transpose at `(a·dB + b, a'·dB + b')` -/
def ptEntry {α : Type} (X : Nat → Nat → α) (dB : Nat) (sys : Nat) (a b a' b' : Nat) : α :=
  if sys = 1 then X (a' * dB + b) (a * dB + b') else X (a * dB + b') (a' * dB + b)

theorem two_party_spec {α : Type} (X : Nat → Nat → α) (dA dB : Nat) (sys : Nat) (hs : sys = 1 ∨ sys = 2)
    (a b a' b' : Nat) (ha : a < dA) (hb : b < dB) (ha' : a' < dA) (hb' : b' < dB) :
    pTSpec X 2 (fnOfList [dA, dB]) (fnOfList [dA, dB]) [sys - 1] (a * dB + b) (a' * dB + b')
      = ptEntry X dB sys a b a' b' := by
  have e1 : (a * dB + b) / dB = a := Toq.PartialOps.mul_add_div a dB b hb
  have e2 : (a * dB + b) % dB = b := Toq.PartialOps.mul_add_mod a dB b hb
  have e3 : (a' * dB + b') / dB = a' := Toq.PartialOps.mul_add_div a' dB b' hb'
  have e4 : (a' * dB + b') % dB = b' := Toq.PartialOps.mul_add_mod a' dB b' hb'
  rcases hs with rfl | rfl
  · show pTSpec X 2 _ _ [0] _ _ = _
    rw [Toq.PartialOps.pTSpec_two_zero, e1, e2, e3, e4, Nat.mod_eq_of_lt ha, Nat.mod_eq_of_lt ha']
    simp [ptEntry]
  · show pTSpec X 2 _ _ [1] _ _ = _
    rw [pTSpec_two_one, e1, e2, e3, e4, Nat.mod_eq_of_lt ha, Nat.mod_eq_of_lt ha']
    simp [ptEntry]

/-- the list form `[dA, dB]`: accepted, the shape is kept, the entries are those of the partial transpose -/
theorem isPptOperand_list {α : Type} (X : Nat → Nat → α) (dA dB : Nat) (hA : 0 < dA) (hB : 0 < dB) (sys : Nat)
    (hs : sys = 1 ∨ sys = 2) :
    ∃ Y, isPptOperand X (dA * dB) (sys : Int) (.list [dA, dB]) = .ok (dA * dB, dA * dB, Y) ∧
      ∀ a b a' b', a < dA → b < dB → a' < dA → b' < dB →
        Y (a * dB + b) (a' * dB + b') = ptEntry X dB sys a b a' b' := by
  have hN : 0 < dA * dB := Nat.mul_pos hA hB
  have hsys : [(sys : Int) - 1] = [sys - 1].map Int.ofNat := by
    rcases hs with rfl | rfl <;> rfl
  have hnd : [sys - 1].Nodup := List.nodup_singleton _
  have hlt : ∀ s ∈ [sys - 1], s < [dA, dB].length := by
    intro s h; simp at h; subst h; rcases hs with rfl | rfl <;> simp
  have hp : prodN (fnOfList [dA, dB]) [dA, dB].length = dA * dB := by
    simp [prodN, fnOfList]
  have key := (Toq.C03.pT_args_two X (dA * dB) (dA * dB) hN hN [dA, dB] [dA, dB] rfl (by simp)
    [(sys : Int) - 1]).2 [sys - 1] hsys hnd hlt hp hp
  have e0 : isPptOperand X (dA * dB) (sys : Int) (.list [dA, dB])
      = partialTransposeArgs X (dA * dB) (dA * dB) (.list [(sys : Int) - 1]) (.two [dA, dB] [dA, dB]) := by
    unfold isPptOperand isPptDim
    exact Toq.C03.pT_args_list X _ _ _ [dA, dB] (by simp)
  refine ⟨partialTranspose X 2 (fnOfList [dA, dB]) (fnOfList [dA, dB]) [sys - 1], ?_, ?_⟩
  · rw [e0, key.1]
    have s1 : prodN (pTRowDims (fnOfList [dA, dB]) (fnOfList [dA, dB]) [sys - 1]) [dA, dB].length = dA * dB := by
      rcases hs with rfl | rfl <;> simp [prodN, pTRowDims, fnOfList]
    have s2 : prodN (pTColDims (fnOfList [dA, dB]) (fnOfList [dA, dB]) [sys - 1]) [dA, dB].length = dA * dB := by
      rcases hs with rfl | rfl <;> simp [prodN, pTColDims, fnOfList]
    rw [s1, s2]
    rfl
  · intro a b a' b' ha hb ha' hb'
    have := key.2 (a * dB + b) (a' * dB + b')
    simp only [List.length_cons, List.length_nil] at this
    rw [this]
    exact two_party_spec X dA dB sys hs a b a' b' ha hb ha' hb'

/-- every other accepted form of `dim` denotes the same call as the list form -/
theorem isPptOperand_forms {α : Type} (X : Nat → Nat → α) (dA dB : Nat) (hA : 0 < dA) (hB : 0 < dB) (sys : Int) :
    isPptOperand X (dA * dB) sys (.two [dA, dB] [dA, dB]) = isPptOperand X (dA * dB) sys (.list [dA, dB]) ∧
    isPptOperand X (dA * dB) sys (.scalar dA) = isPptOperand X (dA * dB) sys (.list [dA, dB]) ∧
    isPptOperand X (dA * dB) sys (.list [dA]) = isPptOperand X (dA * dB) sys (.list [dA, dB]) ∧
    (dA = dB → isPptOperand X (dA * dB) sys .omitted = isPptOperand X (dA * dB) sys (.list [dA, dB])) := by
  have hdiv : dA ∣ dA * dB := Dvd.intro _ rfl
  have hq : dA * dB / dA = dB := Nat.mul_div_cancel_left dB hA
  have hl : partialTransposeArgs X (dA * dB) (dA * dB) (.list [sys - 1]) (.list [dA, dB])
      = partialTransposeArgs X (dA * dB) (dA * dB) (.list [sys - 1]) (.two [dA, dB] [dA, dB]) :=
    Toq.C03.pT_args_list X _ _ _ [dA, dB] (by simp)
  have hsc : partialTransposeArgs X (dA * dB) (dA * dB) (.list [sys - 1]) (.scalar dA)
      = partialTransposeArgs X (dA * dB) (dA * dB) (.list [sys - 1]) (.list [dA, dB]) := by
    have := (Toq.C03.pT_args_scalar X (dA * dB) (dA * dB) dA (.list [sys - 1])).1 hA hdiv
    rw [hq] at this
    exact this
  refine ⟨?_, ?_, ?_, ?_⟩
  · unfold isPptOperand isPptDim; exact hl.symm
  · unfold isPptOperand isPptDim; exact hsc
  · unfold isPptOperand isPptDim
    exact ((Toq.C03.pT_args_forms X (dA * dB) (dA * dB) 0 dA 0 0 (.list [sys - 1]) .omitted).2.2.1).trans hsc
  · rintro rfl
    unfold isPptOperand isPptDim
    rw [Toq.C02.roundSqrt_square]
    exact hl.symm

end Toq.Sep
