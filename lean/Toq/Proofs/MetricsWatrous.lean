import Toq.Proofs.MetricsSubFid
/-!
# Watrous' program computes `tr √(√ρ σ √ρ)` for positive definite `ρ` (Fuchs–Caves measurement as dual certificate)
-/

open Matrix
open scoped ComplexOrder MatrixOrder

set_option linter.unusedSectionVars false

namespace Toq.Metrics
section Watrous
variable {ι : Type*} [Fintype ι] [DecidableEq ι]

/-- for positive definite `ρ` the value of the fidelity program is at most the documented `tr √(√ρ σ √ρ)`
(measurement in the eigenbasis of `ρ^{-1/2} √(√ρ σ √ρ) ρ^{-1/2}`, Fuchs–Caves) -/
theorem fidV_le_docFid_of_posDef {ρ σ : Matrix ι ι ℂ} (hρ : ρ.PosDef) (hσ : σ.PosSemidef) :
    fidV ρ σ ≤ docFid ρ σ := by
  have hρs := hρ.posSemidef
  obtain ⟨U, lam, hU, hU', hl, hMe, hd, -, -⟩ := exists_rootConj_spectral hρs hσ
  set R := CFC.sqrt ρ with hR
  have hRp : R.PosSemidef := (CFC.sqrt_nonneg ρ).posSemidef
  have eR : R * R = ρ := CFC.sqrt_mul_sqrt_self ρ hρs.nonneg
  have hdet : IsUnit R.det := by
    have h1 : R.det * R.det = ρ.det := by rw [← Matrix.det_mul, eR]
    have h2 : ρ.det ≠ 0 := hρ.det_pos.ne'
    refine isUnit_iff_ne_zero.mpr fun h0 => h2 ?_
    rw [← h1, h0, mul_zero]
  set Ri := R⁻¹ with hRi
  have e1 : Ri * R = 1 := Matrix.nonsing_inv_mul R hdet
  have e2 : R * Ri = 1 := Matrix.mul_nonsing_inv R hdet
  have hRiH : Ri.IsHermitian := hRp.isHermitian.inv
  set Q := conjDiag U (fun i => Real.sqrt (lam i)) with hQ
  have hQQ : Q * Q = R * σ * R := by
    rw [hMe, hQ, conjDiag_mul hU]; congr 1; funext i; exact Real.mul_self_sqrt (hl i)
  have hQp : Q.PosSemidef := conjDiag_posSemidef U fun i => Real.sqrt_nonneg _
  set N := Ri * Q * Ri with hN
  have hNp : N.PosSemidef := by
    have := hQp.conjTranspose_mul_mul_same Ri
    rwa [hRiH.eq] at this
  obtain ⟨V, nu, hV, hV', hnu, hNe⟩ : ∃ (V : Matrix ι ι ℂ) (nu : ι → ℝ), Vᴴ * V = 1 ∧ V * Vᴴ = 1 ∧
      (∀ i, 0 ≤ nu i) ∧ N = conjDiag V nu := by
    obtain ⟨V, hV, hV', hNe⟩ := exists_conjDiag hNp.isHermitian
    exact ⟨V, _, hV, hV', hNp.eigenvalues_nonneg, hNe⟩
  have hσe : σ = N * ρ * N := by
    calc σ = (Ri * R) * σ * (R * Ri) := by rw [e1, e2, Matrix.one_mul, Matrix.mul_one]
      _ = Ri * (R * σ * R) * Ri := by simp only [Matrix.mul_assoc]
      _ = Ri * (Q * Q) * Ri := by rw [hQQ]
      _ = Ri * Q * (Ri * R) * (R * Ri) * Q * Ri := by rw [e1, e2]; simp only [Matrix.mul_one, Matrix.mul_assoc]
      _ = N * ρ * N := by rw [hN, ← eR]; simp only [Matrix.mul_assoc]
  have hpvm := isPVM_basis hV hV'
  have h := fidV_le_pvm hρs hσ hpvm
  refine h.trans (le_of_eq ?_)
  have hp0 : ∀ k, 0 ≤ (conjDiag V (ind k) * ρ).trace.re := fun k => psd_trace_mul_nonneg (hpvm.posSemidef k) hρs
  have hq : ∀ k, (conjDiag V (ind k) * σ).trace.re = nu k ^ 2 * (conjDiag V (ind k) * ρ).trace.re := by
    intro k
    have : (conjDiag V (ind k) * σ).trace = ((nu k ^ 2 : ℝ) : ℂ) * (conjDiag V (ind k) * ρ).trace := by
      conv_lhs => rw [hσe]
      calc (conjDiag V (ind k) * (N * ρ * N)).trace = ((conjDiag V (ind k) * N * ρ) * N).trace := by
            simp only [Matrix.mul_assoc]
        _ = (N * conjDiag V (ind k) * N * ρ).trace := by
            rw [Matrix.trace_mul_comm]; simp only [Matrix.mul_assoc]
        _ = ((((nu k ^ 2 : ℝ) : ℂ)) • conjDiag V (ind k) * ρ).trace := by
            rw [hNe, conjDiag_mul hV, conjDiag_mul hV]
            congr 2
            unfold conjDiag
            rw [← Matrix.smul_mul, ← Matrix.mul_smul]
            congr 2
            ext i j
            by_cases hij : i = j
            · subst hij
              by_cases hik : i = k
              · subst hik; simp [ind]; ring
              · simp [ind, hik]
            · simp [hij]
        _ = _ := by rw [Matrix.smul_mul, Matrix.trace_smul, smul_eq_mul]
    rw [this, Complex.re_ofReal_mul]
  have hterm : ∀ k, Real.sqrt ((conjDiag V (ind k) * ρ).trace.re * (conjDiag V (ind k) * σ).trace.re)
      = (conjDiag V (fun i => nu i * ind k i) * ρ).trace.re := by
    intro k
    rw [hq k]
    have e : (conjDiag V (ind k) * ρ).trace.re * (nu k ^ 2 * (conjDiag V (ind k) * ρ).trace.re)
        = (nu k * (conjDiag V (ind k) * ρ).trace.re) ^ 2 := by ring
    rw [e, Real.sqrt_sq (mul_nonneg (hnu k) (hp0 k))]
    have : conjDiag V (fun i => nu i * ind k i) = ((nu k : ℝ) : ℂ) • conjDiag V (ind k) := by
      unfold conjDiag
      rw [← Matrix.smul_mul, ← Matrix.mul_smul]
      congr 2
      ext i j
      by_cases hij : i = j
      · subst hij
        by_cases hik : i = k
        · subst hik; simp [ind]
        · simp [ind, hik]
      · simp [hij]
    rw [this, Matrix.smul_mul, Matrix.trace_smul, smul_eq_mul, Complex.re_ofReal_mul]
  unfold cFid
  simp only [hterm]
  rw [← Complex.re_sum, ← Matrix.trace_sum, ← Finset.sum_mul, conjDiag_sum]
  have : (fun i => ∑ k, nu i * ind k i) = nu := by
    funext i; simp [ind]
  rw [this, ← hNe, hd, ← conjDiag_trace_re hU, ← hQ, hN]
  congr 1
  calc (Ri * Q * Ri * ρ).trace = (Ri * Q * (Ri * R) * R).trace := by rw [← eR]; simp only [Matrix.mul_assoc]
    _ = (Ri * (Q * R)).trace := by rw [e1, Matrix.mul_one, Matrix.mul_assoc]
    _ = (Q * (R * Ri)).trace := by rw [Matrix.trace_mul_comm, Matrix.mul_assoc]
    _ = Q.trace := by rw [e2, Matrix.mul_one]

/-- **Watrous' program computes the documented fidelity** when `ρ` is positive definite (any positive semidefinite `σ`). -/
theorem fidV_eq_docFid_of_posDef {ρ σ : Matrix ι ι ℂ} (hρ : ρ.PosDef) (hσ : σ.PosSemidef) :
    fidV ρ σ = docFid ρ σ :=
  le_antisymm (fidV_le_docFid_of_posDef hρ hσ) (docFid_le_fidV hρ.posSemidef hσ)

end Watrous
end Toq.Metrics
