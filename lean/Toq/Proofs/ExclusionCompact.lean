import Toq.Proofs.Exclusion
import Mathlib.Topology.Order.Compact
import Mathlib.Topology.Instances.Matrix
import Mathlib.Analysis.Complex.Basic
/-!
# Helper lemmas for C11, part 3: the set of measurements is compact, so the minimum-error exclusion value is
attained (a true minimum, not only an infimum).
-/

open Matrix
open scoped ComplexOrder MatrixOrder
set_option linter.unusedSectionVars false

namespace Toq.Excl
open Toq.Discrim

section Compact
variable {ι κ : Type*} [Fintype ι] [DecidableEq ι] [Fintype κ]

/-- a PSD `2 × 2` matrix with diagonal entries of real part `≤ 1` has off-diagonal entries of modulus `≤ 2` -/
theorem psd_two_offdiag (N : Matrix (Fin 2) (Fin 2) ℂ) (hN : N.PosSemidef)
    (h0 : (N 0 0).re ≤ 1) (h1 : (N 1 1).re ≤ 1) : ‖N 0 1‖ ≤ 2 := by
  have hH : N 1 0 = (starRingEnd ℂ) (N 0 1) := by
    have := congrFun (congrFun hN.isHermitian.eq 1) 0
    rw [Matrix.conjTranspose_apply] at this
    exact this.symm
  have key : ∀ z : ℂ, 0 ≤ (star ![1, z] ⬝ᵥ (N *ᵥ ![1, z])).re := fun z =>
    (Complex.nonneg_iff.mp (hN.dotProduct_mulVec_nonneg ![1, z])).1
  have e : ∀ z : ℂ, (star ![1, z] ⬝ᵥ (N *ᵥ ![1, z])).re
      = (N 0 0).re + (N 1 1).re * Complex.normSq z + 2 * ((N 0 1).re * z.re - (N 0 1).im * z.im) := by
    intro z
    simp only [dotProduct, Matrix.mulVec, Fin.sum_univ_two, Pi.star_apply, Matrix.cons_val_zero,
      Matrix.cons_val_one, hH, Complex.normSq_apply]
    simp
    ring
  have k1 := key 1; have k2 := key (-1); have k3 := key Complex.I; have k4 := key (-Complex.I)
  rw [e] at k1 k2 k3 k4
  simp at k1 k2 k3 k4
  have hre : |(N 0 1).re| ≤ 1 := by rw [abs_le]; constructor <;> linarith
  have him : |(N 0 1).im| ≤ 1 := by rw [abs_le]; constructor <;> linarith
  calc ‖N 0 1‖ ≤ |(N 0 1).re| + |(N 0 1).im| := Complex.norm_le_abs_re_add_abs_im _
    _ ≤ 2 := by linarith

/-- entries of an operator `0 ⪯ A ⪯ 1` have modulus at most `2` -/
theorem psd_entry_bound {A : Matrix ι ι ℂ} (hA : A.PosSemidef) (hA1 : (1 - A).PosSemidef) (a b : ι) :
    ‖A a b‖ ≤ 2 := by
  have hd : ∀ c, (A c c).re ≤ 1 := by
    intro c
    have := (Complex.nonneg_iff.mp (hA1.diag_nonneg (i := c))).1
    simp at this
    linarith
  have := psd_two_offdiag (A.submatrix ![a, b] ![a, b]) (hA.submatrix _) (by simpa using hd a)
    (by simpa using hd b)
  simpa using this


/-- the set of `κ`-outcome measurements -/
def povmSet (ι κ : Type*) [Fintype ι] [DecidableEq ι] [Fintype κ] : Set (κ → Matrix ι ι ℂ) :=
  {M | (∀ i, (M i).PosSemidef) ∧ ∑ i, M i = 1}

theorem isClosed_psd : IsClosed {A : Matrix ι ι ℂ | A.PosSemidef} := by
  have : {A : Matrix ι ι ℂ | A.PosSemidef}
      = {A | Aᴴ = A} ∩ ⋂ x : ι → ℂ, {A | 0 ≤ star x ⬝ᵥ (A *ᵥ x)} := by
    ext A
    simp only [Set.mem_ofPred_eq, Set.mem_inter_iff, Set.mem_iInter]
    exact Matrix.posSemidef_iff_dotProduct_mulVec
  rw [this]
  refine IsClosed.inter (isClosed_eq (by fun_prop) continuous_id) (isClosed_iInter fun x => ?_)
  exact isClosed_le continuous_const (by fun_prop)

theorem povmSet_isClosed : IsClosed (povmSet ι κ) := by
  have : povmSet ι κ = (⋂ i : κ, (fun M : κ → Matrix ι ι ℂ => M i) ⁻¹' {A | A.PosSemidef})
      ∩ {M | ∑ i, M i = 1} := by
    ext M
    simp [povmSet]
  rw [this]
  refine IsClosed.inter (isClosed_iInter fun i => isClosed_psd.preimage (continuous_apply i)) ?_
  exact isClosed_eq (by fun_prop) continuous_const

theorem povmSet_subset_box [DecidableEq κ] :
    povmSet ι κ ⊆ Set.pi Set.univ fun _ : κ =>
      (Set.pi Set.univ fun _ : ι => Set.pi Set.univ fun _ : ι => Metric.closedBall (0 : ℂ) 2 :
        Set (Matrix ι ι ℂ)) := by
  intro M hM i _ a _ b _
  rw [mem_closedBall_zero_iff]
  refine psd_entry_bound (hM.1 i) ?_ a b
  have : 1 - M i = ∑ j ∈ Finset.univ.erase i, M j := by
    rw [← hM.2, ← Finset.add_sum_erase _ _ (Finset.mem_univ i)]; abel
  rw [this]
  exact Matrix.posSemidef_sum _ fun j _ => hM.1 j

theorem povmSet_isCompact : IsCompact (povmSet ι κ) := by
  classical
  refine IsCompact.of_isClosed_subset ?_ povmSet_isClosed povmSet_subset_box
  exact isCompact_univ_pi fun _ => isCompact_univ_pi fun _ => isCompact_univ_pi fun _ =>
    isCompact_closedBall _ _

theorem povmSet_nonempty [DecidableEq κ] [Nonempty κ] : (povmSet ι κ).Nonempty :=
  ⟨constPovm (Classical.arbitrary κ), constPovm_psd _, constPovm_sum _⟩

/-- the minimum of the exclusion value over all measurements is attained -/
theorem excl_min_attained_gen [Nonempty κ] (ρ : κ → Matrix ι ι ℂ) (p : κ → ℝ) :
    ∃ M : κ → Matrix ι ι ℂ, ((∀ i, (M i).PosSemidef) ∧ ∑ i, M i = 1) ∧
      ∀ M' : κ → Matrix ι ι ℂ, (∀ i, (M' i).PosSemidef) → ∑ i, M' i = 1 →
        ∑ i, p i * (ρ i * M i).trace.re ≤ ∑ i, p i * (ρ i * M' i).trace.re := by
  classical
  have hc : ContinuousOn (fun M : κ → Matrix ι ι ℂ => ∑ i, p i * (ρ i * M i).trace.re) (povmSet ι κ) := by
    apply Continuous.continuousOn
    fun_prop
  obtain ⟨M, hM, hmin⟩ := povmSet_isCompact.exists_isMinOn povmSet_nonempty hc
  exact ⟨M, hM, fun M' h1 h2 => hmin (show M' ∈ povmSet ι κ from ⟨h1, h2⟩)⟩


end Compact
end Toq.Excl
