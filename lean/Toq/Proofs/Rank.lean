import Toq.Core.Rank
import Toq.Proofs.Cert
import Mathlib.LinearAlgebra.Matrix.Rank
import Mathlib.LinearAlgebra.Matrix.Block
import Mathlib.LinearAlgebra.Matrix.Determinant.Basic
/-!
# Correctness of the exact rank routine `Toq.Rank.rankE` (Gaussian elimination over `ℚ[i]`)

Part 1 (abstract, over any field `K`): the echelon invariant `Inv A B r k piv` — `B = P·A` with `P`
invertible, the rows `≥ r` of `B` vanish on the columns `< k`, and the `t`-th pivot column has a non-zero
entry in row `t` and zeros below.  It is preserved by exchanging two rows `≥ r` and by clearing a column
below a pivot, and at `k = #columns` it gives `rank A = r` (at most `r` non-zero rows; the `r × r` block on
the pivot columns is upper triangular with non-zero diagonal) and the independence of the pivot columns of `A`.

Part 2: the executable elimination on `EMat` denotes exactly these matrix operations on `A.toM`, hence
`rankE A = A.toM.rank`.
-/

open Matrix

namespace Toq.Rank

/-! ## Part 1: the echelon invariant over a field -/

section Abstract
variable {K : Type*} [Field K] {n m : Nat}

/-- clear column `c` below row `r` with the pivot `X r c` -/
def elimBelow (X : Matrix (Fin n) (Fin m) K) (r : Fin n) (c : Fin m) : Matrix (Fin n) (Fin m) K :=
  fun i j => if i.val ≤ r.val then X i j else X i j - X i c * (X r c)⁻¹ * X r j

/-- the unit lower triangular matrix of the row operations of `elimBelow` -/
def elimMat (X : Matrix (Fin n) (Fin m) K) (r : Fin n) (c : Fin m) : Matrix (Fin n) (Fin n) K :=
  fun i l => (if i = l then 1 else 0) - (if r.val < i.val ∧ l = r then X i c * (X r c)⁻¹ else 0)

theorem elimMat_mul (X : Matrix (Fin n) (Fin m) K) (r : Fin n) (c : Fin m) :
    elimMat X r c * X = elimBelow X r c := by
  ext i j
  simp only [Matrix.mul_apply, elimMat, elimBelow, sub_mul, Finset.sum_sub_distrib, ite_mul, one_mul, zero_mul,
    Finset.sum_ite_eq, Finset.mem_univ, if_true]
  by_cases h : i.val ≤ r.val
  · rw [if_pos h, Finset.sum_eq_zero, sub_zero]
    intro l _
    rw [if_neg]
    rintro ⟨h1, _⟩
    omega
  · rw [if_neg h, Finset.sum_eq_single r]
    · rw [if_pos ⟨by omega, rfl⟩]
    · intro l _ hl; rw [if_neg (fun h => hl h.2)]
    · intro h; exact absurd (Finset.mem_univ r) h

theorem det_elimMat (X : Matrix (Fin n) (Fin m) K) (r : Fin n) (c : Fin m) : (elimMat X r c).det = 1 := by
  rw [Matrix.det_of_isLowerTriangular]
  · apply Finset.prod_eq_one
    intro i _
    simp only [elimMat, if_true]
    rw [if_neg (by rintro ⟨h1, h2⟩; rw [h2] at h1; exact lt_irrefl _ h1), sub_zero]
  · intro i l hil
    have hil' : i < l := hil
    simp only [elimMat]
    rw [if_neg (ne_of_lt hil'), if_neg, sub_zero]
    rintro ⟨h1, h2⟩
    rw [h2] at hil'
    exact absurd (Fin.lt_def.mp hil') (by omega)

/-- the echelon invariant after `k` columns with `r` pivots -/
structure Inv (A B : Matrix (Fin n) (Fin m) K) (r k : Nat) (piv : List (Fin m)) : Prop where
  hP : ∃ P : Matrix (Fin n) (Fin n) K, IsUnit P.det ∧ B = P * A
  hr : r ≤ n
  hlen : piv.length = r
  hzero : ∀ (i : Fin n) (j : Fin m), r ≤ i.val → j.val < k → B i j = 0
  hpiv : ∀ (t : Nat) (ht : t < piv.length) (i : Fin n),
    (i.val = t → B i piv[t] ≠ 0) ∧ (t < i.val → B i piv[t] = 0)

theorem Inv.init (A : Matrix (Fin n) (Fin m) K) : Inv A A 0 0 [] where
  hP := ⟨1, by simp, by simp⟩
  hr := Nat.zero_le _
  hlen := rfl
  hzero := fun _ _ _ h => absurd h (Nat.not_lt_zero _)
  hpiv := fun _ ht => absurd ht (Nat.not_lt_zero _)

/-- no pivot in column `k`: the zero block grows by one column -/
theorem Inv.skip {A B : Matrix (Fin n) (Fin m) K} {r k : Nat} {piv : List (Fin m)} (h : Inv A B r k piv)
    (c : Fin m) (hc : c.val = k) (h0 : ∀ i : Fin n, r ≤ i.val → B i c = 0) : Inv A B r (k + 1) piv where
  hP := h.hP
  hr := h.hr
  hlen := h.hlen
  hzero := by
    intro i j hi hj
    by_cases hjk : j.val < k
    · exact h.hzero i j hi hjk
    · have : j = c := Fin.ext (by omega)
      rw [this]; exact h0 i hi
  hpiv := h.hpiv

/-- exchanging row `r` with a row `p ≥ r` preserves the invariant -/
theorem Inv.swap {A B : Matrix (Fin n) (Fin m) K} {r k : Nat} {piv : List (Fin m)} (h : Inv A B r k piv)
    (hr : r < n) (p : Fin n) (hp : r ≤ p.val) :
    Inv A (B.submatrix (Equiv.swap (⟨r, hr⟩ : Fin n) p) id) r k piv := by
  have hσ : ∀ i : Fin n, i.val < r → Equiv.swap (⟨r, hr⟩ : Fin n) p i = i := by
    intro i hi
    apply Equiv.swap_apply_of_ne_of_ne
    · intro e; rw [e] at hi; exact lt_irrefl _ hi
    · intro e; rw [e] at hi; omega
  have hσ' : ∀ i : Fin n, r ≤ i.val → r ≤ (Equiv.swap (⟨r, hr⟩ : Fin n) p i).val := by
    intro i hi
    rw [Equiv.swap_apply_def]
    split_ifs <;> simp_all
  refine ⟨?_, h.hr, h.hlen, ?_, ?_⟩
  · obtain ⟨P, hP, hB⟩ := h.hP
    refine ⟨P.submatrix (Equiv.swap (⟨r, hr⟩ : Fin n) p) id, ?_, ?_⟩
    · rw [Matrix.det_permute]
      refine IsUnit.mul ?_ hP
      rcases Int.units_eq_one_or (Equiv.Perm.sign (Equiv.swap (⟨r, hr⟩ : Fin n) p)) with h | h <;> simp [h]
    · rw [hB]; ext i j; simp [Matrix.mul_apply]
  · intro i j hi hj
    exact h.hzero _ j (hσ' i hi) hj
  · intro t ht i
    have htr : t < r := h.hlen ▸ ht
    constructor
    · intro hi
      rw [Matrix.submatrix_apply, hσ i (by omega)]
      exact (h.hpiv t ht i).1 hi
    · intro hi
      rw [Matrix.submatrix_apply]
      by_cases hir : i.val < r
      · rw [hσ i hir]; exact (h.hpiv t ht i).2 hi
      · exact (h.hpiv t ht _).2 (lt_of_lt_of_le htr (hσ' i (by omega)))

/-- clearing column `k` below the non-zero pivot in row `r` gives the invariant for `r + 1`, `k + 1` -/
theorem Inv.elim {A X : Matrix (Fin n) (Fin m) K} {r k : Nat} {piv : List (Fin m)} (h : Inv A X r k piv)
    (hr : r < n) (c : Fin m) (hc : c.val = k) (hne : X ⟨r, hr⟩ c ≠ 0) :
    Inv A (elimBelow X ⟨r, hr⟩ c) (r + 1) (k + 1) (piv ++ [c]) := by
  have hcol : ∀ i : Fin n, r < i.val → elimBelow X ⟨r, hr⟩ c i c = 0 := by
    intro i hi
    simp only [elimBelow]
    rw [if_neg (by simpa using hi), mul_assoc, inv_mul_cancel₀ hne, mul_one, sub_self]
  refine ⟨?_, hr, by simp [h.hlen], ?_, ?_⟩
  · obtain ⟨P, hP, hB⟩ := h.hP
    refine ⟨elimMat X ⟨r, hr⟩ c * P, ?_, ?_⟩
    · rw [Matrix.det_mul, det_elimMat, one_mul]; exact hP
    · rw [Matrix.mul_assoc, ← hB, elimMat_mul]
  · intro i j hi hj
    by_cases hjk : j.val < k
    · simp only [elimBelow]
      rw [if_neg (by omega), h.hzero i j (by omega) hjk,
        h.hzero ⟨r, hr⟩ j (le_refl _) hjk]
      simp
    · have : j = c := Fin.ext (by omega)
      rw [this]; exact hcol i (by omega)
  · intro t ht i
    have ht2 : t < r + 1 := by simpa [h.hlen] using ht
    by_cases htr : t < r
    · have ht' : t < piv.length := h.hlen ▸ htr
      have hget : (piv ++ [c])[t] = piv[t] := List.getElem_append_left ht'
      rw [hget]
      constructor
      · intro hi
        simp only [elimBelow]
        rw [if_pos (by omega)]
        exact (h.hpiv t ht' i).1 hi
      · intro hi
        simp only [elimBelow]
        by_cases hir : i.val ≤ r
        · rw [if_pos (by simpa using hir)]; exact (h.hpiv t ht' i).2 hi
        · rw [if_neg (by simpa using hir), (h.hpiv t ht' i).2 hi, (h.hpiv t ht' ⟨r, hr⟩).2 htr]
          simp
    · have htr' : t = r := by omega
      subst htr'
      have hget : (piv ++ [c])[t] = c := by
        rw [List.getElem_append_right (le_of_eq h.hlen)]; simp [h.hlen]
      rw [hget]
      constructor
      · intro hi
        have : i = ⟨t, hr⟩ := Fin.ext hi
        subst this
        simp only [elimBelow]
        rw [if_pos (le_refl _)]; exact hne
      · intro hi; exact hcol i hi

/-- the `r × r` block of an echelon matrix on its pivot columns has non-zero determinant -/
theorem Inv.det_block_ne_zero {A B : Matrix (Fin n) (Fin m) K} {r k : Nat} {piv : List (Fin m)} (h : Inv A B r k piv) :
    (B.submatrix (fun t : Fin piv.length => (⟨t.val, by have := h.hlen; have := h.hr; omega⟩ : Fin n))
      (fun t : Fin piv.length => piv[t.val])).det ≠ 0 := by
  rw [Matrix.det_of_isUpperTriangular]
  · rw [Finset.prod_ne_zero_iff]
    intro t _
    exact (h.hpiv t.val t.isLt _).1 rfl
  · intro i j hji
    exact (h.hpiv j.val j.isLt _).2 (Fin.lt_def.mp hji)

/-- at the end the echelon matrix has rank `r` -/
theorem Inv.rank_echelon {A B : Matrix (Fin n) (Fin m) K} {r : Nat} {piv : List (Fin m)} (h : Inv A B r m piv) :
    B.rank = r := by
  apply le_antisymm
  · classical
    refine (Matrix.rank_le_card_of_support_subset B (Finset.univ.filter fun i : Fin n => i.val < r) ?_).trans ?_
    · intro i hi
      rw [Finset.mem_coe, Finset.mem_filter]
      refine ⟨Finset.mem_univ _, ?_⟩
      by_contra hir
      apply hi
      funext j
      exact h.hzero i j (by omega) j.isLt
    · calc (Finset.univ.filter fun i : Fin n => i.val < r).card ≤ (Finset.range r).card :=
            Finset.card_le_card_of_injOn (fun i => i.val) (by intro i hi; simpa using hi)
              (by intro a _ b _ hab; exact Fin.ext hab)
        _ = r := Finset.card_range r
  · have h1 := Matrix.rank_of_det_ne_zero h.det_block_ne_zero
    rw [Fintype.card_fin] at h1
    rw [← h.hlen, ← h1]
    exact Matrix.rank_submatrix_le _ _ _

/-- … hence the original matrix has rank `r` -/
theorem Inv.rank_eq {A B : Matrix (Fin n) (Fin m) K} {r : Nat} {piv : List (Fin m)} (h : Inv A B r m piv) :
    A.rank = r := by
  obtain ⟨P, hP, hB⟩ := h.hP
  rw [← h.rank_echelon, hB, Matrix.rank_mul_eq_right_of_isUnit_det _ _ hP]

/-- the pivot columns of the original matrix form a matrix of full column rank -/
theorem Inv.rank_pivot_columns {A B : Matrix (Fin n) (Fin m) K} {r k : Nat} {piv : List (Fin m)} (h : Inv A B r k piv) :
    (A.submatrix id (fun t : Fin piv.length => piv[t.val])).rank = piv.length := by
  obtain ⟨P, hP, hB⟩ := h.hP
  have e : B.submatrix id (fun t : Fin piv.length => piv[t.val]) = P * A.submatrix id (fun t : Fin piv.length => piv[t.val]) := by
    rw [hB]; ext i j; simp [Matrix.mul_apply]
  rw [← Matrix.rank_mul_eq_right_of_isUnit_det P _ hP, ← e]
  apply le_antisymm
  · exact (Matrix.rank_le_card_width _).trans_eq (Fintype.card_fin _)
  · have h1 := Matrix.rank_of_det_ne_zero h.det_block_ne_zero
    rw [Fintype.card_fin] at h1
    conv_lhs => rw [← h1]
    have : (B.submatrix (fun t : Fin piv.length => (⟨t.val, by have := h.hlen; have := h.hr; omega⟩ : Fin n))
        (fun t : Fin piv.length => piv[t.val]))
        = (B.submatrix id (fun t : Fin piv.length => piv[t.val])).submatrix
            (fun t : Fin piv.length => (⟨t.val, by have := h.hlen; have := h.hr; omega⟩ : Fin n)) id := rfl
    rw [this]
    exact Matrix.rank_submatrix_le _ _ _

end Abstract

/-! ## Part 2: the executable elimination denotes these operations -/

section Exec
variable {n m : Nat}

theorem toC_qinv (a : QI) : (qinv a).toC = (a.toC)⁻¹ := by
  apply Complex.ext
  · simp [qinv, Complex.inv_re, Complex.normSq_apply]
  · simp [qinv, Complex.inv_im, Complex.normSq_apply]

theorem toC_eq_zero_iff (a : QI) : a.toC = 0 ↔ a = 0 := by
  constructor
  · intro h; exact QI.toC_injective (h.trans QI.toC_zero.symm)
  · rintro rfl; exact QI.toC_zero

theorem findPivot_none {A : EMat n m} {r : Nat} {c : Fin m} (h : findPivot A r c = none) (i : Fin n) (hi : r ≤ i.val) :
    A.toM i c = 0 := by
  unfold findPivot at h
  rw [List.find?_eq_none] at h
  have := h i (List.mem_finRange i)
  simp [hi] at this
  simp [this]

theorem findPivot_some {A : EMat n m} {r : Nat} {c : Fin m} {p : Fin n} (h : findPivot A r c = some p) :
    r ≤ p.val ∧ A.toM p c ≠ 0 := by
  have := List.find?_some h
  simp at this
  exact ⟨this.1, fun h0 => this.2 ((toC_eq_zero_iff _).mp h0)⟩

theorem get_elimRows (A : EMat n m) (r p : Fin n) (c : Fin m) (i : Fin n) (j : Fin m) :
    (elimRows A r p c).get i j =
      if i.val ≤ r.val then A.get (swapIdx r p i) j
      else if A.get (swapIdx r p i) c * qinv (A.get p c) = 0 then A.get (swapIdx r p i) j
      else A.get (swapIdx r p i) j - A.get (swapIdx r p i) c * qinv (A.get p c) * A.get p j := by
  unfold elimRows EMat.get
  simp only [Fin.getElem_fin, Vector.getElem_ofFn, Fin.eta]
  split
  · rfl
  · split
    · rfl
    · simp only [Vector.getElem_ofFn]

theorem toM_elimRows (A : EMat n m) (r p : Fin n) (c : Fin m) :
    (elimRows A r p c).toM = elimBelow (A.toM.submatrix (Equiv.swap r p) id) r c := by
  ext i j
  have hs : swapIdx r p i = Equiv.swap r p i := by rw [Equiv.swap_apply_def]; rfl
  have hp : Equiv.swap r p r = p := Equiv.swap_apply_left r p
  simp only [EMat.toM_apply, elimBelow, Matrix.submatrix_apply, id, hp, ← hs, get_elimRows]
  generalize A.get (swapIdx r p i) j = x
  generalize A.get (swapIdx r p i) c = y
  generalize A.get p c = z
  generalize A.get p j = w
  by_cases h1 : i.val ≤ r.val
  · rw [if_pos h1, if_pos h1]
  · rw [if_neg h1, if_neg h1]
    by_cases h2 : y * qinv z = 0
    · rw [if_pos h2]
      have h3 : (y * qinv z).toC = 0 := by rw [h2]; exact QI.toC_zero
      rw [QI.toC_mul, toC_qinv] at h3
      rw [h3, zero_mul, sub_zero]
    · rw [if_neg h2, QI.toC_sub, QI.toC_mul, QI.toC_mul, toC_qinv]

/-- the elimination state denotes an echelon form of `A.toM` -/
theorem run_inv (A : EMat n m) (k : Nat) (hk : k ≤ m) :
    Inv A.toM (run A k).M.toM (run A k).r k (run A k).piv := by
  induction k with
  | zero => exact Inv.init _
  | succ k ih =>
    have ih := ih (by omega)
    have hkm : k < m := hk
    simp only [run, dif_pos hkm, step]
    cases hf : findPivot (run A k).M (run A k).r ⟨k, hkm⟩ with
    | none => exact ih.skip ⟨k, hkm⟩ rfl (fun i hi => findPivot_none hf i hi)
    | some p =>
      obtain ⟨hp1, hp2⟩ := findPivot_some hf
      have hr : (run A k).r < n := lt_of_le_of_lt hp1 p.isLt
      simp only [dif_pos hr]
      rw [toM_elimRows]
      refine (ih.swap hr p hp1).elim hr ⟨k, hkm⟩ rfl ?_
      rw [Matrix.submatrix_apply, Equiv.swap_apply_left]
      exact hp2

theorem rankE_eq_rank (A : EMat n m) : rankE A = A.toM.rank :=
  ((run_inv A m (le_refl _)).rank_eq).symm

theorem pivotsE_length (A : EMat n m) : (pivotsE A).length = A.toM.rank := by
  rw [← rankE_eq_rank]; exact (run_inv A m (le_refl _)).hlen


/-- the pivot columns of `A` are linearly independent (and there are `rank A` of them): a basis of the column space -/
theorem pivotsE_rank_columns (A : EMat n m) :
    (A.toM.submatrix id (fun t : Fin (pivotsE A).length => (pivotsE A)[t.val])).rank = (pivotsE A).length :=
  (run_inv A m (le_refl _)).rank_pivot_columns

end Exec

/-! ## linear independence of columns and rank -/

/-- the columns of a matrix over a field are linearly independent iff the rank is the number of columns -/
theorem linearIndependent_col_iff_rank {K : Type*} [Field K] {d n : Nat} (M : Matrix (Fin d) (Fin n) K) :
    LinearIndependent K M.col ↔ M.rank = n := by
  rw [linearIndependent_iff_card_eq_finrank_span, Matrix.rank_eq_finrank_span_cols, Fintype.card_fin, Set.finrank]
  exact eq_comm

/-- the rows of a matrix over a field are linearly independent iff the rank is the number of rows -/
theorem linearIndependent_row_iff_rank {K : Type*} [Field K] {r c : Nat} (M : Matrix (Fin r) (Fin c) K) :
    LinearIndependent K M.row ↔ M.rank = r := by
  rw [← Matrix.rank_transpose, ← linearIndependent_col_iff_rank, Matrix.col_transpose]

/-- the rank is smaller than the number of columns iff the matrix has a non-zero kernel vector -/
theorem rank_lt_cols_iff_kernel {K : Type*} [Field K] {r c : Nat} (M : Matrix (Fin r) (Fin c) K) :
    M.rank < c ↔ ∃ x : Fin c → K, x ≠ 0 ∧ M *ᵥ x = 0 := by
  have hle : M.rank ≤ c := Matrix.rank_le_width M
  rw [lt_iff_le_and_ne, and_iff_right hle, Ne, ← linearIndependent_col_iff_rank, Fintype.not_linearIndependent_iff]
  have key : ∀ x : Fin c → K, ∑ j, x j • M.col j = M *ᵥ x := by
    intro x
    funext i
    simp [Matrix.mulVec, dotProduct, Matrix.col, Finset.sum_apply, mul_comm]
  constructor
  · rintro ⟨x, hx, j, hj⟩
    exact ⟨x, fun h0 => hj (congrFun h0 j), (key x).symm.trans hx⟩
  · rintro ⟨x, hx, hM⟩
    refine ⟨x, (key x).trans hM, ?_⟩
    by_contra hall
    exact hx (funext fun j => not_not.mp fun hj => hall ⟨j, hj⟩)

/-- rank–nullity: the kernel of a `r × c` matrix has dimension `c − rank` -/
theorem finrank_ker_eq {K : Type*} [Field K] {r c : Nat} (M : Matrix (Fin r) (Fin c) K) :
    Module.finrank K (LinearMap.ker M.mulVecLin) = c - M.rank := by
  have h := LinearMap.finrank_range_add_finrank_ker M.mulVecLin
  have hc : Module.finrank K (Fin c → K) = c := by simp
  have hr : M.rank = Module.finrank K (LinearMap.range M.mulVecLin) := rfl
  omega

theorem pivotsE_linearIndependent {n m : Nat} (A : EMat n m) :
    LinearIndependent ℂ (fun t : Fin (pivotsE A).length => A.toM.col ((pivotsE A)[t.val])) :=
  (linearIndependent_col_iff_rank (A.toM.submatrix id (fun t : Fin (pivotsE A).length => (pivotsE A)[t.val]))).mpr
    (pivotsE_rank_columns A)

/-! ## function matrices -/

/-- the complex `n × m` matrix denoted by the leading block of a function matrix over `ℚ[i]` -/
def fnToM (n m : Nat) (f : Nat → Nat → QI) : Matrix (Fin n) (Fin m) ℂ := fun i j => (f i.val j.val).toC

theorem toM_ofFn_val (n m : Nat) (f : Nat → Nat → QI) :
    (EMat.ofFn (n := n) (m := m) fun i j => f i.val j.val).toM = fnToM n m f := by
  ext i j; simp [fnToM]

/-- **the exact rank routine is correct**: it returns Mathlib's rank of the denoted complex matrix -/
theorem rankFn_eq_rank (n m : Nat) (f : Nat → Nat → QI) : rankFn n m f = (fnToM n m f).rank := by
  unfold rankFn; rw [rankE_eq_rank, toM_ofFn_val]

theorem pivotsFn_length (n m : Nat) (f : Nat → Nat → QI) : (pivotsFn n m f).length = (fnToM n m f).rank := by
  unfold pivotsFn; rw [List.length_map, pivotsE_length, toM_ofFn_val]

theorem pivotsFn_lt (n m : Nat) (f : Nat → Nat → QI) : ∀ q ∈ pivotsFn n m f, q < m := by
  intro q hq
  unfold pivotsFn at hq
  obtain ⟨x, _, rfl⟩ := List.mem_map.mp hq
  exact x.isLt

/-- the pivot columns (as columns of the function matrix) are linearly independent -/
theorem pivotsFn_linearIndependent (n m : Nat) (f : Nat → Nat → QI) :
    LinearIndependent ℂ (fun t : Fin (pivotsFn n m f).length => fun i : Fin n => (f i.val ((pivotsFn n m f)[t.val])).toC) := by
  have h := pivotsE_linearIndependent (EMat.ofFn (n := n) (m := m) fun i j => f i.val j.val)
  have hl : (pivotsFn n m f).length = (pivotsE (EMat.ofFn (n := n) (m := m) fun i j => f i.val j.val)).length := by
    unfold pivotsFn; rw [List.length_map]
  have := h.comp (Fin.cast hl) (Fin.cast_injective hl)
  convert this using 1
  funext t
  funext i
  simp [pivotsFn, Matrix.col, Function.comp, Matrix.transpose_apply]
  rfl

end Toq.Rank
