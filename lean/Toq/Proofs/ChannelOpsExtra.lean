import Toq.Proofs.ChannelOps
import Toq.Model.ChannelOpsExtra
import Toq.Spec.ChannelOpsExtra
import Toq.Model.PartialOps
import Toq.Spec.PartialTrace
import Toq.Proofs.PartialTrace
import Mathlib.LinearAlgebra.Matrix.PosDef
/-!
# Lemmas for the deepening of C04 / C05

* sums over filtered / enumerated lists, and the assembly step of `choi_to_kraus`
  (`Toq/Model/ChannelOpsExtra.lean`): from *any* factors with `Σ_kept s_i u_i v_iᴴ = J` the returned
  operators satisfy `Σ_k vec(A_k) vec(B_k)ᴴ = J`;
* `kraus_to_choi` of such operators is `J` again (round trip), `kraus_to_choi(·, sys=1)`;
* trace preservation / unitality criteria on Kraus operators, on the map and on the Choi matrix;
* the dual keeps complete positivity of the list form; the complementary family of the complementary
  family is the original one.
-/
set_option linter.unusedSectionVars false
set_option linter.unusedVariables false
open Toq.Perms Toq.ChannelSpec

namespace Toq.ChannelOps
open Mat

/-! ## sums over lists -/
section listsums
variable {α : Type} [CommSemiring α] {β : Type}

theorem sumN_getD_map (F : List β) (φ : β → α) (d : β) :
    sumN F.length (fun k => φ (F.getD k d)) = (F.map φ).sum := by
  induction F with
  | nil => simp [sumN]
  | cons x t ih =>
    rw [List.length_cons, sumN_succ_shift]
    simp only [List.getD_cons_zero, List.getD_cons_succ, List.map_cons, List.sum_cons, ih]

theorem sum_map_filter (l : List β) (p : β → Bool) (φ : β → α) :
    ((l.filter p).map φ).sum = (l.map (fun x => if p x then φ x else 0)).sum := by
  induction l with
  | nil => simp
  | cons x t ih =>
    by_cases h : p x
    · simp [h, ih]
    · simp [h, ih]

theorem sum_map_zipIdx (l : List β) (n : Nat) (ψ : β × Nat → α) (d : β) :
    ((l.zipIdx n).map ψ).sum = sumN l.length (fun i => ψ (l.getD i d, n + i)) := by
  induction l generalizing n with
  | nil => simp [sumN]
  | cons x t ih =>
    rw [List.zipIdx_cons, List.map_cons, List.sum_cons, ih (n + 1), List.length_cons, sumN_succ_shift]
    simp only [List.getD_cons_zero, List.getD_cons_succ, Nat.add_zero]
    congr 1
    apply sumN_congr; intro i _
    congr 2
    omega

/-- the sum over the kept, enumerated elements of a list, written as a sum over all positions -/
theorem sumN_filter_zipIdx (l : List β) (keep : β → Bool) (φ : β × Nat → α) (d : β) (d' : β × Nat) :
    sumN ((l.zipIdx).filter (fun p => keep p.1)).length
        (fun k => φ (((l.zipIdx).filter (fun p => keep p.1)).getD k d'))
      = sumN l.length (fun i => if keep (l.getD i d) then φ (l.getD i d, i) else 0) := by
  rw [sumN_getD_map, sum_map_filter, sum_map_zipIdx l 0 _ d]
  apply sumN_congr; intro i _
  simp

/-- `zip(filter(keep, l), [mk(x, i) for (x, i) in enumerate(l) if keep(x)])` pairs every kept element
    with its own image -/
theorem zip_filter_map_zipIdx {γ : Type} (l : List β) (n : Nat) (keep : β → Bool) (mk : β × Nat → γ) :
    (l.filter keep).zip (((l.zipIdx n).filter (fun p => keep p.1)).map mk)
      = ((l.zipIdx n).filter (fun p => keep p.1)).map (fun p => (p.1, mk p)) := by
  induction l generalizing n with
  | nil => simp
  | cons x t ih =>
    by_cases h : keep x
    · simp [List.zipIdx_cons, h, ih (n + 1)]
    · simp [List.zipIdx_cons, h, ih (n + 1)]

end listsums

section famgen
variable {α : Type} [Zero α] {β : Type}

/-- the family of a mapped list -/
theorem fam_map_gen (F : List β) (mk : β → Mat α) (d : β) (k : Nat) (hk : k < F.length) :
    fam (F.map mk) k = (mk (F.getD k d)).e := by
  unfold fam
  rw [List.getD_eq_getElem?_getD, List.getD_eq_getElem?_getD, List.getElem?_map,
    List.getElem?_eq_getElem hk]
  rfl

theorem shaped_map_gen (F : List β) (mk : β → Mat α) (r c : Nat) (h : ∀ x, (mk x).r = r ∧ (mk x).c = c) :
    Shaped (F.map mk) r c := by
  intro m hm
  obtain ⟨x, _, rfl⟩ := List.mem_map.mp hm
  exact h x

end famgen

/-! ## the assembly step of `choi_to_kraus` -/
section c2k
variable {α : Type} [CommSemiring α] [StarRing α]

/-- `Σ_k vec(A_k) vec(B_k)ᴴ = J` for the column-major `vec` (`A_k` of shape `do0 × di0`, `B_k` of shape
    `do1 × di1`): the defining relation of a Kraus representation of the map with Choi matrix `J` -/
def Reproduces (J : Mat α) (as bs : List (Mat α)) (do0 di0 do1 di1 : Nat) : Prop :=
  ∀ p q, p < J.r → q < J.c →
    sumN as.length (fun k => (⟨do0, di0, fam as k⟩ : Mat α).vecF p
      * HasConj.conj ((⟨do1, di1, fam bs k⟩ : Mat α).vecF q)) = J.e p q

/-- the elements kept by the filter of `choi_to_kraus`, with their positions -/
def keptIdx (ops : RealOps α) (tol : α) (l : List α) : List (α × Nat) :=
  (l.zipIdx).filter (fun p => c2kKeep ops tol p.1)

theorem take_zipIdx_all (l : List α) (n : Nat) (h : l.length = n) : (l.zipIdx).take n = l.zipIdx := by
  apply List.take_of_length_le
  simp [h]

theorem vecF_smul_unvecF (s : α) (v : Nat → α) (r c p : Nat) :
    (⟨r, c, (smul s (unvecF v r c)).e⟩ : Mat α).vecF p = s * v p := by
  simp only [Mat.vecF, smul, unvecF, Nat.mod_add_div]

/-- general (SVD) branch: both lists are images of the same list of kept positions -/
theorem c2kSvd_lists (ops : RealOps α) (tol : α) (svd : Svd α) (do0 di0 do1 di1 : Nat)
    (hU : svd.S.length = svd.U.c) (hV : svd.S.length = svd.Vh.r) :
    c2kSvdLeft ops tol svd do0 di0
        = (keptIdx ops tol svd.S).map (fun p => smul (ops.sqrt p.1) (unvecF (svd.U.colv p.2) do0 di0)) ∧
    c2kSvdRight ops tol svd do1 di1
        = (keptIdx ops tol svd.S).map
            (fun p => smul (ops.sqrt p.1) (unvecF (fun t => HasConj.conj (svd.Vh.rowv p.2 t)) do1 di1)) := by
  constructor
  · simp only [c2kSvdLeft, keptIdx, take_zipIdx_all svd.S svd.U.c hU]
  · simp only [c2kSvdRight, keptIdx, take_zipIdx_all svd.S svd.Vh.r hV]

/-- **assembly, general branch**: if the kept terms of the factorisation reproduce `J`,
    `Σ_{i kept} s_i · U[p,i] · Vh[i,q] = J[p,q]`, and `sqrt(s)·conj(sqrt(s)) = s` on the kept values, then the
    returned pairs satisfy the defining relation. -/
theorem c2kSvd_reproduces (ops : RealOps α) (tol : α) (svd : Svd α) (J : Mat α) (do0 di0 do1 di1 : Nat)
    (hU : svd.S.length = svd.U.c) (hV : svd.S.length = svd.Vh.r)
    (hsqrt : ∀ i, i < svd.S.length → c2kKeep ops tol (svd.S.getD i 0) = true →
      ops.sqrt (svd.S.getD i 0) * star (ops.sqrt (svd.S.getD i 0)) = svd.S.getD i 0)
    (hdec : ∀ p q, p < J.r → q < J.c →
      sumN svd.S.length (fun i => if c2kKeep ops tol (svd.S.getD i 0) then
        svd.S.getD i 0 * svd.U.e p i * svd.Vh.e i q else 0) = J.e p q) :
    Reproduces J (c2kSvdLeft ops tol svd do0 di0) (c2kSvdRight ops tol svd do1 di1) do0 di0 do1 di1 := by
  obtain ⟨eL, eR⟩ := c2kSvd_lists ops tol svd do0 di0 do1 di1 hU hV
  intro p q hp hq
  rw [eL, eR, List.length_map, ← hdec p q hp hq]
  have step : ∀ k, k < (keptIdx ops tol svd.S).length →
      (⟨do0, di0, fam ((keptIdx ops tol svd.S).map
          (fun p => smul (ops.sqrt p.1) (unvecF (svd.U.colv p.2) do0 di0))) k⟩ : Mat α).vecF p
        * HasConj.conj ((⟨do1, di1, fam ((keptIdx ops tol svd.S).map
          (fun p => smul (ops.sqrt p.1) (unvecF (fun t => HasConj.conj (svd.Vh.rowv p.2 t)) do1 di1))) k⟩ : Mat α).vecF q)
      = (fun x : α × Nat => ops.sqrt x.1 * star (ops.sqrt x.1) * svd.U.e p x.2 * svd.Vh.e x.2 q)
          ((keptIdx ops tol svd.S).getD k (0, 0)) := by
    intro k hk
    rw [fam_map_gen _ _ (0, 0) k hk, fam_map_gen _ _ (0, 0) k hk, vecF_smul_unvecF, vecF_smul_unvecF]
    simp only [conj_eq_star, star_mul', star_star, colv, rowv]
    ring
  rw [sumN_congr _ _ _ step]
  unfold keptIdx
  rw [sumN_filter_zipIdx svd.S (c2kKeep ops tol)
    (fun x : α × Nat => ops.sqrt x.1 * star (ops.sqrt x.1) * svd.U.e p x.2 * svd.Vh.e x.2 q) 0 (0, 0)]
  apply sumN_congr; intro i hi
  by_cases hkeep : c2kKeep ops tol (svd.S.getD i 0) = true
  · rw [if_pos hkeep, if_pos hkeep, hsqrt i hi hkeep]
  · rw [if_neg hkeep, if_neg hkeep]

theorem c2kSvd_shapes (ops : RealOps α) (tol : α) (svd : Svd α) (do0 di0 do1 di1 : Nat)
    (hU : svd.S.length = svd.U.c) (hV : svd.S.length = svd.Vh.r) :
    Shaped (c2kSvdLeft ops tol svd do0 di0) do0 di0 ∧ Shaped (c2kSvdRight ops tol svd do1 di1) do1 di1 ∧
    (c2kSvdLeft ops tol svd do0 di0).length = (c2kSvdRight ops tol svd do1 di1).length := by
  obtain ⟨eL, eR⟩ := c2kSvd_lists ops tol svd do0 di0 do1 di1 hU hV
  rw [eL, eR]
  refine ⟨shaped_map_gen _ _ _ _ (fun _ => ⟨rfl, rfl⟩), shaped_map_gen _ _ _ _ (fun _ => ⟨rfl, rfl⟩), ?_⟩
  simp

/-- Hermitian branch: the left list, and the right list as an image of the same kept positions -/
theorem c2kHerm_lists (ops : RealOps α) (tol : α) (eig : Eigh α) (do0 di0 : Nat)
    (hV : eig.evals.length = eig.V.c) :
    c2kHermLeft ops tol eig do0 di0
        = (keptIdx ops tol eig.evals).map
            (fun p => smul (ops.sqrt (ops.abs p.1)) (unvecF (eig.V.colv p.2) do0 di0)) ∧
    c2kHermRight ops tol eig.evals (c2kHermLeft ops tol eig do0 di0)
        = (keptIdx ops tol eig.evals).map
            (fun p => smul (ops.sign p.1) (smul (ops.sqrt (ops.abs p.1)) (unvecF (eig.V.colv p.2) do0 di0))) := by
  have e1 : c2kHermLeft ops tol eig do0 di0
        = (keptIdx ops tol eig.evals).map
            (fun p => smul (ops.sqrt (ops.abs p.1)) (unvecF (eig.V.colv p.2) do0 di0)) := by
    simp only [c2kHermLeft, keptIdx, take_zipIdx_all eig.evals eig.V.c hV]
  refine ⟨e1, ?_⟩
  rw [e1]
  unfold c2kHermRight keptIdx
  rw [zip_filter_map_zipIdx eig.evals 0 (c2kKeep ops tol), List.map_map]
  rfl

/-- **assembly, Hermitian indefinite branch**: if `Σ_{i kept} λ_i · V[p,i] · conj(V[q,i]) = J[p,q]` and
    `sqrt(|λ|)·conj(sqrt(|λ|))·conj(sign λ) = λ` on the kept eigenvalues, the returned pairs
    `(√|λ_i|·unvec(v_i), sign(λ_i)·√|λ_i|·unvec(v_i))` satisfy the defining relation. -/
theorem c2kHerm_reproduces (ops : RealOps α) (tol : α) (eig : Eigh α) (J : Mat α) (do0 di0 : Nat)
    (hV : eig.evals.length = eig.V.c)
    (hsqrt : ∀ i, i < eig.evals.length → c2kKeep ops tol (eig.evals.getD i 0) = true →
      ops.sqrt (ops.abs (eig.evals.getD i 0)) * star (ops.sqrt (ops.abs (eig.evals.getD i 0)))
        * star (ops.sign (eig.evals.getD i 0)) = eig.evals.getD i 0)
    (hdec : ∀ p q, p < J.r → q < J.c →
      sumN eig.evals.length (fun i => if c2kKeep ops tol (eig.evals.getD i 0) then
        eig.evals.getD i 0 * eig.V.e p i * star (eig.V.e q i) else 0) = J.e p q) :
    Reproduces J (c2kHermLeft ops tol eig do0 di0)
      (c2kHermRight ops tol eig.evals (c2kHermLeft ops tol eig do0 di0)) do0 di0 do0 di0 := by
  obtain ⟨eL, eR⟩ := c2kHerm_lists ops tol eig do0 di0 hV
  intro p q hp hq
  rw [eR, eL, List.length_map, ← hdec p q hp hq]
  have step : ∀ k, k < (keptIdx ops tol eig.evals).length →
      (⟨do0, di0, fam ((keptIdx ops tol eig.evals).map
          (fun p => smul (ops.sqrt (ops.abs p.1)) (unvecF (eig.V.colv p.2) do0 di0))) k⟩ : Mat α).vecF p
        * HasConj.conj ((⟨do0, di0, fam ((keptIdx ops tol eig.evals).map
          (fun p => smul (ops.sign p.1) (smul (ops.sqrt (ops.abs p.1)) (unvecF (eig.V.colv p.2) do0 di0)))) k⟩ : Mat α).vecF q)
      = (fun x : α × Nat => ops.sqrt (ops.abs x.1) * star (ops.sqrt (ops.abs x.1)) * star (ops.sign x.1)
            * eig.V.e p x.2 * star (eig.V.e q x.2))
          ((keptIdx ops tol eig.evals).getD k (0, 0)) := by
    intro k hk
    rw [fam_map_gen _ _ (0, 0) k hk, fam_map_gen _ _ (0, 0) k hk, vecF_smul_unvecF]
    have : ∀ (s t : α) (v : Nat → α) (r c p : Nat),
        (⟨r, c, (smul s (smul t (unvecF v r c))).e⟩ : Mat α).vecF p = s * (t * v p) := by
      intro s t v r c p
      simp only [Mat.vecF, smul, unvecF, Nat.mod_add_div]
    rw [this]
    simp only [conj_eq_star, star_mul', colv]
    ring
  rw [sumN_congr _ _ _ step]
  unfold keptIdx
  rw [sumN_filter_zipIdx eig.evals (c2kKeep ops tol)
    (fun x : α × Nat => ops.sqrt (ops.abs x.1) * star (ops.sqrt (ops.abs x.1)) * star (ops.sign x.1)
            * eig.V.e p x.2 * star (eig.V.e q x.2)) 0 (0, 0)]
  apply sumN_congr; intro i hi
  by_cases hkeep : c2kKeep ops tol (eig.evals.getD i 0) = true
  · rw [if_pos hkeep, if_pos hkeep, hsqrt i hi hkeep]
  · rw [if_neg hkeep, if_neg hkeep]

/-- **assembly, positive semidefinite branch**: if `Σ_{i kept} λ_i · V[p,i] · conj(V[q,i]) = J[p,q]` and
    `sqrt(|λ|)·conj(sqrt(|λ|)) = λ` on the kept eigenvalues (they are non-negative), the returned flat list
    `√|λ_i|·unvec(v_i)` satisfies the defining relation with `B = A`. -/
theorem c2kPsd_reproduces (ops : RealOps α) (tol : α) (eig : Eigh α) (J : Mat α) (do0 di0 : Nat)
    (hV : eig.evals.length = eig.V.c)
    (hsqrt : ∀ i, i < eig.evals.length → c2kKeep ops tol (eig.evals.getD i 0) = true →
      ops.sqrt (ops.abs (eig.evals.getD i 0)) * star (ops.sqrt (ops.abs (eig.evals.getD i 0)))
        = eig.evals.getD i 0)
    (hdec : ∀ p q, p < J.r → q < J.c →
      sumN eig.evals.length (fun i => if c2kKeep ops tol (eig.evals.getD i 0) then
        eig.evals.getD i 0 * eig.V.e p i * star (eig.V.e q i) else 0) = J.e p q) :
    Reproduces J (c2kHermLeft ops tol eig do0 di0) (c2kHermLeft ops tol eig do0 di0) do0 di0 do0 di0 := by
  obtain ⟨eL, _⟩ := c2kHerm_lists ops tol eig do0 di0 hV
  intro p q hp hq
  rw [eL, List.length_map, ← hdec p q hp hq]
  have step : ∀ k, k < (keptIdx ops tol eig.evals).length →
      (⟨do0, di0, fam ((keptIdx ops tol eig.evals).map
          (fun p => smul (ops.sqrt (ops.abs p.1)) (unvecF (eig.V.colv p.2) do0 di0))) k⟩ : Mat α).vecF p
        * HasConj.conj ((⟨do0, di0, fam ((keptIdx ops tol eig.evals).map
          (fun p => smul (ops.sqrt (ops.abs p.1)) (unvecF (eig.V.colv p.2) do0 di0))) k⟩ : Mat α).vecF q)
      = (fun x : α × Nat => ops.sqrt (ops.abs x.1) * star (ops.sqrt (ops.abs x.1))
            * eig.V.e p x.2 * star (eig.V.e q x.2))
          ((keptIdx ops tol eig.evals).getD k (0, 0)) := by
    intro k hk
    rw [fam_map_gen _ _ (0, 0) k hk, vecF_smul_unvecF, vecF_smul_unvecF]
    simp only [conj_eq_star, star_mul', colv]
    ring
  rw [sumN_congr _ _ _ step]
  unfold keptIdx
  rw [sumN_filter_zipIdx eig.evals (c2kKeep ops tol)
    (fun x : α × Nat => ops.sqrt (ops.abs x.1) * star (ops.sqrt (ops.abs x.1))
            * eig.V.e p x.2 * star (eig.V.e q x.2)) 0 (0, 0)]
  apply sumN_congr; intro i hi
  by_cases hkeep : c2kKeep ops tol (eig.evals.getD i 0) = true
  · rw [if_pos hkeep, if_pos hkeep, hsqrt i hi hkeep]
  · rw [if_neg hkeep, if_neg hkeep]

theorem c2kHerm_shapes (ops : RealOps α) (tol : α) (eig : Eigh α) (do0 di0 : Nat)
    (hV : eig.evals.length = eig.V.c) :
    Shaped (c2kHermLeft ops tol eig do0 di0) do0 di0 ∧
    Shaped (c2kHermRight ops tol eig.evals (c2kHermLeft ops tol eig do0 di0)) do0 di0 ∧
    (c2kHermLeft ops tol eig do0 di0).length
      = (c2kHermRight ops tol eig.evals (c2kHermLeft ops tol eig do0 di0)).length := by
  obtain ⟨eL, eR⟩ := c2kHerm_lists ops tol eig do0 di0 hV
  rw [eR, eL]
  refine ⟨shaped_map_gen _ _ _ _ (fun _ => ⟨rfl, rfl⟩), shaped_map_gen _ _ _ _ (fun _ => ⟨rfl, rfl⟩), ?_⟩
  simp

end c2k


/-! ## round trip: `kraus_to_choi` of a family that reproduces `J` is `J` -/
section roundtrip
variable {α : Type} [CommSemiring α] [StarRing α]

/-- the defining relation, read at the tensor index `(i, a)`, `(j, b)` -/
theorem reproduces_entry (J : Mat α) (as bs : List (Mat α)) (di0 di1 do0 do1 : Nat)
    (hJr : J.r = di0 * do0) (hJc : J.c = di1 * do1) (hvec : Reproduces J as bs do0 di0 do1 di1)
    (i a j b : Nat) (hi : i < di0) (ha : a < do0) (hj : j < di1) (hb : b < do1) :
    sumN as.length (fun k => fam as k a i * HasConj.conj (fam bs k b j)) = J.e (i * do0 + a) (j * do1 + b) := by
  have hp : i * do0 + a < J.r := by rw [hJr]; exact lt_mul_of_digits i di0 a do0 hi ha
  have hq : j * do1 + b < J.c := by rw [hJc]; exact lt_mul_of_digits j di1 b do1 hj hb
  rw [← hvec _ _ hp hq]
  obtain ⟨h1, h2⟩ := divmod_be i do0 a ha
  obtain ⟨h3, h4⟩ := divmod_be j do1 b hb
  simp only [Mat.vecF, h1, h2, h3, h4]

/-- every index below `d * p` is a pair -/
theorem index_split (x d p : Nat) (hx : x < d * p) : x / p < d ∧ x % p < p ∧ (x / p) * p + x % p = x := by
  have hp : 0 < p := by
    rcases Nat.eq_zero_or_pos p with h0 | h0
    · subst h0; simp at hx
    · exact h0
  exact ⟨(Nat.div_lt_iff_lt_mul hp).mpr hx, Nat.mod_lt _ hp, Nat.div_add_mod' x p⟩

end roundtrip

/-! ## `kraus_to_choi(kraus_ops, sys=1)` -/
section sys1
variable {α : Type} [CommSemiring α] [StarRing α]

theorem prodBefore_one (d : Nat → Nat) : prodBefore d 1 = 1 := by simp [prodBefore, prodN]
theorem prodAfter_one_two (d : Nat) : prodAfter (fnOfList [d, d]) 2 1 = d := by
  simp [prodAfter, prodN, fnOfList]

omit [StarRing α] in
theorem unit_symm (i j q q' : Nat) : (unit i j q q' : α) = unit q q' i j := by
  unfold unit
  have : (q = i ∧ q' = j) ↔ (i = q ∧ j = q') :=
    ⟨fun h => ⟨h.1.symm, h.2.symm⟩, fun h => ⟨h.1.symm, h.2.symm⟩⟩
  simp only [this]

/-- core of `kraus_to_choi(·, sys=1)`: the map is applied to the *first* half of the maximally entangled
    operator, so the result is `Σ_ij Φ(E_ij) ⊗ E_ij` -/
theorem krausToChoi_core_sys1 (phi : KrausArg α) (as bs : List (Mat α)) (di0 di1 do0 do1 : Nat) (env : Option Nat)
    (ha : Shaped as do0 di0) (hb : Shaped bs do1 di1) (hl : as.length = bs.length) (h : as ≠ [])
    (hdim : channelDimKraus phi true .none = .ok ⟨di0, di1, do0, do1, env⟩)
    (hpart : ∀ rho : Mat α, partialChannelKraus rho phi 1 2 (fnOfList [di0, di0]) (fnOfList [di1, di1])
      = some (applyKrausLists rho (as.map (embed 1 di0)) (bs.map (embed 1 di1)))) :
    ∃ J, krausToChoi phi 1 = some J ∧ J.r = do0 * di0 ∧ J.c = do1 * di1 ∧
      ∀ a q b q', a < do0 → q < di0 → b < do1 → q' < di1 →
        J.e (a * di0 + q) (b * di1 + q') = applySpec as.length (fam as) (fam bs) di0 di1 (unit q q') a b := by
  have hk : krausToChoi phi 1 = some (applyKrausLists ((maxEnt di0).mul (maxEnt di1).ct)
      (as.map (embed 1 di0)) (bs.map (embed 1 di1))) := by
    unfold krausToChoi
    rw [hdim]
    simp only []
    rw [hpart]
  refine ⟨_, hk, ?_, ?_, ?_⟩
  · cases as with
    | nil => exact absurd rfl h
    | cons a t =>
      have := (ha a (by simp)).1
      simp [applyKrausLists, Mat.mul, hcat, embed, kron, identity, this]
  · cases bs with
    | nil => cases as <;> simp_all
    | cons b u =>
      have := (hb b (by simp)).1
      simp [applyKrausLists, Mat.mul, vcat, Mat.ct, Mat.T, Mat.conj, embed, kron, identity, this]
  · intro a q b q' hA hq hB hq'
    have := partialKrausLists_e ((maxEnt di0).mul (maxEnt di1).ct) as bs 1 di0 1 di1 di0 di1 do0 do1 ha hb hl
      (by simp [Mat.mul, maxEnt]) (by simp [Mat.mul, maxEnt, Mat.ct, Mat.T, Mat.conj])
      0 a q 0 b q' (by omega) hA hq (by omega) hB hq'
    simp only [Nat.zero_mul, Nat.zero_add] at this
    rw [this]
    unfold applySpec
    apply sumN_congr; intro k _
    apply sumN_congr; intro i' hi'
    apply sumN_congr; intro j' hj'
    rw [maxEnt_mul_e di0 di1 i' q j' q' hq hq', unit_symm]

end sys1

/-! ## trace preservation and unitality: Kraus operators, the map, the Choi matrix -/
section tp
variable {α : Type} [CommSemiring α]

theorem idMat_symm (i j : Nat) : (idMat i j : α) = idMat j i := by
  unfold idMat
  by_cases h : i = j
  · subst h; rfl
  · have : ¬ j = i := fun e => h e.symm
    simp [h, this]

/-- `Tr Φ_J(X) = Σ_ij X[i,j] · (Tr_out J)[i,j]` -/
theorem tr_applyChoiSpec (J X : Nat → Nat → α) (di dout : Nat) :
    tr dout (applyChoiSpec J di di dout dout X)
      = sumN di fun i => sumN di fun j => X i j * ptraceOut J dout i j := by
  unfold tr applyChoiSpec ptraceOut
  rw [sumN_comm]
  apply sumN_congr; intro i _
  rw [sumN_comm]
  apply sumN_congr; intro j _
  rw [sumN_mul_left]

/-- **trace preservation ⇔ `Tr_out J = 1`** for the map `X ↦ Σ_ij X[i,j] · J[(i,·),(j,·)]` -/
theorem choiSpec_tp_iff (J : Nat → Nat → α) (di dout : Nat) :
    (∀ X : Nat → Nat → α, tr dout (applyChoiSpec J di di dout dout X) = tr di X)
      ↔ ∀ i j, i < di → j < di → ptraceOut J dout i j = idMat i j := by
  constructor
  · intro h i j hi hj
    have := h (unit i j)
    rw [tr_applyChoiSpec] at this
    have inner : ∀ i', i' < di → sumN di (fun j' => (unit i j i' j' : α) * ptraceOut J dout i' j')
        = (if i' = i then 1 else 0) * ptraceOut J dout i' j := by
      intro i' _
      have e : ∀ j', j' < di → (unit i j i' j' : α) * ptraceOut J dout i' j'
          = (if j' = j then 1 else 0) * ((if i' = i then 1 else 0) * ptraceOut J dout i' j') := by
        intro j' _
        unfold unit
        by_cases h1 : i' = i <;> by_cases h2 : j' = j <;> simp [h1, h2]
      rw [sumN_congr _ _ _ e, sumN_delta_left _ j _ hj]
    rw [sumN_congr _ _ _ inner, sumN_delta_left _ i _ hi] at this
    rw [this]
    unfold tr idMat unit
    by_cases hij : i = j
    · subst hij
      have e : ∀ a, a < di → (if a = i ∧ a = i then (1 : α) else 0) = (if a = i then 1 else 0) * 1 := by
        intro a _; by_cases h : a = i <;> simp [h]
      rw [sumN_congr _ _ _ e, sumN_delta_left _ i _ hi]; simp
    · have e : ∀ a, a < di → (if a = i ∧ a = j then (1 : α) else 0) = 0 := by
        intro a _
        have : ¬ (a = i ∧ a = j) := fun ⟨h1, h2⟩ => hij (h1 ▸ h2)
        simp [this]
      rw [sumN_congr _ _ _ e, sumN_zero_fn]; simp [hij]
  · intro h X
    rw [tr_applyChoiSpec]
    unfold tr
    apply sumN_congr; intro i hi
    have e : ∀ j, j < di → X i j * ptraceOut J dout i j = X i j * (if j = i then 1 else 0) := by
      intro j hj
      rw [h i j hi hj]; unfold idMat
      by_cases hij : i = j <;> simp [hij, eq_comm]
    rw [sumN_congr _ _ _ e, sumN_delta_right _ i _ hi]

/-- `Φ_J(1) = Tr_in J` -/
theorem applyChoiSpec_id (J : Nat → Nat → α) (di dout a b : Nat) :
    applyChoiSpec J di di dout dout idMat a b = ptraceIn J di dout a b := by
  unfold applyChoiSpec ptraceIn idMat
  apply sumN_congr; intro i hi
  have e : ∀ j, j < di → (if i = j then (1 : α) else 0) * J (i * dout + a) (j * dout + b)
      = (if j = i then 1 else 0) * J (i * dout + a) (j * dout + b) := by
    intro j _; by_cases h : i = j <;> simp [h, eq_comm]
  rw [sumN_congr _ _ _ e, sumN_delta_left _ i _ hi]

end tp

section tp2
variable {α : Type} [CommSemiring α] [StarRing α]

/-- the function `choiSpec` has the entries of the Choi matrix -/
theorem choiSpec_entry (r : Nat) (A B : Nat → Nat → Nat → α) (di0 di1 do0 do1 i a j b : Nat)
    (ha : a < do0) (hb : b < do1) :
    choiSpec r A B di0 di1 do0 do1 (i * do0 + a) (j * do1 + b) = applySpec r A B di0 di1 (unit i j) a b := by
  obtain ⟨h1, h2⟩ := divmod_be i do0 a ha
  obtain ⟨h3, h4⟩ := divmod_be j do1 b hb
  simp only [choiSpec, h1, h2, h3, h4]

/-- `Tr_out J(Φ) = (Σ_k B_kᴴ A_k)ᵀ` -/
theorem ptraceOut_choiSpec (r : Nat) (A B : Nat → Nat → Nat → α) (di dout i j : Nat) (hi : i < di) (hj : j < di) :
    ptraceOut (choiSpec r A B di di dout dout) dout i j = sumBdA r A B dout j i := by
  unfold ptraceOut sumBdA
  have e : ∀ a, a < dout → choiSpec r A B di di dout dout (i * dout + a) (j * dout + a)
      = sumN r (fun k => HasConj.conj (B k a j) * A k a i) := by
    intro a ha
    rw [choiSpec_entry r A B di di dout dout i a j a ha ha, applySpec_unit r A B di di i j a a hi hj]
    apply sumN_congr; intro k _; ring
  rw [sumN_congr _ _ _ e, sumN_comm]

/-- **trace preservation ⇔ `Σ_k B_kᴴ A_k = 1`** for `Φ(X) = Σ_k A_k X B_kᴴ` on square spaces -/
theorem applySpec_tp_iff (r : Nat) (A B : Nat → Nat → Nat → α) (di dout : Nat) :
    (∀ X : Nat → Nat → α, tr dout (applySpec r A B di di X) = tr di X)
      ↔ ∀ j i, j < di → i < di → sumBdA r A B dout j i = idMat j i := by
  have key : ∀ X : Nat → Nat → α, tr dout (applySpec r A B di di X)
      = tr dout (applyChoiSpec (choiSpec r A B di di dout dout) di di dout dout X) := by
    intro X
    unfold tr
    apply sumN_congr; intro a ha
    exact (applyChoiSpec_of_choi r A B di di dout dout _ X
      (fun i a j b _ ha' _ hb' => choiSpec_entry r A B di di dout dout i a j b ha' hb') a a ha ha).symm
  simp only [key]
  rw [choiSpec_tp_iff]
  constructor
  · intro h j i hj hi
    rw [← ptraceOut_choiSpec r A B di dout i j hi hj, h i j hi hj]
    exact idMat_symm i j
  · intro h i j hi hj
    rw [ptraceOut_choiSpec r A B di dout i j hi hj, h j i hj hi]
    exact idMat_symm j i

end tp2

/-! ## tie to the partial-trace model of C02 -/
section ptie
open Toq.PartialOps Toq.PTrace
variable {α : Type} [Add α] [Zero α]

/-- `Tr_out J` is `partial_trace(J, [1], [d_in, d_out])` (0-indexed `sys`, the model of C02) -/
theorem ptraceOut_eq_partialTrace (J : Nat → Nat → α) (di dout : Nat) (hdi : 0 < di) (hdo : 0 < dout)
    (i j : Nat) (hi : i < di) (hj : j < di) :
    partialTrace J 2 (fnOfList [di, dout]) [1] i j = ptraceOut J dout i j := by
  have hd : ∀ k, k < 2 → 0 < fnOfList [di, dout] 0 k := by
    intro k hk
    have : k = 0 ∨ k = 1 := by omega
    rcases this with rfl | rfl <;> simpa [fnOfList]
  have hK : subDim (fnOfList [di, dout]) (others 2 [1]) = di := by
    rw [others_2_1]; simp [subDim, subDims, prodN, fnOfList]
  have hT : subDim (fnOfList [di, dout]) [1] = dout := by simp [subDim, subDims, prodN, fnOfList]
  rw [partialTrace_eq_spec 2 _ [1] hd (by simp) (by simp) J i j (by rw [hK]; exact hi) (by rw [hK]; exact hj)]
  unfold ptraceSpec ptraceOut
  rw [hT]
  apply sumN_congr; intro t ht
  rw [join_2_1 di dout i t hi ht, join_2_1 di dout j t hj ht]

/-- `Tr_in J` is `partial_trace(J, [0], [d_in, d_out])` -/
theorem ptraceIn_eq_partialTrace (J : Nat → Nat → α) (di dout : Nat) (hdi : 0 < di) (hdo : 0 < dout)
    (a b : Nat) (ha : a < dout) (hb : b < dout) :
    partialTrace J 2 (fnOfList [di, dout]) [0] a b = ptraceIn J di dout a b := by
  have hd : ∀ k, k < 2 → 0 < fnOfList [di, dout] 0 k := by
    intro k hk
    have : k = 0 ∨ k = 1 := by omega
    rcases this with rfl | rfl <;> simpa [fnOfList]
  have hK : subDim (fnOfList [di, dout]) (others 2 [0]) = dout := by
    rw [others_2_0]; simp [subDim, subDims, prodN, fnOfList]
  have hT : subDim (fnOfList [di, dout]) [0] = di := by simp [subDim, subDims, prodN, fnOfList]
  rw [partialTrace_eq_spec 2 _ [0] hd (by simp) (by simp) J a b (by rw [hK]; exact ha) (by rw [hK]; exact hb)]
  unfold ptraceSpec ptraceIn
  rw [hT]
  apply sumN_congr; intro t ht
  rw [join_2_0 di dout a t ha ht, join_2_0 di dout b t hb ht]

end ptie

/-! ## the dual keeps the reading of the list; double complement -/
section dualcp
variable {α : Type} [CommSemiring α] [StarRing α]

theorem isCP_dualKraus (phi : KrausArg α) : (dualKraus phi).isCP = phi.isCP := by
  cases phi with
  | flat l => rfl
  | nested ll => exact nestedIsCP_map Mat.ct ll

omit [CommSemiring α] [StarRing α] in
theorem complStack_complStack (K : Nat → Nat → Nat → α) : complStack (complStack K) = K := rfl

/-- `Σ_row (Kᶜ_row)ᴴ Kᶜ_row = Σ_i K_iᴴ K_i` for `d` operators of shape `d × d` -/
theorem sumKdK_complList (ops : List (Mat α)) (d : Nat) (hs : Shaped ops d d) (hl : ops.length = d) (a b : Nat) :
    (sumKdK (complList ops d) d).e a b = (sumKdK ops d).e a b := by
  have hs' : Shaped (complList ops d) d d := by
    have := complList_shaped ops d
    rwa [hl] at this
  rw [sumKdK_e _ d hs', sumKdK_e ops d hs, complList_length, hl, sumN_comm]
  apply sumN_congr; intro i _
  apply sumN_congr; intro row hrow
  rw [fam_complList ops d row i a hrow, fam_complList ops d row i b hrow]

theorem fam_complList_complList (ops : List (Mat α)) (d i row c : Nat) (hi : i < d) (hrow : row < d) :
    fam (complList (complList ops d) d) i row c = fam ops i row c := by
  rw [fam_complList _ d i row c hi, fam_complList ops d row i c hrow]

end dualcp


/-! ## the Choi matrix of the dual is positive semidefinite iff the Choi matrix is -/
section psd
variable {R : Type} [CommRing R] [PartialOrder R] [StarRing R]

/-- the index swap `(a, i) ↦ (i, a)` of the two tensor factors -/
def swapIdx (di dout : Nat) (x : Fin (dout * di)) : Fin (di * dout) :=
  ⟨(x.val % di) * dout + x.val / di, by
    have hdi : 0 < di := by
      rcases Nat.eq_zero_or_pos di with h | h
      · subst h; exact absurd x.2 (by simp)
      · exact h
    exact lt_mul_of_digits (x.val % di) di (x.val / di) dout (Nat.mod_lt _ hdi)
      ((Nat.div_lt_iff_lt_mul hdi).mpr x.2)⟩

/-- a matrix with the entries of `dual_channel(J)` is the entrywise conjugate of `J` with the two tensor factors
    swapped -/
theorem toM_dual_entries (J D : Nat → Nat → R) (di dout : Nat)
    (hDe : ∀ a i b j, a < dout → i < di → b < dout → j < di →
      D (a * di + i) (b * di + j) = HasConj.conj (J (i * dout + a) (j * dout + b))) :
    toM (dout * di) (dout * di) D
      = ((toM (di * dout) (di * dout) J).conjTranspose.transpose).submatrix (swapIdx di dout) (swapIdx di dout) := by
  ext x y
  have hdi : 0 < di := by
    rcases Nat.eq_zero_or_pos di with h | h
    · subst h; exact absurd x.2 (by simp)
    · exact h
  have hx := (Nat.div_lt_iff_lt_mul hdi).mpr x.2
  have hy := (Nat.div_lt_iff_lt_mul hdi).mpr y.2
  have := hDe (x.val / di) (x.val % di) (y.val / di) (y.val % di) hx (Nat.mod_lt _ hdi) hy (Nat.mod_lt _ hdi)
  rw [Nat.div_add_mod' x.val di, Nat.div_add_mod' y.val di] at this
  simp only [toM, Matrix.submatrix_apply, Matrix.transpose_apply, Matrix.conjTranspose_apply, swapIdx]
  rw [this]; rfl

/-- positive semidefiniteness passes from `J` to any matrix with the entries of the dual -/
theorem psd_dual_entries (J D : Nat → Nat → R) (di dout : Nat)
    (hDe : ∀ a i b j, a < dout → i < di → b < dout → j < di →
      D (a * di + i) (b * di + j) = HasConj.conj (J (i * dout + a) (j * dout + b)))
    (hJ : (toM (di * dout) (di * dout) J).PosSemidef) : (toM (dout * di) (dout * di) D).PosSemidef := by
  rw [toM_dual_entries J D di dout hDe]
  exact (hJ.conjTranspose.transpose).submatrix _

end psd

end Toq.ChannelOps
