import Toq.Proofs.StatesMore
import Toq.Spec.StatesExtra
/-!
# Permutation operators commute with tensor powers; multipartite Werner states (helper lemmas for C17)
-/
open Toq.Matrices Toq.Spec17 Toq.Perms

namespace Toq.States

section tpow
variable {α : Type} [CommRing α]

theorem prodN_const' (d : Nat) : ∀ n, prodN (fun _ => d) n = d ^ n
  | 0 => rfl
  | n + 1 => by show prodN (fun _ => d) n * d = _; rw [prodN_const' d n, Nat.pow_succ]

/-- `U^{⊗p}` is invariant under a simultaneous permutation of the tensor factors of the row and the column index -/
theorem tensorPow_perm (d p : Nat) (hd : 0 < d) (U : Nat → Nat → α) (f : Nat → Nat)
    (hlt : ∀ k, k < p → f k < p) (hinj : ∀ a b, a < p → b < p → f a = f b → a = b) (r c : Nat) :
    tensorPow d p U (permIndex p f (fun _ => d) false r) (permIndex p f (fun _ => d) false c) = tensorPow d p U r c := by
  unfold tensorPow
  rw [permIndex_false_eq p f _ hlt hinj, permIndex_false_eq p f _ hlt hinj]
  have hdig : ∀ j k, k < p → digit d p (specIndex p f (fun _ => d) j) k = digit d p j (invPerm p f k) := by
    intro j k hk
    unfold digit specIndex
    rw [dec_enc (fun _ => d) _ p (fun m hm => specIndex_digit_lt p f (fun _ => d) hlt hinj (fun _ _ => hd) j m hm) k hk]
  rw [prodFn_congr _ (fun k => U (digit d p r (invPerm p f k)) (digit d p c (invPerm p f k))) p
    (fun k hk => by rw [hdig r k hk, hdig c k hk])]
  exact prodFn_reindex p (invPerm p f) (fun k => U (digit d p r k) (digit d p c k))
    (invPerm_lt p f hlt hinj) (invPerm_inj p f hlt hinj)

/-- **toqito's permutation operator commutes with `U^{⊗p}`** for every matrix `U`, every `d`, `p` and permutation -/
theorem permOp_commutes_tensorPow (d p : Nat) (hd : 0 < d) (U : Nat → Nat → α) (f : Nat → Nat)
    (hlt : ∀ k, k < p → f k < p) (hinj : ∀ a b, a < p → b < p → f a = f b → a = b) (r c : Nat)
    (_hr : r < d ^ p) (hc : c < d ^ p) :
    matMul (d ^ p) (permOp p f (fun _ => d) false) (tensorPow d p U) r c
      = matMul (d ^ p) (tensorPow d p U) (permOp p f (fun _ => d) false) r c := by
  obtain ⟨τ, h1, h2, h3, h4⟩ := permIndex_bij p f (fun _ => d) false hlt hinj (fun _ _ => hd)
  rw [prodN_const'] at h1 h2 h3 h4
  unfold matMul
  rw [sumN_single (d ^ p) (permIndex p f (fun _ => d) false r) (h1 r)]
  · rw [sumN_single (d ^ p) (τ c) (h2 c hc)]
    · rw [permOp_apply, permOp_apply, if_pos rfl, if_pos (h4 c hc), one_mul, mul_one]
      conv_lhs => rw [← h4 c hc]
      exact tensorPow_perm d p hd U f hlt hinj r (τ c)
    · intro k hk hne
      rw [permOp_apply, if_neg, mul_zero]
      intro h
      apply hne
      rw [← h3 k hk, h]
  · intro k _ hne
    rw [permOp_apply, if_neg (Ne.symm hne), zero_mul]

end tpow

section tpow2
variable {α : Type} [Field α]

theorem matMul_sub_smul_left (n : Nat) (A B K : Nat → Nat → α) (a : α) (r c : Nat) :
    matMul n (fun r' m => A r' m - a * B r' m) K r c = matMul n A K r c - a * matMul n B K r c := by
  unfold matMul
  rw [← sumN_mul_left, ← sumN_sub]
  apply sumN_congr; intro k _; ring

theorem matMul_sub_smul_right (n : Nat) (A B K : Nat → Nat → α) (a : α) (r c : Nat) :
    matMul n K (fun m c' => A m c' - a * B m c') r c = matMul n K A r c - a * matMul n K B r c := by
  unfold matMul
  rw [← sumN_mul_left, ← sumN_sub]
  apply sumN_congr; intro k _; ring

/-- folding `acc - α_t · P_t` over terms whose operators commute with `T` preserves commutation with `T` -/
theorem foldl_commutes (N : Nat) (T : Nat → Nat → α) (P : List Nat → Nat → Nat → α) :
    ∀ (terms : List (List Nat × α)) (A : Nat → Nat → α),
      (∀ r c, r < N → c < N → matMul N A T r c = matMul N T A r c) →
      (∀ t ∈ terms, ∀ r c, r < N → c < N → matMul N (P t.1) T r c = matMul N T (P t.1) r c) →
      ∀ r c, r < N → c < N →
        matMul N (fun r' c' => terms.foldl (fun acc t => acc - t.2 * P t.1 r' c') (A r' c')) T r c
          = matMul N T (fun r' c' => terms.foldl (fun acc t => acc - t.2 * P t.1 r' c') (A r' c')) r c
  | [], A, hA, _ => by
    intro r c hr hc
    exact hA r c hr hc
  | t :: rest, A, hA, hP => by
    intro r c hr hc
    simp only [List.foldl_cons]
    apply foldl_commutes N T P rest (fun r' c' => A r' c' - t.2 * P t.1 r' c')
    · intro r c hr hc
      rw [matMul_sub_smul_left, matMul_sub_smul_right, hA r c hr hc, hP t (List.mem_cons_self ..) r c hr hc]
    · intro t' ht'
      exact hP t' (List.mem_cons_of_mem _ ht')
    · exact hr
    · exact hc

end tpow2
section tpow3
variable {α : Type} [Field α]

theorem matMul_div_left (n : Nat) (A K : Nat → Nat → α) (t : α) (r c : Nat) :
    matMul n (fun r' m => A r' m / t) K r c = matMul n A K r c / t := by
  unfold matMul
  rw [← sumN_div]
  apply sumN_congr; intro k _; ring

theorem matMul_div_right (n : Nat) (A K : Nat → Nat → α) (t : α) (r c : Nat) :
    matMul n K (fun m c' => A m c' / t) r c = matMul n K A r c / t := by
  unfold matMul
  rw [← sumN_div]
  apply sumN_congr; intro k _; ring

/-- the permutation actually handed to `permutation_operator` for the list entry `σ` -/
def wernerPerm (argsort : Bool) (σ : List Nat) : Nat → Nat := fnOfList (if argsort then argsortL σ else σ)

/-- all permutations used by the `p`-party list form are permutations of `0..p-1` -/
def WernerPermsValid (p : Nat) (argsort : Bool) : Prop :=
  ∀ σ ∈ (lexPerms p (List.range p)).drop 1,
    (∀ k, k < p → wernerPerm argsort σ k < p) ∧
    (∀ a, a < p → ∀ b, b < p → wernerPerm argsort σ a = wernerPerm argsort σ b → a = b)

/-- **the multipartite Werner state (list form) commutes with `U^{⊗p}`** for every matrix `U` -/
theorem wernerList_commutes_tensorPow (d p : Nat) (hd : 0 < d) (alphas : List α) (argsort : Bool)
    (hperm : WernerPermsValid p argsort) (U : Nat → Nat → α) (r c : Nat) (hr : r < d ^ p) (hc : c < d ^ p) :
    matMul (d ^ p) (wernerList d p alphas argsort) (tensorPow d p U) r c
      = matMul (d ^ p) (tensorPow d p U) (wernerList d p alphas argsort) r c := by
  unfold wernerList
  simp only []
  rw [matMul_div_left, matMul_div_right]
  congr 1
  unfold wernerListNum
  simp only []
  have key := foldl_commutes (d ^ p) (tensorPow d p U)
    (fun σ => Toq.Perms.permOp (α := α) p (wernerPerm argsort σ) (fun _ => d) false)
    (((lexPerms p (List.range p)).drop 1).zip alphas) (fun r' c' => delta r' c')
    (fun r c hr hc => by rw [matMul_delta_left _ _ r c hr, matMul_delta_right _ _ r c hc])
    (fun t ht r c hr hc => by
      have hmem := (List.of_mem_zip ht).1
      obtain ⟨h1, h2⟩ := hperm t.1 hmem
      exact permOp_commutes_tensorPow d p hd U _ h1 (fun a b ha hb h => h2 a ha b hb h) r c hr hc)
    r c hr hc
  exact key
end tpow3

theorem tensorPow_two {α : Type} [CommRing α] (d : Nat) (U : Nat → Nat → α) (r c : Nat) (hr : r < d * d) (hc : c < d * d) :
    tensorPow d 2 U r c = kron2 d U U r c := by
  unfold tensorPow kron2 digit
  simp only [prodFn, dec]
  rw [Nat.mod_eq_of_lt (div_lt_of_lt_sq d r hr), Nat.mod_eq_of_lt (div_lt_of_lt_sq d c hc)]
  simp

theorem wernerPermsValid_small : WernerPermsValid 2 true ∧ WernerPermsValid 2 false ∧ WernerPermsValid 3 true ∧
    WernerPermsValid 3 false ∧ WernerPermsValid 4 true ∧ WernerPermsValid 4 false := by
  unfold WernerPermsValid wernerPerm
  decide
end Toq.States
