import Toq.Model.RandPost
import Toq.Model.RandDraws
import Toq.Proofs.RandQR
import Toq.Proofs.Cert
/-!
# Refinement of the executable post-processing models (`Toq/Model/RandPost.lean`) to the matrix vocabulary, and facts about the
draw programs (`Toq/Model/RandDraws.lean`)
-/

open Matrix
open scoped ComplexOrder MatrixOrder

namespace Toq.Rand

/-- a function matrix read as a Mathlib matrix -/
def toMat (n m : Nat) (A : Nat → Nat → ℂ) : Matrix (Fin n) (Fin m) ℂ := Matrix.of fun i j => A i.val j.val

@[simp] theorem toMat_apply (n m : Nat) (A : Nat → Nat → ℂ) (i : Fin n) (j : Fin m) : toMat n m A i j = A i.val j.val := rfl

theorem toMat_mmul (n m p : Nat) (A B : Nat → Nat → ℂ) : toMat n p (mmul m A B) = toMat n m A * toMat m p B := by
  ext i j
  simp [mmul, Matrix.mul_apply, sumN_eq_sum_fin]

theorem toMat_ctr (n m : Nat) (A : Nat → Nat → ℂ) : toMat m n (ctr star A) = (toMat n m A)ᴴ := by
  ext i j
  simp [ctr, conjTranspose_apply]

theorem trc_eq (n : Nat) (A : Nat → Nat → ℂ) : trc n A = (toMat n n A).trace := by
  simp [trc, Matrix.trace, sumN_eq_sum_fin]

theorem toMat_msum (n m k : Nat) (F : Nat → Nat → Nat → ℂ) : toMat n m (msum k F) = ∑ y : Fin k, toMat n m (F y.val) := by
  ext i j
  simp [msum, sumN_eq_sum_fin, Matrix.sum_apply]

theorem toMat_mdiag (d : Nat) (v : Nat → ℂ) : toMat d d (mdiag v) = diagonal (fun i : Fin d => v i.val) := by
  ext i j
  by_cases h : i = j
  · subst h; simp [mdiag]
  · have : i.val ≠ j.val := fun e => h (Fin.ext e)
    simp [mdiag, h, this]

/-! ## the models are the formulas of the theorems -/

theorem densityNum_refines (d k : Nat) (G : Nat → Nat → ℂ) :
    toMat d d (densityNum star k G) = toMat d k G * (toMat d k G)ᴴ := by
  unfold densityNum; rw [toMat_mmul, toMat_ctr]

/-- numerator divided by its trace = `densityOf` of the factor -/
theorem density_model (d k : Nat) (G : Nat → Nat → ℂ) :
    (trc d (densityNum star k G))⁻¹ • toMat d d (densityNum star k G) = densityOf (toMat d k G) := by
  rw [trc_eq, densityNum_refines]; rfl

/-- the Bures factor as written, for `k = d ≥ 2`: `U + G` (not `(1 + U) G`) -/
theorem buresFactor_square (d : Nat) (hd : d ≠ 1) (U G : Nat → Nat → ℂ) :
    toMat d d (buresFactor d d U G) = toMat d d U + toMat d d G := by
  ext i j
  simp [buresFactor, hd]

theorem unitaryRel_refines (d : Nat) (U G : Nat → Nat → ℂ) :
    toMat d d (unitaryRel star d U G) = (toMat d d U)ᴴ * toMat d d G := by
  unfold unitaryRel; rw [toMat_mmul, toMat_ctr]

theorem gramOf_refines (d : Nat) (U : Nat → Nat → ℂ) : toMat d d (gramOf star d U) = (toMat d d U)ᴴ * toMat d d U := by
  unfold gramOf; rw [toMat_mmul, toMat_ctr]

theorem hermTwice_refines (d : Nat) (R : Nat → Nat → ℂ) : toMat d d (hermTwice star R) = (toMat d d R)ᴴ + toMat d d R := by
  ext i j
  simp [hermTwice, conjTranspose_apply]

theorem povmNormaliser_refines (d no : Nat) (A : Nat → Nat → Nat → ℂ) :
    toMat d d (povmNormaliser star d no A) = ∑ y : Fin no, (toMat d d (A y.val))ᴴ * toMat d d (A y.val) := by
  unfold povmNormaliser
  rw [toMat_msum]
  refine Finset.sum_congr rfl (fun y _ => ?_)
  rw [toMat_mmul, toMat_ctr]

theorem povmCore_refines (d : Nat) (Ay U : Nat → Nat → ℂ) :
    toMat d d (povmCore star d Ay U) = (toMat d d Ay * toMat d d U)ᴴ * (toMat d d Ay * toMat d d U) := by
  unfold povmCore; rw [toMat_mmul, toMat_ctr, toMat_mmul]

theorem eigRecon_refines (d : Nat) (U : Nat → Nat → ℂ) (s : Nat → ℂ) :
    toMat d d (eigRecon star d U s) = toMat d d U * diagonal (fun i : Fin d => s i.val) * (toMat d d U)ᴴ := by
  unfold eigRecon; rw [toMat_mmul, toMat_mmul, toMat_ctr, toMat_mdiag]

/-- the operator of `povm_post` entry by entry: the core `(A U)ᴴ (A U)` divided by `√sᵢ √sⱼ` -/
theorem povm_model_entry {ι : Type*} [Fintype ι] [DecidableEq ι] (A U : Matrix ι ι ℂ) (s : ι → ℝ) (i j : ι) :
    ((A * U * diagonal (fun l => (((Real.sqrt (s l))⁻¹ : ℝ) : ℂ)))ᴴ * (A * U * diagonal (fun l => (((Real.sqrt (s l))⁻¹ : ℝ) : ℂ)))) i j
      = ((A * U)ᴴ * (A * U)) i j * ((((Real.sqrt (s i))⁻¹ : ℝ) : ℂ) * (((Real.sqrt (s j))⁻¹ : ℝ) : ℂ)) := by
  rw [conjTranspose_mul, diagonal_conjTranspose, Matrix.mul_assoc, ← Matrix.mul_assoc ((A * U)ᴴ), Matrix.diagonal_mul,
    Matrix.mul_diagonal]
  simp only [Pi.star_apply, Complex.star_def, Complex.conj_ofReal]
  ring

theorem pgmElem_refines (d : Nat) (S A : Nat → Nat → ℂ) : toMat d d (pgmElem d S A) = toMat d d S * toMat d d A * toMat d d S := by
  unfold pgmElem; rw [toMat_mmul, toMat_mmul]

theorem measResult_refines (m d : Nat) (K ρ : Nat → Nat → ℂ) :
    toMat m m (measResult star d K ρ) = toMat m d K * toMat d d ρ * (toMat m d K)ᴴ := by
  unfold measResult; rw [toMat_mmul, toMat_mmul, toMat_ctr]

theorem measCompleteness_refines (d m k : Nat) (K : Nat → Nat → Nat → ℂ) :
    toMat d d (measCompleteness star m k K) = ∑ i : Fin k, (toMat m d (K i.val))ᴴ * toMat m d (K i.val) := by
  unfold measCompleteness
  rw [toMat_msum]
  refine Finset.sum_congr rfl (fun y _ => ?_)
  rw [toMat_mmul, toMat_ctr]

/-! ## `measure` on exact rationals -/

theorem toC_sumN (f : Nat → QI) : ∀ n, (sumN n f).toC = sumN n (fun i => (f i).toC)
  | 0 => by simp [sumN]
  | n + 1 => by
      show (sumN n f + f n).toC = sumN n (fun i => (f i).toC) + (f n).toC
      rw [QI.toC_add, toC_sumN f n]

/-- the exact matrices of the driver read as complex matrices -/
def toMatQ (n m : Nat) (A : Nat → Nat → QI) : Matrix (Fin n) (Fin m) ℂ := toMat n m (fun i j => (A i j).toC)

theorem measResult_toC (d : Nat) (K ρ : Nat → Nat → QI) (i j : Nat) :
    (measResult QI.conj d K ρ i j).toC = measResult star d (fun a b => (K a b).toC) (fun a b => (ρ a b).toC) i j := by
  unfold measResult mmul ctr
  rw [toC_sumN]
  refine sumN_congr' _ _ d (fun l _ => ?_)
  rw [QI.toC_mul, toC_sumN, QI.toC_conj]
  congr 1
  exact sumN_congr' _ _ d (fun l' _ => QI.toC_mul _ _)

/-- **Born rule of the model**: the probability computed by `measureOne` is `Re tr(K ρ Kᴴ)` -/
theorem measureOne_prob (d m : Nat) (tol : Rat) (K ρ : Nat → Nat → QI) :
    (((measureOne d tol K ρ m).prob : Rat) : ℝ) = (toMatQ m d K * toMatQ d d ρ * (toMatQ m d K)ᴴ).trace.re := by
  unfold toMatQ
  rw [← measResult_refines, ← trc_eq]
  show (((trc m (measResult QI.conj d K ρ)).re : Rat) : ℝ) = _
  have h : (trc m (measResult QI.conj d K ρ)).toC
      = trc m (measResult star d (fun a b => (K a b).toC) (fun a b => (ρ a b).toC)) := by
    unfold trc
    rw [toC_sumN]
    exact sumN_congr' _ _ m (fun i _ => measResult_toC d K ρ i i)
  rw [← h]
  rfl

/-- the three-valued comparison is sound -/
theorem gtMargin_sound (x t : Rat) (ht : 0 ≤ t) (b : Bool) (h : gtMargin x t = some b) : b = true ↔ x > t := by
  unfold gtMargin at h
  split_ifs at h with h1 h2 h3
  · simp only [Option.some.injEq] at h; subst h
    constructor
    · intro _; nlinarith
    · intro _; rfl
  · simp only [Option.some.injEq] at h; subst h
    constructor
    · intro hh; exact absurd hh (by simp)
    · intro hx; exfalso; nlinarith
  · simp only [Option.some.injEq] at h; subst h
    subst h3
    simp

/-- post-measurement state of the model: `K ρ Kᴴ / prob` when `prob > tol` -/
theorem measureOne_post (d m : Nat) (tol : Rat) (K ρ : Nat → Nat → QI) (h : (measureOne d tol K ρ m).positive = some true)
    (i j : Nat) :
    (measureOne d tol K ρ m).post i j = QI.smul (1 / (measureOne d tol K ρ m).prob) (measResult QI.conj d K ρ i j) := by
  unfold measureOne at h ⊢
  simp only at h ⊢
  rw [if_pos h]

/-! ## draw programs -/

theorem unitaryTrace_head (dim : DimArg) (r : Bool) (evs : List Ev) (h : unitaryTrace dim r = .ok evs) :
    evs.head? = some .construct := by
  unfold unitaryTrace at h
  cases hd : unitaryDims dim with
  | none => rw [hd] at h; exact absurd h (by simp)
  | some ab =>
    obtain ⟨a, b⟩ := ab
    rw [hd] at h
    simp only at h
    split_ifs at h
    · simp only [Except.ok.injEq] at h; subst h; rfl

/-- **every generator constructs its private generator before anything else** -/
theorem trace_head_construct (c : Call) (evs : List Ev) (h : trace c = .ok evs) : evs.head? = some .construct := by
  cases c with
  | unitary dim r => exact unitaryTrace_head dim r evs h
  | basis dim r => exact unitaryTrace_head (.int dim) r evs h
  | density dim r k b =>
      simp only [trace, densityTrace] at h
      split_ifs at h
      · cases hu : unitaryTrace (.int dim) r with
        | error e => rw [hu] at h; exact absurd h (by simp [bind, Except.bind])
        | ok u =>
          rw [hu] at h
          simp only [bind, Except.bind] at h
          split at h
          · exact absurd h (by simp)
          · simp only [Except.ok.injEq] at h; subst h; rfl
      · simp only [Except.ok.injEq] at h; subst h; rfl
  | psd dim r => simp only [trace, Except.ok.injEq] at h; subst h; rfl
  | stateVector dim r k =>
      simp only [trace, stateVectorTrace] at h
      cases hb : svBranch dim k with
      | error e => rw [hb] at h; exact absurd h (by simp [bind, Except.bind])
      | ok q =>
        obtain ⟨sch, d0, d1, total⟩ := q
        rw [hb] at h
        simp only [bind, Except.bind] at h
        split_ifs at h <;> (simp only [Except.ok.injEq] at h; subst h; rfl)
  | states n d => simp only [trace, Except.ok.injEq] at h; subst h; rfl
  | povm d a b => simp only [trace, Except.ok.injEq] at h; subst h; rfl
  | circulant d => simp only [trace, Except.ok.injEq] at h; subst h; rfl
  | ginibre n m => simp only [trace, Except.ok.injEq] at h; subst h; rfl

/-- whatever happened before, the events after a `construct` are interpreted from the seed alone (a helper generator such as
`random_unitary(dim, is_real, seed=seed)` inside the Bures branch restarts the stream) -/
theorem interp_append_construct {Seed St Arr : Type} (prim : Prim Seed St Arr) (seed : Seed) :
    ∀ (pre : List Ev) (st : Option St) (rest : List Ev),
      interp prim seed st (pre ++ .construct :: rest)
        = interp prim seed st pre ++ interp prim seed none (.construct :: rest)
  | [], st, rest => by cases st <;> rfl
  | .construct :: pre, st, rest => by
      cases st <;> exact interp_append_construct prim seed pre _ rest
  | .draw d :: pre, none, rest => by
      show none :: interp prim seed none (pre ++ .construct :: rest) = none :: _ ++ _
      rw [interp_append_construct prim seed pre none rest]; rfl
  | .draw d :: pre, some s, rest => by
      show some (prim.next s d).2 :: interp prim seed (some (prim.next s d).1) (pre ++ .construct :: rest) = _
      rw [interp_append_construct prim seed pre _ rest]; rfl

/-- the Bures branch draws its own Ginibre factor exactly like the Haar branch and then exactly what
`random_unitary(dim, is_real, seed)` draws -/
theorem density_bures_trace (dim : Nat) (r : Bool) (k : Option Nat) (evs : List Ev)
    (h : trace (.density dim r k true) = .ok evs) :
    ∃ own u, trace (.density dim r k false) = .ok own ∧ trace (.unitary (.int dim) r) = .ok u ∧ evs = own ++ u := by
  simp only [trace, densityTrace, if_true] at h
  cases hu : unitaryTrace (.int dim) r with
  | error e => rw [hu] at h; exact absurd h (by simp [bind, Except.bind])
  | ok u =>
    rw [hu] at h
    simp only [bind, Except.bind] at h
    split at h
    · exact absurd h (by simp)
    · simp only [Except.ok.injEq] at h
      exact ⟨_, u, by simp [trace, densityTrace], hu, h.symm⟩

/-- scalars drawn by `random_unitary`: `d²` real, `2d²` complex -/
theorem unitary_scalars (d : Nat) (r : Bool) :
    (trace (.unitary (.int d) r)).toOption.map scalars = some ((if r then 1 else 2) * (d * d)) := by
  cases r
  · simp [trace, unitaryTrace, unitaryDims, optDraw, scalars, Draw.size, Except.toOption]; ring
  · simp [trace, unitaryTrace, unitaryDims, optDraw, scalars, Draw.size, Except.toOption]

/-- scalars drawn by `random_povm`: `num_inputs · num_outputs · d²` -/
theorem povm_scalars (d ni no : Nat) :
    (trace (.povm d ni no)).toOption.map scalars = some (ni * no * d * d) := by
  simp [trace, scalars, Draw.size, Except.toOption]

/-- scalars drawn by the Schmidt-rank branch of `random_state_vector`: `(d0 + d1)·k` real, twice that complex -/
theorem stateVector_schmidt_scalars (d0 d1 k : Nat) (r : Bool) (hk : 0 < k) (hk' : k < min d0 d1) :
    (trace (.stateVector (.list [d0, d1]) r k)).toOption.map scalars = some ((if r then 1 else 2) * ((d0 + d1) * k)) := by
  have hc : 0 < k ∧ k < min d0 d1 := ⟨hk, hk'⟩
  cases r <;> simp [trace, stateVectorTrace, svBranch, hc, bind, Except.bind, optDraw, scalars, Draw.size, Except.toOption] <;> ring

/-- the helper generator of the Bures branch: the arrays it yields are those of a stand-alone `random_unitary` call with the same seed -/
theorem bures_interp {Seed St Arr : Type} (prim : Prim Seed St Arr) (seed : Seed) (dim : Nat) (r : Bool) (k : Option Nat)
    (evs : List Ev) (h : trace (.density dim r k true) = .ok evs) :
    ∃ own u, trace (.density dim r k false) = .ok own ∧ trace (.unitary (.int dim) r) = .ok u ∧
      interp prim seed none evs = interp prim seed none own ++ interp prim seed none u := by
  obtain ⟨own, u, h1, h2, h3⟩ := density_bures_trace dim r k evs h
  refine ⟨own, u, h1, h2, ?_⟩
  have hh := trace_head_construct _ u h2
  cases u with
  | nil => simp at hh
  | cons e rest =>
    simp only [List.head?_cons, Option.some.injEq] at hh
    subst hh
    rw [h3]
    exact interp_append_construct prim seed own none rest

/-- a matrix with real entries has a real `G Gᴴ / tr(G Gᴴ)` (`is_real=True`) -/
theorem density_real {m n : Type*} [Fintype m] [Fintype n] (G : Matrix m n ℂ) (hG : ∀ i j, (G i j).im = 0) (i j : m) :
    (densityOf G i j).im = 0 := by
  have hent : ∀ a b, ((G * Gᴴ) a b).im = 0 := by
    intro a b
    rw [Matrix.mul_apply, Complex.im_sum]
    refine Finset.sum_eq_zero (fun l _ => ?_)
    simp [conjTranspose_apply, hG]
  have htr : (G * Gᴴ).trace.im = 0 := by
    rw [Matrix.trace, Complex.im_sum]
    exact Finset.sum_eq_zero (fun a _ => hent a a)
  unfold densityOf
  rw [Matrix.smul_apply, smul_eq_mul, Complex.mul_im, hent, Complex.inv_im, htr]
  simp

end Toq.Rand
