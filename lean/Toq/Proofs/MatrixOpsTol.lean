import Toq.Model.MatrixPredsTol
import Toq.Proofs.MatrixOps
import Mathlib.Analysis.Complex.Norm
/-!
# The tolerance-level mirrors of `Toq/Model/MatrixPredsTol.lean`

* `closeQ_iff`: the exact rational decision `closeQ` is NumPy's `|a − b| ≤ atol + rtol·|b|` over the reals.
* `eqV_yes_allcloseF` / `eqV_no_allcloseF`: a `yes` of the three-valued equation decider forces `np.allclose` to hold for all
  tolerances `≥ 0`; a `no` (violation by `margin·(1+scale)`) forces it to fail whenever `4·rtol ≤ margin`, `4·atol ≤ margin`.
* the same for each equation-type predicate (`…V = yes → …T = true`, `…V = no → …T = false`).
-/

namespace Toq.MatrixPreds
open Toq.MatrixOps

/-! ## moduli -/

theorem abs1_eq (a : QI) : a.abs1 = |a.re| + |a.im| := by
  unfold QI.abs1
  split <;> split <;> rename_i h1 h2
  · rw [abs_of_neg h1, abs_of_neg h2]
  · rw [abs_of_neg h1, abs_of_nonneg (not_lt.mp h2)]
  · rw [abs_of_nonneg (not_lt.mp h1), abs_of_neg h2]
  · rw [abs_of_nonneg (not_lt.mp h1), abs_of_nonneg (not_lt.mp h2)]

theorem abs1_nonneg (a : QI) : 0 ≤ a.abs1 := by
  rw [abs1_eq]; exact add_nonneg (abs_nonneg _) (abs_nonneg _)

theorem normSq_eq_abs (a : QI) : normSq a = |a.re| * |a.re| + |a.im| * |a.im| := by
  unfold normSq; rw [abs_mul_abs_self, abs_mul_abs_self]

theorem normSq_nonneg (a : QI) : 0 ≤ normSq a := by
  unfold normSq; exact add_nonneg (mul_self_nonneg _) (mul_self_nonneg _)

/-- `(|re| + |im|)² ≤ 2·|z|²` -/
theorem abs1_sq_le (a : QI) : a.abs1 * a.abs1 ≤ 2 * normSq a := by
  rw [abs1_eq, normSq_eq_abs]
  nlinarith [mul_self_nonneg (|a.re| - |a.im|)]

/-- `|z|² ≤ (|re| + |im|)²` -/
theorem normSq_le_abs1_sq (a : QI) : normSq a ≤ a.abs1 * a.abs1 := by
  rw [abs1_eq, normSq_eq_abs]
  nlinarith [mul_nonneg (abs_nonneg a.re) (abs_nonneg a.im)]

theorem norm_toC_sq (a : QI) : ‖a.toC‖ ^ 2 = ((normSq a : Rat) : ℝ) := by
  rw [Complex.sq_norm, Complex.normSq_apply]
  simp [normSq]

/-! ## `closeQ` is `np.isclose` -/

private theorem le_of_mul_self_le {u v : ℝ} (hv : 0 ≤ v) (h : u * u ≤ v * v) : u ≤ v := by
  by_contra hlt
  have := mul_self_lt_mul_self hv (not_le.mp hlt)
  linarith

/-- the real inequality behind `closeQ`: for `X, Y, t, r ≥ 0`, `X ≤ t + r·Y` iff with `c = X² − t² − r²Y²` either `c ≤ 0`
    or `c² ≤ 4t²r²Y²` -/
theorem sqrt_affine_iff {X Y t r : ℝ} (hX : 0 ≤ X) (hY : 0 ≤ Y) (ht : 0 ≤ t) (hr : 0 ≤ r) :
    (X * X - t * t - r * r * (Y * Y) ≤ 0 ∨
      (X * X - t * t - r * r * (Y * Y)) * (X * X - t * t - r * r * (Y * Y)) ≤ 4 * (t * t) * (r * r) * (Y * Y))
      ↔ X ≤ t + r * Y := by
  have hrY : 0 ≤ r * Y := mul_nonneg hr hY
  have htrY : 0 ≤ 2 * t * (r * Y) := by positivity
  constructor
  · intro h
    apply le_of_mul_self_le (add_nonneg ht hrY)
    rcases h with h | h
    · nlinarith
    · have hc : X * X - t * t - r * r * (Y * Y) ≤ 2 * t * (r * Y) := by
        apply le_of_mul_self_le htrY
        nlinarith
      nlinarith
  · intro h
    have h2 : X * X ≤ (t + r * Y) * (t + r * Y) := mul_self_le_mul_self hX h
    by_cases hc : X * X - t * t - r * r * (Y * Y) ≤ 0
    · exact Or.inl hc
    · right
      have hc0 : 0 ≤ X * X - t * t - r * r * (Y * Y) := le_of_lt (not_le.mp hc)
      have hle : X * X - t * t - r * r * (Y * Y) ≤ 2 * t * (r * Y) := by nlinarith
      have := mul_self_le_mul_self hc0 hle
      nlinarith

/-- **`closeQ` is `np.isclose`**: for `rtol, atol ≥ 0` the exact rational test holds iff `|a − b| ≤ atol + rtol·|b|`
    for the complex numbers denoted by `a`, `b` (modulus over the reals) -/
theorem closeQ_iff_real (a b : QI) (rtol atol : Rat) (hr : 0 ≤ rtol) (ht : 0 ≤ atol) :
    closeQ a b rtol atol = true ↔ ‖a.toC - b.toC‖ ≤ ((atol : Rat) : ℝ) + ((rtol : Rat) : ℝ) * ‖b.toC‖ := by
  have hX : ‖a.toC - b.toC‖ * ‖a.toC - b.toC‖ = ((normSq (a - b) : Rat) : ℝ) := by
    rw [← QI.toC_sub, ← norm_toC_sq, sq]
  have hY : ‖b.toC‖ * ‖b.toC‖ = ((normSq b : Rat) : ℝ) := by rw [← norm_toC_sq, sq]
  have hr' : (0 : ℝ) ≤ ((rtol : Rat) : ℝ) := by exact_mod_cast hr
  have ht' : (0 : ℝ) ≤ ((atol : Rat) : ℝ) := by exact_mod_cast ht
  rw [← sqrt_affine_iff (norm_nonneg _) (norm_nonneg _) ht' hr', hX, hY]
  unfold closeQ
  simp only [Bool.or_eq_true, decide_eq_true_eq]
  constructor
  · rintro (h | h)
    · left; exact_mod_cast h
    · right; exact_mod_cast h
  · rintro (h | h)
    · left; exact_mod_cast h
    · right; exact_mod_cast h

/-- equal numbers are close for all tolerances `≥ 0` -/
theorem closeQ_self (a : QI) (rtol atol : Rat) : closeQ a a rtol atol = true := by
  unfold closeQ
  simp only [Bool.or_eq_true, decide_eq_true_eq]
  left
  have h0 : normSq (a - a) = 0 := by simp [normSq]
  rw [h0]
  nlinarith [mul_self_nonneg atol, mul_nonneg (mul_self_nonneg rtol) (normSq_nonneg a)]

/-- a consequence of closeness that stays rational: `|a − b|² ≤ 2·atol² + 2·rtol²·|b|²` -/
theorem closeQ_bound (a b : QI) (rtol atol : Rat) (h : closeQ a b rtol atol = true) :
    normSq (a - b) ≤ 2 * (atol * atol) + 2 * (rtol * rtol * normSq b) := by
  unfold closeQ at h
  simp only [Bool.or_eq_true, decide_eq_true_eq] at h
  have hy := normSq_nonneg b
  have h1 : 0 ≤ atol * atol := mul_self_nonneg _
  have h2 : 0 ≤ rtol * rtol * normSq b := mul_nonneg (mul_self_nonneg _) hy
  rcases h with h | h
  · linarith
  · -- c² ≤ 4 t² r² y ≤ (t² + r² y)²  ⇒  c ≤ t² + r² y
    have hc : normSq (a - b) - atol * atol - rtol * rtol * normSq b ≤ atol * atol + rtol * rtol * normSq b := by
      by_contra hlt
      have := mul_self_lt_mul_self (add_nonneg h1 h2) (not_le.mp hlt)
      nlinarith [mul_self_nonneg (atol * atol - rtol * rtol * normSq b)]
    linarith

/-- the margin of the three-valued deciders is far outside the tolerance: if `|a − b|₁ ≥ m·(1+S)` with `|b|₁ ≤ S` then `a`, `b` are
    not close whenever `4·rtol ≤ m` and `4·atol ≤ m` -/
theorem not_closeQ_of_far (a b : QI) (m S rtol atol : Rat) (hm : 0 < m) (hr : 0 ≤ rtol) (ht : 0 ≤ atol)
    (hr4 : 4 * rtol ≤ m) (ht4 : 4 * atol ≤ m) (hb : b.abs1 ≤ S) (hfar : m * (1 + S) ≤ (a - b).abs1) :
    closeQ a b rtol atol = false := by
  by_contra hne
  have hclose : closeQ a b rtol atol = true := by simpa using hne
  have hb0 := abs1_nonneg b
  have hS : 0 ≤ S := le_trans hb0 hb
  have hbound := closeQ_bound a b rtol atol hclose
  have hD := abs1_sq_le (a - b)
  have h1 : (m * (1 + S)) * (m * (1 + S)) ≤ (a - b).abs1 * (a - b).abs1 :=
    mul_self_le_mul_self (by positivity) hfar
  have ht2 : atol * atol ≤ (m / 4) * (m / 4) := mul_self_le_mul_self ht (by linarith)
  have hr2 : rtol * rtol ≤ (m / 4) * (m / 4) := mul_self_le_mul_self hr (by linarith)
  have hy : normSq b ≤ S * S := le_trans (normSq_le_abs1_sq b) (mul_self_le_mul_self hb0 hb)
  have hry : rtol * rtol * normSq b ≤ (m / 4) * (m / 4) * (S * S) :=
    mul_le_mul hr2 hy (normSq_nonneg b) (by positivity)
  have hM : 0 < m * m := mul_pos hm hm
  have hMS : 0 ≤ m * m * S := mul_nonneg hM.le hS
  have hMSS : 0 ≤ m * m * S * S := mul_nonneg hMS hS
  nlinarith

/-! ## `allcloseQ` -/

theorem allcloseQ_iff (L R : Mat QI) (rtol atol : Rat) :
    allcloseQ L R rtol atol = true ↔ ∀ i j, i < L.r → j < L.c → closeQ (L.f i j) (R.f i j) rtol atol = true := by
  unfold allcloseQ
  simp only [allBelow_iff]
  exact ⟨fun h i j hi hj => h i hi j hj, fun h i hi j hj => h i j hi hj⟩

/-- **`allcloseQ` is `np.allclose`**: entrywise `|L_ij − R_ij| ≤ atol + rtol·|R_ij|` over the reals -/
theorem allcloseQ_iff_real (L R : Mat QI) (rtol atol : Rat) (hr : 0 ≤ rtol) (ht : 0 ≤ atol) :
    allcloseQ L R rtol atol = true ↔ ∀ i j, i < L.r → j < L.c →
      ‖(L.f i j).toC - (R.f i j).toC‖ ≤ ((atol : Rat) : ℝ) + ((rtol : Rat) : ℝ) * ‖(R.f i j).toC‖ := by
  rw [allcloseQ_iff]
  constructor
  · intro h i j hi hj; exact (closeQ_iff_real _ _ _ _ hr ht).mp (h i j hi hj)
  · intro h i j hi hj; exact (closeQ_iff_real _ _ _ _ hr ht).mpr (h i j hi hj)

theorem allcloseF_iff (L R : Mat QI) (rtol atol : Rat) (hr : R.r = L.r) (hc : R.c = L.c) :
    allcloseF L R rtol atol = true ↔ ∀ i j, i < L.r → j < L.c → closeQ (L.f i j) (R.f i j) rtol atol = true := by
  unfold allcloseF
  rw [allcloseQ_iff]
  constructor
  · intro h i j hi hj
    have := h i j hi hj
    rwa [force_f L i j hi hj, force_f R i j (hr ▸ hi) (hc ▸ hj)] at this
  · intro h i j hi hj
    have hi' : i < L.r := hi
    have hj' : j < L.c := hj
    rw [force_f L i j hi' hj', force_f R i j (hr ▸ hi') (hc ▸ hj')]
    exact h i j hi' hj'

/-- conditions under which the margin `m` of the three-valued deciders dominates the tolerances -/
structure TolOK (m rtol atol : Rat) : Prop where
  m_pos : 0 < m
  rtol_nonneg : 0 ≤ rtol
  atol_nonneg : 0 ≤ atol
  rtol_le : 4 * rtol ≤ m
  atol_le : 4 * atol ≤ m

/-- the library defaults `rtol = 1e-5`, `atol = 1e-8` against the harness margin `1e-3` -/
theorem tolOK_default : TolOK (1 / 1000) rtolDefault atolDefault := by
  constructor <;> norm_num [rtolDefault, atolDefault]

/-- **exact equality ⇒ `np.allclose`** (any tolerances) -/
theorem eqV_yes_allcloseF (L R : Mat QI) (m rtol atol : Rat) (hr : R.r = L.r) (hc : R.c = L.c)
    (h : eqV L R m = .yes) : allcloseF L R rtol atol = true := by
  rw [allcloseF_iff L R rtol atol hr hc]
  intro i j hi hj
  rw [(eqV_yes_iff L R m hr hc).mp h i j hi hj]
  exact closeQ_self _ _ _

/-- **violation by the margin ⇒ `np.allclose` fails** -/
theorem eqV_no_allcloseF (L R : Mat QI) (m rtol atol : Rat) (hr : R.r = L.r) (hc : R.c = L.c) (hok : TolOK m rtol atol)
    (h : eqV L R m = .no) : allcloseF L R rtol atol = false := by
  obtain ⟨S, hS, i, j, hi, hj, hfar⟩ := eqV_no_far L R m hr hc h
  by_contra hne
  have hall : allcloseF L R rtol atol = true := by simpa using hne
  have hij := (allcloseF_iff L R rtol atol hr hc).mp hall i j hi hj
  rw [not_closeQ_of_far (L.f i j) (R.f i j) m S rtol atol hok.m_pos hok.rtol_nonneg hok.atol_nonneg hok.rtol_le hok.atol_le
    (hS i j hi hj).2 hfar] at hij
  exact Bool.false_ne_true hij

/-! ## predicates with a squareness guard -/

theorem guard_yes (g : Bool) (L R : Mat QI) (m rtol atol : Rat) (hs : g = true → R.r = L.r ∧ R.c = L.c)
    (h : (if !g then Verdict.no else eqV L R m) = .yes) : (if !g then false else allcloseF L R rtol atol) = true := by
  cases g with
  | false => simp at h
  | true =>
    simp only [Bool.not_true, Bool.false_eq_true, ↓reduceIte] at h ⊢
    exact eqV_yes_allcloseF L R m rtol atol (hs rfl).1 (hs rfl).2 h

theorem guard_no (g : Bool) (L R : Mat QI) (m rtol atol : Rat) (hs : g = true → R.r = L.r ∧ R.c = L.c) (hok : TolOK m rtol atol)
    (h : (if !g then Verdict.no else eqV L R m) = .no) : (if !g then false else allcloseF L R rtol atol) = false := by
  cases g with
  | false => simp
  | true =>
    simp only [Bool.not_true, Bool.false_eq_true, ↓reduceIte] at h ⊢
    exact eqV_no_allcloseF L R m rtol atol (hs rfl).1 (hs rfl).2 hok h

theorem isSquare_iff (A : Mat QI) : isSquare A = true ↔ A.r = A.c := by simp [isSquare]

theorem hermitianV_tol (A : Mat QI) (m rtol atol : Rat) :
    (hermitianV A m = .yes → hermitianT A rtol atol = true) ∧
    (TolOK m rtol atol → hermitianV A m = .no → hermitianT A rtol atol = false) := by
  have hs : isSquare A = true → (ctranspose A).r = A.r ∧ (ctranspose A).c = A.c := by
    intro h; rw [isSquare_iff] at h; exact ⟨h.symm, h⟩
  exact ⟨guard_yes _ _ _ m rtol atol hs, fun hok => guard_no _ _ _ m rtol atol hs hok⟩

theorem antiHermitianV_tol (A : Mat QI) (m rtol atol : Rat) :
    (antiHermitianV A m = .yes → antiHermitianT A rtol atol = true) ∧
    (TolOK m rtol atol → antiHermitianV A m = .no → antiHermitianT A rtol atol = false) :=
  hermitianV_tol (scalarMul ⟨0, 1⟩ A) m rtol atol

theorem symmetricV_tol (A : Mat QI) (m rtol atol : Rat) :
    (symmetricV A m = .yes → symmetricT A rtol atol = true) ∧
    (TolOK m rtol atol → symmetricV A m = .no → symmetricT A rtol atol = false) := by
  have hs : isSquare A = true → (transpose A).r = A.r ∧ (transpose A).c = A.c := by
    intro h; rw [isSquare_iff] at h; exact ⟨h.symm, h⟩
  exact ⟨guard_yes _ _ _ m rtol atol hs, fun hok => guard_no _ _ _ m rtol atol hs hok⟩

theorem normalV_tol (A : Mat QI) (m rtol atol : Rat) :
    (normalV A m = .yes → normalT A rtol atol = true) ∧
    (TolOK m rtol atol → normalV A m = .no → normalT A rtol atol = false) := by
  have hs : isSquare A = true → (mul (ctranspose A) A).r = (mul A (ctranspose A)).r ∧
      (mul (ctranspose A) A).c = (mul A (ctranspose A)).c := by
    intro h; rw [isSquare_iff] at h; exact ⟨h.symm, h.symm⟩
  exact ⟨guard_yes _ _ _ m rtol atol hs, fun hok => guard_no _ _ _ m rtol atol hs hok⟩

theorem identityV_tol (A : Mat QI) (m rtol atol : Rat) :
    (identityV A m = .yes → identityT A rtol atol = true) ∧
    (TolOK m rtol atol → identityV A m = .no → identityT A rtol atol = false) := by
  have hs : isSquare A = true → (eye A.r : Mat QI).r = A.r ∧ (eye A.r : Mat QI).c = A.c := by
    intro h; rw [isSquare_iff] at h; exact ⟨rfl, h⟩
  exact ⟨guard_yes _ _ _ m rtol atol hs, fun hok => guard_no _ _ _ m rtol atol hs hok⟩

theorem idempotentV_tol (A : Mat QI) (m rtol atol : Rat) :
    (idempotentV A m = .yes → idempotentT A rtol atol = true) ∧
    (TolOK m rtol atol → idempotentV A m = .no → idempotentT A rtol atol = false) := by
  have hs : isSquare A = true → (mul A A).r = A.r ∧ (mul A A).c = A.c := fun _ => ⟨rfl, rfl⟩
  exact ⟨guard_yes _ _ _ m rtol atol hs, fun hok => guard_no _ _ _ m rtol atol hs hok⟩

theorem projectionV_tol (A : Mat QI) (m rtol atol : Rat) :
    (projectionV A m = .yes → projectionT A rtol atol = true) ∧
    (TolOK m rtol atol → projectionV A m = .no → projectionT A rtol atol = false) := by
  have hs : isSquare A = true → A.r = (mul A A).r ∧ A.c = (mul A A).c := fun _ => ⟨rfl, rfl⟩
  exact ⟨guard_yes _ _ _ m rtol atol hs, fun hok => guard_no _ _ _ m rtol atol hs hok⟩

theorem circulantV_tol (A : Mat QI) (m rtol atol : Rat) :
    (circulantV A m = .yes → circulantTol A rtol atol = true) ∧
    (TolOK m rtol atol → circulantV A m = .no → circulantTol A rtol atol = false) := by
  have hs : isSquare A = true → (⟨A.r - 1, A.r, fun i j => A.f i ((j + A.r - 1) % A.r)⟩ : Mat QI).r
        = (⟨A.r - 1, A.r, fun i j => A.f (i + 1) j⟩ : Mat QI).r ∧
      (⟨A.r - 1, A.r, fun i j => A.f i ((j + A.r - 1) % A.r)⟩ : Mat QI).c
        = (⟨A.r - 1, A.r, fun i j => A.f (i + 1) j⟩ : Mat QI).c := fun _ => ⟨rfl, rfl⟩
  exact ⟨guard_yes _ _ _ m _ _ hs, fun hok => guard_no _ _ _ m _ _ hs hok⟩

theorem commutingV_tol (A B : Mat QI) (m rtol atol : Rat) (hc : A.c = B.c) :
    (commutingV A B m = .yes → commutingTol A B rtol atol = true) ∧
    (TolOK m rtol atol → commutingV A B m = .no → commutingTol A B rtol atol = false) :=
  ⟨eqV_yes_allcloseF _ _ m _ _ rfl hc, fun hok => eqV_no_allcloseF _ _ m _ _ rfl hc hok⟩

theorem Verdict.and_no_iff (a b : Verdict) : a.and b = .no ↔ a = .no ∨ b = .no := by
  cases a <;> cases b <;> simp [Verdict.and]

theorem unitaryV_tol (A : Mat QI) (m rtol atol : Rat) :
    (unitaryV A m = .yes → unitaryT A rtol atol = true) ∧
    (TolOK m rtol atol → unitaryV A m = .no → unitaryT A rtol atol = false) := by
  unfold unitaryV unitaryT
  by_cases hsq : isSquare A = true
  · have hAA := (isSquare_iff A).mp hsq
    have s1 : (eye A.r : Mat QI).r = (mul (ctranspose A) A).r ∧ (eye A.r : Mat QI).c = (mul (ctranspose A) A).c := ⟨hAA, hAA⟩
    have s2 : (eye A.r : Mat QI).r = (mul A (ctranspose A)).r ∧ (eye A.r : Mat QI).c = (mul A (ctranspose A)).c := ⟨rfl, rfl⟩
    simp only [hsq, Bool.not_true, Bool.false_eq_true, ↓reduceIte, Bool.and_eq_true, Bool.and_eq_false_iff]
    constructor
    · intro h
      rw [Verdict.and_yes_iff] at h
      exact ⟨eqV_yes_allcloseF _ _ m rtol atol s1.1 s1.2 h.1, eqV_yes_allcloseF _ _ m rtol atol s2.1 s2.2 h.2⟩
    · intro hok h
      rw [Verdict.and_no_iff] at h
      rcases h with h | h
      · exact Or.inl (eqV_no_allcloseF _ _ m rtol atol s1.1 s1.2 hok h)
      · exact Or.inr (eqV_no_allcloseF _ _ m rtol atol s2.1 s2.2 hok h)
  · simp [hsq]

theorem pseudoUnitaryV_tol (A : Mat QI) (p q : Nat) (m rtol atol : Rat) :
    (pseudoUnitaryV A p q m = .yes → pseudoUnitaryT A p q rtol atol = .ok true) ∧
    (TolOK m rtol atol → pseudoUnitaryV A p q m = .no → pseudoUnitaryT A p q rtol atol = .ok false) := by
  unfold pseudoUnitaryV pseudoUnitaryT
  have hp : ¬ ((p : Int) < 0) := by omega
  have hq : ¬ ((q : Int) < 0) := by omega
  simp only [hp, hq, decide_false, Bool.or_self, Bool.false_eq_true, ↓reduceIte, Int.toNat_natCast]
  by_cases hsq : isSquare A = true
  · simp only [hsq, Bool.not_true, Bool.false_eq_true, ↓reduceIte]
    by_cases hpq : (p + q != A.r) = true
    · simp [hpq]
    · have hpq' : p + q = A.r := by simpa using hpq
      have hAA := (isSquare_iff A).mp hsq
      simp only [hpq, Bool.false_eq_true, ↓reduceIte, Except.ok.injEq]
      have s : (signature p q).r = (mul (mul (ctranspose A) (signature p q)) A).r ∧
          (signature p q).c = (mul (mul (ctranspose A) (signature p q)) A).c := by
        constructor
        · show p + q = A.c; omega
        · show p + q = A.c; omega
      exact ⟨eqV_yes_allcloseF _ _ m rtol atol s.1 s.2, fun hok => eqV_no_allcloseF _ _ m rtol atol s.1 s.2 hok⟩
  · simp [hsq]

/-! ## sets of vectors, stochastic matrices -/

theorem mutuallyOrthogonalV_tol (d n : Nat) (vs : Nat → Nat → QI) (m rtol atol : Rat) :
    (mutuallyOrthogonalV d n vs m = .ok .yes → mutuallyOrthogonalTol d n vs rtol atol = .ok true) ∧
    (TolOK m rtol atol → mutuallyOrthogonalV d n vs m = .ok .no → mutuallyOrthogonalTol d n vs rtol atol = .ok false) ∧
    (∀ e, mutuallyOrthogonalV d n vs m = .error e ↔ mutuallyOrthogonalTol d n vs rtol atol = .error e) := by
  unfold mutuallyOrthogonalV mutuallyOrthogonalTol
  by_cases hn : n ≤ 1
  · simp [hn]
  · simp only [hn, ↓reduceIte, Except.ok.injEq, reduceCtorEq, implies_true, and_true]
    exact ⟨eqV_yes_allcloseF _ _ m _ _ rfl rfl, fun hok => eqV_no_allcloseF _ _ m _ _ rfl rfl hok⟩

theorem orthonormalV_tol (d n : Nat) (vs : Nat → Nat → QI) (m rtol atol : Rat) :
    (orthonormalV d n vs m = .ok .yes → orthonormalTol d n vs rtol atol = .ok true) ∧
    (TolOK m rtol atol → orthonormalV d n vs m = .ok .no → orthonormalTol d n vs rtol atol = .ok false) := by
  unfold orthonormalV orthonormalTol mutuallyOrthogonalV mutuallyOrthogonalTol
  by_cases hn : n ≤ 1
  · simp [hn, bind, Except.bind]
  · simp only [hn, ↓reduceIte, bind, Except.bind, pure, Except.pure, Except.ok.injEq, Bool.and_eq_true, Bool.and_eq_false_iff]
    constructor
    · intro h
      rw [Verdict.and_yes_iff] at h
      exact ⟨eqV_yes_allcloseF _ _ m _ _ rfl rfl h.1, eqV_yes_allcloseF _ _ m _ _ rfl rfl h.2⟩
    · intro hok h
      rw [Verdict.and_no_iff] at h
      rcases h with h | h
      · exact Or.inl (eqV_no_allcloseF _ _ m _ _ rfl rfl hok h)
      · exact Or.inr (eqV_no_allcloseF _ _ m _ _ rfl rfl hok h)

theorem Verdict.ofBool_no_iff (b : Bool) : Verdict.ofBool b = .no ↔ b = false := by
  cases b <;> simp [Verdict.ofBool]

theorem nonnegativeV_nonnegT (A : Mat QI) :
    (nonnegativeV A = .yes → nonnegT A = true) ∧ (nonnegativeV A = .no → nonnegT A = false) := by
  unfold nonnegativeV nonnegT
  by_cases hreal : isRealMat A = true
  · simp only [hreal, Bool.not_true, Bool.false_eq_true, ↓reduceIte]
    exact ⟨(Verdict.ofBool_yes_iff _).mp, (Verdict.ofBool_no_iff _).mp⟩
  · simp [hreal]

theorem stochasticV_tol (A : Mat QI) (k : Nat) (hk : k ≤ 2) (m rtol atol : Rat) :
    (stochasticV A k m = .yes → stochasticTol A k rtol atol = .ok true) ∧
    (TolOK m rtol atol → stochasticV A k m = .no → stochasticTol A k rtol atol = .ok false) := by
  unfold stochasticV stochasticTol
  have hk' : ¬ (k > 2) := by omega
  simp only [hk', ↓reduceIte]
  by_cases hsq : isSquare A = true
  · have hAA := (isSquare_iff A).mp hsq
    simp only [hsq, Bool.not_true, Bool.false_eq_true, ↓reduceIte, Bool.true_and]
    have sc : (⟨1, A.r, fun _ _ => (1 : QI)⟩ : Mat QI).r = (⟨1, A.c, fun _ j => sumN A.r (fun i => A.f i j)⟩ : Mat QI).r ∧
        (⟨1, A.r, fun _ _ => (1 : QI)⟩ : Mat QI).c = (⟨1, A.c, fun _ j => sumN A.r (fun i => A.f i j)⟩ : Mat QI).c := ⟨rfl, hAA⟩
    constructor
    · intro h
      rw [Verdict.and_yes_iff, Verdict.and_yes_iff] at h
      obtain ⟨hnn, hl, hr⟩ := h
      have hnn' := (nonnegativeV_nonnegT A).1 hnn
      simp only [hnn', Bool.not_true, Bool.false_eq_true, ↓reduceIte, Except.ok.injEq, Bool.and_eq_true]
      constructor
      · by_cases c : (k == 0 || k == 2) = true
        · simp only [c, ↓reduceIte] at hl ⊢
          exact eqV_yes_allcloseF _ _ m _ _ sc.1 sc.2 hl
        · simp [c]
      · by_cases c : (k == 1 || k == 2) = true
        · simp only [c, ↓reduceIte] at hr ⊢
          exact eqV_yes_allcloseF _ _ m _ _ rfl rfl hr
        · simp [c]
    · intro hok h
      rw [Verdict.and_no_iff, Verdict.and_no_iff] at h
      by_cases hnn' : nonnegT A = true
      · simp only [hnn', Bool.not_true, Bool.false_eq_true, ↓reduceIte, Except.ok.injEq, Bool.and_eq_false_iff]
        rcases h with h | h | h
        · have := (nonnegativeV_nonnegT A).2 h
          rw [hnn'] at this; cases this
        · left
          by_cases c : (k == 0 || k == 2) = true
          · simp only [c, ↓reduceIte] at h ⊢
            exact eqV_no_allcloseF _ _ m _ _ sc.1 sc.2 hok h
          · simp [c] at h
        · right
          by_cases c : (k == 1 || k == 2) = true
          · simp only [c, ↓reduceIte] at h ⊢
            exact eqV_no_allcloseF _ _ m _ _ rfl rfl hok h
          · simp [c] at h
      · simp [hnn']
  · simp [hsq]

end Toq.MatrixPreds
