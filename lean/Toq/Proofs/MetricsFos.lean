import Toq.Proofs.MetricsExtreme
import Toq.Proofs.PPTDiscHier
/-!
# The semidefinite program of `fidelity_of_separability` (state version) at every extension level

`fidelity_of_separability(ρ, [dA, dB], k)` hands picos the program

    maximise   ½ tr(X + Xᴴ)  =  Re tr X
    over       X  complex `dA dB × dA dB`,   σ  Hermitian on `A ⊗ B^{⊗k}`
    subject to [[ρ, X], [Xᴴ, tr_{B₂…B_k} σ]] ⪰ 0,   σ ⪰ 0,   tr σ = 1,
               (1_A ⊗ Π_sym) σ (1_A ⊗ Π_sym) = σ            (`Π_sym = symmetric_projection(dB, k)`),
               T_{B₁…B_j}(σ) ⪰ 0   for  j = 1, …, k − 1     (`for i in range(1, k)`: the transposed systems are `[1, …, i]`)

and returns the SQUARE of the optimal value.  An operator on `A ⊗ B^{⊗L}` is a matrix indexed by `HIdx m d L = m × (Fin L → Fin d)`
(C12's index set: `m` indexes `A`, the digit vector lists the copies of `B` in tensor order); the level is `k = ℓ + 1`.

Proved here, for every level, every index type `m` of `A` and every `dB = d`:
* the product point `σ = a aᴴ ⊗ (b bᴴ)^{⊗k}`, `X = ρ = a aᴴ ⊗ b bᴴ` is feasible with objective `1` (`fosFeasible_product`),
* every feasible point of every density operator `ρ` has objective `≤ 1` (`FosFeasible.objective_le_one`),
* hence the optimal value is `1` and is attained (`fosV_product`, `fos_isGreatest_product`),
* objective `1` is attained exactly when `ρ` itself has an extension satisfying the constraints (`fos_attains_one_iff`),
* a feasible point of level `k + 1` restricts to one of level `k` with the same objective (`FosFeasible.pred`).
-/

open Matrix Equiv
open scoped ComplexOrder MatrixOrder Kronecker

set_option linter.unusedSectionVars false

namespace Toq.Metrics
open Toq.PPTDisc

section Fos
variable {m : Type*} [Fintype m] [DecidableEq m] {d : ℕ}

/-! ### the trace survives tracing out copies -/

/-- `(i, c) ↦` the index `i` with the digit `c` appended, as an equivalence -/
def snocEquiv (m : Type*) (d L : ℕ) : HIdx m d L × Fin d ≃ HIdx m d (L + 1) where
  toFun p := snocI p.1 p.2
  invFun i := ((i.1, Fin.init (α := fun _ => Fin d) i.2), i.2 (Fin.last L))
  left_inv p := by
    obtain ⟨⟨a, f⟩, c⟩ := p
    simp [snocI]
  right_inv i := by
    obtain ⟨a, f⟩ := i
    simp [snocI]

theorem trace_margLast {L : ℕ} (X : Matrix (HIdx m d (L + 1)) (HIdx m d (L + 1)) ℂ) :
    (margLast X).trace = X.trace := by
  have e : ∑ p : HIdx m d L × Fin d, X (snocEquiv m d L p) (snocEquiv m d L p)
      = ∑ i : HIdx m d L, ∑ c, X (snocI i c) (snocI i c) := by
    rw [Fintype.sum_prod_type]; rfl
  show ∑ i : HIdx m d L, ∑ c, X (snocI i c) (snocI i c) = ∑ i, X i i
  rw [← e]
  exact Equiv.sum_comp (snocEquiv m d L) (fun i => X i i)

theorem trace_margTo1 : ∀ (ℓ : ℕ) (X : Matrix (HIdx m d (ℓ + 1)) (HIdx m d (ℓ + 1)) ℂ),
    (margTo1 ℓ X).trace = X.trace
  | 0, _ => rfl
  | ℓ + 1, X => by
    show (margTo1 ℓ (margLast X)).trace = _
    rw [trace_margTo1 ℓ, trace_margLast]

theorem toMN_eq_submatrix (Z : Matrix (HIdx m d 1) (HIdx m d 1) ℂ) :
    toMN Z = Z.submatrix (oneCopyEquiv (m := m) (d := d)) oneCopyEquiv := rfl

theorem trace_toMN (Z : Matrix (HIdx m d 1) (HIdx m d 1) ℂ) : (toMN Z).trace = Z.trace := by
  rw [toMN_eq_submatrix]
  simp only [Matrix.trace, Matrix.diag_apply, Matrix.submatrix_apply]
  exact Equiv.sum_comp oneCopyEquiv (fun i => Z i i)

theorem toMN_posSemidef {Z : Matrix (HIdx m d 1) (HIdx m d 1) ℂ} (h : Z.PosSemidef) : (toMN Z).PosSemidef := by
  rw [toMN_eq_submatrix]; exact (Matrix.posSemidef_submatrix_equiv _).mpr h

theorem margTo1_posSemidef : ∀ (ℓ : ℕ) {X : Matrix (HIdx m d (ℓ + 1)) (HIdx m d (ℓ + 1)) ℂ},
    X.PosSemidef → (margTo1 ℓ X).PosSemidef
  | 0, _, h => h
  | ℓ + 1, _, h => margTo1_posSemidef ℓ (margLast_posSemidef h)

/-- the marginal on `A ⊗ B₁` (`picos.partial_trace(σ, [2, …, k], dims)`) -/
def marg1 (ℓ : ℕ) (σ : Matrix (HIdx m d (ℓ + 1)) (HIdx m d (ℓ + 1)) ℂ) : Matrix (m × Fin d) (m × Fin d) ℂ :=
  toMN (margTo1 ℓ σ)

theorem trace_marg1 (ℓ : ℕ) (σ : Matrix (HIdx m d (ℓ + 1)) (HIdx m d (ℓ + 1)) ℂ) : (marg1 ℓ σ).trace = σ.trace := by
  unfold marg1; rw [trace_toMN, trace_margTo1]

theorem marg1_posSemidef (ℓ : ℕ) {σ : Matrix (HIdx m d (ℓ + 1)) (HIdx m d (ℓ + 1)) ℂ} (h : σ.PosSemidef) :
    (marg1 ℓ σ).PosSemidef := toMN_posSemidef (margTo1_posSemidef ℓ h)

theorem marg1_succ (ℓ : ℕ) (σ : Matrix (HIdx m d (ℓ + 2)) (HIdx m d (ℓ + 2)) ℂ) :
    marg1 (ℓ + 1) σ = marg1 ℓ (margLast σ) := rfl

/-! ### partial transpose on a set of copies -/

/-- partial transpose on the copies `t` of `B` with `S t` (`picos.partial_transpose(σ, sys, dims)` with `sys = {t + 1 : S t}`) -/
def pTYs {L : ℕ} (S : Fin L → Prop) [DecidablePred S] (X : Matrix (HIdx m d L) (HIdx m d L) ℂ) :
    Matrix (HIdx m d L) (HIdx m d L) ℂ :=
  fun i j => X (i.1, fun t => if S t then j.2 t else i.2 t) (j.1, fun t => if S t then i.2 t else j.2 t)

theorem pTYs_prodExt {L : ℕ} (S : Fin L → Prop) [DecidablePred S] (A : Matrix m m ℂ) (β : Fin L → Fin d → ℂ) :
    pTYs S (prodExt A β) = prodExt A (fun t => if S t then star (β t) else β t) := by
  ext i j
  simp only [pTYs, prodExt_apply]
  congr 1
  refine Finset.prod_congr rfl fun s _ => ?_
  by_cases hs : S s
  · simp only [if_pos hs, Pi.star_apply, star_star]; ring
  · simp only [if_neg hs]

/-- transposing the first `j` copies commutes with tracing out the last copy (`j ≤ L`: the last copy is not transposed) -/
theorem pTYs_prefix_margLast {L : ℕ} (j : ℕ) (hj : j ≤ L) (X : Matrix (HIdx m d (L + 1)) (HIdx m d (L + 1)) ℂ) :
    pTYs (fun t : Fin L => (t : ℕ) < j) (margLast X) = margLast (pTYs (fun t : Fin (L + 1) => (t : ℕ) < j) X) := by
  ext i i'
  simp only [pTYs, margLast, snocI]
  refine Finset.sum_congr rfl fun c _ => ?_
  have e : ∀ (f g : Fin L → Fin d),
      (Fin.snoc (α := fun _ => Fin d) (fun t : Fin L => if (t : ℕ) < j then g t else f t) c : Fin (L + 1) → Fin d)
        = fun t : Fin (L + 1) => if (t : ℕ) < j then (Fin.snoc (α := fun _ => Fin d) g c : Fin (L + 1) → Fin d) t
            else (Fin.snoc (α := fun _ => Fin d) f c : Fin (L + 1) → Fin d) t := by
    intro f g
    funext t
    cases t using Fin.lastCases with
    | last =>
      have : ¬ ((Fin.last L : Fin (L + 1)) : ℕ) < j := by simp; omega
      simp
    | cast t => simp
  rw [e, e]

/-! ### the program -/

/-- `(X, σ)` is a feasible point of the program `fidelity_of_separability(ρ, [|m|, d], k = ℓ + 1)` builds -/
structure FosFeasible (ℓ : ℕ) (ρ X : Matrix (m × Fin d) (m × Fin d) ℂ)
    (σ : Matrix (HIdx m d (ℓ + 1)) (HIdx m d (ℓ + 1)) ℂ) : Prop where
  /-- `[[ρ, X], [Xᴴ, tr_{B₂…B_k} σ]] ⪰ 0` -/
  block : FidFeasible ρ (marg1 ℓ σ) X
  /-- `σ ⪰ 0` -/
  psd : σ.PosSemidef
  /-- `tr σ = 1` -/
  trace_one : σ.trace = 1
  /-- `(1 ⊗ Π_sym) σ (1 ⊗ Π_sym) = σ` -/
  sym : ((1 : Matrix m m ℂ) ⊗ₖ symPC d (ℓ + 1)) * σ * ((1 : Matrix m m ℂ) ⊗ₖ symPC d (ℓ + 1)) = σ
  /-- `T_{B₁…B_j}(σ) ⪰ 0` for `j = 1 … k − 1` -/
  ppt : ∀ j : ℕ, 1 ≤ j → j ≤ ℓ → (pTYs (fun t : Fin (ℓ + 1) => (t : ℕ) < j) σ).PosSemidef

/-- the objective `½ tr(X + Xᴴ)` is `Re tr X` -/
theorem fos_objective_eq (X : Matrix (m × Fin d) (m × Fin d) ℂ) :
    ((1 / 2 : ℂ) * (X + Xᴴ).trace).re = X.trace.re := by
  rw [Matrix.trace_add, Matrix.trace_conjTranspose]
  simp only [Complex.mul_re, Complex.add_re, Complex.add_im, Complex.star_def, Complex.conj_re, Complex.conj_im]
  norm_num
  ring

/-- the objective `½ tr(X + Xᴴ)` is real -/
theorem fos_objective_im (X : Matrix (m × Fin d) (m × Fin d) ℂ) :
    ((1 / 2 : ℂ) * (X + Xᴴ).trace).im = 0 := by
  rw [Matrix.trace_add, Matrix.trace_conjTranspose]
  simp only [Complex.mul_im, Complex.add_re, Complex.add_im, Complex.star_def, Complex.conj_re, Complex.conj_im]
  norm_num

/-- **upper bound**: for a unit-trace `ρ` every feasible point has objective at most `1`
(weak duality of the fidelity program with the dual point `Y = Z = 1`; only the block constraint and `tr σ = 1` are used) -/
theorem FosFeasible.objective_le_one {ℓ : ℕ} {ρ X : Matrix (m × Fin d) (m × Fin d) ℂ}
    {σ : Matrix (HIdx m d (ℓ + 1)) (HIdx m d (ℓ + 1)) ℂ} (h : FosFeasible ℓ ρ X σ) (tρ : ρ.trace = 1) :
    X.trace.re ≤ 1 := by
  have h1 := fid_weak_duality_gen h.block (fidDualFeasible_one (ι := m × Fin d))
  unfold dualVal at h1
  rw [Matrix.one_mul, Matrix.one_mul, tρ, trace_marg1, h.trace_one] at h1
  norm_num at h1
  exact h1

/-- an operator that has an extension obeying the constraints, taken as `X` and as the marginal: a feasible point with objective `tr ρ` -/
theorem fosFeasible_of_extension {ℓ : ℕ} {ρ : Matrix (m × Fin d) (m × Fin d) ℂ}
    {σ : Matrix (HIdx m d (ℓ + 1)) (HIdx m d (ℓ + 1)) ℂ} (hσ : σ.PosSemidef) (hm : marg1 ℓ σ = ρ) (tρ : ρ.trace = 1)
    (hs : ((1 : Matrix m m ℂ) ⊗ₖ symPC d (ℓ + 1)) * σ * ((1 : Matrix m m ℂ) ⊗ₖ symPC d (ℓ + 1)) = σ)
    (hp : ∀ j : ℕ, 1 ≤ j → j ≤ ℓ → (pTYs (fun t : Fin (ℓ + 1) => (t : ℕ) < j) σ).PosSemidef) :
    FosFeasible ℓ ρ ρ σ := by
  have hρ : ρ.PosSemidef := hm ▸ marg1_posSemidef ℓ hσ
  refine ⟨?_, hσ, ?_, hs, hp⟩
  · rw [hm]; exact fidFeasible_self hρ
  · rw [← trace_marg1, hm, tρ]

/-- **objective one is attained exactly by the operators that have an extension obeying the constraints**:
for a density operator `ρ`, some feasible point has objective `1` iff some `σ ⪰ 0` on `A ⊗ B^{⊗k}` supported on the symmetric subspace,
with positive partial transposes on `B₁…B_j` (`j < k`), has `A B₁`-marginal `ρ` -/
theorem fos_attains_one_iff {ℓ : ℕ} {ρ : Matrix (m × Fin d) (m × Fin d) ℂ} (hρ : ρ.PosSemidef) (tρ : ρ.trace = 1) :
    (∃ X σ, FosFeasible ℓ ρ X σ ∧ X.trace.re = 1) ↔
      ∃ σ : Matrix (HIdx m d (ℓ + 1)) (HIdx m d (ℓ + 1)) ℂ, σ.PosSemidef ∧ marg1 ℓ σ = ρ ∧
        ((1 : Matrix m m ℂ) ⊗ₖ symPC d (ℓ + 1)) * σ * ((1 : Matrix m m ℂ) ⊗ₖ symPC d (ℓ + 1)) = σ ∧
        ∀ j : ℕ, 1 ≤ j → j ≤ ℓ → (pTYs (fun t : Fin (ℓ + 1) => (t : ℕ) < j) σ).PosSemidef := by
  constructor
  · rintro ⟨X, σ, h, hX⟩
    refine ⟨σ, h.psd, ?_, h.sym, h.ppt⟩
    have hσ1 := marg1_posSemidef ℓ h.psd
    have tσ1 : (marg1 ℓ σ).trace = 1 := by rw [trace_marg1, h.trace_one]
    have h1 : (1 : ℝ) ≤ fidV ρ (marg1 ℓ σ) := hX ▸ le_fidV_gen h.block
    have h2 : fidV ρ (marg1 ℓ σ) ≤ 1 := by
      have := fidV_le_gen hρ hσ1 (fidDualFeasible_one (ι := m × Fin d))
      unfold dualVal at this
      rw [Matrix.one_mul, Matrix.one_mul, tρ, tσ1] at this
      norm_num at this
      exact this
    exact ((fidV_eq_one_iff hρ hσ1 tρ tσ1).mp (le_antisymm h2 h1)).symm
  · rintro ⟨σ, hσ, hm, hs, hp⟩
    exact ⟨ρ, σ, fosFeasible_of_extension hσ hm tρ hs hp, by rw [tρ]; rfl⟩

/-- **monotone in the level**: tracing out the last copy maps a feasible point of level `k + 1` to a feasible point of level `k`
with the same `X` (so the optimal value does not increase with the level) -/
theorem FosFeasible.pred {ℓ : ℕ} {ρ X : Matrix (m × Fin d) (m × Fin d) ℂ}
    {σ : Matrix (HIdx m d (ℓ + 2)) (HIdx m d (ℓ + 2)) ℂ} (h : FosFeasible (ℓ + 1) ρ X σ) :
    FosFeasible ℓ ρ X (margLast σ) := by
  refine ⟨h.block, margLast_posSemidef h.psd, ?_, ?_, fun j h1 hj => ?_⟩
  · rw [trace_margLast, h.trace_one]
  · exact (sym_iff_isBoseSym _).mpr ((sym_iff_isBoseSym σ).mp h.sym).margLast
  · rw [pTYs_prefix_margLast j (by omega)]
    exact margLast_posSemidef (h.ppt j h1 (by omega))

/-! ### pure product states -/

/-- the product point: `σ = a aᴴ ⊗ (b bᴴ)^{⊗(ℓ+1)}` -/
def fosProdSigma (ℓ : ℕ) (a : m → ℂ) (b : Fin d → ℂ) : Matrix (HIdx m d (ℓ + 1)) (HIdx m d (ℓ + 1)) ℂ :=
  prodExt (vecMulVec a (star a)) (fun _ : Fin (ℓ + 1) => b)

/-- the pure product state `a aᴴ ⊗ b bᴴ` -/
def fosProdRho (a : m → ℂ) (b : Fin d → ℂ) : Matrix (m × Fin d) (m × Fin d) ℂ :=
  vecMulVec a (star a) ⊗ₖ vecMulVec b (star b)

theorem fosProdRho_eq_vecMulVec (a : m → ℂ) (b : Fin d → ℂ) :
    fosProdRho a b = vecMulVec (fun i : m × Fin d => a i.1 * b i.2) (star fun i : m × Fin d => a i.1 * b i.2) := by
  ext i j
  simp only [fosProdRho, Matrix.kroneckerMap_apply, Matrix.vecMulVec_apply, Pi.star_apply, star_mul']
  ring

theorem fosProdRho_posSemidef (a : m → ℂ) (b : Fin d → ℂ) : (fosProdRho a b).PosSemidef :=
  (Matrix.posSemidef_vecMulVec_self_star a).kronecker (Matrix.posSemidef_vecMulVec_self_star b)

theorem trace_vecMulVec_star {ι : Type*} [Fintype ι] (v : ι → ℂ) : (vecMulVec v (star v)).trace = v ⬝ᵥ star v := by
  simp [Matrix.trace, Matrix.vecMulVec_apply, dotProduct]

theorem fosProdRho_trace (a : m → ℂ) (b : Fin d → ℂ) (ha : a ⬝ᵥ star a = 1) (hb : b ⬝ᵥ star b = 1) :
    (fosProdRho a b).trace = 1 := by
  unfold fosProdRho
  rw [Matrix.trace_kronecker, trace_vecMulVec_star, trace_vecMulVec_star, ha, hb, one_mul]

theorem marg1_fosProdSigma (ℓ : ℕ) (a : m → ℂ) (b : Fin d → ℂ) (hb : b ⬝ᵥ star b = 1) :
    marg1 ℓ (fosProdSigma ℓ a b) = fosProdRho a b := by
  unfold marg1 fosProdSigma
  rw [margTo1_prodExt _ b hb]
  ext i j
  simp [toMN, oneCopy, prodExt_apply, fosProdRho, Matrix.kroneckerMap_apply, Matrix.vecMulVec_apply]

/-- **feasibility of the product point at every level**: for unit vectors `a`, `b` the point `σ = a aᴴ ⊗ (b bᴴ)^{⊗k}`,
`X = ρ = a aᴴ ⊗ b bᴴ` satisfies every constraint of the program -/
theorem fosFeasible_product (ℓ : ℕ) (a : m → ℂ) (b : Fin d → ℂ) (ha : a ⬝ᵥ star a = 1) (hb : b ⬝ᵥ star b = 1) :
    FosFeasible ℓ (fosProdRho a b) (fosProdRho a b) (fosProdSigma ℓ a b) := by
  have hA : (vecMulVec a (star a)).PosSemidef := Matrix.posSemidef_vecMulVec_self_star a
  refine fosFeasible_of_extension (prodExt_posSemidef hA _) (marg1_fosProdSigma ℓ a b hb) (fosProdRho_trace a b ha hb)
    ((sym_iff_isBoseSym _).mpr (prodExt_isBoseSym _ b)) fun j _ _ => ?_
  unfold fosProdSigma
  rw [pTYs_prodExt]
  exact prodExt_posSemidef hA _

/-! ### the optimal value -/

/-- the objective values `Re tr X` over all feasible points -/
def fosSet (ℓ : ℕ) (ρ : Matrix (m × Fin d) (m × Fin d) ℂ) : Set ℝ :=
  {x | ∃ X σ, FosFeasible ℓ ρ X σ ∧ X.trace.re = x}

/-- the optimal value of the program (`solution.value`); the function returns its square -/
noncomputable def fosV (ℓ : ℕ) (ρ : Matrix (m × Fin d) (m × Fin d) ℂ) : ℝ := sSup (fosSet ℓ ρ)

theorem fosSet_bddAbove (ℓ : ℕ) {ρ : Matrix (m × Fin d) (m × Fin d) ℂ} (tρ : ρ.trace = 1) : BddAbove (fosSet ℓ ρ) :=
  ⟨1, by rintro x ⟨X, σ, h, rfl⟩; exact h.objective_le_one tρ⟩

/-- `1` is the greatest objective value for a pure product state -/
theorem fos_isGreatest_product (ℓ : ℕ) (a : m → ℂ) (b : Fin d → ℂ) (ha : a ⬝ᵥ star a = 1) (hb : b ⬝ᵥ star b = 1) :
    IsGreatest (fosSet ℓ (fosProdRho a b)) 1 := by
  have t := fosProdRho_trace a b ha hb
  refine ⟨⟨_, _, fosFeasible_product ℓ a b ha hb, by rw [t]; rfl⟩, ?_⟩
  rintro x ⟨X, σ, h, rfl⟩
  exact h.objective_le_one t

theorem fosV_product (ℓ : ℕ) (a : m → ℂ) (b : Fin d → ℂ) (ha : a ⬝ᵥ star a = 1) (hb : b ⬝ᵥ star b = 1) :
    fosV ℓ (fosProdRho a b) = 1 :=
  (fos_isGreatest_product ℓ a b ha hb).csSup_eq

/-- the value does not increase with the level -/
theorem fosV_succ_le (ℓ : ℕ) {ρ : Matrix (m × Fin d) (m × Fin d) ℂ} (tρ : ρ.trace = 1)
    (hne : (fosSet (ℓ + 1) ρ).Nonempty) : fosV (ℓ + 1) ρ ≤ fosV ℓ ρ := by
  refine csSup_le hne ?_
  rintro x ⟨X, σ, h, rfl⟩
  exact le_csSup (fosSet_bddAbove ℓ tρ) ⟨X, margLast σ, h.pred, rfl⟩

/-- for every density operator the program is feasible: `X = 0` with any product extension `σ = e eᴴ ⊗ (f fᴴ)^{⊗k}` -/
theorem fosFeasible_zero (ℓ : ℕ) {ρ : Matrix (m × Fin d) (m × Fin d) ℂ} (hρ : ρ.PosSemidef) (a : m → ℂ) (b : Fin d → ℂ)
    (ha : a ⬝ᵥ star a = 1) (hb : b ⬝ᵥ star b = 1) : FosFeasible ℓ ρ 0 (fosProdSigma ℓ a b) := by
  have h := fosFeasible_product ℓ a b ha hb
  refine ⟨?_, h.psd, h.trace_one, h.sym, h.ppt⟩
  unfold FidFeasible
  rw [marg1_fosProdSigma ℓ a b hb]
  simpa using posSemidef_fromBlocks_diag hρ (fosProdRho_posSemidef a b)

theorem single_dotProduct_star {ι : Type*} [Fintype ι] [DecidableEq ι] (i : ι) :
    (Pi.single i (1 : ℂ) : ι → ℂ) ⬝ᵥ star (Pi.single i (1 : ℂ) : ι → ℂ) = 1 := by
  simp [dotProduct, Pi.single_apply]

/-- the optimal value of the program lies in `[0, 1]` for every density operator (`A`, `B` of dimension at least one) -/
theorem fosV_mem_Icc (ℓ : ℕ) [Nonempty m] (hd : 0 < d) {ρ : Matrix (m × Fin d) (m × Fin d) ℂ} (hρ : ρ.PosSemidef)
    (tρ : ρ.trace = 1) : 0 ≤ fosV ℓ ρ ∧ fosV ℓ ρ ≤ 1 := by
  obtain ⟨a0⟩ := ‹Nonempty m›
  have h0 : (0 : ℝ) ∈ fosSet ℓ ρ :=
    ⟨0, _, fosFeasible_zero ℓ hρ (Pi.single a0 1) (Pi.single (⟨0, hd⟩ : Fin d) 1) (single_dotProduct_star a0)
      (single_dotProduct_star _), by simp⟩
  refine ⟨le_csSup (fosSet_bddAbove ℓ tρ) h0, csSup_le ⟨0, h0⟩ ?_⟩
  rintro x ⟨X, σ, h, rfl⟩
  exact h.objective_le_one tρ

end Fos
end Toq.Metrics
