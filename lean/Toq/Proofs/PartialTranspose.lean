import Toq.Model.PartialOps
import Toq.Spec.PartialTranspose
import Toq.Properties.C01
import Mathlib.Tactic.Ring
import Mathlib.Algebra.BigOperators.Group.Finset.Sigma
/-! Helper lemmas for C03 (partial transpose and realignment mirror models vs. their specs). -/

namespace Toq.PartialOps
open Toq.Perms Toq.C01 Toq.Spec

/-! ### lists as functions, the permutation `S ++ rest` -/

theorem fnOfList_eq (L : List Nat) (k : Nat) (h : k < L.length) : (fnOfList L) k = L[k] := by
  simp [fnOfList, h]

theorem fnOfList_append_left (A B : List Nat) (k : Nat) (h : k < A.length) :
    (fnOfList (A ++ B)) k = (fnOfList A) k := by
  simp [fnOfList, List.getD_eq_getElem?_getD, List.getElem?_append_left h]

theorem fnOfList_append_right (A B : List Nat) (k : Nat) :
    (fnOfList (A ++ B)) (A.length + k) = (fnOfList B) k := by
  simp [fnOfList, List.getD_eq_getElem?_getD, List.getElem?_append_right]

theorem fnOfList_mem (L : List Nat) (k : Nat) (h : k < L.length) : (fnOfList L) k ∈ L := by
  rw [fnOfList_eq L k h]; exact List.getElem_mem h

theorem mem_setDiff (n : Nat) (S : List Nat) (k : Nat) : k ∈ setDiff n S ↔ k < n ∧ k ∉ S := by
  simp [setDiff]

/-- `S ++ (range n \ S)` is a rearrangement of `range n` -/
theorem permL_perm (n : Nat) (S : List Nat) (hnd : S.Nodup) (hlt : ∀ s, s ∈ S → s < n) :
    (S ++ setDiff n S).Perm (List.range n) := by
  rw [List.perm_ext_iff_of_nodup]
  · intro a
    simp only [List.mem_append, mem_setDiff, List.mem_range]
    constructor
    · rintro (h | h)
      · exact hlt a h
      · exact h.1
    · intro h
      by_cases ha : a ∈ S
      · exact Or.inl ha
      · exact Or.inr ⟨h, ha⟩
  · rw [List.nodup_append]
    refine ⟨hnd, ?_, ?_⟩
    · unfold setDiff; exact List.Nodup.filter _ List.nodup_range
    · intro a ha b hb hab
      subst hab
      exact ((mem_setDiff n S a).1 hb).2 ha
  · exact List.nodup_range

theorem isPermN_of_perm (n : Nat) (L : List Nat) (h : L.Perm (List.range n)) :
    IsPermN n (fnOfList L) := by
  have hlen : L.length = n := by rw [h.length_eq, List.length_range]
  have hnd : L.Nodup := h.nodup_iff.2 List.nodup_range
  constructor
  · intro k hk
    have := fnOfList_mem L k (by omega)
    exact List.mem_range.1 (h.mem_iff.1 this)
  · intro a b ha hb hab
    rw [fnOfList_eq L a (by omega), fnOfList_eq L b (by omega)] at hab
    exact (hnd.getElem_inj_iff).1 hab

/-- everything the proofs need to know about `perm = sys ++ set_diff` -/
theorem permL_facts (n : Nat) (S : List Nat) (hnd : S.Nodup) (hlt : ∀ s, s ∈ S → s < n) :
    ∃ l, n = S.length + l ∧ IsPermN n (fnOfList (S ++ setDiff n S)) ∧
      (∀ k, k < S.length → (fnOfList (S ++ setDiff n S)) k = (fnOfList S) k) ∧
      (∀ k, k < S.length → (fnOfList (S ++ setDiff n S)) k ∈ S) ∧
      (∀ k, k < l → (fnOfList (S ++ setDiff n S)) (S.length + k) ∉ S) := by
  have hperm := permL_perm n S hnd hlt
  have hlen : S.length + (setDiff n S).length = n := by
    rw [← List.length_append, hperm.length_eq, List.length_range]
  refine ⟨(setDiff n S).length, hlen.symm, isPermN_of_perm n _ hperm,
    fun k hk => fnOfList_append_left _ _ k hk, ?_, ?_⟩
  · intro k hk
    rw [fnOfList_append_left _ _ k hk]; exact fnOfList_mem S k hk
  · intro k hk
    rw [fnOfList_append_right]
    exact ((mem_setDiff n S _).1 (fnOfList_mem _ k hk)).2

/-! ### splitting products and codes at a position -/

theorem prodN_split (d : Nat → Nat) (m : Nat) : ∀ l,
    prodN d (m + l) = prodN d m * prodN (fun k => d (m + k)) l
  | 0 => by simp [prodN]
  | l + 1 => by
    show prodN d (m + l) * d (m + l) = _
    rw [prodN_split d m l]; simp only [prodN]; rw [Nat.mul_assoc]

theorem enc_split (d x : Nat → Nat) (m : Nat) : ∀ l,
    enc d x (m + l) = enc d x m * prodN (fun k => d (m + k)) l
      + enc (fun k => d (m + k)) (fun k => x (m + k)) l
  | 0 => by simp [enc, prodN]
  | l + 1 => by
    show enc d x (m + l) * d (m + l) + x (m + l) = _
    rw [enc_split d x m l]; simp only [enc, prodN]
    rw [Nat.add_mul, Nat.mul_assoc, Nat.add_assoc]

theorem prodList_aux (d : Nat → Nat) : ∀ (l : List Nat) (acc : Nat),
    l.foldl (fun acc k => acc * d k) acc = acc * prodN (fun k => d ((fnOfList l) k)) l.length
  | [], acc => by simp [prodN]
  | x :: xs, acc => by
    rw [List.foldl_cons, prodList_aux d xs, List.length_cons, prodN_succ_shift, Nat.mul_assoc]
    congr 1

/-- `np.prod(dim[sys])` is the product over the listed positions -/
theorem prodList_eq (d : Nat → Nat) (l : List Nat) :
    prodList d l = prodN (fun k => d ((fnOfList l) k)) l.length := by
  unfold prodList; rw [prodList_aux, Nat.one_mul]

/-! ### elementary division facts -/

theorem mul_add_div (q d x : Nat) (h : x < d) : (q * d + x) / d = q := by
  have hd : 0 < d := by omega
  rw [Nat.add_comm, Nat.add_mul_div_right _ _ hd, Nat.div_eq_of_lt h, Nat.zero_add]

theorem mul_add_mod (q d x : Nat) (h : x < d) : (q * d + x) % d = x := by
  rw [Nat.add_comm, Nat.add_mul_mod_self_right, Nat.mod_eq_of_lt h]

theorem mul_add_lt (q d x e : Nat) (hx : x < d) (hq : q < e) : q * d + x < e * d := by
  calc q * d + x < q * d + d := by omega
    _ = (q + 1) * d := by rw [Nat.add_mul, Nat.one_mul]
    _ ≤ e * d := Nat.mul_le_mul_right _ hq

/-! ### the reshape / transpose / reshape pipeline -/

/-- the three NumPy steps in the middle of `partial_transpose` -/
def pipeline {α : Type} (a : Nat → Nat → α) (R vr sr vc sc : Nat) : Nat → Nat → α :=
  matOfFlatF ((ND.ofFlatF (matFlatF a R) 4 (fnOfList [vr, sr, vc, sc])).transpose
    (fnOfList [0, 3, 2, 1])).vecF (vr * sc)

theorem partialTranspose_unfold {α : Type} (X : Nat → Nat → α) (n : Nat) (rd cd : Nat → Nat)
    (S : List Nat) :
    partialTranspose X n rd cd S =
      permuteMat
        (pipeline (permuteMat X n (fnOfList (S ++ setDiff n S)) rd cd false false) (prodN rd n)
          (prodN rd n / prodList rd S) (prodList rd S) (prodN cd n / prodList cd S) (prodList cd S))
        n (fnOfList (S ++ setDiff n S))
        (fun k => (fun k => if S.contains k then cd k else rd k) ((fnOfList (S ++ setDiff n S)) k))
        (fun k => (fun k => if S.contains k then rd k else cd k) ((fnOfList (S ++ setDiff n S)) k))
        false true := rfl

/-- the pipeline exchanges the slow (`S`) parts of the row and the column index -/
theorem pipeline_eq {α : Type} (a : Nat → Nat → α) (vr sr vc sc sI vI sJ vJ : Nat)
    (h1 : sI < sc) (h2 : vI < vr) (h3 : sJ < sr) (h4 : vJ < vc) :
    pipeline a (vr * sr) vr sr vc sc (sI * vr + vI) (sJ * vc + vJ) = a (sJ * vr + vI) (sI * vc + vJ) := by
  have hg : sI * vr + vI + vr * sc * (sJ * vc + vJ) = ((sJ * vc + vJ) * sc + sI) * vr + vI := by ring
  have e0 : (sI * vr + vI + vr * sc * (sJ * vc + vJ)) % vr = vI := by
    rw [hg, mul_add_mod _ _ _ h2]
  have e1' : (sI * vr + vI + vr * sc * (sJ * vc + vJ)) / vr = (sJ * vc + vJ) * sc + sI := by
    rw [hg, mul_add_div _ _ _ h2]
  have e1 : (sI * vr + vI + vr * sc * (sJ * vc + vJ)) / vr % sc = sI := by
    rw [e1', mul_add_mod _ _ _ h1]
  have e2' : (sI * vr + vI + vr * sc * (sJ * vc + vJ)) / (vr * sc) = sJ * vc + vJ := by
    rw [← Nat.div_div_eq_div_mul, e1', mul_add_div _ _ _ h1]
  have e2 : (sI * vr + vI + vr * sc * (sJ * vc + vJ)) / (vr * sc) % vc = vJ := by
    rw [e2', mul_add_mod _ _ _ h4]
  have e3 : (sI * vr + vI + vr * sc * (sJ * vc + vJ)) / (vr * sc * vc) % sr = sJ := by
    rw [← Nat.div_div_eq_div_mul, e2', mul_add_div _ _ _ h4, Nat.mod_eq_of_lt h3]
  have hf : vI + sJ * vr + vJ * (vr * sr) + sI * (vr * sr * vc)
      = (sI * vc + vJ) * (vr * sr) + (sJ * vr + vI) := by ring
  have hlt : sJ * vr + vI < vr * sr := by
    rw [Nat.mul_comm vr sr]; exact mul_add_lt _ _ _ _ h2 h3
  unfold pipeline matOfFlatF ND.vecF ND.transpose ND.ofFlatF matFlatF
  simp only [flatF, unflatF, fnOfList, List.getD_eq_getElem?_getD, invPerm, invPerm.go,
    List.length_cons, List.length_nil, zero_add, Nat.reduceAdd, zero_lt_four, getElem?_pos,
    List.getElem_cons_zero, Option.getD_some, ↓reduceIte, prodN, Nat.div_one, mul_one, zero_ne_one,
    Nat.one_lt_ofNat, List.getElem_cons_succ, OfNat.ofNat_ne_one, Nat.reduceLT, Nat.lt_add_one,
    one_mul, OfNat.zero_ne_ofNat, Nat.succ_ne_self]
  rw [e0, e1, e2, e3, hf, mul_add_div _ _ _ hlt, mul_add_mod _ _ _ hlt]

/-! ### permuted codes -/

/-- general split of a permuted code into its `S`-part (first `m` positions) and the rest -/
theorem enc_perm_split (n m l : Nat) (S : List Nat) (p : Nat → Nat)
    (hS : ∀ k, k < m → p k ∈ S) (hR : ∀ k, k < l → p (m + k) ∉ S)
    (hlt : ∀ k, k < m + l → p k < n)
    (d' x' e ex d dx : Nat → Nat)
    (h1 : ∀ k, k ∈ S → d' k = e k ∧ x' k = ex k)
    (h2 : ∀ k, k < n → k ∉ S → d' k = d k ∧ x' k = dx k) :
    enc (fun k => d' (p k)) (fun k => x' (p k)) (m + l)
      = enc (fun k => e (p k)) (fun k => ex (p k)) m * prodN (fun k => d (p (m + k))) l
        + enc (fun k => d (p (m + k))) (fun k => dx (p (m + k))) l := by
  rw [enc_split]
  congr 1
  · congr 1
    · apply enc_congr
      · intro k hk; exact (h1 _ (hS k hk)).1
      · intro k hk; exact (h1 _ (hS k hk)).2
    · apply prodN_congr
      intro k hk; exact (h2 _ (hlt _ (by omega)) (hR k hk)).1
  · apply enc_congr
    · intro k hk; exact (h2 _ (hlt _ (by omega)) (hR k hk)).1
    · intro k hk; exact (h2 _ (hlt _ (by omega)) (hR k hk)).2

/-- the inverse-flag index map with permuted dims reads the digits of `i` at the permuted positions -/
theorem specIndex_inv (n : Nat) (p d : Nat → Nat) (hp : IsPermN n p) (i : Nat) :
    specIndex n (invPerm n p) (fun k => d (p k)) i
      = enc (fun k => d (p k)) (fun k => dec d n i (p k)) n := by
  unfold specIndex
  apply enc_congr _ _ _ _ _ (fun _ _ => rfl)
  intro k hk
  rw [invPerm_invPerm n p hp.lt hp.inj k hk]
  apply dec_congr
  intro m hm
  show d (p (invPerm n p m)) = d m
  rw [perm_invPerm n p hp.lt hp.inj m hm]

/-- the forward index map sends the permuted code of `x` to the code of `x` -/
theorem specIndex_enc (n : Nat) (p d x : Nat → Nat) (hp : IsPermN n p)
    (hx : ∀ k, k < n → x k < d k) :
    specIndex n p d (enc (fun k => d (p k)) (fun k => x (p k)) n) = enc d x n := by
  unfold specIndex
  apply enc_congr _ _ _ _ _ (fun _ _ => rfl)
  intro k hk
  rw [dec_enc (fun k => d (p k)) (fun k => x (p k)) n (fun k hk => hx _ (hp.lt k hk)) _
    (invPerm_lt n p hp.lt hp.inj k hk)]
  show x (p (invPerm n p k)) = x k
  rw [perm_invPerm n p hp.lt hp.inj k hk]

/-! ### the model is the spec -/

theorem permuteMat_inv_eq {α : Type} (Z : Nat → Nat → α) (n : Nat) (p d e : Nat → Nat)
    (hp : IsPermN n p) (i j : Nat) :
    permuteMat Z n p (fun k => d (p k)) (fun k => e (p k)) false true i j
      = Z (enc (fun k => d (p k)) (fun k => dec d n i (p k)) n)
          (enc (fun k => e (p k)) (fun k => dec e n j (p k)) n) := by
  unfold permuteMat permIndex
  rw [permuteVec_true_eq _ n p _ hp.lt hp.inj, permuteVec_true_eq _ n p _ hp.lt hp.inj,
    specIndex_inv n p d hp, specIndex_inv n p e hp]
  rfl

theorem permuteMat_relabel {α : Type} (X : Nat → Nat → α) (n : Nat) (p rd cd x y : Nat → Nat)
    (hp : IsPermN n p) (hx : ∀ k, k < n → x k < rd k) (hy : ∀ k, k < n → y k < cd k) :
    permuteMat X n p rd cd false false (enc (fun k => rd (p k)) (fun k => x (p k)) n)
      (enc (fun k => cd (p k)) (fun k => y (p k)) n) = X (enc rd x n) (enc cd y n) := by
  unfold permuteMat permIndex
  rw [permuteVec_false_eq _ n p _ hp.lt hp.inj, permuteVec_false_eq _ n p _ hp.lt hp.inj,
    specIndex_enc n p rd x hp hx, specIndex_enc n p cd y hp hy]
  rfl

theorem partialTranspose_unfold' {α : Type} (X : Nat → Nat → α) (n : Nat) (rd cd : Nat → Nat)
    (S : List Nat) :
    partialTranspose X n rd cd S =
      permuteMat
        (pipeline (permuteMat X n (fnOfList (S ++ setDiff n S)) rd cd false false) (prodN rd n)
          (prodN rd n / prodList rd S) (prodList rd S) (prodN cd n / prodList cd S) (prodList cd S))
        n (fnOfList (S ++ setDiff n S))
        (fun k => pTRowDims rd cd S ((fnOfList (S ++ setDiff n S)) k))
        (fun k => pTColDims rd cd S ((fnOfList (S ++ setDiff n S)) k))
        false true := by
  rw [partialTranspose_unfold]
  simp only [List.contains_iff_mem, pTRowDims, pTColDims]

theorem pTRowDims_pos (n : Nat) (rd cd : Nat → Nat) (S : List Nat)
    (hr : ∀ k, k < n → 0 < rd k) (hc : ∀ k, k < n → 0 < cd k) (k : Nat) (hk : k < n) :
    0 < pTRowDims rd cd S k := by
  unfold pTRowDims; split
  · exact hc k hk
  · exact hr k hk

theorem pTColDims_pos (n : Nat) (rd cd : Nat → Nat) (S : List Nat)
    (hr : ∀ k, k < n → 0 < rd k) (hc : ∀ k, k < n → 0 < cd k) (k : Nat) (hk : k < n) :
    0 < pTColDims rd cd S k := by
  unfold pTColDims; split
  · exact hr k hk
  · exact hc k hk

/-- sizes computed by the model: `sub_prod` is the product over the first `m` permuted positions and
    `prod_dim / sub_prod` the product over the remaining ones -/
theorem sizes_eq (m l : Nat) (S : List Nat) (p d : Nat → Nat) (hm : S.length = m)
    (hp : IsPermN (m + l) p) (hpS : ∀ k, k < m → p k = (fnOfList S) k)
    (hd : ∀ k, k < m + l → 0 < d k) :
    prodList d S = prodN (fun k => d (p k)) m ∧
    prodN d (m + l) / prodList d S = prodN (fun k => d (p (m + k))) l ∧
    prodN d (m + l) = prodN (fun k => d (p (m + k))) l * prodN (fun k => d (p k)) m := by
  have hs : prodList d S = prodN (fun k => d (p k)) m := by
    rw [prodList_eq, hm]; apply prodN_congr; intro k hk; rw [hpS k hk]
  have hR : prodN d (m + l) = prodN (fun k => d (p k)) m * prodN (fun k => d (p (m + k))) l := by
    rw [← prodN_reindex (m + l) p d hp.lt hp.inj, prodN_split]
  have hpos : 0 < prodN (fun k => d (p k)) m :=
    prodN_pos _ _ (fun k hk => hd _ (hp.lt k (by omega)))
  refine ⟨hs, ?_, ?_⟩
  · rw [hs, hR]; exact Nat.mul_div_cancel_left _ hpos
  · rw [hR, Nat.mul_comm]

theorem partialTranspose_eq_spec {α : Type} (X : Nat → Nat → α) (n : Nat) (rd cd : Nat → Nat)
    (S : List Nat) (hr : ∀ k, k < n → 0 < rd k) (hc : ∀ k, k < n → 0 < cd k) (hnd : S.Nodup)
    (hlt : ∀ s, s ∈ S → s < n) (i j : Nat) :
    partialTranspose X n rd cd S i j = pTSpec X n rd cd S i j := by
  obtain ⟨l, hn, hp, hpS, hS, hR⟩ := permL_facts n S hnd hlt
  rw [partialTranspose_unfold']
  generalize fnOfList (S ++ setDiff n S) = p at *
  generalize hm : S.length = m at *
  subst hn
  obtain ⟨hsr, hvr, hRR⟩ := sizes_eq m l S p rd hm hp hpS hr
  obtain ⟨hsc, hvc, hCC⟩ := sizes_eq m l S p cd hm hp hpS hc
  have hrp := pTRowDims_pos (m + l) rd cd S hr hc
  have hcp := pTColDims_pos (m + l) rd cd S hr hc
  rw [permuteMat_inv_eq _ (m + l) p (pTRowDims rd cd S) (pTColDims rd cd S) hp]
  unfold pTSpec
  -- digits of `i` and `j`
  have hai : ∀ k, k < m + l → dec (pTRowDims rd cd S) (m + l) i k < pTRowDims rd cd S k :=
    fun k hk => dec_lt _ _ _ _ hk (hrp k hk)
  have hbj : ∀ k, k < m + l → dec (pTColDims rd cd S) (m + l) j k < pTColDims rd cd S k :=
    fun k hk => dec_lt _ _ _ _ hk (hcp k hk)
  generalize dec (pTRowDims rd cd S) (m + l) i = ai at *
  generalize dec (pTColDims rd cd S) (m + l) j = bj at *
  rw [enc_perm_split (m + l) m l S p hS hR hp.lt (pTRowDims rd cd S) ai cd ai rd ai
      (fun k hk => ⟨by simp [pTRowDims, hk], rfl⟩) (fun k _ hk => ⟨by simp [pTRowDims, hk], rfl⟩),
    enc_perm_split (m + l) m l S p hS hR hp.lt (pTColDims rd cd S) bj rd bj cd bj
      (fun k hk => ⟨by simp [pTColDims, hk], rfl⟩) (fun k _ hk => ⟨by simp [pTColDims, hk], rfl⟩),
    hvr, hvc, hsr, hsc, hRR]
  rw [pipeline_eq]
  · have ha' : ∀ k, k < m + l → (if k ∈ S then bj k else ai k) < rd k := by
      intro k hk
      have h1 := hai k hk; have h2 := hbj k hk
      unfold pTRowDims at h1; unfold pTColDims at h2
      split
      · next h => simpa [h] using h2
      · next h => simpa [h] using h1
    have hb' : ∀ k, k < m + l → (if k ∈ S then ai k else bj k) < cd k := by
      intro k hk
      have h1 := hai k hk; have h2 := hbj k hk
      unfold pTRowDims at h1; unfold pTColDims at h2
      split
      · next h => simpa [h] using h1
      · next h => simpa [h] using h2
    rw [← permuteMat_relabel X (m + l) p rd cd _ _ hp ha' hb']
    rw [enc_perm_split (m + l) m l S p hS hR hp.lt rd (fun k => if k ∈ S then bj k else ai k) rd bj rd ai
        (fun k hk => ⟨rfl, by simp [hk]⟩) (fun k _ hk => ⟨rfl, by simp [hk]⟩),
      enc_perm_split (m + l) m l S p hS hR hp.lt cd (fun k => if k ∈ S then ai k else bj k) cd ai cd bj
        (fun k hk => ⟨rfl, by simp [hk]⟩) (fun k _ hk => ⟨rfl, by simp [hk]⟩)]
  · exact enc_lt _ _ _ (fun k hk => by
      have := hai _ (hp.lt k (by omega)); simpa [pTRowDims, hS k hk] using this)
  · exact enc_lt _ _ _ (fun k hk => by
      have := hai _ (hp.lt (m + k) (by omega)); simpa [pTRowDims, hR k hk] using this)
  · exact enc_lt _ _ _ (fun k hk => by
      have := hbj _ (hp.lt k (by omega)); simpa [pTColDims, hS k hk] using this)
  · exact enc_lt _ _ _ (fun k hk => by
      have := hbj _ (hp.lt (m + k) (by omega)); simpa [pTColDims, hR k hk] using this)

/-! ### algebraic laws of the spec -/

theorem pTRowDims_flip (rd cd : Nat → Nat) (S : List Nat) :
    pTRowDims (pTRowDims rd cd S) (pTColDims rd cd S) S = rd := by
  funext k; unfold pTRowDims pTColDims; split <;> simp_all

theorem pTColDims_flip (rd cd : Nat → Nat) (S : List Nat) :
    pTColDims (pTRowDims rd cd S) (pTColDims rd cd S) S = cd := by
  funext k; unfold pTRowDims pTColDims; split <;> simp_all

/-- the mixed digit vector is valid for the source dims -/
theorem mix_lt_row (n : Nat) (rd cd : Nat → Nat) (S : List Nat) (a b : Nat → Nat)
    (ha : ∀ k, k < n → a k < pTRowDims rd cd S k) (hb : ∀ k, k < n → b k < pTColDims rd cd S k)
    (k : Nat) (hk : k < n) : (if k ∈ S then b k else a k) < rd k := by
  have h1 := ha k hk; have h2 := hb k hk
  unfold pTRowDims at h1; unfold pTColDims at h2
  split
  · next h => simpa [h] using h2
  · next h => simpa [h] using h1

theorem mix_lt_col (n : Nat) (rd cd : Nat → Nat) (S : List Nat) (a b : Nat → Nat)
    (ha : ∀ k, k < n → a k < pTRowDims rd cd S k) (hb : ∀ k, k < n → b k < pTColDims rd cd S k)
    (k : Nat) (hk : k < n) : (if k ∈ S then a k else b k) < cd k := by
  have h1 := ha k hk; have h2 := hb k hk
  unfold pTRowDims at h1; unfold pTColDims at h2
  split
  · next h => simpa [h] using h1
  · next h => simpa [h] using h2

theorem pTSpec_def {α : Type} (X : Nat → Nat → α) (n : Nat) (rd cd : Nat → Nat) (S : List Nat)
    (i j : Nat) :
    pTSpec X n rd cd S i j =
      X (enc rd (fun k => if k ∈ S then dec (pTColDims rd cd S) n j k
                          else dec (pTRowDims rd cd S) n i k) n)
        (enc cd (fun k => if k ∈ S then dec (pTRowDims rd cd S) n i k
                          else dec (pTColDims rd cd S) n j k) n) := rfl

/-- digit form of the spec -/
theorem pTSpec_enc {α : Type} (X : Nat → Nat → α) (n : Nat) (rd cd : Nat → Nat) (S : List Nat)
    (a b : Nat → Nat)
    (ha : ∀ k, k < n → a k < pTRowDims rd cd S k) (hb : ∀ k, k < n → b k < pTColDims rd cd S k) :
    pTSpec X n rd cd S (enc (pTRowDims rd cd S) a n) (enc (pTColDims rd cd S) b n)
      = X (enc rd (fun k => if k ∈ S then b k else a k) n)
          (enc cd (fun k => if k ∈ S then a k else b k) n) := by
  unfold pTSpec
  congr 1
  · apply enc_congr _ _ _ _ _ (fun _ _ => rfl)
    intro k hk
    show (if k ∈ S then _ else _) = _
    rw [dec_enc _ a n ha k hk, dec_enc _ b n hb k hk]
  · apply enc_congr _ _ _ _ _ (fun _ _ => rfl)
    intro k hk
    show (if k ∈ S then _ else _) = _
    rw [dec_enc _ a n ha k hk, dec_enc _ b n hb k hk]

theorem pTSpec_involutive {α : Type} (X : Nat → Nat → α) (n : Nat) (rd cd : Nat → Nat) (S : List Nat)
    (hr : ∀ k, k < n → 0 < rd k) (hc : ∀ k, k < n → 0 < cd k) (i j : Nat)
    (hi : i < prodN rd n) (hj : j < prodN cd n) :
    pTSpec (pTSpec X n rd cd S) n (pTRowDims rd cd S) (pTColDims rd cd S) S i j = X i j := by
  have hai : ∀ k, k < n → dec rd n i k < rd k := fun k hk => dec_lt _ _ _ _ hk (hr k hk)
  have hbj : ∀ k, k < n → dec cd n j k < cd k := fun k hk => dec_lt _ _ _ _ hk (hc k hk)
  rw [pTSpec_def (pTSpec X n rd cd S)]
  rw [pTRowDims_flip, pTColDims_flip]
  rw [pTSpec_enc]
  · congr 1
    · rw [← enc_dec rd n i hi]
      apply enc_congr _ _ _ _ _ (fun _ _ => rfl)
      intro k hk
      rw [enc_dec rd n i hi]
      show (if k ∈ S then (if k ∈ S then _ else _) else (if k ∈ S then _ else _)) = _
      split <;> rfl
    · rw [← enc_dec cd n j hj]
      apply enc_congr _ _ _ _ _ (fun _ _ => rfl)
      intro k hk
      rw [enc_dec cd n j hj]
      show (if k ∈ S then (if k ∈ S then _ else _) else (if k ∈ S then _ else _)) = _
      split <;> rfl
  · intro k hk
    show (if k ∈ S then _ else _) < pTRowDims rd cd S k
    unfold pTRowDims; split
    · exact hbj k hk
    · exact hai k hk
  · intro k hk
    show (if k ∈ S then _ else _) < pTColDims rd cd S k
    unfold pTColDims; split
    · exact hai k hk
    · exact hbj k hk

theorem pTSpec_all {α : Type} (X : Nat → Nat → α) (n : Nat) (rd cd : Nat → Nat) (S : List Nat)
    (hS : ∀ k, k < n → k ∈ S) (i j : Nat) (hi : i < prodN cd n) (hj : j < prodN rd n) :
    pTSpec X n rd cd S i j = X j i := by
  have e1 : ∀ m, m < n → pTRowDims rd cd S m = cd m := fun m hm => by simp [pTRowDims, hS m hm]
  have e2 : ∀ m, m < n → pTColDims rd cd S m = rd m := fun m hm => by simp [pTColDims, hS m hm]
  unfold pTSpec
  congr 1
  · rw [← enc_dec rd n j hj]
    apply enc_congr _ _ _ _ _ (fun _ _ => rfl)
    intro k hk
    rw [enc_dec rd n j hj]
    show (if k ∈ S then _ else _) = _
    rw [if_pos (hS k hk)]
    exact dec_congr _ _ _ _ _ e2
  · rw [← enc_dec cd n i hi]
    apply enc_congr _ _ _ _ _ (fun _ _ => rfl)
    intro k hk
    rw [enc_dec cd n i hi]
    show (if k ∈ S then _ else _) = _
    rw [if_pos (hS k hk)]
    exact dec_congr _ _ _ _ _ e1

theorem pTSpec_compl {α : Type} (X : Nat → Nat → α) (n : Nat) (rd cd : Nat → Nat) (S T : List Nat)
    (hT : ∀ k, k < n → (k ∈ T ↔ k ∉ S)) (i j : Nat) :
    pTSpec X n rd cd T i j = pTSpec X n rd cd S j i := by
  have e1 : ∀ m, m < n → pTRowDims rd cd T m = pTColDims rd cd S m := fun m hm => by
    unfold pTRowDims pTColDims
    by_cases h : m ∈ S
    · rw [if_neg (fun h' => (hT m hm).1 h' h), if_pos h]
    · rw [if_pos ((hT m hm).2 h), if_neg h]
  have e2 : ∀ m, m < n → pTColDims rd cd T m = pTRowDims rd cd S m := fun m hm => by
    unfold pTRowDims pTColDims
    by_cases h : m ∈ S
    · rw [if_neg (fun h' => (hT m hm).1 h' h), if_pos h]
    · rw [if_pos ((hT m hm).2 h), if_neg h]
  unfold pTSpec
  congr 1
  · apply enc_congr _ _ _ _ _ (fun _ _ => rfl)
    intro k hk
    show (if k ∈ T then _ else _) = (if k ∈ S then _ else _)
    by_cases h : k ∈ S
    · rw [if_neg (fun h' => (hT k hk).1 h' h), if_pos h]; exact dec_congr _ _ _ _ _ e1
    · rw [if_pos ((hT k hk).2 h), if_neg h]; exact dec_congr _ _ _ _ _ e2
  · apply enc_congr _ _ _ _ _ (fun _ _ => rfl)
    intro k hk
    show (if k ∈ T then _ else _) = (if k ∈ S then _ else _)
    by_cases h : k ∈ S
    · rw [if_neg (fun h' => (hT k hk).1 h' h), if_pos h]; exact dec_congr _ _ _ _ _ e2
    · rw [if_pos ((hT k hk).2 h), if_neg h]; exact dec_congr _ _ _ _ _ e1

theorem pTSpec_kron {α : Type} [Mul α] [One α] (n : Nat) (A : Nat → Nat → Nat → α) (rd cd : Nat → Nat)
    (S : List Nat) (hr : ∀ k, k < n → 0 < rd k) (hc : ∀ k, k < n → 0 < cd k) (i j : Nat) :
    pTSpec (kronMat n A rd cd) n rd cd S i j
      = kronMat n (fun k => if k ∈ S then transposeM (A k) else A k)
          (pTRowDims rd cd S) (pTColDims rd cd S) i j := by
  have hai : ∀ k, k < n → dec (pTRowDims rd cd S) n i k < pTRowDims rd cd S k :=
    fun k hk => dec_lt _ _ _ _ hk (pTRowDims_pos n rd cd S hr hc k hk)
  have hbj : ∀ k, k < n → dec (pTColDims rd cd S) n j k < pTColDims rd cd S k :=
    fun k hk => dec_lt _ _ _ _ hk (pTColDims_pos n rd cd S hr hc k hk)
  unfold pTSpec kronMat
  apply prodFn_congr
  intro k hk
  show A k (dec rd n (enc rd _ n) k) (dec cd n (enc cd _ n) k) = _
  rw [dec_enc rd _ n (mix_lt_row n rd cd S _ _ hai hbj) k hk,
    dec_enc cd _ n (mix_lt_col n rd cd S _ _ hai hbj) k hk]
  by_cases h : k ∈ S
  · simp only [if_pos h]; rfl
  · simp only [if_neg h]

/-- the spec reads `X` only inside its bounds -/
theorem pTSpec_src_lt (n : Nat) (rd cd : Nat → Nat) (S : List Nat)
    (hr : ∀ k, k < n → 0 < rd k) (hc : ∀ k, k < n → 0 < cd k) (i j : Nat) :
    enc rd (fun k => if k ∈ S then dec (pTColDims rd cd S) n j k
                     else dec (pTRowDims rd cd S) n i k) n < prodN rd n ∧
    enc cd (fun k => if k ∈ S then dec (pTRowDims rd cd S) n i k
                     else dec (pTColDims rd cd S) n j k) n < prodN cd n := by
  have hai : ∀ k, k < n → dec (pTRowDims rd cd S) n i k < pTRowDims rd cd S k :=
    fun k hk => dec_lt _ _ _ _ hk (pTRowDims_pos n rd cd S hr hc k hk)
  have hbj : ∀ k, k < n → dec (pTColDims rd cd S) n j k < pTColDims rd cd S k :=
    fun k hk => dec_lt _ _ _ _ hk (pTColDims_pos n rd cd S hr hc k hk)
  exact ⟨enc_lt _ _ _ (mix_lt_row n rd cd S _ _ hai hbj), enc_lt _ _ _ (mix_lt_col n rd cd S _ _ hai hbj)⟩

/-! ### realignment -/

theorem specIndex_swap2 (d0 d1 i : Nat) :
    specIndex 2 (swapPerm 0 1) (fnOfList [d0, d1]) i = (i % d0) * d1 + (i / d0) % d1 := by
  simp [specIndex, enc, dec, invPerm, invPerm.go, swapPerm, fnOfList]

theorem pTSpec_two_zero {α : Type} (x : Nat → Nat → α) (a0 a1 b0 b1 I J : Nat) :
    pTSpec x 2 (fnOfList [a0, a1]) (fnOfList [b0, b1]) [0] I J
      = x (((J / b1) % a0) * a1 + I % a1) (((I / a1) % b0) * b1 + J % b1) := by
  simp [pTSpec, enc, dec, fnOfList, pTRowDims, pTColDims]

theorem rowSwap2_eq {α : Type} (X : Nat → Nat → α) (d0 d1 e0 e1 i j : Nat) :
    permuteMat X 2 (swapPerm 0 1) (fnOfList [d0, d1]) (fnOfList [e0, e1]) true false i j
      = X ((i % d0) * d1 + (i / d0) % d1) j := by
  have hp := swapPerm_isPerm 2 0 1 (by omega) (by omega)
  unfold permuteMat permIndex
  rw [permuteVec_false_eq _ 2 _ _ hp.lt hp.inj, specIndex_swap2]
  rfl

theorem pos_two (a b : Nat) (ha : 0 < a) (hb : 0 < b) : ∀ k, k < 2 → 0 < (fnOfList [a, b]) k := by
  intro k hk
  have : k = 0 ∨ k = 1 := by omega
  rcases this with rfl | rfl <;> simpa [fnOfList]

theorem realignment_eq_spec {α : Type} (X : Nat → Nat → α) (r0 r1 c0 c1 : Nat)
    (hr0 : 0 < r0) (hr1 : 0 < r1) (hc0 : 0 < c0) (hc1 : 0 < c1) (i j : Nat)
    (hi : i < r0 * c0) (hj : j < r1 * c1) :
    realignment X r0 r1 c0 c1 i j = realignSpec X r1 c0 c1 i j := by
  unfold realignment
  rw [rowSwap2_eq,
    partialTranspose_eq_spec _ 2 _ _ [0] (pos_two _ _ hr1 hr0) (pos_two _ _ hc0 hc1) (by simp)
      (by simp),
    pTSpec_two_zero, rowSwap2_eq]
  unfold realignSpec
  have h1 : i / c0 < r0 := (Nat.div_lt_iff_lt_mul hc0).2 hi
  have h2 : j / c1 < r1 := (Nat.div_lt_iff_lt_mul hc1).2 hj
  have h3 : i % c0 < c0 := Nat.mod_lt _ hc0
  rw [Nat.mod_eq_of_lt h1, mul_add_div _ _ _ h1, mul_add_mod _ _ _ h1, Nat.mod_eq_of_lt h2,
    Nat.mod_eq_of_lt h3]
  rw [mul_add_mod _ _ _ h1, mul_add_div _ _ _ h1, Nat.mod_eq_of_lt h2]

/-- the realignment index map: range and left inverse (the inverse is the same map with the roles
    of `r1` and `c0` exchanged) -/
theorem realign_idx (r0 r1 c0 c1 i j : Nat) (hc0 : 0 < c0) (hc1 : 0 < c1)
    (hi : i < r0 * c0) (hj : j < r1 * c1) :
    realignRow r1 c0 c1 i j < r0 * r1 ∧ realignCol c0 c1 i j < c0 * c1 ∧
    realignRow c0 r1 c1 (realignRow r1 c0 c1 i j) (realignCol c0 c1 i j) = i ∧
    realignCol r1 c1 (realignRow r1 c0 c1 i j) (realignCol c0 c1 i j) = j := by
  have h1 : i / c0 < r0 := (Nat.div_lt_iff_lt_mul hc0).2 hi
  have h2 : j / c1 < r1 := (Nat.div_lt_iff_lt_mul hc1).2 hj
  have h3 : i % c0 < c0 := Nat.mod_lt _ hc0
  have h4 : j % c1 < c1 := Nat.mod_lt _ hc1
  unfold realignRow realignCol
  refine ⟨mul_add_lt _ _ _ _ h2 h1, mul_add_lt _ _ _ _ h4 h3, ?_, ?_⟩
  · rw [mul_add_div _ _ _ h2, mul_add_div _ _ _ h4]; exact Nat.div_add_mod' i c0
  · rw [mul_add_mod _ _ _ h2, mul_add_mod _ _ _ h4]; exact Nat.div_add_mod' j c1

theorem realignRowInv_eq (r1 c0 c1 I J : Nat) : realignRowInv r1 c0 c1 I J = realignRow c0 r1 c1 I J := rfl
theorem realignColInv_eq (r1 c1 I J : Nat) : realignColInv r1 c1 I J = realignCol r1 c1 I J := rfl

theorem sumN_eq_finset {β : Type} [AddCommMonoid β] (f : Nat → β) :
    ∀ n, sumN n f = ∑ i ∈ Finset.range n, f i
  | 0 => by simp [sumN]
  | n + 1 => by rw [Finset.sum_range_succ, ← sumN_eq_finset f n]; rfl

/-- reindexing a double sum along the realignment bijection -/
theorem sumN_realign {β : Type} [AddCommMonoid β] (g : Nat → Nat → β) (r0 r1 c0 c1 : Nat)
    (hr1 : 0 < r1) (hc0 : 0 < c0) (hc1 : 0 < c1) :
    sumN (r0 * c0) (fun i => sumN (r1 * c1) (fun j => g (realignRow r1 c0 c1 i j) (realignCol c0 c1 i j)))
      = sumN (r0 * r1) (fun I => sumN (c0 * c1) (fun J => g I J)) := by
  simp only [sumN_eq_finset]
  rw [← Finset.sum_product', ← Finset.sum_product']
  apply Finset.sum_nbij' (fun p => (realignRow r1 c0 c1 p.1 p.2, realignCol c0 c1 p.1 p.2))
    (fun q => (realignRow c0 r1 c1 q.1 q.2, realignCol r1 c1 q.1 q.2))
  · rintro ⟨i, j⟩ h
    simp only [Finset.mem_product, Finset.mem_range] at h ⊢
    obtain ⟨a, b, _, _⟩ := realign_idx r0 r1 c0 c1 i j hc0 hc1 h.1 h.2
    exact ⟨a, b⟩
  · rintro ⟨I, J⟩ h
    simp only [Finset.mem_product, Finset.mem_range] at h ⊢
    obtain ⟨a, b, _, _⟩ := realign_idx r0 c0 r1 c1 I J hr1 hc1 h.1 h.2
    exact ⟨a, b⟩
  · rintro ⟨i, j⟩ h
    simp only [Finset.mem_product, Finset.mem_range] at h
    obtain ⟨_, _, a, b⟩ := realign_idx r0 r1 c0 c1 i j hc0 hc1 h.1 h.2
    simp only [a, b]
  · rintro ⟨I, J⟩ h
    simp only [Finset.mem_product, Finset.mem_range] at h
    obtain ⟨_, _, a, b⟩ := realign_idx r0 c0 r1 c1 I J hr1 hc1 h.1 h.2
    simp only [a, b]
  · rintro ⟨i, j⟩ _; rfl
end Toq.PartialOps
