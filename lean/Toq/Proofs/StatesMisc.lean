import Toq.Proofs.StatesMore
import Mathlib.Tactic.IntervalCases
import Mathlib.Algebra.Ring.Hom.Defs
import Mathlib.Algebra.GroupWithZero.Units.Lemmas
import Mathlib.Data.Nat.Prime.Basic
/-!
# Helper lemmas for C17: `gisin`, `pusey_barrett_rudolph`, `breuer`, `brauer`, `chessboard`, the prime test of
`mutually_unbiased_basis`
-/
open Toq.Matrices Toq.Spec17

namespace Toq.States

/-! ### gisin -/
section gisin
variable {α : Type} [Field α]

theorem gisin_entry (lam s c : α) (h2 : (2 : α) ≠ 0) (i j : Nat) (hi : i < 4) (hj : j < 4) :
    gisin lam s c i j = lam * (gisinPsi s c i * gisinPsi s c j)
      + (1 - lam) * (if i = j ∧ (i = 0 ∨ i = 3) then 1 else 0) / 2 := by
  interval_cases i <;> interval_cases j <;> simp [gisin, gisinPsi] <;> field_simp

theorem gisin_trace (lam s c : α) (h2 : (2 : α) ≠ 0) (h : c * c + s * s = 1) : trace 4 (gisin lam s c) = 1 := by
  simp only [trace, sumN]
  rw [gisin_entry lam s c h2 0 0 (by omega) (by omega), gisin_entry lam s c h2 1 1 (by omega) (by omega),
    gisin_entry lam s c h2 2 2 (by omega) (by omega), gisin_entry lam s c h2 3 3 (by omega) (by omega)]
  simp [gisinPsi]
  field_simp
  linear_combination (2 * lam) * h

end gisin

section gisin_ord
variable {α : Type} [Field α] [LinearOrder α] [IsStrictOrderedRing α]

theorem gisin_quadForm (lam s c : α) (v : Nat → α) :
    quadForm 4 (gisin lam s c) v
      = lam * ((s * v 1 - c * v 2) * (s * v 1 - c * v 2)) + (1 - lam) / 2 * (v 0 * v 0 + v 3 * v 3) := by
  have h2 : (2 : α) ≠ 0 := two_ne_zero
  simp only [quadForm, sumN]
  rw [gisin_entry lam s c h2 0 0 (by omega) (by omega), gisin_entry lam s c h2 0 1 (by omega) (by omega),
    gisin_entry lam s c h2 0 2 (by omega) (by omega), gisin_entry lam s c h2 0 3 (by omega) (by omega),
    gisin_entry lam s c h2 1 0 (by omega) (by omega), gisin_entry lam s c h2 1 1 (by omega) (by omega),
    gisin_entry lam s c h2 1 2 (by omega) (by omega), gisin_entry lam s c h2 1 3 (by omega) (by omega),
    gisin_entry lam s c h2 2 0 (by omega) (by omega), gisin_entry lam s c h2 2 1 (by omega) (by omega),
    gisin_entry lam s c h2 2 2 (by omega) (by omega), gisin_entry lam s c h2 2 3 (by omega) (by omega),
    gisin_entry lam s c h2 3 0 (by omega) (by omega), gisin_entry lam s c h2 3 1 (by omega) (by omega),
    gisin_entry lam s c h2 3 2 (by omega) (by omega), gisin_entry lam s c h2 3 3 (by omega) (by omega)]
  simp [gisinPsi]
  ring

theorem gisin_psd_aux (lam s c : α) (h0 : 0 ≤ lam) (h1 : lam ≤ 1) : PSD 4 (gisin lam s c) := by
  intro v
  rw [gisin_quadForm]
  have a1 := mul_nonneg h0 (mul_self_nonneg (s * v 1 - c * v 2))
  have a2 : 0 ≤ (1 - lam) / 2 * (v 0 * v 0 + v 3 * v 3) :=
    mul_nonneg (div_nonneg (by linarith) (by norm_num)) (add_nonneg (mul_self_nonneg _) (mul_self_nonneg _))
  linarith
end gisin_ord

section pbr
variable {α : Type} [CommRing α]

theorem pbrAmp_gram (c s : α) (b b' : Nat) (hb : b < 2) (hb' : b' < 2) :
    sumN 2 (fun x => pbrAmp c s b x * pbrAmp c s b' x) = if b = b' then c * c + s * s else c * c - s * s := by
  simp only [sumN, pbrAmp]
  interval_cases b <;> interval_cases b' <;> simp <;> ring

/-- the Gram matrix of the PBR states factorises over the qubits -/
theorem pbr_gram_aux (c s : α) : ∀ n t t', inner (2 ^ n) (pbrVec c s n t) (pbrVec c s n t') = pbrGram c s n t t'
  | 0, _, _ => by simp [inner, sumN, pbrVec, pbrGram]
  | n + 1, t, t' => by
    unfold inner
    rw [Nat.pow_succ, sumN_flat 2 _ (2 ^ n)]
    rw [sumN_congr _ (fun i => (pbrVec c s n (t / 2) i * pbrVec c s n (t' / 2) i)
        * sumN 2 (fun x => pbrAmp c s (t % 2) x * pbrAmp c s (t' % 2) x)) (2 ^ n) (fun i _ => by
      rw [← sumN_mul_left]
      apply sumN_congr
      intro j hj
      show pbrVec c s n (t / 2) ((i * 2 + j) / 2) * pbrAmp c s (t % 2) ((i * 2 + j) % 2)
        * (pbrVec c s n (t' / 2) ((i * 2 + j) / 2) * pbrAmp c s (t' % 2) ((i * 2 + j) % 2)) = _
      rw [flat_div 2 i j hj, flat_mod 2 i j hj]; ring)]
    rw [sumN_mul_right, pbrAmp_gram c s _ _ (Nat.mod_lt _ (by omega)) (Nat.mod_lt _ (by omega))]
    have ih := pbr_gram_aux c s n (t / 2) (t' / 2)
    unfold inner at ih
    rw [ih]
    rfl

/-- with `c² + s² = 1` the Gram entry is `(c² - s²)^{Hamming distance}` -/
theorem pbrGram_pow (c s : α) (h : c * c + s * s = 1) : ∀ n t t',
    pbrGram c s n t t' = (c * c - s * s) ^ popcount n (t ^^^ t')
  | 0, _, _ => by simp [pbrGram, popcount, sumN]
  | n + 1, t, t' => by
    show pbrGram c s n (t / 2) (t' / 2) * _ = _
    rw [pbrGram_pow c s h n, popcount_succ_low, Nat.xor_div_two, h, Nat.add_comm, pow_add]
    congr 1
    have hx : (t ^^^ t') % 2 = if t % 2 = t' % 2 then 0 else 1 := by
      have key := @Nat.xor_mod_two_eq_one t t'
      rcases Nat.mod_two_eq_zero_or_one (t ^^^ t') with h0 | h0 <;>
        rcases Nat.mod_two_eq_zero_or_one t with h1 | h1 <;> rcases Nat.mod_two_eq_zero_or_one t' with h2 | h2 <;>
        simp_all
    rw [hx]
    by_cases hh : t % 2 = t' % 2
    · rw [if_pos hh, if_pos hh, pow_zero]
    · rw [if_neg hh, if_neg hh, pow_one]
end pbr

/-! ### breuer -/

theorem breuerPsi_flat (d i j : Nat) (hj : j < d) :
    breuerPsi d (i * d + j) = if j + i + 1 = d then (if j % 2 = 0 then -1 else 1) else 0 := by
  unfold breuerPsi
  rw [flat_div d i j hj, flat_mod d i j hj]

/-- mirror (`kron(I, V) @ max_entangled`) = closed form -/
theorem breuerPsiMirror_eq_aux (d r : Nat) (hr : r < d * d) : breuerPsiMirror d r = breuerPsi d r := by
  have hd := pos_of_lt_sq d r hr
  have hrd := div_lt_of_lt_sq d r hr
  unfold breuerPsiMirror
  rw [sumN_single (d * d) (r / d * d + r / d) (flat_lt d _ _ hrd hrd)]
  · unfold kron matId breuerV
    rw [flat_div d _ _ hrd, flat_mod d _ _ hrd, if_pos rfl, maxEntS_flat d _ _ hrd hrd, if_pos rfl, one_mul, mul_one]
    unfold breuerPsi
    generalize r % d = a
    generalize r / d = b
    by_cases h : a + b + 1 = d
    · rw [if_pos h, if_pos h]
      rcases Nat.mod_two_eq_zero_or_one a with h2 | h2
      · rw [if_pos h2, if_neg (show ¬ (a + 1) % 2 = 0 by omega)]
      · rw [if_neg (show ¬ a % 2 = 0 by omega), if_pos (show (a + 1) % 2 = 0 by omega)]
    · rw [if_neg h, if_neg h]
  · intro c hc hne
    have hcd := div_lt_of_lt_sq d c hc
    have hcm := Nat.mod_lt c hd
    unfold kron matId
    by_cases h1 : r / d = c / d
    · have h2 : c / d ≠ c % d := by
        intro h2
        apply hne
        calc c = c / d * d + c % d := (Nat.div_add_mod' c d).symm
          _ = r / d * d + r / d := by rw [← h2, ← h1]
      have : maxEntS d c = 0 := by
        rw [← Nat.div_add_mod' c d, maxEntS_flat d _ _ hcd hcm, if_neg h2]
      rw [this, mul_zero]
    · rw [if_neg h1, zero_mul, zero_mul]

theorem breuerPsi_norm (d : Nat) : sumN (d * d) (fun r => breuerPsi d r * breuerPsi d r) = (d : Int) := by
  rw [sumN_flat d _ d]
  rw [sumN_congr _ (fun _ => (1 : Int)) d (fun i hi => by
    rw [sumN_single d (d - 1 - i) (by omega)]
    · rw [breuerPsi_flat d i _ (by omega), if_pos (by omega)]
      split <;> rfl
    · intro j hj hne
      rw [breuerPsi_flat d i j hj, if_neg (by omega), mul_zero])]
  rw [sumN_const, mul_one]

/-- for even `d` the vector `ψ` is antisymmetric under the exchange of the two parties -/
theorem breuerPsi_antisym (d r : Nat) (hd : d % 2 = 0) (hr : r < d * d) :
    breuerPsi d (swapIdx d r) = -breuerPsi d r := by
  have hd0 := pos_of_lt_sq d r hr
  have hrd := div_lt_of_lt_sq d r hr
  unfold swapIdx
  rw [breuerPsi_flat d _ _ hrd]
  unfold breuerPsi
  generalize r % d = a
  generalize r / d = b
  by_cases h : a + b + 1 = d
  · rw [if_pos (show b + a + 1 = d by omega), if_pos h]
    rcases Nat.mod_two_eq_zero_or_one a with h2 | h2
    · rw [if_pos h2, if_neg (show ¬ b % 2 = 0 by omega)]; rfl
    · rw [if_neg (show ¬ a % 2 = 0 by omega), if_pos (show b % 2 = 0 by omega)]
  · rw [if_neg (show ¬ b + a + 1 = d by omega), if_neg h]; rfl

section breuer_field
variable {α : Type} [Field α]

theorem breuer_entry (d : Nat) (lam : α) (h2 : (2 : α) ≠ 0) (r c : Nat) :
    breuer d (breuerPsi d) lam r c
      = ((1 - lam) / ((d : α) * ((d : α) + 1))) * delta r c + ((1 - lam) / ((d : α) * ((d : α) + 1))) * swapOp d r c
        + (lam / (d : α)) * (((breuerPsi d r : Int) : α) * ((breuerPsi d c : Int) : α)) := by
  unfold breuer
  push_cast
  field_simp
  ring

theorem breuer_trace (d : Nat) (lam : α) (h2 : (2 : α) ≠ 0) (hd : (d : α) ≠ 0) (hd1 : (d : α) + 1 ≠ 0) :
    trace (d * d) (breuer d (breuerPsi d) lam) = 1 := by
  unfold trace
  rw [sumN_congr _ _ (d * d) (fun r _ => breuer_entry d lam h2 r r)]
  rw [sumN_add, sumN_add, sumN_mul_left, sumN_mul_left, sumN_mul_left]
  have h1 := trace_delta (α := α) (d * d)
  have h3 := trace_swap (α := α) d
  unfold trace at h1 h3
  rw [h1, h3]
  have hn : sumN (d * d) (fun k => ((breuerPsi d k : Int) : α) * ((breuerPsi d k : Int) : α)) = (d : α) := by
    have := congrArg (fun z : Int => (z : α)) (breuerPsi_norm d)
    simp only [sumN_eq_finset] at this ⊢
    push_cast at this
    exact this
  rw [hn]
  push_cast
  field_simp
  ring
end breuer_field

section breuer_ord
variable {α : Type} [Field α] [LinearOrder α] [IsStrictOrderedRing α]

omit [LinearOrder α] [IsStrictOrderedRing α] in
theorem quadForm_add (N : Nat) (A B : Nat → Nat → α) (v : Nat → α) :
    quadForm N (fun r c => A r c + B r c) v = quadForm N A v + quadForm N B v := by
  unfold quadForm
  rw [← sumN_add]
  apply sumN_congr; intro r _
  rw [← sumN_add]
  apply sumN_congr; intro c _
  ring

theorem breuer_psd_aux (d : Nat) (hd : 0 < d) (lam : α) (h0 : 0 ≤ lam) (h1 : lam ≤ 1) :
    PSD (d * d) (breuer d (breuerPsi d) lam) := by
  intro v
  have hdp : (0 : α) < (d : α) := by exact_mod_cast hd
  have e : quadForm (d * d) (breuer d (breuerPsi d) lam) v
      = quadForm (d * d) (fun r c =>
          (((1 - lam) / ((d : α) * ((d : α) + 1))) * delta r c + ((1 - lam) / ((d : α) * ((d : α) + 1))) * swapOp d r c)
          + ((0 : α) * delta r c + (lam / (d : α)) * (((breuerPsi d r : Int) : α) * ((breuerPsi d c : Int) : α)))) v := by
    unfold quadForm
    apply sumN_congr; intro r _
    apply sumN_congr; intro c _
    rw [breuer_entry d lam two_ne_zero]; ring
  rw [e, quadForm_add, quadForm_swap, quadForm_rank_one]
  obtain ⟨b1, _⟩ := swap_form_bounds d v
  have hx : 0 ≤ (1 - lam) / ((d : α) * ((d : α) + 1)) :=
    div_nonneg (by linarith) (mul_nonneg hdp.le (by linarith))
  have t1 : 0 ≤ (1 - lam) / ((d : α) * ((d : α) + 1)) * sumN (d * d) (fun m => v m * v m)
      + (1 - lam) / ((d : α) * ((d : α) + 1)) * sumN (d * d) (fun m => v m * v (swapIdx d m)) := by
    rw [← mul_add]; exact mul_nonneg hx b1
  have t2 : 0 ≤ lam / (d : α) * (sumN (d * d) (fun m => v m * ((breuerPsi d m : Int) : α))
      * sumN (d * d) (fun m => v m * ((breuerPsi d m : Int) : α))) :=
    mul_nonneg (div_nonneg h0 hdp.le) (mul_self_nonneg _)
  linarith
end breuer_ord

/-! ### brauer -/

/-- closed form of the `p`-fold tensor power of `Σ_i |ii⟩` on a basis state `|x_0 … x_{2p-1}⟩` -/
theorem brauerPhi_enc (d : Nat) (x : Nat → Nat) : ∀ p, (∀ k, k < 2 * p → x k < d) →
    brauerPhi d p (enc (fun _ => d) x (2 * p)) = if ∀ k, k < p → x (2 * k) = x (2 * k + 1) then 1 else 0
  | 0, _ => by simp [brauerPhi]
  | p + 1, hx => by
    have h1 := hx (2 * p) (by omega)
    have h2 := hx (2 * p + 1) (by omega)
    have e : enc (fun _ => d) x (2 * (p + 1)) = enc (fun _ => d) x (2 * p) * (d * d) + (x (2 * p) * d + x (2 * p + 1)) := by
      show (enc (fun _ => d) x (2 * p) * d + x (2 * p)) * d + x (2 * p + 1) = _
      ring
    have hlt : x (2 * p) * d + x (2 * p + 1) < d * d := flat_lt d _ _ h1 h2
    show brauerPhi d p (enc (fun _ => d) x (2 * (p + 1)) / (d * d)) * maxEntS d (enc (fun _ => d) x (2 * (p + 1)) % (d * d)) = _
    rw [e, flat_div (d * d) _ _ hlt, flat_mod (d * d) _ _ hlt, maxEntS_flat d _ _ h1 h2,
      brauerPhi_enc d x p (fun k hk => hx k (by omega))]
    have hiff : (∀ k, k < p + 1 → x (2 * k) = x (2 * k + 1))
        ↔ ((∀ k, k < p → x (2 * k) = x (2 * k + 1)) ∧ x (2 * p) = x (2 * p + 1)) := by
      constructor
      · intro h; exact ⟨fun k hk => h k (by omega), h p (by omega)⟩
      · rintro ⟨ha, hb⟩ k hk
        by_cases hkp : k < p
        · exact ha k hkp
        · have : k = p := by omega
          subst this; exact hb
    by_cases ha : ∀ k, k < p → x (2 * k) = x (2 * k + 1)
    · by_cases hb : x (2 * p) = x (2 * p + 1)
      · rw [if_pos ha, if_pos hb, if_pos (hiff.mpr ⟨ha, hb⟩)]; rfl
      · rw [if_pos ha, if_neg hb, if_neg (fun hh => hb (hiff.mp hh).2)]; rfl
    · rw [if_neg ha, if_neg (fun hh => ha (hiff.mp hh).1), zero_mul]

/-- **column of `brauer` for any permutation `σ` of the `2p` parties**: the amplitude of `|y_0 … y_{2p-1}⟩` is `1` iff
    `y_{σ⁻¹(2k)} = y_{σ⁻¹(2k+1)}` for every pair `k`, else `0` -/
theorem brauerCol_eq (d p : Nat) (hd : 0 < d) (mt : List Nat)
    (hlt : ∀ k, k < 2 * p → (fnOfList mt) k < 2 * p)
    (hinj : ∀ a b, a < 2 * p → b < 2 * p → (fnOfList mt) a = (fnOfList mt) b → a = b) (j : Nat) :
    brauerCol d p mt j
      = if ∀ k, k < p → dec (fun _ => d) (2 * p) j (invPerm (2 * p) (fnOfList mt) (2 * k))
            = dec (fun _ => d) (2 * p) j (invPerm (2 * p) (fnOfList mt) (2 * k + 1)) then 1 else 0 := by
  unfold brauerCol
  rw [Toq.Perms.permuteVec_false_eq _ _ _ _ hlt hinj]
  unfold Toq.Perms.specIndex
  rw [brauerPhi_enc d _ p (fun k hk =>
    Toq.Perms.specIndex_digit_lt (2 * p) (fnOfList mt) (fun _ => d) hlt hinj (fun _ _ => hd) j k hk)]

theorem maxEntS_sq_sum (d : Nat) : sumN (d * d) (fun k => maxEntS d k * maxEntS d k) = (d : Int) := by
  rw [sumN_flat d _ d]
  rw [sumN_congr _ (fun _ => (1 : Int)) d (fun i hi => by
    rw [sumN_congr _ (fun k => if k = i then (1 : Int) else 0) d (fun k hk => by
      rw [maxEntS_flat d i k hi hk]
      by_cases h : i = k
      · rw [if_pos h, if_pos h.symm]; rfl
      · rw [if_neg h, if_neg (Ne.symm h)]; rfl)]
    rw [sumN_ite_eq d i hi])]
  rw [sumN_const, mul_one]

theorem brauerPhi_sq_sum (d : Nat) : ∀ p, sumN ((d * d) ^ p) (fun r => brauerPhi d p r * brauerPhi d p r) = (d : Int) ^ p
  | 0 => by simp [sumN, brauerPhi]
  | p + 1 => by
    rw [Nat.pow_succ, sumN_flat (d * d) _ ((d * d) ^ p)]
    rw [sumN_congr _ (fun i => (brauerPhi d p i * brauerPhi d p i) * (d : Int)) ((d * d) ^ p) (fun i _ => by
      rw [← maxEntS_sq_sum d, ← sumN_mul_left]
      apply sumN_congr
      intro k hk
      show brauerPhi d p ((i * (d * d) + k) / (d * d)) * maxEntS d ((i * (d * d) + k) % (d * d))
        * (brauerPhi d p ((i * (d * d) + k) / (d * d)) * maxEntS d ((i * (d * d) + k) % (d * d))) = _
      rw [flat_div (d * d) i k hk, flat_mod (d * d) i k hk]; ring)]
    rw [sumN_mul_right, brauerPhi_sq_sum d p, pow_succ]

theorem prodN_const (d : Nat) : ∀ n, prodN (fun _ => d) n = d ^ n
  | 0 => rfl
  | n + 1 => by show prodN (fun _ => d) n * d = _; rw [prodN_const d n, Nat.pow_succ]

/-- every column of `brauer(d, p)` has squared norm `d^p` -/
theorem brauerCol_sq_sum (d p : Nat) (hd : 0 < d) (mt : List Nat)
    (hlt : ∀ k, k < 2 * p → (fnOfList mt) k < 2 * p)
    (hinj : ∀ a b, a < 2 * p → b < 2 * p → (fnOfList mt) a = (fnOfList mt) b → a = b) :
    sumN ((d * d) ^ p) (fun j => brauerCol d p mt j * brauerCol d p mt j) = (d : Int) ^ p := by
  have hN : prodN (fun _ => d) (2 * p) = (d * d) ^ p := by
    rw [prodN_const, ← Nat.pow_two, ← Nat.pow_mul]
  obtain ⟨τ, h1, _, h3, _⟩ := Toq.Perms.permIndex_bij (2 * p) (fnOfList mt) (fun _ => d) false hlt hinj (fun _ _ => hd)
  rw [hN] at h1 h3
  rw [← brauerPhi_sq_sum d p]
  exact sumN_reindex ((d * d) ^ p) (Toq.Perms.permIndex (2 * p) (fnOfList mt) (fun _ => d) false)
    (fun r => brauerPhi d p r * brauerPhi d p r) (fun k _ => h1 k)
    (fun a b ha hb h => by rw [← h3 a ha, ← h3 b hb, h])

section chess
variable {α : Type} [Field α] [HasConj α]

theorem chessboard_trace_aux (pr : Nat → α) (s t : α) (h : trace 9 (chessNum pr s t) ≠ 0) :
    trace 9 (chessboard pr s t) = 1 := by
  unfold chessboard
  show sumN 9 (fun i => chessNum pr s t i i / trace 9 (chessNum pr s t)) = 1
  rw [sumN_div]
  exact div_self h

omit [HasConj α] in
theorem sumN_map (σ : α →+* α) (f : Nat → α) : ∀ n, σ (sumN n f) = sumN n (fun k => σ (f k))
  | 0 => map_zero σ
  | n + 1 => by
    show σ (sumN n f + f n) = sumN n (fun k => σ (f k)) + σ (f n)
    rw [map_add, sumN_map σ f n]

/-- `chessboard` is Hermitian whenever `HasConj.conj` is an involutive ring homomorphism (complex conjugation) -/
theorem chessboard_hermitian_aux (σ : α →+* α) (hσ : ∀ x : α, HasConj.conj x = σ x) (hinv : ∀ x, σ (σ x) = x)
    (pr : Nat → α) (s t : α) (i j : Nat) :
    HasConj.conj (chessboard pr s t i j) = chessboard pr s t j i := by
  have hnum : ∀ i j, σ (chessNum pr s t i j) = chessNum pr s t j i := by
    intro i j
    unfold chessNum
    rw [sumN_map]
    apply sumN_congr
    intro k _
    rw [map_mul, hσ, hσ, hinv, mul_comm]
  have htr : σ (trace 9 (chessNum pr s t)) = trace 9 (chessNum pr s t) := by
    unfold trace
    rw [sumN_map]
    apply sumN_congr
    intro k _
    exact hnum k k
  unfold chessboard
  rw [hσ, map_div₀, hnum, htr]
end chess

/-! ### `isprime` by trial division -/

theorem isPrimeB_iff (n : Nat) : isPrimeB n = true ↔ n.Prime := by
  unfold isPrimeB
  rw [Bool.and_eq_true, decide_eq_true_eq, List.all_eq_true, Nat.prime_def_lt']
  constructor
  · rintro ⟨h2, hall⟩
    refine ⟨h2, fun m hm2 hmn hdvd => ?_⟩
    have := hall (m - 2) (List.mem_range.mpr (by omega))
    rw [Nat.sub_add_cancel hm2] at this
    have hz := Nat.mod_eq_zero_of_dvd hdvd
    simp [hz] at this
  · rintro ⟨h2, hall⟩
    refine ⟨h2, fun k hk => ?_⟩
    have hk' := List.mem_range.mp hk
    simp only [bne_iff_ne, ne_eq]
    intro hz
    exact hall (k + 2) (by omega) (by omega) (Nat.dvd_of_mod_eq_zero hz)
end Toq.States
