import Toq.Proofs.MetricsWatrous
/-!
# Watrous' theorem in general: the fidelity program computes `tr √(√ρ σ √ρ)` for all positive semidefinite pairs

Monotonicity of the program in `ρ`, the positive definite case (`MetricsWatrous`), symmetry of the closed form (`AᴴA` and `AAᴴ` have
the same characteristic polynomial), and the explicit continuity bound `tr √(B + εC) ≤ tr √B + nδ/2 + ε tr C/(2δ)`.
-/

open Matrix
open scoped ComplexOrder MatrixOrder

set_option linter.unusedSectionVars false

namespace Toq.Metrics
section WatrousGeneral
variable {ι : Type*} [Fintype ι] [DecidableEq ι]

/-- `tr √M = Σ √λ_i(M)` for positive semidefinite `M` -/
theorem trace_sqrt_eq_sum {M : Matrix ι ι ℂ} (hM : M.PosSemidef) :
    (CFC.sqrt M).trace.re = ∑ i, Real.sqrt (hM.isHermitian.eigenvalues i) := by
  obtain ⟨U, hU, hU', hMe⟩ := exists_conjDiag hM.isHermitian
  conv_lhs => rw [hMe]
  rw [sqrt_conjDiag hU hM.eigenvalues_nonneg, conjDiag_trace_re hU]

/-- Hermitian matrices with the same characteristic polynomial have the same eigenvalue sums -/
theorem sum_eigenvalues_eq_of_charpoly_eq {A B : Matrix ι ι ℂ} (hA : A.IsHermitian) (hB : B.IsHermitian)
    (h : A.charpoly = B.charpoly) (f : ℝ → ℝ) :
    ∑ i, f (hA.eigenvalues i) = ∑ i, f (hB.eigenvalues i) := by
  have h1 := hA.roots_charpoly_eq_eigenvalues
  have h2 := hB.roots_charpoly_eq_eigenvalues
  rw [h] at h1
  have h3 : Multiset.map ((RCLike.ofReal : ℝ → ℂ) ∘ hA.eigenvalues) Finset.univ.val
      = Multiset.map ((RCLike.ofReal : ℝ → ℂ) ∘ hB.eigenvalues) Finset.univ.val := h1.symm.trans h2
  have h4 := congrArg (fun m => (Multiset.map (fun z : ℂ => f z.re) m).sum) h3
  simp only [Multiset.map_map, Function.comp_apply] at h4
  simpa using h4

/-- the closed form is symmetric: `tr √(√ρ σ √ρ) = tr √(√σ ρ √σ)` (`AᴴA` and `AAᴴ` have the same characteristic polynomial) -/
theorem docFid_symm {ρ σ : Matrix ι ι ℂ} (hρ : ρ.PosSemidef) (hσ : σ.PosSemidef) : docFid ρ σ = docFid σ ρ := by
  set R := CFC.sqrt ρ with hR
  set S := CFC.sqrt σ with hS
  have eR : R * R = ρ := CFC.sqrt_mul_sqrt_self ρ hρ.nonneg
  have eS : S * S = σ := CFC.sqrt_mul_sqrt_self σ hσ.nonneg
  have h1 := rootConj_posSemidef (ρ := ρ) hσ
  have h2 := rootConj_posSemidef (ρ := σ) hρ
  unfold docFid
  rw [trace_sqrt_eq_sum h1, trace_sqrt_eq_sum h2]
  refine sum_eigenvalues_eq_of_charpoly_eq _ _ ?_ Real.sqrt
  rw [← hR, ← hS]
  calc (R * σ * R).charpoly = ((R * S) * (S * R)).charpoly := by rw [← eS]; simp only [Matrix.mul_assoc]
    _ = ((S * R) * (R * S)).charpoly := Matrix.charpoly_mul_comm _ _
    _ = (S * ρ * S).charpoly := by rw [← eR]; simp only [Matrix.mul_assoc]

/-- the fidelity program is monotone in its first argument -/
theorem fidV_mono_left {ρ ρ' σ : Matrix ι ι ℂ} (hρ : ρ.PosSemidef) (hσ : σ.PosSemidef) (h : (ρ' - ρ).PosSemidef) :
    fidV ρ σ ≤ fidV ρ' σ := by
  refine csSup_le ⟨0, zero_mem_fidSet hρ hσ⟩ ?_
  rintro x ⟨X, hX, rfl⟩
  refine le_fidV_gen ?_
  unfold FidFeasible at hX ⊢
  have := hX.add (posSemidef_fromBlocks_diag h (Matrix.PosSemidef.zero (n := ι) (R := ℂ)))
  rw [fromBlocks_add] at this
  simpa using this

/-- continuity bound: `tr √(B + ε C) ≤ tr √B + n δ / 2 + ε tr C / (2 δ)` for positive semidefinite `B`, `C` and `ε ≥ 0`, `δ > 0` -/
theorem trace_sqrt_add_le {B C : Matrix ι ι ℂ} (hB : B.PosSemidef) (hC : C.PosSemidef) {ε δ : ℝ} (hε : 0 ≤ ε)
    (hδ : 0 < δ) :
    (CFC.sqrt (B + (ε : ℂ) • C)).trace.re
      ≤ (CFC.sqrt B).trace.re + Fintype.card ι * δ / 2 + ε * C.trace.re / (2 * δ) := by
  have hεC : ((ε : ℂ) • C).PosSemidef := hC.smul (by exact_mod_cast hε)
  have hA : (B + (ε : ℂ) • C).PosSemidef := hB.add hεC
  -- tr √A = value of the fidelity program of (1, A)
  have h1 : (CFC.sqrt (B + (ε : ℂ) • C)).trace.re = fidV 1 (B + (ε : ℂ) • C) := by
    rw [fidV_eq_docFid_of_posDef Matrix.PosDef.one hA]
    unfold docFid
    rw [CFC.sqrt_one, Matrix.one_mul, Matrix.mul_one]
  obtain ⟨U, hU, hU', hBe⟩ := exists_conjDiag hB.isHermitian
  set b := hB.isHermitian.eigenvalues with hb
  have hb0 : ∀ i, 0 ≤ b i := hB.eigenvalues_nonneg
  have hpvm := isPVM_basis hU hU'
  set a : ι → ℝ := fun i => Real.sqrt (b i) + δ with ha
  have ha0 : ∀ i, 0 < a i := fun i => by have := Real.sqrt_nonneg (b i); simp only [ha]; linarith
  have hd := fidV_le_gen Matrix.PosSemidef.one hA (fidDualFeasible_pvm hpvm a ha0)
  rw [dualVal_pvm] at hd
  rw [h1]
  refine hd.trans ?_
  have hsum : ∀ τ : Matrix ι ι ℂ, ∑ i, (conjDiag U (ind i) * τ).trace.re = τ.trace.re := by
    intro τ
    rw [← Complex.re_sum, ← Matrix.trace_sum, ← Finset.sum_mul, hpvm.sum_one, Matrix.one_mul]
  have hc0 : ∀ i, 0 ≤ (conjDiag U (ind i) * C).trace.re := fun i => psd_trace_mul_nonneg (hpvm.posSemidef i) hC
  have hterm : ∀ i, (a i * (conjDiag U (ind i) * 1).trace.re
      + (a i)⁻¹ * (conjDiag U (ind i) * (B + (ε : ℂ) • C)).trace.re) / 2
      ≤ Real.sqrt (b i) + δ / 2 + ε * (conjDiag U (ind i) * C).trace.re / (2 * δ) := by
    intro i
    have e1 : (conjDiag U (ind i) * 1).trace.re = 1 := by
      rw [Matrix.mul_one, conjDiag_trace_re hU]; simp [ind]
    have e2 : (conjDiag U (ind i) * (B + (ε : ℂ) • C)).trace.re = b i + ε * (conjDiag U (ind i) * C).trace.re := by
      rw [Matrix.mul_add, Matrix.trace_add, Complex.add_re, Matrix.mul_smul, Matrix.trace_smul, smul_eq_mul,
        Complex.re_ofReal_mul]
      congr 1
      conv_lhs => rw [hBe]
      exact trace_ind_mul_conjDiag hU _ i
    rw [e1, e2]
    set c := (conjDiag U (ind i) * C).trace.re with hc
    have hci := hc0 i
    have hs := Real.sqrt_nonneg (b i)
    have hbb : b i = Real.sqrt (b i) * Real.sqrt (b i) := (Real.mul_self_sqrt (hb0 i)).symm
    have hai := ha0 i
    have k1 : (a i)⁻¹ * b i ≤ Real.sqrt (b i) := by
      rw [inv_mul_le_iff₀ hai]
      simp only [ha]; nlinarith
    have k2 : (a i)⁻¹ * (ε * c) ≤ ε * c / δ := by
      rw [inv_mul_le_iff₀ hai, ha]
      have : 0 ≤ ε * c := mul_nonneg hε hci
      have h3 : ε * c / δ * δ = ε * c := div_mul_cancel₀ _ hδ.ne'
      have h4 : 0 ≤ ε * c / δ := div_nonneg this hδ.le
      simp only
      nlinarith
    have k3 : ε * c / (2 * δ) = ε * c / δ / 2 := by rw [div_div, mul_comm δ 2]
    rw [mul_one, mul_add, k3]
    simp only [ha] at k1 k2 ⊢
    linarith
  calc ∑ i, (a i * (conjDiag U (ind i) * 1).trace.re + (a i)⁻¹ * (conjDiag U (ind i) * (B + (ε : ℂ) • C)).trace.re) / 2
      ≤ ∑ i, (Real.sqrt (b i) + δ / 2 + ε * (conjDiag U (ind i) * C).trace.re / (2 * δ)) :=
        Finset.sum_le_sum fun i _ => hterm i
    _ = _ := by
        rw [Finset.sum_add_distrib, Finset.sum_add_distrib, Finset.sum_const, Finset.card_univ, nsmul_eq_mul,
          ← Finset.sum_div, ← Finset.mul_sum, hsum C, trace_sqrt_eq_sum hB]
        ring

/-- **Watrous' theorem, general case**: the optimal value of the program `sup { Re tr X : [[ρ, X], [Xᴴ, σ]] ⪰ 0 }` is the
closed form `tr √(√ρ σ √ρ)`, for all positive semidefinite `ρ`, `σ`. -/
theorem fidV_eq_docFid {ρ σ : Matrix ι ι ℂ} (hρ : ρ.PosSemidef) (hσ : σ.PosSemidef) : fidV ρ σ = docFid ρ σ := by
  refine le_antisymm ?_ (docFid_le_fidV hρ hσ)
  refine le_of_forall_pos_le_add fun η hη => ?_
  set N : ℝ := Fintype.card ι + 1 with hN
  have hNpos : 0 < N := by positivity
  have hC0 : 0 ≤ σ.trace.re := (Complex.nonneg_iff.mp hσ.trace_nonneg).1
  set δ : ℝ := η / N with hδd
  have hδ : 0 < δ := by positivity
  set ε : ℝ := δ * η / (σ.trace.re + 1) with hεd
  have hε : 0 < ε := by positivity
  -- perturb ρ to a positive definite matrix
  have hεpd : ((ε : ℂ) • (1 : Matrix ι ι ℂ)).PosDef := Matrix.PosDef.one.smul (by exact_mod_cast hε)
  have hρε : (ρ + (ε : ℂ) • (1 : Matrix ι ι ℂ)).PosDef := Matrix.PosDef.posSemidef_add hρ hεpd
  have hmono : fidV ρ σ ≤ fidV (ρ + (ε : ℂ) • (1 : Matrix ι ι ℂ)) σ :=
    fidV_mono_left hρ hσ (by simpa using hεpd.posSemidef)
  rw [fidV_eq_docFid_of_posDef hρε hσ, docFid_symm hρε.posSemidef hσ] at hmono
  have eS : CFC.sqrt σ * CFC.sqrt σ = σ := CFC.sqrt_mul_sqrt_self σ hσ.nonneg
  have hexp : CFC.sqrt σ * (ρ + (ε : ℂ) • (1 : Matrix ι ι ℂ)) * CFC.sqrt σ
      = CFC.sqrt σ * ρ * CFC.sqrt σ + (ε : ℂ) • σ := by
    rw [Matrix.mul_add, Matrix.add_mul, Matrix.mul_smul, Matrix.mul_one, Matrix.smul_mul, eS]
  have hbound := trace_sqrt_add_le (rootConj_posSemidef (ρ := σ) hρ) hσ hε.le hδ
  unfold docFid at hmono
  rw [hexp] at hmono
  have hsym : (CFC.sqrt (CFC.sqrt σ * ρ * CFC.sqrt σ)).trace.re = docFid ρ σ := by
    rw [docFid_symm hρ hσ]; rfl
  rw [hsym] at hbound
  have h1 : (Fintype.card ι : ℝ) * δ / 2 ≤ η / 2 := by
    have : (Fintype.card ι : ℝ) * δ ≤ η := by
      rw [hδd, mul_div_assoc', div_le_iff₀ hNpos, hN]; nlinarith
    linarith
  have h2 : ε * σ.trace.re / (2 * δ) ≤ η / 2 := by
    rw [div_le_iff₀ (by positivity), hεd]
    have h3 : δ * η / (σ.trace.re + 1) * σ.trace.re ≤ δ * η := by
      rw [div_mul_eq_mul_div, div_le_iff₀ (by positivity)]
      nlinarith [mul_pos hδ hη]
    nlinarith
  linarith

end WatrousGeneral
end Toq.Metrics
