import Toq.Proofs.MetricsSpectral
import Mathlib.LinearAlgebra.Eigenspace.Minpoly
/-!
# Spectral theorem for unitary matrices (for C20's two-unitary formula)

Every unitary matrix `W` is `S diag(λ) Sᴴ` with `S` unitary.  Proof by the Cayley transform: choose a point `ω` of the unit circle
outside the (finite) spectrum of `W`; then `H = i (ω + W)(ω − W)⁻¹` is Hermitian, Mathlib's spectral theorem for Hermitian matrices
diagonalises it, `H = S diag(h) Sᴴ`, and `W = ω (H + i)⁻¹ (H − i) = S diag(ω (h − i)/(h + i)) Sᴴ`.
-/

open Matrix
open scoped ComplexOrder MatrixOrder

set_option linter.unusedSectionVars false

namespace Toq.ChanMetrics
open Toq.Metrics

section
variable {n : Type*} [Fintype n] [DecidableEq n]

/-- the Cayley parametrisation `t ↦ (1 + it)/(1 − it)` of the unit circle -/
noncomputable def cayleyPt (t : ℝ) : ℂ := (1 + (t : ℂ) * Complex.I) / (1 - (t : ℂ) * Complex.I)

theorem cayley_den_ne (t : ℝ) : (1 - (t : ℂ) * Complex.I) ≠ 0 := by
  intro h
  have := congrArg Complex.re h
  simp at this

theorem cayleyPt_mul_star (t : ℝ) : cayleyPt t * star (cayleyPt t) = 1 := by
  unfold cayleyPt
  have h1 := cayley_den_ne t
  have h2 : (1 + (t : ℂ) * Complex.I) ≠ 0 := by
    intro h
    have := congrArg Complex.re h
    simp at this
  rw [star_div₀]
  simp only [star_add, star_sub, star_one, star_mul', Complex.star_def, Complex.conj_ofReal, Complex.conj_I]
  have e1 : (1 : ℂ) + (t : ℂ) * -Complex.I = 1 - (t : ℂ) * Complex.I := by ring
  have e2 : (1 : ℂ) - (t : ℂ) * -Complex.I = 1 + (t : ℂ) * Complex.I := by ring
  rw [e1, e2]
  field_simp

theorem cayleyPt_injective : Function.Injective cayleyPt := by
  intro s t h
  unfold cayleyPt at h
  rw [div_eq_div_iff (cayley_den_ne s) (cayley_den_ne t)] at h
  have := congrArg Complex.im h
  simp at this
  linarith

/-- a point of the unit circle outside the spectrum of `W` -/
theorem exists_circle_not_spectrum (W : Matrix n n ℂ) :
    ∃ ω : ℂ, ω * star ω = 1 ∧ IsUnit (ω • (1 : Matrix n n ℂ) - W) := by
  have hinf : (Set.range cayleyPt).Infinite := Set.infinite_range_of_injective cayleyPt_injective
  obtain ⟨ω, ⟨t, rfl⟩, hω⟩ := (hinf.sdiff (Matrix.finite_spectrum W)).nonempty
  refine ⟨cayleyPt t, cayleyPt_mul_star t, ?_⟩
  have := spectrum.notMem_iff.mp hω
  rwa [Algebra.algebraMap_eq_smul_one] at this

/-- **Spectral theorem for unitary matrices**: `W = S diag(λ) Sᴴ` with `S` unitary. -/
theorem exists_unitary_diagonalisation {W : Matrix n n ℂ} (hW : Wᴴ * W = 1) :
    ∃ (S : Matrix n n ℂ) (lam : n → ℂ), Sᴴ * S = 1 ∧ S * Sᴴ = 1 ∧ W = S * diagonal lam * Sᴴ := by
  have hW' : W * Wᴴ = 1 := mul_eq_one_comm.mp hW
  obtain ⟨ω, hω, ⟨u, hu⟩⟩ := exists_circle_not_spectrum W
  have hω' : star ω * ω = 1 := by rw [mul_comm]; exact hω
  set M : Matrix n n ℂ := ω • (1 : Matrix n n ℂ) - W with hM
  set P : Matrix n n ℂ := ω • (1 : Matrix n n ℂ) + W with hP
  set Mi : Matrix n n ℂ := ((u⁻¹ : (Matrix n n ℂ)ˣ) : Matrix n n ℂ) with hMi
  have hMMi : M * Mi = 1 := by rw [← hu]; exact u.mul_inv
  have hMiM : Mi * M = 1 := by rw [← hu]; exact u.inv_mul
  -- commutation
  have cWM : Commute W M := by
    unfold Commute SemiconjBy
    rw [hM, Matrix.mul_sub, Matrix.sub_mul, Matrix.mul_smul, Matrix.smul_mul, Matrix.mul_one, Matrix.one_mul]
  have cWP : Commute W P := by
    unfold Commute SemiconjBy
    rw [hP, Matrix.mul_add, Matrix.add_mul, Matrix.mul_smul, Matrix.smul_mul, Matrix.mul_one, Matrix.one_mul]
  have cPM : Commute P M := ((Commute.one_left M).smul_left ω).add_left cWM
  have cWMi : W * Mi = Mi * W := by
    calc W * Mi = (Mi * M) * (W * Mi) := by rw [hMiM, Matrix.one_mul]
      _ = Mi * (M * W) * Mi := by simp only [Matrix.mul_assoc]
      _ = Mi * (W * M) * Mi := by rw [cWM.eq]
      _ = Mi * W * (M * Mi) := by simp only [Matrix.mul_assoc]
      _ = Mi * W := by rw [hMMi, Matrix.mul_one]
  have cPMi : P * Mi = Mi * P := by
    calc P * Mi = (Mi * M) * (P * Mi) := by rw [hMiM, Matrix.one_mul]
      _ = Mi * (M * P) * Mi := by simp only [Matrix.mul_assoc]
      _ = Mi * (P * M) * Mi := by rw [cPM.eq]
      _ = Mi * P * (M * Mi) := by simp only [Matrix.mul_assoc]
      _ = Mi * P := by rw [hMMi, Matrix.mul_one]
  -- adjoints of M, P, Mi
  have hMH : Mᴴ = (-star ω) • (M * Wᴴ) := by
    rw [hM, Matrix.conjTranspose_sub, Matrix.conjTranspose_smul, Matrix.conjTranspose_one, Matrix.sub_mul,
      Matrix.smul_mul, Matrix.one_mul, hW', smul_sub, smul_smul, neg_mul, hω', neg_smul, one_smul, neg_smul]
    abel
  have hPH : Pᴴ = (star ω) • (P * Wᴴ) := by
    rw [hP, Matrix.conjTranspose_add, Matrix.conjTranspose_smul, Matrix.conjTranspose_one, Matrix.add_mul,
      Matrix.smul_mul, Matrix.one_mul, hW', smul_add, smul_smul, hω', one_smul]
    abel
  have hMiH : Miᴴ = (-ω) • (W * Mi) := by
    have h1 : Mᴴ * Miᴴ = 1 := by rw [← Matrix.conjTranspose_mul, hMiM, Matrix.conjTranspose_one]
    have h2 : ((-ω) • (W * Mi)) * Mᴴ = 1 := by
      rw [hMH, Matrix.smul_mul, Matrix.mul_smul, smul_smul, neg_mul_neg, hω]
      rw [one_smul]
      calc W * Mi * (M * Wᴴ) = W * (Mi * M) * Wᴴ := by simp only [Matrix.mul_assoc]
        _ = 1 := by rw [hMiM, Matrix.mul_one, hW']
    calc Miᴴ = (((-ω) • (W * Mi)) * Mᴴ) * Miᴴ := by rw [h2, Matrix.one_mul]
      _ = ((-ω) • (W * Mi)) * (Mᴴ * Miᴴ) := by rw [Matrix.mul_assoc]
      _ = _ := by rw [h1, Matrix.mul_one]
  -- the Cayley transform is Hermitian
  obtain ⟨H, hH⟩ : ∃ H : Matrix n n ℂ, H = Complex.I • (P * Mi) := ⟨_, rfl⟩
  have hHerm : H.IsHermitian := by
    unfold Matrix.IsHermitian
    rw [hH, Matrix.conjTranspose_smul, Matrix.conjTranspose_mul, hMiH, hPH, Matrix.smul_mul, Matrix.mul_smul,
      smul_smul, smul_smul, Complex.star_def, Complex.conj_I]
    have e : W * Mi * (P * Wᴴ) = P * Mi := by
      calc W * Mi * (P * Wᴴ) = Mi * W * P * Wᴴ := by rw [cWMi]; simp only [Matrix.mul_assoc]
        _ = Mi * (P * W) * Wᴴ := by rw [Matrix.mul_assoc Mi W P, cWP.eq]
        _ = Mi * P * (W * Wᴴ) := by simp only [Matrix.mul_assoc]
        _ = P * Mi := by rw [hW', Matrix.mul_one, cPMi]
    rw [e]
    congr 1
    have hc : (starRingEnd ℂ) ω = star ω := rfl
    rw [hc]
    calc -Complex.I * -ω * star ω = Complex.I * (ω * star ω) := by ring
      _ = Complex.I := by rw [hω, mul_one]
  obtain ⟨S, hS, hS', hHe⟩ := exists_conjDiag hHerm
  set h := hHerm.eigenvalues with hh
  -- (H + i) W = ω (H − i)
  have hHM : H * M = Complex.I • P := by
    rw [hH, Matrix.smul_mul, Matrix.mul_assoc, hMiM, Matrix.mul_one]
  have key : (H + Complex.I • (1 : Matrix n n ℂ)) * W = ω • (H - Complex.I • (1 : Matrix n n ℂ)) := by
    have e1 : H * M = ω • H - H * W := by
      rw [hM, Matrix.mul_sub, Matrix.mul_smul, Matrix.mul_one]
    have e2 : Complex.I • P = (ω * Complex.I) • (1 : Matrix n n ℂ) + Complex.I • W := by
      rw [hP, smul_add, smul_smul, mul_comm]
    rw [e1, e2] at hHM
    rw [Matrix.add_mul, Matrix.smul_mul, Matrix.one_mul, smul_sub, smul_smul]
    have : H * W = ω • H - ((ω * Complex.I) • (1 : Matrix n n ℂ) + Complex.I • W) := by
      rw [← hHM]; abel
    rw [this]; abel
  have hne : ∀ i, ((h i : ℂ) + Complex.I) ≠ 0 := fun i hz => by
    have := congrArg Complex.im hz
    simp at this
  have hD : ∀ c : ℂ, H + c • (1 : Matrix n n ℂ) = S * diagonal (fun i => (h i : ℂ) + c) * Sᴴ := by
    intro c
    have : (diagonal fun i => (h i : ℂ) + c) = diagonal (fun i => (h i : ℂ)) + c • (1 : Matrix n n ℂ) := by
      ext i j
      by_cases hij : i = j <;> simp [hij]
    rw [this, Matrix.mul_add, Matrix.add_mul, Matrix.mul_smul, Matrix.mul_one, Matrix.smul_mul, hS']
    conv_lhs => rw [hHe]
    rfl
  set Ki : Matrix n n ℂ := S * diagonal (fun i => ((h i : ℂ) + Complex.I)⁻¹) * Sᴴ with hKi
  have hKiK : Ki * (H + Complex.I • (1 : Matrix n n ℂ)) = 1 := by
    rw [hD, hKi]
    calc S * diagonal (fun i => ((h i : ℂ) + Complex.I)⁻¹) * Sᴴ * (S * diagonal (fun i => (h i : ℂ) + Complex.I) * Sᴴ)
        = S * (diagonal (fun i => ((h i : ℂ) + Complex.I)⁻¹) * (Sᴴ * S) * diagonal (fun i => (h i : ℂ) + Complex.I)) * Sᴴ := by
          simp only [Matrix.mul_assoc]
      _ = 1 := by
          rw [hS, Matrix.mul_one, Matrix.diagonal_mul_diagonal]
          have : (fun i => ((h i : ℂ) + Complex.I)⁻¹ * ((h i : ℂ) + Complex.I)) = fun _ => (1 : ℂ) := by
            funext i; exact inv_mul_cancel₀ (hne i)
          rw [this, Matrix.diagonal_one, Matrix.mul_one, hS']
  refine ⟨S, fun i => ω * (((h i : ℂ) + Complex.I)⁻¹ * ((h i : ℂ) + -Complex.I)), hS, hS', ?_⟩
  have hsub : H - Complex.I • (1 : Matrix n n ℂ) = H + (-Complex.I) • (1 : Matrix n n ℂ) := by
    rw [neg_smul, sub_eq_add_neg]
  calc W = (Ki * (H + Complex.I • (1 : Matrix n n ℂ))) * W := by rw [hKiK, Matrix.one_mul]
    _ = Ki * (ω • (H - Complex.I • (1 : Matrix n n ℂ))) := by rw [Matrix.mul_assoc, key]
    _ = ω • (Ki * (S * diagonal (fun i => (h i : ℂ) + -Complex.I) * Sᴴ)) := by
        rw [Matrix.mul_smul, hsub, hD]
    _ = ω • (S * (diagonal (fun i => ((h i : ℂ) + Complex.I)⁻¹) * (Sᴴ * S) * diagonal (fun i => (h i : ℂ) + -Complex.I)) * Sᴴ) := by
        rw [hKi]; simp only [Matrix.mul_assoc]
    _ = _ := by
        rw [hS, Matrix.mul_one, Matrix.diagonal_mul_diagonal, ← Matrix.smul_mul, ← Matrix.mul_smul]
        congr 2
        ext i j
        by_cases hij : i = j <;> simp [hij]

/-- the `λ_i` of a unitary diagonalisation are the eigenvalues: the characteristic polynomial of `S diag(λ) Sᴴ` is `∏ (X − λ_i)` -/
theorem charpoly_of_diagonalisation {W S : Matrix n n ℂ} {lam : n → ℂ} (hS : Sᴴ * S = 1) (hW : W = S * diagonal lam * Sᴴ) :
    W.charpoly = ∏ i, (Polynomial.X - Polynomial.C (lam i)) := by
  rw [hW, Matrix.mul_assoc, Matrix.charpoly_mul_comm, Matrix.mul_assoc, hS, Matrix.mul_one, Matrix.charpoly_diagonal]

end

end Toq.ChanMetrics
