import Toq.Proofs.Npa
import Mathlib.Data.Matrix.Block
import Mathlib.Data.Matrix.ColumnRowPartitioned
import Mathlib.LinearAlgebra.Matrix.Kronecker
import Mathlib.LinearAlgebra.Matrix.NonsingularInverse
/-!
# Naimark dilation: general (POVM) quantum strategies are inside every NPA level (C07)

`Toq/Proofs/Npa.lean` proves that every strategy with commuting **projective** measurements (`QStrategy`) gives a
feasible point of the mirror of `npa_constraints`, at every level.  The see-saw heuristic
`quantum_value_lower_bound` optimises over POVMs, which need not be projective.  This file closes the gap:

* `naimark` — for every POVM `E_0 … E_{k-1}` on `ℂ^ι` there are orthogonal projectors `P_0 … P_{k-1}` on
  `ℂ^ι ⊕ (ℂ^k ⊗ ℂ^ι)` summing to the identity whose compression to the first summand is the POVM:
  `Jᴴ P_a J = E_a` for the isometry `J = (1, 0)`.  With `E_a = C_aᴴ C_a`, `V = Σ_a |a⟩ ⊗ C_a` is an isometry and
  `U = [[0, −Vᴴ], [V, 1 − V Vᴴ]]` is an **explicit** unitary (Halmos) with `U J = (0, V)`; `P_a = Uᴴ Π_a U` for the
  block-diagonal projectors `Π_a = [a = 0]·1 ⊕ (|a⟩⟨a| ⊗ 1)`.
* `PovmStrategy` — a tensor-product strategy: POVMs `E x a` on `ℂ^dA`, `F y b` on `ℂ^dB`, a unit vector in
  `ℂ^dA ⊗ ℂ^dB`; behaviour `K(a,b|x,y) = ⟨ψ| E x a ⊗ F y b |ψ⟩`.
* `PovmStrategy.dilate` — the projective commuting strategy `P ⊗ 1`, `1 ⊗ Q`, state `(J_A ⊗ J_B) ψ`, re-indexed to
  `Fin D`: a `QStrategy` with **the same behaviour**.
-/

namespace Toq.Npa
open Matrix
open scoped ComplexOrder Kronecker

/-! ### Naimark dilation of one POVM -/

section Naimark
variable {ι : Type} [Fintype ι] [DecidableEq ι] {k : Nat}

/-- the dilation space `ℂ^ι ⊕ (ℂ^k ⊗ ℂ^ι)` -/
abbrev NkIdx (ι : Type) (k : Nat) := ι ⊕ (Fin k × ι)

/-- `V = Σ_a |a⟩ ⊗ C_a : ℂ^ι → ℂ^k ⊗ ℂ^ι` -/
def nkV (C : Fin k → Matrix ι ι ℂ) : Matrix (Fin k × ι) ι ℂ := Matrix.of fun p j => C p.1 p.2 j

/-- `|a⟩⟨a| ⊗ 1` on `ℂ^k ⊗ ℂ^ι` -/
def nkD (a : Fin k) : Matrix (Fin k × ι) (Fin k × ι) ℂ :=
  Matrix.diagonal fun p => if p.1 = a then 1 else 0

/-- the Halmos unitary `[[0, −Vᴴ], [V, 1 − V Vᴴ]]` of the isometry `V` -/
def nkU (V : Matrix (Fin k × ι) ι ℂ) : Matrix (NkIdx ι k) (NkIdx ι k) ℂ :=
  Matrix.fromBlocks 0 (-Vᴴ) V (1 - V * Vᴴ)

/-- the block-diagonal projector `[a = 0]·1 ⊕ (|a⟩⟨a| ⊗ 1)` -/
def nkPi (a : Fin k) : Matrix (NkIdx ι k) (NkIdx ι k) ℂ :=
  Matrix.fromBlocks (if a.1 = 0 then 1 else 0) 0 0 (nkD a)

/-- the inclusion `J : ℂ^ι → ℂ^ι ⊕ (ℂ^k ⊗ ℂ^ι)` -/
def nkJ (ι : Type) [Fintype ι] [DecidableEq ι] (k : Nat) : Matrix (NkIdx ι k) ι ℂ :=
  Matrix.fromRows 1 0

/-- the dilated projector `P_a = Uᴴ Π_a U` -/
def nkP (V : Matrix (Fin k × ι) ι ℂ) (a : Fin k) : Matrix (NkIdx ι k) (NkIdx ι k) ℂ :=
  (nkU V)ᴴ * nkPi a * nkU V

theorem nkV_isometry (C : Fin k → Matrix ι ι ℂ) : (nkV C)ᴴ * nkV C = ∑ a, (C a)ᴴ * C a := by
  ext i j
  simp only [nkV, Matrix.mul_apply, Matrix.conjTranspose_apply, Matrix.of_apply, Fintype.sum_prod_type,
    Matrix.sum_apply]

theorem nkV_compress (C : Fin k → Matrix ι ι ℂ) (a : Fin k) : (nkV C)ᴴ * nkD a * nkV C = (C a)ᴴ * C a := by
  have h : nkD a * nkV C = Matrix.of fun p j => if p.1 = a then C p.1 p.2 j else 0 := by
    ext p j
    simp [nkD, nkV, Matrix.diagonal_mul]
  rw [Matrix.mul_assoc, h]
  ext i j
  simp only [nkV, Matrix.mul_apply, Matrix.conjTranspose_apply, Matrix.of_apply, Fintype.sum_prod_type]
  rw [Finset.sum_eq_single a]
  · simp
  · intro b _ hb
    simp [hb]
  · simp

variable {V : Matrix (Fin k × ι) ι ℂ}

theorem nkU_conjTranspose (V : Matrix (Fin k × ι) ι ℂ) :
    (nkU V)ᴴ = Matrix.fromBlocks 0 Vᴴ (-V) (1 - V * Vᴴ) := by
  unfold nkU
  rw [Matrix.fromBlocks_conjTranspose]
  simp [Matrix.conjTranspose_sub, Matrix.conjTranspose_mul]

theorem nkU_unitary (hV : Vᴴ * V = 1) : (nkU V)ᴴ * nkU V = 1 := by
  rw [nkU_conjTranspose]
  unfold nkU
  rw [Matrix.fromBlocks_multiply, ← Matrix.fromBlocks_one]
  congr 1
  · simp [hV]
  · simp [Matrix.mul_sub, ← Matrix.mul_assoc, hV]
  · simp [Matrix.sub_mul, Matrix.mul_assoc, hV]
  · simp only [Matrix.neg_mul, Matrix.mul_neg, neg_neg, Matrix.mul_sub, Matrix.sub_mul, Matrix.mul_one,
      Matrix.one_mul]
    rw [show V * Vᴴ * (V * Vᴴ) = V * (Vᴴ * V) * Vᴴ by simp only [Matrix.mul_assoc], hV, Matrix.mul_one]
    abel

theorem nkU_unitary' (hV : Vᴴ * V = 1) : nkU V * (nkU V)ᴴ = 1 :=
  mul_eq_one_comm.mp (nkU_unitary hV)

theorem nkD_herm (a : Fin k) : (nkD (ι := ι) a)ᴴ = nkD a := by
  unfold nkD
  rw [Matrix.diagonal_conjTranspose]
  congr 1
  funext p
  simp only [Pi.star_apply]
  split <;> simp

theorem nkD_mul (a b : Fin k) : nkD (ι := ι) a * nkD b = if a = b then nkD a else 0 := by
  unfold nkD
  rw [Matrix.diagonal_mul_diagonal]
  split
  · rename_i h
    subst h
    congr 1; funext p; split <;> simp
  · rename_i h
    rw [← Matrix.diagonal_zero]
    congr 1; funext p
    by_cases h1 : p.1 = a
    · have : p.1 ≠ b := fun h2 => h (h1.symm.trans h2)
      simp [this]
    · simp [h1]

theorem nkD_sum : ∑ a : Fin k, nkD (ι := ι) a = 1 := by
  unfold nkD
  ext p q
  rw [Matrix.sum_apply]
  simp only [Matrix.diagonal_apply, Matrix.one_apply]
  by_cases h : p = q
  · simp [h]
  · simp [h]

theorem nkPi_herm (a : Fin k) : (nkPi (ι := ι) a)ᴴ = nkPi a := by
  unfold nkPi
  rw [Matrix.fromBlocks_conjTranspose, nkD_herm]
  congr 1
  · split <;> simp
  · simp
  · simp

theorem nkPi_mul (a b : Fin k) : nkPi (ι := ι) a * nkPi b = if a = b then nkPi a else 0 := by
  unfold nkPi
  rw [Matrix.fromBlocks_multiply, nkD_mul]
  by_cases h : a = b
  · subst h
    simp only [if_true, Matrix.mul_zero, Matrix.zero_mul, add_zero, zero_add]
    congr 1
    split <;> simp
  · simp only [h, if_false, Matrix.mul_zero, Matrix.zero_mul, add_zero]
    rw [← Matrix.fromBlocks_zero]
    congr 1
    by_cases ha : a.1 = 0
    · have hb : b.1 ≠ 0 := fun hb => h (Fin.ext (ha.trans hb.symm))
      simp [hb]
    · simp [ha]

theorem nkPi_sum (hk : 0 < k) : ∑ a : Fin k, nkPi (ι := ι) a = 1 := by
  have h1 : ∑ a : Fin k, (if a.1 = 0 then (1 : Matrix ι ι ℂ) else 0) = 1 := by
    rw [Finset.sum_eq_single (⟨0, hk⟩ : Fin k)]
    · simp
    · intro b _ hb
      have : b.1 ≠ 0 := fun h => hb (Fin.ext h)
      simp [this]
    · simp
  have h2 : ∀ s : Finset (Fin k), ∑ a ∈ s, nkPi (ι := ι) a
      = Matrix.fromBlocks (∑ a ∈ s, (if a.1 = 0 then (1 : Matrix ι ι ℂ) else 0)) 0 0 (∑ a ∈ s, nkD a) := by
    intro s
    induction s using Finset.induction_on with
    | empty => simp [Matrix.fromBlocks_zero]
    | insert a s ha ih =>
      rw [Finset.sum_insert ha, Finset.sum_insert ha, Finset.sum_insert ha, ih]
      unfold nkPi
      rw [Matrix.fromBlocks_add]
      simp
  rw [h2, h1, nkD_sum, Matrix.fromBlocks_one]

theorem nkP_herm (V : Matrix (Fin k × ι) ι ℂ) (a : Fin k) : (nkP V a)ᴴ = nkP V a := by
  unfold nkP
  rw [Matrix.conjTranspose_mul, Matrix.conjTranspose_mul, Matrix.conjTranspose_conjTranspose, nkPi_herm,
    Matrix.mul_assoc]

theorem nkP_mul (hV : Vᴴ * V = 1) (a b : Fin k) : nkP V a * nkP V b = if a = b then nkP V a else 0 := by
  unfold nkP
  have : (nkU V)ᴴ * nkPi a * nkU V * ((nkU V)ᴴ * nkPi b * nkU V)
      = (nkU V)ᴴ * (nkPi a * (nkU V * (nkU V)ᴴ) * nkPi b) * nkU V := by
    simp only [Matrix.mul_assoc]
  rw [this, nkU_unitary' hV, Matrix.mul_one, nkPi_mul]
  split <;> simp

theorem nkP_sum (hV : Vᴴ * V = 1) (hk : 0 < k) : ∑ a : Fin k, nkP V a = 1 := by
  unfold nkP
  rw [← Finset.sum_mul, ← Finset.mul_sum, nkPi_sum hk, Matrix.mul_one, nkU_unitary hV]

theorem nkJ_isometry : (nkJ ι k)ᴴ * nkJ ι k = 1 := by
  unfold nkJ
  rw [Matrix.conjTranspose_fromRows_eq_fromCols_conjTranspose, Matrix.fromCols_mul_fromRows]
  simp

theorem nkU_mul_J (V : Matrix (Fin k × ι) ι ℂ) : nkU V * nkJ ι k = Matrix.fromRows 0 V := by
  unfold nkU nkJ
  rw [Matrix.fromBlocks_mul_fromRows]
  simp

/-- **compression**: `Jᴴ P_a J = Vᴴ (|a⟩⟨a| ⊗ 1) V` -/
theorem nkP_compress (V : Matrix (Fin k × ι) ι ℂ) (a : Fin k) :
    (nkJ ι k)ᴴ * nkP V a * nkJ ι k = Vᴴ * nkD a * V := by
  unfold nkP
  have : (nkJ ι k)ᴴ * ((nkU V)ᴴ * nkPi a * nkU V) * nkJ ι k
      = (nkU V * nkJ ι k)ᴴ * (nkPi a * (nkU V * nkJ ι k)) := by
    rw [Matrix.conjTranspose_mul]
    simp only [Matrix.mul_assoc]
  rw [this, nkU_mul_J]
  unfold nkPi
  rw [Matrix.fromBlocks_mul_fromRows, Matrix.conjTranspose_fromRows_eq_fromCols_conjTranspose,
    Matrix.fromCols_mul_fromRows]
  simp [Matrix.mul_assoc]

end Naimark

/-! ### a POVM with answers `0 … k-1` (indexed by `Nat`) and its projective dilation -/

section Dil
open scoped MatrixOrder
variable {ι : Type} [Fintype ι] [DecidableEq ι]

theorem psd_factor {A : Matrix ι ι ℂ} (h : A.PosSemidef) : ∃ B : Matrix ι ι ℂ, A = Bᴴ * B := by
  obtain ⟨B, hB⟩ := CStarAlgebra.nonneg_iff_eq_star_mul_self.mp h.nonneg
  exact ⟨B, by rw [hB, Matrix.star_eq_conjTranspose]⟩

theorem sumN_eq_fin_sum {M : Type} [AddCommMonoid M] (f : Nat → M) (n : Nat) : sumN n f = ∑ a : Fin n, f a.1 := by
  rw [sumN_eq_range_sum, Fin.sum_univ_eq_sum_range]

/-- `E 0, …, E (k-1)` is a POVM: positive semidefinite, summing to the identity -/
def IsPovmN (k : Nat) (E : Nat → Matrix ι ι ℂ) : Prop := (∀ a, a < k → (E a).PosSemidef) ∧ sumN k E = 1

/-- a factor `C_a` with `E_a = C_aᴴ C_a` (e.g. the square root) -/
noncomputable def povmC (k : Nat) (E : Nat → Matrix ι ι ℂ) (h : IsPovmN k E) : Fin k → Matrix ι ι ℂ :=
  fun a => Classical.choose (psd_factor (h.1 a.1 a.2))

theorem povmC_spec (k : Nat) (E : Nat → Matrix ι ι ℂ) (h : IsPovmN k E) (a : Fin k) :
    E a.1 = (povmC k E h a)ᴴ * povmC k E h a :=
  Classical.choose_spec (psd_factor (h.1 a.1 a.2))

theorem povmV_isometry (k : Nat) (E : Nat → Matrix ι ι ℂ) (h : IsPovmN k E) :
    (nkV (povmC k E h))ᴴ * nkV (povmC k E h) = 1 := by
  rw [nkV_isometry, ← h.2, sumN_eq_fin_sum]
  exact Finset.sum_congr rfl fun a _ => (povmC_spec k E h a).symm

open Classical in
/-- **the Naimark projectors** of the family `E` (zero when `E` is not a POVM or the answer is out of range) -/
noncomputable def dilP (k : Nat) (E : Nat → Matrix ι ι ℂ) (a : Nat) : Matrix (NkIdx ι k) (NkIdx ι k) ℂ :=
  if h : IsPovmN k E ∧ a < k then nkP (nkV (povmC k E h.1)) ⟨a, h.2⟩ else 0

theorem dilP_herm (k : Nat) (E : Nat → Matrix ι ι ℂ) (a : Nat) : (dilP k E a)ᴴ = dilP k E a := by
  unfold dilP
  split
  · exact nkP_herm _ _
  · simp

theorem dilP_mul (k : Nat) (E : Nat → Matrix ι ι ℂ) (a b : Nat) :
    dilP k E a * dilP k E b = if a = b then dilP k E a else 0 := by
  unfold dilP
  by_cases hp : IsPovmN k E
  · by_cases ha : a < k
    · by_cases hb : b < k
      · rw [dif_pos ⟨hp, ha⟩, dif_pos ⟨hp, hb⟩, nkP_mul (povmV_isometry k E hp)]
        by_cases hab : a = b
        · subst hab; simp
        · have : (⟨a, ha⟩ : Fin k) ≠ ⟨b, hb⟩ := fun h => hab (Fin.mk.inj h)
          simp [hab, this]
      · rw [dif_pos ⟨hp, ha⟩, dif_neg (fun h => hb h.2)]
        have : a ≠ b := fun h => hb (h ▸ ha)
        simp [this]
    · rw [dif_neg (fun h => ha h.2)]
      simp
  · rw [dif_neg (fun h => hp h.1)]
    simp

theorem dilP_sum (k : Nat) (hk : 0 < k) (E : Nat → Matrix ι ι ℂ) (h : IsPovmN k E) :
    sumN k (dilP k E) = 1 := by
  rw [sumN_eq_fin_sum, ← nkP_sum (povmV_isometry k E h) hk]
  refine Finset.sum_congr rfl fun a _ => ?_
  unfold dilP
  rw [dif_pos ⟨h, a.2⟩]

theorem dilP_compress (k : Nat) (E : Nat → Matrix ι ι ℂ) (h : IsPovmN k E) (a : Nat) (ha : a < k) :
    (nkJ ι k)ᴴ * dilP k E a * nkJ ι k = E a := by
  unfold dilP
  rw [dif_pos ⟨h, ha⟩, nkP_compress, nkV_compress]
  exact (povmC_spec k E h ⟨a, ha⟩).symm

/-- **Naimark's dilation theorem** (finite dimension, explicit): every POVM `E_0 … E_{k-1}` on `ℂ^ι` is the
    compression `Jᴴ P_a J` of a projective measurement `P_0 … P_{k-1}` (Hermitian idempotents, pairwise orthogonal,
    summing to 1) on `ℂ^ι ⊕ (ℂ^k ⊗ ℂ^ι)` along the isometric inclusion `J` of the first summand -/
theorem naimark (k : Nat) (hk : 0 < k) (E : Nat → Matrix ι ι ℂ) (h : IsPovmN k E) :
    ∃ P : Nat → Matrix (NkIdx ι k) (NkIdx ι k) ℂ,
      (∀ a, (P a)ᴴ = P a) ∧ (∀ a, P a * P a = P a) ∧ (∀ a b, a ≠ b → P a * P b = 0) ∧ sumN k P = 1 ∧
      (nkJ ι k)ᴴ * nkJ ι k = 1 ∧ ∀ a, a < k → (nkJ ι k)ᴴ * P a * nkJ ι k = E a :=
  ⟨dilP k E, dilP_herm k E, fun a => by rw [dilP_mul]; simp, fun a b hab => by rw [dilP_mul]; simp [hab],
    dilP_sum k hk E h, nkJ_isometry, dilP_compress k E h⟩

end Dil

/-! ### commuting projective strategies on an arbitrary finite index type, re-indexed to `Fin d` -/

section On
variable {κ : Type} [Fintype κ] [DecidableEq κ]

/-- `QStrategy` with the Hilbert space `ℂ^κ` for an arbitrary finite type `κ` (sums, products of index types) -/
structure QStrategyOn (κ : Type) [Fintype κ] [DecidableEq κ] (ao bo ai bi : Nat) where
  A : Nat → Nat → Matrix κ κ ℂ
  B : Nat → Nat → Matrix κ κ ℂ
  psi : κ → ℂ
  A_herm : ∀ x a, (A x a)ᴴ = A x a
  A_idem : ∀ x a, A x a * A x a = A x a
  A_orth : ∀ x a a', a ≠ a' → A x a * A x a' = 0
  A_sum : ∀ x, x < ai → sumN ao (fun a => A x a) = 1
  B_herm : ∀ y b, (B y b)ᴴ = B y b
  B_idem : ∀ y b, B y b * B y b = B y b
  B_orth : ∀ y b b', b ≠ b' → B y b * B y b' = 0
  B_sum : ∀ y, y < bi → sumN bo (fun b => B y b) = 1
  comm : ∀ x a y b, A x a * B y b = B y b * A x a
  psi_norm : star psi ⬝ᵥ psi = 1

variable {ao bo ai bi : Nat}

/-- the behaviour `⟨psi| A x a · B y b |psi⟩` -/
def QStrategyOn.K (S : QStrategyOn κ ao bo ai bi) : Nat → Nat → Nat → Nat → ℂ :=
  fun a b x y => star S.psi ⬝ᵥ ((S.A x a * S.B y b) *ᵥ S.psi)

theorem submatrix_sumN {m : Type} (e : m → κ) (F : Nat → Matrix κ κ ℂ) :
    ∀ n, (sumN n F).submatrix e e = sumN n (fun k => (F k).submatrix e e)
  | 0 => by simp [sumN]
  | n + 1 => by
    have ih := submatrix_sumN e F n
    ext i j
    have := congrFun (congrFun ih i) j
    simp only [sumN, Matrix.submatrix_apply, Matrix.add_apply] at this ⊢
    rw [this]

/-- re-indexing along `κ ≃ Fin (card κ)` -/
noncomputable def QStrategyOn.toFin (S : QStrategyOn κ ao bo ai bi) : QStrategy (Fintype.card κ) ao bo ai bi :=
  let e := (Fintype.equivFin κ).symm
  { A := fun x a => (S.A x a).submatrix e e
    B := fun y b => (S.B y b).submatrix e e
    psi := S.psi ∘ e
    A_herm := fun x a => by rw [Matrix.conjTranspose_submatrix, S.A_herm]
    A_idem := fun x a => by rw [Matrix.submatrix_mul_equiv, S.A_idem]
    A_orth := fun x a a' h => by rw [Matrix.submatrix_mul_equiv, S.A_orth x a a' h, Matrix.submatrix_zero]; rfl
    A_sum := fun x hx => by rw [← submatrix_sumN, S.A_sum x hx, Matrix.submatrix_one_equiv]
    B_herm := fun y b => by rw [Matrix.conjTranspose_submatrix, S.B_herm]
    B_idem := fun y b => by rw [Matrix.submatrix_mul_equiv, S.B_idem]
    B_orth := fun y b b' h => by rw [Matrix.submatrix_mul_equiv, S.B_orth y b b' h, Matrix.submatrix_zero]; rfl
    B_sum := fun y hy => by rw [← submatrix_sumN, S.B_sum y hy, Matrix.submatrix_one_equiv]
    comm := fun x a y b => by rw [Matrix.submatrix_mul_equiv, Matrix.submatrix_mul_equiv, S.comm]
    psi_norm := by
      rw [← S.psi_norm]
      show ∑ i, star (S.psi (e i)) * S.psi (e i) = ∑ j, star (S.psi j) * S.psi j
      exact Equiv.sum_comp e (fun j => star (S.psi j) * S.psi j) }

theorem QStrategyOn.toFin_K (S : QStrategyOn κ ao bo ai bi) : S.toFin.K = S.K := by
  funext a b x y
  let e := (Fintype.equivFin κ).symm
  show star (S.psi ∘ e) ⬝ᵥ (((S.A x a).submatrix e e * (S.B y b).submatrix e e) *ᵥ (S.psi ∘ e)) = _
  rw [Matrix.submatrix_mul_equiv, Matrix.submatrix_mulVec_equiv]
  unfold QStrategyOn.K
  have : (S.psi ∘ ⇑e) ∘ ⇑e.symm = S.psi := by
    funext j; simp
  rw [this]
  simp only [dotProduct, Function.comp_apply, Pi.star_apply]
  exact Equiv.sum_comp e (fun j => star (S.psi j) * ((S.A x a * S.B y b) *ᵥ S.psi) j)

end On

/-! ### tensor-product POVM strategies and their projective dilation -/

section Povm

/-- A **general finite-dimensional quantum strategy** in tensor-product form: POVMs `E x a` (Alice, question `x`,
    answer `a`) on `ℂ^dA`, POVMs `F y b` (Bob) on `ℂ^dB` — positive semidefinite, summing to the identity for every
    question of the game — and a unit vector `psi` of `ℂ^dA ⊗ ℂ^dB`.  (Operators with indices outside the alphabets
    are irrelevant; mixed states reduce to this by purification, see `Toq/Proofs/NpaSeesaw.lean`.) -/
structure PovmStrategy (dA dB ao bo ai bi : Nat) where
  E : Nat → Nat → Matrix (Fin dA) (Fin dA) ℂ
  F : Nat → Nat → Matrix (Fin dB) (Fin dB) ℂ
  psi : Fin dA × Fin dB → ℂ
  E_povm : ∀ x, x < ai → IsPovmN ao (E x)
  F_povm : ∀ y, y < bi → IsPovmN bo (F y)
  psi_norm : star psi ⬝ᵥ psi = 1

variable {dA dB ao bo ai bi : Nat} (T : PovmStrategy dA dB ao bo ai bi)

/-- the behaviour `p(a, b | x, y) = ⟨psi| E x a ⊗ F y b |psi⟩` (zero outside the alphabets) -/
def PovmStrategy.K : Nat → Nat → Nat → Nat → ℂ := fun a b x y =>
  if a < ao ∧ b < bo ∧ x < ai ∧ y < bi then star T.psi ⬝ᵥ ((T.E x a ⊗ₖ T.F y b) *ᵥ T.psi) else 0

theorem expect_conj {κ ι : Type} [Fintype κ] [Fintype ι] (J : Matrix κ ι ℂ) (M : Matrix κ κ ℂ) (v : ι → ℂ) :
    star (J *ᵥ v) ⬝ᵥ (M *ᵥ (J *ᵥ v)) = star v ⬝ᵥ ((Jᴴ * M * J) *ᵥ v) := by
  rw [Matrix.star_mulVec, ← Matrix.dotProduct_mulVec, Matrix.mulVec_mulVec, Matrix.mulVec_mulVec, Matrix.mul_assoc]

theorem sumN_kronecker_one {κ κ' : Type} [DecidableEq κ'] (F : Nat → Matrix κ κ ℂ) :
    ∀ n, sumN n (fun a => F a ⊗ₖ (1 : Matrix κ' κ' ℂ)) = sumN n F ⊗ₖ (1 : Matrix κ' κ' ℂ)
  | 0 => by simp [sumN]
  | n + 1 => by
    show sumN n (fun a => F a ⊗ₖ (1 : Matrix κ' κ' ℂ)) + F n ⊗ₖ 1 = (sumN n F + F n) ⊗ₖ 1
    rw [sumN_kronecker_one F n, Matrix.add_kronecker]

theorem sumN_one_kronecker {κ κ' : Type} [DecidableEq κ'] (F : Nat → Matrix κ κ ℂ) :
    ∀ n, sumN n (fun a => (1 : Matrix κ' κ' ℂ) ⊗ₖ F a) = (1 : Matrix κ' κ' ℂ) ⊗ₖ sumN n F
  | 0 => by simp [sumN]
  | n + 1 => by
    show sumN n (fun a => (1 : Matrix κ' κ' ℂ) ⊗ₖ F a) + 1 ⊗ₖ F n = 1 ⊗ₖ (sumN n F + F n)
    rw [sumN_one_kronecker F n, Matrix.kronecker_add]

/-- Alice's dilated projectors on `ℂ^dA ⊕ (ℂ^ao ⊗ ℂ^dA)` (zero for questions outside the game) -/
noncomputable def PovmStrategy.PA (x a : Nat) : Matrix (NkIdx (Fin dA) ao) (NkIdx (Fin dA) ao) ℂ :=
  if x < ai then dilP ao (T.E x) a else 0

/-- Bob's dilated projectors -/
noncomputable def PovmStrategy.PB (y b : Nat) : Matrix (NkIdx (Fin dB) bo) (NkIdx (Fin dB) bo) ℂ :=
  if y < bi then dilP bo (T.F y) b else 0

theorem PovmStrategy.PA_herm (x a : Nat) : (T.PA x a)ᴴ = T.PA x a := by
  unfold PovmStrategy.PA; split
  · exact dilP_herm _ _ _
  · simp

theorem PovmStrategy.PA_mul (x a a' : Nat) : T.PA x a * T.PA x a' = if a = a' then T.PA x a else 0 := by
  unfold PovmStrategy.PA; split
  · exact dilP_mul _ _ _ _
  · simp

theorem PovmStrategy.PB_herm (y b : Nat) : (T.PB y b)ᴴ = T.PB y b := by
  unfold PovmStrategy.PB; split
  · exact dilP_herm _ _ _
  · simp

theorem PovmStrategy.PB_mul (y b b' : Nat) : T.PB y b * T.PB y b' = if b = b' then T.PB y b else 0 := by
  unfold PovmStrategy.PB; split
  · exact dilP_mul _ _ _ _
  · simp

/-- **the projective dilation of a POVM strategy**: Alice measures `P x a ⊗ 1`, Bob `1 ⊗ Q y b` on
    `(ℂ^dA ⊕ ℂ^ao ⊗ ℂ^dA) ⊗ (ℂ^dB ⊕ ℂ^bo ⊗ ℂ^dB)`, the state is `(J_A ⊗ J_B) psi` -/
noncomputable def PovmStrategy.dilateOn (hao : 0 < ao) (hbo : 0 < bo) :
    QStrategyOn (NkIdx (Fin dA) ao × NkIdx (Fin dB) bo) ao bo ai bi where
  A := fun x a => T.PA x a ⊗ₖ (1 : Matrix (NkIdx (Fin dB) bo) (NkIdx (Fin dB) bo) ℂ)
  B := fun y b => (1 : Matrix (NkIdx (Fin dA) ao) (NkIdx (Fin dA) ao) ℂ) ⊗ₖ T.PB y b
  psi := (nkJ (Fin dA) ao ⊗ₖ nkJ (Fin dB) bo) *ᵥ T.psi
  A_herm := fun x a => by rw [Matrix.conjTranspose_kronecker, T.PA_herm, Matrix.conjTranspose_one]
  A_idem := fun x a => by rw [← Matrix.mul_kronecker_mul, T.PA_mul, Matrix.one_mul]; simp
  A_orth := fun x a a' h => by rw [← Matrix.mul_kronecker_mul, T.PA_mul]; simp [h]
  A_sum := fun x hx => by
    rw [sumN_kronecker_one]
    unfold PovmStrategy.PA
    simp only [hx, if_true]
    rw [dilP_sum ao hao (T.E x) (T.E_povm x hx), Matrix.one_kronecker_one]
  B_herm := fun y b => by rw [Matrix.conjTranspose_kronecker, T.PB_herm, Matrix.conjTranspose_one]
  B_idem := fun y b => by rw [← Matrix.mul_kronecker_mul, T.PB_mul, Matrix.one_mul]; simp
  B_orth := fun y b b' h => by rw [← Matrix.mul_kronecker_mul, T.PB_mul]; simp [h]
  B_sum := fun y hy => by
    rw [sumN_one_kronecker]
    unfold PovmStrategy.PB
    simp only [hy, if_true]
    rw [dilP_sum bo hbo (T.F y) (T.F_povm y hy), Matrix.one_kronecker_one]
  comm := fun x a y b => by
    rw [← Matrix.mul_kronecker_mul, ← Matrix.mul_kronecker_mul, Matrix.one_mul, Matrix.mul_one, Matrix.one_mul,
      Matrix.mul_one]
  psi_norm := by
    have h := expect_conj (nkJ (Fin dA) ao ⊗ₖ nkJ (Fin dB) bo) 1 T.psi
    rw [Matrix.one_mulVec] at h
    rw [h, Matrix.mul_one, Matrix.conjTranspose_kronecker, ← Matrix.mul_kronecker_mul, nkJ_isometry, nkJ_isometry,
      Matrix.one_kronecker_one, Matrix.one_mulVec]
    exact T.psi_norm

/-- the dilation has **the same behaviour** as the POVM strategy -/
theorem PovmStrategy.dilateOn_K (hao : 0 < ao) (hbo : 0 < bo) : (T.dilateOn hao hbo).K = T.K := by
  funext a b x y
  unfold QStrategyOn.K PovmStrategy.K
  show star ((nkJ (Fin dA) ao ⊗ₖ nkJ (Fin dB) bo) *ᵥ T.psi) ⬝ᵥ
      ((T.PA x a ⊗ₖ (1 : Matrix (NkIdx (Fin dB) bo) (NkIdx (Fin dB) bo) ℂ)
        * ((1 : Matrix (NkIdx (Fin dA) ao) (NkIdx (Fin dA) ao) ℂ) ⊗ₖ T.PB y b))
        *ᵥ ((nkJ (Fin dA) ao ⊗ₖ nkJ (Fin dB) bo) *ᵥ T.psi)) = _
  rw [expect_conj, ← Matrix.mul_kronecker_mul, Matrix.mul_one, Matrix.one_mul, Matrix.conjTranspose_kronecker,
    ← Matrix.mul_kronecker_mul, ← Matrix.mul_kronecker_mul]
  unfold PovmStrategy.PA PovmStrategy.PB
  by_cases hx : x < ai
  · by_cases hy : y < bi
    · by_cases ha : a < ao
      · by_cases hb : b < bo
        · simp only [hx, hy, ha, hb, if_true, and_self]
          rw [dilP_compress ao (T.E x) (T.E_povm x hx) a ha, dilP_compress bo (T.F y) (T.F_povm y hy) b hb]
        · have : dilP bo (T.F y) b = 0 := by unfold dilP; rw [dif_neg (fun h => hb h.2)]
          simp [hb, this]
      · have : dilP ao (T.E x) a = 0 := by unfold dilP; rw [dif_neg (fun h => ha h.2)]
        simp [ha, this]
    · simp [hy]
  · simp [hx]

/-- **Every POVM strategy is a commuting projective strategy in a larger dimension with the same behaviour.** -/
theorem PovmStrategy.exists_dilation (hao : 0 < ao) (hbo : 0 < bo) :
    ∃ (D : Nat) (S : QStrategy D ao bo ai bi), S.K = T.K :=
  ⟨_, (T.dilateOn hao hbo).toFin, by rw [QStrategyOn.toFin_K, T.dilateOn_K]⟩

end Povm

end Toq.Npa
