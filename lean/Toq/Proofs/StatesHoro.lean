import Toq.Proofs.States
import Mathlib.Tactic.NormNum
/-!
# Horodecki states: quadratic forms of the state and of its partial transpose (helper lemmas for C17)

`horodecki33 a c` / `horodecki24 a c` are the models of `horodecki(a, [3,3])` / `horodecki(a, [2,4])` with
`c = √(1-a²)/2` passed in as a parameter subject to `4c² = 1 - a²`.  Both the state and its partial transpose
decompose into rank-one blocks `a·(v_i + v_j (+ v_k))²`, diagonal entries `a` and one `2 × 2` block
`[[b, c], [c, b - a]]` (`b = (1+a)/2`) of determinant `(1-a²)/4 - c² = 0`.
-/
open Toq.Matrices Toq.Spec17

namespace Toq.States
section horo
variable {α : Type} [Field α] [LinearOrder α] [IsStrictOrderedRing α]

/-- the `2 × 2` form `[[b, c], [c, b - a]]`, `b = (1+a)/2`, has determinant `(1 - a²)/4 - c² = 0` and is PSD -/
theorem horo_two_form_nonneg (a c x y : α) (ha0 : 0 ≤ a) (hc : 4 * c * c = 1 - a * a) :
    0 ≤ (1 + a) / 2 * (x * x) + 2 * c * (x * y) + ((1 + a) / 2 - a) * (y * y) := by
  have hb : 0 < (1 + a) / 2 := by linarith
  have e : (1 + a) / 2 * (x * x) + 2 * c * (x * y) + ((1 + a) / 2 - a) * (y * y)
      = (((1 + a) / 2 * x + c * y) * ((1 + a) / 2 * x + c * y)) / ((1 + a) / 2) := by
    field_simp
    linear_combination (-(y * y)) * hc
  rw [e]
  exact div_nonneg (mul_self_nonneg _) hb.le

omit [LinearOrder α] [IsStrictOrderedRing α] in
theorem quadForm_horodecki33 (a c : α) (v : Nat → α) :
    quadForm 9 (horodecki33 a c) v
      = (1 / (8 * a + 1)) * (a * ((v 0 + v 4 + v 8) * (v 0 + v 4 + v 8))
          + a * (v 1 * v 1 + v 2 * v 2 + v 3 * v 3 + v 5 * v 5 + v 7 * v 7)
          + ((1 + a) / 2 * (v 6 * v 6) + 2 * c * (v 6 * v 8) + ((1 + a) / 2 - a) * (v 8 * v 8))) := by
  simp only [quadForm, sumN, horodecki33]
  norm_num
  ring

omit [LinearOrder α] [IsStrictOrderedRing α] in
theorem quadForm_horodecki33_pt (a c : α) (v : Nat → α) :
    quadForm 9 (pT2 3 (horodecki33 a c)) v
      = (1 / (8 * a + 1)) * (a * ((v 1 + v 3) * (v 1 + v 3)) + a * ((v 5 + v 7) * (v 5 + v 7))
          + a * ((v 2 + v 6) * (v 2 + v 6)) + a * (v 0 * v 0 + v 4 * v 4)
          + ((1 + a) / 2 * (v 8 * v 8) + 2 * c * (v 8 * v 6) + ((1 + a) / 2 - a) * (v 6 * v 6))) := by
  simp only [quadForm, sumN, horodecki33, pT2]
  norm_num
  ring

omit [LinearOrder α] [IsStrictOrderedRing α] in
theorem quadForm_horodecki24 (a c : α) (v : Nat → α) :
    quadForm 8 (horodecki24 a c) v
      = (1 / (7 * a + 1)) * (a * ((v 0 + v 5) * (v 0 + v 5)) + a * ((v 1 + v 6) * (v 1 + v 6))
          + a * ((v 2 + v 7) * (v 2 + v 7)) + a * (v 3 * v 3)
          + ((1 + a) / 2 * (v 4 * v 4) + 2 * c * (v 4 * v 7) + ((1 + a) / 2 - a) * (v 7 * v 7))) := by
  simp only [quadForm, sumN, horodecki24]
  norm_num
  ring

omit [LinearOrder α] [IsStrictOrderedRing α] in
theorem quadForm_horodecki24_pt (a c : α) (v : Nat → α) :
    quadForm 8 (pT2 4 (horodecki24 a c)) v
      = (1 / (7 * a + 1)) * (a * ((v 2 + v 5) * (v 2 + v 5)) + a * ((v 3 + v 6) * (v 3 + v 6))
          + a * ((v 1 + v 4) * (v 1 + v 4)) + a * (v 0 * v 0)
          + ((1 + a) / 2 * (v 7 * v 7) + 2 * c * (v 7 * v 4) + ((1 + a) / 2 - a) * (v 4 * v 4))) := by
  simp only [quadForm, sumN, horodecki24, pT2]
  norm_num
  ring

theorem horodecki33_psd_aux (a c : α) (ha0 : 0 ≤ a) (hc : 4 * c * c = 1 - a * a) : PSD 9 (horodecki33 a c) := by
  intro v
  rw [quadForm_horodecki33]
  have hn : (0 : α) < 8 * a + 1 := by linarith
  have h0 := horo_two_form_nonneg a c (v 6) (v 8) ha0 hc
  have h1 := mul_nonneg ha0 (mul_self_nonneg (v 0 + v 4 + v 8))
  have h2 : 0 ≤ a * (v 1 * v 1 + v 2 * v 2 + v 3 * v 3 + v 5 * v 5 + v 7 * v 7) :=
    mul_nonneg ha0 (add_nonneg (add_nonneg (add_nonneg (add_nonneg (mul_self_nonneg _) (mul_self_nonneg _))
      (mul_self_nonneg _)) (mul_self_nonneg _)) (mul_self_nonneg _))
  exact mul_nonneg (div_nonneg zero_le_one hn.le) (by linarith)

theorem horodecki33_ppt_aux (a c : α) (ha0 : 0 ≤ a) (hc : 4 * c * c = 1 - a * a) :
    PSD 9 (pT2 3 (horodecki33 a c)) := by
  intro v
  rw [quadForm_horodecki33_pt]
  have hn : (0 : α) < 8 * a + 1 := by linarith
  have h0 := horo_two_form_nonneg a c (v 8) (v 6) ha0 hc
  have h1 := mul_nonneg ha0 (mul_self_nonneg (v 1 + v 3))
  have h2 := mul_nonneg ha0 (mul_self_nonneg (v 5 + v 7))
  have h3 := mul_nonneg ha0 (mul_self_nonneg (v 2 + v 6))
  have h4 : 0 ≤ a * (v 0 * v 0 + v 4 * v 4) :=
    mul_nonneg ha0 (add_nonneg (mul_self_nonneg _) (mul_self_nonneg _))
  exact mul_nonneg (div_nonneg zero_le_one hn.le) (by linarith)

theorem horodecki24_psd_aux (a c : α) (ha0 : 0 ≤ a) (hc : 4 * c * c = 1 - a * a) : PSD 8 (horodecki24 a c) := by
  intro v
  rw [quadForm_horodecki24]
  have hn : (0 : α) < 7 * a + 1 := by linarith
  have h0 := horo_two_form_nonneg a c (v 4) (v 7) ha0 hc
  have h1 := mul_nonneg ha0 (mul_self_nonneg (v 0 + v 5))
  have h2 := mul_nonneg ha0 (mul_self_nonneg (v 1 + v 6))
  have h3 := mul_nonneg ha0 (mul_self_nonneg (v 2 + v 7))
  have h4 := mul_nonneg ha0 (mul_self_nonneg (v 3))
  exact mul_nonneg (div_nonneg zero_le_one hn.le) (by linarith)

theorem horodecki24_ppt_aux (a c : α) (ha0 : 0 ≤ a) (hc : 4 * c * c = 1 - a * a) :
    PSD 8 (pT2 4 (horodecki24 a c)) := by
  intro v
  rw [quadForm_horodecki24_pt]
  have hn : (0 : α) < 7 * a + 1 := by linarith
  have h0 := horo_two_form_nonneg a c (v 7) (v 4) ha0 hc
  have h1 := mul_nonneg ha0 (mul_self_nonneg (v 2 + v 5))
  have h2 := mul_nonneg ha0 (mul_self_nonneg (v 3 + v 6))
  have h3 := mul_nonneg ha0 (mul_self_nonneg (v 1 + v 4))
  have h4 := mul_nonneg ha0 (mul_self_nonneg (v 0))
  exact mul_nonneg (div_nonneg zero_le_one hn.le) (by linarith)

omit [LinearOrder α] [IsStrictOrderedRing α] in
theorem horodecki33_symm (a c : α) : ∀ i, i < 9 → ∀ j, j < 9 → horodecki33 a c i j = horodecki33 a c j i := by
  intro i hi j hj
  interval_cases i <;> interval_cases j <;> simp [horodecki33]

omit [LinearOrder α] [IsStrictOrderedRing α] in
theorem horodecki24_symm (a c : α) : ∀ i, i < 8 → ∀ j, j < 8 → horodecki24 a c i j = horodecki24 a c j i := by
  intro i hi j hj
  interval_cases i <;> interval_cases j <;> simp [horodecki24]
end horo
end Toq.States
