import Toq.Proofs.PPTDiscHier
import Toq.Proofs.ExclusionCompact
import Toq.Proofs.ExclusionFamilies
/-!
# Helper lemmas for C12, part 3: the PPT optimum is attained; duality gap and complementary slackness

* `kronF` is bilinear; `pTf sys` is continuous and fixes `0` and `1`;
* the set of PPT measurements is a closed subset of the compact set of measurements, so the maximum of the success
  probability over it is attained (`ppt_max_attained_gen`);
* the duality gap of a PPT measurement `M` and a dual point `(Y, Q)` is
  `Σ_i tr((Y − p_i ρ_i − T(Q_i)) M_i) + Σ_i tr(Q_i T(M_i))` (`ppt_gap_gen`), a sum of non-negative terms that vanishes iff
  every product vanishes (`ppt_gap_zero_iff_gen`).
-/

open Matrix
open scoped ComplexOrder MatrixOrder Kronecker
set_option linter.unusedSectionVars false

namespace Toq.PPTDisc

section KronF
variable {dA dB : Nat}

theorem kronF_zero_left (B : Matrix (Fin dB) (Fin dB) ℂ) :
    kronF (0 : Matrix (Fin dA) (Fin dA) ℂ) B = 0 := by
  ext i j; simp [kronF, ofP]

theorem kronF_sum_left {ι : Type*} (s : Finset ι) (A : ι → Matrix (Fin dA) (Fin dA) ℂ)
    (B : Matrix (Fin dB) (Fin dB) ℂ) : kronF (∑ a ∈ s, A a) B = ∑ a ∈ s, kronF (A a) B := by
  ext i j
  simp only [kronF, ofP, Matrix.submatrix_apply, Matrix.kroneckerMap_apply, Matrix.sum_apply, Finset.sum_mul]

theorem kronF_sum_right {ι : Type*} (s : Finset ι) (A : Matrix (Fin dA) (Fin dA) ℂ)
    (B : ι → Matrix (Fin dB) (Fin dB) ℂ) : kronF A (∑ b ∈ s, B b) = ∑ b ∈ s, kronF A (B b) := by
  ext i j
  simp only [kronF, ofP, Matrix.submatrix_apply, Matrix.kroneckerMap_apply, Matrix.sum_apply, Finset.mul_sum]

theorem toP_sum {ι : Type*} (s : Finset ι) (X : ι → Matrix (Fin (dA * dB)) (Fin (dA * dB)) ℂ) :
    toP (∑ a ∈ s, X a) = ∑ a ∈ s, toP (X a) := by
  ext i j
  simp only [toP, Matrix.submatrix_apply, Matrix.sum_apply]

theorem toP_kronF (A : Matrix (Fin dA) (Fin dA) ℂ) (B : Matrix (Fin dB) (Fin dB) ℂ) :
    toP (kronF A B) = A ⊗ₖ B := toP_ofP _

theorem toP_posSemidef {X : Matrix (Fin (dA * dB)) (Fin (dA * dB)) ℂ} :
    (toP X).PosSemidef ↔ X.PosSemidef := Matrix.posSemidef_submatrix_equiv _

theorem pTBf_one : pTBf (1 : Matrix (Fin (dA * dB)) (Fin (dA * dB)) ℂ) = 1 := by
  rw [← kronF_one, pTBf_kronF, Matrix.transpose_one]

theorem pTf_one (sys : Nat) : pTf sys (1 : Matrix (Fin (dA * dB)) (Fin (dA * dB)) ℂ) = 1 := by
  unfold pTf
  split
  · rw [pTAf_eq_transpose, pTBf_one, Matrix.transpose_one]
  · exact pTBf_one

theorem pTf_zero (sys : Nat) : pTf sys (0 : Matrix (Fin (dA * dB)) (Fin (dA * dB)) ℂ) = 0 := by
  unfold pTf; split <;> rfl

theorem continuous_pTBf : Continuous (pTBf : Matrix (Fin (dA * dB)) (Fin (dA * dB)) ℂ → _) := by
  refine continuous_matrix fun i j => ?_
  simp only [pTBf_apply]
  exact continuous_id.matrix_elem _ _

theorem continuous_pTf (sys : Nat) :
    Continuous (pTf sys : Matrix (Fin (dA * dB)) (Fin (dA * dB)) ℂ → _) := by
  unfold pTf
  split
  · exact continuous_pTBf.matrix_transpose
  · exact continuous_pTBf

end KronF

section Attain
variable {ι κ : Type*} [Fintype ι] [DecidableEq ι] [Fintype κ]
open Toq.Excl

/-- the maximum of the success probability over the measurements with `T(M_i) ⪰ 0` is attained, for every continuous
`T` with `T(0) ⪰ 0`, `T(1) ⪰ 0` -/
theorem ppt_max_attained_gen [DecidableEq κ] [Nonempty κ] (T : Matrix ι ι ℂ → Matrix ι ι ℂ) (hTc : Continuous T)
    (hT0 : (T 0).PosSemidef) (hT1 : (T 1).PosSemidef) (ρ : κ → Matrix ι ι ℂ) (p : κ → ℝ) :
    ∃ M : κ → Matrix ι ι ℂ, ((∀ i, (M i).PosSemidef) ∧ ∑ i, M i = 1 ∧ ∀ i, (T (M i)).PosSemidef) ∧
      ∀ M' : κ → Matrix ι ι ℂ, (∀ i, (M' i).PosSemidef) → ∑ i, M' i = 1 → (∀ i, (T (M' i)).PosSemidef) →
        ∑ i, p i * (ρ i * M' i).trace.re ≤ ∑ i, p i * (ρ i * M i).trace.re := by
  classical
  set S : Set (κ → Matrix ι ι ℂ) := povmSet ι κ ∩ ⋂ i : κ, (fun M : κ → Matrix ι ι ℂ => T (M i)) ⁻¹' {A | A.PosSemidef}
    with hS
  have hclosed : IsClosed (⋂ i : κ, (fun M : κ → Matrix ι ι ℂ => T (M i)) ⁻¹' {A | A.PosSemidef}) :=
    isClosed_iInter fun i => isClosed_psd.preimage (hTc.comp (continuous_apply i))
  have hcomp : IsCompact S := povmSet_isCompact.inter_right hclosed
  have hne : S.Nonempty := by
    refine ⟨constPovm (Classical.arbitrary κ), ⟨constPovm_psd _, constPovm_sum _⟩, ?_⟩
    simp only [Set.mem_iInter, Set.mem_preimage, Set.mem_ofPred_eq]
    intro i
    unfold constPovm
    split
    · exact hT1
    · exact hT0
  have hc : ContinuousOn (fun M : κ → Matrix ι ι ℂ => ∑ i, p i * (ρ i * M i).trace.re) S := by
    apply Continuous.continuousOn
    fun_prop
  obtain ⟨M, hM, hmax⟩ := hcomp.exists_isMaxOn hne hc
  have hM2 : ∀ i, (T (M i)).PosSemidef := by
    have := hM.2
    simp only [Set.mem_iInter, Set.mem_preimage, Set.mem_ofPred_eq] at this
    exact this
  refine ⟨M, ⟨hM.1.1, hM.1.2, hM2⟩, fun M' h1 h2 h3 => ?_⟩
  have hM' : M' ∈ S := by
    refine ⟨⟨h1, h2⟩, ?_⟩
    simp only [Set.mem_iInter, Set.mem_preimage, Set.mem_ofPred_eq]
    exact h3
  exact hmax hM'

end Attain

section Gap
variable {ι κ : Type*} [Fintype ι] [DecidableEq ι] [Fintype κ]
open Toq.Excl Toq.Discrim

/-- the duality gap of PPT discrimination as a sum of traces of products of positive semidefinite operators -/
theorem ppt_gap_gen (T : Matrix ι ι ℂ → Matrix ι ι ℂ)
    (hT : ∀ A B, (T A * B).trace = (A * T B).trace)
    (ρ : κ → Matrix ι ι ℂ) (p : κ → ℝ) (M Q : κ → Matrix ι ι ℂ) (Y : Matrix ι ι ℂ) (hsum : ∑ i, M i = 1) :
    Y.trace.re - ∑ i, p i * (ρ i * M i).trace.re
      = ∑ i, ((Y - (p i : ℂ) • ρ i - T (Q i)) * M i).trace.re + ∑ i, (Q i * T (M i)).trace.re := by
  have h2 : Y.trace = ∑ i, (Y * M i).trace := by
    rw [← Matrix.trace_sum, ← Matrix.mul_sum, hsum, Matrix.mul_one]
  rw [h2, Complex.re_sum, ← Finset.sum_sub_distrib, ← Finset.sum_add_distrib]
  refine Finset.sum_congr rfl fun i _ => ?_
  simp only [Matrix.sub_mul, Matrix.trace_sub, Complex.sub_re, re_trace_smul_mul, hT]
  ring

/-- the gap vanishes iff all the products vanish (complementary slackness) -/
theorem ppt_gap_zero_iff_gen (T : Matrix ι ι ℂ → Matrix ι ι ℂ)
    (hT : ∀ A B, (T A * B).trace = (A * T B).trace)
    (ρ : κ → Matrix ι ι ℂ) (p : κ → ℝ) (M Q : κ → Matrix ι ι ℂ) (Y : Matrix ι ι ℂ)
    (hM : ∀ i, (M i).PosSemidef) (hsum : ∑ i, M i = 1) (hTM : ∀ i, (T (M i)).PosSemidef)
    (hQ : ∀ i, (Q i).PosSemidef) (hS : ∀ i, (Y - (p i : ℂ) • ρ i - T (Q i)).PosSemidef) :
    ∑ i, p i * (ρ i * M i).trace.re = Y.trace.re ↔
      ∀ i, (Y - (p i : ℂ) • ρ i - T (Q i)) * M i = 0 ∧ Q i * T (M i) = 0 := by
  have hgap := ppt_gap_gen T hT ρ p M Q Y hsum
  have hn1 : ∀ i ∈ Finset.univ, 0 ≤ ((Y - (p i : ℂ) • ρ i - T (Q i)) * M i).trace.re :=
    fun i _ => psd_trace_mul_nonneg (hS i) (hM i)
  have hn2 : ∀ i ∈ Finset.univ, 0 ≤ (Q i * T (M i)).trace.re :=
    fun i _ => psd_trace_mul_nonneg (hQ i) (hTM i)
  constructor
  · intro h i
    have h0 : ∑ i, ((Y - (p i : ℂ) • ρ i - T (Q i)) * M i).trace.re + ∑ i, (Q i * T (M i)).trace.re = 0 := by
      rw [← hgap, h, sub_self]
    have ha : ∑ i, ((Y - (p i : ℂ) • ρ i - T (Q i)) * M i).trace.re = 0 := by
      have := Finset.sum_nonneg hn1; have := Finset.sum_nonneg hn2; linarith
    have hb : ∑ i, (Q i * T (M i)).trace.re = 0 := by
      have := Finset.sum_nonneg hn1; have := Finset.sum_nonneg hn2; linarith
    have hai := (Finset.sum_eq_zero_iff_of_nonneg hn1).mp ha i (Finset.mem_univ i)
    have hbi := (Finset.sum_eq_zero_iff_of_nonneg hn2).mp hb i (Finset.mem_univ i)
    exact ⟨psd_mul_eq_zero_of_trace (hS i) (hM i) ((psd_trace_mul_re_eq_zero_iff (hS i) (hM i)).mp hai),
      psd_mul_eq_zero_of_trace (hQ i) (hTM i) ((psd_trace_mul_re_eq_zero_iff (hQ i) (hTM i)).mp hbi)⟩
  · intro h
    have ha : ∑ i, ((Y - (p i : ℂ) • ρ i - T (Q i)) * M i).trace.re = 0 :=
      Finset.sum_eq_zero fun i _ => by rw [(h i).1]; simp
    have hb : ∑ i, (Q i * T (M i)).trace.re = 0 :=
      Finset.sum_eq_zero fun i _ => by rw [(h i).2]; simp
    rw [ha, hb] at hgap
    linarith

end Gap

/-! ## `strategy = "unambig"`: soundness of the checker, and the unambiguous value is at most the minimum-error value -/

section Unamb
open EMat Toq.Discrim
variable {dA dB : Nat}

theorem checkPPTUnambPrimalFn_sound (sys k : Nat) (ρ : Fin k → EMat (dA * dB) (dA * dB)) (p : Fin k → Rat)
    (M LM LT : Fin (k + 1) → EMat (dA * dB) (dA * dB)) (lo : Rat)
    (h : checkPPTUnambPrimalFn sys k ρ p M LM LT = some lo) :
    (∀ i, (M i).toM.PosSemidef) ∧ ∑ i, (M i).toM = 1 ∧ (∀ i, (pTf sys (M i).toM).PosSemidef) ∧
      (∀ i j : Fin k, i ≠ j → ((((p j : Rat) : ℝ) : ℂ) • (ρ j).toM * (M i.castSucc).toM).trace = 0) ∧
      ∑ i : Fin k, ((p i : Rat) : ℝ) * ((ρ i).toM * (M i.castSucc).toM).trace.re = (lo : ℝ) := by
  unfold checkPPTUnambPrimalFn at h
  split at h
  · next hc =>
    simp only [Bool.and_eq_true, povmPsdOk, povmSumOk, pptPsdOk, unambZeroOk, allFin_iff, Bool.or_eq_true,
      decide_eq_true_eq] at hc
    obtain ⟨⟨⟨hpsd, hsum⟩, hppt⟩, hz⟩ := hc
    refine ⟨fun i => psdCert_sound _ _ (hpsd i), ?_, fun i => ?_, fun i j hij => ?_, ?_⟩
    · rw [← toM_sumMats, beq_sound _ _ hsum, toM_one]
    · rw [← toM_pT]; exact psdCert_sound _ _ (hppt i)
    · have h0 := (hz i j).resolve_left hij
      have := congrArg QI.toC h0
      rw [unambOverlap, toC_trace, toM_mul, toM_smul] at this
      simpa using this
    · rw [← minErrValueFn_cast]
      exact congrArg _ (Option.some.inj h)
  · exact absurd h (by simp)

end Unamb

section Merge
variable {ι : Type*} [Fintype ι] [DecidableEq ι]
open Toq.Discrim

/-- merging the inconclusive outcome of a `(k+1)`-outcome measurement into outcome `0` gives a `k`-outcome measurement
that satisfies every additive positivity constraint the original satisfies, with at least the same success probability -/
theorem unamb_merge {k : Nat} (hk : 0 < k) (T : Matrix ι ι ℂ → Matrix ι ι ℂ)
    (hTadd : ∀ A B, T (A + B) = T A + T B) (ρ : Fin k → Matrix ι ι ℂ) (p : Fin k → ℝ)
    (hρ : (ρ ⟨0, hk⟩).PosSemidef) (hp : 0 ≤ p ⟨0, hk⟩)
    (M : Fin (k + 1) → Matrix ι ι ℂ) (hM : ∀ i, (M i).PosSemidef) (hsum : ∑ i, M i = 1)
    (hTM : ∀ i, (T (M i)).PosSemidef) :
    ∃ M' : Fin k → Matrix ι ι ℂ, (∀ i, (M' i).PosSemidef) ∧ ∑ i, M' i = 1 ∧ (∀ i, (T (M' i)).PosSemidef) ∧
      ∑ i : Fin k, p i * (ρ i * M i.castSucc).trace.re ≤ ∑ i, p i * (ρ i * M' i).trace.re := by
  refine ⟨fun i => M i.castSucc + if i = ⟨0, hk⟩ then M (Fin.last k) else 0, fun i => ?_, ?_, fun i => ?_, ?_⟩
  · refine (hM _).add ?_
    split
    · exact hM _
    · exact Matrix.PosSemidef.zero
  · rw [Finset.sum_add_distrib, Finset.sum_ite_eq' Finset.univ (⟨0, hk⟩ : Fin k)]
    simp only [Finset.mem_univ, if_true]
    rw [← hsum, Fin.sum_univ_castSucc]
  · dsimp only
    by_cases h0 : i = ⟨0, hk⟩
    · rw [if_pos h0, hTadd]; exact (hTM _).add (hTM _)
    · rw [if_neg h0, add_zero]; exact hTM _
  · refine Finset.sum_le_sum fun i _ => ?_
    dsimp only
    by_cases h0 : i = ⟨0, hk⟩
    · rw [if_pos h0, Matrix.mul_add, Matrix.trace_add, Complex.add_re, mul_add]
      have h1 : 0 ≤ p i * (ρ i * M (Fin.last k)).trace.re := by
        rw [h0]; exact mul_nonneg hp (psd_trace_mul_nonneg hρ (hM _))
      linarith
    · rw [if_neg h0, add_zero]

end Merge

end Toq.PPTDisc
