import Toq.Proofs.ExtGames
/-!
# C09: the NPA constraint generator with referee blocks is sound for commuting-measurement strategies

`ExtendedNonlocalGame.commuting_measurement_value_upper_bound(k)` calls `npa_constraints(mat, k, referee_dim = d)`; the
mirror `Toq.Npa.npaConstraints` of that generator is read with values in `d × d` blocks (`Blk d ρ`, see
`Toq/Proofs/ExtGames.lean`).  Here the point of a **commuting-measurement strategy** is shown to satisfy every emitted
constraint (mirror of `Toq.C07.npa_sound_quantum`, with referee blocks):

* players' space `ℂ^D`, projective measurements `A x a`, `B y b` on it, Alice's commuting with Bob's;
* the shared state `u = Σ_p |p⟩ ⊗ psi p ∈ ℂ^d ⊗ ℂ^D`, a unit vector;
* block of an operator `M` on `ℂ^D`: `blockOf M [p, q] = ⟨psi q| M |psi p⟩ = ⟨p| Tr_H((1 ⊗ M)|u⟩⟨u|) |q⟩`;
* `ρ = blockOf 1` (the referee's reduced state), `K(a,b|x,y) = blockOf (A x a · B y b)`;
* moment blocks `R i j = blockOf ((W_i† W_j)†) = blockOf (W_j† W_i)`, i.e. `R i j [p, q] = ⟨W_j psi_q, W_i psi_p⟩`, where `W_i` is
  the operator of `words[i]`.

**On the convention of `R`.**  The flat matrix with the blocks `blockOf (W_i† W_j)` (no adjoint) is in general *not*
positive semidefinite: `Σ conj(z_{p,i}) ⟨W_i ψ_q, W_j ψ_p⟩ z_{q,j} = Σ_{p,q} ⟨X_p ψ_q, X_q ψ_p⟩` with `X_p = Σ_i z_{p,i} W_i`, which is
`-2‖a‖²` for `ψ_0 = e_0, ψ_1 = e_1`, `X_0 e_1 = a = -X_1 e_0`, `X_0 e_0 = X_1 e_1 = 0` — it is the partial transpose (in the referee
index) of a Gram matrix (`naive_convention_not_psd` below).  The positive semidefinite one is the entrywise conjugate of the Gram matrix of the vectors
`W_i ψ_p`, which has the blocks `blockOf (W_j† W_i)`; this is also the point the harness plugs into toqito's constraint objects
(`rvar.save_value((vmᴴ vm).conj())`).  Since every operator of a symbol is Hermitian, `w ↦ blockOf ((opW w)†)` is again an
evaluation of words compatible with `_reduce`, with the same assemblage `K` (because `(A B)† = B A = A B`).
-/

open Matrix Kronecker
open scoped ComplexOrder

namespace Toq.ExtGames
open Toq.Npa

/-! ### blocks of operators -/

section Block
variable {d D : Nat}

/-- the `d × d` block of an operator `M` on the players' space: `[p, q] ↦ ⟨psi q| M |psi p⟩` -/
def blockOf (psi : Fin d → Fin D → ℂ) (M : Matrix (Fin D) (Fin D) ℂ) : Matrix (Fin d) (Fin d) ℂ :=
  Matrix.of fun p q => star (psi q) ⬝ᵥ (M *ᵥ psi p)

variable (psi : Fin d → Fin D → ℂ)

theorem blockOf_apply (M : Matrix (Fin D) (Fin D) ℂ) (p q : Fin d) :
    blockOf psi M p q = star (psi q) ⬝ᵥ (M *ᵥ psi p) := rfl

theorem blockOf_zero : blockOf psi 0 = 0 := by
  ext p q
  simp [blockOf]

theorem blockOf_add (M N : Matrix (Fin D) (Fin D) ℂ) : blockOf psi (M + N) = blockOf psi M + blockOf psi N := by
  ext p q
  simp [blockOf, add_mulVec, dotProduct_add]

/-- `blockOf (M† N) [p, q] = ⟨M psi_q, N psi_p⟩` -/
theorem blockOf_gram_apply (M N : Matrix (Fin D) (Fin D) ℂ) (p q : Fin d) :
    blockOf psi (Mᴴ * N) p q = star (M *ᵥ psi q) ⬝ᵥ (N *ᵥ psi p) := by
  rw [blockOf_apply, ← mulVec_mulVec, dotProduct_mulVec, ← star_mulVec]

/-- the block of a positive operator `M† M` is positive semidefinite (entrywise conjugate of a Gram matrix) -/
theorem blockOf_gram_psd (M : Matrix (Fin D) (Fin D) ℂ) : (blockOf psi (Mᴴ * M)).PosSemidef := by
  have h : blockOf psi (Mᴴ * M)
      = (Matrix.of fun (k : Fin D) (p : Fin d) => star ((M *ᵥ psi p) k))ᴴ
        * (Matrix.of fun (k : Fin D) (p : Fin d) => star ((M *ᵥ psi p) k)) := by
    ext p q
    rw [blockOf_gram_apply]
    simp [Matrix.mul_apply, dotProduct, mul_comm]
  rw [h]
  exact posSemidef_conjTranspose_mul_self _

theorem blockOf_one_trace : (blockOf psi 1).trace = ∑ p, star (psi p) ⬝ᵥ psi p := by
  simp [Matrix.trace, blockOf]

end Block

/-! ### the flat moment matrix in the layout of the code -/

section Flat
variable {d : Nat} {ρ : Matrix (Fin d) (Fin d) ℂ}

/-- the flat `d·n × d·n` matrix with the blocks `R i j` in the layout of `npa_constraints(…, referee_dim = d)`:
    flat index `i + n·p` (`= finProdFinEquiv (p, i)`) for referee index `p` and word number `i`, so that
    `r_var[i::n, j::n]` is block `(i, j)` -/
def flatBlk (n : Nat) (R : Nat → Nat → Blk d ρ) : Matrix (Fin (d * n)) (Fin (d * n)) ℂ :=
  Matrix.of fun s t =>
    (R (finProdFinEquiv.symm s).2 (finProdFinEquiv.symm t).2).mat (finProdFinEquiv.symm s).1 (finProdFinEquiv.symm t).1

theorem flatBlk_apply (n : Nat) (R : Nat → Nat → Blk d ρ) (p q : Fin d) (i j : Fin n) :
    flatBlk n R (finProdFinEquiv (p, i)) (finProdFinEquiv (q, j)) = (R i j).mat p q := by
  simp only [flatBlk, Matrix.of_apply, Equiv.symm_apply_apply]

theorem Blk.mat_sumN (F : Nat → Blk d ρ) : ∀ n, (sumN n F).mat = sumN n (fun k => (F k).mat)
  | 0 => rfl
  | n + 1 => by
    show (sumN n F).mat + (F n).mat = sumN n (fun k => (F k).mat) + (F n).mat
    rw [Blk.mat_sumN F n]

end Flat

/-! ### commuting-measurement strategies of an extended game -/

section Strategy

/-- A commuting-measurement strategy for an extended nonlocal game with referee dimension `d`: projective measurements
    `A x a` (Alice) and `B y b` (Bob) on the players' space `ℂ^D`, every operator of Alice commuting with every operator of
    Bob (tensor-product strategies are the special case), and a unit vector `u = Σ_p |p⟩ ⊗ psi p ∈ ℂ^d ⊗ ℂ^D` shared with
    the referee.  As in `Toq.Npa.QStrategy` the algebraic rules are required for all indices (extend by zero operators). -/
structure ExtQStrategy (d D ao bo ai bi : Nat) where
  A : Nat → Nat → Matrix (Fin D) (Fin D) ℂ
  B : Nat → Nat → Matrix (Fin D) (Fin D) ℂ
  psi : Fin d → Fin D → ℂ
  A_herm : ∀ x a, (A x a)ᴴ = A x a
  A_idem : ∀ x a, A x a * A x a = A x a
  A_orth : ∀ x a a', a ≠ a' → A x a * A x a' = 0
  A_sum : ∀ x, x < ai → sumN ao (fun a => A x a) = 1
  B_herm : ∀ y b, (B y b)ᴴ = B y b
  B_idem : ∀ y b, B y b * B y b = B y b
  B_orth : ∀ y b b', b ≠ b' → B y b * B y b' = 0
  B_sum : ∀ y, y < bi → sumN bo (fun b => B y b) = 1
  comm : ∀ x a y b, A x a * B y b = B y b * A x a
  psi_norm : ∑ p, star (psi p) ⬝ᵥ psi p = 1

variable {d D ao bo ai bi : Nat} (S : ExtQStrategy d D ao bo ai bi)

/-- the operator of a symbol -/
def ExtQStrategy.o (s : Sym) : Matrix (Fin D) (Fin D) ℂ :=
  match s.player with
  | .none => 1
  | .alice => S.A s.question s.answer
  | .bob => S.B s.question s.answer

theorem ExtQStrategy.symRep : SymRep S.o where
  ident := fun s hs => by simp [ExtQStrategy.o, hs]
  idem := fun s => by
    unfold ExtQStrategy.o
    rcases s.player with _ | _ | _
    · simp
    · exact S.A_idem _ _
    · exact S.B_idem _ _
  orth := fun x y h hx => by
    unfold orth at h
    simp only [decide_eq_true_eq] at h
    obtain ⟨hp, hq, ha⟩ := h
    unfold ExtQStrategy.o
    rw [← hp, ← hq]
    rcases hxp : x.player with _ | _ | _
    · exact absurd hxp hx
    · exact S.A_orth _ _ _ ha
    · exact S.B_orth _ _ _ ha
  comm := fun x y hx hy => by
    simp only [ExtQStrategy.o, hx, hy]
    exact S.comm _ _ _ _

theorem ExtQStrategy.o_herm (s : Sym) : (S.o s)ᴴ = S.o s := by
  unfold ExtQStrategy.o
  rcases s.player with _ | _ | _
  · simp
  · exact S.A_herm _ _
  · exact S.B_herm _ _

theorem ExtQStrategy.opW_reverse (w : Word) : opW S.o w.reverse = (opW S.o w)ᴴ := by
  induction w with
  | nil => simp [opW]
  | cons s w ih =>
    rw [List.reverse_cons, opW_append, ih, opW_cons, opW_cons, opW_nil, mul_one, conjTranspose_mul, S.o_herm]

/-- the referee's reduced state `ρ[p, q] = ⟨psi q | psi p⟩` -/
def ExtQStrategy.rho : Matrix (Fin d) (Fin d) ℂ := blockOf S.psi 1

/-- the block of an operator, as a value of the NPA generator (`1` is read as `ρ`) -/
def ExtQStrategy.blk (M : Matrix (Fin D) (Fin D) ℂ) : Blk d S.rho := Blk.of S.rho (blockOf S.psi M)

/-- value of a word: the block of the adjoint of its operator (see the remark on the convention in the file header) -/
def ExtQStrategy.ev (w : Word) : Blk d S.rho := S.blk (opW S.o w)ᴴ

/-- the assemblage `K(a, b | x, y) = Tr_H((1 ⊗ A x a · B y b)|u⟩⟨u|)` -/
def ExtQStrategy.K : Nat → Nat → Nat → Nat → Blk d S.rho := fun a b x y => S.blk (S.A x a * S.B y b)

/-- the moment blocks `R[i, j] = ev(words[i]† · words[j])`; `R[i, j][p, q] = ⟨W_j psi_q, W_i psi_p⟩` (`R_apply`) -/
def ExtQStrategy.R (words : List Word) : Nat → Nat → Blk d S.rho :=
  fun i j => S.ev ((wordAt words i).reverse ++ wordAt words j)

/-- the moment matrix in the flat layout of the code -/
def ExtQStrategy.Rflat (words : List Word) : Matrix (Fin (d * words.length)) (Fin (d * words.length)) ℂ :=
  flatBlk words.length (S.R words)

theorem ExtQStrategy.blk_mat (M : Matrix (Fin D) (Fin D) ℂ) : (S.blk M).mat = blockOf S.psi M := rfl

theorem ExtQStrategy.blk_zero : S.blk 0 = 0 := blockOf_zero S.psi

theorem ExtQStrategy.blk_one : S.blk 1 = 1 := rfl

theorem ExtQStrategy.blk_add (M N : Matrix (Fin D) (Fin D) ℂ) : S.blk (M + N) = S.blk M + S.blk N :=
  blockOf_add S.psi M N

theorem ExtQStrategy.blk_sumN (F : Nat → Matrix (Fin D) (Fin D) ℂ) (n : Nat) :
    S.blk (sumN n F) = sumN n (fun k => S.blk (F k)) := by
  induction n with
  | zero => exact S.blk_zero
  | succ n ih =>
    show S.blk (sumN n F + F n) = sumN n (fun k => S.blk (F k)) + S.blk (F n)
    rw [S.blk_add, ih]

theorem ExtQStrategy.AB_herm (x a y b : Nat) : (S.A x a * S.B y b)ᴴ = S.A x a * S.B y b := by
  rw [conjTranspose_mul, S.A_herm, S.B_herm, S.comm]

/-- the product of a projector of Alice and a projector of Bob is a positive operator: `P = Pᴴ P` -/
theorem ExtQStrategy.AB_pos (x a y b : Nat) :
    S.A x a * S.B y b = (S.A x a * S.B y b)ᴴ * (S.A x a * S.B y b) := by
  rw [conjTranspose_mul, S.A_herm, S.B_herm]
  calc S.A x a * S.B y b = S.A x a * (S.B y b * S.B y b) := by rw [S.B_idem]
    _ = (S.A x a * S.B y b) * S.B y b := by rw [mul_assoc]
    _ = (S.B y b * S.A x a) * S.B y b := by rw [S.comm]
    _ = (S.B y b * (S.A x a * S.A x a)) * S.B y b := by rw [S.A_idem]
    _ = S.B y b * S.A x a * (S.A x a * S.B y b) := by simp only [mul_assoc]

theorem ExtQStrategy.sum_K_bob (a x y : Nat) (hy : y < bi) :
    sumN bo (fun b => S.K a b x y) = S.blk (S.A x a) := by
  unfold ExtQStrategy.K
  rw [← S.blk_sumN, sumN_mul_left, S.B_sum y hy, mul_one]

theorem ExtQStrategy.sum_K_alice (b x y : Nat) (hx : x < ai) :
    sumN ao (fun a => S.K a b x y) = S.blk (S.B y b) := by
  unfold ExtQStrategy.K
  rw [← S.blk_sumN, sumN_mul_right, S.A_sum x hx, one_mul]

/-- **1.** the blocks of the (adjoint) word operators are an evaluation of words compatible with `_reduce` -/
theorem ExtQStrategy.evalOK (words : List Word) (hok : WordsOK words) (hai : 0 < ai) (hbi : 0 < bi) :
    EvalOK S.ev ao bo words (S.R words) S.K where
  red_ne := fun w h => by
    have := (S.symRep.reduceFuel_op w.length w).1 h
    unfold ExtQStrategy.ev reduceWord
    rw [this]
  red_nil := fun w h hm => by
    have := (S.symRep.reduceFuel_op w.length w).2 h hm
    unfold ExtQStrategy.ev
    rw [this, conjTranspose_zero, S.blk_zero]
  entry := fun _ _ => rfl
  norm := by
    unfold ExtQStrategy.R ExtQStrategy.ev
    rw [hok.zero]
    simp [opW, ExtQStrategy.o, Sym.ident, S.blk_one]
  pair := fun sa sb ha hb => by
    have h : opW S.o [sa, sb] = S.A sa.question sa.answer * S.B sb.question sb.answer := by
      simp [opW, ExtQStrategy.o, ha, hb]
    unfold ExtQStrategy.ev ExtQStrategy.K
    rw [h, S.AB_herm]
  oneA := fun s hs => by
    have h : opW S.o [s] = S.A s.question s.answer := by simp [opW, ExtQStrategy.o, hs]
    rw [S.sum_K_bob _ _ 0 hbi]
    unfold ExtQStrategy.ev
    rw [h, S.A_herm]
  oneB := fun s hs => by
    have h : opW S.o [s] = S.B s.question s.answer := by simp [opW, ExtQStrategy.o, hs]
    rw [S.sum_K_alice _ 0 _ hai]
    unfold ExtQStrategy.ev
    rw [h, S.B_herm]

/-- the entries of the moment blocks: `R[i, j][p, q] = ⟨W_j psi_q, W_i psi_p⟩` -/
theorem ExtQStrategy.R_apply (words : List Word) (i j : Nat) (p q : Fin d) :
    (S.R words i j).mat p q
      = star (opW S.o (wordAt words j) *ᵥ S.psi q) ⬝ᵥ (opW S.o (wordAt words i) *ᵥ S.psi p) := by
  show blockOf S.psi ((opW S.o ((wordAt words i).reverse ++ wordAt words j))ᴴ) p q = _
  rw [opW_append, S.opW_reverse, conjTranspose_mul, conjTranspose_conjTranspose, blockOf_gram_apply]

/-- **2a.** the flat moment matrix is the entrywise conjugate of the Gram matrix of the vectors `W_i psi_p`, hence
    positive semidefinite -/
theorem ExtQStrategy.Rflat_psd (words : List Word) : (S.Rflat words).PosSemidef := by
  have h : S.Rflat words
      = (Matrix.of fun (k : Fin D) (s : Fin (d * words.length)) =>
            star ((opW S.o (wordAt words (finProdFinEquiv.symm s).2) *ᵥ S.psi (finProdFinEquiv.symm s).1) k))ᴴ
        * (Matrix.of fun (k : Fin D) (s : Fin (d * words.length)) =>
            star ((opW S.o (wordAt words (finProdFinEquiv.symm s).2) *ᵥ S.psi (finProdFinEquiv.symm s).1) k)) := by
    ext s t
    simp only [ExtQStrategy.Rflat, flatBlk, Matrix.of_apply, S.R_apply, Matrix.mul_apply,
      Matrix.conjTranspose_apply, dotProduct, Pi.star_apply, star_star]
    exact Finset.sum_congr rfl fun k _ => mul_comm _ _
  rw [h]
  exact posSemidef_conjTranspose_mul_self _

theorem ExtQStrategy.Rflat_apply (words : List Word) (i j : Fin words.length) (p q : Fin d) :
    S.Rflat words (finProdFinEquiv (p, i)) (finProdFinEquiv (q, j)) = (S.R words i j).mat p q :=
  flatBlk_apply _ _ p q i j

/-- **2b.** every assemblage block is positive semidefinite -/
theorem ExtQStrategy.K_psd (a b x y : Nat) : (S.K a b x y).mat.PosSemidef := by
  show (blockOf S.psi (S.A x a * S.B y b)).PosSemidef
  rw [S.AB_pos x a y b]
  exact blockOf_gram_psd S.psi _

theorem ExtQStrategy.K_nonneg (a b x y : Nat) : (0 : Blk d S.rho) ≤ S.K a b x y := by
  rw [Blk.le_iff, Blk.zero_mat, sub_zero]
  exact S.K_psd a b x y

/-- **2c.** the referee's reduced state is a density operator -/
theorem ExtQStrategy.rho_density : IsDensity S.rho := by
  refine ⟨?_, ?_⟩
  · have := blockOf_gram_psd S.psi (1 : Matrix (Fin D) (Fin D) ℂ)
    rwa [conjTranspose_one, one_mul] at this
  · unfold ExtQStrategy.rho
    rw [blockOf_one_trace, S.psi_norm]

/-- **3.** the assemblage of a commuting-measurement strategy satisfies the constraints on the assemblage
    (`K ⪰ 0` in the Loewner order, `Σ_{a,b} K = ρ`, no-signalling marginals) -/
theorem ExtQStrategy.assemblage_sound (psd : Prop) (R : Nat → Nat → Blk d S.rho) :
    ∀ c ∈ assemblageConstrs ao bo ai bi, Sat psd ao bo R S.K c := by
  intro c hc
  unfold assemblageConstrs at hc
  simp only [List.mem_append, List.mem_flatMap, List.mem_map, List.mem_range, List.mem_singleton] at hc
  rcases hc with (⟨x, hx, y, hy, h⟩ | ⟨y, hy, b, hb, x', hx', rfl⟩) | ⟨x, hx, a, ha, y', hy', rfl⟩
  · rcases h with ⟨a, ha, b, hb, rfl⟩ | rfl
    · exact S.K_nonneg a b x y
    · show sumN ao (fun a => sumN bo (fun b => S.K a b x y)) = 1
      have : sumN ao (fun a => sumN bo (fun b => S.K a b x y)) = sumN ao (fun a => S.blk (S.A x a)) := by
        congr 1; funext a; exact S.sum_K_bob a x y hy
      rw [this, ← S.blk_sumN, S.A_sum x hx, S.blk_one]
  · show sumN ao (fun a => S.K a b 0 y) = sumN ao (fun a => S.K a b (x' + 1) y)
    rw [S.sum_K_alice b 0 y (by omega), S.sum_K_alice b (x' + 1) y (by omega)]
  · show sumN bo (fun b => S.K a b x 0) = sumN bo (fun b => S.K a b x (y' + 1))
    rw [S.sum_K_bob a x 0 (by omega), S.sum_K_bob a x (y' + 1) (by omega)]

/-- **4. The NPA constraint generator with referee blocks is sound for commuting-measurement strategies, every referee
    dimension, every dimension of the players' space, every size, every level.** -/
theorem ext_npa_sound_quantum_blocks (d D ao bo ai bi : Nat) (hai : 0 < ai) (hbi : 0 < bi) (k : LevelArg)
    (hwf : LevelWF k) (base : Nat) (conf : List (Nat × Nat)) (hk : levelSpec k = some (base, conf))
    (S : ExtQStrategy d D ao bo ai bi) :
    let words := genWords base conf ao ai bo bi
    (∀ c ∈ npaConstraints ao bo ai bi base conf, Sat (S.Rflat words).PosSemidef ao bo (S.R words) S.K c) ∧
      (S.Rflat words).PosSemidef ∧
      (∀ (i j : Fin words.length) (p q : Fin d),
        S.Rflat words (finProdFinEquiv (p, i)) (finProdFinEquiv (q, j)) = (S.R words i j).mat p q) ∧
      (∀ a b x y, (S.K a b x y).mat.IsHermitian ∧ (S.K a b x y).mat.PosSemidef) ∧
      IsDensity S.rho := by
  intro words
  have hconf := levelSpec_confOK k hwf base conf hk
  have hok : WordsOK words := genWords_ok base conf ao ai bo bi hconf
  have hpsd := S.Rflat_psd words
  refine ⟨?_, hpsd, S.Rflat_apply words, fun a b x y => ⟨(S.K_psd a b x y).isHermitian, S.K_psd a b x y⟩,
    S.rho_density⟩
  intro c hc
  unfold npaConstraints at hc
  rcases List.mem_append.mp hc with h | h
  · exact momentConstrs_sound_ev _ hpsd (S.evalOK words hok hai hbi) hok c h
  · exact S.assemblage_sound _ _ c h

/-- the structure is inhabited with a referee of dimension 2 (sizes `(ao, bo, ai, bi) = (2, 3, 2, 2)`, players' space of
    dimension 1: both players always answer 0; `psi = (3/5, 4/5)`, so `ρ = [[9, 12], [12, 16]] / 25` is not diagonal);
    genuinely entangled instances are exercised numerically by the harness -/
example : Nonempty (ExtQStrategy 2 1 2 3 2 2) :=
  ⟨{ A := fun _ a => if a = 0 then 1 else 0
     B := fun _ b => if b = 0 then 1 else 0
     psi := fun p _ => if p = 0 then 3 / 5 else 4 / 5
     A_herm := fun _ a => by split <;> simp
     A_idem := fun _ a => by split <;> simp
     A_orth := fun _ a a' h => by
       by_cases h0 : a = 0
       · have : a' ≠ 0 := fun h1 => h (h0.trans h1.symm)
         simp [this]
       · simp [h0]
     A_sum := fun _ _ => sumN_ite_eq 2 0 (fun _ => (1 : Matrix (Fin 1) (Fin 1) ℂ)) (by norm_num)
     B_herm := fun _ b => by split <;> simp
     B_idem := fun _ b => by split <;> simp
     B_orth := fun _ b b' h => by
       by_cases h0 : b = 0
       · have : b' ≠ 0 := fun h1 => h (h0.trans h1.symm)
         simp [this]
       · simp [h0]
     B_sum := fun _ _ => sumN_ite_eq 3 0 (fun _ => (1 : Matrix (Fin 1) (Fin 1) ℂ)) (by norm_num)
     comm := fun _ a _ b => by split <;> split <;> simp
     psi_norm := by
       simp only [Fin.sum_univ_two, dotProduct, Finset.univ_unique, Finset.sum_singleton, Pi.star_apply]
       norm_num }⟩

end Strategy

/-! ### the objective -/

section Objective
variable {d D : Nat}

/-- `tr(Q · blockOf M) = ⟨u| Q ⊗ M |u⟩` for `u = Σ_p |p⟩ ⊗ psi p` -/
theorem trace_mul_blockOf (psi : Fin d → Fin D → ℂ) (Q : Matrix (Fin d) (Fin d) ℂ) (M : Matrix (Fin D) (Fin D) ℂ) :
    (Q * blockOf psi M).trace
      = star (fun pk : Fin d × Fin D => psi pk.1 pk.2) ⬝ᵥ ((Q ⊗ₖ M) *ᵥ (fun pk : Fin d × Fin D => psi pk.1 pk.2)) := by
  simp only [Matrix.trace, Matrix.diag, Matrix.mul_apply, blockOf_apply, dotProduct, Matrix.mulVec,
    Fintype.sum_prod_type, Matrix.kroneckerMap_apply, Pi.star_apply]
  refine Finset.sum_congr rfl fun p _ => ?_
  simp only [Finset.mul_sum]
  rw [Finset.sum_comm]
  refine Finset.sum_congr rfl fun k _ => ?_
  refine Finset.sum_congr rfl fun q _ => ?_
  refine Finset.sum_congr rfl fun l _ => ?_
  ring

theorem re_sumN (F : Nat → ℂ) : ∀ n, (sumN n F).re = sumN n (fun k => (F k).re)
  | 0 => rfl
  | n + 1 => by
    show (sumN n F + F n).re = sumN n (fun k => (F k).re) + (F n).re
    rw [Complex.add_re, re_sumN F n]

variable {ao bo ai bi : Nat} (S : ExtQStrategy d D ao bo ai bi)

/-- the shared unit vector `u ∈ ℂ^d ⊗ ℂ^D` -/
def ExtQStrategy.uvec : Fin d × Fin D → ℂ := fun pk => S.psi pk.1 pk.2

theorem ExtQStrategy.uvec_norm : star S.uvec ⬝ᵥ S.uvec = 1 := by
  rw [← S.psi_norm]
  simp only [dotProduct, Fintype.sum_prod_type, ExtQStrategy.uvec, Pi.star_apply]

/-- one term of the captured objective: `tr(Pᴴ · K(a,b|x,y)) = ⟨u| Pᴴ ⊗ A x a · B y b |u⟩` -/
theorem ExtQStrategy.objective_term (P : Matrix (Fin d) (Fin d) ℂ) (a b x y : Nat) :
    (Pᴴ * (S.K a b x y).mat).trace = star S.uvec ⬝ᵥ ((Pᴴ ⊗ₖ (S.A x a * S.B y b)) *ᵥ S.uvec) :=
  trace_mul_blockOf S.psi Pᴴ (S.A x a * S.B y b)

/-- **5. The captured objective at the point of a commuting-measurement strategy is the strategy's value.**  The code
    accumulates `p_win += prob[x, y] · trace(pred[:, :, a, b, x, y].conj().T @ K(a,b|x,y))` in the loop order `a, b, x, y` and
    maximises `real(p_win)`; at the assemblage of the strategy this is `Σ π(x,y) · Re ⟨u| P(a,b,x,y)ᴴ ⊗ A x a · B y b |u⟩`
    (and `P(a,b,x,y)ᴴ = P(a,b,x,y)` for the Hermitian — projective — referee operators of a game, second part). -/
theorem ext_objective_quantum (P : Nat → Nat → Nat → Nat → Matrix (Fin d) (Fin d) ℂ) (π : Nat → Nat → ℝ) :
    ((sumN ao fun a => sumN bo fun b => sumN ai fun x => sumN bi fun y =>
        (π x y : ℂ) * ((P a b x y)ᴴ * (S.K a b x y).mat).trace).re
      = sumN ao fun a => sumN bo fun b => sumN ai fun x => sumN bi fun y =>
        π x y * (star S.uvec ⬝ᵥ (((P a b x y)ᴴ ⊗ₖ (S.A x a * S.B y b)) *ᵥ S.uvec)).re) ∧
    ((∀ a b x y, (P a b x y).IsHermitian) →
      (sumN ao fun a => sumN bo fun b => sumN ai fun x => sumN bi fun y =>
        (π x y : ℂ) * ((P a b x y)ᴴ * (S.K a b x y).mat).trace).re
      = sumN ao fun a => sumN bo fun b => sumN ai fun x => sumN bi fun y =>
        π x y * (star S.uvec ⬝ᵥ ((P a b x y ⊗ₖ (S.A x a * S.B y b)) *ᵥ S.uvec)).re) := by
  have h1 : (sumN ao fun a => sumN bo fun b => sumN ai fun x => sumN bi fun y =>
        (π x y : ℂ) * ((P a b x y)ᴴ * (S.K a b x y).mat).trace).re
      = sumN ao fun a => sumN bo fun b => sumN ai fun x => sumN bi fun y =>
        π x y * (star S.uvec ⬝ᵥ (((P a b x y)ᴴ ⊗ₖ (S.A x a * S.B y b)) *ᵥ S.uvec)).re := by
    simp only [re_sumN, Complex.re_ofReal_mul, S.objective_term]
  refine ⟨h1, fun hP => ?_⟩
  rw [h1]
  simp only [(hP _ _ _ _).eq]

end Objective

/-! ### NPA ≤ NS with blocks; level monotonicity with blocks -/

section Model
variable {d : Nat} {ρ : Matrix (Fin d) (Fin d) ℂ}

/-- **6. The assemblage part of the block-valued NPA constraints is the constraint system of `nonsignaling_value`.**
    A block-valued point `K` (blocks in `Blk d ρ`, `ρ` a density operator) that satisfies every constraint of
    `assemblageConstrs` (whatever `R` and the meaning of `R ⪰ 0`) is feasible for the block form of the non-signalling
    program (`NsBlocksFeasible`: `K ⪰ 0`, `Σ_b K = σ(a|x)`, `Σ_a K = ρ(b|y)`, `Σ_a σ = τ`, `Σ_b ρ = τ`, `tr τ = 1`) with
    `σ(a|x) = Σ_b K(a,b|x,0)`, `ρ(b|y) = Σ_a K(a,b|0,y)`, `τ = ρ`. -/
theorem nsBlocksFeasible_of_assemblage_blk (hρ : IsDensity ρ) (psd : Prop) (ao bo ai bi : Nat) (hai : 0 < ai)
    (hbi : 0 < bi) (R : Nat → Nat → Blk d ρ) (K : Nat → Nat → Nat → Nat → Blk d ρ)
    (h : ∀ c ∈ assemblageConstrs ao bo ai bi, Sat psd ao bo R K c) :
    NsBlocksFeasible d ao bo ai bi (fun a b x y => (K a b x y).mat) where
  psd := fun x y a b hx hy ha hb => by
    have h2 : (0 : Blk d ρ) ≤ K a b x y := h _ (mem_kNonneg ao bo ai bi x y a b hx hy ha hb)
    rw [Blk.le_iff, Blk.zero_mat, sub_zero] at h2
    exact h2
  marg := by
    refine ⟨fun a x => sumN bo (fun b => (K a b x 0).mat), fun b y => sumN ao (fun a => (K a b 0 y).mat), ρ,
      ?_, ?_, ?_, ?_, hρ.2⟩
    · intro x y a hx hy ha
      rcases Nat.eq_zero_or_pos y with rfl | hy0
      · rfl
      · have h2 : sumN bo (fun b => K a b x 0) = sumN bo (fun b => K a b x y) :=
          h _ (mem_nsAlice ao bo ai bi x a y hx ha hy0 hy)
        have h3 := congrArg Blk.mat h2
        rw [Blk.mat_sumN, Blk.mat_sumN] at h3
        exact h3.symm
    · intro x y b hx hy hb
      rcases Nat.eq_zero_or_pos x with rfl | hx0
      · rfl
      · have h2 : sumN ao (fun a => K a b 0 y) = sumN ao (fun a => K a b x y) :=
          h _ (mem_nsBob ao bo ai bi y b x hy hb hx0 hx)
        have h3 := congrArg Blk.mat h2
        rw [Blk.mat_sumN, Blk.mat_sumN] at h3
        exact h3.symm
    · intro x hx
      have h2 : sumN ao (fun a => sumN bo (fun b => K a b x 0)) = 1 := h _ (mem_kNorm ao bo ai bi x 0 hx hbi)
      have h3 := congrArg Blk.mat h2
      simp only [Blk.mat_sumN, Blk.one_mat] at h3
      exact h3
    · intro y hy
      have h2 : sumN ao (fun a => sumN bo (fun b => K a b 0 y)) = 1 := h _ (mem_kNorm ao bo ai bi 0 y hai hy)
      have h3 := congrArg Blk.mat h2
      simp only [Blk.one_mat, sumN_eq_range_sum] at h3 ⊢
      rw [Finset.sum_comm]
      exact h3

/-- **7a.** positive semidefiniteness of the flat matrix is inherited by the flat matrix of the blocks at the positions
    `φ 0, φ 1, …` (a principal submatrix when `φ` is injective) -/
theorem ext_flat_psd_restrict (n m : Nat) (φ : Nat → Nat) (R : Nat → Nat → Blk d ρ) (hφ : ∀ i, i < m → φ i < n)
    (h : (flatBlk n R).PosSemidef) : (flatBlk m (fun i j => R (φ i) (φ j))).PosSemidef := by
  have e : flatBlk m (fun i j => R (φ i) (φ j))
      = (flatBlk n R).submatrix
          (fun s : Fin (d * m) => finProdFinEquiv ((finProdFinEquiv.symm s).1,
            (⟨φ (finProdFinEquiv.symm s).2, hφ _ (finProdFinEquiv.symm s).2.2⟩ : Fin n)))
          (fun s : Fin (d * m) => finProdFinEquiv ((finProdFinEquiv.symm s).1,
            (⟨φ (finProdFinEquiv.symm s).2, hφ _ (finProdFinEquiv.symm s).2.2⟩ : Fin n))) := by
    ext s t
    simp only [flatBlk, Matrix.of_apply, Matrix.submatrix_apply, Equiv.symm_apply_apply]
  rw [e]
  exact h.submatrix _

/-- **7b. The block-valued NPA relaxation is non-increasing in the level (model).**  If the word list of the lower
    level is a sub-list of the word list of the higher level, there is a strictly increasing position map `φ` (`φ 0 = 0`,
    word `i` of the lower level is word `φ i` of the higher level) such that every block-valued point `(R, K)` that
    satisfies the constraints of the higher level (with `R ⪰ 0` meaning: the flat `d·n × d·n` matrix is positive
    semidefinite) restricts — the blocks `R (φ i) (φ j)`, **the same `K`**, hence the same objective — to a point that
    satisfies every constraint of the lower level. -/
theorem ext_npa_level_mono_blk (ao bo ai bi baseLo baseHi : Nat) (confLo confHi : List (Nat × Nat))
    (hHi : ConfOK confHi)
    (hsub : List.Sublist (genWords baseLo confLo ao ai bo bi) (genWords baseHi confHi ao ai bo bi)) :
    ∃ φ : Nat → Nat, φ 0 = 0 ∧ (∀ i j, i < j → φ i < φ j) ∧
      (∀ i, i < (genWords baseLo confLo ao ai bo bi).length → φ i < (genWords baseHi confHi ao ai bo bi).length) ∧
      (∀ i, wordAt (genWords baseLo confLo ao ai bo bi) i = wordAt (genWords baseHi confHi ao ai bo bi) (φ i)) ∧
      ∀ (R : Nat → Nat → Blk d ρ) (K : Nat → Nat → Nat → Nat → Blk d ρ),
        (∀ c ∈ npaConstraints ao bo ai bi baseHi confHi,
          Sat (flatBlk (genWords baseHi confHi ao ai bo bi).length R).PosSemidef ao bo R K c) →
        ∀ c ∈ npaConstraints ao bo ai bi baseLo confLo,
          Sat (flatBlk (genWords baseLo confLo ao ai bo bi).length (fun i j => R (φ i) (φ j))).PosSemidef ao bo
            (fun i j => R (φ i) (φ j)) K c := by
  obtain ⟨φ, hφ0, hφmono, hφlt, hφw⟩ := exists_embedding_of_sublist baseLo baseHi confLo confHi ao ai bo bi hHi hsub
  refine ⟨φ, hφ0, hφmono, hφlt, hφw, fun R K h c hc => ?_⟩
  unfold npaConstraints at hc h
  rcases List.mem_append.mp hc with h1 | h1
  · exact momentConstrs_restrict _ _ (ext_flat_psd_restrict _ _ φ R hφlt) ao bo _ _ φ hφ0
      (fun i j hij _ => hφmono i j hij) hφlt (fun i _ => hφw i) R K (fun c hc => h c (List.mem_append_left _ hc)) c h1
  · -- the constraints on the assemblage do not mention `R` or the level
    have := h c (List.mem_append_right _ h1)
    unfold assemblageConstrs at h1
    simp only [List.mem_append, List.mem_flatMap, List.mem_map, List.mem_range, List.mem_singleton] at h1
    rcases h1 with (⟨x, _, y, _, h2⟩ | ⟨y, _, b, _, x', _, rfl⟩) | ⟨x, _, a, _, y', _, rfl⟩
    · rcases h2 with ⟨a, _, b, _, rfl⟩ | rfl <;> exact this
    · exact this
    · exact this

/-- **7c.** the chain of the property's levels: a block-valued feasible point of level `2` restricts to a feasible point of
    level `'1+ab'`, and one of level `'1+ab'` to one of level `1`, with the same assemblage `K` — for all alphabet sizes and
    every referee dimension -/
theorem ext_npa_levels_chain_blk (ao bo ai bi : Nat) (K : Nat → Nat → Nat → Nat → Blk d ρ) :
    ((∃ R : Nat → Nat → Blk d ρ, ∀ c ∈ npaConstraints ao bo ai bi 2 [],
        Sat (flatBlk (genWords 2 [] ao ai bo bi).length R).PosSemidef ao bo R K c) →
      ∃ R : Nat → Nat → Blk d ρ, ∀ c ∈ npaConstraints ao bo ai bi 1 [(1, 1)],
        Sat (flatBlk (genWords 1 [(1, 1)] ao ai bo bi).length R).PosSemidef ao bo R K c) ∧
    ((∃ R : Nat → Nat → Blk d ρ, ∀ c ∈ npaConstraints ao bo ai bi 1 [(1, 1)],
        Sat (flatBlk (genWords 1 [(1, 1)] ao ai bo bi).length R).PosSemidef ao bo R K c) →
      ∃ R : Nat → Nat → Blk d ρ, ∀ c ∈ npaConstraints ao bo ai bi 1 [],
        Sat (flatBlk (genWords 1 [] ao ai bo bi).length R).PosSemidef ao bo R K c) := by
  constructor
  · rintro ⟨R, hR⟩
    obtain ⟨φ, _, _, _, _, h⟩ := ext_npa_level_mono_blk (d := d) (ρ := ρ) ao bo ai bi 1 2 [(1, 1)] []
      (fun c hc => by simp at hc) (genWords_nested ao ai bo bi).2.1
    exact ⟨_, h R K hR⟩
  · rintro ⟨R, hR⟩
    obtain ⟨φ, _, _, _, _, h⟩ := ext_npa_level_mono_blk (d := d) (ρ := ρ) ao bo ai bi 1 1 [] [(1, 1)]
      (fun c hc => by
        simp only [List.mem_singleton] at hc
        subst hc
        norm_num) (genWords_nested ao ai bo bi).1
    exact ⟨_, h R K hR⟩

end Model

/-! ### why the moment blocks carry the adjoint -/

section Convention

theorem Blk.mat_of {d : Nat} (ρ A : Matrix (Fin d) (Fin d) ℂ) : (Blk.of ρ A).mat = A := rfl

/-- **The convention of the moment blocks matters.**  With the blocks `blockOf (W_i† W_j)` (no adjoint; entries
    `⟨W_i psi_q, W_j psi_p⟩`) the flat matrix is the partial transpose, in the referee index, of a Gram matrix and need not be
    positive semidefinite: referee dimension 2, players' space `ℂ²`, `psi_p = e_p` (a maximally entangled `u`, up to the
    norm), `W_0 = |0⟩⟨1|`, `W_1 = -|0⟩⟨0|` (linear combinations of `1` and three qubit projectors, i.e. of level-1 words): the
    principal `2 × 2` submatrix on the flat indices `(p, i) = (0, 0), (1, 1)` is `[[0, -1], [-1, 0]]`.  This is why `ExtQStrategy.R`
    uses `blockOf (W_j† W_i)`, as the harness does. -/
theorem naive_convention_not_psd :
    ∃ (psi : Fin 2 → Fin 2 → ℂ) (W : Nat → Matrix (Fin 2) (Fin 2) ℂ),
      ¬ (flatBlk (ρ := blockOf psi 1) 2 (fun i j => Blk.of _ (blockOf psi ((W i)ᴴ * W j)))).PosSemidef := by
  refine ⟨fun p k => if p = k then 1 else 0,
    fun i => if i = 0 then !![0, 1; 0, 0] else !![-1, 0; 0, 0], fun h => ?_⟩
  have h2 := (h.submatrix (fun t : Fin 2 => finProdFinEquiv (t, t))).dotProduct_mulVec_nonneg (fun _ => 1)
  simp only [dotProduct, mulVec, submatrix_apply, flatBlk_apply, Fin.sum_univ_two, Blk.mat_of,
    blockOf_gram_apply] at h2
  simp [dotProduct] at h2
  rw [Complex.le_def] at h2
  norm_num at h2

end Convention

end Toq.ExtGames
