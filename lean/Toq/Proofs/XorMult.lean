import Toq.Proofs.XorTsirelson
/-!
# Multiplicativity of the Tsirelson optimum under tensor products (C08, repetitions)

The cost matrix of the XOR-sum of two XOR games (`π ⊗ π'`, predicate `f ⊕ f'`) is `D ⊗ D'`.

* primal: tensor products of unit vectors are unit vectors, so products of vector (= quantum) correlations are vector
  correlations and the bias is the product of the biases (`kronD_bias`, `isVectorCorr_kron`);
* dual: `(a ⊗ a', b ⊗ b')` is dual feasible for `D ⊗ D'` (`tsirelsonDual_kron_psd`: a principal submatrix of
  `Z(a,b,D) ⊗ Z(a',b',−D')`), `(λa, b/λ)` is dual feasible for every `λ > 0` (`tsirelsonDual_rebalance`), hence weak duality
  holds in the geometric-mean form `bias ≤ √(Σa·Σb)` (`tsirelson_weak_duality_geo`), which is multiplicative.

This is the key lemma of Cleve–Slofstra–Unger–Upadhyay (perfect parallel repetition of the bias of XOR-sums).
-/

open Matrix
open scoped ComplexOrder MatrixOrder Kronecker

namespace Toq.Xor


section Mult
variable {X Y X' Y' : Type*} [Fintype X] [Fintype Y] [DecidableEq X] [DecidableEq Y]
  [Fintype X'] [Fintype Y'] [DecidableEq X'] [DecidableEq Y']

/-- entrywise tensor product of two real matrices: cost matrix of the XOR-sum of two games
    (`π ⊗ π'` with predicate `f ⊕ f'`), and correlation matrix of independent play -/
def kronD (D : X → Y → ℝ) (D' : X' → Y' → ℝ) : X × X' → Y × Y' → ℝ := fun p q => D p.1 q.1 * D' p.2 q.2

omit [DecidableEq X] [DecidableEq Y] [DecidableEq X'] [DecidableEq Y'] in
/-- the bias of product correlations in the product game is the product of the biases -/
theorem kronD_bias (D : X → Y → ℝ) (D' : X' → Y' → ℝ) (c : X → Y → ℝ) (c' : X' → Y' → ℝ) :
    ∑ p, ∑ q, kronD D D' p q * kronD c c' p q = (∑ x, ∑ y, D x y * c x y) * ∑ x, ∑ y, D' x y * c' x y := by
  simp only [kronD, Fintype.sum_prod_type]
  rw [Finset.sum_mul_sum]
  refine Finset.sum_congr rfl fun x _ => Finset.sum_congr rfl fun x' _ => ?_
  rw [Finset.sum_mul_sum]
  refine Finset.sum_congr rfl fun y _ => Finset.sum_congr rfl fun y' _ => ?_
  ring

omit [DecidableEq X] [DecidableEq Y] [DecidableEq X'] [DecidableEq Y'] in
/-- tensor products of unit vectors: vector correlations are closed under entrywise tensor products -/
theorem isVectorCorr_kron {c : X → Y → ℝ} {c' : X' → Y' → ℝ} (h : IsVectorCorr c) (h' : IsVectorCorr c') :
    IsVectorCorr (kronD c c') := by
  classical
  obtain ⟨n, u, v, hu, hv, hc⟩ := (isVectorCorr_iff_vectors c).mp h
  obtain ⟨n', u', v', hu', hv', hc'⟩ := (isVectorCorr_iff_vectors c').mp h'
  let U : X × X' → Fin n × Fin n' → ℝ := fun p k => u p.1 k.1 * u' p.2 k.2
  let V : Y × Y' → Fin n × Fin n' → ℝ := fun q k => v q.1 k.1 * v' q.2 k.2
  have hU : ∀ p, ∑ k, U p k ^ 2 = 1 := by
    intro p
    simp only [U, Fintype.sum_prod_type, mul_pow]
    rw [← Finset.sum_mul_sum, hu, hu', mul_one]
  have hV : ∀ q, ∑ k, V q k ^ 2 = 1 := by
    intro q
    simp only [V, Fintype.sum_prod_type, mul_pow]
    rw [← Finset.sum_mul_sum, hv, hv', mul_one]
  refine ⟨gram (Sum.elim U V), isMoment_gram _ (by rintro (p | q) <;> simp [hU, hV]), fun p q => ?_⟩
  simp only [gram, Sum.elim_inl, Sum.elim_inr, Complex.ofReal_re, kronD, ← hc, ← hc', U, V,
    Fintype.sum_prod_type]
  rw [Finset.sum_mul_sum]
  refine Finset.sum_congr rfl fun k _ => Finset.sum_congr rfl fun k' _ => ?_
  ring

/-- the sign flip `diag(1, −1)` on `X ⊕ Y` -/
def signFlip (X Y : Type*) [DecidableEq X] [DecidableEq Y] : Matrix (X ⊕ Y) (X ⊕ Y) ℂ := fromBlocks 1 0 0 (-1)

theorem tsirelsonDual_neg (D : X → Y → ℝ) (a : X → ℝ) (b : Y → ℝ) :
    tsirelsonDual (fun x y => -D x y) a b = signFlip X Y * tsirelsonDual D a b * (signFlip X Y)ᴴ := by
  simp only [signFlip, tsirelsonDual, fromBlocks_conjTranspose, fromBlocks_multiply, conjTranspose_one,
    conjTranspose_zero, conjTranspose_neg, Matrix.one_mul, Matrix.zero_mul, Matrix.mul_one, Matrix.mul_zero,
    Matrix.neg_mul, Matrix.mul_neg, add_zero, zero_add, neg_neg]
  congr 1 <;> ext i j <;> simp

theorem tsirelsonDual_neg_psd {D : X → Y → ℝ} {a : X → ℝ} {b : Y → ℝ} (h : (tsirelsonDual D a b).PosSemidef) :
    (tsirelsonDual (fun x y => -D x y) a b).PosSemidef := by
  rw [tsirelsonDual_neg]
  exact h.mul_mul_conjTranspose_same _

/-- the embedding `(X × X') ⊕ (Y × Y') → (X ⊕ Y) × (X' ⊕ Y')` -/
def prodSumEmb : (X × X') ⊕ (Y × Y') → (X ⊕ Y) × (X' ⊕ Y')
  | .inl p => (.inl p.1, .inl p.2)
  | .inr q => (.inr q.1, .inr q.2)

omit [Fintype X] [Fintype Y] [Fintype X'] [Fintype Y'] in
theorem tsirelsonDual_kron (D : X → Y → ℝ) (D' : X' → Y' → ℝ) (a : X → ℝ) (b : Y → ℝ) (a' : X' → ℝ) (b' : Y' → ℝ) :
    tsirelsonDual (kronD D D') (fun p => a p.1 * a' p.2) (fun q => b q.1 * b' q.2)
      = (tsirelsonDual D a b ⊗ₖ tsirelsonDual (fun x y => -D' x y) a' b').submatrix prodSumEmb prodSumEmb := by
  ext i j
  rcases i with ⟨x, x'⟩ | ⟨y, y'⟩ <;> rcases j with ⟨x2, x2'⟩ | ⟨y2, y2'⟩
  · simp only [tsirelsonDual, prodSumEmb, submatrix_apply, kronecker_apply, fromBlocks_apply₁₁, diagonal_apply,
      Prod.mk.injEq]
    by_cases h1 : x = x2 <;> by_cases h2 : x' = x2' <;> simp [h1, h2]
  · simp [tsirelsonDual, prodSumEmb, kronD]
  · simp [tsirelsonDual, prodSumEmb, kronD]
  · simp only [tsirelsonDual, prodSumEmb, submatrix_apply, kronecker_apply, fromBlocks_apply₂₂, diagonal_apply,
      Prod.mk.injEq]
    by_cases h1 : y = y2 <;> by_cases h2 : y' = y2' <;> simp [h1, h2]

/-- **product of dual certificates**: if `(a, b)` is dual feasible for `D` and `(a', b')` for `D'`, then
    `(a ⊗ a', b ⊗ b')` is dual feasible for `D ⊗ D'` -/
theorem tsirelsonDual_kron_psd {D : X → Y → ℝ} {D' : X' → Y' → ℝ} {a : X → ℝ} {b : Y → ℝ} {a' : X' → ℝ} {b' : Y' → ℝ}
    (h : (tsirelsonDual D a b).PosSemidef) (h' : (tsirelsonDual D' a' b').PosSemidef) :
    (tsirelsonDual (kronD D D') (fun p => a p.1 * a' p.2) (fun q => b q.1 * b' q.2)).PosSemidef := by
  rw [tsirelsonDual_kron]
  exact (h.kronecker (tsirelsonDual_neg_psd h')).submatrix _

end Mult


section Balance
variable {X Y : Type*} [Fintype X] [Fintype Y] [DecidableEq X] [DecidableEq Y]

/-- `diag(s, …, s, s⁻¹, …, s⁻¹)` -/
noncomputable def scaleMat (X Y : Type*) [DecidableEq X] [DecidableEq Y] (s : ℝ) : Matrix (X ⊕ Y) (X ⊕ Y) ℂ :=
  fromBlocks (diagonal fun _ => (s : ℂ)) 0 0 (diagonal fun _ => ((s⁻¹ : ℝ) : ℂ))

theorem tsirelsonDual_scale (D : X → Y → ℝ) (a : X → ℝ) (b : Y → ℝ) (s : ℝ) (hs : s ≠ 0) :
    tsirelsonDual D (fun x => s ^ 2 * a x) (fun y => (s ^ 2)⁻¹ * b y)
      = scaleMat X Y s * tsirelsonDual D a b * (scaleMat X Y s)ᴴ := by
  simp only [scaleMat, tsirelsonDual, fromBlocks_conjTranspose, fromBlocks_multiply, conjTranspose_zero,
    Matrix.zero_mul, Matrix.mul_zero, add_zero, zero_add, diagonal_conjTranspose]
  congr 1
  · ext i j
    by_cases h : i = j
    · subst h; simp [diagonal_apply, Matrix.mul_apply]; ring
    · simp [diagonal_apply, Matrix.mul_apply, h]
  · ext i j
    simp [diagonal_apply, Matrix.mul_apply]
    field_simp
  · ext i j
    simp [diagonal_apply, Matrix.mul_apply]
    field_simp
  · ext i j
    by_cases h : i = j
    · subst h; simp [diagonal_apply, Matrix.mul_apply]; ring
    · simp [diagonal_apply, Matrix.mul_apply, h]

/-- **rebalancing a dual certificate**: `(λ a, b/λ)` is dual feasible whenever `(a, b)` is, for every `λ > 0` -/
theorem tsirelsonDual_rebalance {D : X → Y → ℝ} {a : X → ℝ} {b : Y → ℝ} (h : (tsirelsonDual D a b).PosSemidef)
    (lam : ℝ) (hl : 0 < lam) : (tsirelsonDual D (fun x => lam * a x) (fun y => lam⁻¹ * b y)).PosSemidef := by
  have hs : Real.sqrt lam ≠ 0 := (Real.sqrt_pos.mpr hl).ne'
  have := tsirelsonDual_scale D a b (Real.sqrt lam) hs
  rw [Real.sq_sqrt hl.le] at this
  rw [this]
  exact h.mul_mul_conjTranspose_same _

end Balance


/-- optimising the balance: if `β ≤ (νP + Q/ν)/2` for every `ν > 0` (with `P, Q ≥ 0`) then `β ≤ √(PQ)` -/
theorem le_sqrt_of_forall_balance (β P Q : ℝ) (hP : 0 ≤ P) (hQ : 0 ≤ Q)
    (h : ∀ ν : ℝ, 0 < ν → β ≤ (ν * P + ν⁻¹ * Q) / 2) : β ≤ Real.sqrt (P * Q) := by
  rcases hP.eq_or_lt with hP0 | hPpos
  · -- P = 0
    subst hP0
    rw [zero_mul, Real.sqrt_zero]
    by_contra hb
    have hb := lt_of_not_ge hb
    rcases hQ.eq_or_lt with hQ0 | hQpos
    · subst hQ0; have := h 1 one_pos; linarith
    · have := h (Q / β) (div_pos hQpos hb)
      rw [inv_div, mul_zero, zero_add, div_mul_cancel₀ _ hQpos.ne'] at this
      linarith
  · rcases hQ.eq_or_lt with hQ0 | hQpos
    · subst hQ0
      rw [mul_zero, Real.sqrt_zero]
      by_contra hb
      have hb := lt_of_not_ge hb
      have := h (β / P) (div_pos hb hPpos)
      rw [mul_zero, add_zero, div_mul_cancel₀ _ hPpos.ne'] at this
      linarith
    · set s := Real.sqrt P with hs
      set t := Real.sqrt Q with ht
      have hs0 : 0 < s := Real.sqrt_pos.mpr hPpos
      have ht0 : 0 < t := Real.sqrt_pos.mpr hQpos
      have hs2 : s * s = P := Real.mul_self_sqrt hP
      have ht2 : t * t = Q := Real.mul_self_sqrt hQ
      have := h (t / s) (div_pos ht0 hs0)
      rw [Real.sqrt_mul hP, ← hs, ← ht]
      rw [inv_div, ← hs2, ← ht2] at this
      have e : (t / s * (s * s) + s / t * (t * t)) / 2 = s * t := by field_simp; ring
      rw [e] at this
      exact this

theorem sqrt_mul_le_half_add (P Q : ℝ) (hP : 0 ≤ P) (hQ : 0 ≤ Q) : Real.sqrt (P * Q) ≤ (P + Q) / 2 := by
  rw [Real.sqrt_le_iff]
  refine ⟨by linarith, ?_⟩
  nlinarith [sq_nonneg (P - Q)]

section Geo
variable {X Y : Type*} [Fintype X] [Fintype Y] [DecidableEq X] [DecidableEq Y]

omit [Fintype X] [Fintype Y] in
theorem tsirelsonDual_diag_nonneg {D : X → Y → ℝ} {a : X → ℝ} {b : Y → ℝ} (h : (tsirelsonDual D a b).PosSemidef) :
    (∀ x, 0 ≤ a x) ∧ ∀ y, 0 ≤ b y := by
  refine ⟨fun x => ?_, fun y => ?_⟩
  · have := h.diag_nonneg (i := Sum.inl x)
    simpa [tsirelsonDual] using this
  · have := h.diag_nonneg (i := Sum.inr y)
    simpa [tsirelsonDual] using this

/-- **weak duality in geometric-mean form**: `Σ D[x,y] Γ[x,y] ≤ √(Σa · Σb)` -/
theorem tsirelson_weak_duality_geo (D : X → Y → ℝ) (a : X → ℝ) (b : Y → ℝ) (Γ : Matrix (X ⊕ Y) (X ⊕ Y) ℂ)
    (hΓ : IsMoment Γ) (hZ : (tsirelsonDual D a b).PosSemidef) :
    ∑ x, ∑ y, D x y * (Γ (.inl x) (.inr y)).re ≤ Real.sqrt ((∑ x, a x) * ∑ y, b y) := by
  obtain ⟨ha, hb⟩ := tsirelsonDual_diag_nonneg hZ
  refine le_sqrt_of_forall_balance _ _ _ (Finset.sum_nonneg fun x _ => ha x) (Finset.sum_nonneg fun y _ => hb y)
    fun ν hν => ?_
  have := tsirelson_weak_duality_sum D _ _ Γ hΓ (tsirelsonDual_rebalance hZ ν hν)
  rw [← Finset.mul_sum, ← Finset.mul_sum] at this
  exact this

end Geo

section Product
variable {X Y X' Y' : Type*} [Fintype X] [Fintype Y] [DecidableEq X] [DecidableEq Y]
  [Fintype X'] [Fintype Y'] [DecidableEq X'] [DecidableEq Y']

/-- **upper bound for the XOR-sum**: dual certificates of the factors bound the bias of every PSD unit-diagonal matrix of the
    product game by the product of the dual values -/
theorem xorSum_le_product (D : X → Y → ℝ) (D' : X' → Y' → ℝ) (a : X → ℝ) (b : Y → ℝ) (a' : X' → ℝ) (b' : Y' → ℝ)
    (hZ : (tsirelsonDual D a b).PosSemidef) (hZ' : (tsirelsonDual D' a' b').PosSemidef)
    (Γ : Matrix ((X × X') ⊕ (Y × Y')) ((X × X') ⊕ (Y × Y')) ℂ) (hΓ : IsMoment Γ) :
    ∑ p, ∑ q, kronD D D' p q * (Γ (.inl p) (.inr q)).re
      ≤ ((∑ x, a x + ∑ y, b y) / 2) * ((∑ x, a' x + ∑ y, b' y) / 2) := by
  obtain ⟨ha, hb⟩ := tsirelsonDual_diag_nonneg hZ
  obtain ⟨ha', hb'⟩ := tsirelsonDual_diag_nonneg hZ'
  have hA := Finset.sum_nonneg fun x (_ : x ∈ Finset.univ) => ha x
  have hB := Finset.sum_nonneg fun y (_ : y ∈ Finset.univ) => hb y
  have hA' := Finset.sum_nonneg fun x (_ : x ∈ Finset.univ) => ha' x
  have hB' := Finset.sum_nonneg fun y (_ : y ∈ Finset.univ) => hb' y
  have h := tsirelson_weak_duality_geo _ _ _ Γ hΓ (tsirelsonDual_kron_psd hZ hZ')
  have e1 : ∑ p : X × X', a p.1 * a' p.2 = (∑ x, a x) * ∑ x, a' x := by
    rw [Fintype.sum_prod_type, Finset.sum_mul_sum]
  have e2 : ∑ q : Y × Y', b q.1 * b' q.2 = (∑ y, b y) * ∑ y, b' y := by
    rw [Fintype.sum_prod_type, Finset.sum_mul_sum]
  rw [e1, e2] at h
  refine le_trans h ?_
  have e3 : (∑ x, a x) * (∑ x, a' x) * ((∑ y, b y) * ∑ y, b' y)
      = ((∑ x, a x) * ∑ y, b y) * ((∑ x, a' x) * ∑ y, b' y) := by ring
  rw [e3, Real.sqrt_mul (mul_nonneg hA hB)]
  exact mul_le_mul (sqrt_mul_le_half_add _ _ hA hB) (sqrt_mul_le_half_add _ _ hA' hB') (Real.sqrt_nonneg _)
    (by linarith)

end Product
end Toq.Xor
