import Toq.Proofs.Discrim
import Toq.Proofs.DiscrimStrong
import Toq.Proofs.ExclusionCompact
import Mathlib.Analysis.CStarAlgebra.ContinuousFunctionalCalculus.Order
/-!
# Strong duality of the Gram-form program of unambiguous discrimination for linearly independent states

`G ⪰ λ·1` with `λ > 0` (the Gram matrix of linearly independent vectors), priors `p_i > 0`.

* dual program: minimise `g(Z) = Re tr(G Z)` over `Z ⪰ 0`, `Re Z_ii ≥ p_i`; `g(Z) ≥ λ Re tr Z`, so the sublevel sets are compact and a
  minimiser `Z` exists (`ug_min_attained`);
* at a minimiser, `q_i := Re (G Z)_ii / Re Z_ii` is primal feasible (`q ≥ 0`, `G − diag q ⪰ 0`), `q_i (Re Z_ii − p_i) = 0`, and
  `Σ p_i q_i = g(Z)` (`ug_strong_duality_gen`).  Feasibility of `q` comes from first-order optimality of `Z` along the curves
  `t ↦ (1 − tC)(Z + t xxᴴ)(1 − tC) + t² K` with real diagonal `C`, `K` chosen so that the diagonal constraint stays satisfied for
  every `t ≥ 0`.
-/

open Matrix
open scoped ComplexOrder MatrixOrder

set_option linter.unusedSectionVars false

namespace Toq.Discrim

section Gram
variable {κ : Type*} [Fintype κ] [DecidableEq κ]

/-- objective of the dual Gram-form program -/
noncomputable def ugObj (G Z : Matrix κ κ ℂ) : ℝ := (G * Z).trace.re

omit [DecidableEq κ] in
theorem ugObj_add (G X Y : Matrix κ κ ℂ) : ugObj G (X + Y) = ugObj G X + ugObj G Y := by
  unfold ugObj; rw [Matrix.mul_add, Matrix.trace_add, Complex.add_re]

omit [DecidableEq κ] in
theorem ugObj_sub (G X Y : Matrix κ κ ℂ) : ugObj G (X - Y) = ugObj G X - ugObj G Y := by
  unfold ugObj; rw [Matrix.mul_sub, Matrix.trace_sub, Complex.sub_re]

omit [DecidableEq κ] in
theorem ugObj_smul (G X : Matrix κ κ ℂ) (t : ℝ) : ugObj G ((t : ℂ) • X) = t * ugObj G X := by
  unfold ugObj; rw [Matrix.mul_smul, Matrix.trace_smul, smul_eq_mul, Complex.re_ofReal_mul]

/-- the curve `t ↦ (1 − tC)(Z + tP)(1 − tC)ᴴ + t²K` -/
def ugCurve (Z P C K : Matrix κ κ ℂ) (t : ℝ) : Matrix κ κ ℂ :=
  (1 - (t : ℂ) • C) * (Z + (t : ℂ) • P) * (1 - (t : ℂ) • C)ᴴ + ((t * t : ℝ) : ℂ) • K

theorem ugCurve_expand (Z P C K : Matrix κ κ ℂ) (t : ℝ) :
    ugCurve Z P C K t = Z + (t : ℂ) • (P - C * Z - Z * Cᴴ)
      + ((t * t : ℝ) : ℂ) • (C * Z * Cᴴ - C * P - P * Cᴴ + K)
      + ((t * t * t : ℝ) : ℂ) • (C * P * Cᴴ) := by
  unfold ugCurve
  rw [conjTranspose_sub, conjTranspose_one, conjTranspose_smul]
  have ht : star (t : ℂ) = (t : ℂ) := by simp
  rw [ht]
  simp only [Matrix.sub_mul, Matrix.mul_sub, Matrix.add_mul, Matrix.mul_add, Matrix.one_mul, Matrix.mul_one,
    Matrix.smul_mul, Matrix.mul_smul, smul_sub, smul_add, smul_smul, Matrix.mul_assoc]
  push_cast
  module

/-- the objective along the curve is a cubic polynomial in `t` -/
theorem ugObj_curve (G Z P C K : Matrix κ κ ℂ) (t : ℝ) :
    ugObj G (ugCurve Z P C K t) = ugObj G Z + t * (ugObj G P - ugObj G (C * Z) - ugObj G (Z * Cᴴ))
      + t * t * ugObj G (C * Z * Cᴴ - C * P - P * Cᴴ + K) + t * t * t * ugObj G (C * P * Cᴴ) := by
  rw [ugCurve_expand, ugObj_add, ugObj_add, ugObj_add, ugObj_smul, ugObj_smul, ugObj_smul, ugObj_sub, ugObj_sub]

omit [Fintype κ] [DecidableEq κ] in
/-- a cubic `a₁t + a₂t² + a₃t³` that is `≥ 0` for all small `t > 0` has `a₁ ≥ 0` -/
theorem ug_cubic_nonneg (a1 a2 a3 t0 : ℝ) (ht0 : 0 < t0)
    (h : ∀ t, 0 < t → t ≤ t0 → 0 ≤ t * a1 + t * t * a2 + t * t * t * a3) : 0 ≤ a1 := by
  by_contra ha
  push Not at ha
  have hc : 0 < 2 * (|a2| + |a3| + 1) := by positivity
  set t := min (min t0 1) (-a1 / (2 * (|a2| + |a3| + 1))) with ht
  have htpos : 0 < t := lt_min (lt_min ht0 one_pos) (div_pos (by linarith) hc)
  have htle : t ≤ t0 := (min_le_left _ _).trans (min_le_left _ _)
  have ht1 : t ≤ 1 := (min_le_left _ _).trans (min_le_right _ _)
  have ht2 : t ≤ -a1 / (2 * (|a2| + |a3| + 1)) := min_le_right _ _
  have h1 := h t htpos htle
  have h3 : t * (2 * (|a2| + |a3| + 1)) ≤ -a1 := by rwa [le_div_iff₀ hc] at ht2
  have h4 : a2 ≤ |a2| := le_abs_self a2
  have h5 : a3 ≤ |a3| := le_abs_self a3
  have h6 : 0 ≤ |a2| := abs_nonneg _
  have h7 : 0 ≤ |a3| := abs_nonneg _
  -- a1 + t a2 + t² a3 ≥ 0 after division by t
  have h8 : 0 ≤ a1 + t * a2 + t * t * a3 := by
    by_contra hh
    push Not at hh
    have := mul_neg_of_pos_of_neg htpos hh
    nlinarith
  have h9 : t * a2 ≤ t * |a2| := mul_le_mul_of_nonneg_left h4 htpos.le
  have h10 : t * t * a3 ≤ t * |a3| := by
    have : t * t * a3 ≤ t * t * |a3| := mul_le_mul_of_nonneg_left h5 (by positivity)
    have h11 : t * t * |a3| ≤ t * |a3| := by
      have : t * t ≤ t := by nlinarith
      exact mul_le_mul_of_nonneg_right this h7
    linarith
  nlinarith

/-! ## Attainment of the dual minimum -/

/-- feasibility for the dual Gram-form program -/
def UgFeasible (p : κ → ℝ) (Z : Matrix κ κ ℂ) : Prop := Z.PosSemidef ∧ ∀ i, p i ≤ (Z i i).re

/-- coercivity: `g(Z) ≥ λ Re tr Z` when `G ⪰ λ·1` -/
theorem ugObj_ge (G Z : Matrix κ κ ℂ) (lam : ℝ) (hG : (G - (lam : ℂ) • (1 : Matrix κ κ ℂ)).PosSemidef)
    (hZ : Z.PosSemidef) : lam * Z.trace.re ≤ ugObj G Z := by
  have h := psd_trace_mul_nonneg hG hZ
  rw [Matrix.sub_mul, Matrix.trace_sub, Complex.sub_re, Matrix.smul_mul, Matrix.one_mul, Matrix.trace_smul,
    smul_eq_mul, Complex.re_ofReal_mul] at h
  unfold ugObj
  linarith

omit [DecidableEq κ] in
theorem ug_diag_nonneg {Z : Matrix κ κ ℂ} (hZ : Z.PosSemidef) (a : κ) : 0 ≤ (Z a a).re :=
  (Complex.nonneg_iff.mp hZ.diag_nonneg).1

omit [DecidableEq κ] in
theorem ug_diag_le_trace {Z : Matrix κ κ ℂ} (hZ : Z.PosSemidef) (a : κ) : (Z a a).re ≤ Z.trace.re := by
  unfold Matrix.trace
  rw [Complex.re_sum]
  exact Finset.single_le_sum (f := fun i => (Z i i).re) (fun i _ => ug_diag_nonneg hZ i) (Finset.mem_univ a)

/-- entries of a PSD matrix with diagonal `≤ c` have modulus `≤ 2c` -/
theorem ug_entry_bound {Z : Matrix κ κ ℂ} (hZ : Z.PosSemidef) (c : ℝ) (hc : 0 < c) (h : ∀ a, (Z a a).re ≤ c)
    (a b : κ) : ‖Z a b‖ ≤ 2 * c := by
  have hN : (((1 / c : ℝ) : ℂ) • Z.submatrix ![a, b] ![a, b]).PosSemidef :=
    me_psd_smul (hZ.submatrix _) (by positivity)
  have hd : ∀ x, ((((1 / c : ℝ) : ℂ) • Z.submatrix ![a, b] ![a, b]) x x).re ≤ 1 := by
    intro x
    rw [Matrix.smul_apply, smul_eq_mul, Complex.re_ofReal_mul, Matrix.submatrix_apply]
    have := h (![a, b] x)
    rw [one_div, inv_mul_le_iff₀ hc]
    linarith
  have := Toq.Excl.psd_two_offdiag _ hN (hd 0) (hd 1)
  rw [Matrix.smul_apply, smul_eq_mul, norm_mul, Complex.norm_real, Real.norm_eq_abs,
    abs_of_pos (by positivity : (0 : ℝ) < 1 / c)] at this
  simp only [Matrix.submatrix_apply, Matrix.cons_val_zero, Matrix.cons_val_one] at this
  rw [one_div, inv_mul_le_iff₀ hc] at this
  linarith

omit [DecidableEq κ] in
theorem ugObj_continuous (G : Matrix κ κ ℂ) : Continuous fun Z : Matrix κ κ ℂ => ugObj G Z := by
  unfold ugObj
  fun_prop

/-- **the dual minimum is attained** when `G ⪰ λ·1`, `λ > 0`, `p ≥ 0` -/
theorem ug_min_attained (G : Matrix κ κ ℂ) (p : κ → ℝ) (lam : ℝ) (hlam : 0 < lam)
    (hG : (G - (lam : ℂ) • (1 : Matrix κ κ ℂ)).PosSemidef) (hp : ∀ i, 0 ≤ p i) :
    ∃ Z, UgFeasible p Z ∧ ∀ Z', UgFeasible p Z' → ugObj G Z ≤ ugObj G Z' := by
  classical
  set Z0 : Matrix κ κ ℂ := Matrix.diagonal fun i => (p i : ℂ) with hZ0
  have hZ0f : UgFeasible p Z0 := ⟨ua_diagonal_psd p hp, fun i => by simp [hZ0]⟩
  set g0 := ugObj G Z0 with hg0
  have hg0nn : 0 ≤ g0 := by
    have := ugObj_ge G Z0 lam hG hZ0f.1
    have h2 : 0 ≤ Z0.trace.re := by
      unfold Matrix.trace; rw [Complex.re_sum]
      exact Finset.sum_nonneg fun i _ => ug_diag_nonneg hZ0f.1 i
    nlinarith
  set c := g0 / lam + 1 with hc
  have hcpos : 0 < c := by positivity
  set S : Set (Matrix κ κ ℂ) := {Z | UgFeasible p Z ∧ ugObj G Z ≤ g0} with hS
  have hclosed : IsClosed S := by
    have : S = {Z | Z.PosSemidef} ∩ (⋂ i : κ, {Z : Matrix κ κ ℂ | p i ≤ (Z i i).re}) ∩ {Z | ugObj G Z ≤ g0} := by
      ext Z
      simp [hS, UgFeasible, and_assoc]
    rw [this]
    refine (Toq.Excl.isClosed_psd.inter (isClosed_iInter fun i => ?_)).inter ?_
    · exact isClosed_le continuous_const (by fun_prop)
    · exact isClosed_le (ugObj_continuous G) continuous_const
  have hbox : S ⊆ (Set.pi Set.univ fun _ : κ => Set.pi Set.univ fun _ : κ => Metric.closedBall (0 : ℂ) (2 * c) :
      Set (Matrix κ κ ℂ)) := by
    intro Z hZ a _ b _
    rw [mem_closedBall_zero_iff]
    refine ug_entry_bound hZ.1.1 c hcpos (fun x => ?_) a b
    have h1 := ug_diag_le_trace hZ.1.1 x
    have h2 := ugObj_ge G Z lam hG hZ.1.1
    have h3 : Z.trace.re ≤ g0 / lam := by
      rw [le_div_iff₀ hlam]; linarith [hZ.2]
    linarith
  have hcomp : IsCompact S :=
    IsCompact.of_isClosed_subset (isCompact_univ_pi fun _ => isCompact_univ_pi fun _ => isCompact_closedBall _ _)
      hclosed hbox
  obtain ⟨Z, hZ, hmin⟩ := hcomp.exists_isMinOn ⟨Z0, hZ0f, le_refl _⟩ (ugObj_continuous G).continuousOn
  refine ⟨Z, hZ.1, fun Z' hZ' => ?_⟩
  by_cases h : ugObj G Z' ≤ g0
  · exact hmin (show Z' ∈ S from ⟨hZ', h⟩)
  · push Not at h
    exact (hZ.2.trans h.le)

/-! ## First-order optimality along the curves -/

/-- the curve stays PSD for `t ≥ 0` -/
theorem ugCurve_psd {Z P K : Matrix κ κ ℂ} (C : Matrix κ κ ℂ) (hZ : Z.PosSemidef) (hP : P.PosSemidef)
    (hK : K.PosSemidef) (t : ℝ) (ht : 0 ≤ t) : (ugCurve Z P C K t).PosSemidef := by
  unfold ugCurve
  exact ((hZ.add (me_psd_smul hP ht)).mul_mul_conjTranspose_same _).add (me_psd_smul hK (mul_nonneg ht ht))

/-- diagonal of the curve for real diagonal `C`, `K` -/
theorem ugCurve_diag (Z P : Matrix κ κ ℂ) (c k : κ → ℝ) (t : ℝ) (i : κ) :
    (ugCurve Z P (Matrix.diagonal fun j => (c j : ℂ)) (Matrix.diagonal fun j => (k j : ℂ)) t i i).re
      = (1 - t * c i) * (1 - t * c i) * ((Z i i).re + t * (P i i).re) + t * t * k i := by
  unfold ugCurve
  have hD : (1 - (t : ℂ) • Matrix.diagonal fun j => (c j : ℂ))
      = Matrix.diagonal fun j => (((1 - t * c j : ℝ)) : ℂ) := by
    ext a b
    by_cases hab : a = b
    · subst hab; simp
    · simp [Matrix.diagonal_apply_ne _ hab, Matrix.one_apply_ne hab]
  rw [hD, Matrix.diagonal_conjTranspose]
  simp only [Matrix.add_apply, Matrix.smul_apply, Matrix.diagonal_apply_eq, smul_eq_mul]
  rw [Matrix.mul_diagonal, Matrix.diagonal_mul]
  simp only [Matrix.add_apply, Matrix.smul_apply, smul_eq_mul, Pi.star_apply, Complex.star_def, Complex.conj_ofReal]
  simp only [Complex.add_re, Complex.mul_re, Complex.ofReal_re, Complex.ofReal_im, Complex.add_im, Complex.mul_im]
  ring

/-- `Re tr(G C Z) = Σ c_i Re (G Z)_ii = Re tr(G Z C)` for Hermitian `G`, `Z` and real diagonal `C` -/
theorem ugObj_diag_mul (G Z : Matrix κ κ ℂ) (hG : Gᴴ = G) (hZ : Zᴴ = Z) (c : κ → ℝ) :
    ugObj G ((Matrix.diagonal fun j => (c j : ℂ)) * Z) = ∑ i, c i * ((G * Z) i i).re ∧
      ugObj G (Z * (Matrix.diagonal fun j => (c j : ℂ))ᴴ) = ∑ i, c i * ((G * Z) i i).re := by
  have hZG : ∀ i, ((Z * G) i i).re = ((G * Z) i i).re := by
    intro i
    have : Z * G = (G * Z)ᴴ := by rw [conjTranspose_mul, hG, hZ]
    rw [this, conjTranspose_apply]
    simp
  constructor
  · unfold ugObj
    rw [Matrix.trace_mul_comm, Matrix.mul_assoc]
    unfold Matrix.trace
    rw [Complex.re_sum]
    refine Finset.sum_congr rfl fun i _ => ?_
    rw [Matrix.diag_apply, Matrix.diagonal_mul, Complex.re_ofReal_mul, hZG]
  · unfold ugObj
    rw [Matrix.diagonal_conjTranspose, ← Matrix.mul_assoc]
    unfold Matrix.trace
    rw [Complex.re_sum]
    refine Finset.sum_congr rfl fun i _ => ?_
    rw [Matrix.diag_apply, Matrix.mul_diagonal]
    simp [mul_comm]

/-- **Strong duality of the Gram-form program for independent states.**  `G ⪰ λ·1` (`λ > 0`), `p_i > 0`: there are a
primal-feasible `q` and a dual-feasible `Z` with `Σ_i p_i q_i = Re tr(G Z)`. -/
theorem ug_strong_duality_gen (G : Matrix κ κ ℂ) (p : κ → ℝ) (lam : ℝ) (hlam : 0 < lam)
    (hG : (G - (lam : ℂ) • (1 : Matrix κ κ ℂ)).PosSemidef) (hp : ∀ i, 0 < p i) :
    ∃ (q : κ → ℝ) (Z : Matrix κ κ ℂ), (∀ i, 0 ≤ q i) ∧ (G - Matrix.diagonal fun i => (q i : ℂ)).PosSemidef ∧
      Z.PosSemidef ∧ (∀ i, p i ≤ (Z i i).re) ∧ ∑ i, p i * q i = (G * Z).trace.re := by
  classical
  obtain ⟨Z, ⟨hZ, hZp⟩, hmin⟩ := ug_min_attained G p lam hlam hG fun i => (hp i).le
  have hGh : Gᴴ = G := by
    have h1 := hG.isHermitian.eq
    rw [conjTranspose_sub, conjTranspose_smul, conjTranspose_one] at h1
    have h2 : star (lam : ℂ) = (lam : ℂ) := by simp
    rw [h2] at h1
    exact sub_left_injective h1
  have hZh : Zᴴ = Z := hZ.isHermitian.eq
  set r : κ → ℝ := fun i => ((G * Z) i i).re with hr
  set z : κ → ℝ := fun i => (Z i i).re with hz
  have hzpos : ∀ i, 0 < z i := fun i => lt_of_lt_of_le (hp i) (hZp i)
  -- first-order optimality along a feasible curve
  have hfirst : ∀ (P : Matrix κ κ ℂ) (c k : κ → ℝ) (t0 : ℝ), P.PosSemidef → (∀ i, 0 ≤ k i) → 0 < t0 →
      (∀ t, 0 < t → t ≤ t0 → ∀ i, p i ≤
        (1 - t * c i) * (1 - t * c i) * (z i + t * (P i i).re) + t * t * k i) →
      0 ≤ ugObj G P - 2 * ∑ i, c i * r i := by
    intro P c k t0 hP hk ht0 hfeas
    have hK : (Matrix.diagonal fun j => (k j : ℂ)).PosSemidef := ua_diagonal_psd k hk
    obtain ⟨e1, e2⟩ := ugObj_diag_mul G Z hGh hZh c
    have := ug_cubic_nonneg (ugObj G P - 2 * ∑ i, c i * r i)
      (ugObj G ((Matrix.diagonal fun j => (c j : ℂ)) * Z * (Matrix.diagonal fun j => (c j : ℂ))ᴴ
        - (Matrix.diagonal fun j => (c j : ℂ)) * P - P * (Matrix.diagonal fun j => (c j : ℂ))ᴴ
        + Matrix.diagonal fun j => (k j : ℂ)))
      (ugObj G ((Matrix.diagonal fun j => (c j : ℂ)) * P * (Matrix.diagonal fun j => (c j : ℂ))ᴴ)) t0 ht0 ?_
    · exact this
    · intro t ht htt
      have hf : UgFeasible p (ugCurve Z P (Matrix.diagonal fun j => (c j : ℂ))
          (Matrix.diagonal fun j => (k j : ℂ)) t) :=
        ⟨ugCurve_psd _ hZ hP hK t ht.le, fun i => by rw [ugCurve_diag]; exact hfeas t ht htt i⟩
      have h1 := hmin _ hf
      rw [ugObj_curve, e1, e2] at h1
      linarith
  -- r_i ≥ 0
  have hr0 : ∀ i, 0 ≤ r i := by
    intro i
    have := hfirst 0 (fun j => if j = i then -1 else 0) (fun _ => 0) 1 Matrix.PosSemidef.zero
      (fun _ => le_refl _) one_pos ?_
    · have e : ∑ j, (if j = i then (-1 : ℝ) else 0) * r j = -r i := by
        simp [Finset.sum_ite_eq']
      rw [e] at this
      have h0 : ugObj G 0 = 0 := by simp [ugObj]
      rw [h0] at this
      linarith
    · intro t ht _ j
      simp only [Matrix.zero_apply, Complex.zero_re, mul_zero, add_zero]
      by_cases hj : j = i
      · subst hj
        simp only [if_true]
        have : z j ≤ (1 - t * -1) * (1 - t * -1) * z j := by
          have h1 : 1 ≤ (1 - t * -1) * (1 - t * -1) := by nlinarith
          nlinarith [hzpos j]
        exact (hZp j).trans this
      · simp only [if_neg hj, mul_zero, sub_zero, one_mul]
        exact hZp j
  -- slack diagonal entries: r_i = 0
  have hr1 : ∀ i, p i < z i → r i = 0 := by
    intro i hi
    have ht0 : 0 < (z i - p i) / (2 * z i) := div_pos (by linarith) (by linarith [hzpos i])
    have := hfirst 0 (fun j => if j = i then 1 else 0) (fun _ => 0) ((z i - p i) / (2 * z i))
      Matrix.PosSemidef.zero (fun _ => le_refl _) ht0 ?_
    · have e : ∑ j, (if j = i then (1 : ℝ) else 0) * r j = r i := by
        simp [Finset.sum_ite_eq']
      rw [e] at this
      have h0 : ugObj G 0 = 0 := by simp [ugObj]
      rw [h0] at this
      linarith [hr0 i]
    · intro t ht htt j
      simp only [Matrix.zero_apply, Complex.zero_re, mul_zero, add_zero]
      by_cases hj : j = i
      · subst hj
        simp only [if_true, mul_one]
        have h2 : t * (2 * z j) ≤ z j - p j := by rwa [le_div_iff₀ (by linarith [hzpos j])] at htt
        have h3 : (1 - 2 * t) * z j ≤ (1 - t) * (1 - t) * z j := by
          have : 1 - 2 * t ≤ (1 - t) * (1 - t) := by nlinarith
          exact mul_le_mul_of_nonneg_right this (hzpos j).le
        nlinarith
      · simp only [if_neg hj, mul_zero, sub_zero, one_mul]
        exact hZp j
  -- the primal point
  set q : κ → ℝ := fun i => r i / z i with hq
  have hq0 : ∀ i, 0 ≤ q i := fun i => div_nonneg (hr0 i) (hzpos i).le
  have hslack : ∀ i, (z i - p i) * q i = 0 := by
    intro i
    rcases (hZp i).lt_or_eq with h | h
    · rw [hq]; simp only; rw [hr1 i h, zero_div, mul_zero]
    · have : z i - p i = 0 := by rw [hz] at *; simp only at *; linarith
      rw [this, zero_mul]
  have hquad : ∀ x : κ → ℂ, 0 ≤ (star x ⬝ᵥ (G *ᵥ x)).re - ∑ i, q i * Complex.normSq (x i) := by
    intro x
    have := hfirst (vecMulVec x (star x)) (fun i => Complex.normSq (x i) / (2 * z i))
      (fun i => 3 * (Complex.normSq (x i) / (2 * z i)) * (Complex.normSq (x i) / (2 * z i)) * z i) 1
      (Matrix.posSemidef_vecMulVec_self_star x)
      (fun i => by
        have := Complex.normSq_nonneg (x i)
        have := (hzpos i).le
        positivity) one_pos ?_
    · have e1 : ugObj G (vecMulVec x (star x)) = (star x ⬝ᵥ (G *ᵥ x)).re := by
        unfold ugObj; rw [me_trace_mul_proj]
      have e2 : 2 * ∑ i, Complex.normSq (x i) / (2 * z i) * r i = ∑ i, q i * Complex.normSq (x i) := by
        rw [Finset.mul_sum]
        refine Finset.sum_congr rfl fun i _ => ?_
        rw [hq]
        have := (hzpos i).ne'
        field_simp
      rw [e1, e2] at this
      exact this
    · intro t ht _ i
      have hP : ((vecMulVec x (star x)) i i).re = Complex.normSq (x i) := by
        rw [Matrix.vecMulVec_apply, Pi.star_apply, Complex.star_def, Complex.mul_conj, Complex.ofReal_re]
      rw [hP]
      set a := Complex.normSq (x i) with ha
      have hzi := hzpos i
      have ha0 : 0 ≤ a := Complex.normSq_nonneg _
      have key : (1 - t * (a / (2 * z i))) * (1 - t * (a / (2 * z i))) * (z i + t * a)
          + t * t * (3 * (a / (2 * z i)) * (a / (2 * z i)) * z i)
          = z i + t * t * t * ((a / (2 * z i)) * (a / (2 * z i)) * a) := by
        field_simp
        ring
      rw [key]
      have : 0 ≤ t * t * t * ((a / (2 * z i)) * (a / (2 * z i)) * a) := by positivity
      linarith [hZp i]
  refine ⟨q, Z, hq0, ?_, hZ, hZp, ?_⟩
  · have hH : (G - Matrix.diagonal fun i => (q i : ℂ)).IsHermitian := by
      show (G - Matrix.diagonal fun i => (q i : ℂ))ᴴ = _
      rw [conjTranspose_sub, hGh, Matrix.diagonal_conjTranspose]
      congr 2
      funext i
      simp
    refine Matrix.PosSemidef.of_dotProduct_mulVec_nonneg hH fun x => ?_
    have him : (star x ⬝ᵥ ((G - Matrix.diagonal fun i => (q i : ℂ)) *ᵥ x)).im = 0 :=
      hH.im_star_dotProduct_mulVec_self x
    have h2 : star x ⬝ᵥ ((Matrix.diagonal fun i => (q i : ℂ)) *ᵥ x)
        = ((∑ i, q i * Complex.normSq (x i) : ℝ) : ℂ) := by
      simp only [dotProduct, Matrix.mulVec_diagonal, Pi.star_apply, Complex.ofReal_sum, Complex.ofReal_mul]
      refine Finset.sum_congr rfl fun i _ => ?_
      rw [Complex.normSq_eq_conj_mul_self]
      simp only [Complex.star_def]; ring
    have hre : (star x ⬝ᵥ ((G - Matrix.diagonal fun i => (q i : ℂ)) *ᵥ x)).re
        = (star x ⬝ᵥ (G *ᵥ x)).re - ∑ i, q i * Complex.normSq (x i) := by
      rw [Matrix.sub_mulVec, dotProduct_sub, Complex.sub_re, h2, Complex.ofReal_re]
    rw [Complex.nonneg_iff]
    exact ⟨by rw [hre]; exact hquad x, him.symm⟩
  · have h1 : ∀ i, p i * q i = r i := by
      intro i
      have h2 := hslack i
      have h3 : z i * q i = r i := by
        rw [hq]; simp only
        have := (hzpos i).ne'
        field_simp
      nlinarith
    rw [Finset.sum_congr rfl fun i _ => h1 i]
    unfold Matrix.trace
    rw [Complex.re_sum]
    rfl

/-- a positive definite matrix dominates a positive multiple of the identity (its spectrum is a finite set of positive
numbers) -/
theorem ug_posDef_lower (G : Matrix κ κ ℂ) (hG : G.PosDef) :
    ∃ lam : ℝ, 0 < lam ∧ (G - (lam : ℂ) • (1 : Matrix κ κ ℂ)).PosSemidef := by
  rcases isEmpty_or_nonempty κ with he | hne
  · refine ⟨1, one_pos, ?_⟩
    have : G - ((1 : ℝ) : ℂ) • (1 : Matrix κ κ ℂ) = 0 := Subsingleton.elim _ _
    rw [this]; exact Matrix.PosSemidef.zero
  · have hs : IsStrictlyPositive G := hG.isStrictlyPositive
    obtain ⟨r, hr, hle⟩ := (CFC.exists_pos_algebraMap_le_iff hs.isSelfAdjoint).2 (fun x hx => hs.spectrum_pos hx)
    refine ⟨r, hr, ?_⟩
    rw [Matrix.le_iff] at hle
    have e : (algebraMap ℝ (Matrix κ κ ℂ)) r = (r : ℂ) • (1 : Matrix κ κ ℂ) := by
      rw [Algebra.algebraMap_eq_smul_one, Complex.coe_smul]
    rwa [e] at hle

/-! ## No duality gap for every PSD Gram matrix and every prior `≥ 0` (limit of the regularised programs) -/

/-- the dual values `Re tr(G Z)` -/
def ugDualValues (G : Matrix κ κ ℂ) (p : κ → ℝ) : Set ℝ := {v | ∃ Z, UgFeasible p Z ∧ ugObj G Z = v}

theorem ugDualValues_nonempty (G : Matrix κ κ ℂ) (p : κ → ℝ) (hp : ∀ i, 0 ≤ p i) : (ugDualValues G p).Nonempty :=
  ⟨_, Matrix.diagonal (fun i => (p i : ℂ)), ⟨ua_diagonal_psd p hp, fun i => by simp⟩, rfl⟩

theorem ugDualValues_bddBelow (G : Matrix κ κ ℂ) (p : κ → ℝ) (hG : G.PosSemidef) : BddBelow (ugDualValues G p) :=
  ⟨0, by rintro v ⟨Z, hZ, rfl⟩; exact psd_trace_mul_nonneg hG hZ.1⟩

/-- the regularisation parameter `1/(n+1)` -/
noncomputable def ugEps (n : ℕ) : ℝ := 1 / ((n : ℝ) + 1)

theorem ugEps_pos (n : ℕ) : 0 < ugEps n := by unfold ugEps; positivity

theorem ugEps_anti (n : ℕ) : ugEps (n + 1) ≤ ugEps n := by
  unfold ugEps
  apply one_div_le_one_div_of_le (by positivity)
  push_cast; linarith

/-- primal points that are feasible for `G + ε_n` and reach the dual infimum `d` with the priors `p + ε_n` -/
def ugLevel (G : Matrix κ κ ℂ) (p : κ → ℝ) (d : ℝ) (n : ℕ) : Set (κ → ℝ) :=
  {q | (∀ i, 0 ≤ q i) ∧ (G + ((ugEps n : ℝ) : ℂ) • (1 : Matrix κ κ ℂ) - Matrix.diagonal fun i => (q i : ℂ)).PosSemidef ∧
    d ≤ ∑ i, (p i + ugEps n) * q i}

theorem ugLevel_isClosed (G : Matrix κ κ ℂ) (p : κ → ℝ) (d : ℝ) (n : ℕ) : IsClosed (ugLevel G p d n) := by
  have : ugLevel G p d n = (⋂ i : κ, {q : κ → ℝ | 0 ≤ q i})
      ∩ ((fun q : κ → ℝ => G + ((ugEps n : ℝ) : ℂ) • (1 : Matrix κ κ ℂ) - Matrix.diagonal fun i => (q i : ℂ)) ⁻¹'
          {A | A.PosSemidef})
      ∩ {q | d ≤ ∑ i, (p i + ugEps n) * q i} := by
    ext q
    simp [ugLevel, and_assoc]
  rw [this]
  refine ((isClosed_iInter fun i => isClosed_le continuous_const (continuous_apply i)).inter ?_).inter ?_
  · refine Toq.Excl.isClosed_psd.preimage ?_
    refine continuous_const.sub (Continuous.matrix_diagonal ?_)
    exact continuous_pi fun i => Complex.continuous_ofReal.comp (continuous_apply i)
  · exact isClosed_le continuous_const (by fun_prop)

theorem ugLevel_anti (G : Matrix κ κ ℂ) (p : κ → ℝ) (d : ℝ) (n : ℕ) : ugLevel G p d (n + 1) ⊆ ugLevel G p d n := by
  rintro q ⟨h0, h1, h2⟩
  refine ⟨h0, ?_, ?_⟩
  · have e : G + ((ugEps n : ℝ) : ℂ) • (1 : Matrix κ κ ℂ) - Matrix.diagonal (fun i => (q i : ℂ))
        = (G + ((ugEps (n + 1) : ℝ) : ℂ) • (1 : Matrix κ κ ℂ) - Matrix.diagonal fun i => (q i : ℂ))
          + (((ugEps n - ugEps (n + 1) : ℝ)) : ℂ) • (1 : Matrix κ κ ℂ) := by
      push_cast
      module
    rw [e]
    exact h1.add (me_psd_smul Matrix.PosSemidef.one (by linarith [ugEps_anti n]))
  · refine h2.trans (Finset.sum_le_sum fun i _ => ?_)
    exact mul_le_mul_of_nonneg_right (by linarith [ugEps_anti n]) (h0 i)

theorem ugLevel_zero_isCompact (G : Matrix κ κ ℂ) (p : κ → ℝ) (d : ℝ) : IsCompact (ugLevel G p d 0) := by
  refine IsCompact.of_isClosed_subset (isCompact_univ_pi fun i : κ => isCompact_Icc (a := (0 : ℝ))
    (b := (G i i).re + 1)) (ugLevel_isClosed G p d 0) ?_
  rintro q ⟨h0, h1, -⟩ i -
  refine ⟨h0 i, ?_⟩
  have := (Complex.nonneg_iff.mp (h1.diag_nonneg (i := i))).1
  simp [ugEps] at this
  linarith

/-- **No duality gap.**  For a PSD `G` and priors `p ≥ 0` some primal-feasible `q` attains the infimum of the dual values. -/
theorem ug_no_gap_gen (G : Matrix κ κ ℂ) (p : κ → ℝ) (hG : G.PosSemidef) (hp : ∀ i, 0 ≤ p i) :
    ∃ q : κ → ℝ, (∀ i, 0 ≤ q i) ∧ (G - Matrix.diagonal fun i => (q i : ℂ)).PosSemidef ∧
      ∑ i, p i * q i = sInf (ugDualValues G p) := by
  classical
  set d := sInf (ugDualValues G p) with hd
  have hbdd := ugDualValues_bddBelow G p hG
  -- every level set is non-empty: strong duality of the regularised program
  have hne : ∀ n, (ugLevel G p d n).Nonempty := by
    intro n
    have hGl : (G + ((ugEps n : ℝ) : ℂ) • (1 : Matrix κ κ ℂ) - ((ugEps n : ℝ) : ℂ) • (1 : Matrix κ κ ℂ)).PosSemidef := by
      rw [add_sub_cancel_right]; exact hG
    obtain ⟨q, Z, h1, h2, h3, h4, h5⟩ := ug_strong_duality_gen (G + ((ugEps n : ℝ) : ℂ) • (1 : Matrix κ κ ℂ))
      (fun i => p i + ugEps n) (ugEps n) (ugEps_pos n) hGl (fun i => by linarith [hp i, ugEps_pos n])
    refine ⟨q, h1, h2, ?_⟩
    rw [h5]
    have hZf : UgFeasible p Z := ⟨h3, fun i => by linarith [h4 i, ugEps_pos n]⟩
    have h6 : d ≤ ugObj G Z := csInf_le hbdd ⟨Z, hZf, rfl⟩
    have h7 : ugObj G Z ≤ ((G + ((ugEps n : ℝ) : ℂ) • (1 : Matrix κ κ ℂ)) * Z).trace.re := by
      rw [Matrix.add_mul, Matrix.trace_add, Complex.add_re, Matrix.smul_mul, Matrix.one_mul, Matrix.trace_smul,
        smul_eq_mul, Complex.re_ofReal_mul]
      have : 0 ≤ Z.trace.re := by
        unfold Matrix.trace; rw [Complex.re_sum]
        exact Finset.sum_nonneg fun i _ => ug_diag_nonneg h3 i
      unfold ugObj
      nlinarith [ugEps_pos n]
    linarith
  obtain ⟨q, hq⟩ := IsCompact.nonempty_iInter_of_sequence_nonempty_isCompact_isClosed (ugLevel G p d)
    (ugLevel_anti G p d) hne (ugLevel_zero_isCompact G p d) (ugLevel_isClosed G p d)
  rw [Set.mem_iInter] at hq
  have hq0 : ∀ i, 0 ≤ q i := (hq 0).1
  -- limits
  have hlim : ∀ a b : ℝ, 0 ≤ b → (∀ n, 0 ≤ a + ugEps n * b) → 0 ≤ a := by
    intro a b hb h
    by_contra ha
    push Not at ha
    obtain ⟨n, hn⟩ := exists_nat_one_div_lt (show 0 < -a / (b + 1) by exact div_pos (by linarith) (by linarith))
    have h1 := h n
    have h2 : ugEps n * (b + 1) < -a := by
      unfold ugEps
      rwa [lt_div_iff₀ (by linarith)] at hn
    nlinarith [ugEps_pos n]
  have hGh : Gᴴ = G := hG.isHermitian.eq
  have hH : (G - Matrix.diagonal fun i => (q i : ℂ)).IsHermitian := by
    show (G - Matrix.diagonal fun i => (q i : ℂ))ᴴ = _
    rw [conjTranspose_sub, hGh, Matrix.diagonal_conjTranspose]
    congr 2
    funext i
    simp
  have hfeas : (G - Matrix.diagonal fun i => (q i : ℂ)).PosSemidef := by
    refine Matrix.PosSemidef.of_dotProduct_mulVec_nonneg hH fun x => ?_
    have him : (star x ⬝ᵥ ((G - Matrix.diagonal fun i => (q i : ℂ)) *ᵥ x)).im = 0 :=
      hH.im_star_dotProduct_mulVec_self x
    have hs : 0 ≤ (star x ⬝ᵥ x).re := (Complex.nonneg_iff.mp (dotProduct_star_self_nonneg x)).1
    have hre := hlim (star x ⬝ᵥ ((G - Matrix.diagonal fun i => (q i : ℂ)) *ᵥ x)).re (star x ⬝ᵥ x).re hs ?_
    · rw [Complex.nonneg_iff]; exact ⟨hre, him.symm⟩
    · intro n
      have h1 := (Complex.nonneg_iff.mp ((hq n).2.1.dotProduct_mulVec_nonneg x)).1
      have e : G + ((ugEps n : ℝ) : ℂ) • (1 : Matrix κ κ ℂ) - Matrix.diagonal (fun i => (q i : ℂ))
          = (G - Matrix.diagonal fun i => (q i : ℂ)) + ((ugEps n : ℝ) : ℂ) • (1 : Matrix κ κ ℂ) := by abel
      rw [e, Matrix.add_mulVec, dotProduct_add, Complex.add_re, Matrix.smul_mulVec, Matrix.one_mulVec,
        dotProduct_smul, smul_eq_mul, Complex.re_ofReal_mul] at h1
      exact h1
  have hval : d ≤ ∑ i, p i * q i := by
    have := hlim (∑ i, p i * q i - d) (∑ i, q i) (Finset.sum_nonneg fun i _ => hq0 i) ?_
    · linarith
    · intro n
      have h1 := (hq n).2.2
      have e : ∑ i, (p i + ugEps n) * q i = ∑ i, p i * q i + ugEps n * ∑ i, q i := by
        rw [Finset.mul_sum, ← Finset.sum_add_distrib]
        exact Finset.sum_congr rfl fun i _ => by ring
      rw [e] at h1
      linarith
  refine ⟨q, hq0, hfeas, le_antisymm ?_ hval⟩
  refine le_csInf (ugDualValues_nonempty G p hp) ?_
  rintro v ⟨Z, hZ, rfl⟩
  exact unamb_weak_duality_gen G Z p q hq0 hfeas hZ.1 hZ.2

end Gram

end Toq.Discrim
