import Toq.Model.DiscrimCall
/-!
# Helper lemmas for C10: the binding of the option arguments of `state_distinguishability` (`Toq.Model.DiscrimCall`)
-/

namespace Toq.Discrim

/-- no entry of `kw` has the key `n` -/
def sdNoKey (kw : List (String × String)) (n : String) : Prop := ∀ e ∈ kw, e.1 ≠ n

theorem any_key_false {kw : List (String × String)} {n : String} (h : sdNoKey kw n) :
    (kw.any fun e => e.1 == n) = false := by
  rw [List.any_eq_false]
  intro e he
  simpa using h e he

theorem sdBind_nil (kw : List (String × String)) :
    sdBind [] kw = some ⟨(kw.lookup "strategy").getD "min_error", (kw.lookup "solver").getD "cvxopt",
      (kw.lookup "primal_dual").getD "dual"⟩ := by
  simp [sdBind, sdOptValue, sdOptNames, sdDefaultStrategy, sdDefaultSolver, sdDefaultPrimalDual]

theorem sdBind_one (s : String) (kw : List (String × String)) (h : sdNoKey kw "strategy") :
    sdBind [s] kw = some ⟨s, (kw.lookup "solver").getD "cvxopt", (kw.lookup "primal_dual").getD "dual"⟩ := by
  simp [sdBind, sdOptValue, sdOptNames, sdDefaultSolver, sdDefaultPrimalDual, any_key_false h]

theorem sdBind_two (s v : String) (kw : List (String × String)) (h : sdNoKey kw "strategy") (h2 : sdNoKey kw "solver") :
    sdBind [s, v] kw = some ⟨s, v, (kw.lookup "primal_dual").getD "dual"⟩ := by
  simp [sdBind, sdOptValue, sdOptNames, sdDefaultPrimalDual, any_key_false h, any_key_false h2]

theorem sdBind_three (s v p : String) (kw : List (String × String)) (h : sdNoKey kw "strategy") (h2 : sdNoKey kw "solver")
    (h3 : sdNoKey kw "primal_dual") : sdBind [s, v, p] kw = some ⟨s, v, p⟩ := by
  simp [sdBind, sdOptValue, sdOptNames, any_key_false h, any_key_false h2, any_key_false h3]

theorem sdBind_four (a b c e : String) (rest : List String) (kw : List (String × String)) :
    sdBind (a :: b :: c :: e :: rest) kw = none := by
  simp [sdBind]

theorem lookup_cons_ne (k n v : String) (kw : List (String × String)) (h : (n == k) = false) :
    List.lookup n ((k, v) :: kw) = List.lookup n kw := by
  simp [List.lookup, h]

/-- **A positional option is the keyword of its parameter name.**  Moving the positional options of a well-formed call
(at most three, none of them also given by keyword) in front of the keywords under the names `strategy`, `solver`,
`primal_dual` — in this order — binds the same values. -/
theorem sdBind_pos_eq_kw (pos : List String) (kw : List (String × String)) (hl : pos.length ≤ 3)
    (hk : ∀ n ∈ sdOptNames.take pos.length, sdNoKey kw n) :
    sdBind pos kw = sdBind [] (sdOptNames.zip pos ++ kw) := by
  match pos, hl, hk with
  | [], _, _ => simp [sdOptNames]
  | [s], _, hk =>
    have h1 : sdNoKey kw "strategy" := hk _ (by simp [sdOptNames])
    rw [sdBind_one s kw h1, sdBind_nil]
    simp [sdOptNames, List.lookup]
  | [s, v], _, hk =>
    have h1 : sdNoKey kw "strategy" := hk _ (by simp [sdOptNames])
    have h2 : sdNoKey kw "solver" := hk _ (by simp [sdOptNames])
    rw [sdBind_two s v kw h1 h2, sdBind_nil]
    simp [sdOptNames, List.lookup]
  | [s, v, p], _, hk =>
    have h1 : sdNoKey kw "strategy" := hk _ (by simp [sdOptNames])
    have h2 : sdNoKey kw "solver" := hk _ (by simp [sdOptNames])
    have h3 : sdNoKey kw "primal_dual" := hk _ (by simp [sdOptNames])
    rw [sdBind_three s v p kw h1 h2 h3, sdBind_nil]
    simp [sdOptNames, List.lookup]
  | _ :: _ :: _ :: _ :: _, hl, _ => simp at hl

/-- `sdBind` fails exactly on the two `TypeError`s of Python's binding rule -/
theorem sdBind_eq_none_iff (pos : List String) (kw : List (String × String)) :
    sdBind pos kw = none ↔ 3 < pos.length ∨ ∃ n ∈ sdOptNames.take pos.length, ∃ e ∈ kw, e.1 = n := by
  unfold sdBind
  by_cases h : 3 < pos.length
  · simp [h]
  · by_cases h2 : ((sdOptNames.take pos.length).any fun n => kw.any fun e => e.1 == n) = true
    · simp only [h, h2, if_true, if_false, false_or, true_iff]
      rw [List.any_eq_true] at h2
      obtain ⟨n, hn, hh⟩ := h2
      rw [List.any_eq_true] at hh
      obtain ⟨e, he, hee⟩ := hh
      exact ⟨n, hn, e, he, by simpa using hee⟩
    · simp only [h, h2, if_false, false_or]
      constructor
      · intro hh; cases hh
      · rintro ⟨n, hn, e, he, hee⟩
        exfalso
        apply h2
        rw [List.any_eq_true]
        exact ⟨n, hn, by rw [List.any_eq_true]; exact ⟨e, he, by simpa using hee⟩⟩

end Toq.Discrim
