import Toq.Proofs.ChanMetrics
import Toq.Proofs.MetricsSpectral
/-!
# Helper lemmas for C20: explicit certificates from spectral data

* the partial trace of a positive semidefinite operator is positive semidefinite, `tr(T)·1 ⪰ T` for `T ⪰ 0`;
* a Hermitian contraction `W` (`−1 ⪯ W ⪯ 1`, `Toq.Metrics.IsContraction`) gives the positive block `[[1, W],[W, 1]]`
  and, conjugated by any `D`, the primal-feasible block `[[D Dᴴ, D W Dᴴ],[D W Dᴴ, D Dᴴ]]`;
* `Y ⪰ ±J` gives the dual-feasible block `[[Y, −J],[−J, Y]]`;
* the Jordan decomposition `J = P − Q` of a Hermitian matrix with `tr P + tr Q = ‖J‖₁` (the trace norm in the
  variational form of C13, `Toq.Metrics.traceNormV`, proved there to be the sum of the moduli of the eigenvalues).
-/

open Matrix Kronecker
open scoped ComplexOrder MatrixOrder

set_option linter.unusedSectionVars false

namespace Toq.ChanMetrics
open Toq.Metrics

section
variable {ι κ : Type*} [Fintype ι] [DecidableEq ι] [Fintype κ] [DecidableEq κ]

/-- the partial trace of a positive semidefinite operator is positive semidefinite -/
theorem ptr2_posSemidef {A : Matrix (ι × κ) (ι × κ) ℂ} (hA : A.PosSemidef) : (ptr2 A).PosSemidef := by
  have e : ptr2 A = ∑ y : κ, A.submatrix (fun a : ι => (a, y)) (fun a : ι => (a, y)) := by
    ext a b
    simp [Matrix.sum_apply]
  rw [e]
  exact Matrix.posSemidef_sum _ fun y _ => hA.submatrix _

end

section
variable {n : Type*} [Fintype n] [DecidableEq n]

theorem conjDiag_const {U : Matrix n n ℂ} (hU' : U * Uᴴ = 1) (c : ℝ) :
    conjDiag U (fun _ => c) = (c : ℂ) • (1 : Matrix n n ℂ) := by
  unfold conjDiag
  have : (diagonal fun _ : n => (c : ℂ)) = (c : ℂ) • (1 : Matrix n n ℂ) := by
    ext i j
    by_cases h : i = j <;> simp [h]
  rw [this, Matrix.mul_smul, Matrix.mul_one, Matrix.smul_mul, hU']

/-- `tr(T)·1 − T ⪰ 0` for `T ⪰ 0` (the largest eigenvalue is at most the trace) -/
theorem psd_trace_smul_one_sub {T : Matrix n n ℂ} (hT : T.PosSemidef) :
    (((T.trace.re : ℝ) : ℂ) • (1 : Matrix n n ℂ) - T).PosSemidef := by
  obtain ⟨U, hU, hU', hTe⟩ := exists_conjDiag hT.isHermitian
  set lam := hT.isHermitian.eigenvalues with hlam
  have hnn : ∀ i, 0 ≤ lam i := fun i => hT.eigenvalues_nonneg i
  have htr : T.trace.re = ∑ i, lam i := by
    conv_lhs => rw [hTe]
    exact conjDiag_trace_re hU lam
  rw [htr, ← conjDiag_const hU']
  conv => enter [1, 2]; rw [hTe]
  rw [conjDiag_sub]
  refine conjDiag_posSemidef U fun i => ?_
  have := Finset.single_le_sum (f := lam) (fun j _ => hnn j) (Finset.mem_univ i)
  linarith

theorem half_nonneg_c : (0 : ℂ) ≤ ((1 / 2 : ℝ) : ℂ) := by exact_mod_cast (by norm_num : (0 : ℝ) ≤ 1 / 2)

/-- a Hermitian contraction gives the positive block `[[1, W],[Wᴴ, 1]]` -/
theorem psd_block_of_contraction {W : Matrix n n ℂ} (hW : IsContraction W) :
    (fromBlocks (1 : Matrix n n ℂ) W Wᴴ 1).PosSemidef := by
  have h1 := (psd_block_same hW.2).smul (a := ((1 / 2 : ℝ) : ℂ)) half_nonneg_c
  have h2 := (psd_block_same_neg hW.1).smul (a := ((1 / 2 : ℝ) : ℂ)) half_nonneg_c
  have h := h1.add h2
  rw [Matrix.fromBlocks_smul, Matrix.fromBlocks_smul, Matrix.fromBlocks_add] at h
  have e1 : ((1 / 2 : ℝ) : ℂ) • ((1 : Matrix n n ℂ) + W) + ((1 / 2 : ℝ) : ℂ) • ((1 : Matrix n n ℂ) - W) = 1 := by
    rw [← smul_add]
    have : (1 : Matrix n n ℂ) + W + (1 - W) = (2 : ℂ) • (1 : Matrix n n ℂ) := by rw [two_smul]; abel
    rw [this, smul_smul]; norm_num
  have e2 : ((1 / 2 : ℝ) : ℂ) • ((1 : Matrix n n ℂ) + W) + ((1 / 2 : ℝ) : ℂ) • (-((1 : Matrix n n ℂ) - W)) = W := by
    rw [← smul_add]
    have : (1 : Matrix n n ℂ) + W + -(1 - W) = (2 : ℂ) • W := by rw [two_smul]; abel
    rw [this, smul_smul]; norm_num
  rw [e1, e2] at h
  rwa [hW.isHermitian.eq]

/-- conjugating `[[1, W],[W, 1]]` by `diag(D, D)`: the block `[[D Dᴴ, D W Dᴴ],[(D W Dᴴ)ᴴ, D Dᴴ]]` is positive -/
theorem psd_block_sandwich {W : Matrix n n ℂ} (hW : IsContraction W) (D : Matrix n n ℂ) :
    (fromBlocks (D * Dᴴ) (D * W * Dᴴ) ((D * W * Dᴴ)ᴴ) (D * Dᴴ)).PosSemidef := by
  have h := psd_block_conj D D (psd_block_of_contraction hW)
  simpa using h

/-- `Y ⪰ J` and `Y ⪰ −J` give the dual-feasible block `[[Y, −J],[−Jᴴ, Y]] ⪰ 0` (for Hermitian `J`) -/
theorem psd_block_of_pm {J Y : Matrix n n ℂ} (hJ : J.IsHermitian) (hm : (Y - J).PosSemidef) (hp : (Y + J).PosSemidef) :
    (fromBlocks Y (-J) (-Jᴴ) Y).PosSemidef := by
  have h1 := (psd_block_same hm).smul (a := ((1 / 2 : ℝ) : ℂ)) half_nonneg_c
  have h2 := (psd_block_same_neg hp).smul (a := ((1 / 2 : ℝ) : ℂ)) half_nonneg_c
  have h := h1.add h2
  rw [Matrix.fromBlocks_smul, Matrix.fromBlocks_smul, Matrix.fromBlocks_add] at h
  have e1 : ((1 / 2 : ℝ) : ℂ) • (Y - J) + ((1 / 2 : ℝ) : ℂ) • (Y + J) = Y := by
    rw [← smul_add]
    have : Y - J + (Y + J) = (2 : ℂ) • Y := by rw [two_smul]; abel
    rw [this, smul_smul]; norm_num
  have e2 : ((1 / 2 : ℝ) : ℂ) • (Y - J) + ((1 / 2 : ℝ) : ℂ) • (-(Y + J)) = -J := by
    rw [← smul_add]
    have : Y - J + -(Y + J) = (2 : ℂ) • (-J) := by rw [two_smul]; abel
    rw [this, smul_smul]; norm_num
  rw [e1, e2] at h
  rwa [hJ.eq]

/-- **Jordan decomposition attaining the trace norm**: a Hermitian `H` is `P − Q` with `P, Q ⪰ 0` and
`tr P + tr Q = ‖H‖₁`. -/
theorem exists_jordan_traceNormV {H : Matrix n n ℂ} (hH : H.IsHermitian) :
    ∃ P Q : Matrix n n ℂ, P.PosSemidef ∧ Q.PosSemidef ∧ H = P - Q ∧ P.trace.re + Q.trace.re = traceNormV H := by
  obtain ⟨U, hU, hU', hHe⟩ := exists_conjDiag hH
  set lam := hH.eigenvalues with hlam
  refine ⟨conjDiag U (fun i => max (lam i) 0), conjDiag U (fun i => max (-lam i) 0),
    conjDiag_posSemidef U fun i => le_max_right _ _, conjDiag_posSemidef U fun i => le_max_right _ _, ?_, ?_⟩
  · rw [conjDiag_sub]
    conv_lhs => rw [hHe]
    congr 1; funext i
    rcases le_total 0 (lam i) with h | h
    · rw [max_eq_left h, max_eq_right (by linarith)]; ring
    · rw [max_eq_right h, max_eq_left (by linarith)]; ring
  · rw [traceNormV_eq_sum_abs_eigenvalues hH, conjDiag_trace_re hU, conjDiag_trace_re hU, ← Finset.sum_add_distrib]
    refine Finset.sum_congr rfl fun i _ => ?_
    rcases le_total 0 (lam i) with h | h
    · rw [max_eq_left h, max_eq_right (by linarith), abs_of_nonneg h]; ring
    · rw [max_eq_right h, max_eq_left (by linarith), abs_of_nonpos h]; ring

end

end Toq.ChanMetrics
