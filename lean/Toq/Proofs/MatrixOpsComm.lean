import Toq.Proofs.MatrixOps
import Mathlib.LinearAlgebra.Dimension.Constructions
import Mathlib.LinearAlgebra.Dimension.Finite
import Mathlib.LinearAlgebra.Matrix.ToLin
import Mathlib.Algebra.Module.Submodule.Equiv
import Mathlib.Algebra.Algebra.Subalgebra.Basic
import Mathlib.Logic.Equiv.Fin.Basic
import Mathlib.Algebra.BigOperators.Fin
/-!
# `commutant`: the null space of the stacked system IS the commutant

toqito's `commutant(A)` stacks, for the generators `A_1 … A_g` (each `dim × dim`), the matrices
`kron(A_i, I) − kron(I, A_iᵀ)` (`np.vstack`), takes `null_space` and reshapes each null vector row-major to
`dim × dim`.  The mirror is `commStack` / `commutantDim` (`Toq/Model/MatrixOps.lean`).  Here:

* `commStack_size`, `commStack_get`: the rows of the stack are the rows of the systems of the generators, in order;
* `commStack_mulVec_eq_zero_iff`: a vector `x` is in the null space of the stack iff its row-major unflattening
  `X i j = x (i*dim + j)` commutes with every generator;
* `commutantDim_eq_finrank_commutant`: `commutantDim` is the dimension of the commutant
  `{X | ∀ A ∈ gens, A X = X A}` (a `Submodule`, equal to the centralizer of the set of generators);
* corollaries: `1 ≤ commutantDim` (for `dim ≥ 1`), `commutantDim ≤ dim²`, `commutantDim dim [] = dim²`,
  antitonicity in the set of generators.

Index convention: Mathlib's `finProdFinEquiv (i, j) = j + dim * i` (value), i.e. exactly NumPy's row-major
(`order="C"`) flat index `i*dim + j` used by `reshape((dim, dim))`.
-/

namespace Toq.MatrixOps
open Matrix Toq.MatrixPreds

/-! ## (1) the rows of the stack -/

/-- one step of the `vstack` fold -/
def commStep (dim : Nat) (acc : QMat) (A : Mat QI) : QMat := acc ++ QMat.ofMat (commSystem dim A)

theorem commStack_eq_foldl (dim : Nat) (gens : List (Mat QI)) :
    commStack dim gens = gens.foldl (commStep dim) #[] := rfl

theorem ofMat_size (A : Mat QI) : (QMat.ofMat A).size = A.r := by
  simp [QMat.ofMat]

theorem commSystem_r (dim : Nat) (A : Mat QI) : (commSystem dim A).r = A.r * dim := rfl
theorem commSystem_c (dim : Nat) (A : Mat QI) : (commSystem dim A).c = A.c * dim := rfl

theorem append_getElem!_left (a b : QMat) (i : Nat) (hi : i < a.size) : (a ++ b)[i]! = a[i]! := by
  rw [getElem!_pos (a ++ b) i (by simp; omega), getElem!_pos a i hi, Array.getElem_append_left hi]

theorem append_getElem!_right (a b : QMat) (r : Nat) (hr : r < b.size) : (a ++ b)[a.size + r]! = b[r]! := by
  rw [getElem!_pos (a ++ b) _ (by simp; omega), getElem!_pos b r hr, Array.getElem_append_right (by omega)]
  simp

theorem foldl_commStep_size (dim : Nat) : ∀ (gens : List (Mat QI)) (acc : QMat),
    (∀ A ∈ gens, A.r = dim) →
    (gens.foldl (commStep dim) acc).size = acc.size + gens.length * (dim * dim)
  | [], acc, _ => by simp
  | A :: rest, acc, h => by
    have hA : A.r = dim := h A (by simp)
    rw [List.foldl_cons, foldl_commStep_size dim rest _ (fun B hB => h B (by simp [hB]))]
    simp only [commStep, Array.size_append, ofMat_size, commSystem_r, hA, List.length_cons]
    ring

theorem foldl_commStep_low (dim : Nat) : ∀ (gens : List (Mat QI)) (acc : QMat) (i : Nat), i < acc.size →
    (gens.foldl (commStep dim) acc)[i]! = acc[i]!
  | [], _, _, _ => rfl
  | A :: rest, acc, i, hi => by
    rw [List.foldl_cons, foldl_commStep_low dim rest _ i (by simp [commStep]; omega)]
    exact append_getElem!_left _ _ i hi

theorem foldl_commStep_row (dim : Nat) : ∀ (gens : List (Mat QI)) (acc : QMat) (t r : Nat)
    (ht : t < gens.length), (∀ A ∈ gens, A.r = dim) → r < dim * dim →
    (gens.foldl (commStep dim) acc)[acc.size + t * (dim * dim) + r]! = (QMat.ofMat (commSystem dim gens[t]))[r]!
  | [], _, _, _, ht, _, _ => by simp at ht
  | A :: rest, acc, 0, r, _, h, hr => by
    have hA : A.r = dim := h A (by simp)
    have hs : (QMat.ofMat (commSystem dim A)).size = dim * dim := by rw [ofMat_size, commSystem_r, hA]
    rw [List.foldl_cons, foldl_commStep_low dim rest _ _ (by simp [commStep, hs]; omega)]
    simpa [commStep] using append_getElem!_right acc _ r (by rw [hs]; exact hr)
  | A :: rest, acc, t + 1, r, ht, h, hr => by
    have hA : A.r = dim := h A (by simp)
    have hs : (QMat.ofMat (commSystem dim A)).size = dim * dim := by rw [ofMat_size, commSystem_r, hA]
    have ht' : t < rest.length := by simpa using ht
    have ih := foldl_commStep_row dim rest (commStep dim acc A) t r ht' (fun B hB => h B (by simp [hB])) hr
    rw [List.foldl_cons]
    have e : acc.size + (t + 1) * (dim * dim) + r = (commStep dim acc A).size + t * (dim * dim) + r := by
      simp only [commStep, Array.size_append, hs]; ring
    rw [e, ih]
    simp

/-- the stack has `gens.length * dim * dim` rows -/
theorem commStack_size (dim : Nat) (gens : List (Mat QI)) (h : ∀ A ∈ gens, A.r = dim) :
    (commStack dim gens).size = gens.length * dim * dim := by
  rw [commStack_eq_foldl, foldl_commStep_size dim gens #[] h]
  simp [Nat.mul_assoc]

/-- row `t*dim² + r` of the stack is row `r` of the system of the `t`-th generator -/
theorem commStack_get (dim : Nat) (gens : List (Mat QI)) (h : ∀ A ∈ gens, A.r = dim ∧ A.c = dim)
    (t r c : Nat) (ht : t < gens.length) (hr : r < dim * dim) (hc : c < dim * dim) :
    (commStack dim gens).get (t * dim * dim + r) c = (commSystem dim gens[t]).f r c := by
  have hA := h gens[t] (List.getElem_mem ht)
  have h1 := foldl_commStep_row dim gens #[] t r ht (fun A hA => (h A hA).1) hr
  rw [← ofMat_get (commSystem dim gens[t]) r c (by rw [commSystem_r, hA.1]; exact hr)
    (by rw [commSystem_c, hA.2]; exact hc)]
  unfold QMat.get
  rw [commStack_eq_foldl]
  have e : t * dim * dim + r = (#[] : QMat).size + t * (dim * dim) + r := by simp [Nat.mul_assoc]
  rw [e, h1]

/-! ## (2) the null space of the stack = matrices commuting with every generator -/

/-- row-major unflattening of a vector of length `dim²` (`x.reshape((dim, dim))`): `X i j = x (i*dim + j)` -/
def unflat (dim : Nat) (x : Fin (dim * dim) → ℂ) : Matrix (Fin dim) (Fin dim) ℂ :=
  fun i j => x (finProdFinEquiv (i, j))

theorem idx_lt {n i j : Nat} (hi : i < n) (hj : j < n) : i * n + j < n * n :=
  calc i * n + j < i * n + n := by omega
    _ = (i + 1) * n := by ring
    _ ≤ n * n := Nat.mul_le_mul_right n hi

theorem stackIdx_lt {g d t r : Nat} (ht : t < g) (hr : r < d * d) : t * d * d + r < g * d * d := by
  rw [Nat.mul_assoc, Nat.mul_assoc]
  calc t * (d * d) + r < t * (d * d) + d * d := by omega
    _ = (t + 1) * (d * d) := by ring
    _ ≤ g * (d * d) := Nat.mul_le_mul_right _ ht

/-- the index formula of the unflattening: entry `(i, j)` is component `i*dim + j` (NumPy `order="C"`) -/
theorem unflat_apply (dim : Nat) (x : Fin (dim * dim) → ℂ) (i j : Fin dim) :
    unflat dim x i j = x ⟨i.val * dim + j.val, idx_lt i.isLt j.isLt⟩ := by
  unfold unflat
  congr 1
  apply Fin.ext
  show j.val + dim * i.val = i.val * dim + j.val
  ring

theorem commSystem_entry (dim : Nat) (A : Mat QI) (hr : A.r = dim) (hc : A.c = dim) (i j a b : Fin dim) :
    ((commSystem dim A).f (i.val * dim + j.val) (finProdFinEquiv (a, b)).val).toC
      = (A.f i.val a.val).toC * (if j = b then 1 else 0) - (if i = a then 1 else 0) * (A.f b.val j.val).toC := by
  have hi := i.isLt
  have hj := j.isLt
  have ha := a.isLt
  have hb := b.isLt
  have e1 : (i.val * dim + j.val) / dim = i.val := by
    rw [Nat.add_comm, Nat.add_mul_div_right _ _ (by omega), Nat.div_eq_of_lt hj]; omega
  have e2 : (i.val * dim + j.val) % dim = j.val := by
    rw [Nat.add_comm, Nat.add_mul_mod_self_right]; exact Nat.mod_eq_of_lt hj
  have e3 : (b.val + dim * a.val) / dim = a.val := by
    rw [Nat.add_mul_div_left _ _ (by omega), Nat.div_eq_of_lt hb]; omega
  have e4 : (b.val + dim * a.val) % dim = b.val := by
    rw [Nat.add_mul_mod_self_left]; exact Nat.mod_eq_of_lt hb
  show ((kron A (eye dim)).f (i.val * dim + j.val) (b.val + dim * a.val)
      - (kron (eye dim) (transpose A)).f (i.val * dim + j.val) (b.val + dim * a.val)).toC = _
  rw [kron_f, kron_f]
  show (A.f ((i.val * dim + j.val) / dim) ((b.val + dim * a.val) / dim)
        * (eye dim : Mat QI).f ((i.val * dim + j.val) % dim) ((b.val + dim * a.val) % dim)
      - (eye dim : Mat QI).f ((i.val * dim + j.val) / A.c) ((b.val + dim * a.val) / A.r)
        * A.f ((b.val + dim * a.val) % A.r) ((i.val * dim + j.val) % A.c)).toC = _
  rw [hr, hc, e1, e2, e3, e4, eye_f, eye_f, QI.toC_sub, QI.toC_mul, QI.toC_mul]
  simp only [Fin.val_inj]
  congr 2
  · split <;> simp
  · split <;> simp

/-- ONE generator, over `ℂ`: row `i*dim + j` of `kron(A, I) − kron(I, Aᵀ)` applied to `x` is `(A X − X A)[i, j]` -/
theorem commSystem_row_sum (dim : Nat) (A : Mat QI) (hr : A.r = dim) (hc : A.c = dim)
    (x : Fin (dim * dim) → ℂ) (i j : Fin dim) :
    ∑ c : Fin (dim * dim), ((commSystem dim A).f (i.val * dim + j.val) c.val).toC * x c
      = (Toq.Rank.fnToM dim dim A.f * unflat dim x - unflat dim x * Toq.Rank.fnToM dim dim A.f) i j := by
  rw [← (finProdFinEquiv (m := dim) (n := dim)).sum_comp, Fintype.sum_prod_type]
  simp only [commSystem_entry dim A hr hc, Matrix.sub_apply, Matrix.mul_apply, Toq.Rank.fnToM, unflat]
  simp only [sub_mul, Finset.sum_sub_distrib]
  congr 1
  · apply Finset.sum_congr rfl
    intro a _
    simp [mul_ite, ite_mul, Finset.sum_ite_eq]
  · rw [Finset.sum_comm]
    simp [ite_mul, Finset.sum_ite_eq, mul_comm]

theorem stackIdx_decomp (d m : Nat) : m = m / (d * d) * d * d + (m % (d * d) / d * d + m % (d * d) % d) := by
  rw [Nat.div_add_mod', Nat.mul_assoc, Nat.div_add_mod']

/-- the stacked system as a complex matrix -/
noncomputable abbrev commStackM (dim : Nat) (gens : List (Mat QI)) : Matrix (Fin (gens.length * dim * dim)) (Fin (dim * dim)) ℂ :=
  qmatToM (gens.length * dim * dim) (dim * dim) (commStack dim gens)

/-- component `t*dim² + (i*dim + j)` of `stack · x` is `(A_t X − X A_t)[i, j]` -/
theorem commStack_mulVec_row (dim : Nat) (gens : List (Mat QI)) (h : ∀ A ∈ gens, A.r = dim ∧ A.c = dim)
    (x : Fin (dim * dim) → ℂ) (t : Nat) (ht : t < gens.length) (i j : Fin dim) :
    (commStackM dim gens *ᵥ x) ⟨t * dim * dim + (i.val * dim + j.val), stackIdx_lt ht (idx_lt i.isLt j.isLt)⟩
      = (Toq.Rank.fnToM dim dim gens[t].f * unflat dim x - unflat dim x * Toq.Rank.fnToM dim dim gens[t].f) i j := by
  have hA := h gens[t] (List.getElem_mem ht)
  rw [← commSystem_row_sum dim gens[t] hA.1 hA.2 x i j]
  unfold Matrix.mulVec dotProduct
  apply Finset.sum_congr rfl
  intro c _
  show ((commStack dim gens).get (t * dim * dim + (i.val * dim + j.val)) c.val).toC * x c = _
  rw [commStack_get dim gens h t _ c.val ht (idx_lt i.isLt j.isLt) c.isLt]

/-- **kernel characterisation**: `x` is a null vector of the stacked system iff its row-major unflattening commutes
    with every generator -/
theorem commStack_mulVec_eq_zero_iff (dim : Nat) (gens : List (Mat QI)) (h : ∀ A ∈ gens, A.r = dim ∧ A.c = dim)
    (x : Fin (dim * dim) → ℂ) :
    commStackM dim gens *ᵥ x = 0
      ↔ ∀ A ∈ gens, Toq.Rank.fnToM dim dim A.f * unflat dim x = unflat dim x * Toq.Rank.fnToM dim dim A.f := by
  constructor
  · intro h0 A hA
    obtain ⟨t, ht, rfl⟩ := List.mem_iff_getElem.mp hA
    rw [← sub_eq_zero]
    ext i j
    rw [← commStack_mulVec_row dim gens h x t ht i j, h0]
    rfl
  · intro hc
    funext k
    have hk := k.isLt
    rcases Nat.eq_zero_or_pos dim with hd | hd
    · subst hd; exact absurd hk (by simp)
    have hd2 : 0 < dim * dim := Nat.mul_pos hd hd
    have hlen : gens.length * dim * dim = gens.length * (dim * dim) := Nat.mul_assoc _ _ _
    have ht : k.val / (dim * dim) < gens.length := by
      rw [Nat.div_lt_iff_lt_mul hd2, ← hlen]; exact hk
    have hr : k.val % (dim * dim) < dim * dim := Nat.mod_lt _ hd2
    have hi : k.val % (dim * dim) / dim < dim := by
      rw [Nat.div_lt_iff_lt_mul hd]; exact hr
    have hj : k.val % (dim * dim) % dim < dim := Nat.mod_lt _ hd
    have hk' : k = ⟨k.val / (dim * dim) * dim * dim
        + ((⟨k.val % (dim * dim) / dim, hi⟩ : Fin dim).val * dim + (⟨k.val % (dim * dim) % dim, hj⟩ : Fin dim).val),
        stackIdx_lt ht (idx_lt hi hj)⟩ := by
      apply Fin.ext
      show k.val = k.val / (dim * dim) * dim * dim + (k.val % (dim * dim) / dim * dim + k.val % (dim * dim) % dim)
      exact stackIdx_decomp dim k.val
    rw [hk', commStack_mulVec_row dim gens h x _ ht, hc _ (List.getElem_mem ht), sub_self]
    rfl

/-! ## (3) the dimension theorem -/

/-- the commutant of the generators: all complex `dim × dim` matrices commuting with every generator -/
def commutantSubmodule (dim : Nat) (gens : List (Mat QI)) : Submodule ℂ (Matrix (Fin dim) (Fin dim) ℂ) where
  carrier := {X | ∀ A ∈ gens, Toq.Rank.fnToM dim dim A.f * X = X * Toq.Rank.fnToM dim dim A.f}
  add_mem' := by
    intro X Y hX hY A hA
    rw [mul_add, add_mul, hX A hA, hY A hA]
  zero_mem' := by
    intro A _
    rw [mul_zero, zero_mul]
  smul_mem' := by
    intro c X hX A hA
    rw [Matrix.mul_smul, Matrix.smul_mul, hX A hA]

theorem mem_commutantSubmodule (dim : Nat) (gens : List (Mat QI)) (X : Matrix (Fin dim) (Fin dim) ℂ) :
    X ∈ commutantSubmodule dim gens
      ↔ ∀ A ∈ gens, Toq.Rank.fnToM dim dim A.f * X = X * Toq.Rank.fnToM dim dim A.f := Iff.rfl

/-- the complex matrices denoted by the generators -/
def genSet (dim : Nat) (gens : List (Mat QI)) : Set (Matrix (Fin dim) (Fin dim) ℂ) :=
  {M | ∃ A ∈ gens, M = Toq.Rank.fnToM dim dim A.f}

/-- the commutant is Mathlib's centralizer of the set of generators -/
theorem commutantSubmodule_eq_centralizer (dim : Nat) (gens : List (Mat QI)) :
    (commutantSubmodule dim gens : Set (Matrix (Fin dim) (Fin dim) ℂ)) = Set.centralizer (genSet dim gens) := by
  ext X
  constructor
  · rintro hX M ⟨A, hA, rfl⟩
    exact hX A hA
  · intro hX A hA
    exact hX _ ⟨A, hA, rfl⟩

/-- the commutant is (the underlying submodule of) the centralizer subalgebra of the generators -/
theorem commutantSubmodule_eq_subalgebra_centralizer (dim : Nat) (gens : List (Mat QI)) :
    commutantSubmodule dim gens = Subalgebra.toSubmodule (Subalgebra.centralizer ℂ (genSet dim gens)) := by
  apply SetLike.coe_injective
  rw [commutantSubmodule_eq_centralizer]
  rfl

/-- row-major unflattening as a linear equivalence `ℂ^(dim²) ≃ M_dim(ℂ)` -/
def unflatEquiv (dim : Nat) : (Fin (dim * dim) → ℂ) ≃ₗ[ℂ] Matrix (Fin dim) (Fin dim) ℂ where
  toFun := unflat dim
  map_add' := fun _ _ => rfl
  map_smul' := fun _ _ => rfl
  invFun := fun X k => X (finProdFinEquiv.symm k).1 (finProdFinEquiv.symm k).2
  left_inv := by
    intro x
    funext k
    show x (finProdFinEquiv ((finProdFinEquiv.symm k).1, (finProdFinEquiv.symm k).2)) = x k
    rw [Prod.mk.eta, Equiv.apply_symm_apply]
  right_inv := by
    intro X
    ext i j
    show X (finProdFinEquiv.symm (finProdFinEquiv (i, j))).1 (finProdFinEquiv.symm (finProdFinEquiv (i, j))).2 = X i j
    rw [Equiv.symm_apply_apply]

@[simp] theorem unflatEquiv_apply (dim : Nat) (x : Fin (dim * dim) → ℂ) : unflatEquiv dim x = unflat dim x := rfl

/-- the null space of the stacked system is the preimage of the commutant under the unflattening -/
theorem ker_commStack_eq_comap (dim : Nat) (gens : List (Mat QI)) (h : ∀ A ∈ gens, A.r = dim ∧ A.c = dim) :
    LinearMap.ker (commStackM dim gens).mulVecLin
      = (commutantSubmodule dim gens).comap (unflatEquiv dim : (Fin (dim * dim) → ℂ) →ₗ[ℂ] _) := by
  ext x
  rw [LinearMap.mem_ker, Matrix.mulVecLin_apply, commStack_mulVec_eq_zero_iff dim gens h x]
  rfl

/-- **dimension theorem**: `commutantDim` (= `dim² − rank` of the stacked system, the number of basis matrices
    `commutant` returns) is the dimension of the commutant of the generators -/
theorem commutantDim_eq_finrank_commutant (dim : Nat) (gens : List (Mat QI)) (h : ∀ A ∈ gens, A.r = dim ∧ A.c = dim) :
    commutantDim dim gens = Module.finrank ℂ (commutantSubmodule dim gens) := by
  rw [commutantDim_eq]
  show Module.finrank ℂ (LinearMap.ker (commStackM dim gens).mulVecLin) = _
  rw [ker_commStack_eq_comap dim gens h]
  exact LinearEquiv.finrank_eq ((unflatEquiv dim).ofSubmodule' (commutantSubmodule dim gens))

/-- the reshaped null vectors are exactly the commutant: the image of the null space under the unflattening -/
theorem map_ker_commStack_eq (dim : Nat) (gens : List (Mat QI)) (h : ∀ A ∈ gens, A.r = dim ∧ A.c = dim) :
    (LinearMap.ker (commStackM dim gens).mulVecLin).map (unflatEquiv dim : (Fin (dim * dim) → ℂ) →ₗ[ℂ] _)
      = commutantSubmodule dim gens := by
  rw [ker_commStack_eq_comap dim gens h]
  exact Submodule.map_comap_eq_of_surjective (unflatEquiv dim).surjective _

/-! ## (4) corollaries -/

/-- the commutant basis never has more than `dim²` elements -/
theorem commutantDim_le (dim : Nat) (gens : List (Mat QI)) : commutantDim dim gens ≤ dim * dim :=
  Nat.sub_le _ _

/-- the identity commutes with everything: for `dim ≥ 1` the commutant is never trivial -/
theorem one_le_commutantDim (dim : Nat) (gens : List (Mat QI)) (h : ∀ A ∈ gens, A.r = dim ∧ A.c = dim)
    (hd : 1 ≤ dim) : 1 ≤ commutantDim dim gens := by
  rw [commutantDim_eq_finrank_commutant dim gens h, Submodule.one_le_finrank_iff]
  intro hbot
  have h1 : (1 : Matrix (Fin dim) (Fin dim) ℂ) ∈ commutantSubmodule dim gens := by
    intro A _
    rw [mul_one, one_mul]
  rw [hbot, Submodule.mem_bot] at h1
  have := congrFun (congrFun h1 ⟨0, hd⟩) ⟨0, hd⟩
  simp at this

/-- no generators: every matrix commutes, the dimension is `dim²` -/
theorem commutantDim_nil (dim : Nat) : commutantDim dim [] = dim * dim := by
  rw [commutantDim_eq_finrank_commutant dim [] (by simp)]
  have : commutantSubmodule dim [] = ⊤ := by
    ext X
    simp [mem_commutantSubmodule]
  rw [this, finrank_top, Module.finrank_matrix]
  simp

/-- more generators, smaller commutant (antitone in the set of generators) -/
theorem commutantDim_anti (dim : Nat) (gens gens' : List (Mat QI)) (h : ∀ A ∈ gens, A.r = dim ∧ A.c = dim)
    (h' : ∀ A ∈ gens', A.r = dim ∧ A.c = dim) (hsub : ∀ A ∈ gens, A ∈ gens') :
    commutantDim dim gens' ≤ commutantDim dim gens := by
  rw [commutantDim_eq_finrank_commutant dim gens h, commutantDim_eq_finrank_commutant dim gens' h']
  apply Submodule.finrank_mono
  intro X hX A hA
  exact hX A (hsub A hA)

/-- adding a generator cannot increase the dimension -/
theorem commutantDim_cons_le (dim : Nat) (B : Mat QI) (gens : List (Mat QI)) (hB : B.r = dim ∧ B.c = dim)
    (h : ∀ A ∈ gens, A.r = dim ∧ A.c = dim) :
    commutantDim dim (B :: gens) ≤ commutantDim dim gens :=
  commutantDim_anti dim gens (B :: gens) h
    (by intro A hA; rcases List.mem_cons.mp hA with rfl | hA; exact hB; exact h A hA)
    (fun A hA => List.mem_cons_of_mem _ hA)

/-- the dimension depends only on the SET of generators (order and repetitions are irrelevant) -/
theorem commutantDim_congr (dim : Nat) (gens gens' : List (Mat QI)) (h : ∀ A ∈ gens, A.r = dim ∧ A.c = dim)
    (h' : ∀ A ∈ gens', A.r = dim ∧ A.c = dim) (hiff : ∀ A, A ∈ gens ↔ A ∈ gens') :
    commutantDim dim gens = commutantDim dim gens' :=
  Nat.le_antisymm (commutantDim_anti dim gens' gens h' h (fun A hA => (hiff A).mpr hA))
    (commutantDim_anti dim gens gens' h h' (fun A hA => (hiff A).mp hA))

/-- the hypotheses are satisfiable on a non-trivial instance: one non-scalar diagonal generator, whose commutant
    (the diagonal matrices) has dimension 2, strictly between the bounds `1` and `dim² = 4` -/
example : (∀ A ∈ [(⟨2, 2, fun i j => if i = j then (if i = 0 then 1 else 0) else 0⟩ : Mat QI)], A.r = 2 ∧ A.c = 2)
    ∧ commutantDim 2 [(⟨2, 2, fun i j => if i = j then (if i = 0 then 1 else 0) else 0⟩ : Mat QI)] = 2 := by
  constructor
  · simp
  · decide +kernel

end Toq.MatrixOps
