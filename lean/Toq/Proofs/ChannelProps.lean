import Toq.Model.ChannelProps
import Toq.Spec.ChannelProps
import Toq.Proofs.Cert
import Toq.Proofs.ChannelOps
import Toq.Proofs.Rank
import Mathlib.LinearAlgebra.Matrix.Rank
import Mathlib.Analysis.Matrix.Order
import Mathlib.LinearAlgebra.Matrix.Kronecker
import Mathlib.Analysis.Real.Sqrt
import Mathlib.Data.Complex.BigOperators
import Mathlib.Tactic.Ring
import Mathlib.Tactic.FinCases
import Mathlib.Tactic.LinearCombination
/-!
# Helper lemmas for C06 (channel predicates and built-in channels)

Four groups, in the order the property theorems of `Toq/Properties/C06.lean` use them:
characterisations (Choi matrix calculus, Kraus ↔ Choi, amplification), deciders (bridge from the exact
`EMat` deciders of `Toq/Model/ChannelProps.lean` to complex matrices over `Fin di × Fin dO`), closed-form
Choi matrices (depolarizing, dephasing, reduction, Choi map) and closed-form Kraus lists (amplitude /
phase damping, bit flip, Pauli strings).
-/

/-! ## Characterisations: helper lemmas -/
section Characterisations
open Toq.ChanPropSpec Matrix
open scoped ComplexOrder MatrixOrder
namespace Toq.ChanPropProofs
variable {di dO r n : Nat}

theorem choi_apply (Φ : LMap di dO) (i j : Fin di) (a b : Fin dO) :
    choi Φ (i, a) (j, b) = Φ (Matrix.single i j 1) a b := rfl

/-- a linear map is determined by its values on the matrix units -/
theorem map_eq_sum_single (Φ : LMap di dO) (X : Matrix (Fin di) (Fin di) ℂ) :
    Φ X = ∑ i, ∑ j, X i j • Φ (Matrix.single i j 1) := by
  conv_lhs => rw [Matrix.matrix_eq_sum_single X]
  rw [map_sum]
  refine Finset.sum_congr rfl fun i _ => ?_
  rw [map_sum]
  refine Finset.sum_congr rfl fun j _ => ?_
  rw [← map_smul, Matrix.smul_single, smul_eq_mul, mul_one]

theorem ofChoi_apply (J : TMat di dO) (X : Matrix (Fin di) (Fin di) ℂ) (a b : Fin dO) :
    ofChoi J X a b = ∑ i, ∑ j, X i j * J (i, a) (j, b) := rfl

theorem pairMap_apply (A B : Fin r → Matrix (Fin dO) (Fin di) ℂ) (X : Matrix (Fin di) (Fin di) ℂ) :
    pairMap A B X = ∑ k, A k * X * (B k)ᴴ := rfl

theorem krausMap_apply (K : Fin r → Matrix (Fin dO) (Fin di) ℂ) (X : Matrix (Fin di) (Fin di) ℂ) :
    krausMap K X = ∑ k, K k * X * (K k)ᴴ := rfl

theorem choi_injective {Φ Ψ : LMap di dO} (h : choi Φ = choi Ψ) : Φ = Ψ := by
  apply LinearMap.ext
  intro X
  rw [map_eq_sum_single Φ, map_eq_sum_single Ψ]
  refine Finset.sum_congr rfl fun i _ => Finset.sum_congr rfl fun j _ => ?_
  congr 1
  ext a b
  exact congrFun (congrFun h (i, a)) (j, b)

theorem trace_map_eq (Φ : LMap di dO) (X : Matrix (Fin di) (Fin di) ℂ) :
    Matrix.trace (Φ X) = ∑ i, ∑ j, X i j * ptraceOut (choi Φ) i j := by
  rw [map_eq_sum_single Φ X, Matrix.trace_sum]
  refine Finset.sum_congr rfl fun i _ => ?_
  rw [Matrix.trace_sum]
  refine Finset.sum_congr rfl fun j _ => ?_
  rw [Matrix.trace_smul, smul_eq_mul]
  rfl

theorem ptraceOut_choi_apply (Φ : LMap di dO) (i j : Fin di) :
    ptraceOut (choi Φ) i j = Matrix.trace (Φ (Matrix.single i j 1)) := rfl

theorem map_one_eq (Φ : LMap di dO) : Φ 1 = ptraceIn (choi Φ) := by
  rw [map_eq_sum_single Φ 1]
  ext a b
  simp only [Matrix.sum_apply, Matrix.smul_apply, smul_eq_mul, Matrix.one_apply, ptraceIn, choi]
  refine Finset.sum_congr rfl fun i _ => ?_
  rw [Finset.sum_eq_single i]
  · simp
  · intro j _ h; simp [Ne.symm h]
  · simp

theorem mul_single_mul_apply (A B : Matrix (Fin dO) (Fin di) ℂ) (i j : Fin di) (a b : Fin dO) :
    (A * Matrix.single i j (1 : ℂ) * Bᴴ) a b = A a i * star (B b j) := by
  rw [Matrix.mul_apply, Finset.sum_eq_single j]
  · rw [Matrix.mul_single_apply_same, mul_one, Matrix.conjTranspose_apply]
  · intro j' _ h
    rw [Matrix.mul_single_apply_of_ne (hbj := h), zero_mul]
  · simp

theorem choi_krausMap_apply (K : Fin r → Matrix (Fin dO) (Fin di) ℂ) (i j : Fin di) (a b : Fin dO) :
    choi (krausMap K) (i, a) (j, b) = ∑ k, K k a i * star (K k b j) := by
  rw [choi_apply, krausMap_apply, Matrix.sum_apply]
  exact Finset.sum_congr rfl fun k _ => mul_single_mul_apply _ _ _ _ _ _

/-- a factorisation `J(Φ) = S Sᴴ` yields a Kraus representation whose operators are the columns of `S` -/
theorem eq_krausMap_of_choi_eq {m : Nat} (Φ : LMap di dO) (S : Matrix (Fin di × Fin dO) (Fin m) ℂ)
    (h : choi Φ = S * Sᴴ) : Φ = krausMap (fun k : Fin m => Matrix.of fun a i => S (i, a) k) := by
  apply choi_injective
  ext ⟨i, a⟩ ⟨j, b⟩
  rw [choi_krausMap_apply, h, Matrix.mul_apply]
  rfl

/-- `1_n ⊗ K` in the pair indexing -/
def liftK (n : Nat) (K : Matrix (Fin dO) (Fin di) ℂ) : Matrix (Fin n × Fin dO) (Fin n × Fin di) ℂ :=
  fun p q => if p.1 = q.1 then K p.2 q.2 else 0

theorem liftK_mul_apply (K : Matrix (Fin dO) (Fin di) ℂ) (X : TMat n di) (p : Fin n × Fin dO)
    (q : Fin n × Fin di) : (liftK n K * X) p q = ∑ i, K p.2 i * X (p.1, i) q := by
  rw [Matrix.mul_apply, Fintype.sum_prod_type, Finset.sum_eq_single p.1]
  · simp [liftK]
  · intro l _ hl
    apply Finset.sum_eq_zero; intro i _
    simp [liftK, Ne.symm hl]
  · simp

theorem mul_liftK_conjTranspose_apply (K : Matrix (Fin dO) (Fin di) ℂ) (Y : Matrix (Fin n × Fin dO) (Fin n × Fin di) ℂ)
    (p q : Fin n × Fin dO) : (Y * (liftK n K)ᴴ) p q = ∑ j, Y p (q.1, j) * star (K q.2 j) := by
  rw [Matrix.mul_apply, Fintype.sum_prod_type, Finset.sum_eq_single q.1]
  · simp [liftK, Matrix.conjTranspose_apply]
  · intro l _ hl
    apply Finset.sum_eq_zero; intro i _
    simp [liftK, Matrix.conjTranspose_apply, Ne.symm hl]
  · simp

theorem ampl_krausMap (K : Fin r → Matrix (Fin dO) (Fin di) ℂ) (X : TMat n di) :
    ampl n (krausMap K) X = ∑ k, liftK n (K k) * X * (liftK n (K k))ᴴ := by
  ext p q
  rw [Matrix.sum_apply]
  show (krausMap K (block X p.1 q.1)) p.2 q.2 = _
  rw [krausMap_apply, Matrix.sum_apply]
  refine Finset.sum_congr rfl fun k _ => ?_
  rw [mul_liftK_conjTranspose_apply, Matrix.mul_apply]
  refine Finset.sum_congr rfl fun j _ => ?_
  rw [liftK_mul_apply, Matrix.mul_apply, Matrix.conjTranspose_apply]
  rfl

theorem block_maxEnt (k l : Fin di) :
    block (Matrix.vecMulVec (maxEntVec di) (star (maxEntVec di))) k l = Matrix.single k l 1 := by
  ext i j
  simp only [block, Matrix.vecMulVec_apply, maxEntVec, Pi.star_apply, Matrix.single, Matrix.of_apply]
  by_cases h1 : k = i <;> by_cases h2 : l = j <;> simp [h1, h2]

theorem choi_eq_ampl (Φ : LMap di dO) :
    choi Φ = ampl di Φ (Matrix.vecMulVec (maxEntVec di) (star (maxEntVec di))) := by
  ext p q
  show _ = Φ (block _ p.1 q.1) p.2 q.2
  rw [block_maxEnt]
  rfl

theorem trace_pairMap (A B : Fin r → Matrix (Fin dO) (Fin di) ℂ) (X : Matrix (Fin di) (Fin di) ℂ) :
    Matrix.trace (pairMap A B X) = Matrix.trace ((∑ k, (B k)ᴴ * A k) * X) := by
  rw [pairMap_apply, Matrix.trace_sum, Matrix.sum_mul, Matrix.trace_sum]
  refine Finset.sum_congr rfl fun k _ => ?_
  rw [Matrix.trace_mul_comm, ← Matrix.mul_assoc]

/-- the single-operator family -/
def one_fam (U : Matrix (Fin dO) (Fin di) ℂ) : Fin 1 → Matrix (Fin dO) (Fin di) ℂ := fun _ => U

theorem krausMap_one_fam (U : Matrix (Fin dO) (Fin di) ℂ) (X : Matrix (Fin di) (Fin di) ℂ) :
    krausMap (one_fam U) X = U * X * Uᴴ := by
  rw [krausMap_apply, Fin.sum_univ_one]; rfl

theorem choi_krausMap_one_fam (U : Matrix (Fin dO) (Fin di) ℂ) :
    choi (krausMap (one_fam U)) = Matrix.vecMulVec (kvec U) (star (kvec U)) := by
  ext ⟨i, a⟩ ⟨j, b⟩
  rw [choi_krausMap_apply, Fin.sum_univ_one]; rfl

theorem choi_pairMap_apply (A B : Fin r → Matrix (Fin dO) (Fin di) ℂ) (i j : Fin di) (a b : Fin dO) :
    choi (pairMap A B) (i, a) (j, b) = ∑ k, A k a i * star (B k b j) := by
  rw [choi_apply, pairMap_apply, Matrix.sum_apply]
  exact Finset.sum_congr rfl fun k _ => mul_single_mul_apply _ _ _ _ _ _

end Toq.ChanPropProofs
end Characterisations

/-! ## Deciders: helper lemmas -/
section Deciders
open Matrix
open scoped ComplexOrder
namespace Toq.ChanPropProofs

/-- the complex matrix over `Fin di × Fin dO` denoted by an exact Choi matrix (pair (i,a) ↦ row i·dO + a) -/
def toChoi {di dO : Nat} (J : EMat (di * dO) (di * dO)) : Toq.ChanPropSpec.TMat di dO :=
  fun p q => (J.get (Toq.ChannelProps.pairIdx p.1 p.2) (Toq.ChannelProps.pairIdx q.1 q.2)).toC

section Pair
variable {di dO : Nat}

theorem pairIdx_eq (i : Fin di) (a : Fin dO) :
    Toq.ChannelProps.pairIdx i a = finProdFinEquiv (i, a) := by
  apply Fin.ext
  simp [Toq.ChannelProps.pairIdx, finProdFinEquiv, Nat.mul_comm, Nat.add_comm]

theorem toChoi_eq_submatrix (J : EMat (di * dO) (di * dO)) :
    toChoi J = J.toM.submatrix finProdFinEquiv finProdFinEquiv := by
  ext p q
  simp [toChoi, pairIdx_eq]

theorem toChoi_posSemidef_iff (J : EMat (di * dO) (di * dO)) :
    (toChoi J).PosSemidef ↔ J.toM.PosSemidef := by
  rw [toChoi_eq_submatrix]
  exact Matrix.posSemidef_submatrix_equiv finProdFinEquiv

theorem toChoi_isHermitian_iff (J : EMat (di * dO) (di * dO)) :
    (toChoi J).IsHermitian ↔ J.toM.IsHermitian := by
  rw [toChoi_eq_submatrix]
  constructor
  · intro h
    have := h.submatrix (finProdFinEquiv (m := di) (n := dO)).symm
    simpa using this
  · intro h
    exact h.submatrix _

end Pair

section Exact
variable {n m : Nat}

theorem get_eq_of_toM_eq {A B : EMat n m} (h : A.toM = B.toM) (i : Fin n) (j : Fin m) :
    A.get i j = B.get i j :=
  QI.toC_injective (by simpa using congrFun (congrFun h i) j)

theorem beq_iff (A B : EMat n m) : A.beq B = true ↔ A.toM = B.toM := by
  refine ⟨EMat.beq_sound A B, fun h => ?_⟩
  simp only [EMat.beq, EMat.allFin_iff, beq_iff_eq]
  exact fun i j => get_eq_of_toM_eq h i j

theorem isHermitian_iff (A : EMat n n) : A.isHermitian = true ↔ A.toM.IsHermitian := by
  refine ⟨EMat.isHermitian_sound A, fun h => ?_⟩
  simp only [EMat.isHermitian, EMat.allFin_iff, beq_iff_eq]
  intro i j
  apply QI.toC_injective
  have := congrFun (congrFun h i) j
  rw [Matrix.conjTranspose_apply, EMat.toM_apply, EMat.toM_apply] at this
  rw [QI.toC_conj, ← this]
  simp

theorem maxRat_nonneg {a : Rat} (b : Rat) (h : 0 ≤ a) : 0 ≤ Toq.ChannelProps.maxRat a b := by
  unfold Toq.ChannelProps.maxRat
  split
  · next hlt => exact le_of_lt (lt_of_le_of_lt h hlt)
  · exact h

theorem foldl_nonneg {ι : Type} (g : Rat → ι → Rat) (hg : ∀ a x, 0 ≤ a → 0 ≤ g a x) :
    ∀ (l : List ι) (a : Rat), 0 ≤ a → 0 ≤ l.foldl g a := by
  intro l
  induction l with
  | nil => intro a h; simpa using h
  | cons x xs ih => intro a h; simpa using ih _ (hg a x h)

theorem maxAbs1_nonneg (A : EMat n m) : 0 ≤ Toq.ChannelProps.maxAbs1 A := by
  unfold Toq.ChannelProps.maxAbs1
  refine foldl_nonneg _ (fun a i ha => ?_) _ _ (le_refl 0)
  exact foldl_nonneg _ (fun a j ha => maxRat_nonneg _ ha) _ _ ha

theorem tolOf_pos {s : Rat} (h : 0 ≤ s) : 0 < Toq.ChannelProps.tolOf s := by
  unfold Toq.ChannelProps.tolOf
  have : 0 ≤ s / 100000 := div_nonneg h (by norm_num)
  have h2 : (0 : Rat) < (1 : Rat) / 100000000 := by norm_num
  have : (0 : Rat) < (1 : Rat) / 100000000 + s / 100000 := by linarith
  exact mul_pos (by norm_num) this

theorem abs1_sub_self (a : QI) : (a - a).abs1 = 0 := by
  simp [QI.abs1]

theorem farApart_ne (A B : EMat n m) (h : Toq.ChannelProps.farApart A B = true) : A.toM ≠ B.toM := by
  intro heq
  simp only [Toq.ChannelProps.farApart, List.any_eq_true, decide_eq_true_eq] at h
  obtain ⟨i, -, j, -, hij⟩ := h
  rw [get_eq_of_toM_eq heq i j, abs1_sub_self] at hij
  have := tolOf_pos (maxRat_nonneg (Toq.ChannelProps.maxAbs1 B) (maxAbs1_nonneg A))
  exact absurd hij (not_le.mpr this)

theorem eqV_yes (A B : EMat n m) : Toq.ChannelProps.eqV A B = .yes ↔ A.beq B = true := by
  unfold Toq.ChannelProps.eqV
  by_cases h : A.beq B = true
  · simp [h]
  · by_cases h2 : Toq.ChannelProps.farApart A B = true <;> simp [h, h2]

theorem eqV_no (A B : EMat n m) : Toq.ChannelProps.eqV A B = .no → Toq.ChannelProps.farApart A B = true := by
  unfold Toq.ChannelProps.eqV
  by_cases h : A.beq B = true
  · simp [h]
  · by_cases h2 : Toq.ChannelProps.farApart A B = true <;> simp [h, h2]

end Exact

section PT
variable {di dO : Nat}

theorem toM_ptraceOut (J : EMat (di * dO) (di * dO)) :
    (Toq.ChannelProps.ptraceOut J).toM = Toq.ChanPropSpec.ptraceOut (toChoi J) := by
  ext i j
  simp [Toq.ChannelProps.ptraceOut, Toq.ChanPropSpec.ptraceOut, toChoi, EMat.sumFin_toC]

theorem toM_ptraceIn (J : EMat (di * dO) (di * dO)) :
    (Toq.ChannelProps.ptraceIn J).toM = Toq.ChanPropSpec.ptraceIn (toChoi J) := by
  ext a b
  simp [Toq.ChannelProps.ptraceIn, Toq.ChanPropSpec.ptraceIn, toChoi, EMat.sumFin_toC]

end PT

section Quad
variable {n : Nat}

/-- the complex column vector denoted by an exact `n × 1` matrix -/
def colVec (v : EMat n 1) : Fin n → ℂ := fun i => (v.get i 0).toC

theorem quadForm_toC (A : EMat n n) (v : EMat n 1) :
    (Toq.ChannelProps.quadForm A v).toC = star (colVec v) ⬝ᵥ (A.toM *ᵥ colVec v) := by
  unfold Toq.ChannelProps.quadForm
  rw [EMat.toC_trace, EMat.toM_mul, EMat.toM_mul, EMat.toM_ct]
  simp [Matrix.trace, Matrix.mul_apply, dotProduct, Matrix.mulVec, colVec, Matrix.conjTranspose_apply]

theorem normSq_toC (v : EMat n 1) :
    (Toq.ChannelProps.normSq v).toC = star (colVec v) ⬝ᵥ colVec v := by
  unfold Toq.ChannelProps.normSq
  rw [EMat.toC_trace, EMat.toM_mul, EMat.toM_ct]
  simp [Matrix.trace, Matrix.mul_apply, dotProduct, colVec, Matrix.conjTranspose_apply]

end Quad

end Toq.ChanPropProofs
end Deciders

/-! ## ChoiConstructors: helper lemmas -/
section ChoiConstructors
open Toq.ChannelProps Toq.ChanPropSpec Matrix
open scoped ComplexOrder
namespace Toq.ChanPropProofs

/-- the matrix over `Fin di × Fin dO` with entries `f (i·dO + a) (j·dO + b)` -/
def toT {di dO : Nat} (f : Nat → Nat → ℂ) : Toq.ChanPropSpec.TMat di dO :=
  fun p q => f (p.1.val * dO + p.2.val) (q.1.val * dO + q.2.val)

theorem toT_apply {di dO : Nat} (f : Nat → Nat → ℂ) (i j : Fin di) (a b : Fin dO) :
    (toT f : TMat di dO) (i, a) (j, b) = f (i.val * dO + a.val) (j.val * dO + b.val) := rfl

theorem idx_div {d : Nat} (i a : Fin d) : (i.val * d + a.val) / d = i.val := by
  have hd : 0 < d := Nat.lt_of_le_of_lt (Nat.zero_le _) a.isLt
  rw [Nat.mul_comm, Nat.mul_add_div hd, Nat.div_eq_of_lt a.isLt, Nat.add_zero]

theorem idx_mod {d : Nat} (i a : Fin d) : (i.val * d + a.val) % d = a.val := by
  rw [Nat.mul_comm, Nat.mul_add_mod, Nat.mod_eq_of_lt a.isLt]

theorem idx_inj {d : Nat} (i a j b : Fin d) :
    (i.val * d + a.val = j.val * d + b.val) ↔ (i = j ∧ a = b) := by
  constructor
  · intro h
    have h1 := congrArg (· / d) h
    have h2 := congrArg (· % d) h
    simp only [idx_div, idx_mod] at h1 h2
    exact ⟨Fin.ext h1, Fin.ext h2⟩
  · rintro ⟨rfl, rfl⟩; rfl

/-- `psi` is the unnormalised maximally entangled vector -/
theorem psi_idx {d : Nat} (i a : Fin d) :
    (psi d (i.val * d + a.val) : ℂ) = if i = a then 1 else 0 := by
  unfold psi
  rw [idx_div, idx_mod]
  simp only [Fin.ext_iff]

theorem psi_eq_maxEntVec {d : Nat} (p : Fin d × Fin d) :
    (psi d (p.1.val * d + p.2.val) : ℂ) = maxEntVec d p := psi_idx p.1 p.2

theorem star_maxEntVec (d : Nat) : star (maxEntVec d) = maxEntVec d := by
  funext p
  simp only [Pi.star_apply, maxEntVec]
  split_ifs <;> simp

theorem delta_idx {d : Nat} (i a j b : Fin d) :
    (delta (i.val * d + a.val) (j.val * d + b.val) : ℂ) = if i = j ∧ a = b then 1 else 0 := by
  unfold delta
  simp only [idx_inj]

theorem ofChoi_apply' {di dO : Nat} (J : TMat di dO) (X : Matrix (Fin di) (Fin di) ℂ) (a b : Fin dO) :
    ofChoi J X a b = ∑ i, ∑ j, X i j * J (i, a) (j, b) := rfl

/-- `Σ_ij X_ij δ_ia δ_jb = X_ab` -/
theorem sum_pick {d : Nat} (X : Matrix (Fin d) (Fin d) ℂ) (a b : Fin d) :
    ∑ i, ∑ j, X i j * ((if i = a then (1 : ℂ) else 0) * (if j = b then 1 else 0)) = X a b := by
  simp [Finset.sum_ite_eq']

/-- `Σ_ij X_ij δ_ij δ_ab = δ_ab tr X` -/
theorem sum_diag {d : Nat} (X : Matrix (Fin d) (Fin d) ℂ) (a b : Fin d) :
    ∑ i, ∑ j, X i j * (if i = j ∧ a = b then (1 : ℂ) else 0) = if a = b then trace X else 0 := by
  by_cases h : a = b
  · simp [h, Matrix.trace]
  · simp [h]

/-- `Σ_ij X_ij [i=j ∧ a=b] δ_ia δ_ia = δ_ab X_aa` -/
theorem sum_diag_pick {d : Nat} (X : Matrix (Fin d) (Fin d) ℂ) (a b : Fin d) :
    ∑ i, ∑ j, X i j * (if i = j ∧ a = b then (if i = a then (1 : ℂ) else 0) * (if i = a then 1 else 0) else 0)
      = if a = b then X a a else 0 := by
  by_cases h : a = b
  · subst h
    simp only [and_true]
    have : ∀ i j : Fin d, X i j * (if i = j then (if i = a then (1 : ℂ) else 0) * (if i = a then 1 else 0) else 0)
        = if j = i then (if i = a then X i i else 0) else 0 := by
      intro i j
      by_cases h1 : i = j
      · subst h1; by_cases h2 : i = a <;> simp [h2]
      · have h1' : ¬ j = i := fun h => h1 h.symm
        simp [h1, h1']
    simp only [this, Finset.sum_ite_eq', Finset.mem_univ, if_true]
  · simp [h]

theorem star_psi (d P : Nat) : star (psi d P : ℂ) = psi d P := by
  unfold psi; split_ifs <;> simp

theorem delta_comm (P Q : Nat) : (delta P Q : ℂ) = delta Q P := by
  unfold delta; simp only [eq_comm]

theorem psi_mul_self (d P : Nat) : (psi d P : ℂ) * psi d P = psi d P := by
  unfold psi; split_ifs <;> simp

theorem toT_isHermitian {di dO : Nat} (f : Nat → Nat → ℂ) (h : ∀ P Q, star (f Q P) = f P Q) :
    (toT f : TMat di dO).IsHermitian := by
  ext p q
  exact h _ _

/-- Choi matrices of the shape `diag(D) - ψψᴴ` -/
def genChoi (d : Nat) (D : Nat → ℂ) : Nat → Nat → ℂ := fun P Q =>
  (if P = Q then D P else 0) - psi d P * psi d Q

theorem reductionChoi_eq_gen (d : Nat) (k : ℂ) : reductionChoi d k = genChoi d (fun _ => k) := by
  funext P Q
  simp only [reductionChoi, genChoi, delta, mul_ite, mul_one, mul_zero]

theorem choiMapChoi_eq_gen (a b c : ℂ) : choiMapChoi a b c = genChoi 3 (choiDiag a b c) := rfl

theorem toT_gen_eq (d : Nat) (D : Nat → ℂ) :
    (toT (genChoi d D) : TMat d d)
      = diagonal (fun p : Fin d × Fin d => D (p.1.val * d + p.2.val))
        - vecMulVec (maxEntVec d) (star (maxEntVec d)) := by
  ext ⟨i, a⟩ ⟨j, b⟩
  rw [toT_apply]
  simp only [genChoi, psi_idx, idx_inj, Matrix.sub_apply, Matrix.diagonal_apply, vecMulVec_apply,
    star_maxEntVec, maxEntVec, Prod.mk.injEq]

theorem gen_apply (d : Nat) (D : Nat → ℂ) (X : Matrix (Fin d) (Fin d) ℂ) :
    ofChoi (toT (genChoi d D)) X
      = diagonal (fun a : Fin d => ∑ i : Fin d, X i i * D (i.val * d + a.val)) - X := by
  ext a b
  have h1 : ∀ i j : Fin d, X i j * (toT (genChoi d D) : TMat d d) (i, a) (j, b)
      = (if j = i then (if a = b then X i i * D (i.val * d + a.val) else 0) else 0)
        - (X i j * ((if i = a then (1 : ℂ) else 0) * (if j = b then 1 else 0))) := by
    intro i j
    rw [toT_apply]
    simp only [genChoi, psi_idx, idx_inj]
    by_cases h1 : i = j
    · subst h1; by_cases h2 : a = b <;> simp [h2, mul_sub]
    · have h1' : ¬ j = i := fun h => h1 h.symm
      simp [h1, h1']
  simp only [ofChoi_apply', h1, Finset.sum_sub_distrib, sum_pick, Finset.sum_ite_eq', Finset.mem_univ,
    if_true, Matrix.sub_apply, Matrix.diagonal_apply]
  by_cases h : a = b
  · simp [h]
  · simp [h]

theorem sum_maxEnt {d : Nat} (f : Fin d × Fin d → ℂ) :
    ∑ p, maxEntVec d p * f p = ∑ i, f (i, i) := by
  rw [Fintype.sum_prod_type]
  simp [maxEntVec]

theorem maxEnt_dot_self (d : Nat) : maxEntVec d ⬝ᵥ maxEntVec d = (d : ℂ) := by
  unfold dotProduct
  rw [sum_maxEnt]
  simp [maxEntVec]

/-- `ψᴴ (diag(D) - ψψᴴ) ψ = Σ_i D(i,i) - d²` -/
theorem quad_maxEnt (d : Nat) (D : Fin d × Fin d → ℂ) :
    star (maxEntVec d) ⬝ᵥ ((diagonal D - vecMulVec (maxEntVec d) (star (maxEntVec d))) *ᵥ maxEntVec d)
      = ∑ i, D (i, i) - (d : ℂ) * d := by
  rw [star_maxEntVec, sub_mulVec, dotProduct_sub, vecMulVec_mulVec, maxEnt_dot_self]
  congr 1
  · simp only [dotProduct, mulVec_diagonal]
    rw [sum_maxEnt]
    simp [maxEntVec]
  · simp only [dotProduct, Pi.smul_apply, MulOpposite.smul_eq_mul_unop, MulOpposite.unop_op,
      ← mul_assoc, ← Finset.sum_mul]
    rw [show ∑ p, maxEntVec d p * maxEntVec d p = maxEntVec d ⬝ᵥ maxEntVec d from rfl, maxEnt_dot_self]

/-- `tr(X)·1 - X ⪰ 0` for `X ⪰ 0` (the eigenvalues `λ_i ≥ 0` satisfy `λ_i ≤ Σ_j λ_j`) -/
theorem trace_smul_one_sub_posSemidef {n : Type*} [Fintype n] [DecidableEq n] {X : Matrix n n ℂ}
    (hX : X.PosSemidef) : (X.trace • (1 : Matrix n n ℂ) - X).PosSemidef := by
  have hH := hX.isHermitian
  obtain ⟨U, lam, hlam, hU, hXe, htr⟩ : ∃ (U : Matrix n n ℂ) (lam : n → ℝ), (∀ i, 0 ≤ lam i) ∧ U * Uᴴ = 1 ∧
      X = U * diagonal (fun i => (lam i : ℂ)) * Uᴴ ∧ X.trace = ∑ i, (lam i : ℂ) := by
    refine ⟨hH.eigenvectorUnitary, hH.eigenvalues, hX.eigenvalues_nonneg, ?_, ?_, hH.trace_eq_sum_eigenvalues⟩
    · rw [← star_eq_conjTranspose]; exact Unitary.coe_mul_star_self _
    · have := hH.spectral_theorem
      rw [Unitary.conjStarAlgAut_apply] at this
      exact this
  have key : X.trace • (1 : Matrix n n ℂ) - X
      = U * diagonal (fun i => ((∑ j, lam j - lam i : ℝ) : ℂ)) * Uᴴ := by
    have hd : diagonal (fun i => ((∑ j, lam j - lam i : ℝ) : ℂ))
        = X.trace • (1 : Matrix n n ℂ) - diagonal (fun i => (lam i : ℂ)) := by
      ext i j
      rw [htr]
      by_cases h : i = j
      · subst h; simp
      · simp [h]
    rw [hd, Matrix.mul_sub, Matrix.sub_mul, ← hXe, Matrix.mul_smul, Matrix.mul_one, Matrix.smul_mul, hU]
  rw [key]
  apply PosSemidef.mul_mul_conjTranspose_same
  apply PosSemidef.diagonal
  intro i
  simp only [Pi.zero_apply, Complex.zero_le_real, sub_nonneg]
  exact Finset.single_le_sum (fun j _ => hlam j) (Finset.mem_univ i)

/-- `depolarizing(d, p) = ((1-p)/d)·1 + p·ψψᴴ` -/
theorem toT_depol_eq (d : Nat) (p : ℂ) :
    (toT (depolChoi d p) : TMat d d)
      = ((1 - p) / (d : ℂ)) • (1 : TMat d d) + p • vecMulVec (maxEntVec d) (star (maxEntVec d)) := by
  ext ⟨i, a⟩ ⟨j, b⟩
  rw [toT_apply]
  simp only [depolChoi, psi_idx, delta_idx, Matrix.add_apply, Matrix.smul_apply, Matrix.one_apply,
    vecMulVec_apply, star_maxEntVec, maxEntVec, smul_eq_mul, Prod.mk.injEq]
  split_ifs <;> ring

/-- `dephasing(d, p) = (1-p)·diag(ψ²) + p·ψψᴴ` -/
theorem toT_deph_eq (d : Nat) (p : ℂ) :
    (toT (dephChoi d p) : TMat d d)
      = (1 - p) • diagonal (fun q : Fin d × Fin d => maxEntVec d q * maxEntVec d q)
        + p • vecMulVec (maxEntVec d) (star (maxEntVec d)) := by
  ext ⟨i, a⟩ ⟨j, b⟩
  rw [toT_apply]
  simp only [dephChoi, psi_idx, idx_inj, Matrix.add_apply, Matrix.smul_apply, Matrix.diagonal_apply,
    vecMulVec_apply, star_maxEntVec, maxEntVec, smul_eq_mul, Prod.mk.injEq]

end Toq.ChanPropProofs
end ChoiConstructors

/-! ## KrausConstructors: helper lemmas -/
section KrausConstructors
open Toq.ChannelProps Toq.ChanPropSpec Matrix
open scoped Kronecker
namespace Toq.ChanPropProofs

/-- the `d × d` complex matrix with the entries of a Nat-indexed function -/
def toSq (d : Nat) (f : Nat → Nat → ℂ) : Matrix (Fin d) (Fin d) ℂ := fun i j => f i.val j.val

/-- a list of Nat-indexed operators as a family of 2×2 matrices -/
def fam2 (l : List (Nat → Nat → ℂ)) : Fin l.length → Matrix (Fin 2) (Fin 2) ℂ := fun k => toSq 2 (l.get k)

theorem toSq_apply (d : Nat) (f : Nat → Nat → ℂ) (i j : Fin d) : toSq d f i j = f i.val j.val := rfl

theorem toSq_m22 (a b c d : ℂ) : toSq 2 (m22 a b c d) = !![a, b; c, d] := by
  ext i j
  fin_cases i <;> fin_cases j <;> rfl

theorem krausMap_apply' {di dO r : Nat} (K : Fin r → Matrix (Fin dO) (Fin di) ℂ) (X : Matrix (Fin di) (Fin di) ℂ) :
    krausMap K X = ∑ k, K k * X * (K k)ᴴ := rfl

theorem pairMap_apply' {di dO r : Nat} (A B : Fin r → Matrix (Fin dO) (Fin di) ℂ) (X : Matrix (Fin di) (Fin di) ℂ) :
    pairMap A B X = ∑ k, A k * X * (B k)ᴴ := rfl

/-- completeness relation `Σ KᴴK = 1` implies trace preservation -/
theorem krausMap_tp_of_complete {di dO r : Nat} (K : Fin r → Matrix (Fin dO) (Fin di) ℂ)
    (h : ∑ k, (K k)ᴴ * K k = 1) : IsTP (krausMap K) := by
  intro X
  rw [krausMap_apply', Matrix.trace_sum]
  have : ∀ k, Matrix.trace (K k * X * (K k)ᴴ) = Matrix.trace ((K k)ᴴ * K k * X) := by
    intro k
    rw [Matrix.trace_mul_comm, ← Matrix.mul_assoc]
  simp only [this]
  rw [← Matrix.trace_sum, ← Finset.sum_mul, h, Matrix.one_mul]

theorem fam2_adKraus (sp cp sg cg : ℂ) :
    fam2 (adKraus sp cp sg cg) = ![!![sp, 0; 0, sp * cg], !![0, sp * sg; 0, 0], !![cp * cg, 0; 0, cp], !![0, 0; cp * sg, 0]] := by
  funext k
  fin_cases k <;> exact toSq_m22 _ _ _ _

theorem fam2_pdKraus (sg cg : ℂ) :
    fam2 (pdKraus sg cg) = ![!![1, 0; 0, cg], !![0, 0; 0, sg]] := by
  funext k
  fin_cases k <;> exact toSq_m22 _ _ _ _

theorem fam2_bfKraus (s c : ℂ) :
    fam2 (bfKraus s c) = ![!![c, 0; 0, c], !![0, s; s, 0]] := by
  funext k
  fin_cases k <;> exact toSq_m22 _ _ _ _

/-! ### Pauli strings: splitting off the least significant qubit -/

theorem pauliString_succ (iu : ℂ) (q j a b : Nat) :
    pauliString iu (q + 1) j a b
      = pauliString iu q (j / 4) (a / 2) (b / 2) * pauli1 iu (j % 4) (a % 2) (b % 2) := by
  unfold pauliString
  show prodFn q _ * _ = _
  congr 1
  · apply prodFn_congr
    intro t ht
    have e : q + 1 - 1 - t = (q - 1 - t) + 1 := by omega
    simp only [pauliDigit, e, pow_succ, Nat.div_div_eq_div_mul]
    rw [Nat.mul_comm 4, Nat.mul_comm 2]
  · simp [pauliDigit]

/-- the matrix of a tensor product (big-endian index) is a reindexed Kronecker product -/
theorem toSq_kron (m n : Nat) (U V : Nat → Nat → ℂ) :
    toSq (m * n) (fun a b => U (a / n) (b / n) * V (a % n) (b % n))
      = (toSq m U ⊗ₖ toSq n V).submatrix finProdFinEquiv.symm finProdFinEquiv.symm := by
  ext a b
  simp [toSq, Matrix.kroneckerMap_apply, finProdFinEquiv, Fin.divNat, Fin.modNat]

theorem toSq_kron_unitary (m n : Nat) (U V : Nat → Nat → ℂ)
    (hU : (toSq m U)ᴴ * toSq m U = 1) (hV : (toSq n V)ᴴ * toSq n V = 1) :
    (toSq (m * n) (fun a b => U (a / n) (b / n) * V (a % n) (b % n)))ᴴ
      * toSq (m * n) (fun a b => U (a / n) (b / n) * V (a % n) (b % n)) = 1 := by
  rw [toSq_kron, Matrix.conjTranspose_submatrix, Matrix.submatrix_mul_equiv, Matrix.conjTranspose_kronecker,
    ← Matrix.mul_kronecker_mul, hU, hV, Matrix.one_kronecker_one, Matrix.submatrix_one_equiv]

end Toq.ChanPropProofs
end KrausConstructors

/-! ## Ties: model functions of the driver ↔ specification -/
section Ties
open Toq.ChannelProps Toq.ChanPropSpec Matrix
namespace Toq.ChanPropProofs

/-- the complex `dO × di` matrix denoted by an exact operator -/
def matC (di dO : Nat) (M : Toq.ChannelOps.Mat QI) : Matrix (Fin dO) (Fin di) ℂ :=
  fun a i => (M.e a.val i.val).toC

theorem foldl_add_toC (l : List QI) : ∀ acc : QI,
    (l.foldl (· + ·) acc).toC = acc.toC + (l.map QI.toC).sum := by
  induction l with
  | nil => intro acc; simp
  | cons x xs ih =>
    intro acc
    rw [List.foldl_cons, ih, QI.toC_add, List.map_cons, List.sum_cons, add_assoc]

/-- a sum over a zipped pair of lists of equal length as a sum over positions -/
theorem sum_zip_eq_sum_fin {α : Type} (g : α → α → ℂ) : ∀ (as bs : List α) (hl : as.length = bs.length),
    ((as.zip bs).map fun ab => g ab.1 ab.2).sum
      = ∑ k : Fin as.length, g as[k] (bs[k.val]'(hl ▸ k.isLt)) := by
  intro as
  induction as with
  | nil => intro bs hl; simp
  | cons x xs ih =>
    intro bs hl
    cases bs with
    | nil => simp at hl
    | cons y ys =>
      have hl' : xs.length = ys.length := by simpa using hl
      rw [List.zip_cons_cons, List.map_cons, List.sum_cons, ih ys hl']
      simp only [List.length_cons]
      rw [Fin.sum_univ_succ]
      rfl

theorem pair_mod {di dO : Nat} (i : Fin di) (a : Fin dO) : (i.val * dO + a.val) % dO = a.val := by
  rw [Nat.mul_comm, Nat.mul_add_mod, Nat.mod_eq_of_lt a.isLt]

theorem pair_div {di dO : Nat} (i : Fin di) (a : Fin dO) : (i.val * dO + a.val) / dO = i.val := by
  have hd : 0 < dO := Nat.lt_of_le_of_lt (Nat.zero_le _) a.isLt
  rw [Nat.mul_comm, Nat.mul_add_div hd, Nat.div_eq_of_lt a.isLt, Nat.add_zero]

end Toq.ChanPropProofs
end Ties


/-! ## exact rank (shared routine `Toq.Rank`): the matrices the driver hands to it -/
section ExactRank
open Toq.ChannelProps Matrix
namespace Toq.ChanPropProofs

/-- the complex `r × c` matrix denoted by the leading block of exact rows -/
def qmToM (r c : Nat) (M : QM) : Matrix (Fin r) (Fin c) ℂ := fun i j => (M.get i.val j.val).toC

theorem QM.get_ofFn (r c : Nat) (f : Nat → Nat → QI) (i j : Nat) (hi : i < r) (hj : j < c) :
    (QM.ofFn r c f).get i j = f i j := by
  unfold QM.ofFn QM.get
  simp [hi, hj]

/-- the rows handed to the rank routine by `report` denote the Choi matrix `J` -/
theorem qmToM_toQM (c : ChoiForm) : qmToM (c.di * c.dO) (c.di * c.dO) c.toQM = c.J.toM := by
  ext p q
  unfold qmToM ChoiForm.toQM
  rw [QM.get_ofFn _ _ _ _ _ p.isLt q.isLt, dif_pos ⟨p.isLt, q.isLt⟩]
  rfl

theorem rank_toChoi {di dO : Nat} (J : EMat (di * dO) (di * dO)) : (toChoi J).rank = J.toM.rank := by
  rw [toChoi_eq_submatrix, Matrix.rank_submatrix]

end Toq.ChanPropProofs
end ExactRank
