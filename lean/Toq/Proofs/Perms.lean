import Toq.Model.Perms
import Toq.Proofs.Idx
import Mathlib.Data.Fintype.Basic
import Mathlib.Data.Fintype.EquivFin
import Mathlib.Data.Fintype.Card
import Mathlib.Algebra.BigOperators.Group.Finset.Basic
import Mathlib.Algebra.Ring.Defs
/-! Helper lemmas for C01 (index algebra of the `permute_systems` mirror model).

`IsPermN` is declared in `Toq/Properties/C01.lean`, so here a permutation of `0..n-1` is given by its
two fields `hlt : ∀ k, k < n → p k < n` and `hinj : ∀ a b, a < n → b < n → p a = p b → a = b`. -/

namespace Toq.Perms

/-! ### pigeonhole on `0..n-1` -/

/-- an injective self-map of `0..n-1` is surjective -/
theorem surj_of_inj (n : Nat) (p : Nat → Nat) (hlt : ∀ k, k < n → p k < n)
    (hinj : ∀ a b, a < n → b < n → p a = p b → a = b) (m : Nat) (hm : m < n) :
    ∃ k, k < n ∧ p k = m := by
  let g : Fin n → Fin n := fun i => ⟨p i.1, hlt i.1 i.2⟩
  have hg : Function.Injective g := by
    intro a b hab
    have : p a.1 = p b.1 := congrArg Fin.val hab
    exact Fin.ext (hinj a.1 b.1 a.2 b.2 this)
  obtain ⟨k, hk⟩ := Finite.injective_iff_surjective.mp hg ⟨m, hm⟩
  exact ⟨k.1, k.2, congrArg Fin.val hk⟩

/-- a surjective self-map of `0..n-1` is injective -/
theorem inj_of_surj (n : Nat) (p : Nat → Nat) (hlt : ∀ k, k < n → p k < n)
    (hsurj : ∀ m, m < n → ∃ k, k < n ∧ p k = m) (a b : Nat) (ha : a < n) (hb : b < n)
    (hab : p a = p b) : a = b := by
  let g : Fin n → Fin n := fun i => ⟨p i.1, hlt i.1 i.2⟩
  have hg : Function.Surjective g := by
    intro m
    obtain ⟨k, hk, hpk⟩ := hsurj m.1 m.2
    exact ⟨⟨k, hk⟩, Fin.ext hpk⟩
  have hi := Finite.injective_iff_surjective.mpr hg
  have : g ⟨a, ha⟩ = g ⟨b, hb⟩ := Fin.ext hab
  exact congrArg Fin.val (hi this)

/-! ### `invPerm` of a permutation -/

section inv
variable (n : Nat) (p : Nat → Nat) (hlt : ∀ k, k < n → p k < n)
  (hinj : ∀ a b, a < n → b < n → p a = p b → a = b)
include hlt hinj

theorem invPerm_lt (m : Nat) (hm : m < n) : invPerm n p m < n := by
  obtain ⟨k, hk, hpk⟩ := surj_of_inj n p hlt hinj m hm
  exact (invPerm_lt_of_hit n p m k hk hpk).2.1

theorem perm_invPerm (m : Nat) (hm : m < n) : p (invPerm n p m) = m := by
  obtain ⟨k, hk, hpk⟩ := surj_of_inj n p hlt hinj m hm
  exact (invPerm_lt_of_hit n p m k hk hpk).2.2

omit hlt in
theorem invPerm_perm (k : Nat) (hk : k < n) : invPerm n p (p k) = k :=
  invPerm_eq_of n p hinj (p k) k hk rfl

theorem invPerm_inj (a b : Nat) (ha : a < n) (hb : b < n) (h : invPerm n p a = invPerm n p b) :
    a = b := by
  rw [← perm_invPerm n p hlt hinj a ha, ← perm_invPerm n p hlt hinj b hb, h]

theorem invPerm_invPerm (k : Nat) (hk : k < n) : invPerm n (invPerm n p) k = p k :=
  invPerm_eq_of n (invPerm n p) (invPerm_inj n p hlt hinj) k (p k) (hlt k hk)
    (invPerm_perm n p hinj k hk)

/-! ### the transposition axes -/

theorem invPerm_axes0_rev (k : Nat) (hk : k < n) :
    invPerm n (axes0 n p) (rev n k) = rev n (invPerm n p k) := by
  have hq := invPerm_lt n p hlt hinj k hk
  have hpq := perm_invPerm n p hlt hinj k hk
  apply invPerm_eq_of
  · intro a b ha hb hab
    have h1 := hlt (rev n a) (rev_lt n a ha)
    have h2 := hlt (rev n b) (rev_lt n b hb)
    have h3 : p (rev n a) = p (rev n b) := by unfold axes0 at hab; omega
    have h4 := hinj _ _ (rev_lt n a ha) (rev_lt n b hb) h3
    unfold rev at h4; omega
  · exact rev_lt n _ hq
  · show n - 1 - p (rev n (rev n (invPerm n p k))) = rev n k
    rw [rev_rev n _ hq, hpq]; rfl

theorem invPerm_axes0 (m : Nat) (hm : m < n) :
    invPerm n (axes0 n p) m = axes0 n (invPerm n p) m := by
  have h := invPerm_axes0_rev n p hlt hinj (rev n m) (rev_lt n m hm)
  rw [rev_rev n m hm] at h
  rw [h]; rfl

end inv

/-! ### the model is the relabelling -/

/-- the three NumPy steps (F-reshape to reversed dims, transpose by `ax`, F-flatten) with
    `ax = n-1-p[::-1]` read position `specIndex n p dims j` -/
theorem transpose_core {α : Type} (v : Nat → α) (n : Nat) (ax p dims : Nat → Nat)
    (hlt : ∀ k, k < n → p k < n) (hinj : ∀ a b, a < n → b < n → p a = p b → a = b)
    (hax : ∀ k, k < n → ax k = axes0 n p k) (j : Nat) :
    ((ND.ofFlatF v n (fun k => dims (rev n k))).transpose ax).vecF j = v (specIndex n p dims j) := by
  show v (flatF (fun k => dims (rev n k))
      (fun m => unflatF (fun k => dims (rev n (ax k))) j (invPerm n ax m)) n) = _
  congr 1
  rw [flatF_eq_enc_rev]
  unfold specIndex
  apply enc_congr
  · intro k hk
    show dims (rev n (rev n k)) = dims k
    rw [rev_rev n k hk]
  · intro k hk
    show unflatF (fun k => dims (rev n (ax k))) j (invPerm n ax (rev n k))
      = dec (fun m => dims (p m)) n j (invPerm n p k)
    have hq := invPerm_lt n p hlt hinj k hk
    rw [invPerm_congr n ax (axes0 n p) _ hax, invPerm_axes0_rev n p hlt hinj k hk,
      unflatF_eq_dec_rev n _ j _ (rev_lt n _ hq), rev_rev n _ hq]
    apply dec_congr
    intro m hm
    show dims (rev n (ax (rev n m))) = dims (p m)
    rw [hax _ (rev_lt n m hm)]
    show dims (rev n (n - 1 - p (rev n (rev n m)))) = dims (p m)
    rw [rev_rev n m hm]
    have := hlt m hm
    congr 1; unfold rev; omega

theorem permuteVec_false_eq {α : Type} (v : Nat → α) (n : Nat) (p dims : Nat → Nat)
    (hlt : ∀ k, k < n → p k < n) (hinj : ∀ a b, a < n → b < n → p a = p b → a = b) (j : Nat) :
    permuteVec v n p dims false j = v (specIndex n p dims j) := by
  unfold permuteVec axes
  exact transpose_core v n _ p dims hlt hinj (fun _ _ => by simp) j

theorem permuteVec_true_eq {α : Type} (v : Nat → α) (n : Nat) (p dims : Nat → Nat)
    (hlt : ∀ k, k < n → p k < n) (hinj : ∀ a b, a < n → b < n → p a = p b → a = b) (j : Nat) :
    permuteVec v n p dims true j = v (specIndex n (invPerm n p) dims j) := by
  unfold permuteVec axes
  exact transpose_core v n _ (invPerm n p) dims (invPerm_lt n p hlt hinj) (invPerm_inj n p hlt hinj)
    (fun k hk => by simp only [if_true]; exact invPerm_axes0 n p hlt hinj k hk) j

/-- digits of `specIndex` are in range -/
theorem specIndex_digit_lt (n : Nat) (p dims : Nat → Nat)
    (hlt : ∀ k, k < n → p k < n) (hinj : ∀ a b, a < n → b < n → p a = p b → a = b)
    (hd : ∀ k, k < n → 0 < dims k) (j k : Nat) (hk : k < n) :
    dec (fun m => dims (p m)) n j (invPerm n p k) < dims k := by
  have hq := invPerm_lt n p hlt hinj k hk
  have hpq := perm_invPerm n p hlt hinj k hk
  have := dec_lt (fun m => dims (p m)) n j (invPerm n p k) hq (by simp only [hpq]; exact hd k hk)
  simpa only [hpq] using this

theorem specIndex_lt (n : Nat) (p dims : Nat → Nat)
    (hlt : ∀ k, k < n → p k < n) (hinj : ∀ a b, a < n → b < n → p a = p b → a = b)
    (hd : ∀ k, k < n → 0 < dims k) (j : Nat) : specIndex n p dims j < prodN dims n :=
  enc_lt dims _ n (specIndex_digit_lt n p dims hlt hinj hd j)

/-- digits of `specIndex` -/
theorem dec_specIndex (n : Nat) (p dims : Nat → Nat)
    (hlt : ∀ k, k < n → p k < n) (hinj : ∀ a b, a < n → b < n → p a = p b → a = b)
    (hd : ∀ k, k < n → 0 < dims k) (j k : Nat) (hk : k < n) :
    dec dims n (specIndex n p dims j) k = dec (fun m => dims (p m)) n j (invPerm n p k) :=
  dec_enc dims _ n (specIndex_digit_lt n p dims hlt hinj hd j) k hk

/-! ### reindexing products along a permutation -/

theorem prodFn_eq_finset {α : Type} [CommMonoid α] (f : Nat → α) :
    ∀ n, prodFn n f = ∏ i ∈ Finset.range n, f i
  | 0 => by simp [prodFn]
  | n + 1 => by rw [Finset.prod_range_succ, ← prodFn_eq_finset f n]; rfl

theorem prodFn_reindex {α : Type} [CommMonoid α] (n : Nat) (p : Nat → Nat) (f : Nat → α)
    (hlt : ∀ k, k < n → p k < n) (hinj : ∀ a b, a < n → b < n → p a = p b → a = b) :
    prodFn n (fun k => f (p k)) = prodFn n f := by
  rw [prodFn_eq_finset, prodFn_eq_finset]
  apply Finset.prod_nbij' p (invPerm n p)
  · intro a ha; simp only [Finset.mem_range] at *; exact hlt a ha
  · intro a ha; simp only [Finset.mem_range] at *; exact invPerm_lt n p hlt hinj a ha
  · intro a ha; simp only [Finset.mem_range] at *; exact invPerm_perm n p hinj a ha
  · intro a ha; simp only [Finset.mem_range] at *; exact perm_invPerm n p hlt hinj a ha
  · intro a _; rfl

theorem prodN_reindex (n : Nat) (p d : Nat → Nat)
    (hlt : ∀ k, k < n → p k < n) (hinj : ∀ a b, a < n → b < n → p a = p b → a = b) :
    prodN (fun m => d (p m)) n = prodN d n := by
  rw [prodN_eq_prodFn, prodN_eq_prodFn]
  exact prodFn_reindex n p d hlt hinj

/-! ### a row of the identity picks one entry -/

theorem sumN_ite_mul {α : Type} [Semiring α] (x : Nat → α) (c : Nat) :
    ∀ N, sumN N (fun k => (if c = k then 1 else 0) * x k) = if c < N then x c else 0
  | 0 => by simp [sumN]
  | N + 1 => by
    simp only [sumN]
    rw [sumN_ite_mul x c N]
    by_cases h1 : c < N
    · rw [if_pos h1, if_neg (by omega), if_pos (by omega), zero_mul, add_zero]
    · by_cases h2 : c = N
      · subst h2; rw [if_neg h1, if_pos rfl, if_pos (by omega), one_mul, zero_add]
      · rw [if_neg h1, if_neg h2, if_neg (by omega), zero_mul, add_zero]

theorem sumN_ite_mul_of_lt {α : Type} [Semiring α] (x : Nat → α) (c N : Nat) (hc : c < N) :
    sumN N (fun k => (if c = k then 1 else 0) * x k) = x c := by
  rw [sumN_ite_mul, if_pos hc]

end Toq.Perms

/-! ## Appended for the C01 deepening: composition, bijectivity of the index map, identity-row sums -/

namespace Toq.Perms

/-- a non-empty index range forces every radix to be positive -/
theorem pos_of_lt_prodN (d : Nat → Nat) : ∀ n i, i < prodN d n → ∀ k, k < n → 0 < d k
  | 0, _, _, k, hk => by omega
  | n + 1, i, h, k, hk => by
    simp only [prodN] at h
    have hpos : 0 < prodN d n * d n := by omega
    have h1 : 0 < d n := by
      rcases Nat.eq_zero_or_pos (d n) with h0 | h0
      · rw [h0] at hpos; simp at hpos
      · exact h0
    have h2 : 0 < prodN d n := by
      rcases Nat.eq_zero_or_pos (prodN d n) with h0 | h0
      · rw [h0] at hpos; simp at hpos
      · exact h0
    by_cases hkn : k = n
    · subst hkn; exact h1
    · exact pos_of_lt_prodN d n 0 h2 k (by omega)

theorem specIndex_congr (n : Nat) (p p' d d' : Nat → Nat) (hlt : ∀ k, k < n → p k < n)
    (hp : ∀ k, k < n → p k = p' k) (hd : ∀ k, k < n → d k = d' k) (j : Nat) :
    specIndex n p d j = specIndex n p' d' j := by
  unfold specIndex
  apply enc_congr _ _ _ _ _ hd
  intro k _
  rw [invPerm_congr n p p' k hp]
  apply dec_congr
  intro m hm
  show d (p m) = d' (p' m)
  rw [← hp m hm]; exact hd _ (hlt m hm)

theorem invPerm_id (n k : Nat) (hk : k < n) : invPerm n (fun m => m) k = k :=
  invPerm_eq_of n _ (fun _ _ _ _ h => h) k k hk rfl

theorem specIndex_id (n : Nat) (d : Nat → Nat) (j : Nat) (hj : j < prodN d n) :
    specIndex n (fun m => m) d j = j := by
  unfold specIndex
  rw [enc_congr d d _ (dec d n j) n (fun _ _ => rfl) (fun k hk => by rw [invPerm_id n k hk])]
  exact enc_dec d n j hj

section comp
variable (n : Nat) (p q : Nat → Nat) (hpl : ∀ k, k < n → p k < n)
  (hpi : ∀ a b, a < n → b < n → p a = p b → a = b) (hql : ∀ k, k < n → q k < n)
  (hqi : ∀ a b, a < n → b < n → q a = q b → a = b)
include hpl hpi hql hqi

omit hpi hqi in
theorem permComp_lt (k : Nat) (hk : k < n) : p (q k) < n := hpl _ (hql k hk)

omit hpl in
theorem permComp_inj (a b : Nat) (ha : a < n) (hb : b < n) (h : p (q a) = p (q b)) : a = b :=
  hqi a b ha hb (hpi _ _ (hql a ha) (hql b hb) h)

theorem invPerm_comp (k : Nat) (hk : k < n) :
    invPerm n (fun m => p (q m)) k = invPerm n q (invPerm n p k) := by
  have h1 := invPerm_lt n p hpl hpi k hk
  apply invPerm_eq_of n _ (permComp_inj n p q hpi hql hqi) k _ (invPerm_lt n q hql hqi _ h1)
  show p (q (invPerm n q (invPerm n p k))) = k
  rw [perm_invPerm n q hql hqi _ h1, perm_invPerm n p hpl hpi k hk]

/-- relabelling by `q` (with the `p`-permuted radices) and then by `p` is relabelling by `p ∘ q` -/
theorem specIndex_comp (d : Nat → Nat) (hd : ∀ k, k < n → 0 < d k) (j : Nat) :
    specIndex n p d (specIndex n q (fun m => d (p m)) j) = specIndex n (fun m => p (q m)) d j := by
  have hd' : ∀ k, k < n → 0 < (fun m => d (p m)) k := fun k hk => hd _ (hpl k hk)
  show enc d (fun k => dec (fun m => d (p m)) n (specIndex n q (fun m => d (p m)) j)
    (invPerm n p k)) n = enc d (fun k => dec (fun m => d (p (q m))) n j
    (invPerm n (fun m => p (q m)) k)) n
  apply enc_congr _ _ _ _ _ (fun _ _ => rfl)
  intro k hk
  rw [dec_specIndex n q (fun m => d (p m)) hql hqi hd' j _ (invPerm_lt n p hpl hpi k hk),
    invPerm_comp n p q hpl hpi hql hqi k hk]

end comp

section bij
variable (n : Nat) (p d : Nat → Nat) (hlt : ∀ k, k < n → p k < n)
  (hinj : ∀ a b, a < n → b < n → p a = p b → a = b) (hd : ∀ k, k < n → 0 < d k)
include hlt hinj hd

/-- `specIndex n p⁻¹ (d ∘ p)` is a right inverse of `specIndex n p d` on `0..N-1` -/
theorem specIndex_right_inv (j : Nat) (hj : j < prodN d n) :
    specIndex n p d (specIndex n (invPerm n p) (fun m => d (p m)) j) = j := by
  rw [specIndex_comp n p (invPerm n p) hlt hinj (invPerm_lt n p hlt hinj) (invPerm_inj n p hlt hinj)
    d hd j]
  rw [specIndex_congr n (fun m => p (invPerm n p m)) (fun m => m) d d
    (fun k hk => hlt _ (invPerm_lt n p hlt hinj k hk))
    (fun k hk => perm_invPerm n p hlt hinj k hk) (fun _ _ => rfl)]
  exact specIndex_id n d j hj

/-- … and a left inverse -/
theorem specIndex_left_inv (j : Nat) (hj : j < prodN d n) :
    specIndex n (invPerm n p) (fun m => d (p m)) (specIndex n p d j) = j := by
  have hql := invPerm_lt n p hlt hinj
  have hqi := invPerm_inj n p hlt hinj
  have hd' : ∀ k, k < n → 0 < (fun m => d (p m)) k := fun k hk => hd _ (hlt k hk)
  have e : specIndex n p d j
      = specIndex n p (fun m => (fun m => d (p m)) (invPerm n p m)) j :=
    specIndex_congr n p p _ _ hlt (fun _ _ => rfl)
      (fun k hk => by show d k = d (p (invPerm n p k)); rw [perm_invPerm n p hlt hinj k hk]) j
  rw [e, specIndex_comp n (invPerm n p) p hql hqi hlt hinj (fun m => d (p m)) hd' j]
  rw [specIndex_congr n (fun m => invPerm n p (p m)) (fun m => m) _ (fun m => d (p m))
    (fun k hk => hql _ (hlt k hk)) (fun k hk => invPerm_perm n p hinj k hk) (fun _ _ => rfl)]
  apply specIndex_id
  rw [prodN_reindex n p d hlt hinj]; exact hj

theorem specIndex_inv_lt (j : Nat) : specIndex n (invPerm n p) (fun m => d (p m)) j < prodN d n := by
  have hd' : ∀ k, k < n → 0 < (fun m => d (p m)) k := fun k hk => hd _ (hlt k hk)
  have := specIndex_lt n (invPerm n p) (fun m => d (p m)) (invPerm_lt n p hlt hinj)
    (invPerm_inj n p hlt hinj) hd' j
  rwa [prodN_reindex n p d hlt hinj] at this

end bij

/-! ### the index map of `permute_systems` is a bijection of `0..N-1` -/

theorem permIndex_false_eq (n : Nat) (p d : Nat → Nat) (hlt : ∀ k, k < n → p k < n)
    (hinj : ∀ a b, a < n → b < n → p a = p b → a = b) (j : Nat) :
    permIndex n p d false j = specIndex n p d j :=
  permuteVec_false_eq _ n p d hlt hinj j

theorem permIndex_true_eq (n : Nat) (p d : Nat → Nat) (hlt : ∀ k, k < n → p k < n)
    (hinj : ∀ a b, a < n → b < n → p a = p b → a = b) (j : Nat) :
    permIndex n p d true j = specIndex n (invPerm n p) d j :=
  permuteVec_true_eq _ n p d hlt hinj j

/-- the model reads the input at `permIndex` (both flags) -/
theorem permuteVec_eq_permIndex {α : Type} (v : Nat → α) (n : Nat) (p d : Nat → Nat) (inv : Bool)
    (j : Nat) : permuteVec v n p d inv j = v (permIndex n p d inv j) := rfl

/-- a two-sided inverse of `permIndex n p d inv` on `0..N-1`, `N = prodN d n` -/
theorem permIndex_bij (n : Nat) (p d : Nat → Nat) (inv : Bool) (hlt : ∀ k, k < n → p k < n)
    (hinj : ∀ a b, a < n → b < n → p a = p b → a = b) (hd : ∀ k, k < n → 0 < d k) :
    ∃ τ : Nat → Nat, (∀ j, permIndex n p d inv j < prodN d n) ∧ (∀ j, j < prodN d n → τ j < prodN d n) ∧
      (∀ j, j < prodN d n → τ (permIndex n p d inv j) = j) ∧
      (∀ j, j < prodN d n → permIndex n p d inv (τ j) = j) := by
  cases inv
  · refine ⟨specIndex n (invPerm n p) (fun m => d (p m)), ?_, ?_, ?_, ?_⟩
    · intro j; rw [permIndex_false_eq n p d hlt hinj]; exact specIndex_lt n p d hlt hinj hd j
    · intro j _; exact specIndex_inv_lt n p d hlt hinj hd j
    · intro j hj; rw [permIndex_false_eq n p d hlt hinj]; exact specIndex_left_inv n p d hlt hinj hd j hj
    · intro j hj; rw [permIndex_false_eq n p d hlt hinj]; exact specIndex_right_inv n p d hlt hinj hd j hj
  · -- the inverse flag: the same with `q = p⁻¹`, whose inverse is `p` again on `0..n-1`
    have hql := invPerm_lt n p hlt hinj
    have hqi := invPerm_inj n p hlt hinj
    have hτ : ∀ j, specIndex n (invPerm n (invPerm n p)) (fun m => d (invPerm n p m)) j
        = specIndex n p (fun m => d (invPerm n p m)) j := fun j =>
      specIndex_congr n _ p _ _ (invPerm_lt n _ hql hqi) (invPerm_invPerm n p hlt hinj) (fun _ _ => rfl) j
    refine ⟨specIndex n p (fun m => d (invPerm n p m)), ?_, ?_, ?_, ?_⟩
    · intro j; rw [permIndex_true_eq n p d hlt hinj]; exact specIndex_lt n _ d hql hqi hd j
    · intro j _; rw [← hτ]; exact specIndex_inv_lt n _ d hql hqi hd j
    · intro j hj; rw [permIndex_true_eq n p d hlt hinj, ← hτ]
      exact specIndex_left_inv n _ d hql hqi hd j hj
    · intro j hj; rw [permIndex_true_eq n p d hlt hinj, ← hτ]
      exact specIndex_right_inv n _ d hql hqi hd j hj

theorem permOp_apply {α : Type} [Zero α] [One α] (n : Nat) (p d : Nat → Nat) (inv : Bool) (i k : Nat) :
    permOp (α := α) n p d inv i k = if permIndex n p d inv i = k then 1 else 0 := by
  unfold permOp permuteMat; simp only [if_true]

/-! ### sums of products of identity rows -/

theorem sumN_const_zero {α : Type} [AddMonoid α] : ∀ n, sumN n (fun _ => (0 : α)) = 0
  | 0 => rfl
  | n + 1 => by simp only [sumN]; rw [sumN_const_zero n, add_zero]

/-- `Σ_k [a = k]·[b = k] = [a = b]` for `a < N` -/
theorem sumN_ite_ite_row {α : Type} [Semiring α] (a b N : Nat) (ha : a < N) :
    sumN N (fun k => (if a = k then (1 : α) else 0) * (if b = k then 1 else 0))
      = if a = b then 1 else 0 := by
  rw [sumN_ite_mul_of_lt (fun k => if b = k then (1 : α) else 0) a N ha]
  by_cases h : a = b
  · rw [if_pos h, if_pos h.symm]
  · rw [if_neg h, if_neg (fun h' => h h'.symm)]

/-- `Σ_k [σ k = i]·[σ k = j] = [i = j]` for a bijection `σ` of `0..N-1` with inverse `τ` -/
theorem sumN_ite_ite_col {α : Type} [Semiring α] (σ τ : Nat → Nat) (N i j : Nat) (hi : i < N)
    (hτ : τ i < N) (h1 : ∀ k, k < N → τ (σ k) = k) (h2 : σ (τ i) = i) :
    sumN N (fun k => (if σ k = i then (1 : α) else 0) * (if σ k = j then 1 else 0))
      = if i = j then 1 else 0 := by
  have _ := hi
  by_cases hij : i = j
  · subst hij
    rw [if_pos rfl]
    rw [sumN_congr _ (fun k => (if τ i = k then (1 : α) else 0) * 1) N (fun k hk => by
      by_cases h : σ k = i
      · have : τ i = k := by rw [← h, h1 k hk]
        rw [if_pos h, if_pos this]
      · have : ¬ τ i = k := fun h' => h (by rw [← h', h2])
        rw [if_neg h, if_neg this, zero_mul, zero_mul])]
    rw [sumN_ite_mul_of_lt (fun _ => (1 : α)) (τ i) N hτ]
  · rw [if_neg hij]
    rw [sumN_congr _ (fun _ => (0 : α)) N (fun k _ => by
      by_cases h : σ k = i
      · rw [if_pos h, if_neg (fun h' => hij (h.symm.trans h')), mul_zero]
      · rw [if_neg h, zero_mul])]
    exact sumN_const_zero N

end Toq.Perms
