import Toq.Model.Perms
import Toq.Proofs.Idx
import Mathlib.Data.Fintype.Basic
import Mathlib.Data.Fintype.EquivFin
import Mathlib.Data.Fintype.Card
import Mathlib.Algebra.BigOperators.Group.Finset.Basic
import Mathlib.Algebra.Ring.Defs
/-! Helper lemmas for C01 (index algebra of the `permute_systems` mirror model).

`IsPermN` is declared in `Toq/Properties/C01.lean`, so here a permutation of `0..n-1` is given by its
two fields `hlt : ∀ k, k < n → p k < n` and `hinj : ∀ a b, a < n → b < n → p a = p b → a = b`. -/

namespace Toq.Perms

/-! ### pigeonhole on `0..n-1` -/

/-- an injective self-map of `0..n-1` is surjective -/
theorem surj_of_inj (n : Nat) (p : Nat → Nat) (hlt : ∀ k, k < n → p k < n)
    (hinj : ∀ a b, a < n → b < n → p a = p b → a = b) (m : Nat) (hm : m < n) :
    ∃ k, k < n ∧ p k = m := by
  let g : Fin n → Fin n := fun i => ⟨p i.1, hlt i.1 i.2⟩
  have hg : Function.Injective g := by
    intro a b hab
    have : p a.1 = p b.1 := congrArg Fin.val hab
    exact Fin.ext (hinj a.1 b.1 a.2 b.2 this)
  obtain ⟨k, hk⟩ := Finite.injective_iff_surjective.mp hg ⟨m, hm⟩
  exact ⟨k.1, k.2, congrArg Fin.val hk⟩

/-- a surjective self-map of `0..n-1` is injective -/
theorem inj_of_surj (n : Nat) (p : Nat → Nat) (hlt : ∀ k, k < n → p k < n)
    (hsurj : ∀ m, m < n → ∃ k, k < n ∧ p k = m) (a b : Nat) (ha : a < n) (hb : b < n)
    (hab : p a = p b) : a = b := by
  let g : Fin n → Fin n := fun i => ⟨p i.1, hlt i.1 i.2⟩
  have hg : Function.Surjective g := by
    intro m
    obtain ⟨k, hk, hpk⟩ := hsurj m.1 m.2
    exact ⟨⟨k, hk⟩, Fin.ext hpk⟩
  have hi := Finite.injective_iff_surjective.mpr hg
  have : g ⟨a, ha⟩ = g ⟨b, hb⟩ := Fin.ext hab
  exact congrArg Fin.val (hi this)

/-! ### `invPerm` of a permutation -/

section inv
variable (n : Nat) (p : Nat → Nat) (hlt : ∀ k, k < n → p k < n)
  (hinj : ∀ a b, a < n → b < n → p a = p b → a = b)
include hlt hinj

theorem invPerm_lt (m : Nat) (hm : m < n) : invPerm n p m < n := by
  obtain ⟨k, hk, hpk⟩ := surj_of_inj n p hlt hinj m hm
  exact (invPerm_lt_of_hit n p m k hk hpk).2.1

theorem perm_invPerm (m : Nat) (hm : m < n) : p (invPerm n p m) = m := by
  obtain ⟨k, hk, hpk⟩ := surj_of_inj n p hlt hinj m hm
  exact (invPerm_lt_of_hit n p m k hk hpk).2.2

omit hlt in
theorem invPerm_perm (k : Nat) (hk : k < n) : invPerm n p (p k) = k :=
  invPerm_eq_of n p hinj (p k) k hk rfl

theorem invPerm_inj (a b : Nat) (ha : a < n) (hb : b < n) (h : invPerm n p a = invPerm n p b) :
    a = b := by
  rw [← perm_invPerm n p hlt hinj a ha, ← perm_invPerm n p hlt hinj b hb, h]

theorem invPerm_invPerm (k : Nat) (hk : k < n) : invPerm n (invPerm n p) k = p k :=
  invPerm_eq_of n (invPerm n p) (invPerm_inj n p hlt hinj) k (p k) (hlt k hk)
    (invPerm_perm n p hinj k hk)

/-! ### the transposition axes -/

theorem invPerm_axes0_rev (k : Nat) (hk : k < n) :
    invPerm n (axes0 n p) (rev n k) = rev n (invPerm n p k) := by
  have hq := invPerm_lt n p hlt hinj k hk
  have hpq := perm_invPerm n p hlt hinj k hk
  apply invPerm_eq_of
  · intro a b ha hb hab
    have h1 := hlt (rev n a) (rev_lt n a ha)
    have h2 := hlt (rev n b) (rev_lt n b hb)
    have h3 : p (rev n a) = p (rev n b) := by unfold axes0 at hab; omega
    have h4 := hinj _ _ (rev_lt n a ha) (rev_lt n b hb) h3
    unfold rev at h4; omega
  · exact rev_lt n _ hq
  · show n - 1 - p (rev n (rev n (invPerm n p k))) = rev n k
    rw [rev_rev n _ hq, hpq]; rfl

theorem invPerm_axes0 (m : Nat) (hm : m < n) :
    invPerm n (axes0 n p) m = axes0 n (invPerm n p) m := by
  have h := invPerm_axes0_rev n p hlt hinj (rev n m) (rev_lt n m hm)
  rw [rev_rev n m hm] at h
  rw [h]; rfl

end inv

/-! ### the model is the relabelling -/

/-- the three NumPy steps (F-reshape to reversed dims, transpose by `ax`, F-flatten) with
    `ax = n-1-p[::-1]` read position `specIndex n p dims j` -/
theorem transpose_core {α : Type} (v : Nat → α) (n : Nat) (ax p dims : Nat → Nat)
    (hlt : ∀ k, k < n → p k < n) (hinj : ∀ a b, a < n → b < n → p a = p b → a = b)
    (hax : ∀ k, k < n → ax k = axes0 n p k) (j : Nat) :
    ((ND.ofFlatF v n (fun k => dims (rev n k))).transpose ax).vecF j = v (specIndex n p dims j) := by
  show v (flatF (fun k => dims (rev n k))
      (fun m => unflatF (fun k => dims (rev n (ax k))) j (invPerm n ax m)) n) = _
  congr 1
  rw [flatF_eq_enc_rev]
  unfold specIndex
  apply enc_congr
  · intro k hk
    show dims (rev n (rev n k)) = dims k
    rw [rev_rev n k hk]
  · intro k hk
    show unflatF (fun k => dims (rev n (ax k))) j (invPerm n ax (rev n k))
      = dec (fun m => dims (p m)) n j (invPerm n p k)
    have hq := invPerm_lt n p hlt hinj k hk
    rw [invPerm_congr n ax (axes0 n p) _ hax, invPerm_axes0_rev n p hlt hinj k hk,
      unflatF_eq_dec_rev n _ j _ (rev_lt n _ hq), rev_rev n _ hq]
    apply dec_congr
    intro m hm
    show dims (rev n (ax (rev n m))) = dims (p m)
    rw [hax _ (rev_lt n m hm)]
    show dims (rev n (n - 1 - p (rev n (rev n m)))) = dims (p m)
    rw [rev_rev n m hm]
    have := hlt m hm
    congr 1; unfold rev; omega

theorem permuteVec_false_eq {α : Type} (v : Nat → α) (n : Nat) (p dims : Nat → Nat)
    (hlt : ∀ k, k < n → p k < n) (hinj : ∀ a b, a < n → b < n → p a = p b → a = b) (j : Nat) :
    permuteVec v n p dims false j = v (specIndex n p dims j) := by
  unfold permuteVec axes
  exact transpose_core v n _ p dims hlt hinj (fun _ _ => by simp) j

theorem permuteVec_true_eq {α : Type} (v : Nat → α) (n : Nat) (p dims : Nat → Nat)
    (hlt : ∀ k, k < n → p k < n) (hinj : ∀ a b, a < n → b < n → p a = p b → a = b) (j : Nat) :
    permuteVec v n p dims true j = v (specIndex n (invPerm n p) dims j) := by
  unfold permuteVec axes
  exact transpose_core v n _ (invPerm n p) dims (invPerm_lt n p hlt hinj) (invPerm_inj n p hlt hinj)
    (fun k hk => by simp only [if_true]; exact invPerm_axes0 n p hlt hinj k hk) j

/-- digits of `specIndex` are in range -/
theorem specIndex_digit_lt (n : Nat) (p dims : Nat → Nat)
    (hlt : ∀ k, k < n → p k < n) (hinj : ∀ a b, a < n → b < n → p a = p b → a = b)
    (hd : ∀ k, k < n → 0 < dims k) (j k : Nat) (hk : k < n) :
    dec (fun m => dims (p m)) n j (invPerm n p k) < dims k := by
  have hq := invPerm_lt n p hlt hinj k hk
  have hpq := perm_invPerm n p hlt hinj k hk
  have := dec_lt (fun m => dims (p m)) n j (invPerm n p k) hq (by simp only [hpq]; exact hd k hk)
  simpa only [hpq] using this

theorem specIndex_lt (n : Nat) (p dims : Nat → Nat)
    (hlt : ∀ k, k < n → p k < n) (hinj : ∀ a b, a < n → b < n → p a = p b → a = b)
    (hd : ∀ k, k < n → 0 < dims k) (j : Nat) : specIndex n p dims j < prodN dims n :=
  enc_lt dims _ n (specIndex_digit_lt n p dims hlt hinj hd j)

/-- digits of `specIndex` -/
theorem dec_specIndex (n : Nat) (p dims : Nat → Nat)
    (hlt : ∀ k, k < n → p k < n) (hinj : ∀ a b, a < n → b < n → p a = p b → a = b)
    (hd : ∀ k, k < n → 0 < dims k) (j k : Nat) (hk : k < n) :
    dec dims n (specIndex n p dims j) k = dec (fun m => dims (p m)) n j (invPerm n p k) :=
  dec_enc dims _ n (specIndex_digit_lt n p dims hlt hinj hd j) k hk

/-! ### reindexing products along a permutation -/

theorem prodFn_eq_finset {α : Type} [CommMonoid α] (f : Nat → α) :
    ∀ n, prodFn n f = ∏ i ∈ Finset.range n, f i
  | 0 => by simp [prodFn]
  | n + 1 => by rw [Finset.prod_range_succ, ← prodFn_eq_finset f n]; rfl

theorem prodFn_reindex {α : Type} [CommMonoid α] (n : Nat) (p : Nat → Nat) (f : Nat → α)
    (hlt : ∀ k, k < n → p k < n) (hinj : ∀ a b, a < n → b < n → p a = p b → a = b) :
    prodFn n (fun k => f (p k)) = prodFn n f := by
  rw [prodFn_eq_finset, prodFn_eq_finset]
  apply Finset.prod_nbij' p (invPerm n p)
  · intro a ha; simp only [Finset.mem_range] at *; exact hlt a ha
  · intro a ha; simp only [Finset.mem_range] at *; exact invPerm_lt n p hlt hinj a ha
  · intro a ha; simp only [Finset.mem_range] at *; exact invPerm_perm n p hinj a ha
  · intro a ha; simp only [Finset.mem_range] at *; exact perm_invPerm n p hlt hinj a ha
  · intro a _; rfl

theorem prodN_reindex (n : Nat) (p d : Nat → Nat)
    (hlt : ∀ k, k < n → p k < n) (hinj : ∀ a b, a < n → b < n → p a = p b → a = b) :
    prodN (fun m => d (p m)) n = prodN d n := by
  rw [prodN_eq_prodFn, prodN_eq_prodFn]
  exact prodFn_reindex n p d hlt hinj

/-! ### a row of the identity picks one entry -/

theorem sumN_ite_mul {α : Type} [Semiring α] (x : Nat → α) (c : Nat) :
    ∀ N, sumN N (fun k => (if c = k then 1 else 0) * x k) = if c < N then x c else 0
  | 0 => by simp [sumN]
  | N + 1 => by
    simp only [sumN]
    rw [sumN_ite_mul x c N]
    by_cases h1 : c < N
    · rw [if_pos h1, if_neg (by omega), if_pos (by omega), zero_mul, add_zero]
    · by_cases h2 : c = N
      · subst h2; rw [if_neg h1, if_pos rfl, if_pos (by omega), one_mul, zero_add]
      · rw [if_neg h1, if_neg h2, if_neg (by omega), zero_mul, add_zero]

theorem sumN_ite_mul_of_lt {α : Type} [Semiring α] (x : Nat → α) (c N : Nat) (hc : c < N) :
    sumN N (fun k => (if c = k then 1 else 0) * x k) = x c := by
  rw [sumN_ite_mul, if_pos hc]

end Toq.Perms
