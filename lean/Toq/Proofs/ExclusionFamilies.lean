import Toq.Proofs.Exclusion
import Toq.Proofs.Metrics
import Mathlib.Analysis.SpecialFunctions.Trigonometric.Basic
/-!
# Helper lemmas for C11, part 2: explicit optimal measurements and dual points for families of ensembles

* `psd_mul_eq_zero_of_trace`: PSD operators with `tr(AB) = 0` have `AB = 0`;
* an orthogonal pair inside the ensemble (`pairPovm`), projectors summing to a multiple of the identity
  (`framePovm`: trine, BB84, Bell, …), identical states, two states (perfect exclusion iff orthogonal; closed form),
  adding a state, re-labelling the inconclusive outcome of an unambiguous strategy (`absorbPovm`);
* the named constructors `trine()` and `pusey_barrett_rudolph(2, θ)` of `Toq.Model.Exclusion` instantiated at `ℂ`,
  with the Pusey–Barrett–Rudolph measurement for every angle in the antidistinguishable range.
-/

open Matrix
open scoped ComplexOrder MatrixOrder
set_option linter.unusedSectionVars false

namespace Toq.Excl
open Toq.Discrim

section Families
variable {ι κ : Type*} [Fintype ι] [DecidableEq ι] [Fintype κ]

/-- for PSD `A`, `B`: `tr(AB) = 0` forces `AB = 0` -/
theorem psd_mul_eq_zero_of_trace {A B : Matrix ι ι ℂ} (hA : A.PosSemidef) (hB : B.PosSemidef)
    (h : (A * B).trace = 0) : A * B = 0 := by
  have hA' : CFC.sqrt A * CFC.sqrt A = A := CFC.sqrt_mul_sqrt_self A hA.nonneg
  have hB' : CFC.sqrt B * CFC.sqrt B = B := CFC.sqrt_mul_sqrt_self B hB.nonneg
  have hHA : (CFC.sqrt A)ᴴ = CFC.sqrt A := (CFC.sqrt_nonneg A).posSemidef.isHermitian
  have hHB : (CFC.sqrt B)ᴴ = CFC.sqrt B := (CFC.sqrt_nonneg B).posSemidef.isHermitian
  have h1 : (A * B).trace = ((CFC.sqrt A * CFC.sqrt B)ᴴ * (CFC.sqrt A * CFC.sqrt B)).trace := by
    rw [Matrix.conjTranspose_mul, hHA, hHB]
    calc (A * B).trace = ((CFC.sqrt A * CFC.sqrt A * CFC.sqrt B) * CFC.sqrt B).trace := by
          conv_lhs => rw [← hA', ← hB']
          simp only [Matrix.mul_assoc]
      _ = (CFC.sqrt B * (CFC.sqrt A * CFC.sqrt A * CFC.sqrt B)).trace := Matrix.trace_mul_comm _ _
      _ = _ := by simp only [Matrix.mul_assoc]
  rw [h1, Matrix.trace_conjTranspose_mul_self_eq_zero_iff] at h
  calc A * B = CFC.sqrt A * (CFC.sqrt A * CFC.sqrt B) * CFC.sqrt B := by
        conv_lhs => rw [← hA', ← hB']
        simp only [Matrix.mul_assoc]
    _ = 0 := by rw [h]; simp

/-- a Hermitian idempotent is PSD -/
theorem proj_psd {P : Matrix ι ι ℂ} (hH : P.IsHermitian) (hI : P * P = P) : P.PosSemidef := by
  have : Pᴴ * P = P := by rw [hH.eq, hI]
  rw [← this]
  exact Matrix.posSemidef_conjTranspose_mul_self _

/-- the complement of a Hermitian idempotent is PSD -/
theorem proj_compl_psd {P : Matrix ι ι ℂ} (hH : P.IsHermitian) (hI : P * P = P) :
    (1 - P).PosSemidef := by
  refine proj_psd (Matrix.isHermitian_one.sub hH) ?_
  rw [Matrix.sub_mul, Matrix.mul_sub, Matrix.mul_sub, Matrix.one_mul, Matrix.mul_one, Matrix.one_mul, hI]
  abel

/-! ### An orthogonal pair inside the ensemble -/

variable [DecidableEq κ]

/-- answer `a` on the support of `ρ_b`, answer `b` off it, never anything else -/
noncomputable def pairPovm (ρ : κ → Matrix ι ι ℂ) (a b : κ) : κ → Matrix ι ι ℂ :=
  fun i => (if i = a then meSupp (ρ b) else 0) + (if i = b then 1 - meSupp (ρ b) else 0)

theorem pairPovm_psd (ρ : κ → Matrix ι ι ℂ) (a b : κ) (hb : (ρ b).IsHermitian) (i : κ) :
    (pairPovm ρ a b i).PosSemidef := by
  unfold pairPovm
  refine Matrix.PosSemidef.add ?_ ?_
  · split
    · exact proj_psd (meSupp_isHermitian hb) (meSupp_idem hb)
    · exact Matrix.PosSemidef.zero
  · split
    · exact proj_compl_psd (meSupp_isHermitian hb) (meSupp_idem hb)
    · exact Matrix.PosSemidef.zero

theorem pairPovm_sum (ρ : κ → Matrix ι ι ℂ) (a b : κ) : ∑ i, pairPovm ρ a b i = 1 := by
  unfold pairPovm
  rw [Finset.sum_add_distrib, Finset.sum_ite_eq' Finset.univ a, Finset.sum_ite_eq' Finset.univ b]
  simp

theorem pairPovm_mul (ρ : κ → Matrix ι ι ℂ) (a b : κ) (hab : a ≠ b) (hb : (ρ b).IsHermitian)
    (hO : ρ a * ρ b = 0) (i : κ) : ρ i * pairPovm ρ a b i = 0 := by
  unfold pairPovm
  by_cases hia : i = a
  · subst hia
    rw [if_pos rfl, if_neg hab, add_zero]
    unfold meSupp
    rw [← Matrix.mul_assoc, hO, Matrix.zero_mul]
  · rw [if_neg hia, zero_add]
    by_cases hib : i = b
    · subst hib
      rw [if_pos rfl, Matrix.mul_sub, Matrix.mul_one, mul_meSupp hb, sub_self]
    · rw [if_neg hib, Matrix.mul_zero]

/-! ### Projectors summing to a multiple of the identity -/

/-- `M_i = (1 − ρ_i) / (k − λ)` -/
noncomputable def framePovm (ρ : κ → Matrix ι ι ℂ) (lam : ℝ) : κ → Matrix ι ι ℂ :=
  fun i => ((((Fintype.card κ : ℝ) - lam)⁻¹ : ℝ) : ℂ) • (1 - ρ i)

theorem framePovm_psd (ρ : κ → Matrix ι ι ℂ) (lam : ℝ) (hlam : lam < Fintype.card κ)
    (hH : ∀ i, (ρ i).IsHermitian) (hI : ∀ i, ρ i * ρ i = ρ i) (i : κ) :
    (framePovm ρ lam i).PosSemidef := by
  unfold framePovm
  exact me_psd_smul (proj_compl_psd (hH i) (hI i)) (inv_nonneg.mpr (sub_nonneg.mpr hlam.le))

theorem framePovm_sum (ρ : κ → Matrix ι ι ℂ) (lam : ℝ) (hlam : lam < Fintype.card κ)
    (hS : ∑ i, ρ i = (lam : ℂ) • (1 : Matrix ι ι ℂ)) : ∑ i, framePovm ρ lam i = 1 := by
  unfold framePovm
  rw [← Finset.smul_sum, Finset.sum_sub_distrib, hS]
  have h1 : (∑ _i : κ, (1 : Matrix ι ι ℂ)) = ((Fintype.card κ : ℝ) : ℂ) • (1 : Matrix ι ι ℂ) := by
    rw [Finset.sum_const, Finset.card_univ]
    simp [Nat.cast_smul_eq_nsmul]
  rw [h1, ← sub_smul, smul_smul]
  have hne : ((Fintype.card κ : ℝ) - lam) ≠ 0 := ne_of_gt (sub_pos.mpr hlam)
  have : ((((Fintype.card κ : ℝ) - lam)⁻¹ : ℝ) : ℂ) * ((((Fintype.card κ : ℝ)) : ℂ) - (lam : ℂ)) = 1 := by
    rw [← Complex.ofReal_sub, ← Complex.ofReal_mul, inv_mul_cancel₀ hne, Complex.ofReal_one]
  rw [this, one_smul]

theorem framePovm_mul (ρ : κ → Matrix ι ι ℂ) (lam : ℝ) (hI : ∀ i, ρ i * ρ i = ρ i) (i : κ) :
    ρ i * framePovm ρ lam i = 0 := by
  unfold framePovm
  rw [Matrix.mul_smul, Matrix.mul_sub, Matrix.mul_one, hI i, sub_self, smul_zero]


/-! ### Pure states -/

/-- the projector `v vᴴ` -/
def pure (v : ι → ℂ) : Matrix ι ι ℂ := Matrix.vecMulVec v (star v)

theorem pure_isHermitian (v : ι → ℂ) : (pure v).IsHermitian := by
  unfold pure Matrix.IsHermitian
  rw [Matrix.conjTranspose_vecMulVec, star_star]

theorem pure_psd (v : ι → ℂ) : (pure v).PosSemidef := Matrix.posSemidef_vecMulVec_self_star v

theorem pure_mul_pure (v w : ι → ℂ) : pure v * pure w = (star v ⬝ᵥ w) • Matrix.vecMulVec v (star w) := by
  unfold pure
  rw [Matrix.vecMulVec_mul_vecMulVec]
  ext i j
  simp only [Matrix.vecMulVec_apply, Matrix.smul_apply, Pi.smul_apply, Pi.star_apply, smul_eq_mul]
  ring

theorem pure_idem (v : ι → ℂ) (hv : star v ⬝ᵥ v = 1) : pure v * pure v = pure v := by
  rw [pure_mul_pure, hv, one_smul]; rfl

theorem pure_trace (v : ι → ℂ) : (pure v).trace = star v ⬝ᵥ v := by
  unfold pure
  rw [Matrix.trace_vecMulVec, dotProduct_comm]

theorem pure_mul_eq_zero (v w : ι → ℂ) (h : star v ⬝ᵥ w = 0) : pure v * pure w = 0 := by
  rw [pure_mul_pure, h, zero_smul]

/-- `tr(v vᴴ · w wᴴ) = |⟨v, w⟩|²` -/
theorem pure_trace_mul (v w : ι → ℂ) :
    (pure v * pure w).trace = (star v ⬝ᵥ w) * (star w ⬝ᵥ v) := by
  rw [pure_mul_pure, Matrix.trace_smul, Matrix.trace_vecMulVec, smul_eq_mul, dotProduct_comm v]

/-! ### Identical states -/

/-- for identical PSD states the operator `p_j ρ` with the smallest weight `p_j` is dual feasible -/
theorem identical_dual_feasible (ρ : κ → Matrix ι ι ℂ) (p : κ → ℝ) (j : κ)
    (hρ : (ρ j).PosSemidef) (hid : ∀ i, ρ i = ρ j) (hmin : ∀ i, p j ≤ p i) (i : κ) :
    ((p i : ℂ) • ρ i - (p j : ℂ) • ρ j).PosSemidef := by
  rw [hid i, ← sub_smul, ← Complex.ofReal_sub]
  exact me_psd_smul hρ (sub_nonneg.mpr (hmin i))

/-! ### Adding a state -/

theorem snoc_povm_psd {k : ℕ} (M : Fin k → Matrix ι ι ℂ) (hM : ∀ i, (M i).PosSemidef) (i : Fin (k + 1)) :
    (Fin.snoc (α := fun _ => Matrix ι ι ℂ) M 0 i).PosSemidef := by
  refine Fin.lastCases ?_ (fun i => ?_) i
  · rw [Fin.snoc_last]; exact Matrix.PosSemidef.zero
  · rw [Fin.snoc_castSucc]; exact hM i

theorem snoc_povm_sum {k : ℕ} (M : Fin k → Matrix ι ι ℂ) :
    ∑ i, (Fin.snoc (α := fun _ => Matrix ι ι ℂ) M 0 i) = ∑ i, M i := by
  rw [Fin.sum_univ_castSucc]
  simp

theorem snoc_povm_value {k : ℕ} (ρ : Fin (k + 1) → Matrix ι ι ℂ) (p : Fin (k + 1) → ℝ)
    (M : Fin k → Matrix ι ι ℂ) :
    ∑ i, p i * (ρ i * (Fin.snoc (α := fun _ => Matrix ι ι ℂ) M 0 i)).trace.re
      = ∑ i : Fin k, p i.castSucc * (ρ i.castSucc * M i).trace.re := by
  rw [Fin.sum_univ_castSucc]
  simp

/-! ### An unambiguous strategy is a conclusive one -/


/-- the inconclusive outcome `1 − Σ M` is re-labelled as the answer `j` -/
def absorbPovm (M : κ → Matrix ι ι ℂ) (j : κ) : κ → Matrix ι ι ℂ :=
  fun i => M i + if i = j then 1 - ∑ l, M l else 0

theorem absorbPovm_psd (M : κ → Matrix ι ι ℂ) (j : κ) (hM : ∀ i, (M i).PosSemidef)
    (hR : (1 - ∑ l, M l).PosSemidef) (i : κ) : (absorbPovm M j i).PosSemidef := by
  unfold absorbPovm
  split
  · exact (hM i).add hR
  · simpa using hM i

theorem absorbPovm_sum (M : κ → Matrix ι ι ℂ) (j : κ) : ∑ i, absorbPovm M j i = 1 := by
  unfold absorbPovm
  rw [Finset.sum_add_distrib, Finset.sum_ite_eq' Finset.univ j]
  simp

/-- the error probability of the re-labelled measurement is at most the probability of the inconclusive outcome -/
theorem absorbPovm_value_le (σ M : κ → Matrix ι ι ℂ) (j : κ) (hσ : ∀ i, (σ i).PosSemidef)
    (hR : (1 - ∑ l, M l).PosSemidef) (hzero : ∀ i, (σ i * M i).trace.re = 0) :
    ∑ i, (σ i * absorbPovm M j i).trace.re ≤ ((∑ i, σ i) * (1 - ∑ l, M l)).trace.re := by
  have h1 : ∀ i, (σ i * absorbPovm M j i).trace.re
      = if i = j then (σ j * (1 - ∑ l, M l)).trace.re else 0 := by
    intro i
    unfold absorbPovm
    split
    · next h => subst h; rw [Matrix.mul_add, Matrix.trace_add, Complex.add_re, hzero, zero_add]
    · rw [add_zero, hzero]
  simp only [h1]
  rw [Finset.sum_ite_eq' Finset.univ j, if_pos (Finset.mem_univ j)]
  have h2 : ((∑ i, σ i) * (1 - ∑ l, M l)).trace.re
      = ∑ i, (σ i * (1 - ∑ l, M l)).trace.re := by
    rw [Finset.sum_mul, Matrix.trace_sum, Complex.re_sum]
  rw [h2]
  exact Finset.single_le_sum (f := fun i => (σ i * (1 - ∑ l, M l)).trace.re)
    (fun i _ => psd_trace_mul_nonneg (hσ i) hR) (Finset.mem_univ j)


/-! ### Two states -/

/-- two PSD operators can be excluded perfectly by a two-outcome measurement iff they are orthogonal -/
theorem two_perfect_iff (ρ0 ρ1 : Matrix ι ι ℂ) (h0 : ρ0.PosSemidef) (h1 : ρ1.PosSemidef) :
    (∃ M0 M1 : Matrix ι ι ℂ, M0.PosSemidef ∧ M1.PosSemidef ∧ M0 + M1 = 1 ∧
        (ρ0 * M0).trace = 0 ∧ (ρ1 * M1).trace = 0) ↔ ρ0 * ρ1 = 0 := by
  constructor
  · rintro ⟨M0, M1, hM0, hM1, hs, t0, t1⟩
    have z0 : ρ0 * M0 = 0 := psd_mul_eq_zero_of_trace h0 hM0 t0
    have z1 : ρ1 * M1 = 0 := psd_mul_eq_zero_of_trace h1 hM1 t1
    have z0' : M0 * ρ0 = 0 := by
      have := congrArg Matrix.conjTranspose z0
      rwa [Matrix.conjTranspose_mul, hM0.isHermitian.eq, h0.isHermitian.eq,
        Matrix.conjTranspose_zero] at this
    have e1 : ρ1 = ρ1 * M0 := by
      calc ρ1 = ρ1 * (M0 + M1) := by rw [hs, Matrix.mul_one]
        _ = ρ1 * M0 := by rw [Matrix.mul_add, z1, add_zero]
    have z : ρ1 * ρ0 = 0 := by rw [e1, Matrix.mul_assoc, z0', Matrix.mul_zero]
    have := congrArg Matrix.conjTranspose z
    rwa [Matrix.conjTranspose_mul, h0.isHermitian.eq, h1.isHermitian.eq,
      Matrix.conjTranspose_zero] at this
  · intro hO
    have hH := h1.isHermitian
    refine ⟨meSupp ρ1, 1 - meSupp ρ1, proj_psd (meSupp_isHermitian hH) (meSupp_idem hH),
      proj_compl_psd (meSupp_isHermitian hH) (meSupp_idem hH), by abel, ?_, ?_⟩
    · unfold meSupp
      rw [← Matrix.mul_assoc, hO, Matrix.zero_mul, Matrix.trace_zero]
    · rw [Matrix.mul_sub, Matrix.mul_one, mul_meSupp hH, sub_self, Matrix.trace_zero]

/-- value of a two-outcome measurement in terms of `W = M₀ − M₁` -/
theorem two_value_eq (ρ0 ρ1 M0 M1 : Matrix ι ι ℂ) (p0 p1 : ℝ) (hs : M0 + M1 = 1) :
    p0 * (ρ0 * M0).trace.re + p1 * (ρ1 * M1).trace.re
      = (p0 * ρ0.trace.re + p1 * ρ1.trace.re) / 2
        + ((M0 - M1) * ((p0 : ℂ) • ρ0 - (p1 : ℂ) • ρ1)).trace.re / 2 := by
  obtain ⟨e0, e1⟩ := me_two_povm_eq M0 M1 hs
  have := me_two_value_contraction ρ0 ρ1 (M0 - M1) p0 p1
  rw [← e0, ← e1] at this
  exact this

theorem hermitian_diff (ρ0 ρ1 : Matrix ι ι ℂ) (p0 p1 : ℝ) (h0 : ρ0.IsHermitian) (h1 : ρ1.IsHermitian) :
    ((p0 : ℂ) • ρ0 - (p1 : ℂ) • ρ1).IsHermitian := by
  refine Matrix.IsHermitian.sub ?_ ?_
  · exact IsSelfAdjoint.smul (by simp [IsSelfAdjoint]) h0
  · exact IsSelfAdjoint.smul (by simp [IsSelfAdjoint]) h1

/-- every two-outcome measurement has value at least `½(p₀ tr ρ₀ + p₁ tr ρ₁) − ½‖p₀ρ₀ − p₁ρ₁‖₁` -/
theorem two_value_ge (ρ0 ρ1 M0 M1 : Matrix ι ι ℂ) (p0 p1 : ℝ) (h0 : ρ0.IsHermitian) (h1 : ρ1.IsHermitian)
    (hM0 : M0.PosSemidef) (hM1 : M1.PosSemidef) (hs : M0 + M1 = 1) :
    (p0 * ρ0.trace.re + p1 * ρ1.trace.re) / 2
        - Toq.Metrics.traceNormV ((p0 : ℂ) • ρ0 - (p1 : ℂ) • ρ1) / 2
      ≤ p0 * (ρ0 * M0).trace.re + p1 * (ρ1 * M1).trace.re := by
  rw [two_value_eq ρ0 ρ1 M0 M1 p0 p1 hs]
  have hW : Toq.Metrics.IsContraction (M0 - M1) := me_two_contraction _ _ hM0 hM1 hs
  have := Toq.Metrics.le_traceNormV_gen (hermitian_diff ρ0 ρ1 p0 p1 h0 h1) hW.neg
  rw [Matrix.neg_mul, Matrix.trace_neg, Complex.neg_re] at this
  linarith

/-- for every contraction `W` the measurement `((1−W)/2, (1+W)/2)` has value
`½(p₀ tr ρ₀ + p₁ tr ρ₁) − ½ Re tr(W (p₀ρ₀ − p₁ρ₁))` -/
theorem two_value_of_contraction (ρ0 ρ1 W : Matrix ι ι ℂ) (p0 p1 : ℝ) :
    p0 * (ρ0 * ((1 / 2 : ℂ) • (1 - W))).trace.re + p1 * (ρ1 * ((1 / 2 : ℂ) • (1 + W))).trace.re
      = (p0 * ρ0.trace.re + p1 * ρ1.trace.re) / 2
        - (W * ((p0 : ℂ) • ρ0 - (p1 : ℂ) • ρ1)).trace.re / 2 := by
  have := me_two_value_contraction ρ0 ρ1 (-W) p0 p1
  rw [sub_neg_eq_add, ← sub_eq_add_neg, Matrix.neg_mul, Matrix.trace_neg, Complex.neg_re] at this
  rw [this]; ring


/-! ### The named families -/

/-- a list of numbers as a vector of length `n` (zero beyond the end) -/
def listVec {n : ℕ} (l : List ℂ) : Fin n → ℂ := fun i => l.getD i.val 0

/-- the `b`-th state of `pusey_barrett_rudolph(n, θ)` with `c = cos(θ/2)`, `s = sin(θ/2)` -/
def pbrVec (n : ℕ) (c s : ℝ) (b : Fin (2 ^ n)) : Fin (2 ^ n) → ℂ :=
  listVec ((pbrStates n (c : ℂ) (s : ℂ)).getD b.val [])

/-- the `b`-th state of `trine()` with `h = ½`, `r = √3` -/
def trineVec (h r : ℝ) (b : Fin 3) : Fin 2 → ℂ :=
  listVec ((trineStates (h : ℂ) (r : ℂ)).getD b.val [])

theorem trineVec_eq (h r : ℝ) :
    trineVec h r = ![![1, 0], ![-(h : ℂ), -(h * r : ℂ)], ![-(h : ℂ), (h * r : ℂ)]] := by
  funext b i
  fin_cases b <;> fin_cases i <;> simp [trineVec, listVec, trineStates]

theorem pbrVec_two (c s : ℝ) :
    pbrVec 2 c s = ![![(c * c : ℂ), c * s, s * c, s * s], ![(c * c : ℂ), -(c * s), s * c, -(s * s)],
      ![(c * c : ℂ), c * s, -(s * c), -(s * s)], ![(c * c : ℂ), -(c * s), -(s * c), s * s]] := by
  funext b i
  fin_cases b <;> fin_cases i <;>
    simp [pbrVec, listVec, pbrStates, binaryStrings, tensorVecs, kronVec, pbrPsi]


/-- the three states of `trine()` written out -/
def trineV (h r : ℝ) : Fin 3 → Fin 2 → ℂ := ![![1, 0], ![-(h : ℂ), -(h * r : ℂ)], ![-(h : ℂ), (h * r : ℂ)]]

theorem trine_unit (r : ℝ) (hr : r * r = 3) (b : Fin 3) :
    star (trineV (1 / 2) r b) ⬝ᵥ trineV (1 / 2) r b = 1 := by
  have hr' : (r : ℂ) * (r : ℂ) = 3 := by exact_mod_cast hr
  fin_cases b <;> simp [trineV, dotProduct, Fin.sum_univ_two, Complex.conj_ofNat] <;>
    linear_combination (1 / 4 : ℂ) * hr'

theorem trine_frame (r : ℝ) (hr : r * r = 3) :
    ∑ b, pure (trineV (1 / 2) r b) = ((3 / 2 : ℝ) : ℂ) • (1 : Matrix (Fin 2) (Fin 2) ℂ) := by
  have hr' : (r : ℂ) * (r : ℂ) = 3 := by exact_mod_cast hr
  ext i j
  fin_cases i <;> fin_cases j <;>
    simp [pure, trineV, Matrix.vecMulVec_apply, Fin.sum_univ_three, Matrix.sum_apply,
      Complex.conj_ofNat] <;>
    first | ring1 | linear_combination (1 / 2 : ℂ) * hr'

/-- the four states of `pusey_barrett_rudolph(2, θ)` written out -/
def pbrV (c s : ℝ) : Fin 4 → Fin 4 → ℂ :=
  ![![(c * c : ℂ), c * s, s * c, s * s], ![(c * c : ℂ), -(c * s), s * c, -(s * s)],
      ![(c * c : ℂ), c * s, -(s * c), -(s * s)], ![(c * c : ℂ), -(c * s), -(s * c), s * s]]

/-- the measurement basis: `ξ_b = D_b ξ`, `ξ = ½(1, w, w̄, −1)` -/
noncomputable def pbrXi (w : ℂ) : Fin 4 → Fin 4 → ℂ :=
  ![![1 / 2, w / 2, (starRingEnd ℂ) w / 2, -1 / 2], ![1 / 2, -(w / 2), (starRingEnd ℂ) w / 2, 1 / 2],
    ![1 / 2, w / 2, -((starRingEnd ℂ) w / 2), 1 / 2], ![1 / 2, -(w / 2), -((starRingEnd ℂ) w / 2), -1 / 2]]

theorem pbrXi_sum (w : ℂ) (hw : w * (starRingEnd ℂ) w = 1) : ∑ b, pure (pbrXi w b) = 1 := by
  ext i j
  fin_cases i <;> fin_cases j <;>
    simp [pure, pbrXi, Matrix.vecMulVec_apply, Fin.sum_univ_four, Matrix.sum_apply, Complex.conj_ofNat] <;>
    first | ring1 | linear_combination hw

theorem pbrXi_orth (c s : ℝ) (w : ℂ) (h : c * c - s * s + 2 * (c * s) * w.re = 0) (b : Fin 4) :
    star (pbrXi w b) ⬝ᵥ pbrV c s b = 0 := by
  have hw2 : w + (starRingEnd ℂ) w = ((2 * w.re : ℝ) : ℂ) := by
    apply Complex.ext <;> simp; ring
  have h' : (c : ℂ) * c - s * s + (c * s) * (w + (starRingEnd ℂ) w) = 0 := by
    rw [hw2]; exact_mod_cast (by linarith : c * c - s * s + c * s * (2 * w.re) = 0)
  fin_cases b <;> simp [pbrXi, pbrV, dotProduct, Fin.sum_univ_four, Complex.conj_ofNat] <;>
    linear_combination (1 / 2 : ℂ) * h'


/-! ### The range of angles of the Pusey–Barrett–Rudolph measurement -/

/-- a phase `w` with `c² − s² + 2cs·Re w = 0` exists iff `|c² − s²| ≤ 2|cs|` (here: if) -/
theorem pbr_phase_exists (c s : ℝ) (hcs : c * s ≠ 0) (h : |c * c - s * s| ≤ 2 * |c * s|) :
    ∃ w : ℂ, w * (starRingEnd ℂ) w = 1 ∧ c * c - s * s + 2 * (c * s) * w.re = 0 := by
  set x : ℝ := -(c * c - s * s) / (2 * (c * s)) with hx
  have hx1 : x ^ 2 ≤ 1 := by
    rw [sq_le_one_iff_abs_le_one, hx, abs_div, abs_neg, abs_mul, abs_two]
    rw [div_le_one (by positivity)]
    exact h
  refine ⟨⟨x, Real.sqrt (1 - x ^ 2)⟩, ?_, ?_⟩
  · rw [Complex.mul_conj, Complex.normSq_mk, Real.mul_self_sqrt (by linarith)]
    push_cast; ring
  · show c * c - s * s + 2 * (c * s) * x = 0
    have hc : c ≠ 0 := left_ne_zero_of_mul hcs
    have hs : s ≠ 0 := right_ne_zero_of_mul hcs
    rw [hx]; field_simp; ring

/-- for `θ ∈ [π/4, 3π/4]`: `|cos θ| ≤ sin θ` -/
theorem abs_cos_le_sin (θ : ℝ) (h1 : Real.pi / 4 ≤ θ) (h2 : θ ≤ 3 * Real.pi / 4) :
    |Real.cos θ| ≤ Real.sin θ := by
  have hs2 : (0 : ℝ) < Real.sqrt 2 / 2 := by positivity
  have ha : 0 ≤ Real.sin (θ - Real.pi / 4) :=
    Real.sin_nonneg_of_nonneg_of_le_pi (by linarith) (by linarith [Real.pi_pos])
  have hb : 0 ≤ Real.sin (θ + Real.pi / 4) :=
    Real.sin_nonneg_of_nonneg_of_le_pi (by linarith [Real.pi_pos]) (by linarith)
  rw [Real.sin_sub, Real.cos_pi_div_four, Real.sin_pi_div_four] at ha
  rw [Real.sin_add, Real.cos_pi_div_four, Real.sin_pi_div_four] at hb
  have ha' : 0 ≤ (Real.sin θ - Real.cos θ) * (Real.sqrt 2 / 2) := by linarith
  have hb' : 0 ≤ (Real.sin θ + Real.cos θ) * (Real.sqrt 2 / 2) := by linarith
  have ha'' := nonneg_of_mul_nonneg_left ha' hs2
  have hb'' := nonneg_of_mul_nonneg_left hb' hs2
  rw [abs_le]; constructor <;> linarith

theorem cos_half_sq_sub (θ : ℝ) :
    Real.cos (θ / 2) * Real.cos (θ / 2) - Real.sin (θ / 2) * Real.sin (θ / 2) = Real.cos θ := by
  have := Real.cos_two_mul' (θ / 2)
  rw [show 2 * (θ / 2) = θ by ring] at this
  rw [this]; ring

theorem two_cos_half_sin_half (θ : ℝ) : 2 * (Real.cos (θ / 2) * Real.sin (θ / 2)) = Real.sin θ := by
  have := Real.sin_two_mul (θ / 2)
  rw [show 2 * (θ / 2) = θ by ring] at this
  rw [this]; ring


end Families
end Toq.Excl
