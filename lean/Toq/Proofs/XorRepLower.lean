import Toq.Proofs.XorRep
/-!
# Parallel repetition of XOR games, lower bound (C08): independent play wins with probability `((1 + β)/2)^r`

From a single-round strategy `(ρ, A_x, B_y)` with bias `β = Σ π (-1)^f ⟨A_x B_y⟩` the `r`-fold product strategy — state `ρ^{⊗r}`,
projectors `⊗_k (1 + (-1)^{a_k} A_{x_k})/2` — is a projective strategy of the `r`-fold repetition and wins with probability
exactly `((1 + β)/2)^r`.  `piKron` is the `r`-fold Kronecker product on the index type `Fin r → d`.
-/

open Matrix
open scoped ComplexOrder MatrixOrder Kronecker

namespace Toq.Xor


section PiKron
variable {d : Type*} [Fintype d] [DecidableEq d] {r : Nat}

/-- `r`-fold Kronecker product `M_0 ⊗ … ⊗ M_{r-1}` on the index type `Fin r → d` -/
def piKron (M : Fin r → Matrix d d ℂ) : Matrix (Fin r → d) (Fin r → d) ℂ := fun i j => ∏ k, M k (i k) (j k)

omit [DecidableEq d] in
theorem piKron_mul (M N : Fin r → Matrix d d ℂ) : piKron M * piKron N = piKron fun k => M k * N k := by
  ext i j
  simp only [piKron, Matrix.mul_apply]
  rw [Finset.prod_univ_sum, Fintype.piFinset_univ]
  refine Finset.sum_congr rfl fun l _ => ?_
  rw [Finset.prod_mul_distrib]

omit [Fintype d] in
theorem piKron_one : piKron (fun _ : Fin r => (1 : Matrix d d ℂ)) = 1 := by
  ext i j
  simp only [piKron, Matrix.one_apply]
  rw [Finset.prod_ite_zero]
  simp [funext_iff]

omit [Fintype d] [DecidableEq d] in
theorem piKron_conjTranspose (M : Fin r → Matrix d d ℂ) : (piKron M)ᴴ = piKron fun k => (M k)ᴴ := by
  ext i j
  simp only [piKron, conjTranspose_apply, star_prod]

omit [DecidableEq d] in
theorem piKron_trace (M : Fin r → Matrix d d ℂ) : (piKron M).trace = ∏ k, (M k).trace := by
  simp only [Matrix.trace, Matrix.diag_apply, piKron]
  rw [Finset.prod_univ_sum, Fintype.piFinset_univ]

omit [Fintype d] [DecidableEq d] in
/-- a zero factor kills the product -/
theorem piKron_zero_of (M : Fin r → Matrix d d ℂ) (k : Fin r) (h : M k = 0) : piKron M = 0 := by
  ext i j
  simp only [piKron, Matrix.zero_apply]
  exact Finset.prod_eq_zero (Finset.mem_univ k) (by rw [h]; rfl)

omit [Fintype d] [DecidableEq d] in
/-- multilinearity: summing each factor separately -/
theorem piKron_sum {An : Type*} [Fintype An] [DecidableEq An] (M : Fin r → An → Matrix d d ℂ) :
    ∑ a : Fin r → An, piKron (fun k => M k (a k)) = piKron fun k => ∑ a, M k a := by
  ext i j
  simp only [piKron, Matrix.sum_apply]
  rw [Finset.prod_univ_sum, Fintype.piFinset_univ]

theorem piKron_psd (ρ : Fin r → Matrix d d ℂ) (h : ∀ k, (ρ k).PosSemidef) : (piKron ρ).PosSemidef := by
  have hR : ∀ k, (CFC.sqrt (ρ k))ᴴ * CFC.sqrt (ρ k) = ρ k := fun k => by
    have hS : (CFC.sqrt (ρ k)).PosSemidef := (CFC.sqrt_nonneg (ρ k)).posSemidef
    rw [hS.isHermitian.eq]
    exact CFC.sqrt_mul_sqrt_self (ρ k) (h k).nonneg
  have : piKron ρ = (piKron fun k => CFC.sqrt (ρ k))ᴴ * piKron fun k => CFC.sqrt (ρ k) := by
    rw [piKron_conjTranspose, piKron_mul]
    congr 1
    funext k
    exact (hR k).symm
  rw [this]
  exact posSemidef_conjTranspose_mul_self _

end PiKron


section ProjOf
variable {d : Type*} [Fintype d] [DecidableEq d]

/-- spectral projector of a ±1 observable on the outcome `a` : `(1 + (-1)^a A)/2` -/
noncomputable def projOf (A : Matrix d d ℂ) (a : Bool) : Matrix d d ℂ := ((1 / 2 : ℝ) : ℂ) • (1 + (sgb a : ℂ) • A)

omit [Fintype d] in
theorem projOf_herm {A : Matrix d d ℂ} (h : A.IsHermitian) (a : Bool) : (projOf A a).IsHermitian := by
  unfold projOf Matrix.IsHermitian
  rw [conjTranspose_smul, conjTranspose_add, conjTranspose_smul, conjTranspose_one, h.eq]
  simp

theorem projOf_mul {A : Matrix d d ℂ} (h2 : A * A = 1) (a a' : Bool) :
    projOf A a * projOf A a' = if a = a' then projOf A a else 0 := by
  unfold projOf
  rw [smul_mul_smul_comm, Matrix.add_mul, Matrix.mul_add, Matrix.mul_add, Matrix.one_mul, Matrix.one_mul,
    Matrix.mul_one, smul_mul_smul_comm, h2]
  cases a <;> cases a' <;> simp [sgb] <;> ext i j <;> simp <;> ring

omit [Fintype d] in
theorem projOf_sum (A : Matrix d d ℂ) : ∑ a, projOf A a = 1 := by
  rw [Fintype.sum_bool]
  unfold projOf
  ext i j
  simp [sgb]
  ring

theorem projOf_comm {A B : Matrix d d ℂ} (h : A * B = B * A) (a b : Bool) :
    projOf A a * projOf B b = projOf B b * projOf A a := by
  unfold projOf
  rw [smul_mul_smul_comm, smul_mul_smul_comm, Matrix.add_mul, Matrix.mul_add, Matrix.mul_add, Matrix.add_mul,
    Matrix.mul_add, Matrix.mul_add, smul_mul_smul_comm, smul_mul_smul_comm, h]
  simp only [Matrix.one_mul, Matrix.mul_one]
  rw [mul_comm (sgb a : ℂ)]
  abel_nf

end ProjOf


section ProductStrategy
variable {X Y : Type*} {d : Type*} [Fintype d] [DecidableEq d] {r : Nat}

/-- Alice's (or Bob's) projectors in the product strategy: `⊗_k projOf (A (x k)) (a k)` -/
noncomputable def prodProj {Z : Type*} (A : Z → Matrix d d ℂ) (x : Fin r → Z) (a : Fin r → Bool) :
    Matrix (Fin r → d) (Fin r → d) ℂ := piKron fun k => projOf (A (x k)) (a k)

/-- independent play: the `r`-fold product of a ±1-observable strategy is a projective strategy of the `r`-fold game -/
theorem isProjStrategy_prod {ρ : Matrix d d ℂ} {A : X → Matrix d d ℂ} {B : Y → Matrix d d ℂ} (h : IsStrategy ρ A B) :
    IsProjStrategy (piKron fun _ : Fin r => ρ) (prodProj A) (prodProj B) where
  psd := piKron_psd _ fun _ => h.psd
  tr_one := by rw [piKron_trace]; simp [h.tr_one]
  P_herm := fun x a => by
    unfold prodProj
    rw [Matrix.IsHermitian, piKron_conjTranspose]
    congr 1; funext k; exact projOf_herm (h.A_herm _) _
  P_orth := fun x a a' => by
    unfold prodProj
    rw [piKron_mul]
    by_cases he : a = a'
    · subst he
      rw [if_pos rfl]
      congr 1; funext k
      rw [projOf_mul (h.A_sq _), if_pos rfl]
    · rw [if_neg he]
      obtain ⟨k, hk⟩ := Function.ne_iff.mp he
      exact piKron_zero_of _ k (by rw [projOf_mul (h.A_sq _), if_neg hk])
  P_sum := fun x => by
    unfold prodProj
    rw [piKron_sum (fun k a => projOf (A (x k)) a)]
    simp only [projOf_sum]
    exact piKron_one
  Q_herm := fun y b => by
    unfold prodProj
    rw [Matrix.IsHermitian, piKron_conjTranspose]
    congr 1; funext k; exact projOf_herm (h.B_herm _) _
  Q_orth := fun y b b' => by
    unfold prodProj
    rw [piKron_mul]
    by_cases he : b = b'
    · subst he
      rw [if_pos rfl]
      congr 1; funext k
      rw [projOf_mul (h.B_sq _), if_pos rfl]
    · rw [if_neg he]
      obtain ⟨k, hk⟩ := Function.ne_iff.mp he
      exact piKron_zero_of _ k (by rw [projOf_mul (h.B_sq _), if_neg hk])
  Q_sum := fun y => by
    unfold prodProj
    rw [piKron_sum (fun k b => projOf (B (y k)) b)]
    simp only [projOf_sum]
    exact piKron_one
  comm := fun x a y b => by
    unfold prodProj
    rw [piKron_mul, piKron_mul]
    congr 1; funext k
    exact projOf_comm (h.comm _ _) _ _

end ProductStrategy


section WinProd
variable {X Y : Type*} [Fintype X] [Fintype Y] {d : Type*} [Fintype d] [DecidableEq d] {r : Nat}

omit [DecidableEq d] in
/-- the trace of a product of two Hermitian matrices is real -/
theorem trace_mul_herm_im {M H : Matrix d d ℂ} (hM : M.IsHermitian) (hH : H.IsHermitian) : (M * H).trace.im = 0 := by
  have h1 : star (M * H).trace = (M * H).trace := by
    rw [← trace_conjTranspose, conjTranspose_mul, hM.eq, hH.eq, trace_mul_comm]
  have := congrArg Complex.im h1
  simp only [Complex.star_def, Complex.conj_im] at this
  linarith

/-- product over rounds of double sums -/
theorem sum_sum_pi_prod {Z W : Type*} [Fintype Z] [Fintype W] [DecidableEq Z] [DecidableEq W] (F : Fin r → Z → W → ℝ) :
    ∑ z : Fin r → Z, ∑ w : Fin r → W, ∏ k, F k (z k) (w k) = ∏ k, ∑ z, ∑ w, F k z w := by
  rw [Finset.prod_univ_sum, Fintype.piFinset_univ]
  refine Finset.sum_congr rfl fun z _ => ?_
  rw [Finset.prod_univ_sum, Fintype.piFinset_univ]

/-- the single-round term `Re tr(ρ P_a Q_b)` -/
noncomputable def roundTerm (ρ : Matrix d d ℂ) (A : X → Matrix d d ℂ) (B : Y → Matrix d d ℂ) (x : X) (y : Y) (a b : Bool) : ℝ :=
  (ρ * projOf (A x) a * projOf (B y) b).trace.re

omit [Fintype X] [Fintype Y] in
theorem roundTerm_eq {ρ : Matrix d d ℂ} {A : X → Matrix d d ℂ} {B : Y → Matrix d d ℂ} (h : IsStrategy ρ A B)
    (x : X) (y : Y) (a b : Bool) :
    roundTerm ρ A B x y a b
      = (1 + sgb a * (ρ * A x).trace.re + sgb b * (ρ * B y).trace.re + sgb a * sgb b * corrQ ρ A B x y) / 4 := by
  unfold roundTerm projOf corrQ
  rw [Matrix.mul_assoc, smul_mul_smul_comm, Matrix.add_mul, Matrix.mul_add, Matrix.mul_add, Matrix.one_mul,
    Matrix.mul_one, Matrix.one_mul, smul_mul_smul_comm, Matrix.mul_smul, Matrix.mul_add, Matrix.mul_add, Matrix.mul_add,
    Matrix.mul_one, Matrix.mul_smul, Matrix.mul_smul, Matrix.mul_smul, trace_smul, trace_add, trace_add, trace_add,
    trace_smul, trace_smul, trace_smul, h.tr_one, ← Matrix.mul_assoc]
  simp only [smul_eq_mul, ← Complex.ofReal_mul, Complex.re_ofReal_mul, Complex.add_re, Complex.one_re]
  ring

omit [Fintype X] [Fintype Y] in
/-- single-round winning probability on the question pair `(x, y)` : `(1 + (-1)^f ⟨A_x B_y⟩)/2` -/
theorem roundWin {ρ : Matrix d d ℂ} {A : X → Matrix d d ℂ} {B : Y → Matrix d d ℂ} (h : IsStrategy ρ A B)
    (x : X) (y : Y) (f : Bool) :
    ∑ a, ∑ b, (if xor a b = f then (1 : ℝ) else 0) * roundTerm ρ A B x y a b = (1 + sgb f * corrQ ρ A B x y) / 2 := by
  simp only [roundTerm_eq h, Fintype.sum_bool]
  cases f <;> simp [sgb] <;> ring

end WinProd


section WinProd2
variable {X Y : Type*} [Fintype X] [Fintype Y] [DecidableEq X] [DecidableEq Y] {d : Type*} [Fintype d] [DecidableEq d]
  {r : Nat}

omit [Fintype X] [Fintype Y] [DecidableEq X] [DecidableEq Y] in
/-- the term of the product strategy factorises over the rounds -/
theorem prod_term {ρ : Matrix d d ℂ} {A : X → Matrix d d ℂ} {B : Y → Matrix d d ℂ} (h : IsStrategy ρ A B)
    (x : Fin r → X) (y : Fin r → Y) (a b : Fin r → Bool) :
    ((piKron fun _ : Fin r => ρ) * prodProj A x a * prodProj B y b).trace.re
      = ∏ k, roundTerm ρ A B (x k) (y k) (a k) (b k) := by
  unfold prodProj
  rw [piKron_mul, piKron_mul, piKron_trace]
  have hreal : ∀ k, (ρ * projOf (A (x k)) (a k) * projOf (B (y k)) (b k)).trace
      = ((roundTerm ρ A B (x k) (y k) (a k) (b k) : ℝ) : ℂ) := by
    intro k
    apply Complex.ext
    · simp [roundTerm]
    · rw [Complex.ofReal_im, Matrix.mul_assoc]
      apply trace_mul_herm_im h.psd.isHermitian
      rw [Matrix.IsHermitian, conjTranspose_mul, (projOf_herm (h.A_herm _) _).eq, (projOf_herm (h.B_herm _) _).eq]
      exact (projOf_comm (h.comm _ _) _ _).symm
  simp only [hreal]
  rw [← Complex.ofReal_prod, Complex.ofReal_re]

omit [DecidableEq d] in
theorem and_ite_prod (a b f : Fin r → Bool) :
    (if ∀ k, xor (a k) (b k) = f k then (1 : ℝ) else 0) = ∏ k, (if xor (a k) (b k) = f k then (1 : ℝ) else 0) := by
  rw [Finset.prod_ite_zero]; simp

/-- **independent play wins with probability `((1 + β)/2)^r`** -/
theorem andWin_prod (π : X → Y → ℝ) (f : X → Y → Bool) (hπ1 : ∑ x, ∑ y, π x y = 1)
    {ρ : Matrix d d ℂ} {A : X → Matrix d d ℂ} {B : Y → Matrix d d ℂ} (h : IsStrategy ρ A B) :
    andWin (r := r) π f (piKron fun _ => ρ) (prodProj A) (prodProj B)
      = ((1 + ∑ x, ∑ y, costB π f x y * corrQ ρ A B x y) / 2) ^ r := by
  unfold andWin
  have inner : ∀ (x : Fin r → X) (y : Fin r → Y),
      (∏ k, π (x k) (y k)) * ∑ a : Fin r → Bool, ∑ b : Fin r → Bool,
        (if ∀ k, xor (a k) (b k) = f (x k) (y k) then (1 : ℝ) else 0) *
          ((piKron fun _ : Fin r => ρ) * prodProj A x a * prodProj B y b).trace.re
      = ∏ k, π (x k) (y k) * ((1 + sgb (f (x k) (y k)) * corrQ ρ A B (x k) (y k)) / 2) := by
    intro x y
    rw [Finset.prod_mul_distrib]
    congr 1
    simp only [prod_term h, and_ite_prod, ← Finset.prod_mul_distrib]
    rw [sum_sum_pi_prod (fun k a b => (if xor a b = f (x k) (y k) then (1 : ℝ) else 0) * roundTerm ρ A B (x k) (y k) a b)]
    exact Finset.prod_congr rfl fun k _ => roundWin h _ _ _
  simp only [inner]
  rw [sum_sum_pi_prod (fun _ x y => π x y * ((1 + sgb (f x y) * corrQ ρ A B x y) / 2)), Finset.prod_const,
    Finset.card_univ, Fintype.card_fin]
  congr 1
  have : ∀ x y, π x y * ((1 + sgb (f x y) * corrQ ρ A B x y) / 2) = π x y / 2 + costB π f x y * corrQ ρ A B x y / 2 := by
    intro x y; unfold costB; ring
  simp only [this, Finset.sum_add_distrib, ← Finset.sum_div, hπ1]
  ring

end WinProd2


section CheckerRepLower
open EMat
variable {m n k : Nat}

/-- an accepted primal certificate of the single game yields, for every `r`, a projective strategy of the `r`-fold repetition
    that wins with probability exactly the value `quantum_value` reports for `reps = r` at that certificate -/
theorem checkXorPrimal_repetition (prob : Nat → Nat → Rat) (pred : Nat → Nat → Nat) (hp1 : totalProb m n prob = 1)
    (Γ : EMat (m + n) (m + n)) (L : EMat (m + n) k) (lo : Rat) (h : checkXorPrimal m n (dMat prob pred) Γ L = some lo)
    (r : Nat) :
    ∃ (d : Type) (_ : Fintype d) (_ : DecidableEq d) (ρ : Matrix d d ℂ)
      (P : (Fin r → Fin m) → (Fin r → Bool) → Matrix d d ℂ) (Qm : (Fin r → Fin n) → (Fin r → Bool) → Matrix d d ℂ),
      IsProjStrategy ρ P Qm ∧ andWin (castD prob) (predBit pred) ρ P Qm = ((xorValue (2 * lo) r : Rat) : ℝ) := by
  obtain ⟨c, ⟨d, hF, hD, ρ, A, B, hs, hc⟩, hv⟩ := checkXorPrimal_quantum (dMat prob pred) Γ L lo h
  have hπ1 : ∑ x : Fin m, ∑ y : Fin n, (castD prob : Fin m → Fin n → ℝ) x y = 1 := by
    rw [← totalProb_cast, hp1]; simp
  refine ⟨Fin r → d, inferInstance, inferInstance, piKron fun _ => ρ, prodProj A, prodProj B, isProjStrategy_prod hs, ?_⟩
  rw [andWin_prod (castD prob) (predBit pred) hπ1 hs, ← castD_dMat]
  simp only [hc, hv, xorValue, powN_eq_pow]
  push_cast
  congr 1
  ring

end CheckerRepLower
end Toq.Xor
