import Toq.Proofs.MetricsMatsumoto
/-!
# Symmetry, unitary invariance and pure-state values of the Hilbert–Schmidt distance and the sub-fidelity; vector forms of overlaps
-/

open Matrix
open scoped ComplexOrder MatrixOrder

set_option linter.unusedSectionVars false

namespace Toq.Metrics
section Laws
variable {ι : Type*} [Fintype ι] [DecidableEq ι]

/-- Hilbert–Schmidt distance as documented: `tr((ρ − σ)²)` -/
noncomputable def hsV (ρ σ : Matrix ι ι ℂ) : ℝ := ((ρ - σ) * (ρ - σ)).trace.re

theorem hsV_symm (ρ σ : Matrix ι ι ℂ) : hsV ρ σ = hsV σ ρ := by
  unfold hsV
  rw [← neg_sub σ ρ, Matrix.neg_mul, Matrix.mul_neg, neg_neg]

theorem conj_mul_conj {U : Matrix ι ι ℂ} (hU : Uᴴ * U = 1) (A B : Matrix ι ι ℂ) :
    U * A * Uᴴ * (U * B * Uᴴ) = U * (A * B) * Uᴴ := by
  calc U * A * Uᴴ * (U * B * Uᴴ) = U * A * (Uᴴ * U) * B * Uᴴ := by simp only [Matrix.mul_assoc]
    _ = U * (A * B) * Uᴴ := by rw [hU, Matrix.mul_one]; simp only [Matrix.mul_assoc]

theorem trace_conj {U : Matrix ι ι ℂ} (hU : Uᴴ * U = 1) (A : Matrix ι ι ℂ) : (U * A * Uᴴ).trace = A.trace := by
  rw [Matrix.trace_mul_comm, ← Matrix.mul_assoc, hU, Matrix.one_mul]

theorem hsV_unitary_invariant {U : Matrix ι ι ℂ} (hU : Uᴴ * U = 1) (ρ σ : Matrix ι ι ℂ) :
    hsV (U * ρ * Uᴴ) (U * σ * Uᴴ) = hsV ρ σ := by
  unfold hsV
  have : U * ρ * Uᴴ - U * σ * Uᴴ = U * (ρ - σ) * Uᴴ := by rw [Matrix.mul_sub, Matrix.sub_mul]
  rw [this, conj_mul_conj hU, trace_conj hU]

theorem hsV_eq_zero_iff {ρ σ : Matrix ι ι ℂ} (hρ : ρ.IsHermitian) (hσ : σ.IsHermitian) : hsV ρ σ = 0 ↔ ρ = σ := by
  unfold hsV
  have hD : (ρ - σ).IsHermitian := hρ.sub hσ
  constructor
  · intro h
    have h0 : 0 ≤ ((ρ - σ)ᴴ * (ρ - σ)).trace := (Matrix.posSemidef_conjTranspose_mul_self _).trace_nonneg
    rw [hD.eq] at h0
    obtain ⟨-, him⟩ := Complex.nonneg_iff.mp h0
    have hz : ((ρ - σ)ᴴ * (ρ - σ)).trace = 0 := by
      rw [hD.eq]; exact Complex.ext (by simpa using h) (by simpa using him.symm)
    exact sub_eq_zero.mp (Matrix.trace_conjTranspose_mul_self_eq_zero_iff.mp hz)
  · rintro rfl; simp

theorem hsV_pure_pure {P Q : Matrix ι ι ℂ} (hP : IsPureProj P) (hQ : IsPureProj Q) :
    hsV P Q = 2 - 2 * (P * Q).trace.re := by
  unfold hsV
  rw [Matrix.sub_mul, Matrix.mul_sub, Matrix.mul_sub, hP.idem, hQ.idem]
  simp only [Matrix.trace_sub, Complex.sub_re, hP.trace_one, hQ.trace_one, Matrix.trace_mul_comm Q P, Complex.one_re]
  ring

theorem subFidV_symm (ρ σ : Matrix ι ι ℂ) : subFidV ρ σ = subFidV σ ρ := by
  unfold subFidV
  have e1 : (ρ * σ).trace = (σ * ρ).trace := Matrix.trace_mul_comm ρ σ
  have e2 : (ρ * σ * (ρ * σ)).trace = (σ * ρ * (σ * ρ)).trace := by
    calc (ρ * σ * (ρ * σ)).trace = (ρ * (σ * ρ * σ)).trace := by simp only [Matrix.mul_assoc]
      _ = (σ * ρ * σ * ρ).trace := Matrix.trace_mul_comm _ _
      _ = _ := by simp only [Matrix.mul_assoc]
  rw [e1, e2]

theorem subFidV_unitary_invariant {U : Matrix ι ι ℂ} (hU : Uᴴ * U = 1) (ρ σ : Matrix ι ι ℂ) :
    subFidV (U * ρ * Uᴴ) (U * σ * Uᴴ) = subFidV ρ σ := by
  unfold subFidV
  rw [conj_mul_conj hU, conj_mul_conj hU, trace_conj hU, trace_conj hU]

/-- for a pure `ρ = |ψ⟩⟨ψ|` the sub-fidelity is the overlap `⟨ψ|σ|ψ⟩` -/
theorem subFidV_pure {P σ : Matrix ι ι ℂ} (hP : IsPureProj P) (hσ : σ.PosSemidef) :
    subFidV P σ = (P * σ).trace.re := by
  unfold subFidV
  have htr := trace_proj_mul_psd hP.herm hP.idem hσ
  have e : (P * σ * (P * σ)).trace = (P * σ).trace * (P * σ).trace := by
    calc (P * σ * (P * σ)).trace = ((P * σ * P) * σ).trace := by simp only [Matrix.mul_assoc]
      _ = _ := by rw [hP.rank_one, Matrix.smul_mul, Matrix.trace_smul, smul_eq_mul]
  rw [e]
  conv_lhs => rw [htr]
  rw [← Complex.ofReal_mul, Complex.ofReal_re, Complex.ofReal_re]
  have : (2 : ℝ) * ((P * σ).trace.re ^ 2 - (P * σ).trace.re * (P * σ).trace.re) = 0 := by ring
  rw [this, Real.sqrt_zero, add_zero]

theorem subFidV_of_orthogonal {ρ σ : Matrix ι ι ℂ} (h : ρ * σ = 0) : subFidV ρ σ = 0 := by
  unfold subFidV; simp [h]

/-- overlap of two pure states given by unit vectors -/
theorem trace_pure_mul (ψ : ι → ℂ) (σ : Matrix ι ι ℂ) :
    (vecMulVec ψ (star ψ) * σ).trace = star ψ ⬝ᵥ (σ *ᵥ ψ) := by
  rw [vecMulVec_mul, trace_vecMulVec, dotProduct_comm, dotProduct_mulVec]

theorem trace_pure_mul_pure (ψ φ : ι → ℂ) :
    (vecMulVec ψ (star ψ) * vecMulVec φ (star φ)).trace.re = ‖star ψ ⬝ᵥ φ‖ ^ 2 := by
  rw [trace_pure_mul, vecMulVec_mulVec, op_smul_eq_smul, dotProduct_smul, smul_eq_mul]
  have : star φ ⬝ᵥ ψ = star (star ψ ⬝ᵥ φ) := Matrix.star_dotProduct _ _
  rw [this, Complex.star_def, mul_comm, Complex.mul_conj, Complex.normSq_eq_norm_sq]
  exact Complex.ofReal_re _

end Laws
end Toq.Metrics
