import Toq.Proofs.RandBK
import Toq.Proofs.RandQR
/-!
# Pretty good measurement: existence and uniqueness of the normaliser, `P_opt² ≤ P_pgm ≤ P_opt`
-/

open Matrix
open scoped ComplexOrder MatrixOrder

namespace Toq.Rand

variable {ι : Type*} [Fintype ι] [DecidableEq ι] {κ : Type*} [Fintype κ]

/-- **existence of the normaliser** for a spanning ensemble: a positive definite `P` has the positive semidefinite
`S = (√P)⁻¹` with `S P S = 1` -/
theorem inv_sqrt_exists (P : Matrix ι ι ℂ) (hP : P.PosDef) : ∃ S : Matrix ι ι ℂ, S.PosSemidef ∧ S * P * S = 1 := by
  have hP0 : (0 : Matrix ι ι ℂ) ≤ P := hP.posSemidef.nonneg
  have hQ : (CFC.sqrt P).PosSemidef := (CFC.sqrt_nonneg P).posSemidef
  have hQQ : CFC.sqrt P * CFC.sqrt P = P := CFC.sqrt_mul_sqrt_self P hP0
  have hu : IsUnit (CFC.sqrt P) := (CFC.isUnit_sqrt_iff P hP0).mpr hP.isUnit
  have hd : IsUnit (CFC.sqrt P).det := (Matrix.isUnit_iff_isUnit_det _).mp hu
  refine ⟨(CFC.sqrt P)⁻¹, hQ.inv, ?_⟩
  nth_rewrite 2 [← hQQ]
  have : (CFC.sqrt P)⁻¹ * (CFC.sqrt P * CFC.sqrt P) * (CFC.sqrt P)⁻¹
      = ((CFC.sqrt P)⁻¹ * CFC.sqrt P) * (CFC.sqrt P * (CFC.sqrt P)⁻¹) := by simp only [Matrix.mul_assoc]
  rw [this, Matrix.nonsing_inv_mul _ hd, Matrix.mul_nonsing_inv _ hd, Matrix.one_mul]

/-- **uniqueness of the normaliser**: two positive semidefinite `S`, `S'` with `S P S = 1 = S' P S'` coincide
(both are the inverse of the positive semidefinite square root of `P`) -/
theorem inv_sqrt_unique (P S S' : Matrix ι ι ℂ) (hPh : Pᴴ = P) (hS : S.PosSemidef) (hS' : S'.PosSemidef)
    (h : S * P * S = 1) (h' : S' * P * S' = 1) : S = S' := by
  -- R = P S is the inverse of S; it is PSD and R R = P
  have key : ∀ T : Matrix ι ι ℂ, T.PosSemidef → T * P * T = 1 →
      T * (P * T) = 1 ∧ (P * T) * T = 1 ∧ (P * T).PosSemidef ∧ (P * T) * (P * T) = P := by
    intro T hT hTPT
    have hs : ∑ _i : Unit, P = P := by simp
    have := bk_inverse_facts (fun _ : Unit => P) T hT.isHermitian.eq (fun _ => hPh) (by rw [hs]; exact hTPT)
    rw [hs] at this
    obtain ⟨a, b, _, d⟩ := this
    refine ⟨a, b, ?_, d⟩
    have hinv : T⁻¹ = P * T := inv_eq_right_inv a
    rw [← hinv]; exact hT.inv
  obtain ⟨a, b, c, d⟩ := key S hS h
  obtain ⟨a', b', c', d'⟩ := key S' hS' h'
  have hR : P * S = P * S' := psd_sq_unique _ _ c c' (d.trans d'.symm)
  calc S = S * ((P * S') * S') := by rw [b', Matrix.mul_one]
    _ = (S * (P * S)) * S' := by rw [← hR]; simp only [Matrix.mul_assoc]
    _ = S' := by rw [a, Matrix.one_mul]

/-- success probability of the pretty good measurement in the form used by `barnum_knill` -/
theorem successProb_pgm (ρ : κ → Matrix ι ι ℂ) (p : κ → ℝ) (S : Matrix ι ι ℂ) :
    successProb ρ p (pgmOf ρ p S) = ∑ i, (((p i : ℂ) • ρ i) * (S * ((p i : ℂ) • ρ i) * S)).trace.re := by
  unfold successProb pgmOf
  refine Finset.sum_congr rfl (fun i _ => ?_)
  rw [Matrix.smul_mul, trace_smul]
  simp

omit [DecidableEq ι] in
theorem successProb_eq (ρ : κ → Matrix ι ι ℂ) (p : κ → ℝ) (M : κ → Matrix ι ι ℂ) :
    successProb ρ p M = ∑ i, (((p i : ℂ) • ρ i) * M i).trace.re := by
  unfold successProb
  refine Finset.sum_congr rfl (fun i _ => ?_)
  rw [Matrix.smul_mul, trace_smul]
  simp

/-- **Barnum–Knill in the vocabulary of the property**: every measurement `M` satisfies
`P(M)² ≤ P_pgm · Re tr(Σ pᵢρᵢ)` -/
theorem barnum_knill_successProb (ρ : κ → Matrix ι ι ℂ) (p : κ → ℝ) (S : Matrix ι ι ℂ) (M : κ → Matrix ι ι ℂ)
    (hρ : ∀ i, (ρ i).PosSemidef) (hp : ∀ i, 0 ≤ p i) (hS : S.PosSemidef)
    (hSPS : S * (∑ i, (p i : ℂ) • ρ i) * S = 1) (hM : IsPOVM M) :
    successProb ρ p M ^ 2 ≤ successProb ρ p (pgmOf ρ p S) * (∑ i, (p i : ℂ) • ρ i).trace.re := by
  rw [successProb_pgm, successProb_eq]
  exact barnum_knill (fun i => (p i : ℂ) • ρ i) M S (fun i => (hρ i).smul (by exact_mod_cast hp i)) hS hSPS hM

omit [DecidableEq ι] in
/-- for a normalised ensemble (`tr ρᵢ = 1`, `Σ pᵢ = 1`) the average state has trace one -/
theorem trace_average_state (ρ : κ → Matrix ι ι ℂ) (p : κ → ℝ) (hρ : ∀ i, (ρ i).trace = 1) (hp : ∑ i, p i = 1) :
    (∑ i, (p i : ℂ) • ρ i).trace.re = 1 := by
  rw [trace_sum]
  simp_rw [trace_smul, hρ, smul_eq_mul, mul_one]
  rw [← Complex.ofReal_sum, hp]; simp

/-- **`P_opt² ≤ P_pgm ≤ P_opt`** for every least upper bound `opt` of the attainable success probabilities -/
theorem pgm_between (ρ : κ → Matrix ι ι ℂ) (p : κ → ℝ) (S : Matrix ι ι ℂ)
    (hρ : ∀ i, (ρ i).PosSemidef) (hp : ∀ i, 0 ≤ p i) (hS : S.PosSemidef)
    (hSPS : S * (∑ i, (p i : ℂ) • ρ i) * S = 1) (htr : (∑ i, (p i : ℂ) • ρ i).trace.re = 1)
    (opt : ℝ) (hopt : IsLUB (successValues ρ p) opt) :
    opt ^ 2 ≤ successProb ρ p (pgmOf ρ p S) ∧ successProb ρ p (pgmOf ρ p S) ≤ opt := by
  have hpovm : IsPOVM (pgmOf ρ p S) := pgm_is_povm ρ p S hρ hp hS.isHermitian.eq hSPS
  have hmem : successProb ρ p (pgmOf ρ p S) ∈ successValues ρ p := ⟨_, hpovm, rfl⟩
  have hle : successProb ρ p (pgmOf ρ p S) ≤ opt := hopt.1 hmem
  have hbk : ∀ M, IsPOVM M → successProb ρ p M ^ 2 ≤ successProb ρ p (pgmOf ρ p S) := by
    intro M hM
    have := barnum_knill_successProb ρ p S M hρ hp hS hSPS hM
    rwa [htr, mul_one] at this
  have hpg0 : 0 ≤ successProb ρ p (pgmOf ρ p S) := (sq_nonneg _).trans (hbk _ hpovm)
  refine ⟨?_, hle⟩
  have hub : opt ≤ Real.sqrt (successProb ρ p (pgmOf ρ p S)) := by
    apply hopt.2
    rintro v ⟨M, hM, rfl⟩
    exact Real.le_sqrt_of_sq_le (hbk M hM)
  have h0 : 0 ≤ opt := hpg0.trans hle
  calc opt ^ 2 ≤ Real.sqrt (successProb ρ p (pgmOf ρ p S)) ^ 2 := pow_le_pow_left₀ h0 hub 2
    _ = successProb ρ p (pgmOf ρ p S) := Real.sq_sqrt hpg0

end Toq.Rand
