import Toq.Proofs.Xor
/-!
# `XORGame.__init__` accepts every XOR game (C08)

The guards (`xorInit`) reject only on a size mismatch, an entry below `-tol`, or a total further than `tol` from 1.
-/

namespace Toq.Xor

theorem floatEps_pos : 0 < floatEps := by decide +kernel

theorem xorTol_default_nonneg (q0 q1 : Nat) : 0 ≤ xorTol q0 q1 none := by
  unfold xorTol
  have h0 : (0 : Rat) ≤ (q0 : Rat) := Nat.cast_nonneg _
  have h1 : (0 : Rat) ≤ (q1 : Rat) := Nat.cast_nonneg _
  exact mul_nonneg (mul_nonneg floatEps_pos.le (mul_nonneg h0 h0)) (mul_nonneg h1 h1)

/-- `-min ≤ t` iff every entry is at least `-t` -/
theorem negMin_le_iff (q0 q1 : Nat) (h0 : 0 < q0) (h1 : 0 < q1) (prob : Nat → Nat → Rat) (t : Rat) :
    negMin q0 q1 prob ≤ t ↔ ∀ x y, x < q0 → y < q1 → -t ≤ prob x y := by
  unfold negMin
  constructor
  · intro h x y hx hy
    have hk : x * q1 + y ≤ q0 * q1 - 1 := by
      have : x * q1 + y < q0 * q1 := by
        calc x * q1 + y < x * q1 + q1 := by omega
          _ = (x + 1) * q1 := by ring
          _ ≤ q0 * q1 := Nat.mul_le_mul_right _ hx
      omega
    have := le_trans (le_maxUpTo (fun k => -prob (k / q1) (k % q1)) _ _ hk) h
    rw [Nat.add_comm, Nat.add_mul_div_right _ _ h1, Nat.div_eq_of_lt hy, Nat.zero_add,
      Nat.add_mul_mod_self_right, Nat.mod_eq_of_lt hy] at this
    linarith
  · intro h
    apply maxUpTo_le
    intro k hk
    have hpos : 0 < q0 * q1 := Nat.mul_pos h0 h1
    have hx : k / q1 < q0 := by
      rw [Nat.div_lt_iff_lt_mul h1]; omega
    have := h (k / q1) (k % q1) hx (Nat.mod_lt _ h1)
    linarith

/-- the constructor accepts iff the sizes agree, no entry is below `-tol` and the total is within `tol` of 1 -/
theorem xorInit_ok_iff (q0 q1 p0 p1 : Nat) (h0 : 0 < q0) (h1 : 0 < q1) (prob : Nat → Nat → Rat) (tol : Option Rat) :
    xorInit q0 q1 p0 p1 prob tol = .ok (xorTol q0 q1 tol) ↔
      (q0 = p0 ∧ q1 = p1) ∧ (∀ x y, x < q0 → y < q1 → -(xorTol q0 q1 tol) ≤ prob x y) ∧
        |totalProb q0 q1 prob - 1| ≤ xorTol q0 q1 tol := by
  have habs : ∀ d : Rat, (if d < 0 then -d else d) = |d| := fun d => by
    split
    · next h => rw [abs_of_neg h]
    · next h => rw [abs_of_nonneg (le_of_not_gt h)]
  unfold xorInit
  simp only [habs]
  by_cases hs : (q0, q1) = (p0, p1)
  · have hs' : q0 = p0 ∧ q1 = p1 := by simpa using hs
    simp only [ne_eq, hs, not_true_eq_false, if_false]
    by_cases hn : negMin q0 q1 prob > xorTol q0 q1 tol
    · simp only [hn, if_true]
      constructor
      · intro h; exact absurd h (by simp)
      · rintro ⟨-, h, -⟩
        exact absurd ((negMin_le_iff q0 q1 h0 h1 prob _).mpr h) (not_le.mpr hn)
    · simp only [hn, if_false]
      have hn' := (negMin_le_iff q0 q1 h0 h1 prob _).mp (le_of_not_gt hn)
      by_cases ht : |totalProb q0 q1 prob - 1| > xorTol q0 q1 tol
      · simp only [ht, if_true]
        constructor
        · intro h; exact absurd h (by simp)
        · rintro ⟨-, -, h⟩; exact absurd h (not_le.mpr ht)
      · simp only [ht, if_false, true_iff]
        exact ⟨hs', hn', le_of_not_gt ht⟩
  · simp only [ne_eq, hs, not_false_eq_true, if_true]
    constructor
    · intro h; exact absurd h (by simp)
    · rintro ⟨⟨rfl, rfl⟩, -, -⟩; exact absurd rfl hs

/-- every XOR game (non-negative entries summing to 1, predicate of the same shape) is accepted, with the default tolerance
    and with every given tolerance `t ≥ 0` -/
theorem xorInit_accepts (q0 q1 : Nat) (h0 : 0 < q0) (h1 : 0 < q1) (prob : Nat → Nat → Rat) (tol : Option Rat)
    (htol : ∀ t, tol = some t → 0 ≤ t) (hp : ∀ x y, x < q0 → y < q1 → 0 ≤ prob x y) (hs : totalProb q0 q1 prob = 1) :
    xorInit q0 q1 q0 q1 prob tol = .ok (xorTol q0 q1 tol) := by
  have ht : 0 ≤ xorTol q0 q1 tol := by
    cases tol with
    | none => exact xorTol_default_nonneg q0 q1
    | some t => exact htol t rfl
  rw [xorInit_ok_iff q0 q1 q0 q1 h0 h1]
  refine ⟨⟨rfl, rfl⟩, fun x y hx hy => le_trans (by linarith) (hp x y hx hy), ?_⟩
  rw [hs, sub_self, abs_zero]; exact ht

end Toq.Xor
