import Toq.Model.EntangleSkDps
import Toq.Proofs.EntangleSk
/-!
# Soundness of the two-copy (Bose-symmetric, PPT) upper certificate for the S(1) operator norm (C14)

For a product vector `x ⊗ y` the vector `w = (x ⊗ y) ⊗ y` on `(A B₁) | B₂` is invariant under the exchange `σ` of the two copies, hence
`⟨w|Π M Π|w⟩ = ⟨w|M|w⟩` and `⟨w|(1 − Π)|w⟩ = 0`; `w` is a product vector of the cut `(A B₁) | B₂`, hence `⟨w|Y^{T_{B₂}}|w⟩ ≥ 0` for `Y ⪰ 0`; and
`⟨w|X ⊗ 1|w⟩ = ⟨x⊗y|X|x⊗y⟩·‖y‖²`.  So `Π (lam·1 − X ⊗ 1 − Y^Γ) Π + t (1 − Π) ⪰ 0` forces `⟨x⊗y|X|x⊗y⟩ ≤ lam ‖x⊗y‖²`
(`expect_le_of_dps_dual`).  The bridge lemmas read the executable `symBB` / `slackDps` on pairs `Fin (dA·dB) × Fin dB`.
-/

open Matrix
open scoped ComplexOrder MatrixOrder Kronecker

set_option linter.unusedSectionVars false

namespace Toq.Entangle
open Toq.Sep

section Abstract
variable {ι : Type} [Fintype ι] [DecidableEq ι]

/-- `⟨w|M|w⟩` -/
def quad (M : Matrix ι ι ℂ) (w : ι → ℂ) : ℂ := star w ⬝ᵥ (M *ᵥ w)

theorem expect_eq_quad_re (M : Matrix ι ι ℂ) (w : ι → ℂ) : expect M w = (quad M w).re := rfl

theorem quad_add (M N : Matrix ι ι ℂ) (w : ι → ℂ) : quad (M + N) w = quad M w + quad N w := by
  unfold quad; rw [Matrix.add_mulVec, dotProduct_add]

theorem quad_sub (M N : Matrix ι ι ℂ) (w : ι → ℂ) : quad (M - N) w = quad M w - quad N w := by
  unfold quad; rw [Matrix.sub_mulVec, dotProduct_sub]

theorem quad_smul (c : ℂ) (M : Matrix ι ι ℂ) (w : ι → ℂ) : quad (c • M) w = c * quad M w := by
  unfold quad; rw [Matrix.smul_mulVec, dotProduct_smul, smul_eq_mul]

theorem quad_one (w : ι → ℂ) : quad (1 : Matrix ι ι ℂ) w = ((vnorm2 w : ℝ) : ℂ) := by
  unfold quad; rw [Matrix.one_mulVec, vnorm2_eq_nsq, star_dotProduct_self]

/-- relabelling rows and columns by bijections that leave `w` invariant does not change `⟨w|M|w⟩` -/
theorem quad_submatrix_of_invariant (M : Matrix ι ι ℂ) (σ τ : ι ≃ ι) (w : ι → ℂ)
    (hσ : ∀ i, w (σ i) = w i) (hτ : ∀ i, w (τ i) = w i) : quad (M.submatrix σ τ) w = quad M w := by
  unfold quad
  simp only [dotProduct, mulVec, Matrix.submatrix_apply, Pi.star_apply]
  calc ∑ i, star (w i) * ∑ j, M (σ i) (τ j) * w j
      = ∑ i, star (w (σ i)) * ∑ j, M (σ i) (τ j) * w (τ j) := by simp only [hσ, hτ]
    _ = ∑ i, star (w i) * ∑ j, M i (τ j) * w (τ j) :=
        Equiv.sum_comp σ (fun i => star (w i) * ∑ j, M i (τ j) * w (τ j))
    _ = ∑ i, star (w i) * ∑ j, M i j * w j := by
        refine Finset.sum_congr rfl fun i _ => ?_
        rw [Equiv.sum_comp τ (fun j => M i j * w j)]

/-- `Π M Π` for the projector `Π = (1 + P_σ)/2` of an involutive relabelling `σ` -/
noncomputable def symC (σ : ι ≃ ι) (M : Matrix ι ι ℂ) : Matrix ι ι ℂ :=
  (1 / 4 : ℂ) • (M + M.submatrix σ (Equiv.refl ι) + M.submatrix (Equiv.refl ι) σ + M.submatrix σ σ)

theorem quad_symC (σ : ι ≃ ι) (M : Matrix ι ι ℂ) (w : ι → ℂ) (hσ : ∀ i, w (σ i) = w i) :
    quad (symC σ M) w = quad M w := by
  have h0 : ∀ i, w ((Equiv.refl ι) i) = w i := fun _ => rfl
  unfold symC
  rw [quad_smul, quad_add, quad_add, quad_add, quad_submatrix_of_invariant M σ _ w hσ h0,
    quad_submatrix_of_invariant M _ σ w h0 hσ, quad_submatrix_of_invariant M σ σ w hσ hσ]
  ring

end Abstract

section Pairs
variable {P n : Type} [Fintype P] [Fintype n] [DecidableEq P] [DecidableEq n]

theorem vnorm2_tprod (u : P → ℂ) (y : n → ℂ) : vnorm2 (tprod u y) = vnorm2 u * vnorm2 y := by
  unfold vnorm2 tprod
  rw [Fintype.sum_prod_type, Finset.sum_mul_sum]
  refine Finset.sum_congr rfl fun a _ => Finset.sum_congr rfl fun b _ => ?_
  exact Complex.normSq_mul _ _

/-- `⟨u⊗y|X ⊗ 1|u⊗y⟩ = ⟨u|X|u⟩·‖y‖²` -/
theorem expect_kron_one_tprod (X : Matrix P P ℂ) (u : P → ℂ) (y : n → ℂ) :
    expect (X ⊗ₖ (1 : Matrix n n ℂ)) (tprod u y) = expect X u * vnorm2 y := by
  rw [expect_eq_trace, expect_eq_trace, ketbra_tprod, ← Matrix.mul_kronecker_mul, Matrix.trace_kronecker, Matrix.one_mul,
    ← vnorm2_eq_trace, Complex.re_mul_ofReal]

/-- `⟨u⊗y|Y^Γ|u⊗y⟩ ≥ 0` for `Y ⪰ 0` -/
theorem expect_pT_tprod_nonneg (Y : Matrix (P × n) (P × n) ℂ) (hY : Y.PosSemidef) (u : P → ℂ) (y : n → ℂ) :
    0 ≤ expect (pT Y) (tprod u y) := by
  have h2 := psd_trace_mul_nonneg hY (pT_ketbra_tprod_posSemidef u y)
  rw [← trace_pT_mul] at h2
  rwa [expect_eq_trace]

/-- **Weak duality of the two-copy relaxation.**  `σ` is any relabelling of `P × n` that leaves `u ⊗ y` invariant (for `P = A B₁`, `n = B₂`,
    `u = x ⊗ y`: the exchange of the two copies).  `Y ⪰ 0` and `Π (λ·1 − X ⊗ 1 − Y^Γ − t·1) Π + t·1 ⪰ 0` give `⟨u|X|u⟩‖y‖² ≤ λ‖u‖²‖y‖²`. -/
theorem expect_le_of_dps_dual (X : Matrix P P ℂ) (Y : Matrix (P × n) (P × n) ℂ) (lam t : ℝ) (σ : P × n ≃ P × n)
    (hY : Y.PosSemidef)
    (hS : (symC σ ((lam : ℂ) • (1 : Matrix (P × n) (P × n) ℂ) - X ⊗ₖ (1 : Matrix n n ℂ) - pT Y
            - (t : ℂ) • (1 : Matrix (P × n) (P × n) ℂ)) + (t : ℂ) • (1 : Matrix (P × n) (P × n) ℂ)).PosSemidef)
    (u : P → ℂ) (y : n → ℂ) (hσ : ∀ i, tprod u y (σ i) = tprod u y i) :
    expect X u * vnorm2 y ≤ lam * (vnorm2 u * vnorm2 y) := by
  set w := tprod u y with hw
  have h0 : 0 ≤ (quad _ w).re := (Complex.nonneg_iff.mp (hS.dotProduct_mulVec_nonneg w)).1
  rw [quad_add, quad_symC σ _ w hσ, quad_sub, quad_sub, quad_sub, quad_smul, quad_smul, quad_one] at h0
  have e : ((lam : ℂ) * ((vnorm2 w : ℝ) : ℂ) - quad (X ⊗ₖ (1 : Matrix n n ℂ)) w - quad (pT Y) w
      - (t : ℂ) * ((vnorm2 w : ℝ) : ℂ) + (t : ℂ) * ((vnorm2 w : ℝ) : ℂ)).re
      = lam * vnorm2 w - expect (X ⊗ₖ (1 : Matrix n n ℂ)) w - expect (pT Y) w := by
    rw [expect_eq_quad_re, expect_eq_quad_re]
    simp only [Complex.add_re, Complex.sub_re, Complex.mul_re, Complex.ofReal_re, Complex.ofReal_im]
    ring
  rw [e, hw, expect_kron_one_tprod, vnorm2_tprod] at h0
  have h1 := expect_pT_tprod_nonneg Y hY u y
  linarith

end Pairs

/-! ### the executable checker on flat indices -/

section Flat
open EMat
variable {dA dB p q : Nat}

/-- the exchange of the two copies on pairs `(A B₁ flat, B₂)`: `((a,b),c) ↦ ((a,c),b)` -/
def swapE (dA dB : Nat) : Fin (dA * dB) × Fin dB ≃ Fin (dA * dB) × Fin dB where
  toFun pc := (pair (fstI pc.1) pc.2, sndI pc.1)
  invFun pc := (pair (fstI pc.1) pc.2, sndI pc.1)
  left_inv pc := by simp
  right_inv pc := by simp

@[simp] theorem swapE_apply (pp : Fin (dA * dB)) (c : Fin dB) : swapE dA dB (pp, c) = (pair (fstI pp) c, sndI pp) := rfl

theorem swapBB_pair (pp : Fin (dA * dB)) (c : Fin dB) :
    swapBB (pair pp c) = pair (pair (fstI pp) c) (sndI pp) := by
  simp [swapBB]

theorem unflat_symBB (M : EMat ((dA * dB) * dB) ((dA * dB) * dB)) :
    unflat (symBB M).toM = symC (swapE dA dB) (unflat M.toM) := by
  ext ⟨pp, c⟩ ⟨pp', c'⟩
  simp only [symBB, symC, unflat_apply, EMat.toM_apply, EMat.get_ofFn, swapBB_pair, QI.toC_smul, QI.toC_add, Matrix.smul_apply,
    Matrix.add_apply, Matrix.submatrix_apply, swapE_apply, Equiv.refl_apply, smul_eq_mul]
  norm_num

theorem unflat_dpsBody (X : EMat (dA * dB) (dA * dB)) (Y : EMat ((dA * dB) * dB) ((dA * dB) * dB)) (lam : Rat) :
    unflat (dpsBody X Y lam).toM
      = ((lam : ℝ) : ℂ) • (1 : Matrix (Fin (dA * dB) × Fin dB) (Fin (dA * dB) × Fin dB) ℂ)
        - X.toM ⊗ₖ (1 : Matrix (Fin dB) (Fin dB) ℂ) - pT (unflat Y.toM) := by
  unfold dpsBody
  rw [EMat.toM_sub, EMat.toM_sub, EMat.toM_scalar, unflat_sub, unflat_sub, unflat_smul, unflat_one, unflat_ptB, unflat_kron,
    EMat.toM_one]
  rfl

theorem unflat_slackDps (X : EMat (dA * dB) (dA * dB)) (Y : EMat ((dA * dB) * dB) ((dA * dB) * dB)) (lam t : Rat) :
    unflat (slackDps X Y lam t).toM
      = symC (swapE dA dB) (((lam : ℝ) : ℂ) • (1 : Matrix (Fin (dA * dB) × Fin dB) (Fin (dA * dB) × Fin dB) ℂ)
          - X.toM ⊗ₖ (1 : Matrix (Fin dB) (Fin dB) ℂ) - pT (unflat Y.toM)
          - ((t : ℝ) : ℂ) • (1 : Matrix (Fin (dA * dB) × Fin dB) (Fin (dA * dB) × Fin dB) ℂ))
        + ((t : ℝ) : ℂ) • (1 : Matrix (Fin (dA * dB) × Fin dB) (Fin (dA * dB) × Fin dB) ℂ) := by
  unfold slackDps
  rw [EMat.toM_add, unflat_add, unflat_symBB, EMat.toM_sub, unflat_sub, unflat_dpsBody, EMat.toM_scalar, unflat_smul, unflat_one]

theorem checkSkUpperDps_eq {X : EMat (dA * dB) (dA * dB)} {Y : EMat ((dA * dB) * dB) ((dA * dB) * dB)}
    {LY : EMat ((dA * dB) * dB) p} {lam t : Rat} {LS : EMat ((dA * dB) * dB) q} {hi : Rat}
    (h : checkSkUpperDps X Y LY lam t LS = some hi) :
    hi = lam ∧ psdCert Y LY = true ∧ psdCert (slackDps X Y lam t) LS = true := by
  unfold checkSkUpperDps at h
  split at h
  · next hc =>
    rw [Bool.and_eq_true] at hc
    exact ⟨(Option.some.inj h).symm, hc.1, hc.2⟩
  · exact absurd h (by simp)

/-- the flat vector of `x ⊗ y` -/
def flatProd (x : Fin dA → ℂ) (y : Fin dB → ℂ) : Fin (dA * dB) → ℂ := fun i => x (fstI i) * y (sndI i)

theorem flatV_flatProd (x : Fin dA → ℂ) (y : Fin dB → ℂ) : flatV (flatProd x y) = tprod x y := by
  ext ⟨a, b⟩
  simp [flatV, flatProd, tprod]

/-- `(x ⊗ y) ⊗ y` is invariant under the exchange of the two copies -/
theorem tprod_flatProd_swapE (x : Fin dA → ℂ) (y : Fin dB → ℂ) (i : Fin (dA * dB) × Fin dB) :
    tprod (flatProd x y) y (swapE dA dB i) = tprod (flatProd x y) y i := by
  obtain ⟨pp, c⟩ := i
  simp only [swapE_apply, tprod, flatProd, fstI_pair, sndI_pair]
  ring

/-- every product vector satisfies the bound of an accepted two-copy certificate -/
theorem expect_le_of_checkSkUpperDps {X : EMat (dA * dB) (dA * dB)} {Y : EMat ((dA * dB) * dB) ((dA * dB) * dB)}
    {LY : EMat ((dA * dB) * dB) p} {lam t : Rat} {LS : EMat ((dA * dB) * dB) q}
    (hY : psdCert Y LY = true) (hS : psdCert (slackDps X Y lam t) LS = true) (x : Fin dA → ℂ) (y : Fin dB → ℂ) :
    expect (unflat X.toM) (tprod x y) * vnorm2 y ≤ (lam : ℝ) * (vnorm2 (tprod x y) * vnorm2 y) := by
  have hYp := (unflat_posSemidef_iff _).mpr (psdCert_sound _ _ hY)
  have hSp := (unflat_posSemidef_iff _).mpr (psdCert_sound _ _ hS)
  rw [unflat_slackDps] at hSp
  have := expect_le_of_dps_dual X.toM (unflat Y.toM) (lam : ℝ) (t : ℝ) (swapE dA dB) hYp hSp (flatProd x y) y
    (tprod_flatProd_swapE x y)
  rwa [expect_flat, vnorm2_flat (flatProd x y), flatV_flatProd] at this

end Flat
end Toq.Entangle
