import Toq.Model.Games
import Toq.Spec.Games
import Toq.Proofs.Idx
import Mathlib.Algebra.Order.BigOperators.Group.Finset
import Mathlib.Algebra.BigOperators.Fin
/-! Helper lemmas for C07 (classical value enumeration, odometer, Kronecker chains, BCS tensors). -/

namespace Toq.Games
open Spec

/-! ### folds of the model as `Finset` sums / maxima -/

theorem rmax_eq_max (a b : ℚ) : rmax a b = max a b := by
  unfold rmax; rw [max_def]

theorem sumN_eq_sum (f : Nat → ℚ) : ∀ n, sumN n f = ∑ k : Fin n, f k
  | 0 => by simp [sumN]
  | n + 1 => by
    rw [Fin.sum_univ_castSucc]
    simp [sumN, sumN_eq_sum f n]

theorem le_amax1 (f : Nat → ℚ) : ∀ m k, k ≤ m → f k ≤ amax1 m f
  | 0, k, hk => by
    have : k = 0 := by omega
    subst this; exact le_refl _
  | m + 1, k, hk => by
    simp only [amax1, rmax_eq_max]
    by_cases h : k = m + 1
    · subst h; exact le_max_right _ _
    · exact le_trans (le_amax1 f m k (by omega)) (le_max_left _ _)

theorem amax1_attained (f : Nat → ℚ) : ∀ m, ∃ k, k ≤ m ∧ amax1 m f = f k
  | 0 => ⟨0, le_refl _, rfl⟩
  | m + 1 => by
    obtain ⟨k, hk, hv⟩ := amax1_attained f m
    simp only [amax1, rmax_eq_max]
    rcases le_total (amax1 m f) (f (m + 1)) with h | h
    · exact ⟨m + 1, le_refl _, max_eq_right h⟩
    · exact ⟨k, by omega, by rw [max_eq_left h, hv]⟩

/-- the running maximum that starts at `-inf` is attained and dominates, once there is one iteration -/
theorem maxIter_spec (f : Nat → ℚ) : ∀ n, 0 < n →
    ∃ v, maxIter n f = some v ∧ (∃ i, i < n ∧ v = f i) ∧ ∀ i, i < n → f i ≤ v
  | 0, h => by omega
  | 1, _ => by
    refine ⟨f 0, rfl, ⟨0, by omega, rfl⟩, ?_⟩
    intro i hi
    have : i = 0 := by omega
    subst this; exact le_refl _
  | n + 2, _ => by
    obtain ⟨v, hv, ⟨i, hi, hvi⟩, hle⟩ := maxIter_spec f (n + 1) (by omega)
    refine ⟨max v (f (n + 1)), ?_, ?_, ?_⟩
    · show maxNegInf (maxIter (n + 1) f) (f (n + 1)) = _
      rw [hv]; simp only [maxNegInf, rmax_eq_max]
    · rcases le_total v (f (n + 1)) with h | h
      · exact ⟨n + 1, by omega, max_eq_right h⟩
      · exact ⟨i, by omega, by rw [max_eq_left h, hvi]⟩
    · intro j hj
      by_cases h : j = n + 1
      · subst h; exact le_max_right _ _
      · exact le_trans (hle j (by omega)) (le_max_left _ _)

theorem prodN_const (d : Nat) : ∀ n, prodN (fun _ => d) n = d ^ n
  | 0 => rfl
  | n + 1 => by simp only [prodN, prodN_const d n, Nat.pow_succ]

/-- extension of an answer function on `Fin n` to a digit vector -/
def ext {n b : Nat} (g : Fin n → Fin b) : Nat → Nat := fun y => if h : y < n then (g ⟨y, h⟩).1 else 0

theorem ext_lt {n b : Nat} (g : Fin n → Fin b) (k : Nat) (hk : k < n) : ext g k < b := by
  unfold ext; rw [dif_pos hk]; exact (g ⟨k, hk⟩).2

theorem ext_val {n b : Nat} (g : Fin n → Fin b) (y : Fin n) : ext g y.1 = (g y).1 := by
  unfold ext; rw [dif_pos y.2]

/-! ### one iteration of `classical_value` -/

/-- the strategy sum in the `[a, x, b, y]` layout that `process_iteration` sees -/
def stratSum (nao nbo nai nbi : Nat) (t : Pred) (f : Fin nai → Fin nao) (g : Fin nbi → Fin nbo) : ℚ :=
  ∑ x : Fin nai, ∑ y : Fin nbi, t (f x) x (g y) y

theorem processIteration_eq (i nbo nbi : Nat) (t : Pred) (nao nai : Nat) :
    processIteration i nbo nbi t nao nai
      = ∑ x : Fin nai, amax1 (nao - 1)
          (fun a => ∑ y : Fin nbi, t a x (dec (fun _ => nbo) nbi i y) y) := by
  unfold processIteration
  simp only [sumN_eq_sum]

/-- every iteration value is the value of some strategy pair (best response of the other player) -/
theorem processIteration_attained (i nbo nbi : Nat) (t : Pred) (nao nai : Nat)
    (hao : 0 < nao) (hbo : 0 < nbo) :
    ∃ (f : Fin nai → Fin nao) (g : Fin nbi → Fin nbo),
      processIteration i nbo nbi t nao nai = stratSum nao nbo nai nbi t f g := by
  let g : Fin nbi → Fin nbo := fun y => ⟨dec (fun _ => nbo) nbi i y, dec_lt _ nbi i y y.2 hbo⟩
  have hch : ∀ x : Fin nai, ∃ k, k ≤ nao - 1 ∧
      amax1 (nao - 1) (fun a => ∑ y : Fin nbi, t a x (dec (fun _ => nbo) nbi i y) y)
        = ∑ y : Fin nbi, t k x (dec (fun _ => nbo) nbi i y) y :=
    fun x => amax1_attained _ _
  choose k hk hv using hch
  refine ⟨fun x => ⟨k x, by have := hk x; omega⟩, g, ?_⟩
  rw [processIteration_eq]
  unfold stratSum
  exact Finset.sum_congr rfl (fun x _ => hv x)

/-- the iteration whose counter encodes `g` dominates every pair `(f, g)` -/
theorem stratSum_le_processIteration (nbo nbi : Nat) (t : Pred) (nao nai : Nat)
    (f : Fin nai → Fin nao) (g : Fin nbi → Fin nbo) :
    stratSum nao nbo nai nbi t f g
      ≤ processIteration (enc (fun _ => nbo) (ext g) nbi) nbo nbi t nao nai := by
  rw [processIteration_eq]
  unfold stratSum
  apply Finset.sum_le_sum
  intro x _
  have hdig : ∀ y : Fin nbi, dec (fun _ => nbo) nbi (enc (fun _ => nbo) (ext g) nbi) y = (g y).1 := by
    intro y
    rw [dec_enc (fun _ => nbo) (ext g) nbi (fun k hk => ext_lt g k hk) y y.2, ext_val]
  have h1 : (∑ y : Fin nbi, t (f x) x (g y) y)
      = (fun a => ∑ y : Fin nbi, t a x (dec (fun _ => nbo) nbi (enc (fun _ => nbo) (ext g) nbi) y) y) (f x).1 := by
    simp only [hdig]
  rw [h1]
  apply le_amax1
  have := (f x).2
  omega

/-- **enumeration lemma**: if the iteration count reaches the number of strategies of the enumerated
    player, the running maximum is the maximum over all strategy pairs -/
theorem maxIter_processIteration (N nbo nbi : Nat) (t : Pred) (nao nai : Nat)
    (hao : 0 < nao) (hbo : 0 < nbo) (hN : nbo ^ nbi ≤ N) :
    ∃ v, maxIter N (fun i => processIteration i nbo nbi t nao nai) = some v ∧
      (∃ f g, stratSum nao nbo nai nbi t f g = v) ∧ ∀ f g, stratSum nao nbo nai nbi t f g ≤ v := by
  have hpos : 0 < N := lt_of_lt_of_le (Nat.pow_pos hbo) hN
  obtain ⟨v, hv, ⟨i, _, hvi⟩, hle⟩ := maxIter_spec (fun i => processIteration i nbo nbi t nao nai) N hpos
  refine ⟨v, hv, ?_, ?_⟩
  · obtain ⟨f, g, hfg⟩ := processIteration_attained i nbo nbi t nao nai hao hbo
    exact ⟨f, g, by rw [hvi]; exact hfg.symm⟩
  · intro f g
    have hlt : enc (fun _ => nbo) (ext g) nbi < N := by
      have := enc_lt (fun _ => nbo) (ext g) nbi (fun k hk => ext_lt g k hk)
      rw [prodN_const] at this
      omega
    exact le_trans (stratSum_le_processIteration nbo nbi t nao nai f g) (hle _ hlt)

/-- every value the loop can return (any positive iteration count) is the value of a strategy pair -/
theorem maxIter_processIteration_attained (N nbo nbi : Nat) (t : Pred) (nao nai : Nat)
    (hao : 0 < nao) (hbo : 0 < nbo) (hN : 0 < N) :
    ∃ v, maxIter N (fun i => processIteration i nbo nbi t nao nai) = some v ∧
      ∃ f g, stratSum nao nbo nai nbi t f g = v := by
  obtain ⟨v, hv, ⟨i, _, hvi⟩, _⟩ := maxIter_spec (fun i => processIteration i nbo nbi t nao nai) N hN
  obtain ⟨f, g, hfg⟩ := processIteration_attained i nbo nbi t nao nai hao hbo
  exact ⟨v, hv, f, g, by rw [hvi]; exact hfg.symm⟩

/-! ### the two layouts -/

theorem stratSum_noswap (ao bo ai bi : Nat) (prob : Prob) (pred : Pred)
    (f : Fin ai → Fin ao) (g : Fin bi → Fin bo) :
    stratSum ao bo ai bi (transpose0213 (scaleCopy prob pred)) f g = detValue ao bo ai bi prob pred f g := rfl

theorem stratSum_swap (ao bo ai bi : Nat) (prob : Prob) (pred : Pred)
    (f : Fin bi → Fin bo) (g : Fin ai → Fin ao) :
    stratSum bo ao bi ai (transpose0213 (transpose1032 (scaleCopy prob pred))) f g
      = detValue ao bo ai bi prob pred g f := by
  unfold stratSum detValue
  rw [Finset.sum_comm]
  rfl

theorem isMaxDet_eq (ao bo ai bi : Nat) [NeZero ao] [NeZero bo] (prob : Prob) (pred : Pred) (v : ℚ)
    (h : IsMaxDet ao bo ai bi prob pred v) : v = maxDetValue ao bo ai bi prob pred := by
  obtain ⟨⟨f, g, hfg⟩, hle⟩ := h
  unfold maxDetValue
  apply le_antisymm
  · rw [← hfg]
    exact Finset.le_sup' (fun fg : (Fin ai → Fin ao) × (Fin bi → Fin bo) =>
      detValue ao bo ai bi prob pred fg.1 fg.2) (Finset.mem_univ (f, g))
  · apply Finset.sup'_le
    intro fg _
    exact hle fg.1 fg.2

theorem maxDetValue_isMaxDet (ao bo ai bi : Nat) [NeZero ao] [NeZero bo] (prob : Prob) (pred : Pred) :
    IsMaxDet ao bo ai bi prob pred (maxDetValue ao bo ai bi prob pred) := by
  unfold maxDetValue
  constructor
  · obtain ⟨fg, _, h⟩ := Finset.exists_mem_eq_sup' (Finset.univ_nonempty)
      (fun fg : (Fin ai → Fin ao) × (Fin bi → Fin bo) => detValue ao bo ai bi prob pred fg.1 fg.2)
    exact ⟨fg.1, fg.2, h.symm⟩
  · intro f g
    exact Finset.le_sup' (fun fg : (Fin ai → Fin ao) × (Fin bi → Fin bo) =>
      detValue ao bo ai bi prob pred fg.1 fg.2) (Finset.mem_univ (f, g))

/-- `classical_value` (either iteration bound) returns the maximum over all strategy pairs whenever
    its iteration count reaches the number of strategies of the enumerated player -/
theorem classicalValueGen_isMaxDet (fixed : Bool) (ao bo ai bi : Nat) (prob : Prob) (pred : Pred)
    (hao : 0 < ao) (hbo : 0 < bo) (hc : fixed = true ∨ EnumComplete ao bo ai bi) :
    ∃ v, classicalValueGen fixed ao bo ai bi prob pred = some v ∧ IsMaxDet ao bo ai bi prob pred v := by
  unfold classicalValueGen
  by_cases hsw : ao ^ ai < bo ^ bi
  · simp only [hsw, decide_true, if_true]
    have hN : ao ^ ai ≤ (if fixed = true then ao ^ ai else bo ^ ai) := by
      rcases hc with h | h
      · simp [h]
      · unfold EnumComplete at h; rw [if_pos hsw] at h
        split <;> omega
    obtain ⟨v, hv, ⟨f, g, hfg⟩, hle⟩ := maxIter_processIteration _ ao ai
      (transpose0213 (transpose1032 (scaleCopy prob pred))) bo bi hbo hao hN
    refine ⟨v, hv, ⟨g, f, ?_⟩, ?_⟩
    · rw [← stratSum_swap]; exact hfg
    · intro f' g'
      rw [← stratSum_swap]; exact hle g' f'
  · simp only [hsw, decide_false, if_false, Bool.false_eq_true]
    have hN : bo ^ bi ≤ (if fixed = true then bo ^ bi else ao ^ bi) := by
      rcases hc with h | h
      · simp [h]
      · unfold EnumComplete at h; rw [if_neg hsw] at h
        split <;> omega
    obtain ⟨v, hv, ⟨f, g, hfg⟩, hle⟩ := maxIter_processIteration _ bo bi
      (transpose0213 (scaleCopy prob pred)) ao ai hao hbo hN
    refine ⟨v, hv, ⟨f, g, ?_⟩, ?_⟩
    · rw [← stratSum_noswap]; exact hfg
    · intro f' g'
      rw [← stratSum_noswap]; exact hle f' g'

/-- whatever `classical_value` returns (complete enumeration or not) is the value of some pair -/
theorem classicalValueGen_attained (fixed : Bool) (ao bo ai bi : Nat) (prob : Prob) (pred : Pred)
    (hao : 0 < ao) (hbo : 0 < bo) :
    ∃ v, classicalValueGen fixed ao bo ai bi prob pred = some v ∧
      ∃ f g, detValue ao bo ai bi prob pred f g = v := by
  unfold classicalValueGen
  by_cases hsw : ao ^ ai < bo ^ bi
  · simp only [hsw, decide_true, if_true]
    have hN : 0 < (if fixed = true then ao ^ ai else bo ^ ai) := by
      split
      · exact Nat.pow_pos hao
      · exact Nat.pow_pos hbo
    obtain ⟨v, hv, f, g, hfg⟩ := maxIter_processIteration_attained _ ao ai
      (transpose0213 (transpose1032 (scaleCopy prob pred))) bo bi hbo hao hN
    exact ⟨v, hv, g, f, by rw [← stratSum_swap]; exact hfg⟩
  · simp only [hsw, decide_false, if_false, Bool.false_eq_true]
    have hN : 0 < (if fixed = true then bo ^ bi else ao ^ bi) := by
      split
      · exact Nat.pow_pos hbo
      · exact Nat.pow_pos hao
    obtain ⟨v, hv, f, g, hfg⟩ := maxIter_processIteration_attained _ bo bi
      (transpose0213 (scaleCopy prob pred)) ao ai hao hbo hN
    exact ⟨v, hv, f, g, by rw [← stratSum_noswap]; exact hfg⟩

/-! ### the executable brute force is the specification -/

theorem detValueN_eq (ao bo ai bi : Nat) (prob : Prob) (pred : Pred) (F G : Nat → Nat)
    (f : Fin ai → Fin ao) (g : Fin bi → Fin bo) (hF : ∀ x : Fin ai, F x = (f x).1)
    (hG : ∀ y : Fin bi, G y = (g y).1) :
    detValueN ai bi prob pred F G = detValue ao bo ai bi prob pred f g := by
  unfold detValueN detValue
  simp only [sumN_eq_sum, hF, hG]

theorem maxDetBrute_isMaxDet (ao bo ai bi : Nat) (prob : Prob) (pred : Pred) (hao : 0 < ao) (hbo : 0 < bo) :
    ∃ v, maxDetBrute ao bo ai bi prob pred = some v ∧ IsMaxDet ao bo ai bi prob pred v := by
  unfold maxDetBrute
  have hA : 0 < ao ^ ai := Nat.pow_pos hao
  have hB : 0 < bo ^ bi := Nat.pow_pos hbo
  obtain ⟨v, hv, ⟨k, _, hvk⟩, hle⟩ := maxIter_spec (fun k =>
    detValueN ai bi prob pred (dec (fun _ => ao) ai (k / bo ^ bi)) (dec (fun _ => bo) bi (k % bo ^ bi)))
    (ao ^ ai * bo ^ bi) (Nat.mul_pos hA hB)
  refine ⟨v, hv, ?_, ?_⟩
  · refine ⟨fun x => ⟨dec (fun _ => ao) ai (k / bo ^ bi) x, dec_lt _ ai _ x x.2 hao⟩,
      fun y => ⟨dec (fun _ => bo) bi (k % bo ^ bi) y, dec_lt _ bi _ y y.2 hbo⟩, ?_⟩
    rw [hvk]
    exact (detValueN_eq ao bo ai bi prob pred _ _ _ _ (fun _ => rfl) (fun _ => rfl)).symm
  · intro f g
    have hf : enc (fun _ => ao) (ext f) ai < ao ^ ai := by
      have := enc_lt (fun _ => ao) (ext f) ai (fun k hk => ext_lt f k hk)
      rwa [prodN_const] at this
    have hg : enc (fun _ => bo) (ext g) bi < bo ^ bi := by
      have := enc_lt (fun _ => bo) (ext g) bi (fun k hk => ext_lt g k hk)
      rwa [prodN_const] at this
    have hk : enc (fun _ => ao) (ext f) ai * bo ^ bi + enc (fun _ => bo) (ext g) bi < ao ^ ai * bo ^ bi := by
      calc _ < enc (fun _ => ao) (ext f) ai * bo ^ bi + bo ^ bi := by omega
        _ = (enc (fun _ => ao) (ext f) ai + 1) * bo ^ bi := by rw [Nat.add_mul]; simp
        _ ≤ ao ^ ai * bo ^ bi := Nat.mul_le_mul_right _ hf
    have h := hle _ hk
    have hdiv : (enc (fun _ => ao) (ext f) ai * bo ^ bi + enc (fun _ => bo) (ext g) bi) / bo ^ bi
        = enc (fun _ => ao) (ext f) ai := by
      rw [Nat.add_comm, Nat.add_mul_div_right _ _ hB, Nat.div_eq_of_lt hg, Nat.zero_add]
    have hmod : (enc (fun _ => ao) (ext f) ai * bo ^ bi + enc (fun _ => bo) (ext g) bi) % bo ^ bi
        = enc (fun _ => bo) (ext g) bi := by
      rw [Nat.add_comm, Nat.add_mul_mod_self_right, Nat.mod_eq_of_lt hg]
    simp only [hdiv, hmod] at h
    rw [detValueN_eq ao bo ai bi prob pred _ _ f g
      (fun x => by rw [dec_enc _ _ _ (fun k hk => ext_lt f k hk) x x.2, ext_val])
      (fun y => by rw [dec_enc _ _ _ (fun k hk => ext_lt g k hk) y y.2, ext_val])] at h
    exact h

/-! ### bounds -/

theorem detValue_le_one (ao bo ai bi : Nat) (prob : Prob) (pred : Pred)
    (hp : IsDistribution ai bi prob) (hv : PredIn01 ao bo ai bi pred)
    (f : Fin ai → Fin ao) (g : Fin bi → Fin bo) : detValue ao bo ai bi prob pred f g ≤ 1 := by
  unfold detValue
  rw [← hp.sum_one]
  apply Finset.sum_le_sum; intro x _
  apply Finset.sum_le_sum; intro y _
  have h := (hv (f x) (g y) x y (f x).2 (g y).2 x.2 y.2).2
  have h0 := hp.nonneg x y x.2 y.2
  calc prob x y * pred (f x) (g y) x y ≤ prob x y * 1 := mul_le_mul_of_nonneg_left h h0
    _ = prob x y := mul_one _

theorem detValue_nonneg (ao bo ai bi : Nat) (prob : Prob) (pred : Pred)
    (hp : IsDistribution ai bi prob) (hv : PredIn01 ao bo ai bi pred)
    (f : Fin ai → Fin ao) (g : Fin bi → Fin bo) : 0 ≤ detValue ao bo ai bi prob pred f g := by
  unfold detValue
  apply Finset.sum_nonneg; intro x _
  apply Finset.sum_nonneg; intro y _
  exact mul_nonneg (hp.nonneg x y x.2 y.2) (hv (f x) (g y) x y (f x).2 (g y).2 x.2 y.2).1

/-! ### `update_odometer` -/

theorem setAt_same (v : Nat → Nat) (k a : Nat) : setAt v k a k = a := by simp [setAt]

theorem setAt_ne (v : Nat → Nat) (k a m : Nat) (h : m ≠ k) : setAt v k a m = v m := by simp [setAt, h]

theorem enc_setAt_ge (d v : Nat → Nat) (k a n : Nat) (h : n ≤ k) : enc d (setAt v k a) n = enc d v n :=
  enc_congr _ _ _ _ n (fun _ _ => rfl) (fun m hm => setAt_ne v k a m (by omega))

/-- the carry loop: digits end up in range, the code is reduced modulo the capacity, higher positions
    are untouched -/
theorem odoLoop_spec (d : Nat → Nat) (hd : ∀ k, 0 < d k) : ∀ j (v : Nat → Nat),
    (∀ k, k < j → v k < d k) → v j ≤ d j →
    (∀ k, k < j + 1 → odoLoop d (j + 1) v k < d k) ∧
    enc d (odoLoop d (j + 1) v) (j + 1) = enc d v (j + 1) % prodN d (j + 1) ∧
    ∀ k, j + 1 ≤ k → odoLoop d (j + 1) v k = v k
  | 0, v, _, hle => by
    by_cases hc : v 0 ≥ d 0
    · have hw : odoLoop d 1 v = setAt v 0 0 := by simp [odoLoop, hc]
      rw [hw]
      refine ⟨?_, ?_, ?_⟩
      · intro k hk
        have : k = 0 := by omega
        subst this; rw [setAt_same]; exact hd 0
      · have : v 0 = d 0 := by omega
        simp [enc, prodN, setAt_same, this]
      · intro k hk; exact setAt_ne _ _ _ _ (by omega)
    · have hw : odoLoop d 1 v = v := by simp [odoLoop, hc]
      rw [hw]
      refine ⟨?_, ?_, fun _ _ => rfl⟩
      · intro k hk
        have : k = 0 := by omega
        subst this; omega
      · have : v 0 < d 0 := by omega
        simp [enc, prodN, Nat.mod_eq_of_lt this]
  | j + 1, v, hlt, hle => by
    by_cases hc : v (j + 1) ≥ d (j + 1)
    · have hw : odoLoop d (j + 2) v
          = odoLoop d (j + 1) (setAt (setAt v (j + 1) 0) j (v j + 1)) := by
        simp [odoLoop, hc, setAt_ne]
      rw [hw]
      have hvj : v j < d j := hlt j (by omega)
      obtain ⟨h1, h2, h3⟩ := odoLoop_spec d hd j (setAt (setAt v (j + 1) 0) j (v j + 1))
        (fun k hk => by rw [setAt_ne _ _ _ _ (by omega), setAt_ne _ _ _ _ (by omega)]; exact hlt k (by omega))
        (by rw [setAt_same]; omega)
      have hlast : odoLoop d (j + 1) (setAt (setAt v (j + 1) 0) j (v j + 1)) (j + 1) = 0 := by
        rw [h3 (j + 1) (le_refl _), setAt_ne _ _ _ _ (by omega), setAt_same]
      refine ⟨?_, ?_, ?_⟩
      · intro k hk
        by_cases hk' : k = j + 1
        · subst hk'; rw [hlast]; exact hd _
        · exact h1 k (by omega)
      · have hv : v (j + 1) = d (j + 1) := by omega
        have e2 : enc d (setAt (setAt v (j + 1) 0) j (v j + 1)) (j + 1) = enc d v (j + 1) + 1 := by
          show enc d _ j * d j + setAt _ j (v j + 1) j = enc d v j * d j + v j + 1
          rw [setAt_same, enc_setAt_ge _ _ _ _ _ (le_refl _), enc_setAt_ge _ _ _ _ _ (by omega)]
          omega
        show enc d _ (j + 1) * d (j + 1) + _ = (enc d v (j + 1) * d (j + 1) + v (j + 1)) % (prodN d (j + 1) * d (j + 1))
        rw [hlast, h2, e2, hv]
        have : enc d v (j + 1) * d (j + 1) + d (j + 1) = (enc d v (j + 1) + 1) * d (j + 1) := by
          rw [Nat.add_mul]; simp
        rw [this, Nat.mul_mod_mul_right]
        simp
      · intro k hk
        rw [h3 k (by omega), setAt_ne _ _ _ _ (by omega), setAt_ne _ _ _ _ (by omega)]
    · have hw : odoLoop d (j + 2) v = v := by simp [odoLoop, hc]
      rw [hw]
      have hall : ∀ k, k < j + 2 → v k < d k := by
        intro k hk
        by_cases hk' : k = j + 1
        · subst hk'; omega
        · exact hlt k (by omega)
      exact ⟨hall, (Nat.mod_eq_of_lt (enc_lt d v (j + 2) hall)).symm, fun _ _ => rfl⟩

/-- one `update_odometer` call adds one to the code, modulo the capacity -/
theorem updateOdometer_spec (d : Nat → Nat) (hd : ∀ k, 0 < d k) (n : Nat) (hn : 0 < n) (v : Nat → Nat)
    (hv : ∀ k, k < n → v k < d k) :
    (∀ k, k < n → updateOdometer n v d k < d k) ∧
    enc d (updateOdometer n v d) n = (enc d v n + 1) % prodN d n := by
  obtain ⟨m, rfl⟩ : ∃ m, n = m + 1 := ⟨n - 1, by omega⟩
  have hu : updateOdometer (m + 1) v d = odoLoop d (m + 1) (setAt v m (v m + 1)) := by
    simp [updateOdometer]
  rw [hu]
  obtain ⟨h1, h2, _⟩ := odoLoop_spec d hd m (setAt v m (v m + 1))
    (fun k hk => by rw [setAt_ne _ _ _ _ (by omega)]; exact hv k (by omega))
    (by rw [setAt_same]; have := hv m (by omega); omega)
  refine ⟨h1, ?_⟩
  rw [h2]
  congr 1
  show enc d _ m * d m + setAt v m (v m + 1) m = enc d v m * d m + v m + 1
  rw [setAt_same, enc_setAt_ge _ _ _ _ _ (le_refl _)]
  omega

theorem fnOfList_listOfFn (n : Nat) (f : Nat → Nat) (k : Nat) (hk : k < n) : (fnOfList (listOfFn n f)) k = f k := by
  simp [fnOfList, listOfFn, hk]

theorem iterOdo_zero (n : Nat) (d : Nat → Nat) (k : Nat) : iterOdo n d 0 k = 0 := by
  simp only [iterOdo, iterOdoL, fnOfList]
  by_cases hk : k < n
  · simp [List.getD, hk]
  · simp [List.getD, hk]

theorem iterOdo_succ (n : Nat) (d : Nat → Nat) (i k : Nat) (hk : k < n) :
    iterOdo n d (i + 1) k = updateOdometer n (iterOdo n d i) d k :=
  fnOfList_listOfFn n _ k hk

theorem iterOdo_spec (d : Nat → Nat) (hd : ∀ k, 0 < d k) (n : Nat) (hn : 0 < n) : ∀ i,
    (∀ k, k < n → iterOdo n d i k < d k) ∧ enc d (iterOdo n d i) n = i % prodN d n
  | 0 => by
    refine ⟨fun k _ => by rw [iterOdo_zero]; exact hd k, ?_⟩
    have : ∀ m, enc d (fun _ => 0) m = 0 := by
      intro m; induction m with
      | zero => rfl
      | succ m ih => simp [enc, ih]
    rw [enc_congr d d _ (fun _ => 0) n (fun _ _ => rfl) (fun k _ => iterOdo_zero n d k), this, Nat.zero_mod]
  | i + 1 => by
    obtain ⟨h1, h2⟩ := iterOdo_spec d hd n hn i
    obtain ⟨h3, h4⟩ := updateOdometer_spec d hd n hn (iterOdo n d i) h1
    have hf : ∀ k, k < n → iterOdo n d (i + 1) k = updateOdometer n (iterOdo n d i) d k :=
      fun k hk => iterOdo_succ n d i k hk
    refine ⟨fun k hk => by rw [hf k hk]; exact h3 k hk, ?_⟩
    rw [enc_congr d d _ _ n (fun _ _ => rfl) hf, h4, h2, Nat.mod_add_mod]

/-- after `i` updates from zero the odometer shows the digits of `i` (modulo the capacity) -/
theorem iterOdo_eq_dec (d : Nat → Nat) (hd : ∀ k, 0 < d k) (n : Nat) (i k : Nat) (hk : k < n) :
    iterOdo n d i k = dec d n (i % prodN d n) k := by
  obtain ⟨h1, h2⟩ := iterOdo_spec d hd n (by omega) i
  rw [← h2, dec_enc d _ n h1 k hk]

/-! ### Kronecker chains -/

theorem div_mod_digit (E r a : Nat) (ha : a < r) : (E * r + a) / r = E ∧ (E * r + a) % r = a := by
  have hr : 0 < r := by omega
  constructor
  · rw [Nat.add_comm, Nat.add_mul_div_right _ _ hr, Nat.div_eq_of_lt ha, Nat.zero_add]
  · rw [Nat.add_comm, Nat.add_mul_mod_self_right, Nat.mod_eq_of_lt ha]

theorem kronChain_enc (r c : Nat) (M : Nat → Nat → Nat → ℚ) (a b : Nat → Nat) : ∀ m,
    (∀ k, k ≤ m → a k < r) → (∀ k, k ≤ m → b k < c) →
    kronChain r c M m (enc (fun _ => r) a (m + 1)) (enc (fun _ => c) b (m + 1))
      = prodFn (m + 1) (fun k => M k (a k) (b k))
  | 0, _, _ => by simp [kronChain, enc, prodFn]
  | m + 1, ha, hb => by
    have ih := kronChain_enc r c M a b m (fun k hk => ha k (by omega)) (fun k hk => hb k (by omega))
    show kron r c (kronChain r c M m) (M (m + 1))
        (enc (fun _ => r) a (m + 1) * r + a (m + 1)) (enc (fun _ => c) b (m + 1) * c + b (m + 1)) = _
    obtain ⟨e1, e2⟩ := div_mod_digit (enc (fun _ => r) a (m + 1)) r (a (m + 1)) (ha _ (le_refl _))
    obtain ⟨e3, e4⟩ := div_mod_digit (enc (fun _ => c) b (m + 1)) c (b (m + 1)) (hb _ (le_refl _))
    unfold kron
    rw [e1, e2, e3, e4, ih]
    rfl

theorem kron_apply (r c : Nat) (A B : Nat → Nat → ℚ) (i j : Nat) :
    kron r c A B i j = A (i / r) (j / c) * B (i % r) (j % c) := rfl

theorem enc_split (d : Nat) (x : Nat → Nat) (m : Nat) : ∀ n,
    enc (fun _ => d) x (m + n) = enc (fun _ => d) x m * d ^ n + enc (fun _ => d) (fun k => x (m + k)) n
  | 0 => by simp [enc]
  | n + 1 => by
    show enc (fun _ => d) x (m + n) * d + x (m + n) = _
    rw [enc_split d x m n]
    simp only [enc, Nat.pow_succ, Nat.add_mul, Nat.mul_assoc, Nat.add_assoc]

theorem prodFn_split (f : Nat → ℚ) (m : Nat) : ∀ n,
    prodFn (m + n) f = prodFn m f * prodFn n (fun k => f (m + k))
  | 0 => by simp [prodFn]
  | n + 1 => by
    show prodFn (m + n) f * f (m + n) = _
    rw [prodFn_split f m n]
    simp only [prodFn, mul_assoc]

theorem enc_const_lt (d : Nat) (x : Nat → Nat) (n : Nat) (h : ∀ k, k < n → x k < d) :
    enc (fun _ => d) x n < d ^ n := by
  have := enc_lt (fun _ => d) x n h
  rwa [prodN_const] at this

/-- `np.kron(T, T)` at a pair of `2h`-digit codes, when `T` has the product form on `h`-digit codes -/
theorem kron_self_enc (r c h : Nat) (M : Nat → Nat → ℚ) (T : Nat → Nat → ℚ)
    (hT : ∀ x y : Nat → Nat, (∀ k, k < h → x k < r) → (∀ k, k < h → y k < c) →
      T (enc (fun _ => r) x h) (enc (fun _ => c) y h) = prodFn h (fun k => M (x k) (y k)))
    (x y : Nat → Nat) (hx : ∀ k, k < h + h → x k < r) (hy : ∀ k, k < h + h → y k < c) :
    kron (r ^ h) (c ^ h) T T (enc (fun _ => r) x (h + h)) (enc (fun _ => c) y (h + h))
      = prodFn (h + h) (fun k => M (x k) (y k)) := by
  unfold kron
  rw [enc_split r x h h, enc_split c y h h]
  obtain ⟨e1, e2⟩ := div_mod_digit (enc (fun _ => r) x h) (r ^ h) _
    (enc_const_lt r (fun k => x (h + k)) h (fun k hk => hx _ (by omega)))
  obtain ⟨e3, e4⟩ := div_mod_digit (enc (fun _ => c) y h) (c ^ h) _
    (enc_const_lt c (fun k => y (h + k)) h (fun k hk => hy _ (by omega)))
  rw [e1, e2, e3, e4, hT x y (fun k hk => hx k (by omega)) (fun k hk => hy k (by omega)),
    hT _ _ (fun k hk => hx _ (by omega)) (fun k hk => hy _ (by omega)), prodFn_split _ h h]

/-- `fast_exp(M, q)` is the `q`-fold Kronecker power, entry by entry -/
theorem fastExp_enc (r c : Nat) (M : Nat → Nat → ℚ) : ∀ q, 0 < q → ∀ x y : Nat → Nat,
    (∀ k, k < q → x k < r) → (∀ k, k < q → y k < c) →
    fastExp r c M q (enc (fun _ => r) x q) (enc (fun _ => c) y q) = prodFn q (fun k => M (x k) (y k)) := by
  intro q
  induction q using Nat.strong_induction_on with
  | _ q ih =>
    intro hq x y hx hy
    rw [fastExp]
    by_cases h1 : q ≤ 1
    · have : q = 1 := by omega
      subst this
      simp [enc, prodFn]
    · rw [dif_neg h1]
      obtain ⟨h, hcase⟩ : ∃ h, q = h + h ∨ q = 1 + (h + h) := ⟨q / 2, by omega⟩
      rcases hcase with rfl | rfl
      · have e : (h + h) / 2 = h := by omega
        have e' : ¬ ((h + h) % 2 = 1) := by omega
        simp only [e, e', if_false]
        exact kron_self_enc r c h M _ (ih h (by omega) (by omega)) x y hx hy
      · have e : (1 + (h + h)) / 2 = h := by omega
        have e' : (1 + (h + h)) % 2 = 1 := by omega
        simp only [e, e', if_true, Nat.two_mul]
        rw [enc_split r x 1, enc_split c y 1]
        obtain ⟨e1, e2⟩ := div_mod_digit (enc (fun _ => r) x 1) (r ^ (h + h)) _
          (enc_const_lt r (fun k => x (1 + k)) (h + h) (fun k hk => hx _ (by omega)))
        obtain ⟨e3, e4⟩ := div_mod_digit (enc (fun _ => c) y 1) (c ^ (h + h)) _
          (enc_const_lt c (fun k => y (1 + k)) (h + h) (fun k hk => hy _ (by omega)))
        rw [kron_apply, e1, e2, e3, e4,
          kron_self_enc r c h M _ (ih h (by omega) (by omega)) _ _
            (fun k hk => hx _ (by omega)) (fun k hk => hy _ (by omega)),
          prodFn_split _ 1]
        simp [enc, prodFn]

/-- the `reps` branch writes, at the codes of digit vectors, the product of the factors' entries -/
theorem productPred_enc (ao bo ai bi m : Nat) (pred : Pred) (a b x y : Nat → Nat)
    (ha : ∀ k, k ≤ m → a k < ao) (hb : ∀ k, k ≤ m → b k < bo)
    (hx : ∀ k, k ≤ m → x k < ai) (hy : ∀ k, k ≤ m → y k < bi) :
    productPred ao bo ai bi (m + 1) pred (enc (fun _ => ao) a (m + 1)) (enc (fun _ => bo) b (m + 1))
        (enc (fun _ => ai) x (m + 1)) (enc (fun _ => bi) y (m + 1))
      = prodFn (m + 1) (fun k => pred (a k) (b k) (x k) (y k)) := by
  have hai : 0 < ai := by have := hx 0 (Nat.zero_le _); omega
  have hbi : 0 < bi := by have := hy 0 (Nat.zero_le _); omega
  have hX := enc_const_lt ai x (m + 1) (fun k hk => hx k (by omega))
  have hY := enc_const_lt bi y (m + 1) (fun k hk => hy k (by omega))
  have hi : ∀ k, k < m + 1 → iterOdo (m + 1) (fun _ => ai) (enc (fun _ => ai) x (m + 1)) k = x k := by
    intro k hk
    rw [iterOdo_eq_dec (fun _ => ai) (fun _ => hai) (m + 1) _ k hk, prodN_const, Nat.mod_eq_of_lt hX,
      dec_enc (fun _ => ai) x (m + 1) (fun k hk => hx k (by omega)) k hk]
  have hj : ∀ k, k < m + 1 → iterOdo (m + 1) (fun _ => bi)
      (enc (fun _ => ai) x (m + 1) * bi ^ (m + 1) + enc (fun _ => bi) y (m + 1)) k = y k := by
    intro k hk
    rw [iterOdo_eq_dec (fun _ => bi) (fun _ => hbi) (m + 1) _ k hk, prodN_const,
      (div_mod_digit _ _ _ hY).2,
      dec_enc (fun _ => bi) y (m + 1) (fun k hk => hy k (by omega)) k hk]
  unfold productPred
  simp only [Nat.add_sub_cancel]
  rw [kronChain_enc ao bo _ a b m ha hb]
  apply prodFn_congr
  intro k hk
  show pred (a k) (b k) _ _ = _
  rw [hi k hk, hj k hk]

/-! ### BCS tensors -/

theorem bit_enc (n : Nat) (s : Nat → Nat) (hs : ∀ k, k < n → s k < 2) (k : Nat) (hk : k < n) :
    bit n (enc (fun _ => 2) s n) k = s k :=
  dec_enc (fun _ => 2) s n hs k hk

theorem bcsPred_enc (n : Nat) (c : Nat → Nat → Int) (s : Nat → Nat) (hs : ∀ k, k < n → s k < 2)
    (b x y : Nat) (hy : y < n) :
    bcsPred n c (enc (fun _ => 2) s n) b x y
      = if b = s y ∧ c x (enc (fun _ => 2) s n) = 1 then 1 else 0 := by
  unfold bcsPred
  have e1 : enc (fun _ => 2) (fun k => bit n (enc (fun _ => 2) s n) k) n = enc (fun _ => 2) s n :=
    enc_congr _ _ _ _ n (fun _ _ => rfl) (fun k hk => bit_enc n s hs k hk)
  simp only [e1, bit_enc n s hs y hy]

/-! ### histories -/

theorem runWith_state (st : Game → Op → Game × Option Rat) (hpure : ∀ g op, (st g op).1 = g) (g : Game) :
    ∀ ops, (runWith st g ops).1 = g
  | [] => rfl
  | op :: rest => by
    show (runWith st (st g op).1 rest).1 = g
    rw [hpure, runWith_state st hpure g rest]

end Toq.Games
