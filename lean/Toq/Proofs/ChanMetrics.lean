import Toq.Model.ChanMetrics
import Toq.Proofs.Cert
import Mathlib.LinearAlgebra.Matrix.Kronecker
import Mathlib.Data.Matrix.Block
import Mathlib.Data.Matrix.ColumnRowPartitioned
/-!
# Helper lemmas for C20 (channel distance measures)

* generic part (arbitrary finite index types `ι` for the input space `X`, `κ` for the output space `Y`;
  Choi matrices live on `ι × κ`): partial trace over the second factor and its adjointness to `ρ ↦ ρ ⊗ 1`,
  weak duality of Watrous' SDP for the completely bounded trace norm and of the Katariya–Wilde SDP for the
  channel fidelity, block-matrix positivity lemmas used for explicit certificates;
* bridge from the executable matrices of `Toq.Model.ChanMetrics` (`EMat (dX*dY) (dX*dY)`, index `x·dY + y`,
  `2n × 2n` blocks) to `Matrix (Fin dX × Fin dY) …` and `Matrix.fromBlocks`.
-/

open Matrix Kronecker
open scoped ComplexOrder MatrixOrder

namespace Toq.ChanMetrics

/-! ## Generic part -/

section Generic
variable {ι κ : Type*} [Fintype ι] [DecidableEq ι] [Fintype κ] [DecidableEq κ]

/-- partial trace over the second tensor factor: `(Tr_Y A)_{ab} = Σ_y A_{(a,y),(b,y)}` -/
def ptr2 (A : Matrix (ι × κ) (ι × κ) ℂ) : Matrix ι ι ℂ := fun a b => ∑ y, A (a, y) (b, y)

omit [DecidableEq ι] [DecidableEq κ] [Fintype ι] in
@[simp] theorem ptr2_apply (A : Matrix (ι × κ) (ι × κ) ℂ) (a b : ι) : ptr2 A a b = ∑ y, A (a, y) (b, y) := rfl

omit [DecidableEq ι] [DecidableEq κ] [Fintype ι] in
theorem ptr2_add (A B : Matrix (ι × κ) (ι × κ) ℂ) : ptr2 (A + B) = ptr2 A + ptr2 B := by
  ext a b; simp [Finset.sum_add_distrib]

omit [DecidableEq ι] [DecidableEq κ] [Fintype ι] in
theorem ptr2_sub (A B : Matrix (ι × κ) (ι × κ) ℂ) : ptr2 (A - B) = ptr2 A - ptr2 B := by
  ext a b; simp [Finset.sum_sub_distrib]

omit [DecidableEq ι] [DecidableEq κ] [Fintype ι] in
theorem ptr2_smul (c : ℂ) (A : Matrix (ι × κ) (ι × κ) ℂ) : ptr2 (c • A) = c • ptr2 A := by
  ext a b; simp [Finset.mul_sum]

omit [DecidableEq ι] [DecidableEq κ] [Fintype ι] in
theorem ptr2_conjTranspose (A : Matrix (ι × κ) (ι × κ) ℂ) : ptr2 Aᴴ = (ptr2 A)ᴴ := by
  ext a b; simp [Matrix.conjTranspose_apply]

omit [DecidableEq ι] [DecidableEq κ] in
theorem trace_ptr2 (A : Matrix (ι × κ) (ι × κ) ℂ) : (ptr2 A).trace = A.trace := by
  simp [Matrix.trace, Fintype.sum_prod_type]

omit [DecidableEq ι] in
/-- the partial trace is the adjoint of `ρ ↦ ρ ⊗ 1`: `tr((ρ ⊗ 1)·A) = tr(ρ · Tr_Y A)` -/
theorem trace_kron_one_mul (ρ : Matrix ι ι ℂ) (A : Matrix (ι × κ) (ι × κ) ℂ) :
    ((ρ ⊗ₖ (1 : Matrix κ κ ℂ)) * A).trace = (ρ * ptr2 A).trace := by
  simp only [Matrix.trace, Matrix.diag_apply, Matrix.mul_apply, Fintype.sum_prod_type,
    Matrix.kroneckerMap_apply, Matrix.one_apply, ptr2_apply, Finset.mul_sum]
  refine Finset.sum_congr rfl fun a _ => ?_
  rw [Finset.sum_comm]
  refine Finset.sum_congr rfl fun b _ => ?_
  refine Finset.sum_congr rfl fun y _ => ?_
  simp

/-! ### Trace identities -/

section Tr
variable {n m : Type*} [Fintype n] [Fintype m]

theorem trace_fromBlocks' (A : Matrix n n ℂ) (B : Matrix n m ℂ) (C : Matrix m n ℂ) (D : Matrix m m ℂ) :
    (fromBlocks A B C D).trace = A.trace + D.trace := by
  simp [Matrix.trace, Fintype.sum_sum_type]

/-- `Re tr(Aᴴ B) = Re tr(Bᴴ A)` -/
theorem re_trace_conjTranspose_mul (A B : Matrix n n ℂ) : (Aᴴ * B).trace.re = (Bᴴ * A).trace.re := by
  have h : (Aᴴ * B).trace = star (Bᴴ * A).trace := by
    rw [← Matrix.trace_conjTranspose, Matrix.conjTranspose_mul, Matrix.conjTranspose_conjTranspose]
  rw [h]; simp

/-- for Hermitian `K`: `Re tr(Qᴴ K) = Re tr(Q K)` -/
theorem re_trace_conjTranspose_mul_herm (Q K : Matrix n n ℂ) (hK : K.IsHermitian) :
    (Qᴴ * K).trace.re = (Q * K).trace.re := by
  rw [re_trace_conjTranspose_mul, hK.eq, Matrix.trace_mul_comm]

/-- every complex number is its modulus times a phase -/
theorem exists_phase (c : ℂ) : ∃ u : ℂ, u * star u = 1 ∧ c = (‖c‖ : ℂ) * u := by
  by_cases hc : c = 0
  · exact ⟨1, by simp, by simp [hc]⟩
  · have hn : (‖c‖ : ℂ) ≠ 0 := by exact_mod_cast (norm_ne_zero_iff.mpr hc)
    refine ⟨c / ‖c‖, ?_, by field_simp⟩
    rw [star_div₀, Complex.star_def, Complex.conj_ofReal, div_mul_div_comm, Complex.mul_conj,
      Complex.normSq_eq_norm_sq]
    push_cast
    field_simp

/-- `Re tr((c J)ᴴ (u Z)) = Re(c̄ u tr(Jᴴ Z))` -/
theorem re_trace_smul_smul (c u : ℂ) (J Z : Matrix n n ℂ) :
    ((c • J)ᴴ * (u • Z)).trace.re = (star c * u * (Jᴴ * Z).trace).re := by
  rw [Matrix.conjTranspose_smul, Matrix.smul_mul, Matrix.mul_smul, Matrix.trace_smul, Matrix.trace_smul,
    smul_eq_mul, smul_eq_mul, mul_assoc]

variable [DecidableEq n]

/-- `Re tr(T ρ) ≤ c · Re tr ρ` when `c·1 − T ⪰ 0` and `ρ ⪰ 0` -/
theorem re_trace_le_of_bound {T ρ : Matrix n n ℂ} {c : ℝ} (hc : ((c : ℂ) • (1 : Matrix n n ℂ) - T).PosSemidef)
    (hρ : ρ.PosSemidef) : (ρ * T).trace.re ≤ c * ρ.trace.re := by
  have h := psd_trace_mul_nonneg hc hρ
  rw [Matrix.sub_mul, Matrix.trace_sub, Matrix.smul_mul, Matrix.one_mul, Matrix.trace_smul, Complex.sub_re,
    smul_eq_mul, Complex.re_ofReal_mul, Matrix.trace_mul_comm T ρ] at h
  linarith

/-- `c · Re tr ρ ≤ Re tr(T ρ)` when `T − c·1 ⪰ 0` and `ρ ⪰ 0` -/
theorem le_re_trace_of_bound {T ρ : Matrix n n ℂ} {c : ℝ} (hc : (T - (c : ℂ) • (1 : Matrix n n ℂ)).PosSemidef)
    (hρ : ρ.PosSemidef) : c * ρ.trace.re ≤ (ρ * T).trace.re := by
  have h := psd_trace_mul_nonneg hc hρ
  rw [Matrix.sub_mul, Matrix.trace_sub, Matrix.smul_mul, Matrix.one_mul, Matrix.trace_smul, Complex.sub_re,
    smul_eq_mul, Complex.re_ofReal_mul, Matrix.trace_mul_comm T ρ] at h
  linarith

end Tr

/-! ### Positivity of special block matrices (explicit certificates) -/

section Blocks
variable {n : Type*} [Fintype n] [DecidableEq n]

/-- `[[A, A],[A, A]] ⪰ 0` for `A ⪰ 0` -/
theorem psd_block_same {A : Matrix n n ℂ} (hA : A.PosSemidef) : (fromBlocks A A A A).PosSemidef := by
  have h := hA.mul_mul_conjTranspose_same (fromRows (1 : Matrix n n ℂ) (1 : Matrix n n ℂ))
  rw [Matrix.conjTranspose_fromRows_eq_fromCols_conjTranspose, Matrix.fromRows_mul,
    Matrix.fromRows_mul_fromCols] at h
  simpa using h

/-- `[[A, −A],[−A, A]] ⪰ 0` for `A ⪰ 0` -/
theorem psd_block_same_neg {A : Matrix n n ℂ} (hA : A.PosSemidef) : (fromBlocks A (-A) (-A) A).PosSemidef := by
  have h := hA.mul_mul_conjTranspose_same (fromRows (1 : Matrix n n ℂ) (-1 : Matrix n n ℂ))
  rw [Matrix.conjTranspose_fromRows_eq_fromCols_conjTranspose, Matrix.fromRows_mul,
    Matrix.fromRows_mul_fromCols] at h
  simpa using h

/-- conjugating the two diagonal blocks by `U` and `V`:
`[[U A Uᴴ, U Z Vᴴ],[V Zᴴ Uᴴ, V B Vᴴ]] ⪰ 0` whenever `[[A, Z],[Zᴴ, B]] ⪰ 0` -/
theorem psd_block_conj {A B Z : Matrix n n ℂ} (U V : Matrix n n ℂ)
    (h : (fromBlocks A Z Zᴴ B).PosSemidef) :
    (fromBlocks (U * A * Uᴴ) (U * Z * Vᴴ) ((U * Z * Vᴴ)ᴴ) (V * B * Vᴴ)).PosSemidef := by
  have h2 := h.mul_mul_conjTranspose_same (fromBlocks U 0 0 V)
  rw [Matrix.fromBlocks_conjTranspose, Matrix.fromBlocks_multiply, Matrix.fromBlocks_multiply] at h2
  simpa [Matrix.conjTranspose_mul, Matrix.mul_assoc] using h2

/-- multiplying the off-diagonal block by a phase keeps the block matrix positive semidefinite -/
theorem psd_block_phase {A B Z : Matrix n n ℂ} (u : ℂ) (hu : u * star u = 1)
    (h : (fromBlocks A Z Zᴴ B).PosSemidef) : (fromBlocks A (u • Z) (u • Z)ᴴ B).PosSemidef := by
  have h2 := psd_block_conj (u • (1 : Matrix n n ℂ)) 1 h
  have e1 : u • (1 : Matrix n n ℂ) * A * (u • (1 : Matrix n n ℂ))ᴴ = A := by
    rw [Matrix.conjTranspose_smul, Matrix.conjTranspose_one, Matrix.smul_mul, Matrix.one_mul, Matrix.mul_smul,
      Matrix.mul_one, smul_smul, mul_comm, hu, one_smul]
  have e2 : u • (1 : Matrix n n ℂ) * Z * (1 : Matrix n n ℂ)ᴴ = u • Z := by
    rw [Matrix.conjTranspose_one, Matrix.mul_one, Matrix.smul_mul, Matrix.one_mul]
  have e3 : (1 : Matrix n n ℂ) * B * (1 : Matrix n n ℂ)ᴴ = B := by
    rw [Matrix.conjTranspose_one, Matrix.mul_one, Matrix.one_mul]
  rwa [e1, e2, e3] at h2

omit [Fintype n] [DecidableEq n] in
/-- exchanging the two diagonal blocks -/
theorem psd_block_swap {A B Z W : Matrix n n ℂ} (h : (fromBlocks A Z W B).PosSemidef) :
    (fromBlocks B W Z A).PosSemidef := by
  have h2 := h.submatrix Sum.swap
  rwa [Matrix.fromBlocks_submatrix_sum_swap_sum_swap] at h2

/-- `c·1 − T ⪰ 0` for Hermitian `T` once `c` is at least the sum of the moduli of all entries (Gershgorin) -/
theorem psd_scalar_sub_of_entry_sum {T : Matrix n n ℂ} (hT : T.IsHermitian) :
    (((∑ i, ∑ j, ‖T i j‖ : ℝ) : ℂ) • (1 : Matrix n n ℂ) - T).PosSemidef := by
  refine Matrix.posSemidef_of_diagDominant ?_ fun i => ?_
  · refine Matrix.IsHermitian.sub ?_ hT
    ext a b
    by_cases hab : a = b
    · subst hab; simp [Matrix.conjTranspose_apply, Matrix.smul_apply]
    · simp [Matrix.conjTranspose_apply, Matrix.smul_apply, hab, Ne.symm hab]
  · have hrow : ∑ j, ‖T i j‖ ≤ ∑ a, ∑ j, ‖T a j‖ :=
      Finset.single_le_sum (f := fun a => ∑ j, ‖T a j‖) (fun a _ => Finset.sum_nonneg fun j _ => norm_nonneg _)
        (Finset.mem_univ i)
    have hsplit : ∑ j, ‖T i j‖ = ∑ j ∈ Finset.univ.erase i, ‖T i j‖ + ‖T i i‖ :=
      (Finset.sum_erase_add _ _ (Finset.mem_univ i)).symm
    have hre : (T i i).re ≤ ‖T i i‖ := Complex.re_le_norm _
    have hoff : ∑ j ∈ Finset.univ.erase i,
        ‖(((∑ a, ∑ j, ‖T a j‖ : ℝ) : ℂ) • (1 : Matrix n n ℂ) - T) i j‖
          = ∑ j ∈ Finset.univ.erase i, ‖T i j‖ := by
      refine Finset.sum_congr rfl fun j hj => ?_
      have hne : i ≠ j := (Finset.ne_of_mem_erase hj).symm
      simp [Matrix.sub_apply, Matrix.smul_apply, hne]
    rw [hoff]
    simp only [Matrix.sub_apply, Matrix.smul_apply, Matrix.one_apply_eq, smul_eq_mul, mul_one, Complex.sub_re,
      Complex.ofReal_re]
    linarith

end Blocks

/-! ### Weak duality -/

/-- Watrous' SDP for the completely bounded trace norm: every primal value `Re tr(Jᴴ X)` is bounded by every dual
value `½(c0 + c1)`. -/
theorem cb_weak_duality_gen (J X Y0 Y1 : Matrix (ι × κ) (ι × κ) ℂ) (ρ0 ρ1 : Matrix ι ι ℂ) (c0 c1 : ℝ)
    (hρ0 : ρ0.PosSemidef) (hρ1 : ρ1.PosSemidef) (ht0 : ρ0.trace = 1) (ht1 : ρ1.trace = 1)
    (hP : (fromBlocks (ρ0 ⊗ₖ (1 : Matrix κ κ ℂ)) X Xᴴ (ρ1 ⊗ₖ (1 : Matrix κ κ ℂ))).PosSemidef)
    (hD : (fromBlocks Y0 (-J) (-Jᴴ) Y1).PosSemidef)
    (hc0 : ((c0 : ℂ) • (1 : Matrix ι ι ℂ) - ptr2 Y0).PosSemidef)
    (hc1 : ((c1 : ℂ) • (1 : Matrix ι ι ℂ) - ptr2 Y1).PosSemidef) :
    (Jᴴ * X).trace.re ≤ (c0 + c1) / 2 := by
  have h := psd_trace_mul_nonneg hP hD
  rw [Matrix.fromBlocks_multiply, trace_fromBlocks'] at h
  simp only [Matrix.trace_add, Matrix.mul_neg, Matrix.trace_neg, Complex.add_re, Complex.neg_re,
    trace_kron_one_mul] at h
  have e1 : (X * Jᴴ).trace.re = (Jᴴ * X).trace.re := by rw [Matrix.trace_mul_comm]
  have e2 : (Xᴴ * J).trace.re = (Jᴴ * X).trace.re := re_trace_conjTranspose_mul X J
  have b0 := re_trace_le_of_bound hc0 hρ0
  have b1 := re_trace_le_of_bound hc1 hρ1
  rw [ht0, Complex.one_re, mul_one] at b0
  rw [ht1, Complex.one_re, mul_one] at b1
  rw [e1, e2] at h
  linarith

/-- Katariya–Wilde SDP for the (root) channel fidelity: every primal value `λ` is bounded by every dual value
`½ Re(tr(J1 W0) + tr(J2 W1))`. -/
theorem cf_weak_duality_gen (J1 J2 Q W0 W1 : Matrix (ι × κ) (ι × κ) ℂ) (ρ : Matrix ι ι ℂ) (lam : ℝ)
    (hP : (fromBlocks J1 Qᴴ Q J2).PosSemidef)
    (hL : (((1 / 2 : ℝ) : ℂ) • (ptr2 Q + (ptr2 Q)ᴴ) - (lam : ℂ) • (1 : Matrix ι ι ℂ)).PosSemidef)
    (hρ : ρ.PosSemidef) (ht : ρ.trace = 1)
    (hD : (fromBlocks W0 (-(ρ ⊗ₖ (1 : Matrix κ κ ℂ))) (-(ρ ⊗ₖ (1 : Matrix κ κ ℂ))) W1).PosSemidef) :
    lam ≤ ((J1 * W0).trace.re + (J2 * W1).trace.re) / 2 := by
  have hK : (ρ ⊗ₖ (1 : Matrix κ κ ℂ)).IsHermitian := (hρ.kronecker Matrix.PosSemidef.one).isHermitian
  have h := psd_trace_mul_nonneg hP hD
  rw [Matrix.fromBlocks_multiply, trace_fromBlocks'] at h
  simp only [Matrix.trace_add, Matrix.mul_neg, Matrix.trace_neg, Complex.add_re, Complex.neg_re] at h
  rw [re_trace_conjTranspose_mul_herm Q _ hK, Matrix.trace_mul_comm Q, trace_kron_one_mul] at h
  have b := le_re_trace_of_bound hL hρ
  rw [ht, Complex.one_re, mul_one, Matrix.mul_smul, Matrix.trace_smul, smul_eq_mul, Complex.re_ofReal_mul,
    Matrix.mul_add, Matrix.trace_add, Complex.add_re] at b
  have e : (ρ * (ptr2 Q)ᴴ).trace.re = (ρ * ptr2 Q).trace.re := by
    rw [Matrix.trace_mul_comm, re_trace_conjTranspose_mul_herm _ _ hρ.isHermitian, Matrix.trace_mul_comm]
  rw [e] at b
  linarith

end Generic

/-! ## Bridge from the executable matrices -/

section Bridge
open EMat
variable {dX dY n : Nat}

/-- denotation of an exact matrix on `X ⊗ Y` (row/column index `x·dY + y`) as a matrix indexed by pairs `(x, y)` -/
def toP (A : EMat (dX * dY) (dX * dY)) : Matrix (Fin dX × Fin dY) (Fin dX × Fin dY) ℂ :=
  A.toM.submatrix finProdFinEquiv finProdFinEquiv

@[simp] theorem toP_apply (A : EMat (dX * dY) (dX * dY)) (p q : Fin dX × Fin dY) :
    toP A p q = (A.get (finProdFinEquiv p) (finProdFinEquiv q)).toC := rfl

theorem pairIdx_eq (a : Fin dX) (y : Fin dY) : pairIdx a y = finProdFinEquiv (a, y) := by
  apply Fin.ext
  simp only [pairIdx, finProdFinEquiv, Equiv.coe_fn_mk]
  rw [Nat.add_comm, Nat.mul_comm]

theorem fstIdx_pair (a : Fin dX) (y : Fin dY) : fstIdx (finProdFinEquiv (a, y)) = a := by
  rw [show fstIdx (finProdFinEquiv (a, y)) = (finProdFinEquiv.symm (finProdFinEquiv (a, y))).1 from rfl,
    Equiv.symm_apply_apply]

theorem sndIdx_pair (a : Fin dX) (y : Fin dY) : sndIdx (finProdFinEquiv (a, y)) = y := by
  rw [show sndIdx (finProdFinEquiv (a, y)) = (finProdFinEquiv.symm (finProdFinEquiv (a, y))).2 from rfl,
    Equiv.symm_apply_apply]

theorem toP_add (A B : EMat (dX * dY) (dX * dY)) : toP (A + B) = toP A + toP B := by
  ext p q; simp [QI.toC_add]
theorem toP_sub (A B : EMat (dX * dY) (dX * dY)) : toP (A - B) = toP A - toP B := by
  ext p q; simp [QI.toC_sub]
theorem toP_neg (A : EMat (dX * dY) (dX * dY)) : toP (-A) = -toP A := by
  ext p q; simp [QI.toC_neg]
theorem toP_ct (A : EMat (dX * dY) (dX * dY)) : toP A.ct = (toP A)ᴴ := by
  simp [toP, toM_ct, Matrix.conjTranspose_submatrix]
theorem toP_mul (A B : EMat (dX * dY) (dX * dY)) : toP (A.mul B) = toP A * toP B := by
  simp [toP, toM_mul, Matrix.submatrix_mul_equiv]

theorem trace_toP (A : EMat (dX * dY) (dX * dY)) : (toP A).trace = A.toM.trace := by
  simp only [Matrix.trace, Matrix.diag_apply, toP, Matrix.submatrix_apply]
  exact Equiv.sum_comp finProdFinEquiv fun j => A.toM j j

theorem toP_kronI (ρ : EMat dX dX) : toP (kronI dY ρ) = ρ.toM ⊗ₖ (1 : Matrix (Fin dY) (Fin dY) ℂ) := by
  ext ⟨a, y⟩ ⟨b, z⟩
  simp only [toP_apply, kronI, get_ofFn, fstIdx_pair, sndIdx_pair, Matrix.kroneckerMap_apply, Matrix.one_apply,
    toM_apply]
  by_cases h : y = z <;> simp [h]

theorem toM_ptrY (A : EMat (dX * dY) (dX * dY)) : (ptrY dX dY A).toM = ptr2 (toP A) := by
  ext a b
  simp [ptrY, sumFin_toC, pairIdx_eq]

theorem toM_hermPart (A : EMat n n) : (hermPart A).toM = (((1 / 2 : ℝ)) : ℂ) • (A.toM + A.toMᴴ) := by
  rw [hermPart, toM_smul, toM_add, toM_ct]
  norm_num

theorem traceIsOne_sound (ρ : EMat n n) (h : traceIsOne ρ = true) : ρ.toM.trace = 1 := by
  rw [traceIsOne, beq_iff_eq] at h
  rw [← toC_trace, h, QI.toC_one]

theorem densityOk_sound (ρ L : EMat n n) (h : densityOk ρ L = true) : ρ.toM.PosSemidef ∧ ρ.toM.trace = 1 := by
  rw [densityOk, Bool.and_eq_true] at h
  exact ⟨psdCert_sound _ _ h.1, traceIsOne_sound _ h.2⟩

/-- the two-step reindexing `(x, y) ⊕ (x, y) → Fin (dX·dY + dX·dY)` -/
def blkIdx (dX dY : Nat) : (Fin dX × Fin dY) ⊕ (Fin dX × Fin dY) → Fin (dX * dY + dX * dY) :=
  fun s => finSumFinEquiv (Sum.map finProdFinEquiv finProdFinEquiv s)

/-- denotation of an exact `2N × 2N` matrix as a `2 × 2` block matrix over `X ⊗ Y` -/
def toB (M : EMat (dX * dY + dX * dY) (dX * dY + dX * dY)) :
    Matrix ((Fin dX × Fin dY) ⊕ (Fin dX × Fin dY)) ((Fin dX × Fin dY) ⊕ (Fin dX × Fin dY)) ℂ :=
  M.toM.submatrix (blkIdx dX dY) (blkIdx dX dY)

theorem toB_posSemidef (M : EMat (dX * dY + dX * dY) (dX * dY + dX * dY)) (h : M.toM.PosSemidef) :
    (toB M).PosSemidef := h.submatrix _

theorem blk_ll (A B C D : EMat n n) (i j : Fin n) :
    (blk A B C D).get (Fin.castAdd n i) (Fin.castAdd n j) = A.get i j := by
  simp [blk]
theorem blk_lr (A B C D : EMat n n) (i j : Fin n) :
    (blk A B C D).get (Fin.castAdd n i) (Fin.natAdd n j) = B.get i j := by
  simp [blk]
theorem blk_rl (A B C D : EMat n n) (i j : Fin n) :
    (blk A B C D).get (Fin.natAdd n i) (Fin.castAdd n j) = C.get i j := by
  simp [blk]
theorem blk_rr (A B C D : EMat n n) (i j : Fin n) :
    (blk A B C D).get (Fin.natAdd n i) (Fin.natAdd n j) = D.get i j := by
  simp [blk]

theorem toB_blk (A B C D : EMat (dX * dY) (dX * dY)) :
    toB (blk A B C D) = fromBlocks (toP A) (toP B) (toP C) (toP D) := by
  ext (p | p) (q | q) <;>
    simp only [toB, blkIdx, Matrix.submatrix_apply, Sum.map_inl, Sum.map_inr, finSumFinEquiv_apply_left,
      finSumFinEquiv_apply_right, toM_apply, blk_ll, blk_lr, blk_rl, blk_rr, Matrix.fromBlocks_apply₁₁,
      Matrix.fromBlocks_apply₁₂, Matrix.fromBlocks_apply₂₁, Matrix.fromBlocks_apply₂₂, toP_apply]

theorem psdCert_blk_sound (A B C D : EMat (dX * dY) (dX * dY)) {k : Nat} (L : EMat (dX * dY + dX * dY) k)
    (h : psdCert (blk A B C D) L = true) : (fromBlocks (toP A) (toP B) (toP C) (toP D)).PosSemidef := by
  rw [← toB_blk]
  exact toB_posSemidef _ (psdCert_sound _ _ h)

theorem cbValue_cast (J X : EMat (dX * dY) (dX * dY)) :
    ((cbValue J X : Rat) : ℝ) = ((toP J)ᴴ * toP X).trace.re := by
  rw [cbValue, re_trace, ← toP_ct, ← toP_mul, trace_toP]

theorem cfDualValue_cast (J1 J2 W0 W1 : EMat (dX * dY) (dX * dY)) :
    ((cfDualValue J1 J2 W0 W1 : Rat) : ℝ)
      = ((toP J1 * toP W0).trace.re + (toP J2 * toP W1).trace.re) / 2 := by
  rw [cfDualValue, Rat.cast_div, Rat.cast_add, re_trace, re_trace, ← toP_mul, ← toP_mul, trace_toP, trace_toP]
  norm_num

end Bridge

end Toq.ChanMetrics
