import Toq.Model.ChanMetrics
import Toq.Proofs.Cert
import Mathlib.LinearAlgebra.Matrix.Kronecker
import Mathlib.Data.Matrix.Block
/-!
# Helper lemmas for C20 (channel distance measures)

* generic part (arbitrary finite index types `ι` for the input space `X`, `κ` for the output space `Y`;
  Choi matrices live on `ι × κ`): partial trace over the second factor and its adjointness to `ρ ↦ ρ ⊗ 1`,
  weak duality of Watrous' SDP for the completely bounded trace norm and of the Katariya–Wilde SDP for the
  channel fidelity, block-matrix positivity lemmas used for explicit certificates;
* bridge from the executable matrices of `Toq.Model.ChanMetrics` (`EMat (dX*dY) (dX*dY)`, index `x·dY + y`,
  `2n × 2n` blocks) to `Matrix (Fin dX × Fin dY) …` and `Matrix.fromBlocks`.
-/

open Matrix Kronecker
open scoped ComplexOrder MatrixOrder

namespace Toq.ChanMetrics

/-! ## Generic part -/

section Generic
variable {ι κ : Type*} [Fintype ι] [DecidableEq ι] [Fintype κ] [DecidableEq κ]

/-- partial trace over the second tensor factor: `(Tr_Y A)_{ab} = Σ_y A_{(a,y),(b,y)}` -/
def ptr2 (A : Matrix (ι × κ) (ι × κ) ℂ) : Matrix ι ι ℂ := fun a b => ∑ y, A (a, y) (b, y)

omit [DecidableEq ι] [DecidableEq κ] [Fintype ι] in
@[simp] theorem ptr2_apply (A : Matrix (ι × κ) (ι × κ) ℂ) (a b : ι) : ptr2 A a b = ∑ y, A (a, y) (b, y) := rfl

omit [DecidableEq ι] [DecidableEq κ] [Fintype ι] in
theorem ptr2_add (A B : Matrix (ι × κ) (ι × κ) ℂ) : ptr2 (A + B) = ptr2 A + ptr2 B := by
  ext a b; simp [Finset.sum_add_distrib]

omit [DecidableEq ι] [DecidableEq κ] [Fintype ι] in
theorem ptr2_sub (A B : Matrix (ι × κ) (ι × κ) ℂ) : ptr2 (A - B) = ptr2 A - ptr2 B := by
  ext a b; simp [Finset.sum_sub_distrib]

omit [DecidableEq ι] [DecidableEq κ] [Fintype ι] in
theorem ptr2_smul (c : ℂ) (A : Matrix (ι × κ) (ι × κ) ℂ) : ptr2 (c • A) = c • ptr2 A := by
  ext a b; simp [Finset.mul_sum]

omit [DecidableEq ι] [DecidableEq κ] [Fintype ι] in
theorem ptr2_conjTranspose (A : Matrix (ι × κ) (ι × κ) ℂ) : ptr2 Aᴴ = (ptr2 A)ᴴ := by
  ext a b; simp [Matrix.conjTranspose_apply]

omit [DecidableEq ι] [DecidableEq κ] in
theorem trace_ptr2 (A : Matrix (ι × κ) (ι × κ) ℂ) : (ptr2 A).trace = A.trace := by
  simp [Matrix.trace, Fintype.sum_prod_type]

omit [DecidableEq ι] in
/-- the partial trace is the adjoint of `ρ ↦ ρ ⊗ 1`: `tr((ρ ⊗ 1)·A) = tr(ρ · Tr_Y A)` -/
theorem trace_kron_one_mul (ρ : Matrix ι ι ℂ) (A : Matrix (ι × κ) (ι × κ) ℂ) :
    ((ρ ⊗ₖ (1 : Matrix κ κ ℂ)) * A).trace = (ρ * ptr2 A).trace := by
  simp only [Matrix.trace, Matrix.diag_apply, Matrix.mul_apply, Fintype.sum_prod_type,
    Matrix.kroneckerMap_apply, Matrix.one_apply, ptr2_apply, Finset.mul_sum]
  refine Finset.sum_congr rfl fun a _ => ?_
  rw [Finset.sum_comm]
  refine Finset.sum_congr rfl fun b _ => ?_
  refine Finset.sum_congr rfl fun y _ => ?_
  simp

/-! ### Trace identities -/

section Tr
variable {n m : Type*} [Fintype n] [Fintype m]

theorem trace_fromBlocks' (A : Matrix n n ℂ) (B : Matrix n m ℂ) (C : Matrix m n ℂ) (D : Matrix m m ℂ) :
    (fromBlocks A B C D).trace = A.trace + D.trace := by
  simp [Matrix.trace, Fintype.sum_sum_type]

/-- `Re tr(Aᴴ B) = Re tr(Bᴴ A)` -/
theorem re_trace_conjTranspose_mul (A B : Matrix n n ℂ) : (Aᴴ * B).trace.re = (Bᴴ * A).trace.re := by
  have h : (Aᴴ * B).trace = star (Bᴴ * A).trace := by
    rw [← Matrix.trace_conjTranspose, Matrix.conjTranspose_mul, Matrix.conjTranspose_conjTranspose]
  rw [h]; simp

/-- for Hermitian `K`: `Re tr(Qᴴ K) = Re tr(Q K)` -/
theorem re_trace_conjTranspose_mul_herm (Q K : Matrix n n ℂ) (hK : K.IsHermitian) :
    (Qᴴ * K).trace.re = (Q * K).trace.re := by
  rw [re_trace_conjTranspose_mul, hK.eq, Matrix.trace_mul_comm]

variable [DecidableEq n]

/-- `Re tr(T ρ) ≤ c · Re tr ρ` when `c·1 − T ⪰ 0` and `ρ ⪰ 0` -/
theorem re_trace_le_of_bound {T ρ : Matrix n n ℂ} {c : ℝ} (hc : ((c : ℂ) • (1 : Matrix n n ℂ) - T).PosSemidef)
    (hρ : ρ.PosSemidef) : (ρ * T).trace.re ≤ c * ρ.trace.re := by
  have h := psd_trace_mul_nonneg hc hρ
  rw [Matrix.sub_mul, Matrix.trace_sub, Matrix.smul_mul, Matrix.one_mul, Matrix.trace_smul, Complex.sub_re,
    smul_eq_mul, Complex.re_ofReal_mul, Matrix.trace_mul_comm T ρ] at h
  linarith

/-- `c · Re tr ρ ≤ Re tr(T ρ)` when `T − c·1 ⪰ 0` and `ρ ⪰ 0` -/
theorem le_re_trace_of_bound {T ρ : Matrix n n ℂ} {c : ℝ} (hc : (T - (c : ℂ) • (1 : Matrix n n ℂ)).PosSemidef)
    (hρ : ρ.PosSemidef) : c * ρ.trace.re ≤ (ρ * T).trace.re := by
  have h := psd_trace_mul_nonneg hc hρ
  rw [Matrix.sub_mul, Matrix.trace_sub, Matrix.smul_mul, Matrix.one_mul, Matrix.trace_smul, Complex.sub_re,
    smul_eq_mul, Complex.re_ofReal_mul, Matrix.trace_mul_comm T ρ] at h
  linarith

end Tr

/-! ### Weak duality -/

/-- Watrous' SDP for the completely bounded trace norm: every primal value `Re tr(Jᴴ X)` is bounded by every dual
value `½(c0 + c1)`. -/
theorem cb_weak_duality_gen (J X Y0 Y1 : Matrix (ι × κ) (ι × κ) ℂ) (ρ0 ρ1 : Matrix ι ι ℂ) (c0 c1 : ℝ)
    (hρ0 : ρ0.PosSemidef) (hρ1 : ρ1.PosSemidef) (ht0 : ρ0.trace = 1) (ht1 : ρ1.trace = 1)
    (hP : (fromBlocks (ρ0 ⊗ₖ (1 : Matrix κ κ ℂ)) X Xᴴ (ρ1 ⊗ₖ (1 : Matrix κ κ ℂ))).PosSemidef)
    (hD : (fromBlocks Y0 (-J) (-Jᴴ) Y1).PosSemidef)
    (hc0 : ((c0 : ℂ) • (1 : Matrix ι ι ℂ) - ptr2 Y0).PosSemidef)
    (hc1 : ((c1 : ℂ) • (1 : Matrix ι ι ℂ) - ptr2 Y1).PosSemidef) :
    (Jᴴ * X).trace.re ≤ (c0 + c1) / 2 := by
  have h := psd_trace_mul_nonneg hP hD
  rw [Matrix.fromBlocks_multiply, trace_fromBlocks'] at h
  simp only [Matrix.trace_add, Matrix.mul_neg, Matrix.trace_neg, Complex.add_re, Complex.neg_re,
    trace_kron_one_mul] at h
  have e1 : (X * Jᴴ).trace.re = (Jᴴ * X).trace.re := by rw [Matrix.trace_mul_comm]
  have e2 : (Xᴴ * J).trace.re = (Jᴴ * X).trace.re := re_trace_conjTranspose_mul X J
  have b0 := re_trace_le_of_bound hc0 hρ0
  have b1 := re_trace_le_of_bound hc1 hρ1
  rw [ht0, Complex.one_re, mul_one] at b0
  rw [ht1, Complex.one_re, mul_one] at b1
  rw [e1, e2] at h
  linarith

/-- Katariya–Wilde SDP for the (root) channel fidelity: every primal value `λ` is bounded by every dual value
`½ Re(tr(J1 W0) + tr(J2 W1))`. -/
theorem cf_weak_duality_gen (J1 J2 Q W0 W1 : Matrix (ι × κ) (ι × κ) ℂ) (ρ : Matrix ι ι ℂ) (lam : ℝ)
    (hP : (fromBlocks J1 Qᴴ Q J2).PosSemidef)
    (hL : (((1 / 2 : ℝ) : ℂ) • (ptr2 Q + (ptr2 Q)ᴴ) - (lam : ℂ) • (1 : Matrix ι ι ℂ)).PosSemidef)
    (hρ : ρ.PosSemidef) (ht : ρ.trace = 1)
    (hD : (fromBlocks W0 (-(ρ ⊗ₖ (1 : Matrix κ κ ℂ))) (-(ρ ⊗ₖ (1 : Matrix κ κ ℂ))) W1).PosSemidef) :
    lam ≤ ((J1 * W0).trace.re + (J2 * W1).trace.re) / 2 := by
  have hK : (ρ ⊗ₖ (1 : Matrix κ κ ℂ)).IsHermitian := (hρ.kronecker Matrix.PosSemidef.one).isHermitian
  have h := psd_trace_mul_nonneg hP hD
  rw [Matrix.fromBlocks_multiply, trace_fromBlocks'] at h
  simp only [Matrix.trace_add, Matrix.mul_neg, Matrix.trace_neg, Complex.add_re, Complex.neg_re] at h
  rw [re_trace_conjTranspose_mul_herm Q _ hK, Matrix.trace_mul_comm Q, trace_kron_one_mul] at h
  have b := le_re_trace_of_bound hL hρ
  rw [ht, Complex.one_re, mul_one, Matrix.mul_smul, Matrix.trace_smul, smul_eq_mul, Complex.re_ofReal_mul,
    Matrix.mul_add, Matrix.trace_add, Complex.add_re] at b
  have e : (ρ * (ptr2 Q)ᴴ).trace.re = (ρ * ptr2 Q).trace.re := by
    rw [Matrix.trace_mul_comm, re_trace_conjTranspose_mul_herm _ _ hρ.isHermitian, Matrix.trace_mul_comm]
  rw [e] at b
  linarith

end Generic

end Toq.ChanMetrics
