import Toq.Proofs.RandPost

/-!
# `measure`: what the tolerance argument does and does not influence (hardening pass)

`tol` selects whether a post-measurement state is produced (`prob > tol`) or `np.zeros_like(state)` is returned, and it is the `atol` of the
completeness test.  It does not enter the reported probability.  The harness relies on this when it hands `measure` outcomes whose
probability lies below an explicit, larger `tol` and still demands the Born value and the unit sum of a complete measurement.
-/

namespace Toq.Rand

/-- the reported probability is the same for any two tolerances -/
theorem measureOne_prob_tol_indep (d m : Nat) (tol tol' : Rat) (K ρ : Nat → Nat → QI) :
    (measureOne d tol K ρ m).prob = (measureOne d tol' K ρ m).prob := rfl

/-- an outcome that is not above the tolerance: the post-measurement state is the zero matrix of the state's side length -/
theorem measureOne_below (d m : Nat) (tol : Rat) (K ρ : Nat → Nat → QI)
    (h : (measureOne d tol K ρ m).positive = some false) :
    (measureOne d tol K ρ m).postDim = d ∧ ∀ i j, (measureOne d tol K ρ m).post i j = 0 := by
  unfold measureOne at h ⊢
  simp only at h ⊢
  rw [h]
  simp

end Toq.Rand
