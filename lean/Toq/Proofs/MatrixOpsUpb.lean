import Toq.Proofs.MatrixOps
import Mathlib.Data.Finset.Card
/-!
# Meaning and order independence of the exact UPB decider `upbV`

`upbV` (`Toq/Model/MatrixPreds.lean`) is the exact decider of toqito's
`is_unextendible_product_basis(vecs, dims)`.  This file proves

1. `mem_assignments_iff`: `assignments n m` lists exactly the functions `{0..n-1} → {0..m-1}`;
2. `upbV_no_iff` / `upbV_yes_iff`: when the guards pass, the verdict is "not a UPB" exactly when the (zero-padded)
   vectors can be distributed over the parties such that every party has a non-zero local vector annihilated by all
   the local factors it received;
3. `upbV_perm`: the complete result (guards included) does not depend on the order in which the vectors are listed;
4. `upbV_surj_irrelevant`: when every local dimension is at least 2, the search over surjective distributions and the
   search over all distributions give the same result.
-/

namespace Toq.MatrixPreds
open Toq.MatrixOps Matrix

/-! ## 1. `assignments` -/

/-- `assignments n m` lists exactly the lists of length `n` with entries below `m` (all functions `{0..n-1} → {0..m-1}`) -/
theorem mem_assignments_iff (m : Nat) : ∀ (n : Nat) (asg : List Nat),
    asg ∈ assignments n m ↔ asg.length = n ∧ ∀ x ∈ asg, x < m
  | 0, asg => by
    simp only [assignments, List.mem_singleton]
    constructor
    · rintro rfl; simp
    · rintro ⟨h, _⟩; exact List.length_eq_zero_iff.mp h
  | n + 1, asg => by
    simp only [assignments, List.mem_flatMap, List.mem_map, List.mem_range]
    constructor
    · rintro ⟨t, ht, a, ha, rfl⟩
      obtain ⟨h1, h2⟩ := (mem_assignments_iff m n t).mp ht
      refine ⟨by simp [h1], ?_⟩
      intro x hx
      rcases List.mem_cons.mp hx with rfl | hx
      · exact ha
      · exact h2 x hx
    · rintro ⟨h1, h2⟩
      cases asg with
      | nil => simp at h1
      | cons a t =>
        exact ⟨t, (mem_assignments_iff m n t).mpr
          ⟨by simpa using h1, fun x hx => h2 x (List.mem_cons_of_mem _ hx)⟩, a, h2 a List.mem_cons_self, rfl⟩

/-! ## 2. the pieces of `upbV` and their meaning -/

/-- the table of local factors `upbV` builds: vector `k < n` contributes `localFactors dims (vs k)`, the padding
    vectors `n ≤ k < max n (#parties)` contribute zero factors -/
def upbFacs (dims : List Nat) (n : Nat) (vs : Nat → Nat → QI) : List (List (List QI)) :=
  (List.range (max n dims.length)).map fun k =>
    if k < n then localFactors dims (vs k) else dims.map (fun di => List.replicate di 0)

/-- entry `t` of the `i`-th local factor of (padded) vector `k`, read from the table exactly as `upbV` reads it -/
def upbFactor (dims : List Nat) (n : Nat) (vs : Nat → Nat → QI) (k i t : Nat) : QI :=
  (((upbFacs dims n vs).getD k []).getD i []).getD t 0

/-- the rank test of `upbV` for party `i` under the assignment `asg` -/
def upbTest (dims : List Nat) (n : Nat) (vs : Nat → Nat → QI) (asg : List Nat) (i : Nat) : Bool :=
  let mine := (List.range (max n dims.length)).filter (fun k => asg.getD k 0 == i)
  let di := dims.getD i 1
  let M : QMat := (mine.map fun k => ((((upbFacs dims n vs).getD k []).getD i []).toArray)).toArray
  rank mine.length di M < di

/-- the search of `upbV` -/
def upbWitness (dims : List Nat) (n : Nat) (vs : Nat → Nat → QI) (surjOnly : Bool) : Bool :=
  (assignments (max n dims.length) dims.length).any fun asg =>
    (!surjOnly || (List.range dims.length).all (fun i => asg.contains i)) &&
    (List.range dims.length).all fun i => upbTest dims n vs asg i

/-- `upbV` in terms of its pieces (definitional) -/
theorem upbV_eq (dims : List Nat) (n : Nat) (vs : Nat → Nat → QI) (surj : Bool) (m : Rat) :
    upbV dims n vs surj m =
      if !(List.range n).all (fun k => isProductExact dims (vs k)) then .error "NotProduct"
      else if n ≥ 2 ∧ eqV (gramOffDiag (dims.foldl (· * ·) 1) n vs) (zeroMat n n) m != .yes then .ok .unknown
      else .ok (.ofBool (!upbWitness dims n vs surj)) := rfl

theorem qi_default : (default : QI) = 0 := rfl

theorem qmat_get_rows {ι : Type} (l : List ι) (g : ι → List QI) (r t : Nat) (hr : r < l.length) :
    QMat.get ((l.map fun k => (g k).toArray).toArray) r t = (g l[r]).getD t 0 := by
  unfold QMat.get
  simp [hr]
  rfl

/-- **meaning of one rank test**: `rank < d_i` for the stacked local factors party `i` received holds exactly when
    party `i` has a non-zero local vector annihilated by all of them -/
theorem upbTest_iff (dims : List Nat) (n : Nat) (vs : Nat → Nat → QI) (asg : List Nat) (i : Nat) :
    upbTest dims n vs asg i = true ↔
      ∃ y : Fin (dims.getD i 1) → ℂ, y ≠ 0 ∧ ∀ k, k < max n dims.length → asg.getD k 0 = i →
        ∑ t : Fin (dims.getD i 1), (upbFactor dims n vs k i t.val).toC * y t = 0 := by
  unfold upbTest
  simp only [decide_eq_true_eq]
  rw [rank_eq_rank, Toq.Rank.rank_lt_cols_iff_kernel]
  refine exists_congr fun y => and_congr_right fun _ => ?_
  constructor
  · intro h k hk hki
    have hmem : k ∈ (List.range (max n dims.length)).filter (fun k => asg.getD k 0 == i) := by
      rw [List.mem_filter, List.mem_range]
      exact ⟨hk, by simpa using hki⟩
    obtain ⟨r, hr, hrk⟩ := List.getElem_of_mem hmem
    have := congrFun h ⟨r, hr⟩
    simp only [Matrix.mulVec, dotProduct, qmatToM, Pi.zero_apply] at this
    rw [← this]
    refine Finset.sum_congr rfl fun t _ => ?_
    rw [qmat_get_rows _ _ _ _ hr, hrk]
    rfl
  · intro h
    funext r
    have hmem := List.getElem_mem r.isLt
    rw [List.mem_filter, List.mem_range] at hmem
    have := h _ hmem.1 (by simpa using hmem.2)
    simp only [Matrix.mulVec, dotProduct, qmatToM, Pi.zero_apply]
    rw [← this]
    refine Finset.sum_congr rfl fun t _ => ?_
    rw [qmat_get_rows _ _ _ _ r.isLt]
    rfl

/-- "the `n'` vectors with local-factor table `F` can be distributed over the parties (list form: `asg[k]` is the party
    of vector `k`; every party is served if `surj`) such that every party `i` has a non-zero local vector annihilated by
    all the local factors it received" -/
def NotUPBList (dims : List Nat) (n' : Nat) (surj : Bool) (F : Nat → Nat → Nat → QI) : Prop :=
  ∃ asg : List Nat, asg.length = n' ∧ (∀ x ∈ asg, x < dims.length) ∧
    (surj = true → ∀ i, i < dims.length → i ∈ asg) ∧
    ∀ i, i < dims.length → ∃ y : Fin (dims.getD i 1) → ℂ, y ≠ 0 ∧
      ∀ k, k < n' → asg.getD k 0 = i → ∑ t : Fin (dims.getD i 1), (F k i t.val).toC * y t = 0

/-- the same with the distribution given as a function `a : vector index → party` -/
def NotUPB (dims : List Nat) (n' : Nat) (surj : Bool) (F : Nat → Nat → Nat → QI) : Prop :=
  ∃ a : Nat → Nat, (∀ k, k < n' → a k < dims.length) ∧
    (surj = true → ∀ i, i < dims.length → ∃ k, k < n' ∧ a k = i) ∧
    ∀ i, i < dims.length → ∃ y : Fin (dims.getD i 1) → ℂ, y ≠ 0 ∧
      ∀ k, k < n' → a k = i → ∑ t : Fin (dims.getD i 1), (F k i t.val).toC * y t = 0

/-- list form and function form of the distribution are interchangeable -/
theorem notUPBList_iff (dims : List Nat) (n' : Nat) (surj : Bool) (F : Nat → Nat → Nat → QI) :
    NotUPBList dims n' surj F ↔ NotUPB dims n' surj F := by
  constructor
  · rintro ⟨asg, hl, hlt, hs, hy⟩
    have hget : ∀ k (hk : k < asg.length), asg.getD k 0 = asg[k] := by
      intro k hk
      simp [List.getD, List.getElem?_eq_getElem hk]
    refine ⟨fun k => asg.getD k 0, ?_, ?_, hy⟩
    · intro k hk
      show asg.getD k 0 < _
      rw [hget k (by omega)]
      exact hlt _ (List.getElem_mem _)
    · intro hsurj i hi
      obtain ⟨k, hk, hki⟩ := List.getElem_of_mem (hs hsurj i hi)
      exact ⟨k, by omega, by show asg.getD k 0 = i; rw [hget k hk]; exact hki⟩
  · rintro ⟨a, hlt, hs, hy⟩
    have hget : ∀ k, k < n' → ((List.range n').map a).getD k 0 = a k := by
      intro k hk
      simp [List.getD, hk]
    refine ⟨(List.range n').map a, by simp, ?_, ?_, ?_⟩
    · intro x hx
      obtain ⟨k, hk, rfl⟩ := List.mem_map.mp hx
      exact hlt k (List.mem_range.mp hk)
    · intro hsurj i hi
      obtain ⟨k, hk, hki⟩ := hs hsurj i hi
      exact List.mem_map.mpr ⟨k, List.mem_range.mpr hk, hki⟩
    · intro i hi
      obtain ⟨y, hy0, hyk⟩ := hy i hi
      exact ⟨y, hy0, fun k hk hki => hyk k hk (by rw [← hget k hk]; exact hki)⟩

/-- **meaning of the search of `upbV`** -/
theorem upbWitness_iff (dims : List Nat) (n : Nat) (vs : Nat → Nat → QI) (surj : Bool) :
    upbWitness dims n vs surj = true ↔ NotUPBList dims (max n dims.length) surj (upbFactor dims n vs) := by
  unfold upbWitness NotUPBList
  rw [List.any_eq_true]
  refine exists_congr fun asg => ?_
  rw [mem_assignments_iff, Bool.and_eq_true, List.all_eq_true, and_assoc]
  refine and_congr_right fun _ => and_congr_right fun _ => and_congr ?_ ?_
  · cases surj <;> simp [List.all_eq_true]
  · refine forall_congr' fun i => ?_
    rw [List.mem_range, upbTest_iff]

/-- the factor entries of a genuine vector `k < n` are those of `localFactors dims (vs k)` -/
theorem upbFactor_lt (dims : List Nat) (n : Nat) (vs : Nat → Nat → QI) (k i t : Nat) (hk : k < n) :
    upbFactor dims n vs k i t = ((localFactors dims (vs k)).getD i []).getD t 0 := by
  unfold upbFactor upbFacs
  have hk' : k < max n dims.length := by omega
  simp [List.getD, hk, hk']

/-- the factor entries of a padding vector `k ≥ n` are zero -/
theorem upbFactor_pad (dims : List Nat) (n : Nat) (vs : Nat → Nat → QI) (k i t : Nat) (hk : n ≤ k) :
    upbFactor dims n vs k i t = 0 := by
  unfold upbFactor upbFacs
  have hk0 : ¬ k < n := by omega
  by_cases hk' : k < max n dims.length
  · by_cases hi : i < dims.length
    · by_cases ht : t < dims[i]
      · simp [List.getD, hk0, hk', hi, ht]
      · simp [List.getD, hk0, hk', hi, ht]
    · simp [List.getD, hk0, hk', hi]
  · simp [List.getD, hk']

/-- when the guards pass (all vectors exactly product; mutually orthogonal if there are at least two), the result of `upbV`
    is the negation of the search -/
theorem upbV_of_guards (dims : List Nat) (n : Nat) (vs : Nat → Nat → QI) (surj : Bool) (m : Rat)
    (hprod : ∀ k, k < n → isProductExact dims (vs k) = true)
    (hgram : 2 ≤ n → eqV (gramOffDiag (dims.foldl (· * ·) 1) n vs) (zeroMat n n) m = .yes) :
    upbV dims n vs surj m = .ok (.ofBool (!upbWitness dims n vs surj)) := by
  rw [upbV_eq, if_neg, if_neg]
  · rintro ⟨h2, hne⟩
    rw [hgram h2] at hne
    exact absurd hne (by decide)
  · have : (List.range n).all (fun k => isProductExact dims (vs k)) = true := by
      rw [List.all_eq_true]
      intro k hk
      exact hprod k (List.mem_range.mp hk)
    simp [this]

/-- **Reading of the verdict "not a UPB".**  When the guards pass, `upbV` answers `no` exactly when the vectors (padded with
    zero vectors up to the number of parties) can be distributed over the parties — `asg[k]` is the party of vector `k`, every
    party is served when `surj` — such that every party `i` has a non-zero local vector `y ∈ ℂ^{d_i}` annihilated by all the
    local factors it received. -/
theorem upbV_no_iff (dims : List Nat) (n : Nat) (vs : Nat → Nat → QI) (surj : Bool) (m : Rat)
    (hprod : ∀ k, k < n → isProductExact dims (vs k) = true)
    (hgram : 2 ≤ n → eqV (gramOffDiag (dims.foldl (· * ·) 1) n vs) (zeroMat n n) m = .yes) :
    upbV dims n vs surj m = .ok .no ↔
      ∃ asg : List Nat, asg.length = max n dims.length ∧ (∀ x ∈ asg, x < dims.length) ∧
        (surj = true → ∀ i, i < dims.length → i ∈ asg) ∧
        ∀ i, i < dims.length → ∃ y : Fin (dims.getD i 1) → ℂ, y ≠ 0 ∧
          ∀ k, k < max n dims.length → asg.getD k 0 = i →
            ∑ t : Fin (dims.getD i 1), (upbFactor dims n vs k i t.val).toC * y t = 0 := by
  rw [upbV_of_guards dims n vs surj m hprod hgram]
  show _ ↔ NotUPBList dims (max n dims.length) surj (upbFactor dims n vs)
  rw [← upbWitness_iff]
  cases upbWitness dims n vs surj <;> simp [Verdict.ofBool]

/-- **Reading of the verdict "is a UPB"**: no such distribution exists. -/
theorem upbV_yes_iff (dims : List Nat) (n : Nat) (vs : Nat → Nat → QI) (surj : Bool) (m : Rat)
    (hprod : ∀ k, k < n → isProductExact dims (vs k) = true)
    (hgram : 2 ≤ n → eqV (gramOffDiag (dims.foldl (· * ·) 1) n vs) (zeroMat n n) m = .yes) :
    upbV dims n vs surj m = .ok .yes ↔
      ¬ ∃ asg : List Nat, asg.length = max n dims.length ∧ (∀ x ∈ asg, x < dims.length) ∧
        (surj = true → ∀ i, i < dims.length → i ∈ asg) ∧
        ∀ i, i < dims.length → ∃ y : Fin (dims.getD i 1) → ℂ, y ≠ 0 ∧
          ∀ k, k < max n dims.length → asg.getD k 0 = i →
            ∑ t : Fin (dims.getD i 1), (upbFactor dims n vs k i t.val).toC * y t = 0 := by
  rw [upbV_of_guards dims n vs surj m hprod hgram]
  show _ ↔ ¬ NotUPBList dims (max n dims.length) surj (upbFactor dims n vs)
  rw [← upbWitness_iff]
  cases upbWitness dims n vs surj <;> simp [Verdict.ofBool]

/-- when the guards pass the verdict is never `unknown` and never an error -/
theorem upbV_guards_decided (dims : List Nat) (n : Nat) (vs : Nat → Nat → QI) (surj : Bool) (m : Rat)
    (hprod : ∀ k, k < n → isProductExact dims (vs k) = true)
    (hgram : 2 ≤ n → eqV (gramOffDiag (dims.foldl (· * ·) 1) n vs) (zeroMat n n) m = .yes) :
    upbV dims n vs surj m = .ok .no ∨ upbV dims n vs surj m = .ok .yes := by
  rw [upbV_of_guards dims n vs surj m hprod hgram]
  cases upbWitness dims n vs surj <;> simp [Verdict.ofBool]

/-! ## 3. order independence -/

/-- relabelling the vectors by a bijection of the index range transports a distribution -/
theorem notUPB_transport (dims : List Nat) (n' : Nat) (surj : Bool) (F F' : Nat → Nat → Nat → QI) (σ τ : Nat → Nat)
    (hσ : ∀ k, k < n' → σ k < n') (hτ : ∀ k, k < n' → τ k < n')
    (hτσ : ∀ k, k < n' → τ (σ k) = k) (hστ : ∀ k, k < n' → σ (τ k) = k)
    (hF : ∀ k, k < n' → ∀ i t, F' k i t = F (σ k) i t) :
    NotUPB dims n' surj F' → NotUPB dims n' surj F := by
  rintro ⟨a, hlt, hs, hy⟩
  refine ⟨fun k => a (τ k), fun k hk => hlt _ (hτ k hk), ?_, ?_⟩
  · intro hsurj i hi
    obtain ⟨k, hk, hki⟩ := hs hsurj i hi
    exact ⟨σ k, hσ k hk, by show a (τ (σ k)) = i; rw [hτσ k hk]; exact hki⟩
  · intro i hi
    obtain ⟨y, hy0, hyk⟩ := hy i hi
    refine ⟨y, hy0, fun k hk hki => ?_⟩
    have := hyk (τ k) (hτ k hk) hki
    simpa only [hF (τ k) (hτ k hk), hστ k hk] using this

/-- a permutation of `[0, n)` extended by the identity -/
def extendPerm (n : Nat) (σ : Nat → Nat) : Nat → Nat := fun k => if k < n then σ k else k

/-- the factor table of the reordered list is the reordered factor table (padding vectors stay in place) -/
theorem upbFactor_perm (dims : List Nat) (n : Nat) (vs : Nat → Nat → QI) (σ : Nat → Nat)
    (hσ : ∀ k, k < n → σ k < n) (k i t : Nat) :
    upbFactor dims n (fun k => vs (σ k)) k i t = upbFactor dims n vs (extendPerm n σ k) i t := by
  unfold extendPerm
  by_cases hk : k < n
  · rw [if_pos hk, upbFactor_lt _ _ _ _ _ _ hk, upbFactor_lt _ _ _ _ _ _ (hσ k hk)]
  · rw [if_neg hk, upbFactor_pad _ _ _ _ _ _ (by omega), upbFactor_pad _ _ _ _ _ _ (by omega)]

/-- **the search does not depend on the order of the vectors** (with or without padding) -/
theorem upbWitness_perm (dims : List Nat) (n : Nat) (vs : Nat → Nat → QI) (surj : Bool) (σ τ : Nat → Nat)
    (hσ : ∀ k, k < n → σ k < n) (hτ : ∀ k, k < n → τ k < n)
    (hτσ : ∀ k, k < n → τ (σ k) = k) (hστ : ∀ k, k < n → σ (τ k) = k) :
    upbWitness dims n (fun k => vs (σ k)) surj = upbWitness dims n vs surj := by
  rw [Bool.eq_iff_iff, upbWitness_iff, upbWitness_iff, notUPBList_iff, notUPBList_iff]
  have eσ : ∀ k, k < max n dims.length → extendPerm n σ k < max n dims.length := by
    intro k hk; unfold extendPerm; split
    · next h => have := hσ k h; omega
    · exact hk
  have eτ : ∀ k, k < max n dims.length → extendPerm n τ k < max n dims.length := by
    intro k hk; unfold extendPerm; split
    · next h => have := hτ k h; omega
    · exact hk
  have eτσ : ∀ k, k < max n dims.length → extendPerm n τ (extendPerm n σ k) = k := by
    intro k _; unfold extendPerm
    by_cases h : k < n
    · rw [if_pos h, if_pos (hσ k h), hτσ k h]
    · rw [if_neg h, if_neg h]
  have eστ : ∀ k, k < max n dims.length → extendPerm n σ (extendPerm n τ k) = k := by
    intro k _; unfold extendPerm
    by_cases h : k < n
    · rw [if_pos h, if_pos (hτ k h), hστ k h]
    · rw [if_neg h, if_neg h]
  constructor
  · exact notUPB_transport dims _ surj _ _ (extendPerm n σ) (extendPerm n τ) eσ eτ eτσ eστ
      (fun k _ i t => upbFactor_perm dims n vs σ hσ k i t)
  · refine notUPB_transport dims _ surj _ _ (extendPerm n τ) (extendPerm n σ) eτ eσ eστ eτσ ?_
    intro k hk i t
    rw [upbFactor_perm dims n vs σ hσ, eστ k hk]

/-- a test over all indices below `n` is unchanged by a permutation of the indices -/
theorem all_range_perm (n : Nat) (p : Nat → Bool) (σ τ : Nat → Nat)
    (hσ : ∀ k, k < n → σ k < n) (hτ : ∀ k, k < n → τ k < n) (hστ : ∀ k, k < n → σ (τ k) = k) :
    (List.range n).all (fun k => p (σ k)) = (List.range n).all p := by
  rw [Bool.eq_iff_iff, List.all_eq_true, List.all_eq_true]
  simp only [List.mem_range]
  constructor
  · intro h k hk
    have := h (τ k) (hτ k hk)
    rwa [hστ k hk] at this
  · intro h k hk
    exact h (σ k) (hσ k hk)

/-- the orthogonality guard passes iff all off-diagonal entries of the Gram matrix vanish exactly -/
theorem gramOffDiag_yes_iff (D n : Nat) (vs : Nat → Nat → QI) (m : Rat) :
    eqV (gramOffDiag D n vs) (zeroMat n n) m = .yes ↔
      ∀ i j, i < n → j < n → i ≠ j → (gram D n vs).f i j = 0 := by
  rw [eqV_yes_iff (gramOffDiag D n vs) (zeroMat n n) m rfl rfl]
  constructor
  · intro h i j hi hj hij
    have := h i j hi hj
    simpa [gramOffDiag, zeroMat, hij] using this
  · intro h i j hi hj
    by_cases hij : i = j
    · simp [gramOffDiag, zeroMat, hij]
    · have := h i j hi hj hij
      simpa [gramOffDiag, zeroMat, hij] using this

/-- the orthogonality guard is symmetric under reordering of the vectors -/
theorem gramOffDiag_yes_perm (D n : Nat) (vs : Nat → Nat → QI) (m : Rat) (σ τ : Nat → Nat)
    (hσ : ∀ k, k < n → σ k < n) (hτ : ∀ k, k < n → τ k < n)
    (hτσ : ∀ k, k < n → τ (σ k) = k) (hστ : ∀ k, k < n → σ (τ k) = k) :
    eqV (gramOffDiag D n (fun k => vs (σ k))) (zeroMat n n) m = .yes ↔
      eqV (gramOffDiag D n vs) (zeroMat n n) m = .yes := by
  rw [gramOffDiag_yes_iff, gramOffDiag_yes_iff]
  have hg : ∀ i j, (gram D n (fun k => vs (σ k))).f i j = (gram D n vs).f (σ i) (σ j) := fun _ _ => rfl
  constructor
  · intro h i j hi hj hij
    have hne : τ i ≠ τ j := fun he => hij (by rw [← hστ i hi, ← hστ j hj, he])
    have := h (τ i) (τ j) (hτ i hi) (hτ j hj) hne
    rwa [hg, hστ i hi, hστ j hj] at this
  · intro h i j hi hj hij
    have hne : σ i ≠ σ j := fun he => hij (by rw [← hτσ i hi, ← hτσ j hj, he])
    rw [hg]
    exact h (σ i) (σ j) (hσ i hi) (hσ j hj) hne

/-- **Order independence of `upbV`.**  For a permutation `σ` of the index range `[0, n)` (with inverse `τ`), the complete result
    of `upbV` — errors, `unknown`, and the verdict — on the reordered list `k ↦ vs (σ k)` equals the result on `vs`; in
    particular the verdict is a property of the *set* of vectors.  (Holds with padding, i.e. also for fewer vectors than parties.) -/
theorem upbV_perm (dims : List Nat) (n : Nat) (vs : Nat → Nat → QI) (surj : Bool) (m : Rat) (σ τ : Nat → Nat)
    (hσ : ∀ k, k < n → σ k < n) (hτ : ∀ k, k < n → τ k < n)
    (hτσ : ∀ k, k < n → τ (σ k) = k) (hστ : ∀ k, k < n → σ (τ k) = k) :
    upbV dims n (fun k => vs (σ k)) surj m = upbV dims n vs surj m := by
  rw [upbV_eq, upbV_eq, upbWitness_perm dims n vs surj σ τ hσ hτ hτσ hστ,
    all_range_perm n (fun k => isProductExact dims (vs k)) σ τ hσ hτ hστ]
  have hiff := gramOffDiag_yes_perm (dims.foldl (· * ·) 1) n vs m σ τ hσ hτ hτσ hστ
  have hb : (eqV (gramOffDiag (dims.foldl (· * ·) 1) n (fun k => vs (σ k))) (zeroMat n n) m != Verdict.yes)
      = (eqV (gramOffDiag (dims.foldl (· * ·) 1) n vs) (zeroMat n n) m != Verdict.yes) := by
    rw [Bool.eq_iff_iff]
    simp only [bne_iff_ne, ne_eq, hiff]
  rw [hb]

/-- order independence with the permutation given as `Equiv.Perm (Fin n)` -/
theorem upbV_perm_equiv (dims : List Nat) (n : Nat) (vs : Nat → Nat → QI) (surj : Bool) (m : Rat)
    (σ : Equiv.Perm (Fin n)) :
    upbV dims n (fun k => if h : k < n then vs (σ ⟨k, h⟩).val else vs k) surj m = upbV dims n vs surj m := by
  have hfun : (fun k => if h : k < n then vs (σ ⟨k, h⟩).val else vs k)
      = (fun k => vs ((fun k => if h : k < n then (σ ⟨k, h⟩).val else k) k)) := by
    funext k
    by_cases h : k < n <;> simp [h]
  rw [hfun]
  refine upbV_perm dims n vs surj m _ (fun k => if h : k < n then (σ.symm ⟨k, h⟩).val else k) ?_ ?_ ?_ ?_
  · intro k hk; simp [hk]
  · intro k hk; simp [hk]
  · intro k hk; simp [hk]
  · intro k hk; simp [hk]

/-! ## 4. the restriction to surjective distributions is immaterial when every local dimension is at least 2 -/

/-- one linear condition on `ℂ^d`, `d ≥ 2`, has a non-zero solution -/
theorem exists_kernel_single_row (d : Nat) (hd : 2 ≤ d) (f : Fin d → ℂ) :
    ∃ y : Fin d → ℂ, y ≠ 0 ∧ ∑ t, f t * y t = 0 := by
  have h : (Matrix.of fun (_ : Fin 1) (t : Fin d) => f t).rank < d :=
    lt_of_le_of_lt (Matrix.rank_le_height _) (by omega)
  obtain ⟨y, hy0, hy⟩ := (Toq.Rank.rank_lt_cols_iff_kernel _).mp h
  refine ⟨y, hy0, ?_⟩
  have := congrFun hy 0
  simpa [Matrix.mulVec, dotProduct] using this

/-- `a` distributes the vectors over the parties and every party has a non-zero annihilated local vector -/
def UpbValid (dims : List Nat) (n' : Nat) (F : Nat → Nat → Nat → QI) (a : Nat → Nat) : Prop :=
  (∀ k, k < n' → a k < dims.length) ∧
    ∀ i, i < dims.length → ∃ y : Fin (dims.getD i 1) → ℂ, y ≠ 0 ∧
      ∀ k, k < n' → a k = i → ∑ t : Fin (dims.getD i 1), (F k i t.val).toC * y t = 0

open Classical in
/-- the parties that receive no vector -/
noncomputable def emptyParties (np n' : Nat) (a : Nat → Nat) : Finset Nat :=
  (Finset.range np).filter (fun i => ∀ k, k < n' → a k ≠ i)

theorem mem_emptyParties (np n' : Nat) (a : Nat → Nat) (i : Nat) :
    i ∈ emptyParties np n' a ↔ i < np ∧ ∀ k, k < n' → a k ≠ i := by
  unfold emptyParties
  simp

/-- serve an empty party with a vector taken from a party that has at least two -/
theorem upbValid_step (dims : List Nat) (n' : Nat) (F : Nat → Nat → Nat → QI)
    (hn : dims.length ≤ n') (hd : ∀ i, i < dims.length → 2 ≤ dims.getD i 1)
    (a : Nat → Nat) (hv : UpbValid dims n' F a) (i : Nat) (hi : i ∈ emptyParties dims.length n' a) :
    ∃ a', UpbValid dims n' F a' ∧ emptyParties dims.length n' a' ⊆ (emptyParties dims.length n' a).erase i := by
  classical
  obtain ⟨hinp, hiempty⟩ := (mem_emptyParties _ _ _ _).mp hi
  obtain ⟨hlt, hy⟩ := hv
  -- pigeonhole: two vectors at the same party
  have hcard : ((Finset.range dims.length).erase i).card < (Finset.range n').card := by
    rw [Finset.card_erase_of_mem (Finset.mem_range.mpr hinp), Finset.card_range, Finset.card_range]
    omega
  have hmaps : Set.MapsTo a (Finset.range n') ((Finset.range dims.length).erase i) := by
    intro k hk
    have hk' : k < n' := Finset.mem_range.mp hk
    exact Finset.mem_coe.mpr (Finset.mem_erase.mpr ⟨hiempty k hk', Finset.mem_range.mpr (hlt k hk')⟩)
  obtain ⟨k1, hk1, k2, hk2, hne, heq⟩ := Finset.exists_ne_map_eq_of_card_lt_of_maps_to hcard hmaps
  have hk1' : k1 < n' := Finset.mem_range.mp hk1
  have hk2' : k2 < n' := Finset.mem_range.mp hk2
  have hup1 : Function.update a k1 i k1 = i := Function.update_self ..
  have hup : ∀ k, k ≠ k1 → Function.update a k1 i k = a k := fun k hk => Function.update_of_ne hk ..
  refine ⟨Function.update a k1 i, ⟨?_, ?_⟩, ?_⟩
  · intro k hk
    by_cases hkk : k = k1
    · rw [hkk, hup1]; exact hinp
    · rw [hup k hkk]; exact hlt k hk
  · intro i' hi'
    by_cases hii : i' = i
    · subst hii
      obtain ⟨y, hy0, hyk⟩ := exists_kernel_single_row (dims.getD i' 1) (hd i' hi') (fun t => (F k1 i' t.val).toC)
      refine ⟨y, hy0, fun k hk hki => ?_⟩
      by_cases hkk : k = k1
      · rw [hkk]; exact hyk
      · rw [hup k hkk] at hki
        exact absurd hki (hiempty k hk)
    · obtain ⟨y, hy0, hyk⟩ := hy i' hi'
      refine ⟨y, hy0, fun k hk hki => ?_⟩
      by_cases hkk : k = k1
      · rw [hkk, hup1] at hki
        exact absurd hki.symm hii
      · rw [hup k hkk] at hki
        exact hyk k hk hki
  · intro i' hi'
    obtain ⟨hi'np, hi'empty⟩ := (mem_emptyParties _ _ _ _).mp hi'
    have hii : i' ≠ i := fun he => hi'empty k1 hk1' (by rw [hup1, he])
    refine Finset.mem_erase.mpr ⟨hii, (mem_emptyParties _ _ _ _).mpr ⟨hi'np, fun k hk => ?_⟩⟩
    by_cases hkk : k = k1
    · have := hi'empty k2 hk2'
      rw [hup k2 (Ne.symm hne)] at this
      rw [hkk, heq]
      exact this
    · have := hi'empty k hk
      rwa [hup k hkk] at this

/-- a valid distribution can be made surjective -/
theorem upbValid_surj (dims : List Nat) (n' : Nat) (F : Nat → Nat → Nat → QI)
    (hn : dims.length ≤ n') (hd : ∀ i, i < dims.length → 2 ≤ dims.getD i 1) :
    ∀ (c : Nat) (a : Nat → Nat), (emptyParties dims.length n' a).card ≤ c → UpbValid dims n' F a →
      ∃ a', UpbValid dims n' F a' ∧ ∀ i, i < dims.length → ∃ k, k < n' ∧ a' k = i := by
  intro c
  induction c with
  | zero =>
    intro a hc hv
    refine ⟨a, hv, fun i hi => ?_⟩
    have hempty : emptyParties dims.length n' a = ∅ := Finset.card_eq_zero.mp (Nat.le_zero.mp hc)
    have hnot : i ∉ emptyParties dims.length n' a := by rw [hempty]; exact Finset.notMem_empty i
    rw [mem_emptyParties] at hnot
    by_contra hcon
    exact hnot ⟨hi, fun k hk hki => hcon ⟨k, hk, hki⟩⟩
  | succ c ih =>
    intro a hc hv
    by_cases hempty : emptyParties dims.length n' a = ∅
    · refine ⟨a, hv, fun i hi => ?_⟩
      have hnot : i ∉ emptyParties dims.length n' a := by rw [hempty]; exact Finset.notMem_empty i
      rw [mem_emptyParties] at hnot
      by_contra hcon
      exact hnot ⟨hi, fun k hk hki => hcon ⟨k, hk, hki⟩⟩
    · obtain ⟨i, hi⟩ := Finset.nonempty_iff_ne_empty.mpr hempty
      obtain ⟨a', hv', hsub⟩ := upbValid_step dims n' F hn hd a hv i hi
      refine ih a' ?_ hv'
      have h1 := Finset.card_le_card hsub
      rw [Finset.card_erase_of_mem hi] at h1
      omega

/-- with at least as many (padded) vectors as parties and all local dimensions `≥ 2`, a distribution with the kernel
    property exists iff a surjective one exists -/
theorem notUPB_surj_iff (dims : List Nat) (n' : Nat) (F : Nat → Nat → Nat → QI)
    (hn : dims.length ≤ n') (hd : ∀ i, i < dims.length → 2 ≤ dims.getD i 1) :
    NotUPB dims n' true F ↔ NotUPB dims n' false F := by
  constructor
  · rintro ⟨a, h1, _, h3⟩
    exact ⟨a, h1, fun h => absurd h (by decide), h3⟩
  · rintro ⟨a, h1, _, h3⟩
    obtain ⟨a', ⟨h1', h3'⟩, hs⟩ := upbValid_surj dims n' F hn hd _ a (le_refl _) ⟨h1, h3⟩
    exact ⟨a', h1', fun _ => hs, h3'⟩

/-- **`surjOnly` is immaterial when every local dimension is at least 2**: the search over the distributions that serve
    every party (what the Python code enumerates) and the search over all distributions give the same result, for any number
    of vectors (the padded list always has at least as many vectors as parties). -/
theorem upbV_surj_irrelevant (dims : List Nat) (n : Nat) (vs : Nat → Nat → QI) (m : Rat)
    (hd : ∀ i, i < dims.length → 2 ≤ dims.getD i 1) :
    upbV dims n vs true m = upbV dims n vs false m := by
  have hw : upbWitness dims n vs true = upbWitness dims n vs false := by
    rw [Bool.eq_iff_iff, upbWitness_iff, upbWitness_iff, notUPBList_iff, notUPBList_iff]
    exact notUPB_surj_iff dims _ _ (le_max_right _ _) hd
  rw [upbV_eq, upbV_eq, hw]

/-- the reading of the verdict with the distribution as a function `a : vector index → party` -/
theorem upbV_no_iff_fn (dims : List Nat) (n : Nat) (vs : Nat → Nat → QI) (surj : Bool) (m : Rat)
    (hprod : ∀ k, k < n → isProductExact dims (vs k) = true)
    (hgram : 2 ≤ n → eqV (gramOffDiag (dims.foldl (· * ·) 1) n vs) (zeroMat n n) m = .yes) :
    upbV dims n vs surj m = .ok .no ↔
      ∃ a : Nat → Nat, (∀ k, k < max n dims.length → a k < dims.length) ∧
        (surj = true → ∀ i, i < dims.length → ∃ k, k < max n dims.length ∧ a k = i) ∧
        ∀ i, i < dims.length → ∃ y : Fin (dims.getD i 1) → ℂ, y ≠ 0 ∧
          ∀ k, k < max n dims.length → a k = i →
            ∑ t : Fin (dims.getD i 1), (upbFactor dims n vs k i t.val).toC * y t = 0 := by
  rw [upbV_no_iff dims n vs surj m hprod hgram]
  exact notUPBList_iff dims (max n dims.length) surj (upbFactor dims n vs)

/-! ## a concrete instance -/

/-- `|00⟩, i|01⟩, |1⟩(|0⟩+|1⟩), |1⟩(|0⟩-|1⟩)` in `ℂ² ⊗ ℂ²` (unnormalised) -/
def upbExample : Nat → Nat → QI := fun k j =>
  match k, j with
  | 0, 0 => 1
  | 1, 1 => ⟨0, 1⟩
  | 2, 2 => 1
  | 2, 3 => 1
  | 3, 2 => 1
  | 3, 3 => -1
  | _, _ => 0

/-- the guards are satisfiable: the first three vectors are exactly product and mutually orthogonal and do not form a UPB
    (`|1⟩(|0⟩-|1⟩)` is orthogonal to them); all four (a full product basis) do; a reordering gives the same answer -/
example : (∀ k, k < 3 → isProductExact [2, 2] (upbExample k) = true) ∧
    eqV (gramOffDiag 4 3 upbExample) (zeroMat 3 3) (1 / 1000) = .yes ∧
    upbV [2, 2] 3 upbExample true (1 / 1000) = .ok .no ∧
    upbV [2, 2] 3 (fun k => upbExample ([2, 0, 1].getD k 0)) true (1 / 1000) = .ok .no ∧
    upbV [2, 2] 4 upbExample true (1 / 1000) = .ok .yes := by
  decide +kernel

end Toq.MatrixPreds
