import Toq.Model.EntangleSk
import Toq.Spec.EntangleSk
import Toq.Proofs.Cert
import Toq.Proofs.Sep
import Mathlib.Algebra.Order.Chebyshev
import Mathlib.Analysis.InnerProductSpace.PiL2
/-!
# Proofs for the S(k) operator norm certificates (C14)

Weak duality of the two relaxations (`expect_le_of_ppt_dual`, `expect_le_of_red_dual`), positivity of the maps on vectors of bounded
Schmidt rank (`pT_ketbra_tprod_posSemidef`, `redK_ketbra_posSemidef`) and the bridge from the executable checkers on flat indices to
matrices on pairs.  `Toq.Sep` (C15) supplies `proj`, `nsq`, the Cauchy–Schwarz inequality and the flat/pair reindexing `unflat`.
-/

open Matrix
open scoped ComplexOrder MatrixOrder Kronecker InnerProductSpace

set_option linter.unusedSectionVars false

namespace Toq.Entangle
open Toq.Sep

section Pairs
variable {m n : Type} [Fintype m] [Fintype n] [DecidableEq m] [DecidableEq n]

/-! ### dictionary to `Toq.Sep` -/

theorem ketbra_eq_proj {ι : Type*} (v : ι → ℂ) : ketbra v = proj v := rfl
theorem vnorm2_eq_nsq {ι : Type*} [Fintype ι] (v : ι → ℂ) : vnorm2 v = nsq v := rfl
theorem pT_eq_ptBM (X : Matrix (m × n) (m × n) ℂ) : pT X = ptBM X := rfl
theorem ptrBm_eq_ptrB (X : Matrix (m × n) (m × n) ℂ) : ptrBm X = ptrB X := rfl

theorem ketbra_posSemidef {ι : Type*} [Fintype ι] (v : ι → ℂ) : (ketbra v).PosSemidef := proj_posSemidef v

/-- `tr(X |v⟩⟨v|) = ⟨v|X|v⟩` -/
theorem trace_mul_ketbra {ι : Type*} [Fintype ι] (X : Matrix ι ι ℂ) (v : ι → ℂ) :
    (X * ketbra v).trace = star v ⬝ᵥ (X *ᵥ v) := by
  simp only [Matrix.trace, Matrix.diag, Matrix.mul_apply, ketbra, vecMulVec_apply, dotProduct, mulVec, Pi.star_apply,
    Finset.mul_sum]
  refine Finset.sum_congr rfl fun i _ => Finset.sum_congr rfl fun j _ => ?_
  ring

theorem expect_eq_trace {ι : Type*} [Fintype ι] (X : Matrix ι ι ℂ) (v : ι → ℂ) :
    expect X v = (X * ketbra v).trace.re := by
  rw [trace_mul_ketbra]; rfl

theorem vnorm2_eq_trace {ι : Type*} [Fintype ι] (v : ι → ℂ) : ((vnorm2 v : ℝ) : ℂ) = (ketbra v).trace :=
  (trace_proj v).symm

/-! ### partial transpose -/

/-- the partial transpose is self-adjoint for the trace pairing: `tr(Y^Γ M) = tr(Y M^Γ)` -/
theorem trace_pT_mul (Y M : Matrix (m × n) (m × n) ℂ) : (pT Y * M).trace = (Y * pT M).trace := by
  simp only [Matrix.trace, Matrix.diag, Matrix.mul_apply]
  rw [← Finset.sum_product', ← Finset.sum_product']
  let e : ((m × n) × (m × n)) ≃ ((m × n) × (m × n)) :=
    { toFun := fun x => ((x.1.1, x.2.2), (x.2.1, x.1.2))
      invFun := fun x => ((x.1.1, x.2.2), (x.2.1, x.1.2))
      left_inv := fun x => rfl
      right_inv := fun x => rfl }
  exact Fintype.sum_equiv e _ _ (fun x => rfl)

/-- `|x⊗y⟩⟨x⊗y| = |x⟩⟨x| ⊗ |y⟩⟨y|` -/
theorem ketbra_tprod (x : m → ℂ) (y : n → ℂ) : ketbra (tprod x y) = ketbra x ⊗ₖ ketbra y := by
  ext ⟨a, b⟩ ⟨a', b'⟩
  simp only [ketbra, tprod, vecMulVec_apply, Pi.star_apply, kroneckerMap_apply, star_mul']
  ring

/-- the partial transpose of a product projector: `(|x⊗y⟩⟨x⊗y|)^Γ = |x⟩⟨x| ⊗ |ȳ⟩⟨ȳ|` -/
theorem pT_ketbra_tprod (x : m → ℂ) (y : n → ℂ) : pT (ketbra (tprod x y)) = ketbra x ⊗ₖ ketbra (star y) := by
  ext ⟨a, b⟩ ⟨a', b'⟩
  simp only [pT, ketbra, tprod, vecMulVec_apply, Pi.star_apply, kroneckerMap_apply, star_mul', star_star]
  ring

theorem pT_ketbra_tprod_posSemidef (x : m → ℂ) (y : n → ℂ) : (pT (ketbra (tprod x y))).PosSemidef := by
  rw [pT_ketbra_tprod]
  exact (ketbra_posSemidef x).kronecker (ketbra_posSemidef (star y))

/-- **Weak duality of the PPT relaxation.**  `Y ⪰ 0`, `λ·1 − X − Y^Γ ⪰ 0` ⇒ `⟨v|X|v⟩ ≤ λ⟨v|v⟩` for every product vector `v = x ⊗ y`. -/
theorem expect_le_of_ppt_dual (X Y : Matrix (m × n) (m × n) ℂ) (lam : ℝ) (hY : Y.PosSemidef)
    (hS : ((lam : ℂ) • (1 : Matrix (m × n) (m × n) ℂ) - X - pT Y).PosSemidef) (x : m → ℂ) (y : n → ℂ) :
    expect X (tprod x y) ≤ lam * vnorm2 (tprod x y) := by
  set v := tprod x y with hv
  have h1 := psd_trace_mul_nonneg hS (ketbra_posSemidef v)
  have h2 := psd_trace_mul_nonneg hY (pT_ketbra_tprod_posSemidef x y)
  rw [← hv, ← trace_pT_mul] at h2
  rw [Matrix.sub_mul, Matrix.sub_mul, Matrix.trace_sub, Matrix.trace_sub, Matrix.smul_mul, Matrix.one_mul, Matrix.trace_smul,
    ← vnorm2_eq_trace, smul_eq_mul, Complex.sub_re, Complex.sub_re, ← Complex.ofReal_mul, Complex.ofReal_re,
    ← expect_eq_trace] at h1
  linarith

/-! ### the reduction-type map -/

/-- `tr((A ⊗ 1) M) = tr(A · tr_B M)` -/
theorem trace_kron_one_mul (A : Matrix m m ℂ) (M : Matrix (m × n) (m × n) ℂ) :
    ((A ⊗ₖ (1 : Matrix n n ℂ)) * M).trace = (A * ptrBm M).trace := by
  simp only [Matrix.trace, Matrix.diag, Matrix.mul_apply, kroneckerMap_apply, ptrBm, Fintype.sum_prod_type, Matrix.one_apply,
    Finset.mul_sum]
  refine Finset.sum_congr rfl fun a _ => ?_
  rw [Finset.sum_comm]
  refine Finset.sum_congr rfl fun a' _ => ?_
  refine Finset.sum_congr rfl fun b _ => ?_
  rw [Finset.sum_eq_single b]
  · simp
  · intro b' _ hb; simp [Ne.symm hb]
  · intro h; exact absurd (Finset.mem_univ b) h

/-- the map `redK k` is self-adjoint for the trace pairing -/
theorem trace_redK_mul (k : ℕ) (Y M : Matrix (m × n) (m × n) ℂ) : (redK k Y * M).trace = (Y * redK k M).trace := by
  unfold redK
  rw [Matrix.sub_mul, Matrix.mul_sub, Matrix.trace_sub, Matrix.trace_sub, Matrix.smul_mul, Matrix.mul_smul, Matrix.trace_smul,
    Matrix.trace_smul, trace_kron_one_mul, Matrix.trace_mul_comm Y (ptrBm M ⊗ₖ 1), trace_kron_one_mul,
    Matrix.trace_mul_comm (ptrBm Y)]

/-- `|Σ_i z_i|² ≤ k · Σ_i |z_i|²` -/
theorem normSq_sum_le {k : ℕ} (z : Fin k → ℂ) : Complex.normSq (∑ i, z i) ≤ k * ∑ i, Complex.normSq (z i) := by
  have h1 : ‖∑ i, z i‖ ≤ ∑ i, ‖z i‖ := norm_sum_le _ _
  have h2 := sq_sum_le_card_mul_sum_sq (s := (Finset.univ : Finset (Fin k))) (f := fun i => ‖z i‖)
  rw [Finset.card_univ, Fintype.card_fin] at h2
  simp only [Complex.normSq_eq_norm_sq]
  calc ‖∑ i, z i‖ ^ 2 ≤ (∑ i, ‖z i‖) ^ 2 := by
        exact pow_le_pow_left₀ (norm_nonneg _) h1 2
    _ ≤ k * ∑ i, ‖z i‖ ^ 2 := h2

/-- operator Cauchy–Schwarz: `|Σ_i t_i⟩⟨Σ_i t_i| ⪯ k · Σ_i |t_i⟩⟨t_i|` -/
theorem ketbra_sum_le {ι : Type*} [Fintype ι] [DecidableEq ι] {k : ℕ} (t : Fin k → ι → ℂ) :
    ((k : ℂ) • ∑ i, ketbra (t i) - ketbra (∑ i, t i)).PosSemidef := by
  refine PosSemidef.of_dotProduct_mulVec_nonneg ?_ fun w => ?_
  · refine IsHermitian.sub ?_ (ketbra_posSemidef _).1
    have hs : (∑ i, ketbra (t i)).IsHermitian := by
      unfold IsHermitian
      rw [Matrix.conjTranspose_sum]
      exact Finset.sum_congr rfl fun i _ => (ketbra_posSemidef (t i)).1
    unfold IsHermitian
    rw [Matrix.conjTranspose_smul, hs]
    simp
  · rw [Matrix.sub_mulVec, dotProduct_sub, Matrix.smul_mulVec, dotProduct_smul, Matrix.sum_mulVec, dotProduct_sum]
    simp only [ketbra_eq_proj, quad_proj]
    have e : star (∑ i, t i) ⬝ᵥ w = ∑ i, star (t i) ⬝ᵥ w := by
      rw [star_sum, sum_dotProduct]
    rw [e, smul_eq_mul, ← Complex.ofReal_sum, ← Complex.ofReal_natCast, ← Complex.ofReal_mul, ← Complex.ofReal_sub]
    exact Complex.zero_le_real.mpr (sub_nonneg.mpr (normSq_sum_le _))

/-- the marginal of `|v⟩⟨v|` for `v = Σ_i x_i ⊗ y_i` with orthogonal `y_i` is `Σ_i ‖y_i‖² |x_i⟩⟨x_i|` -/
theorem ptrBm_ketbra_sum {k : ℕ} (x : Fin k → m → ℂ) (y : Fin k → n → ℂ) (hy : ∀ i j, i ≠ j → star (y i) ⬝ᵥ y j = 0) :
    ptrBm (ketbra (∑ i, tprod (x i) (y i))) = ∑ i, ((vnorm2 (y i) : ℝ) : ℂ) • ketbra (x i) := by
  ext a a'
  simp only [ptrBm, ketbra, vecMulVec_apply, Pi.star_apply, Finset.sum_apply, tprod, Matrix.sum_apply, Matrix.smul_apply,
    smul_eq_mul, star_sum, star_mul']
  -- Σ_b (Σ_i x_i a y_i b)(Σ_j conj(x_j a') conj(y_j b))
  have : ∀ b, (∑ i, x i a * y i b) * (∑ j, star (x j a') * star (y j b))
      = ∑ i, ∑ j, x i a * star (x j a') * (star (y j b) * y i b) := by
    intro b
    rw [Finset.sum_mul_sum]
    refine Finset.sum_congr rfl fun i _ => Finset.sum_congr rfl fun j _ => ?_
    ring
  simp only [this]
  rw [Finset.sum_comm]
  refine Finset.sum_congr rfl fun i _ => ?_
  rw [Finset.sum_comm]
  have hj : ∀ j, ∑ b, x i a * star (x j a') * (star (y j b) * y i b)
      = x i a * star (x j a') * (star (y j) ⬝ᵥ y i) := by
    intro j
    rw [dotProduct, Finset.mul_sum]
    rfl
  simp only [hj]
  rw [Finset.sum_eq_single i]
  · rw [vnorm2_eq_nsq, ← star_dotProduct_self]; ring
  · intro j _ hji; rw [hy j i hji]; ring
  · intro h; exact absurd (Finset.mem_univ i) h

/-- **A vector of Schmidt rank `≤ k` satisfies the reduction-type inequality** `k·(ρ_A ⊗ 1) − ρ ⪰ 0`, `ρ = |v⟩⟨v|`. -/
theorem redK_ketbra_posSemidef (k : ℕ) (v : m × n → ℂ) (hv : SchmidtLE k v) : (redK k (ketbra v)).PosSemidef := by
  obtain ⟨x, y, hy, rfl⟩ := hv
  have hD1 := ketbra_sum_le (fun i => tprod (x i) (y i))
  have hD2 : ∀ i, (ketbra (x i) ⊗ₖ (((vnorm2 (y i) : ℝ) : ℂ) • (1 : Matrix n n ℂ) - ketbra (y i))).PosSemidef := by
    intro i
    refine (ketbra_posSemidef (x i)).kronecker ?_
    have := reductionL_pos (n := n) (y i)
    rwa [reductionL_apply, trace_proj] at this
  have hsum : (∑ i, ketbra (x i) ⊗ₖ (((vnorm2 (y i) : ℝ) : ℂ) • (1 : Matrix n n ℂ) - ketbra (y i))).PosSemidef :=
    posSemidef_sum _ fun i _ => hD2 i
  have hk : (0 : ℝ) ≤ (k : ℝ) := Nat.cast_nonneg k
  have hsum' := hsum.smul hk
  have key : redK k (ketbra (∑ i, tprod (x i) (y i)))
      = (k : ℝ) • (∑ i, ketbra (x i) ⊗ₖ (((vnorm2 (y i) : ℝ) : ℂ) • (1 : Matrix n n ℂ) - ketbra (y i)))
        + ((k : ℂ) • ∑ i, ketbra (tprod (x i) (y i)) - ketbra (∑ i, tprod (x i) (y i))) := by
    unfold redK
    rw [ptrBm_ketbra_sum x y hy]
    have e1 : ∀ i, ketbra (tprod (x i) (y i)) = ketbra (x i) ⊗ₖ ketbra (y i) := fun i => ketbra_tprod _ _
    simp only [e1]
    ext ⟨a, b⟩ ⟨a', b'⟩
    simp only [Matrix.sub_apply, Matrix.add_apply, Matrix.smul_apply, Matrix.sum_apply, kroneckerMap_apply, smul_eq_mul,
      Complex.real_smul, Complex.ofReal_natCast, Finset.sum_mul, mul_sub, Finset.sum_sub_distrib, Finset.mul_sum]
    ring_nf
    rw [sub_eq_neg_add]
    congr 1
    exact Finset.sum_congr rfl fun i _ => by ring
  rw [key]
  exact hsum'.add hD1

/-- **Weak duality of the reduction-map relaxation.**  `Y ⪰ 0`, `λ·1 − X − (k·(tr_B Y) ⊗ 1 − Y) ⪰ 0` ⇒ `⟨v|X|v⟩ ≤ λ⟨v|v⟩` for every
    vector of Schmidt rank `≤ k`. -/
theorem expect_le_of_red_dual (k : ℕ) (X Y : Matrix (m × n) (m × n) ℂ) (lam : ℝ) (hY : Y.PosSemidef)
    (hS : ((lam : ℂ) • (1 : Matrix (m × n) (m × n) ℂ) - X - redK k Y).PosSemidef) (v : m × n → ℂ) (hv : SchmidtLE k v) :
    expect X v ≤ lam * vnorm2 v := by
  have h1 := psd_trace_mul_nonneg hS (ketbra_posSemidef v)
  have h2 := psd_trace_mul_nonneg hY (redK_ketbra_posSemidef k v hv)
  rw [← trace_redK_mul] at h2
  rw [Matrix.sub_mul, Matrix.sub_mul, Matrix.trace_sub, Matrix.trace_sub, Matrix.smul_mul, Matrix.one_mul, Matrix.trace_smul,
    ← vnorm2_eq_trace, smul_eq_mul, Complex.sub_re, Complex.sub_re, ← Complex.ofReal_mul, Complex.ofReal_re,
    ← expect_eq_trace] at h1
  linarith

/-! ### the class of vectors -/

theorem schmidtLE_one_iff (v : m × n → ℂ) : SchmidtLE 1 v ↔ ∃ x y, v = tprod x y := by
  constructor
  · rintro ⟨x, y, _, rfl⟩
    exact ⟨x 0, y 0, by simp⟩
  · rintro ⟨x, y, rfl⟩
    refine ⟨fun _ => x, fun _ => y, fun i j hij => absurd (Subsingleton.elim i j) hij, by simp⟩

theorem tprod_smul_left (c : ℂ) (x : m → ℂ) (y : n → ℂ) : tprod (c • x) y = c • tprod x y := by
  ext p; simp [tprod, mul_assoc]

theorem SchmidtLE.smul {k : ℕ} {v : m × n → ℂ} (h : SchmidtLE k v) (c : ℂ) : SchmidtLE k (c • v) := by
  obtain ⟨x, y, hy, rfl⟩ := h
  refine ⟨fun i => c • x i, y, hy, ?_⟩
  rw [Finset.smul_sum]
  exact Finset.sum_congr rfl fun i _ => (tprod_smul_left c (x i) (y i)).symm

theorem sum_fin_extend {M : Type*} [AddCommMonoid M] {k k' : ℕ} (hk : k ≤ k') (f : Fin k → M) :
    ∑ i : Fin k', (if h : i.val < k then f ⟨i.val, h⟩ else 0) = ∑ i, f i := by
  let g : ℕ → M := fun i => if h : i < k then f ⟨i, h⟩ else 0
  have h1 : ∑ i : Fin k', (if h : i.val < k then f ⟨i.val, h⟩ else 0) = ∑ i ∈ Finset.range k', g i :=
    Fin.sum_univ_eq_sum_range g k'
  have h2 : ∑ i, f i = ∑ i ∈ Finset.range k, g i := by
    rw [← Fin.sum_univ_eq_sum_range g k]
    exact Finset.sum_congr rfl fun i _ => by simp [g]
  rw [h1, h2]
  symm
  apply Finset.sum_subset (Finset.range_mono hk)
  intro i _ hi
  have : ¬ i < k := by simpa using hi
  simp [g, this]

/-- more terms are allowed -/
theorem SchmidtLE.mono {k k' : ℕ} {v : m × n → ℂ} (h : SchmidtLE k v) (hk : k ≤ k') : SchmidtLE k' v := by
  obtain ⟨x, y, hy, rfl⟩ := h
  refine ⟨fun i => if h : i.val < k then x ⟨i.val, h⟩ else 0, fun i => if h : i.val < k then y ⟨i.val, h⟩ else 0, ?_, ?_⟩
  · intro i j hij
    by_cases hi : i.val < k
    · by_cases hj : j.val < k
      · simp only [hi, hj, dif_pos]
        exact hy _ _ (fun e => hij (Fin.ext (by simpa using congrArg Fin.val e)))
      · simp [hj]
    · simp [hi]
  · have : ∀ i : Fin k', tprod (if h : i.val < k then x ⟨i.val, h⟩ else 0) (if h : i.val < k then y ⟨i.val, h⟩ else 0)
        = if h : i.val < k then tprod (x ⟨i.val, h⟩) (y ⟨i.val, h⟩) else 0 := by
      intro i
      by_cases hi : i.val < k
      · simp [hi]
      · ext p; simp [hi, tprod]
    simp only [this]
    exact (sum_fin_extend hk fun i => tprod (x i) (y i)).symm

theorem expect_smul {ι : Type} [Fintype ι] (X : Matrix ι ι ℂ) (c : ℂ) (v : ι → ℂ) :
    expect X (c • v) = Complex.normSq c * expect X v := by
  unfold expect
  rw [Matrix.mulVec_smul, star_smul, smul_dotProduct, dotProduct_smul, smul_eq_mul, smul_eq_mul, ← mul_assoc,
    Complex.star_def, mul_comm ((starRingEnd ℂ) c) c, Complex.mul_conj, Complex.re_ofReal_mul]

/-- the Rayleigh quotient of a non-zero vector of Schmidt rank `≤ k` is a value attained by a unit vector of Schmidt rank `≤ k` -/
theorem rayleigh_mem_skValues (k : ℕ) (X : Matrix (m × n) (m × n) ℂ) (v : m × n → ℂ) (hv : SchmidtLE k v)
    (hpos : 0 < vnorm2 v) : expect X v / vnorm2 v ∈ skValues k X := by
  set c : ℝ := (Real.sqrt (vnorm2 v))⁻¹ with hc
  have hs : 0 < Real.sqrt (vnorm2 v) := Real.sqrt_pos.mpr hpos
  have hcc : Complex.normSq (c : ℂ) = (vnorm2 v)⁻¹ := by
    rw [Complex.normSq_ofReal, hc, ← mul_inv, Real.mul_self_sqrt hpos.le]
  refine ⟨(c : ℂ) • v, hv.smul _, ?_, ?_⟩
  · rw [vnorm2_eq_nsq, nsq_smul, hcc, ← vnorm2_eq_nsq]
    exact inv_mul_cancel₀ hpos.ne'
  · rw [expect_smul, hcc]; ring

/-- every value attained by a unit vector of Schmidt rank `≤ k` is bounded by a dual feasible `λ` (reduction-map relaxation) -/
theorem skValues_le_of_red_dual (k : ℕ) (X Y : Matrix (m × n) (m × n) ℂ) (lam : ℝ) (hY : Y.PosSemidef)
    (hS : ((lam : ℂ) • (1 : Matrix (m × n) (m × n) ℂ) - X - redK k Y).PosSemidef) :
    ∀ r ∈ skValues k X, r ≤ lam := by
  rintro r ⟨v, hv, hn, rfl⟩
  have := expect_le_of_red_dual k X Y lam hY hS v hv
  rwa [hn, mul_one] at this

/-- every value attained by a unit product vector is bounded by a dual feasible `λ` (PPT relaxation) -/
theorem skValues_le_of_ppt_dual (X Y : Matrix (m × n) (m × n) ℂ) (lam : ℝ) (hY : Y.PosSemidef)
    (hS : ((lam : ℂ) • (1 : Matrix (m × n) (m × n) ℂ) - X - pT Y).PosSemidef) :
    ∀ r ∈ skValues 1 X, r ≤ lam := by
  rintro r ⟨v, hv, hn, rfl⟩
  obtain ⟨x, y, rfl⟩ := (schmidtLE_one_iff v).mp hv
  have := expect_le_of_ppt_dual X Y lam hY hS x y
  rwa [hn, mul_one] at this

/-! ### `SchmidtLE k` is "amplitude matrix of rank at most `k`" -/

theorem rank_le_of_schmidtLE {k : ℕ} (v : m × n → ℂ) (h : SchmidtLE k v) : (ampOf v).rank ≤ k := by
  obtain ⟨x, y, _, rfl⟩ := h
  have e : ampOf (∑ i, tprod (x i) (y i)) = (Matrix.of fun a i => x i a) * (Matrix.of fun i b => y i b) := by
    ext a b
    simp [ampOf, tprod, Matrix.mul_apply, Finset.sum_apply]
  rw [e]
  refine (Matrix.rank_mul_le_left _ _).trans ?_
  exact (Matrix.rank_le_card_width _).trans (by simp)

/-- every vector whose amplitude matrix has rank `≤ k` is a sum of `k` product terms with orthogonal second factors (an orthonormal basis of
    the row space) -/
theorem schmidtLE_of_rank_le {k : ℕ} (v : m × n → ℂ) (h : (ampOf v).rank ≤ k) : SchmidtLE k v := by
  classical
  set A := ampOf v with hA
  let L : (n → ℂ) ≃ₗ[ℂ] EuclideanSpace ℂ n := (WithLp.linearEquiv 2 ℂ (n → ℂ)).symm
  let S : Submodule ℂ (EuclideanSpace ℂ n) := (Submodule.span ℂ (Set.range A.row)).map L.toLinearMap
  have hd : Module.finrank ℂ S = A.rank := by
    rw [Matrix.rank_eq_finrank_span_row]
    exact LinearEquiv.finrank_map_eq L _
  let b := stdOrthonormalBasis ℂ S
  have hmem : ∀ a, L (A a) ∈ S := fun a => Submodule.mem_map_of_mem (Submodule.subset_span ⟨a, rfl⟩)
  refine SchmidtLE.mono (k := Module.finrank ℂ S) ?_ (hd ▸ h)
  refine ⟨fun j a => ⟪(b j : EuclideanSpace ℂ n), L (A a)⟫_ℂ, fun j => WithLp.ofLp (b j : EuclideanSpace ℂ n), ?_, ?_⟩
  · intro i j hij
    have : ⟪b i, b j⟫_ℂ = 0 := b.orthonormal.2 hij
    rw [Submodule.coe_inner, EuclideanSpace.inner_eq_star_dotProduct, dotProduct_comm] at this
    exact this
  · ext ⟨a, bb⟩
    have hs := b.sum_repr' ⟨L (A a), hmem a⟩
    have hs' := congrArg (fun z : S => WithLp.ofLp (z : EuclideanSpace ℂ n) bb) hs
    simp only [Submodule.coe_sum, Submodule.coe_smul, Submodule.coe_inner] at hs'
    simp only [WithLp.ofLp_sum, WithLp.ofLp_smul, Finset.sum_apply, Pi.smul_apply, smul_eq_mul] at hs'
    simp only [Finset.sum_apply, tprod]
    rw [hs']
    rfl

/-! ### the two-vector form of the norm for positive semidefinite operators -/

/-- Cauchy–Schwarz for a PSD operator: `|⟨w|X|v⟩|² ≤ ⟨w|X|w⟩ ⟨v|X|v⟩` -/
theorem normSq_bilinear_le {ι : Type} [Fintype ι] [DecidableEq ι] (X : Matrix ι ι ℂ) (hX : X.PosSemidef) (w v : ι → ℂ) :
    Complex.normSq (star w ⬝ᵥ (X *ᵥ v)) ≤ expect X w * expect X v := by
  set B := CFC.sqrt X with hB
  have hBB : B * B = X := CFC.sqrt_mul_sqrt_self X hX.nonneg
  have hH : Bᴴ = B := (CFC.sqrt_nonneg X).posSemidef.isHermitian
  have key : ∀ u z : ι → ℂ, star u ⬝ᵥ (X *ᵥ z) = star (B *ᵥ u) ⬝ᵥ (B *ᵥ z) := by
    intro u z
    rw [Matrix.star_mulVec, ← Matrix.dotProduct_mulVec, Matrix.mulVec_mulVec, hH, hBB]
  have e : ∀ u : ι → ℂ, expect X u = nsq (B *ᵥ u) := by
    intro u
    unfold expect
    rw [key, nsq_eq_re]
  rw [key, e, e]
  exact normSq_dot_le _ _

end Pairs
end Toq.Entangle

namespace Toq.Entangle
open Toq.Sep EMat

/-! ### flat index `a·dB + b` ↔ pairs, and the executable checkers -/

section Flat
variable {dA dB p q k : Nat}

/-- a flat vector read on pairs: `(a, b) ↦ v[a·dB + b]` -/
def flatV (v : Fin (dA * dB) → ℂ) : Fin dA × Fin dB → ℂ := fun pr => v (pair pr.1 pr.2)

theorem unflat_ketbra (v : Fin (dA * dB) → ℂ) : unflat (ketbra v) = ketbra (flatV v) := by
  ext ⟨a, b⟩ ⟨a', b'⟩
  rfl

theorem trace_unflat (M : Matrix (Fin (dA * dB)) (Fin (dA * dB)) ℂ) : (unflat M).trace = M.trace := by
  unfold unflat Matrix.trace
  exact Equiv.sum_comp (pairEquiv dA dB) (fun i => M i i)

theorem expect_flat (M : Matrix (Fin (dA * dB)) (Fin (dA * dB)) ℂ) (v : Fin (dA * dB) → ℂ) :
    expect M v = expect (unflat M) (flatV v) := by
  rw [expect_eq_trace, expect_eq_trace, ← unflat_ketbra, ← unflat_mul, trace_unflat]

theorem vnorm2_flat (v : Fin (dA * dB) → ℂ) : vnorm2 v = vnorm2 (flatV v) := by
  unfold vnorm2 flatV
  exact (Equiv.sum_comp (pairEquiv dA dB) (fun i => Complex.normSq (v i))).symm

theorem unflat_sub (M N : Matrix (Fin (dA * dB)) (Fin (dA * dB)) ℂ) : unflat (M - N) = unflat M - unflat N := rfl

theorem unflat_one : unflat (1 : Matrix (Fin (dA * dB)) (Fin (dA * dB)) ℂ) = 1 :=
  Matrix.submatrix_one_equiv (pairEquiv dA dB)

theorem unflat_scalar_sub (lam : Rat) (X : EMat (dA * dB) (dA * dB)) :
    unflat (scalar lam - X).toM = ((lam : ℝ) : ℂ) • (1 : Matrix (Fin dA × Fin dB) (Fin dA × Fin dB) ℂ) - unflat X.toM := by
  rw [EMat.toM_sub, EMat.toM_scalar, unflat_sub, unflat_smul, unflat_one]

theorem unflat_redKE (k : Nat) (Y : EMat (dA * dB) (dA * dB)) : unflat (redKE k Y).toM = redK k (unflat Y.toM) := by
  unfold redKE redK
  rw [EMat.toM_sub, EMat.toM_smul, unflat_sub, unflat_smul, unflat_kron, ptrBE_toM, EMat.toM_one]
  norm_num
  rfl

theorem unflat_slackPPT (X Y : EMat (dA * dB) (dA * dB)) (lam : Rat) :
    unflat (slackPPT X Y lam).toM
      = ((lam : ℝ) : ℂ) • (1 : Matrix (Fin dA × Fin dB) (Fin dA × Fin dB) ℂ) - unflat X.toM - pT (unflat Y.toM) := by
  unfold slackPPT
  rw [EMat.toM_sub, unflat_sub, unflat_scalar_sub, unflat_ptB]
  rfl

theorem unflat_slackRed (k : Nat) (X Y : EMat (dA * dB) (dA * dB)) (lam : Rat) :
    unflat (slackRed k X Y lam).toM
      = ((lam : ℝ) : ℂ) • (1 : Matrix (Fin dA × Fin dB) (Fin dA × Fin dB) ℂ) - unflat X.toM - redK k (unflat Y.toM) := by
  unfold slackRed
  rw [EMat.toM_sub, unflat_sub, unflat_scalar_sub, unflat_redKE]

theorem checkSkUpperPPT_eq {X Y : EMat (dA * dB) (dA * dB)} {LY : EMat (dA * dB) p} {lam : Rat} {LS : EMat (dA * dB) q} {hi : Rat}
    (h : checkSkUpperPPT X Y LY lam LS = some hi) :
    hi = lam ∧ psdCert Y LY = true ∧ psdCert (slackPPT X Y lam) LS = true := by
  unfold checkSkUpperPPT at h
  split at h
  · next hc =>
    rw [Bool.and_eq_true] at hc
    exact ⟨(Option.some.inj h).symm, hc.1, hc.2⟩
  · exact absurd h (by simp)

theorem checkSkUpperRed_eq {X Y : EMat (dA * dB) (dA * dB)} {LY : EMat (dA * dB) p} {lam : Rat} {LS : EMat (dA * dB) q} {hi : Rat}
    (h : checkSkUpperRed k X Y LY lam LS = some hi) :
    hi = lam ∧ psdCert Y LY = true ∧ psdCert (slackRed k X Y lam) LS = true := by
  unfold checkSkUpperRed at h
  split at h
  · next hc =>
    rw [Bool.and_eq_true] at hc
    exact ⟨(Option.some.inj h).symm, hc.1, hc.2⟩
  · exact absurd h (by simp)

theorem checkSkLower_eq {X : EMat (dA * dB) (dA * dB)} {Xs : EMat dA k} {Ys : EMat dB k} {lo : Rat}
    (h : checkSkLower X Xs Ys = some lo) :
    colsOrthogonal Ys = true ∧ 0 < normSqV (skVector Xs Ys)
      ∧ lo = quadForm X (skVector Xs Ys) / normSqV (skVector Xs Ys) := by
  unfold checkSkLower at h
  split at h
  · next hc =>
    rw [Bool.and_eq_true, decide_eq_true_eq] at hc
    exact ⟨hc.1, hc.2, (Option.some.inj h).symm⟩
  · exact absurd h (by simp)

/-- the vector built by the lower-bound checker is `Σ_i x_i ⊗ y_i` (columns of `Xs`, `Ys`) -/
theorem flatV_skVector (Xs : EMat dA k) (Ys : EMat dB k) :
    flatV (colV (skVector Xs Ys))
      = ∑ i : Fin k, tprod (fun a => (Xs.get a i).toC) (fun b => (Ys.get b i).toC) := by
  ext ⟨a, b⟩
  simp [flatV, colV, skVector, vecOfAmpE, ampOfFactors, tprod, EMat.sumFin_toC, QI.toC_mul, Finset.sum_apply]

theorem colsOrthogonal_sound (Ys : EMat dB k) (h : colsOrthogonal Ys = true) (i j : Fin k) (hij : i ≠ j) :
    star (fun b => (Ys.get b i).toC) ⬝ᵥ (fun b => (Ys.get b j).toC) = 0 := by
  unfold colsOrthogonal offDiagZero at h
  simp only [EMat.allFin_iff, Bool.or_eq_true, beq_iff_eq] at h
  have h0 := (h i j).resolve_left hij
  have := congrArg QI.toC h0
  rw [EMat.get_mul, EMat.sumFin_toC] at this
  simp only [EMat.get_ct, QI.toC_mul, QI.toC_conj, QI.toC_zero] at this
  rw [← this]
  simp [dotProduct]

theorem skVector_schmidtLE (Xs : EMat dA k) (Ys : EMat dB k) (h : colsOrthogonal Ys = true) :
    SchmidtLE k (flatV (colV (skVector Xs Ys))) :=
  ⟨fun i a => (Xs.get a i).toC, fun i b => (Ys.get b i).toC, colsOrthogonal_sound Ys h, flatV_skVector Xs Ys⟩

end Flat
end Toq.Entangle
