import Toq.Proofs.MetricsFvdG
/-!
# Pure states: `F(|ψ⟩⟨ψ|, σ) = √⟨ψ|σ|ψ⟩` and `T(|ψ⟩⟨ψ|, |φ⟩⟨φ|) = √(1 − |⟨ψ|φ⟩|²)` for the variational quantities

`IsPureProj P` abstracts `P = |ψ⟩⟨ψ|` (Hermitian idempotent of trace one with `P M P = tr(P M) P`).
-/

open Matrix
open scoped ComplexOrder MatrixOrder

set_option linter.unusedSectionVars false

namespace Toq.Metrics
section Pure
variable {ι : Type*} [Fintype ι] [DecidableEq ι]

/-- pure state (rank-one orthogonal projector): Hermitian idempotent of trace one with `Π M Π = tr(Π M) Π` -/
structure IsPureProj (P : Matrix ι ι ℂ) : Prop where
  herm : P.IsHermitian
  idem : P * P = P
  trace_one : P.trace = 1
  rank_one : ∀ M : Matrix ι ι ℂ, P * M * P = (P * M).trace • P

/-- `|ψ⟩⟨ψ|` for a unit vector `ψ` is a pure state -/
theorem isPureProj_vecMulVec (ψ : ι → ℂ) (h : star ψ ⬝ᵥ ψ = 1) : IsPureProj (vecMulVec ψ (star ψ)) where
  herm := by
    unfold Matrix.IsHermitian
    rw [conjTranspose_vecMulVec, star_star]
  idem := by
    rw [vecMulVec_mul_vecMulVec, h, one_smul]
  trace_one := by
    rw [trace_vecMulVec, dotProduct_comm]; exact h
  rank_one M := by
    rw [vecMulVec_mul, mul_vecMulVec, trace_vecMulVec, vecMulVec_mulVec, op_smul_eq_smul, smul_vecMulVec,
      dotProduct_comm]

theorem IsPureProj.posSemidef {P : Matrix ι ι ℂ} (h : IsPureProj P) : P.PosSemidef := by
  have := Matrix.posSemidef_conjTranspose_mul_self P
  rwa [h.herm.eq, h.idem] at this

theorem isPVM_pair {P : Matrix ι ι ℂ} (hH : P.IsHermitian) (hPP : P * P = P) :
    IsPVM (fun b : Bool => if b then P else 1 - P) where
  herm b := by
    cases b
    · simpa using Matrix.isHermitian_one.sub hH
    · simpa using hH
  orth a b := by
    cases a <;> cases b <;> simp [Matrix.sub_mul, Matrix.mul_sub, hPP]
  sum_one := by simp

/-- `tr(P σ)` is a non-negative real for a Hermitian idempotent `P` and positive semidefinite `σ` -/
theorem trace_proj_mul_psd {P σ : Matrix ι ι ℂ} (hH : P.IsHermitian) (hPP : P * P = P) (hσ : σ.PosSemidef) :
    (P * σ).trace = (((P * σ).trace.re : ℝ) : ℂ) := by
  have h1 : (P * σ).trace = (Pᴴ * σ * P).trace := by
    rw [hH.eq, Matrix.trace_mul_comm (P * σ) P, ← Matrix.mul_assoc, hPP]
  have h2 : 0 ≤ (Pᴴ * σ * P).trace := (hσ.conjTranspose_mul_mul_same P).trace_nonneg
  rw [← h1] at h2
  obtain ⟨-, him⟩ := Complex.nonneg_iff.mp h2
  exact Complex.ext (by simp) (by simpa using him.symm)

/-- a Hermitian idempotent `E` has `1 − E ⪰ 0` -/
theorem posSemidef_one_sub_of_idem {E : Matrix ι ι ℂ} (hH : E.IsHermitian) (hEE : E * E = E) :
    (1 - E).PosSemidef := by
  have := Matrix.posSemidef_conjTranspose_mul_self (1 - E)
  have hH' : (1 - E)ᴴ = 1 - E := by rw [Matrix.conjTranspose_sub, hH.eq]; simp
  rwa [hH', Matrix.sub_mul, Matrix.mul_sub, Matrix.mul_sub, hEE, Matrix.one_mul, Matrix.mul_one,
    Matrix.one_mul, sub_self, sub_zero] at this

/-- **Pure-state formula for the fidelity**: `F(|ψ⟩⟨ψ|, σ) = √⟨ψ|σ|ψ⟩` (value of the fidelity program). -/
theorem fidV_pure {P σ : Matrix ι ι ℂ} (hP : IsPureProj P) (hσ : σ.PosSemidef) :
    fidV P σ = Real.sqrt (P * σ).trace.re := by
  set s := (P * σ).trace.re with hs
  have hs0 : 0 ≤ s := psd_trace_mul_nonneg hP.posSemidef hσ
  refine le_antisymm ?_ ?_
  · have := fidV_le_pvm hP.posSemidef hσ (isPVM_pair hP.herm hP.idem)
    unfold cFid at this
    rw [Fintype.sum_bool] at this
    simp only [if_true, Bool.false_eq_true, if_false, hP.idem, hP.trace_one, Matrix.sub_mul,
      sub_self, Matrix.trace_zero, Complex.zero_re, Complex.one_re, zero_mul, Real.sqrt_zero, add_zero, one_mul] at this
    exact this
  · rcases hs0.eq_or_lt with h0 | hpos
    · rw [← h0, Real.sqrt_zero]
      exact le_csSup (fidSet_bddAbove P σ) (zero_mem_fidSet hP.posSemidef hσ)
    · set R := CFC.sqrt σ with hR
      have hRp : R.PosSemidef := (CFC.sqrt_nonneg σ).posSemidef
      have eR : R * R = σ := CFC.sqrt_mul_sqrt_self σ hσ.nonneg
      have hsq : 0 < Real.sqrt s := Real.sqrt_pos.mpr hpos
      set c : ℂ := (((Real.sqrt s)⁻¹ : ℝ) : ℂ) with hc
      have hcstar : star c = c := by rw [hc, Complex.star_def, Complex.conj_ofReal]
      have hcc : c * c * (s : ℂ) = 1 := by
        rw [hc, ← Complex.ofReal_mul, ← Complex.ofReal_mul, ← mul_inv, Real.mul_self_sqrt hs0,
          inv_mul_cancel₀ hpos.ne', Complex.ofReal_one]
      have htr : (P * σ).trace = (s : ℂ) := trace_proj_mul_psd hP.herm hP.idem hσ
      -- E = c² R P R is a Hermitian idempotent
      set E := (c * c) • (R * P * R) with hE
      have hEH : E.IsHermitian := by
        unfold Matrix.IsHermitian
        rw [hE, Matrix.conjTranspose_smul, Matrix.conjTranspose_mul, Matrix.conjTranspose_mul, hRp.isHermitian.eq,
          hP.herm.eq, star_mul', hcstar, Matrix.mul_assoc]
      have hEE : E * E = E := by
        have : R * P * R * (R * P * R) = (s : ℂ) • (R * P * R) := by
          calc R * P * R * (R * P * R) = R * (P * (R * R) * P) * R := by simp only [Matrix.mul_assoc]
            _ = R * ((s : ℂ) • P) * R := by rw [eR, hP.rank_one, htr]
            _ = _ := by rw [Matrix.mul_smul, Matrix.smul_mul]
        rw [hE, Matrix.smul_mul, Matrix.mul_smul, this, smul_smul, smul_smul]
        congr 1
        calc c * c * (c * c) * (s : ℂ) = c * c * (c * c * (s : ℂ)) := by ring
          _ = c * c := by rw [hcc, mul_one]
      have h1E := posSemidef_one_sub_of_idem hEH hEE
      have hrem : (σ - (c * c) • (σ * P * σ)).PosSemidef := by
        have := h1E.conjTranspose_mul_mul_same R
        rw [hRp.isHermitian.eq, Matrix.mul_sub, Matrix.sub_mul, Matrix.mul_one, eR, hE, Matrix.mul_smul,
          Matrix.smul_mul] at this
        have e : R * (R * P * R) * R = σ * P * σ := by
          calc R * (R * P * R) * R = (R * R) * P * (R * R) := by simp only [Matrix.mul_assoc]
            _ = _ := by rw [eR]
        rwa [e] at this
      -- Gram part
      have hg := posSemidef_fromBlocks_gram P (c • (P * σ))
      have hBH : (c • (P * σ))ᴴ = c • (σ * P) := by
        rw [Matrix.conjTranspose_smul, Matrix.conjTranspose_mul, hσ.isHermitian.eq, hP.herm.eq, hcstar]
      rw [hBH, hP.herm.eq, hP.idem, Matrix.mul_smul, ← Matrix.mul_assoc, hP.idem, Matrix.smul_mul,
        Matrix.smul_mul, Matrix.mul_smul, smul_smul] at hg
      have e5 : σ * P * (P * σ) = σ * P * σ := by
        calc σ * P * (P * σ) = σ * (P * P) * σ := by simp only [Matrix.mul_assoc]
          _ = _ := by rw [hP.idem]
      rw [e5] at hg
      have hsum := hg.add (posSemidef_fromBlocks_diag (Matrix.PosSemidef.zero (n := ι) (R := ℂ)) hrem)
      rw [fromBlocks_add] at hsum
      simp only [add_zero, add_sub_cancel] at hsum
      rw [Matrix.mul_assoc σ P P, hP.idem] at hsum
      have hfeas : FidFeasible P σ (c • (P * σ)) := by
        unfold FidFeasible
        rw [hBH]
        exact hsum
      have := le_fidV_gen hfeas
      rw [Matrix.trace_smul, htr, smul_eq_mul, hc, ← Complex.ofReal_mul, Complex.ofReal_re] at this
      refine le_trans (le_of_eq ?_) this
      have := Real.mul_self_sqrt hs0
      field_simp
      linarith

/-- a Hermitian matrix with `W³ = W` (spectrum in `{−1, 0, 1}`) is a contraction -/
theorem isContraction_of_cube_eq_self {W : Matrix ι ι ℂ} (hH : W.IsHermitian) (h3 : W * W * W = W) :
    IsContraction W := by
  set E := W * W with hE
  have hEH : E.IsHermitian := by
    have := Matrix.isHermitian_conjTranspose_mul_self W; rwa [hH.eq] at this
  have hEW : E * W = W := h3
  have hWE : W * E = W := by rw [hE, ← Matrix.mul_assoc]; exact h3
  have hEE : E * E = E := by
    calc E * E = E * W * W := by rw [hE]; simp only [Matrix.mul_assoc]
      _ = E := by rw [hEW]
  have h1E := posSemidef_one_sub_of_idem hEH hEE
  have half : (0 : ℂ) ≤ 1 / 2 := by
    rw [Complex.nonneg_iff]; constructor <;> norm_num
  have hm : (E - W).PosSemidef := by
    have h := (Matrix.posSemidef_conjTranspose_mul_self (E - W)).smul half
    have hH' : (E - W)ᴴ = E - W := by rw [Matrix.conjTranspose_sub, hEH.eq, hH.eq]
    have : (E - W) * (E - W) = (2 : ℂ) • (E - W) := by
      rw [Matrix.sub_mul, Matrix.mul_sub, Matrix.mul_sub, hEE, hEW, hWE, ← hE]; module
    rw [hH', this, smul_smul] at h
    simpa using h
  have hp : (E + W).PosSemidef := by
    have h := (Matrix.posSemidef_conjTranspose_mul_self (E + W)).smul half
    have hH' : (E + W)ᴴ = E + W := by rw [Matrix.conjTranspose_add, hEH.eq, hH.eq]
    have : (E + W) * (E + W) = (2 : ℂ) • (E + W) := by
      rw [Matrix.add_mul, Matrix.mul_add, Matrix.mul_add, hEE, hEW, hWE, ← hE]; module
    rw [hH', this, smul_smul] at h
    simpa using h
  constructor
  · have := h1E.add hm
    rwa [sub_add_sub_cancel] at this
  · have := h1E.add hp
    have e : (1 : Matrix ι ι ℂ) - E + (E + W) = 1 + W := by abel
    rwa [e] at this

/-- **Trace distance of two pure states**: `T(|ψ⟩⟨ψ|, |φ⟩⟨φ|) = √(1 − |⟨ψ|φ⟩|²)`, with `|⟨ψ|φ⟩|² = tr(P Q)`. -/
theorem traceNormV_pure_pure {P Q : Matrix ι ι ℂ} (hP : IsPureProj P) (hQ : IsPureProj Q) :
    traceNormV (P - Q) / 2 = Real.sqrt (1 - (P * Q).trace.re) := by
  set t := (P * Q).trace.re with ht
  have ht0 : 0 ≤ t := psd_trace_mul_nonneg hP.posSemidef hQ.posSemidef
  have hD : (P - Q).IsHermitian := hP.herm.sub hQ.herm
  have hT0 : 0 ≤ traceNormV (P - Q) / 2 := by have := traceNormV_nonneg_gen hD; linarith
  have hup := fvdg_upper_gen hP.posSemidef hQ.posSemidef hP.trace_one hQ.trace_one
  rw [fidV_pure hP hQ.posSemidef, Real.sq_sqrt ht0] at hup
  have ht1 : 0 ≤ 1 - t := by nlinarith [sq_nonneg (traceNormV (P - Q) / 2)]
  refine le_antisymm (Real.le_sqrt_of_sq_le (by linarith)) ?_
  rcases ht1.eq_or_lt with h0 | hpos
  · rw [← h0, Real.sqrt_zero]; exact hT0
  · set μ := Real.sqrt (1 - t) with hμ
    have hμpos : 0 < μ := Real.sqrt_pos.mpr hpos
    have hμμ : μ * μ = 1 - t := Real.mul_self_sqrt ht1
    have htr : (P * Q).trace = (t : ℂ) := trace_proj_mul_psd hP.herm hP.idem hQ.posSemidef
    have htr' : (Q * P).trace = (t : ℂ) := by rw [Matrix.trace_mul_comm]; exact htr
    have hPQP : P * Q * P = (t : ℂ) • P := by rw [hP.rank_one, htr]
    have hQPQ : Q * P * Q = (t : ℂ) • Q := by rw [hQ.rank_one, htr']
    have e2 : (P - Q) * (P - Q) = P + Q - P * Q - Q * P := by
      rw [Matrix.sub_mul, Matrix.mul_sub, Matrix.mul_sub, hP.idem, hQ.idem]; abel
    have e3 : (P - Q) * (P - Q) * (P - Q) = ((1 - t : ℝ) : ℂ) • (P - Q) := by
      rw [e2]
      simp only [Matrix.add_mul, Matrix.sub_mul, Matrix.mul_sub, hP.idem, hQ.idem, Matrix.mul_assoc P Q Q,
        Matrix.mul_assoc Q P P, hPQP, hQPQ]
      push_cast
      module
    set c : ℂ := ((μ⁻¹ : ℝ) : ℂ) with hc
    have hcstar : star c = c := by rw [hc, Complex.star_def, Complex.conj_ofReal]
    have hW : IsContraction (c • (P - Q)) := by
      refine isContraction_of_cube_eq_self ?_ ?_
      · unfold Matrix.IsHermitian; rw [Matrix.conjTranspose_smul, hD.eq, hcstar]
      · simp only [Matrix.smul_mul, Matrix.mul_smul]
        rw [e3, smul_smul, smul_smul, smul_smul]
        congr 1
        rw [hc, ← Complex.ofReal_mul, ← Complex.ofReal_mul, ← Complex.ofReal_mul]
        congr 1
        rw [← hμμ]; field_simp
    have := le_traceNormV_gen hD hW
    rw [Matrix.smul_mul, e2, Matrix.trace_smul, smul_eq_mul, hc, Complex.re_ofReal_mul] at this
    simp only [Matrix.trace_sub, Matrix.trace_add, hP.trace_one, hQ.trace_one, htr, htr', Complex.sub_re,
      Complex.add_re, Complex.one_re, Complex.ofReal_re] at this
    have e : μ⁻¹ * (1 + 1 - t - t) = 2 * μ := by
      have : (1 : ℝ) + 1 - t - t = 2 * (μ * μ) := by rw [hμμ]; ring
      rw [this]; field_simp
    rw [e] at this
    linarith

end Pure
end Toq.Metrics
