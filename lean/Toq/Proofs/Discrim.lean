import Toq.Model.Discrim
import Toq.Proofs.Cert
import Mathlib.LinearAlgebra.UnitaryGroup
import Mathlib.Analysis.Matrix.HermitianFunctionalCalculus
import Mathlib.Analysis.Matrix.Spectrum
/-!
# Helper lemmas for C10 (state discrimination): weak duality over an arbitrary finite index type and
soundness of the function-indexed core checkers of `Toq.Model.Discrim`.
-/

open Matrix
open scoped ComplexOrder MatrixOrder

namespace Toq.Discrim
open EMat

/-! ## Weak duality, index-type generic -/

section Generic
variable {ι κ : Type*} [Fintype ι] [DecidableEq ι] [Fintype κ]

omit [DecidableEq ι] in
theorem re_trace_smul_mul (c : ℝ) (A B : Matrix ι ι ℂ) :
    (((c : ℂ) • A) * B).trace.re = c * (A * B).trace.re := by
  rw [Matrix.smul_mul, Matrix.trace_smul, smul_eq_mul, Complex.re_ofReal_mul]

/-- minimum-error discrimination: any POVM value is below any dual-feasible `tr Y` -/
theorem minErr_weak_duality_gen (ρ : κ → Matrix ι ι ℂ) (p : κ → ℝ) (M : κ → Matrix ι ι ℂ)
    (Y : Matrix ι ι ℂ) (hM : ∀ i, (M i).PosSemidef) (hsum : ∑ i, M i = 1)
    (hY : ∀ i, (Y - (p i : ℂ) • ρ i).PosSemidef) :
    ∑ i, p i * (ρ i * M i).trace.re ≤ Y.trace.re := by
  have h1 : ∀ i, 0 ≤ ((Y - (p i : ℂ) • ρ i) * M i).trace.re :=
    fun i => psd_trace_mul_nonneg (hY i) (hM i)
  have h2 : Y.trace = ∑ i, (Y * M i).trace := by
    rw [← Matrix.trace_sum, ← Matrix.mul_sum, hsum, Matrix.mul_one]
  have h3 : 0 ≤ ∑ i, ((Y - (p i : ℂ) • ρ i) * M i).trace.re :=
    Finset.sum_nonneg fun i _ => h1 i
  rw [h2]
  simp only [Matrix.sub_mul, Matrix.trace_sub, Complex.sub_re, Finset.sum_sub_distrib,
    Complex.re_sum, re_trace_smul_mul] at h3 ⊢
  linarith

theorem re_trace_diagonal_mul (q : ι → ℝ) (Z : Matrix ι ι ℂ) :
    ((Matrix.diagonal fun i => (q i : ℂ)) * Z).trace.re = ∑ i, q i * (Z i i).re := by
  simp [Matrix.trace, Matrix.diagonal_mul]

/-- unambiguous discrimination (Gram form): `Σ p_i q_i ≤ Re tr(G Z)` for primal-feasible `q` and
dual-feasible `Z` -/
theorem unamb_weak_duality_gen (G Z : Matrix ι ι ℂ) (p q : ι → ℝ) (hq : ∀ i, 0 ≤ q i)
    (hG : (G - Matrix.diagonal fun i => (q i : ℂ)).PosSemidef) (hZ : Z.PosSemidef)
    (hp : ∀ i, p i ≤ (Z i i).re) :
    ∑ i, p i * q i ≤ (G * Z).trace.re := by
  have h := psd_trace_mul_nonneg hG hZ
  rw [Matrix.sub_mul, Matrix.trace_sub, Complex.sub_re, re_trace_diagonal_mul] at h
  have h2 : ∑ i, p i * q i ≤ ∑ i, q i * (Z i i).re := by
    refine Finset.sum_le_sum fun i _ => ?_
    rw [mul_comm]
    exact mul_le_mul_of_nonneg_left (hp i) (hq i)
  linarith

end Generic

/-! ## Denotation of the auxiliary exact matrices -/

variable {d k : Nat}

theorem toM_diagQ (q : Fin k → Rat) :
    (diagQ q).toM = Matrix.diagonal fun i => (((q i : Rat) : ℝ) : ℂ) := by
  ext i j
  by_cases h : i = j <;> simp [diagQ, h, QI.toC_ofRat]

theorem toM_sumMats (k : Nat) (M : Fin k → EMat d d) : (sumMats k M).toM = ∑ i, (M i).toM := by
  ext a b
  simp [sumMats, sumFin_toC, Matrix.sum_apply]

theorem lens3Ok_iff (k a b c : Nat) : lens3Ok k a b c = true ↔ a = k ∧ b = k ∧ c = k := by
  simp [lens3Ok, and_assoc]

/-! ## Soundness of the core checkers -/

theorem minErrValueFn_cast (k : Nat) (ρ : Fin k → EMat d d) (p : Fin k → Rat) (M : Fin k → EMat d d) :
    ((minErrValueFn k ρ p M : Rat) : ℝ)
      = ∑ i, ((p i : Rat) : ℝ) * ((ρ i).toM * (M i).toM).trace.re := by
  unfold minErrValueFn
  rw [sumFinQ_cast]
  refine Finset.sum_congr rfl fun i _ => ?_
  rw [Rat.cast_mul, re_trace, toM_mul]

theorem checkMinErrPrimalFn_sound (k : Nat) (ρ : Fin k → EMat d d) (p : Fin k → Rat)
    (M LM : Fin k → EMat d d) (lo : Rat) (h : checkMinErrPrimalFn k ρ p M LM = some lo) :
    (∀ i, (M i).toM.PosSemidef) ∧ ∑ i, (M i).toM = 1 ∧
      ∑ i, ((p i : Rat) : ℝ) * ((ρ i).toM * (M i).toM).trace.re = (lo : ℝ) := by
  unfold checkMinErrPrimalFn at h
  split at h
  · next hc =>
    simp only [Bool.and_eq_true, povmPsdOk, povmSumOk, allFin_iff] at hc
    obtain ⟨hpsd, hsum⟩ := hc
    refine ⟨fun i => psdCert_sound _ _ (hpsd i), ?_, ?_⟩
    · rw [← toM_sumMats, beq_sound _ _ hsum, toM_one]
    · rw [← minErrValueFn_cast]
      exact congrArg _ (Option.some.inj h)
  · exact absurd h (by simp)

theorem checkMinErrDualFn_sound (k : Nat) (ρ : Fin k → EMat d d) (p : Fin k → Rat) (Y : EMat d d)
    (LY : Fin k → EMat d d) (hi : Rat) (h : checkMinErrDualFn k ρ p Y LY = some hi) :
    (∀ i, (Y.toM - (((p i : Rat) : ℝ) : ℂ) • (ρ i).toM).PosSemidef) ∧ Y.toM.trace.re = (hi : ℝ) := by
  unfold checkMinErrDualFn at h
  split at h
  · next hc =>
    simp only [Bool.and_eq_true, dualPsdOk, allFin_iff] at hc
    obtain ⟨-, hpsd⟩ := hc
    refine ⟨fun i => ?_, ?_⟩
    · have := psdCert_sound _ _ (hpsd i)
      rwa [toM_sub, toM_smul] at this
    · rw [← re_trace]
      exact congrArg _ (Option.some.inj h)
  · exact absurd h (by simp)

theorem unambValueFn_cast (k : Nat) (p q : Fin k → Rat) :
    ((unambValueFn k p q : Rat) : ℝ) = ∑ i, ((p i : Rat) : ℝ) * ((q i : Rat) : ℝ) := by
  unfold unambValueFn
  rw [sumFinQ_cast]
  exact Finset.sum_congr rfl fun i _ => Rat.cast_mul _ _

theorem checkUnambPrimalFn_sound (G : EMat k k) (p q : Fin k → Rat) (L : EMat k k) (lo : Rat)
    (h : checkUnambPrimalFn G p q L = some lo) :
    (∀ i, (0 : ℝ) ≤ ((q i : Rat) : ℝ)) ∧
      (G.toM - Matrix.diagonal fun i => (((q i : Rat) : ℝ) : ℂ)).PosSemidef ∧
      ∑ i, ((p i : Rat) : ℝ) * ((q i : Rat) : ℝ) = (lo : ℝ) := by
  unfold checkUnambPrimalFn at h
  split at h
  · next hc =>
    simp only [Bool.and_eq_true, qNonnegOk, allFin_iff, decide_eq_true_eq] at hc
    obtain ⟨hq, hpsd⟩ := hc
    refine ⟨fun i => by exact_mod_cast hq i, ?_, ?_⟩
    · have := psdCert_sound _ _ hpsd
      rwa [toM_sub, toM_diagQ] at this
    · rw [← unambValueFn_cast]
      exact congrArg _ (Option.some.inj h)
  · exact absurd h (by simp)

theorem checkUnambDualFn_sound (G : EMat k k) (p : Fin k → Rat) (Z LZ : EMat k k) (hi : Rat)
    (h : checkUnambDualFn G p Z LZ = some hi) :
    Z.toM.PosSemidef ∧ (∀ i, ((p i : Rat) : ℝ) ≤ (Z.toM i i).re) ∧
      (G.toM * Z.toM).trace.re = (hi : ℝ) := by
  unfold checkUnambDualFn at h
  split at h
  · next hc =>
    simp only [Bool.and_eq_true, zDiagOk, allFin_iff, decide_eq_true_eq] at hc
    obtain ⟨hpsd, hp⟩ := hc
    refine ⟨psdCert_sound _ _ hpsd, fun i => ?_, ?_⟩
    · rw [toM_apply, QI.toC_re]
      exact_mod_cast hp i
    · rw [← toM_mul, ← re_trace]
      exact congrArg _ (Option.some.inj h)
  · exact absurd h (by simp)

end Toq.Discrim

/-! # Extensions: elementary bounds, perfect discrimination, invariances, PGM, Helstrom, unambiguous closed forms

(helper lemmas of the second group of theorems of `Toq/Properties/C10.lean`; all names carry the prefixes `me…` / `ua…`
so that they do not clash with the analogous lemmas of `Toq.Excl` when both namespaces are open) -/

set_option linter.unusedSectionVars false

namespace Toq.Discrim

section GenericExt
variable {ι κ : Type*} [Fintype ι] [DecidableEq ι] [Fintype κ]

/-! ### Elementary bounds -/

omit [DecidableEq ι] in
theorem me_psd_smul {A : Matrix ι ι ℂ} (hA : A.PosSemidef) {c : ℝ} (hc : 0 ≤ c) :
    ((c : ℂ) • A).PosSemidef :=
  hA.smul (by exact_mod_cast hc)

omit [DecidableEq ι] [Fintype ι] in
theorem me_sum_sub_eq_erase [DecidableEq κ] (A : κ → Matrix ι ι ℂ) (i : κ) :
    ∑ j, A j - A i = ∑ j ∈ Finset.univ.erase i, A j := by
  rw [← Finset.add_sum_erase _ _ (Finset.mem_univ i)]; abel

/-- `Y = Σ_j p_j ρ_j` is dual feasible for PSD states and non-negative priors -/
theorem me_sum_dual_feasible (ρ : κ → Matrix ι ι ℂ) (p : κ → ℝ) (hρ : ∀ i, (ρ i).PosSemidef)
    (hp : ∀ i, 0 ≤ p i) (i : κ) : ((∑ j, (p j : ℂ) • ρ j) - (p i : ℂ) • ρ i).PosSemidef := by
  classical
  rw [me_sum_sub_eq_erase]
  exact Matrix.posSemidef_sum _ fun j _ => me_psd_smul (hρ j) (hp j)

omit [DecidableEq ι] in
theorem me_trace_sum_smul (ρ : κ → Matrix ι ι ℂ) (p : κ → ℝ) :
    (∑ j, (p j : ℂ) • ρ j).trace.re = ∑ j, p j * (ρ j).trace.re := by
  rw [Matrix.trace_sum, Complex.re_sum]
  refine Finset.sum_congr rfl fun j _ => ?_
  rw [Matrix.trace_smul, smul_eq_mul, Complex.re_ofReal_mul]

/-- every POVM value is at most `Σ_j p_j tr ρ_j` -/
theorem me_le_sum_trace (ρ : κ → Matrix ι ι ℂ) (p : κ → ℝ) (M : κ → Matrix ι ι ℂ)
    (hρ : ∀ i, (ρ i).PosSemidef) (hp : ∀ i, 0 ≤ p i) (hM : ∀ i, (M i).PosSemidef)
    (hsum : ∑ i, M i = 1) :
    ∑ i, p i * (ρ i * M i).trace.re ≤ ∑ j, p j * (ρ j).trace.re := by
  have := minErr_weak_duality_gen ρ p M _ hM hsum (me_sum_dual_feasible ρ p hρ hp)
  rwa [me_trace_sum_smul] at this

/-- every family of PSD operators has non-negative value on PSD states with non-negative weights -/
theorem me_nonneg (ρ : κ → Matrix ι ι ℂ) (p : κ → ℝ) (M : κ → Matrix ι ι ℂ)
    (hρ : ∀ i, (ρ i).PosSemidef) (hp : ∀ i, 0 ≤ p i) (hM : ∀ i, (M i).PosSemidef) :
    0 ≤ ∑ i, p i * (ρ i * M i).trace.re :=
  Finset.sum_nonneg fun i _ => mul_nonneg (hp i) (psd_trace_mul_nonneg (hρ i) (hM i))

/-! ### The measurement "always answer `j`" -/

/-- the measurement "always answer `j`" -/
def meConstPovm [DecidableEq κ] (j : κ) : κ → Matrix ι ι ℂ := fun i => if i = j then 1 else 0

omit [Fintype ι] [Fintype κ] in
theorem meConstPovm_psd [DecidableEq κ] (j i : κ) : (meConstPovm (ι := ι) j i).PosSemidef := by
  unfold meConstPovm
  split
  · exact Matrix.PosSemidef.one
  · exact Matrix.PosSemidef.zero

omit [Fintype ι] in
theorem meConstPovm_sum [DecidableEq κ] (j : κ) : ∑ i, meConstPovm (ι := ι) j i = 1 := by
  unfold meConstPovm
  rw [Finset.sum_ite_eq' Finset.univ j]
  simp

theorem meConstPovm_value [DecidableEq κ] (ρ : κ → Matrix ι ι ℂ) (p : κ → ℝ) (j : κ) :
    ∑ i, p i * (ρ i * meConstPovm j i).trace.re = p j * (ρ j).trace.re := by
  have : ∀ i, p i * (ρ i * meConstPovm j i).trace.re = if i = j then p j * (ρ j).trace.re else 0 := by
    intro i
    unfold meConstPovm
    split
    · next h => subst h; simp
    · simp
  simp only [this]
  rw [Finset.sum_ite_eq' Finset.univ j]
  simp

/-! ### Perfect discrimination with orthogonal projectors -/

/-- the measurement built from orthogonal projectors `Π_i`; the remainder `1 − Σ Π_i` is added to
outcome `j0` -/
def meProjPovm [DecidableEq κ] (Pr : κ → Matrix ι ι ℂ) (j0 : κ) : κ → Matrix ι ι ℂ :=
  fun i => Pr i + if i = j0 then 1 - ∑ l, Pr l else 0

theorem me_sum_proj_idem [DecidableEq κ] (Pr : κ → Matrix ι ι ℂ) (hI : ∀ i, Pr i * Pr i = Pr i)
    (hO : ∀ i j, i ≠ j → Pr i * Pr j = 0) : (∑ l, Pr l) * (∑ l, Pr l) = ∑ l, Pr l := by
  rw [Finset.sum_mul]
  refine Finset.sum_congr rfl fun i _ => ?_
  rw [Finset.mul_sum, Finset.sum_eq_single i]
  · exact hI i
  · intro j _ hj; exact hO i j (Ne.symm hj)
  · intro h; exact absurd (Finset.mem_univ i) h

theorem me_rest_psd [DecidableEq κ] (Pr : κ → Matrix ι ι ℂ) (hH : ∀ i, (Pr i).IsHermitian)
    (hI : ∀ i, Pr i * Pr i = Pr i) (hO : ∀ i j, i ≠ j → Pr i * Pr j = 0) :
    (1 - ∑ l, Pr l).PosSemidef := by
  have hS : (∑ l, Pr l).IsHermitian := isSelfAdjoint_sum _ fun i _ => hH i
  have hR : (1 - ∑ l, Pr l).IsHermitian := Matrix.isHermitian_one.sub hS
  have h2 : (1 - ∑ l, Pr l)ᴴ * (1 - ∑ l, Pr l) = 1 - ∑ l, Pr l := by
    rw [hR.eq, Matrix.sub_mul, Matrix.mul_sub, Matrix.mul_sub, Matrix.one_mul, Matrix.mul_one,
      Matrix.one_mul, me_sum_proj_idem Pr hI hO]
    abel
  rw [← h2]
  exact Matrix.posSemidef_conjTranspose_mul_self _

theorem meProjPovm_psd [DecidableEq κ] (Pr : κ → Matrix ι ι ℂ) (j0 : κ)
    (hH : ∀ i, (Pr i).IsHermitian)
    (hI : ∀ i, Pr i * Pr i = Pr i) (hO : ∀ i j, i ≠ j → Pr i * Pr j = 0) (i : κ) :
    (meProjPovm Pr j0 i).PosSemidef := by
  have hP : (Pr i).PosSemidef := by
    have : (Pr i)ᴴ * Pr i = Pr i := by rw [(hH i).eq, hI i]
    rw [← this]
    exact Matrix.posSemidef_conjTranspose_mul_self _
  unfold meProjPovm
  split
  · exact hP.add (me_rest_psd Pr hH hI hO)
  · simpa using hP

omit [Fintype ι] in
theorem meProjPovm_sum [DecidableEq κ] (Pr : κ → Matrix ι ι ℂ) (j0 : κ) :
    ∑ i, meProjPovm Pr j0 i = 1 := by
  unfold meProjPovm
  rw [Finset.sum_add_distrib, Finset.sum_ite_eq' Finset.univ j0]
  simp

theorem meProjPovm_mul [DecidableEq κ] (ρ Pr : κ → Matrix ι ι ℂ) (j0 : κ)
    (hO : ∀ i j, i ≠ j → Pr i * Pr j = 0)
    (hρ : ∀ i, ρ i * Pr i = ρ i) (i : κ) : ρ i * meProjPovm Pr j0 i = ρ i := by
  unfold meProjPovm
  split
  · next h =>
    subst h
    have : ρ i * ∑ l, Pr l = ρ i := by
      rw [Finset.mul_sum, Finset.sum_eq_single i]
      · exact hρ i
      · intro j _ hj
        rw [← hρ i, Matrix.mul_assoc, hO i j (Ne.symm hj), Matrix.mul_zero]
      · intro h; exact absurd (Finset.mem_univ i) h
    rw [Matrix.mul_add, Matrix.mul_sub, Matrix.mul_one, this, hρ i]
    abel
  · rw [add_zero, hρ i]

/-! ### Unitary conjugation and relabelling -/

omit [DecidableEq ι] in
theorem me_conj_psd (U A : Matrix ι ι ℂ) (hA : A.PosSemidef) : (U * A * Uᴴ).PosSemidef :=
  hA.mul_mul_conjTranspose_same U

omit [DecidableEq ι] in
theorem me_conj_sum (U : Matrix ι ι ℂ) (M : κ → Matrix ι ι ℂ) :
    ∑ i, U * M i * Uᴴ = U * (∑ i, M i) * Uᴴ := by
  rw [Matrix.mul_sum, Matrix.sum_mul]

theorem me_conj_trace_mul (U A B : Matrix ι ι ℂ) (hU : Uᴴ * U = 1) :
    ((U * A * Uᴴ) * (U * B * Uᴴ)).trace = (A * B).trace := by
  have h : (U * A * Uᴴ) * (U * B * Uᴴ) = U * (A * B) * Uᴴ := by
    calc (U * A * Uᴴ) * (U * B * Uᴴ) = U * A * (Uᴴ * U) * B * Uᴴ := by
          simp only [Matrix.mul_assoc]
      _ = U * (A * B) * Uᴴ := by rw [hU, Matrix.mul_one]; simp only [Matrix.mul_assoc]
  rw [h, Matrix.trace_mul_comm, ← Matrix.mul_assoc, hU, Matrix.one_mul]

theorem me_conj_conj (U A : Matrix ι ι ℂ) (hU : Uᴴ * U = 1) : Uᴴ * (U * A * Uᴴ) * Uᴴᴴ = A := by
  rw [Matrix.conjTranspose_conjTranspose]
  calc Uᴴ * (U * A * Uᴴ) * U = (Uᴴ * U) * A * (Uᴴ * U) := by simp only [Matrix.mul_assoc]
    _ = A := by rw [hU, Matrix.one_mul, Matrix.mul_one]

/-! ### Pretty good measurement -/

theorem me_pgm_psd (ρ : κ → Matrix ι ι ℂ) (p : κ → ℝ) (S : Matrix ι ι ℂ)
    (hρ : ∀ i, (ρ i).PosSemidef) (hp : ∀ i, 0 ≤ p i) (hS : Sᴴ = S) (i : κ) :
    (S * ((p i : ℂ) • ρ i) * S).PosSemidef := by
  have := (me_psd_smul (hρ i) (hp i)).mul_mul_conjTranspose_same S
  rwa [hS] at this

omit [DecidableEq ι] in
theorem me_pgm_sum (ρ : κ → Matrix ι ι ℂ) (p : κ → ℝ) (S : Matrix ι ι ℂ) :
    ∑ i, S * ((p i : ℂ) • ρ i) * S = S * (∑ i, (p i : ℂ) • ρ i) * S := by
  rw [Matrix.mul_sum, Matrix.sum_mul]

end GenericExt

end Toq.Discrim

namespace Toq.Discrim

section GenericExt2
variable {ι κ : Type*} [Fintype ι] [DecidableEq ι] [Fintype κ]

/-! ### Support projector of a Hermitian matrix (functional calculus) -/

/-- `A⁺`: the inverse on the support (`x ↦ x⁻¹` applied to the spectrum, `0⁻¹ = 0`) -/
noncomputable def mePinv (A : Matrix ι ι ℂ) : Matrix ι ι ℂ := cfc (fun x : ℝ => x⁻¹) A

/-- the support projector `A A⁺` -/
noncomputable def meSupp (A : Matrix ι ι ℂ) : Matrix ι ι ℂ := A * mePinv A

theorem meSupp_eq_cfc {A : Matrix ι ι ℂ} (hA : A.IsHermitian) :
    meSupp A = cfc (fun x : ℝ => x * x⁻¹) A := by
  have hA' : IsSelfAdjoint A := hA
  unfold meSupp mePinv
  rw [cfc_mul (fun x : ℝ => x) (fun x : ℝ => x⁻¹) A (A.finite_real_spectrum.continuousOn _)
    (A.finite_real_spectrum.continuousOn _), cfc_id' ℝ A]

theorem meSupp_isHermitian {A : Matrix ι ι ℂ} (hA : A.IsHermitian) : (meSupp A).IsHermitian := by
  rw [meSupp_eq_cfc hA]
  exact cfc_predicate (fun x : ℝ => x * x⁻¹) A

theorem meSupp_idem {A : Matrix ι ι ℂ} (hA : A.IsHermitian) : meSupp A * meSupp A = meSupp A := by
  rw [meSupp_eq_cfc hA, ← cfc_mul (fun x : ℝ => x * x⁻¹) (fun x : ℝ => x * x⁻¹) A
    (A.finite_real_spectrum.continuousOn _) (A.finite_real_spectrum.continuousOn _)]
  congr 1
  funext x
  by_cases hx : x = 0
  · simp [hx]
  · field_simp

theorem mul_meSupp {A : Matrix ι ι ℂ} (hA : A.IsHermitian) : A * meSupp A = A := by
  have hA' : IsSelfAdjoint A := hA
  have h1 : cfc (fun x : ℝ => x * (x * x⁻¹)) A = cfc (fun x : ℝ => x) A := by
    congr 1
    funext x
    by_cases hx : x = 0
    · simp [hx]
    · field_simp
  rw [cfc_mul (fun x : ℝ => x) (fun x : ℝ => x * x⁻¹) A (A.finite_real_spectrum.continuousOn _)
    (A.finite_real_spectrum.continuousOn _), cfc_id' ℝ A] at h1
  rw [meSupp_eq_cfc hA]
  exact h1

theorem meSupp_eq_pinv_mul {A : Matrix ι ι ℂ} (hA : A.IsHermitian) : meSupp A = mePinv A * A := by
  have hA' : IsSelfAdjoint A := hA
  have h1 : cfc (fun x : ℝ => x * x⁻¹) A = cfc (fun x : ℝ => x⁻¹ * x) A := by
    congr 1
    funext x
    exact mul_comm _ _
  rw [cfc_mul (fun x : ℝ => x⁻¹) (fun x : ℝ => x) A (A.finite_real_spectrum.continuousOn _)
    (A.finite_real_spectrum.continuousOn _), cfc_id' ℝ A] at h1
  rw [meSupp_eq_cfc hA]
  exact h1

theorem meSupp_mul_meSupp {A B : Matrix ι ι ℂ} (hA : A.IsHermitian) (hAB : A * B = 0) :
    meSupp A * meSupp B = 0 := by
  rw [meSupp_eq_pinv_mul hA]
  unfold meSupp
  rw [Matrix.mul_assoc, ← Matrix.mul_assoc A B, hAB, Matrix.zero_mul, Matrix.mul_zero]

/-! ### Two states: tests, contractions and the Helstrom value -/

/-- value of the two-outcome measurement `(E, 1 − E)` -/
theorem me_two_value (ρ0 ρ1 E : Matrix ι ι ℂ) (p0 p1 : ℝ) :
    p0 * (ρ0 * E).trace.re + p1 * (ρ1 * (1 - E)).trace.re
      = p1 * ρ1.trace.re + (((p0 : ℂ) • ρ0 - (p1 : ℂ) • ρ1) * E).trace.re := by
  rw [Matrix.sub_mul, Matrix.trace_sub, Complex.sub_re, re_trace_smul_mul, re_trace_smul_mul,
    Matrix.mul_sub, Matrix.mul_one, Matrix.trace_sub, Complex.sub_re]
  ring

theorem me_half_psd {A : Matrix ι ι ℂ} (hA : A.PosSemidef) : ((1 / 2 : ℂ) • A).PosSemidef := by
  have := me_psd_smul hA (by norm_num : (0 : ℝ) ≤ 1 / 2)
  have h2 : (((1 / 2 : ℝ)) : ℂ) = 1 / 2 := by norm_num
  rwa [h2] at this

theorem me_half_sum (W : Matrix ι ι ℂ) : (1 / 2 : ℂ) • (1 + W) + (1 / 2 : ℂ) • (1 - W) = 1 := by
  rw [← smul_add]
  have : (1 + W) + (1 - W) = (2 : ℂ) • (1 : Matrix ι ι ℂ) := by rw [two_smul]; abel
  rw [this, smul_smul]
  norm_num

/-- value of the measurement `((1+W)/2, (1−W)/2)` -/
theorem me_two_value_contraction (ρ0 ρ1 W : Matrix ι ι ℂ) (p0 p1 : ℝ) :
    p0 * (ρ0 * ((1 / 2 : ℂ) • (1 + W))).trace.re + p1 * (ρ1 * ((1 / 2 : ℂ) • (1 - W))).trace.re
      = (p0 * ρ0.trace.re + p1 * ρ1.trace.re) / 2
        + (W * ((p0 : ℂ) • ρ0 - (p1 : ℂ) • ρ1)).trace.re / 2 := by
  have h : ∀ A B : Matrix ι ι ℂ, (A * ((1 / 2 : ℂ) • B)).trace.re = (A * B).trace.re / 2 := by
    intro A B
    rw [Matrix.mul_smul, Matrix.trace_smul, smul_eq_mul]
    simp; ring
  have hW : (W * ((p0 : ℂ) • ρ0 - (p1 : ℂ) • ρ1)).trace.re
      = p0 * (ρ0 * W).trace.re - p1 * (ρ1 * W).trace.re := by
    rw [Matrix.trace_mul_comm, Matrix.sub_mul, Matrix.trace_sub, Complex.sub_re, re_trace_smul_mul,
      re_trace_smul_mul]
  rw [h, h, hW]
  simp only [Matrix.mul_add, Matrix.mul_sub, Matrix.mul_one, Matrix.trace_add, Matrix.trace_sub,
    Complex.add_re, Complex.sub_re]
  ring

/-- a two-outcome POVM is `((1+W)/2, (1−W)/2)` for `W = M₀ − M₁` -/
theorem me_two_povm_eq (M0 M1 : Matrix ι ι ℂ) (h : M0 + M1 = 1) :
    M0 = (1 / 2 : ℂ) • (1 + (M0 - M1)) ∧ M1 = (1 / 2 : ℂ) • (1 - (M0 - M1)) := by
  have e1 : 1 + (M0 - M1) = (2 : ℂ) • M0 := by rw [← h, two_smul]; abel
  have e2 : 1 - (M0 - M1) = (2 : ℂ) • M1 := by rw [← h, two_smul]; abel
  rw [e1, e2, smul_smul, smul_smul]
  norm_num

theorem me_two_contraction (M0 M1 : Matrix ι ι ℂ) (h0 : M0.PosSemidef) (h1 : M1.PosSemidef)
    (h : M0 + M1 = 1) : (1 - (M0 - M1)).PosSemidef ∧ (1 + (M0 - M1)).PosSemidef := by
  have e1 : 1 + (M0 - M1) = M0 + M0 := by rw [← h]; abel
  have e2 : 1 - (M0 - M1) = M1 + M1 := by rw [← h]; abel
  rw [e1, e2]
  exact ⟨h1.add h1, h0.add h0⟩

/-! ### Unambiguous discrimination: dependent states, trivial bounds, two states -/

/-- a kernel vector of `G` forces `q_j = 0` wherever its `j`-th component does not vanish -/
theorem ua_zero_of_kernel (G : Matrix ι ι ℂ) (q : ι → ℝ) (c : ι → ℂ) (hq : ∀ i, 0 ≤ q i)
    (hG : (G - Matrix.diagonal fun i => (q i : ℂ)).PosSemidef) (hc : G *ᵥ c = 0) (j : ι)
    (hj : c j ≠ 0) : q j = 0 := by
  have h := hG.dotProduct_mulVec_nonneg c
  rw [Matrix.sub_mulVec, hc, zero_sub, dotProduct_neg] at h
  have h2 : star c ⬝ᵥ ((Matrix.diagonal fun i => (q i : ℂ)) *ᵥ c)
      = ((∑ i, q i * Complex.normSq (c i) : ℝ) : ℂ) := by
    simp only [dotProduct, Matrix.mulVec_diagonal, Pi.star_apply, Complex.ofReal_sum,
      Complex.ofReal_mul]
    refine Finset.sum_congr rfl fun i _ => ?_
    rw [Complex.normSq_eq_conj_mul_self]
    simp only [Complex.star_def]; ring
  rw [h2, ← Complex.ofReal_neg, Complex.zero_le_real] at h
  have h3 : ∀ i ∈ Finset.univ, 0 ≤ q i * Complex.normSq (c i) :=
    fun i _ => mul_nonneg (hq i) (Complex.normSq_nonneg _)
  have h4 : ∑ i, q i * Complex.normSq (c i) = 0 :=
    le_antisymm (by linarith) (Finset.sum_nonneg h3)
  have h5 := (Finset.sum_eq_zero_iff_of_nonneg h3).mp h4 j (Finset.mem_univ j)
  rcases mul_eq_zero.mp h5 with h6 | h6
  · exact h6
  · exact absurd (Complex.normSq_eq_zero.mp h6) hj

/-- `Z = diag p` is dual feasible with value `Σ_i p_i Re G_ii` -/
theorem ua_trace_mul_diagonal (G : Matrix ι ι ℂ) (p : ι → ℝ) :
    (G * Matrix.diagonal fun i => (p i : ℂ)).trace.re = ∑ i, p i * (G i i).re := by
  simp [Matrix.trace, Matrix.mul_diagonal, mul_comm]

theorem ua_diagonal_psd (p : ι → ℝ) (hp : ∀ i, 0 ≤ p i) :
    (Matrix.diagonal fun i => (p i : ℂ)).PosSemidef :=
  Matrix.PosSemidef.diagonal fun i => by
    show (0 : ℂ) ≤ (p i : ℂ)
    exact_mod_cast hp i

/-- `[[a, b], [conj b, a]]` is PSD for real `a ≥ |b|` -/
theorem ua_psd_two (a : ℝ) (b : ℂ) (h : ‖b‖ ≤ a) :
    (!![(a : ℂ), b; (starRingEnd ℂ) b, (a : ℂ)] : Matrix (Fin 2) (Fin 2) ℂ).PosSemidef := by
  refine Matrix.posSemidef_of_diagDominant ?_ ?_
  · ext i j
    fin_cases i <;> fin_cases j <;> simp [Matrix.conjTranspose_apply]
  · intro i
    fin_cases i
    · simpa [Finset.sum_erase, Fin.sum_univ_two] using h
    · simpa [Finset.sum_erase, Fin.sum_univ_two] using h

/-- `s · conj(s/|s|) = |s|` (with `0/0 = 0`) -/
theorem ua_mul_conj_phase (s : ℂ) : s * (starRingEnd ℂ) (s / (‖s‖ : ℂ)) = (‖s‖ : ℂ) := by
  by_cases hs : s = 0
  · simp [hs]
  · have hn : (‖s‖ : ℂ) ≠ 0 := by exact_mod_cast (norm_ne_zero_iff.mpr hs)
    rw [map_div₀, Complex.conj_ofReal, mul_div_assoc', Complex.mul_conj, Complex.normSq_eq_norm_sq]
    push_cast
    field_simp

theorem ua_norm_phase_le (s : ℂ) : ‖s / (‖s‖ : ℂ)‖ ≤ 1 := by
  by_cases hs : s = 0
  · simp [hs]
  · rw [norm_div, Complex.norm_real, norm_norm, div_self (norm_ne_zero_iff.mpr hs)]

end GenericExt2

end Toq.Discrim

namespace Toq.Discrim

/-- Cauchy–Schwarz for a `2 × 2` PSD matrix with unit diagonal: `|G₀₁| ≤ 1` -/
theorem ua_offdiag_le_one (G : Matrix (Fin 2) (Fin 2) ℂ) (hG : G.PosSemidef) (h0 : G 0 0 = 1)
    (h1 : G 1 1 = 1) : ‖G 0 1‖ ≤ 1 := by
  have hs10 : G 1 0 = (starRingEnd ℂ) (G 0 1) := (hG.isHermitian.apply 1 0).symm
  have h := hG.dotProduct_mulVec_nonneg ![G 0 1, -1]
  have key : star ![G 0 1, -1] ⬝ᵥ (G *ᵥ ![G 0 1, -1]) = ((1 - ‖G 0 1‖ ^ 2 : ℝ) : ℂ) := by
    simp only [dotProduct, Matrix.mulVec, Fin.sum_univ_two, Pi.star_apply, Matrix.cons_val_zero,
      Matrix.cons_val_one, h0, h1, hs10, Complex.star_def]
    push_cast
    rw [← Complex.conj_mul' (G 0 1)]
    simp
    ring
  rw [key, Complex.zero_le_real] at h
  have h2 : ‖G 0 1‖ ^ 2 ≤ 1 := by linarith
  exact (sq_le_one_iff₀ (norm_nonneg _)).mp h2

/-- a Hermitian `2 × 2` matrix with unit diagonal is determined by its `(0, 1)` entry -/
theorem ua_gram2_eq (G : Matrix (Fin 2) (Fin 2) ℂ) (hG : G.IsHermitian) (h0 : G 0 0 = 1)
    (h1 : G 1 1 = 1) : G = !![1, G 0 1; (starRingEnd ℂ) (G 0 1), 1] := by
  have hs10 : G 1 0 = (starRingEnd ℂ) (G 0 1) := (hG.apply 1 0).symm
  ext i j
  fin_cases i <;> fin_cases j <;> simp [h0, h1, hs10]

end Toq.Discrim
