import Toq.Model.Discrim
import Toq.Proofs.Cert
/-!
# Helper lemmas for C10 (state discrimination): weak duality over an arbitrary finite index type and
soundness of the function-indexed core checkers of `Toq.Model.Discrim`.
-/

open Matrix
open scoped ComplexOrder MatrixOrder

namespace Toq.Discrim
open EMat

/-! ## Weak duality, index-type generic -/

section Generic
variable {ι κ : Type*} [Fintype ι] [DecidableEq ι] [Fintype κ]

omit [DecidableEq ι] in
theorem re_trace_smul_mul (c : ℝ) (A B : Matrix ι ι ℂ) :
    (((c : ℂ) • A) * B).trace.re = c * (A * B).trace.re := by
  rw [Matrix.smul_mul, Matrix.trace_smul, smul_eq_mul, Complex.re_ofReal_mul]

/-- minimum-error discrimination: any POVM value is below any dual-feasible `tr Y` -/
theorem minErr_weak_duality_gen (ρ : κ → Matrix ι ι ℂ) (p : κ → ℝ) (M : κ → Matrix ι ι ℂ)
    (Y : Matrix ι ι ℂ) (hM : ∀ i, (M i).PosSemidef) (hsum : ∑ i, M i = 1)
    (hY : ∀ i, (Y - (p i : ℂ) • ρ i).PosSemidef) :
    ∑ i, p i * (ρ i * M i).trace.re ≤ Y.trace.re := by
  have h1 : ∀ i, 0 ≤ ((Y - (p i : ℂ) • ρ i) * M i).trace.re :=
    fun i => psd_trace_mul_nonneg (hY i) (hM i)
  have h2 : Y.trace = ∑ i, (Y * M i).trace := by
    rw [← Matrix.trace_sum, ← Matrix.mul_sum, hsum, Matrix.mul_one]
  have h3 : 0 ≤ ∑ i, ((Y - (p i : ℂ) • ρ i) * M i).trace.re :=
    Finset.sum_nonneg fun i _ => h1 i
  rw [h2]
  simp only [Matrix.sub_mul, Matrix.trace_sub, Complex.sub_re, Finset.sum_sub_distrib,
    Complex.re_sum, re_trace_smul_mul] at h3 ⊢
  linarith

theorem re_trace_diagonal_mul (q : ι → ℝ) (Z : Matrix ι ι ℂ) :
    ((Matrix.diagonal fun i => (q i : ℂ)) * Z).trace.re = ∑ i, q i * (Z i i).re := by
  simp [Matrix.trace, Matrix.diagonal_mul]

/-- unambiguous discrimination (Gram form): `Σ p_i q_i ≤ Re tr(G Z)` for primal-feasible `q` and
dual-feasible `Z` -/
theorem unamb_weak_duality_gen (G Z : Matrix ι ι ℂ) (p q : ι → ℝ) (hq : ∀ i, 0 ≤ q i)
    (hG : (G - Matrix.diagonal fun i => (q i : ℂ)).PosSemidef) (hZ : Z.PosSemidef)
    (hp : ∀ i, p i ≤ (Z i i).re) :
    ∑ i, p i * q i ≤ (G * Z).trace.re := by
  have h := psd_trace_mul_nonneg hG hZ
  rw [Matrix.sub_mul, Matrix.trace_sub, Complex.sub_re, re_trace_diagonal_mul] at h
  have h2 : ∑ i, p i * q i ≤ ∑ i, q i * (Z i i).re := by
    refine Finset.sum_le_sum fun i _ => ?_
    rw [mul_comm]
    exact mul_le_mul_of_nonneg_left (hp i) (hq i)
  linarith

end Generic

/-! ## Denotation of the auxiliary exact matrices -/

variable {d k : Nat}

theorem toM_diagQ (q : Fin k → Rat) :
    (diagQ q).toM = Matrix.diagonal fun i => (((q i : Rat) : ℝ) : ℂ) := by
  ext i j
  by_cases h : i = j <;> simp [diagQ, h, QI.toC_ofRat]

theorem toM_sumMats (k : Nat) (M : Fin k → EMat d d) : (sumMats k M).toM = ∑ i, (M i).toM := by
  ext a b
  simp [sumMats, sumFin_toC, Matrix.sum_apply]

theorem lens3Ok_iff (k a b c : Nat) : lens3Ok k a b c = true ↔ a = k ∧ b = k ∧ c = k := by
  simp [lens3Ok, and_assoc]

/-! ## Soundness of the core checkers -/

theorem minErrValueFn_cast (k : Nat) (ρ : Fin k → EMat d d) (p : Fin k → Rat) (M : Fin k → EMat d d) :
    ((minErrValueFn k ρ p M : Rat) : ℝ)
      = ∑ i, ((p i : Rat) : ℝ) * ((ρ i).toM * (M i).toM).trace.re := by
  unfold minErrValueFn
  rw [sumFinQ_cast]
  refine Finset.sum_congr rfl fun i _ => ?_
  rw [Rat.cast_mul, re_trace, toM_mul]

theorem checkMinErrPrimalFn_sound (k : Nat) (ρ : Fin k → EMat d d) (p : Fin k → Rat)
    (M LM : Fin k → EMat d d) (lo : Rat) (h : checkMinErrPrimalFn k ρ p M LM = some lo) :
    (∀ i, (M i).toM.PosSemidef) ∧ ∑ i, (M i).toM = 1 ∧
      ∑ i, ((p i : Rat) : ℝ) * ((ρ i).toM * (M i).toM).trace.re = (lo : ℝ) := by
  unfold checkMinErrPrimalFn at h
  split at h
  · next hc =>
    simp only [Bool.and_eq_true, povmPsdOk, povmSumOk, allFin_iff] at hc
    obtain ⟨hpsd, hsum⟩ := hc
    refine ⟨fun i => psdCert_sound _ _ (hpsd i), ?_, ?_⟩
    · rw [← toM_sumMats, beq_sound _ _ hsum, toM_one]
    · rw [← minErrValueFn_cast]
      exact congrArg _ (Option.some.inj h)
  · exact absurd h (by simp)

theorem checkMinErrDualFn_sound (k : Nat) (ρ : Fin k → EMat d d) (p : Fin k → Rat) (Y : EMat d d)
    (LY : Fin k → EMat d d) (hi : Rat) (h : checkMinErrDualFn k ρ p Y LY = some hi) :
    (∀ i, (Y.toM - (((p i : Rat) : ℝ) : ℂ) • (ρ i).toM).PosSemidef) ∧ Y.toM.trace.re = (hi : ℝ) := by
  unfold checkMinErrDualFn at h
  split at h
  · next hc =>
    simp only [Bool.and_eq_true, dualPsdOk, allFin_iff] at hc
    obtain ⟨-, hpsd⟩ := hc
    refine ⟨fun i => ?_, ?_⟩
    · have := psdCert_sound _ _ (hpsd i)
      rwa [toM_sub, toM_smul] at this
    · rw [← re_trace]
      exact congrArg _ (Option.some.inj h)
  · exact absurd h (by simp)

theorem unambValueFn_cast (k : Nat) (p q : Fin k → Rat) :
    ((unambValueFn k p q : Rat) : ℝ) = ∑ i, ((p i : Rat) : ℝ) * ((q i : Rat) : ℝ) := by
  unfold unambValueFn
  rw [sumFinQ_cast]
  exact Finset.sum_congr rfl fun i _ => Rat.cast_mul _ _

theorem checkUnambPrimalFn_sound (G : EMat k k) (p q : Fin k → Rat) (L : EMat k k) (lo : Rat)
    (h : checkUnambPrimalFn G p q L = some lo) :
    (∀ i, (0 : ℝ) ≤ ((q i : Rat) : ℝ)) ∧
      (G.toM - Matrix.diagonal fun i => (((q i : Rat) : ℝ) : ℂ)).PosSemidef ∧
      ∑ i, ((p i : Rat) : ℝ) * ((q i : Rat) : ℝ) = (lo : ℝ) := by
  unfold checkUnambPrimalFn at h
  split at h
  · next hc =>
    simp only [Bool.and_eq_true, qNonnegOk, allFin_iff, decide_eq_true_eq] at hc
    obtain ⟨hq, hpsd⟩ := hc
    refine ⟨fun i => by exact_mod_cast hq i, ?_, ?_⟩
    · have := psdCert_sound _ _ hpsd
      rwa [toM_sub, toM_diagQ] at this
    · rw [← unambValueFn_cast]
      exact congrArg _ (Option.some.inj h)
  · exact absurd h (by simp)

theorem checkUnambDualFn_sound (G : EMat k k) (p : Fin k → Rat) (Z LZ : EMat k k) (hi : Rat)
    (h : checkUnambDualFn G p Z LZ = some hi) :
    Z.toM.PosSemidef ∧ (∀ i, ((p i : Rat) : ℝ) ≤ (Z.toM i i).re) ∧
      (G.toM * Z.toM).trace.re = (hi : ℝ) := by
  unfold checkUnambDualFn at h
  split at h
  · next hc =>
    simp only [Bool.and_eq_true, zDiagOk, allFin_iff, decide_eq_true_eq] at hc
    obtain ⟨hpsd, hp⟩ := hc
    refine ⟨psdCert_sound _ _ hpsd, fun i => ?_, ?_⟩
    · rw [toM_apply, QI.toC_re]
      exact_mod_cast hp i
    · rw [← toM_mul, ← re_trace]
      exact congrArg _ (Option.some.inj h)
  · exact absurd h (by simp)

end Toq.Discrim
