import Toq.Proofs.ExtGames
import Mathlib.Algebra.BigOperators.Ring.Finset
import Mathlib.Algebra.BigOperators.Fin
/-!
# Parallel repetition of the hedging / cloning programs: product certificates (C09)

The programs of `QuantumHedging` / `optimal_clone` for `n` repetitions act on `n` copies of `ℂ^α ⊗ ℂ^β`
(`α`: the systems that are traced out, `β`: the inputs).  toqito orders the tensor factors
`Y₁ X₁ Y₂ X₂ …` (hedging) resp. `Y₁Z₁X₁ Y₂Z₂X₂ …` (cloning, `α = Y ⊗ Z`): an index is a digit sequence
`k ↦ (i k, j k)`, i.e. an element of `Fin n → α × β`; `Q^{⊗n}` is `piKron`.  The constraint
`Tr_{outputs} X = 1` and the dual operator `π (1 ⊗ Y) πᴴ` read the index through the regrouping
`splitIdx : (Fin n → α × β) ≃ (Fin n → α) × (Fin n → β)` — the subsystem permutation `_pperm` / `pperm` of the code.

* `piKron_mul`, `piKron_trace`, `piKron_psd`, `piKron_sub_psd` (tensor products of `A_k ⪰ B_k ⪰ 0` are ordered);
* `hedge_primal_piKron`: tensor products of primal-feasible points are primal feasible for the `n`-fold program, values
  multiply (`trace_piKron_mul`);
* `hedge_maxdual_piKron`: for `Q_k ⪰ 0` tensor products of dual-feasible points are dual feasible, `tr` multiplies;
* two factors of unequal dimensions (`kron2_*`) and the bridge to flat indices (`unflat_submatrix_flatKron`).
-/

open Matrix Kronecker
open scoped ComplexOrder MatrixOrder

namespace Toq.ExtGames

/-! ## Tensor products indexed by digit sequences -/

section Pi
variable {ι : Type*} [Fintype ι] [DecidableEq ι]

/-- `A 0 ⊗ A 1 ⊗ … ⊗ A (n-1)` with rows and columns indexed by digit sequences -/
def piKron {n : ℕ} (A : Fin n → Matrix ι ι ℂ) : Matrix (Fin n → ι) (Fin n → ι) ℂ :=
  fun p q => ∏ k, A k (p k) (q k)

omit [Fintype ι] [DecidableEq ι] in
theorem piKron_apply {n : ℕ} (A : Fin n → Matrix ι ι ℂ) (p q : Fin n → ι) :
    piKron A p q = ∏ k, A k (p k) (q k) := rfl

omit [DecidableEq ι] in
theorem piKron_mul {n : ℕ} (A B : Fin n → Matrix ι ι ℂ) :
    piKron A * piKron B = piKron (fun k => A k * B k) := by
  ext p q
  simp only [piKron, Matrix.mul_apply]
  rw [Finset.prod_univ_sum, Fintype.piFinset_univ]
  exact Finset.sum_congr rfl fun r _ => Finset.prod_mul_distrib.symm

omit [DecidableEq ι] in
theorem piKron_trace {n : ℕ} (A : Fin n → Matrix ι ι ℂ) : (piKron A).trace = ∏ k, (A k).trace := by
  simp only [Matrix.trace, Matrix.diag_apply, piKron]
  rw [Finset.prod_univ_sum, Fintype.piFinset_univ]

omit [DecidableEq ι] in
/-- values multiply: `tr((⊗ Q_k)(⊗ X_k)) = ∏ tr(Q_k X_k)` -/
theorem trace_piKron_mul {n : ℕ} (Q X : Fin n → Matrix ι ι ℂ) :
    (piKron Q * piKron X).trace = ∏ k, (Q k * X k).trace := by
  rw [piKron_mul, piKron_trace]

omit [Fintype ι] in
theorem piKron_one {n : ℕ} : piKron (fun _ : Fin n => (1 : Matrix ι ι ℂ)) = 1 := by
  ext p q
  simp only [piKron, Matrix.one_apply]
  rw [Finset.prod_boole]
  by_cases h : p = q
  · subst h; simp
  · rw [if_neg h, if_neg]
    intro hall
    exact h (funext fun k => hall k (Finset.mem_univ k))

omit [Fintype ι] [DecidableEq ι] in
/-- head/tail decomposition: `A 0 ⊗ (A 1 ⊗ … )` -/
theorem piKron_succ {n : ℕ} (A : Fin (n + 1) → Matrix ι ι ℂ) :
    piKron A = ((A 0) ⊗ₖ piKron (fun k : Fin n => A k.succ)).submatrix
      (fun p => (p 0, fun k : Fin n => p k.succ)) (fun p => (p 0, fun k : Fin n => p k.succ)) := by
  ext p q
  simp only [piKron, Matrix.submatrix_apply, Matrix.kroneckerMap_apply]
  exact Fin.prod_univ_succ _

omit [Fintype ι] in
theorem piKron_zero_dim (A : Fin 0 → Matrix ι ι ℂ) : piKron A = 1 := by
  ext p q
  have : p = q := Subsingleton.elim p q
  subst this
  simp [piKron]

/-- a tensor product of positive semidefinite matrices is positive semidefinite -/
theorem piKron_psd : ∀ {n : ℕ} (A : Fin n → Matrix ι ι ℂ), (∀ k, (A k).PosSemidef) → (piKron A).PosSemidef
  | 0, A, _ => by rw [piKron_zero_dim]; exact Matrix.PosSemidef.one
  | n + 1, A, h => by
    rw [piKron_succ]
    exact ((h 0).kronecker (piKron_psd (fun k : Fin n => A k.succ) fun k => h k.succ)).submatrix _

/-- tensor products are monotone on the positive cone: `A_k ⪰ B_k ⪰ 0` for all `k` implies `⊗ A_k ⪰ ⊗ B_k` -/
theorem piKron_sub_psd : ∀ {n : ℕ} (A B : Fin n → Matrix ι ι ℂ), (∀ k, (B k).PosSemidef) →
    (∀ k, (A k - B k).PosSemidef) → (piKron A - piKron B).PosSemidef
  | 0, A, B, _, _ => by
    rw [piKron_zero_dim, piKron_zero_dim, sub_self]; exact Matrix.PosSemidef.zero
  | n + 1, A, B, hB, hAB => by
    have hA : ∀ k, (A k).PosSemidef := fun k => by
      have := (hAB k).add (hB k)
      rwa [sub_add_cancel] at this
    rw [piKron_succ A, piKron_succ B]
    change (((A 0) ⊗ₖ piKron (fun k : Fin n => A k.succ) - (B 0) ⊗ₖ piKron (fun k : Fin n => B k.succ)).submatrix
      (fun p : Fin (n + 1) → ι => (p 0, fun k : Fin n => p k.succ))
      (fun p : Fin (n + 1) → ι => (p 0, fun k : Fin n => p k.succ))).PosSemidef
    have hsplit : (A 0) ⊗ₖ piKron (fun k : Fin n => A k.succ) - (B 0) ⊗ₖ piKron (fun k : Fin n => B k.succ)
        = (A 0 - B 0) ⊗ₖ piKron (fun k : Fin n => A k.succ)
          + (B 0) ⊗ₖ (piKron (fun k : Fin n => A k.succ) - piKron (fun k : Fin n => B k.succ)) := by
      ext ⟨a, t⟩ ⟨a', t'⟩
      simp only [Matrix.sub_apply, Matrix.add_apply, Matrix.kroneckerMap_apply]
      ring
    rw [hsplit]
    refine Matrix.PosSemidef.submatrix (Matrix.PosSemidef.add ?_ ?_) _
    · exact (hAB 0).kronecker (piKron_psd _ fun k => hA k.succ)
    · exact (hB 0).kronecker (piKron_sub_psd _ _ (fun k => hB k.succ) fun k => hAB k.succ)

end Pi

/-! ## The `n`-fold hedging / cloning program -/

section PiHedge
variable {α β : Type*} [Fintype α] [Fintype β] [DecidableEq α] [DecidableEq β]

/-- regrouping of the tensor factors `(Y₁X₁)(Y₂X₂)… ↦ (Y₁Y₂…)(X₁X₂…)` -/
def splitIdx (n : ℕ) : (Fin n → α × β) ≃ (Fin n → α) × (Fin n → β) where
  toFun p := (fun k => (p k).1, fun k => (p k).2)
  invFun ij := fun k => (ij.1 k, ij.2 k)
  left_inv _ := rfl
  right_inv _ := rfl

/-- an operator given in toqito's order of the tensor factors, read in the order (all outputs, all inputs) -/
def regroup {n : ℕ} (M : Matrix (Fin n → α × β) (Fin n → α × β) ℂ) :
    Matrix ((Fin n → α) × (Fin n → β)) ((Fin n → α) × (Fin n → β)) ℂ :=
  M.submatrix (splitIdx n).symm (splitIdx n).symm

omit [DecidableEq α] [DecidableEq β] [Fintype β] in
theorem ptrace1_regroup_piKron {n : ℕ} (X : Fin n → Matrix (α × β) (α × β) ℂ) :
    ptrace1 (regroup (piKron X)) = piKron fun k => ptrace1 (X k) := by
  ext j j'
  simp only [ptrace1, regroup, Matrix.submatrix_apply, piKron, splitIdx, Equiv.coe_fn_symm_mk]
  rw [Finset.prod_univ_sum, Fintype.piFinset_univ]

omit [Fintype α] [Fintype β] [DecidableEq β] in
theorem regroup_piKron_one_kron {n : ℕ} (Y : Fin n → Matrix β β ℂ) :
    regroup (piKron fun k => (1 : Matrix α α ℂ) ⊗ₖ Y k) = (1 : Matrix (Fin n → α) (Fin n → α) ℂ) ⊗ₖ piKron Y := by
  ext ⟨i, j⟩ ⟨i', j'⟩
  simp only [regroup, Matrix.submatrix_apply, piKron, splitIdx, Equiv.coe_fn_symm_mk, Matrix.kroneckerMap_apply]
  rw [Finset.prod_mul_distrib]
  congr 1
  exact congrFun (congrFun (piKron_one (ι := α) (n := n)) i) i'

/-- **Tensor products of primal-feasible points are primal feasible** for the `n`-fold program: `⊗ X_k ⪰ 0` and the
partial trace over all output systems is the identity on all input systems. -/
theorem hedge_primal_piKron {n : ℕ} (X : Fin n → Matrix (α × β) (α × β) ℂ) (h : ∀ k, HedgeFeasible (X k)) :
    HedgeFeasible (regroup (piKron X)) := by
  refine ⟨(piKron_psd X fun k => (h k).1).submatrix _, ?_⟩
  rw [ptrace1_regroup_piKron]
  have : (fun k => ptrace1 (X k)) = fun _ : Fin n => (1 : Matrix β β ℂ) := funext fun k => (h k).2
  rw [this, piKron_one]

/-- **Tensor products of dual-feasible points are dual feasible (maximisation, `Q_k ⪰ 0`)**:
`1 ⊗ Y_k ⪰ Q_k ⪰ 0` for all `k` implies `1 ⊗ (⊗ Y_k) ⪰ ⊗ Q_k` (read in the order outputs, inputs). -/
theorem hedge_maxdual_piKron {n : ℕ} (Q : Fin n → Matrix (α × β) (α × β) ℂ) (Y : Fin n → Matrix β β ℂ)
    (hQ : ∀ k, (Q k).PosSemidef) (hY : ∀ k, (((1 : Matrix α α ℂ) ⊗ₖ Y k) - Q k).PosSemidef) :
    (((1 : Matrix (Fin n → α) (Fin n → α) ℂ) ⊗ₖ piKron Y) - regroup (piKron Q)).PosSemidef := by
  rw [← regroup_piKron_one_kron]
  change (((piKron fun k => (1 : Matrix α α ℂ) ⊗ₖ Y k) - piKron Q).submatrix (splitIdx n).symm (splitIdx n).symm).PosSemidef
  exact (piKron_sub_psd _ _ hQ hY).submatrix _

/-- **Dual-feasible points of the minimisation program with `Y_k ⪰ 0`**: `Q_k ⪰ 1 ⊗ Y_k ⪰ 0` implies
`⊗ Q_k ⪰ 1 ⊗ (⊗ Y_k)`.  (Without `Y_k ⪰ 0` this fails — quantum hedging.) -/
theorem hedge_mindual_piKron {n : ℕ} (Q : Fin n → Matrix (α × β) (α × β) ℂ) (Y : Fin n → Matrix β β ℂ)
    (hY0 : ∀ k, (Y k).PosSemidef) (hY : ∀ k, (Q k - ((1 : Matrix α α ℂ) ⊗ₖ Y k)).PosSemidef) :
    (regroup (piKron Q) - ((1 : Matrix (Fin n → α) (Fin n → α) ℂ) ⊗ₖ piKron Y)).PosSemidef := by
  rw [← regroup_piKron_one_kron]
  change ((piKron Q - piKron fun k => (1 : Matrix α α ℂ) ⊗ₖ Y k).submatrix (splitIdx n).symm (splitIdx n).symm).PosSemidef
  exact (piKron_sub_psd _ _ (fun k => Matrix.PosSemidef.one.kronecker (hY0 k)) hY).submatrix _

omit [DecidableEq α] [DecidableEq β] in
theorem trace_regroup_mul {n : ℕ} (M N : Matrix (Fin n → α × β) (Fin n → α × β) ℂ) :
    (regroup M * regroup N).trace = (M * N).trace :=
  trace_mul_submatrix_equiv (splitIdx n).symm M N

end PiHedge

/-! ## Real traces -/

section RealTrace
variable {ι : Type*} [Fintype ι]

/-- the trace of a product of two Hermitian matrices is real -/
theorem trace_mul_im_eq_zero {A B : Matrix ι ι ℂ} (hA : A.IsHermitian) (hB : B.IsHermitian) : (A * B).trace.im = 0 := by
  have h : star (A * B).trace = (A * B).trace := by
    rw [← Matrix.trace_conjTranspose, Matrix.conjTranspose_mul, hA.eq, hB.eq, Matrix.trace_mul_comm]
  exact Complex.conj_eq_iff_im.mp h

theorem trace_im_eq_zero {A : Matrix ι ι ℂ} (hA : A.IsHermitian) : A.trace.im = 0 := by
  have h : star A.trace = A.trace := by rw [← Matrix.trace_conjTranspose, hA.eq]
  exact Complex.conj_eq_iff_im.mp h

/-- a product of complex numbers with vanishing imaginary parts: the real part is the product of the real parts -/
theorem re_prod_of_im_zero {n : ℕ} (z : Fin n → ℂ) (h : ∀ k, (z k).im = 0) : (∏ k, z k).re = ∏ k, (z k).re := by
  have hz : ∀ k, z k = (((z k).re : ℝ) : ℂ) := fun k => Complex.ext (by simp) (by simp [h k])
  calc (∏ k, z k).re = (∏ k, (((z k).re : ℝ) : ℂ)).re := by
        congr 1; exact Finset.prod_congr rfl fun k _ => hz k
    _ = ∏ k, (z k).re := by rw [← Complex.ofReal_prod, Complex.ofReal_re]

end RealTrace

/-! ## Optimality of product points for every number of repetitions -/

section PiOpt
variable {α β : Type*} [Fintype α] [Fintype β] [DecidableEq α] [DecidableEq β]

/-- For `Q_k ⪰ 0`, primal-feasible `X_k` and dual-feasible Hermitian `Y_k` (`1 ⊗ Y_k ⪰ Q_k`), in the `n`-fold program
(operators in toqito's order `Y₁X₁Y₂X₂…`, constraints read through `regroup`): `⊗ X_k` is feasible, its value is
`∏ Re tr(Q_k X_k)`, `Re tr(⊗ Y_k) = ∏ Re tr Y_k`, and EVERY feasible point has value at most `∏ Re tr Y_k`. -/
theorem hedge_piKron_bracket {n : ℕ} (Q X : Fin n → Matrix (α × β) (α × β) ℂ) (Y : Fin n → Matrix β β ℂ)
    (hQ : ∀ k, (Q k).PosSemidef) (hX : ∀ k, HedgeFeasible (X k)) (hYh : ∀ k, (Y k).IsHermitian)
    (hY : ∀ k, (((1 : Matrix α α ℂ) ⊗ₖ Y k) - Q k).PosSemidef) :
    HedgeFeasible (regroup (piKron X)) ∧
      (piKron Q * piKron X).trace.re = ∏ k, (Q k * X k).trace.re ∧
      (piKron Y).trace.re = ∏ k, (Y k).trace.re ∧
      ∀ X' : Matrix (Fin n → α × β) (Fin n → α × β) ℂ, HedgeFeasible (regroup X') →
        (piKron Q * X').trace.re ≤ ∏ k, (Y k).trace.re := by
  have hYtr : (piKron Y).trace.re = ∏ k, (Y k).trace.re := by
    rw [piKron_trace]
    exact re_prod_of_im_zero _ fun k => trace_im_eq_zero (hYh k)
  refine ⟨hedge_primal_piKron X hX, ?_, hYtr, fun X' hX' => ?_⟩
  · rw [trace_piKron_mul]
    exact re_prod_of_im_zero _ fun k => trace_mul_im_eq_zero (hQ k).isHermitian (hX k).1.isHermitian
  · rw [← hYtr, ← trace_regroup_mul]
    exact hedge_max_weak_duality_prod _ _ _ hX' (hedge_maxdual_piKron Q Y hQ hY)

end PiOpt

/-! ## Two factors of arbitrary (unequal) dimensions -/

section Two
variable {α₁ β₁ α₂ β₂ : Type*} [Fintype α₁] [Fintype β₁] [Fintype α₂] [Fintype β₂]
  [DecidableEq α₁] [DecidableEq β₁] [DecidableEq α₂] [DecidableEq β₂]

/-- `(Y₁X₁)(Y₂X₂) ↦ (Y₁Y₂)(X₁X₂)` -/
def regroup2 (M : Matrix ((α₁ × β₁) × (α₂ × β₂)) ((α₁ × β₁) × (α₂ × β₂)) ℂ) :
    Matrix ((α₁ × α₂) × (β₁ × β₂)) ((α₁ × α₂) × (β₁ × β₂)) ℂ :=
  M.submatrix (Equiv.prodProdProdComm α₁ α₂ β₁ β₂) (Equiv.prodProdProdComm α₁ α₂ β₁ β₂)

omit [DecidableEq α₁] [DecidableEq β₁] [DecidableEq α₂] [DecidableEq β₂] [Fintype β₁] [Fintype β₂] in
theorem ptrace1_regroup2_kron (X₁ : Matrix (α₁ × β₁) (α₁ × β₁) ℂ) (X₂ : Matrix (α₂ × β₂) (α₂ × β₂) ℂ) :
    ptrace1 (regroup2 (X₁ ⊗ₖ X₂)) = ptrace1 X₁ ⊗ₖ ptrace1 X₂ := by
  ext ⟨j₁, j₂⟩ ⟨j₁', j₂'⟩
  simp only [ptrace1, regroup2, Matrix.submatrix_apply, Equiv.prodProdProdComm_apply, Matrix.kroneckerMap_apply,
    Fintype.sum_prod_type, Finset.sum_mul_sum]

omit [Fintype α₁] [Fintype β₁] [Fintype α₂] [Fintype β₂] [DecidableEq β₁] [DecidableEq β₂] in
theorem regroup2_one_kron (Y₁ : Matrix β₁ β₁ ℂ) (Y₂ : Matrix β₂ β₂ ℂ) :
    regroup2 (((1 : Matrix α₁ α₁ ℂ) ⊗ₖ Y₁) ⊗ₖ ((1 : Matrix α₂ α₂ ℂ) ⊗ₖ Y₂))
      = (1 : Matrix (α₁ × α₂) (α₁ × α₂) ℂ) ⊗ₖ (Y₁ ⊗ₖ Y₂) := by
  ext ⟨⟨i₁, i₂⟩, ⟨j₁, j₂⟩⟩ ⟨⟨i₁', i₂'⟩, ⟨j₁', j₂'⟩⟩
  simp only [regroup2, Matrix.submatrix_apply, Equiv.prodProdProdComm_apply, Matrix.kroneckerMap_apply,
    Matrix.one_apply, Prod.mk.injEq]
  by_cases h1 : i₁ = i₁' <;> by_cases h2 : i₂ = i₂' <;> simp [h1, h2]

/-- `A ⪰ B ⪰ 0` and `C ⪰ D ⪰ 0` imply `A ⊗ C ⪰ B ⊗ D` -/
theorem kron_sub_kron_psd {ι κ : Type*} [Fintype ι] [Fintype κ] [DecidableEq ι] [DecidableEq κ]
    {A B : Matrix ι ι ℂ} {C D : Matrix κ κ ℂ} (hB : B.PosSemidef) (hAB : (A - B).PosSemidef)
    (hD : D.PosSemidef) (hCD : (C - D).PosSemidef) : (A ⊗ₖ C - B ⊗ₖ D).PosSemidef := by
  have hC : C.PosSemidef := by
    have := hCD.add hD
    rwa [sub_add_cancel] at this
  have hsplit : A ⊗ₖ C - B ⊗ₖ D = (A - B) ⊗ₖ C + B ⊗ₖ (C - D) := by
    ext ⟨a, t⟩ ⟨a', t'⟩
    simp only [Matrix.sub_apply, Matrix.add_apply, Matrix.kroneckerMap_apply]
    ring
  rw [hsplit]
  exact (hAB.kronecker hC).add (hB.kronecker hCD)

omit [DecidableEq α₁] [DecidableEq α₂] in
/-- products of primal-feasible points of two programs of unequal sizes are feasible for the product program -/
theorem hedge_primal_kron2 {X₁ : Matrix (α₁ × β₁) (α₁ × β₁) ℂ} {X₂ : Matrix (α₂ × β₂) (α₂ × β₂) ℂ}
    (h₁ : HedgeFeasible X₁) (h₂ : HedgeFeasible X₂) : HedgeFeasible (regroup2 (X₁ ⊗ₖ X₂)) := by
  refine ⟨(h₁.1.kronecker h₂.1).submatrix _, ?_⟩
  rw [ptrace1_regroup2_kron, h₁.2, h₂.2, Matrix.one_kronecker_one]

/-- products of dual-feasible points (maximisation, `Q₁, Q₂ ⪰ 0`) are dual feasible for the product program -/
theorem hedge_maxdual_kron2 {Q₁ : Matrix (α₁ × β₁) (α₁ × β₁) ℂ} {Q₂ : Matrix (α₂ × β₂) (α₂ × β₂) ℂ}
    {Y₁ : Matrix β₁ β₁ ℂ} {Y₂ : Matrix β₂ β₂ ℂ} (hQ₁ : Q₁.PosSemidef) (hQ₂ : Q₂.PosSemidef)
    (hY₁ : (((1 : Matrix α₁ α₁ ℂ) ⊗ₖ Y₁) - Q₁).PosSemidef) (hY₂ : (((1 : Matrix α₂ α₂ ℂ) ⊗ₖ Y₂) - Q₂).PosSemidef) :
    (((1 : Matrix (α₁ × α₂) (α₁ × α₂) ℂ) ⊗ₖ (Y₁ ⊗ₖ Y₂)) - regroup2 (Q₁ ⊗ₖ Q₂)).PosSemidef := by
  rw [← regroup2_one_kron]
  change ((((1 : Matrix α₁ α₁ ℂ) ⊗ₖ Y₁) ⊗ₖ ((1 : Matrix α₂ α₂ ℂ) ⊗ₖ Y₂) - Q₁ ⊗ₖ Q₂).submatrix
    (Equiv.prodProdProdComm α₁ α₂ β₁ β₂) (Equiv.prodProdProdComm α₁ α₂ β₁ β₂)).PosSemidef
  exact (kron_sub_kron_psd hQ₁ hY₁ hQ₂ hY₂).submatrix _

omit [DecidableEq α₁] [DecidableEq β₁] [DecidableEq α₂] [DecidableEq β₂] in
theorem trace_kron_mul_kron (Q₁ X₁ : Matrix (α₁ × β₁) (α₁ × β₁) ℂ) (Q₂ X₂ : Matrix (α₂ × β₂) (α₂ × β₂) ℂ) :
    ((Q₁ ⊗ₖ Q₂) * (X₁ ⊗ₖ X₂)).trace = (Q₁ * X₁).trace * (Q₂ * X₂).trace := by
  rw [← Matrix.mul_kronecker_mul, Matrix.trace_kronecker]

omit [DecidableEq α₁] [DecidableEq β₁] [DecidableEq α₂] [DecidableEq β₂] in
theorem trace_regroup2_mul (M N : Matrix ((α₁ × β₁) × (α₂ × β₂)) ((α₁ × β₁) × (α₂ × β₂)) ℂ) :
    (regroup2 M * regroup2 N).trace = (M * N).trace :=
  trace_mul_submatrix_equiv (Equiv.prodProdProdComm α₁ α₂ β₁ β₂) M N

end Two

/-! ## Relabelling both tensor factors -/

section Relabel
variable {α β α' β' : Type*} [Fintype α] [Fintype β] [Fintype α'] [Fintype β'] [DecidableEq α] [DecidableEq β]
  [DecidableEq α'] [DecidableEq β']

omit [DecidableEq α] [DecidableEq β] [DecidableEq α'] [DecidableEq β'] [Fintype β] [Fintype β'] in
theorem ptrace1_submatrix_prodMap (e₁ : α' ≃ α) (e₂ : β' → β) (M : Matrix (α × β) (α × β) ℂ) :
    ptrace1 (M.submatrix (Prod.map e₁ e₂) (Prod.map e₁ e₂)) = (ptrace1 M).submatrix e₂ e₂ := by
  ext j j'
  simp only [ptrace1, Matrix.submatrix_apply, Prod.map_apply]
  exact Equiv.sum_comp e₁ fun i => M (i, e₂ j) (i, e₂ j')

omit [DecidableEq α] [DecidableEq α'] [Fintype β] [Fintype β'] in
theorem hedgeFeasible_submatrix_prodMap (e₁ : α' ≃ α) (e₂ : β' ≃ β) {M : Matrix (α × β) (α × β) ℂ}
    (h : HedgeFeasible M) : HedgeFeasible (M.submatrix (Prod.map e₁ e₂) (Prod.map e₁ e₂)) := by
  refine ⟨h.1.submatrix _, ?_⟩
  rw [ptrace1_submatrix_prodMap, h.2, Matrix.submatrix_one_equiv]

omit [Fintype α] [Fintype β] [Fintype α'] [Fintype β'] [DecidableEq β] [DecidableEq β'] in
theorem one_kron_submatrix_prodMap (e₁ : α' ≃ α) (e₂ : β' → β) (Y : Matrix β β ℂ) :
    (((1 : Matrix α α ℂ) ⊗ₖ Y).submatrix (Prod.map e₁ e₂) (Prod.map e₁ e₂))
      = (1 : Matrix α' α' ℂ) ⊗ₖ (Y.submatrix e₂ e₂) := by
  ext ⟨i, j⟩ ⟨i', j'⟩
  simp only [Matrix.submatrix_apply, Prod.map_apply, Matrix.kroneckerMap_apply, Matrix.one_apply,
    EmbeddingLike.apply_eq_iff_eq]

end Relabel

/-! ## Flat indices: the operators as toqito stores them -/

section FlatRep
variable {a₁ b₁ a₂ b₂ : ℕ}

/-- `np.kron(A, B)` on flat indices: `(A ⊗ B)[p, q] = A[p / N₂, q / N₂] · B[p % N₂, q % N₂]` -/
def flatKron {N₁ N₂ : ℕ} (A : Matrix (Fin N₁) (Fin N₁) ℂ) (B : Matrix (Fin N₂) (Fin N₂) ℂ) :
    Matrix (Fin (N₁ * N₂)) (Fin (N₁ * N₂)) ℂ :=
  (A ⊗ₖ B).submatrix finProdFinEquiv.symm finProdFinEquiv.symm

/-- the relabelling `Fin (a₁a₂) × Fin (b₁b₂) → (Fin a₁ × Fin a₂) × (Fin b₁ × Fin b₂)` -/
def unflat2 : Fin (a₁ * a₂) × Fin (b₁ * b₂) → (Fin a₁ × Fin a₂) × (Fin b₁ × Fin b₂) :=
  Prod.map finProdFinEquiv.symm finProdFinEquiv.symm

/-- an arrangement `e` of the flat index of `np.kron(Q₁, Q₂)` realises the order (outputs `Y₁Y₂`, inputs `X₁X₂`):
    position `(y, x)` ↦ flat index of `(y₁ x₁)(y₂ x₂)` -/
def IsRepArrangement (e : Fin (a₁ * a₂) × Fin (b₁ * b₂) ≃ Fin ((a₁ * b₁) * (a₂ * b₂))) : Prop :=
  ∀ y x, e (y, x) = pair (pair (fstIdx y) (fstIdx x)) (pair (sndIdx y) (sndIdx x))

theorem submatrix_flatKron (e : Fin (a₁ * a₂) × Fin (b₁ * b₂) ≃ Fin ((a₁ * b₁) * (a₂ * b₂)))
    (He : IsRepArrangement e) (A : Matrix (Fin (a₁ * b₁)) (Fin (a₁ * b₁)) ℂ)
    (B : Matrix (Fin (a₂ * b₂)) (Fin (a₂ * b₂)) ℂ) :
    (flatKron A B).submatrix e e = (regroup2 (unflat A ⊗ₖ unflat B)).submatrix unflat2 unflat2 := by
  ext ⟨y, x⟩ ⟨y', x'⟩
  simp only [Matrix.submatrix_apply, flatKron, He y x, He y' x', pair_eq, Equiv.symm_apply_apply,
    Matrix.kroneckerMap_apply, regroup2, unflat2, unflat, Prod.map_apply, Equiv.prodProdProdComm_apply,
    fstIdx_eq, sndIdx_eq]

omit a₁ b₁ a₂ b₂ in
theorem trace_flatKron {N₁ N₂ : ℕ} (A : Matrix (Fin N₁) (Fin N₁) ℂ) (B : Matrix (Fin N₂) (Fin N₂) ℂ) :
    (flatKron A B).trace = A.trace * B.trace := by
  unfold flatKron
  rw [trace_submatrix_equiv, Matrix.trace_kronecker]

omit a₁ b₁ a₂ b₂ in
theorem trace_flatKron_mul {N₁ N₂ : ℕ} (Q₁ X₁ : Matrix (Fin N₁) (Fin N₁) ℂ) (Q₂ X₂ : Matrix (Fin N₂) (Fin N₂) ℂ) :
    (flatKron Q₁ Q₂ * flatKron X₁ X₂).trace = (Q₁ * X₁).trace * (Q₂ * X₂).trace := by
  unfold flatKron
  rw [trace_mul_submatrix_equiv, ← Matrix.mul_kronecker_mul, Matrix.trace_kronecker]

theorem re_mul_of_im_zero {z w : ℂ} (hz : z.im = 0) (hw : w.im = 0) : (z * w).re = z.re * w.re := by
  rw [Complex.mul_re, hz, hw]; ring

/-- **Two repetitions on flat indices** (the operators as toqito stores them, `Q = np.kron(Q₁, Q₂)`, arranged by `e`):
for `Q₁, Q₂ ⪰ 0`, primal-feasible `X₁, X₂` and dual-feasible Hermitian `Y₁, Y₂`:
`np.kron(X₁, X₂)` is primal feasible with value `Re tr(Q₁X₁) · Re tr(Q₂X₂)`; `np.kron(Y₁, Y₂)` is dual feasible with
`Re tr = Re tr Y₁ · Re tr Y₂`; every primal-feasible point has value at most `Re tr Y₁ · Re tr Y₂`. -/
theorem rep2_flat_bracket (e : Fin (a₁ * a₂) × Fin (b₁ * b₂) ≃ Fin ((a₁ * b₁) * (a₂ * b₂))) (He : IsRepArrangement e)
    (Q₁ X₁ : Matrix (Fin (a₁ * b₁)) (Fin (a₁ * b₁)) ℂ) (Y₁ : Matrix (Fin b₁) (Fin b₁) ℂ)
    (Q₂ X₂ : Matrix (Fin (a₂ * b₂)) (Fin (a₂ * b₂)) ℂ) (Y₂ : Matrix (Fin b₂) (Fin b₂) ℂ)
    (hQ₁ : Q₁.PosSemidef) (hQ₂ : Q₂.PosSemidef) (hX₁ : HedgeFeasible (unflat X₁)) (hX₂ : HedgeFeasible (unflat X₂))
    (hY₁h : Y₁.IsHermitian) (hY₂h : Y₂.IsHermitian)
    (hY₁ : (((1 : Matrix (Fin a₁) (Fin a₁) ℂ) ⊗ₖ Y₁) - unflat Q₁).PosSemidef)
    (hY₂ : (((1 : Matrix (Fin a₂) (Fin a₂) ℂ) ⊗ₖ Y₂) - unflat Q₂).PosSemidef) :
    HedgeFeasible ((flatKron X₁ X₂).submatrix e e) ∧
      (flatKron Q₁ Q₂ * flatKron X₁ X₂).trace.re = (Q₁ * X₁).trace.re * (Q₂ * X₂).trace.re ∧
      (((1 : Matrix (Fin (a₁ * a₂)) (Fin (a₁ * a₂)) ℂ) ⊗ₖ flatKron Y₁ Y₂) - (flatKron Q₁ Q₂).submatrix e e).PosSemidef ∧
      (flatKron Y₁ Y₂).trace.re = Y₁.trace.re * Y₂.trace.re ∧
      ∀ X : Matrix (Fin ((a₁ * b₁) * (a₂ * b₂))) (Fin ((a₁ * b₁) * (a₂ * b₂))) ℂ, HedgeFeasible (X.submatrix e e) →
        (flatKron Q₁ Q₂ * X).trace.re ≤ Y₁.trace.re * Y₂.trace.re := by
  have hdual : (((1 : Matrix (Fin (a₁ * a₂)) (Fin (a₁ * a₂)) ℂ) ⊗ₖ flatKron Y₁ Y₂)
      - (flatKron Q₁ Q₂).submatrix e e).PosSemidef := by
    rw [submatrix_flatKron e He]
    have h := hedge_maxdual_kron2 ((unflat_psd _).mpr hQ₁) ((unflat_psd _).mpr hQ₂) hY₁ hY₂
    have h2 := h.submatrix (unflat2 (a₁ := a₁) (b₁ := b₁) (a₂ := a₂) (b₂ := b₂))
    have h3 : (((1 : Matrix (Fin a₁ × Fin a₂) (Fin a₁ × Fin a₂) ℂ) ⊗ₖ (Y₁ ⊗ₖ Y₂)).submatrix
        (unflat2 (a₁ := a₁) (b₁ := b₁) (a₂ := a₂) (b₂ := b₂)) unflat2)
        = (1 : Matrix (Fin (a₁ * a₂)) (Fin (a₁ * a₂)) ℂ) ⊗ₖ flatKron Y₁ Y₂ :=
      one_kron_submatrix_prodMap finProdFinEquiv.symm finProdFinEquiv.symm (Y₁ ⊗ₖ Y₂)
    rw [← h3]
    exact h2
  have hYtr : (flatKron Y₁ Y₂).trace.re = Y₁.trace.re * Y₂.trace.re := by
    rw [trace_flatKron]
    exact re_mul_of_im_zero (trace_im_eq_zero hY₁h) (trace_im_eq_zero hY₂h)
  refine ⟨?_, ?_, hdual, hYtr, fun X hX => ?_⟩
  · rw [submatrix_flatKron e He]
    exact hedgeFeasible_submatrix_prodMap finProdFinEquiv.symm finProdFinEquiv.symm (hedge_primal_kron2 hX₁ hX₂)
  · rw [trace_flatKron_mul]
    refine re_mul_of_im_zero (trace_mul_im_eq_zero hQ₁.isHermitian ?_) (trace_mul_im_eq_zero hQ₂.isHermitian ?_)
    · exact ((unflat_psd _).mp hX₁.1).isHermitian
    · exact ((unflat_psd _).mp hX₂.1).isHermitian
  · rw [← hYtr]
    exact hedge_max_weak_duality_equiv e _ X _ hX hdual

/-- `rep2_flat_bracket` for an arrangement `arr` that lists the output systems in another order (`τ`): the constraints do not
see the order of the systems that are traced out.  (Cloning: the code's permutation produces `Y₁Y₂Z₁Z₂ X₁X₂`.) -/
theorem rep2_flat_bracket_perm (arr : Fin (a₁ * a₂) × Fin (b₁ * b₂) ≃ Fin ((a₁ * b₁) * (a₂ * b₂)))
    (τ : Fin (a₁ * a₂) ≃ Fin (a₁ * a₂))
    (He : IsRepArrangement ((Equiv.prodCongr τ (Equiv.refl (Fin (b₁ * b₂)))).trans arr))
    (Q₁ X₁ : Matrix (Fin (a₁ * b₁)) (Fin (a₁ * b₁)) ℂ) (Y₁ : Matrix (Fin b₁) (Fin b₁) ℂ)
    (Q₂ X₂ : Matrix (Fin (a₂ * b₂)) (Fin (a₂ * b₂)) ℂ) (Y₂ : Matrix (Fin b₂) (Fin b₂) ℂ)
    (hQ₁ : Q₁.PosSemidef) (hQ₂ : Q₂.PosSemidef) (hX₁ : HedgeFeasible (unflat X₁)) (hX₂ : HedgeFeasible (unflat X₂))
    (hY₁h : Y₁.IsHermitian) (hY₂h : Y₂.IsHermitian)
    (hY₁ : (((1 : Matrix (Fin a₁) (Fin a₁) ℂ) ⊗ₖ Y₁) - unflat Q₁).PosSemidef)
    (hY₂ : (((1 : Matrix (Fin a₂) (Fin a₂) ℂ) ⊗ₖ Y₂) - unflat Q₂).PosSemidef) :
    HedgeFeasible ((flatKron X₁ X₂).submatrix arr arr) ∧
      (flatKron Q₁ Q₂ * flatKron X₁ X₂).trace.re = (Q₁ * X₁).trace.re * (Q₂ * X₂).trace.re ∧
      (((1 : Matrix (Fin (a₁ * a₂)) (Fin (a₁ * a₂)) ℂ) ⊗ₖ flatKron Y₁ Y₂) - (flatKron Q₁ Q₂).submatrix arr arr).PosSemidef ∧
      (flatKron Y₁ Y₂).trace.re = Y₁.trace.re * Y₂.trace.re ∧
      ∀ X : Matrix (Fin ((a₁ * b₁) * (a₂ * b₂))) (Fin ((a₁ * b₁) * (a₂ * b₂))) ℂ, HedgeFeasible (X.submatrix arr arr) →
        (flatKron Q₁ Q₂ * X).trace.re ≤ Y₁.trace.re * Y₂.trace.re := by
  obtain ⟨h1, h2, h3, h4, h5⟩ := rep2_flat_bracket _ He Q₁ X₁ Y₁ Q₂ X₂ Y₂ hQ₁ hQ₂ hX₁ hX₂ hY₁h hY₂h hY₁ hY₂
  have hback : ∀ M : Matrix (Fin ((a₁ * b₁) * (a₂ * b₂))) (Fin ((a₁ * b₁) * (a₂ * b₂))) ℂ,
      (M.submatrix ((Equiv.prodCongr τ (Equiv.refl (Fin (b₁ * b₂)))).trans arr)
        ((Equiv.prodCongr τ (Equiv.refl (Fin (b₁ * b₂)))).trans arr)).submatrix
          (Prod.map τ.symm (Equiv.refl (Fin (b₁ * b₂)))) (Prod.map τ.symm (Equiv.refl (Fin (b₁ * b₂))))
        = M.submatrix arr arr := by
    intro M
    ext ⟨y, x⟩ ⟨y', x'⟩
    simp
  have hfwd : ∀ M : Matrix (Fin ((a₁ * b₁) * (a₂ * b₂))) (Fin ((a₁ * b₁) * (a₂ * b₂))) ℂ,
      (M.submatrix arr arr).submatrix (Prod.map τ (Equiv.refl (Fin (b₁ * b₂)))) (Prod.map τ (Equiv.refl (Fin (b₁ * b₂))))
        = M.submatrix ((Equiv.prodCongr τ (Equiv.refl (Fin (b₁ * b₂)))).trans arr)
          ((Equiv.prodCongr τ (Equiv.refl (Fin (b₁ * b₂)))).trans arr) := by
    intro M
    ext ⟨y, x⟩ ⟨y', x'⟩
    simp
  refine ⟨?_, h2, ?_, h4, fun X hX => h5 X ?_⟩
  · rw [← hback]
    exact hedgeFeasible_submatrix_prodMap τ.symm (Equiv.refl _) h1
  · have h := h3.submatrix (Prod.map τ.symm (Equiv.refl (Fin (b₁ * b₂))))
    have hk : (((1 : Matrix (Fin (a₁ * a₂)) (Fin (a₁ * a₂)) ℂ) ⊗ₖ flatKron Y₁ Y₂).submatrix
        (Prod.map τ.symm (Equiv.refl (Fin (b₁ * b₂)))) (Prod.map τ.symm (Equiv.refl (Fin (b₁ * b₂)))))
        = (1 : Matrix (Fin (a₁ * a₂)) (Fin (a₁ * a₂)) ℂ) ⊗ₖ flatKron Y₁ Y₂ := by
      rw [one_kron_submatrix_prodMap τ.symm (Equiv.refl (Fin (b₁ * b₂))) (flatKron Y₁ Y₂)]
      rfl
    rw [← hback, ← hk]
    exact h
  · rw [← hfwd]
    exact hedgeFeasible_submatrix_prodMap τ (Equiv.refl _) hX

end FlatRep

/-! ## The executable Kronecker product -/

section KronE
open EMat

theorem toM_kronE {N₁ N₂ : ℕ} (A : EMat N₁ N₁) (B : EMat N₂ N₂) : (kronE A B).toM = flatKron A.toM B.toM := by
  ext p q
  simp only [kronE, flatKron, toM_apply, get_ofFn, QI.toC_mul, Matrix.submatrix_apply, Matrix.kroneckerMap_apply,
    fstIdx_eq, sndIdx_eq]

/-- the operator of the counterfeiting attack is a non-negative combination of projectors `|ψψψ̄⟩⟨ψψψ̄|` -/
theorem toM_cloneQ {m : ℕ} (states : List (EMat m 1)) (probs : List Rat) :
    (cloneQ states probs).toM = ∑ k : Fin states.length, ((((probs.getD k.val 0 : Rat) : ℝ) : ℂ)) •
      Matrix.vecMulVec (fun p => (cloneVec (states.getD k.val zero) p).toC)
        (star fun p => (cloneVec (states.getD k.val zero) p).toC) := by
  ext p q
  simp only [cloneQ, toM_apply, get_ofFn, sumFin_toC, QI.toC_smul, QI.toC_mul, QI.toC_conj, Matrix.sum_apply,
    Matrix.smul_apply, Matrix.vecMulVec_apply, Pi.star_apply, smul_eq_mul]
  rfl

/-- for non-negative priors the cloning operator is positive semidefinite -/
theorem cloneQ_psd {m : ℕ} (states : List (EMat m 1)) (probs : List Rat) (hp : ∀ q ∈ probs, 0 ≤ q) :
    (cloneQ states probs).toM.PosSemidef := by
  rw [toM_cloneQ]
  refine Matrix.posSemidef_sum _ fun k _ => ?_
  refine (Matrix.posSemidef_vecMulVec_self_star _).smul ?_
  have h0 : (0 : Rat) ≤ probs.getD k.val 0 := by
    rw [List.getD_eq_getElem?_getD]
    cases h : probs[k.val]? with
    | none => simp
    | some q => simpa using hp q (List.mem_of_getElem? h)
  exact Complex.zero_le_real.mpr (by exact_mod_cast h0)

end KronE

/-! ## Product games: `ExtendedNonlocalGame(prob, pred, reps)` -/

section TensorGame
open EMat

theorem digits_div_mod {n : ℕ} (x₁ x₂ : ℕ) (hx₂ : x₂ < n) : (x₂ + n * x₁) / n = x₁ ∧ (x₂ + n * x₁) % n = x₂ := by
  have hn : 0 < n := Nat.lt_of_le_of_lt (Nat.zero_le _) hx₂
  constructor
  · rw [Nat.add_mul_div_left _ _ hn, Nat.div_eq_of_lt hx₂, Nat.zero_add]
  · rw [Nat.add_mul_mod_self_left, Nat.mod_eq_of_lt hx₂]

theorem prodFn_digits {n o : ℕ} (f₁ f₂ : ℕ → ℕ) (x₁ x₂ : ℕ) (hx₂ : x₂ < n) (hf : f₂ x₂ < o) :
    prodFn n o f₁ f₂ (x₂ + n * x₁) / o = f₁ x₁ ∧ prodFn n o f₁ f₂ (x₂ + n * x₁) % o = f₂ x₂ := by
  obtain ⟨h1, h2⟩ := digits_div_mod x₁ x₂ hx₂
  unfold prodFn
  rw [h1, h2, Nat.add_comm, Nat.mul_comm]
  exact digits_div_mod (f₁ x₁) (f₂ x₂) hf

variable {d d' : ℕ}

/-- **The question-averaged operator of a product strategy in the product game is the Kronecker product of the single-game
operators**: for answer functions `f = f₁ ⊗ f₂`, `g = g₁ ⊗ g₂` (digit-wise), `M_{f,g}(G ⊗ H) = M_{f₁,g₁}(G) ⊗ M_{f₂,g₂}(H)`. -/
theorem toM_avgOperator_tensorGame (G : Game d) (H : Game d') (f₁ g₁ f₂ g₂ : ℕ → ℕ)
    (hf₂ : ∀ x, x < H.nX → f₂ x < H.nA) (hg₂ : ∀ y, y < H.nY → g₂ y < H.nB) :
    (avgOperator (tensorGame G H) (prodFn H.nX H.nA f₁ f₂) (prodFn H.nY H.nB g₁ g₂)).toM
      = flatKron (avgOperator G f₁ g₁).toM (avgOperator H f₂ g₂).toM := by
  have key : ∀ (F : ℕ → ℕ → Matrix (Fin (d * d')) (Fin (d * d')) ℂ),
      (∑ x : Fin (G.nX * H.nX), ∑ y : Fin (G.nY * H.nY), F x.val y.val)
        = ∑ x₁ : Fin G.nX, ∑ x₂ : Fin H.nX, ∑ y₁ : Fin G.nY, ∑ y₂ : Fin H.nY,
            F (x₂.val + H.nX * x₁.val) (y₂.val + H.nY * y₁.val) := by
    intro F
    rw [← finProdFinEquiv.sum_comp, Fintype.sum_prod_type]
    refine Finset.sum_congr rfl fun x₁ _ => Finset.sum_congr rfl fun x₂ _ => ?_
    rw [← finProdFinEquiv.sum_comp, Fintype.sum_prod_type]
    rfl
  refine ((toM_avgOperator (tensorGame G H) _ _).trans (key fun x y =>
    ((((tensorGame G H).prob x y : Rat) : ℝ) : ℂ) • ((tensorGame G H).pred (prodFn H.nX H.nA f₁ f₂ x)
      (prodFn H.nY H.nB g₁ g₂ y) x y).toM)).trans ?_
  rw [toM_avgOperator, toM_avgOperator]
  ext p q
  simp only [Matrix.sum_apply, Matrix.smul_apply, smul_eq_mul, flatKron, Matrix.submatrix_apply,
    Matrix.kroneckerMap_apply, Finset.sum_mul_sum]
  refine Finset.sum_congr rfl fun x₁ _ => ?_
  refine Finset.sum_congr rfl fun x₂ _ => ?_
  refine Finset.sum_congr rfl fun y₁ _ => ?_
  refine Finset.sum_congr rfl fun y₂ _ => ?_
  obtain ⟨hx1, hx2⟩ := digits_div_mod x₁.val x₂.val x₂.isLt
  obtain ⟨hy1, hy2⟩ := digits_div_mod y₁.val y₂.val y₂.isLt
  obtain ⟨ha1, ha2⟩ := prodFn_digits f₁ f₂ x₁.val x₂.val x₂.isLt (hf₂ _ x₂.isLt)
  obtain ⟨hb1, hb2⟩ := prodFn_digits g₁ g₂ y₁.val y₂.val y₂.isLt (hg₂ _ y₂.isLt)
  simp only [tensorGame, hx1, hx2, hy1, hy2, ha1, ha2, hb1, hb2, toM_kronE, flatKron,
    Matrix.submatrix_apply, Matrix.kroneckerMap_apply]
  push_cast
  ring

theorem isDensity_flatKron {ρ₁ : Matrix (Fin d) (Fin d) ℂ} {ρ₂ : Matrix (Fin d') (Fin d') ℂ} (h₁ : IsDensity ρ₁)
    (h₂ : IsDensity ρ₂) : IsDensity (flatKron ρ₁ ρ₂) :=
  ⟨(h₁.1.kronecker h₂.1).submatrix _, by rw [trace_flatKron, h₁.2, h₂.2, one_mul]⟩

end TensorGame

/-! ## The index lists of `QuantumHedging.__init__` / `optimal_clone` -/

section IndexLists

example : hedgePerm 2 = [0, 2, 1, 3] ∧ hedgePerm 3 = [0, 3, 1, 4, 2, 5] ∧ hedgePerm 1 = [] := by decide
example : clonePerm 2 = [0, 3, 1, 4, 2, 5] ∧ cloneSys 2 = [0, 1, 3, 4] ∧ cloneSys 3 = [0, 1, 3, 4, 6, 7] := by decide

theorem hedgePerm_eq (n : ℕ) (hn : 2 ≤ n) : hedgePerm n = (List.range n).flatMap fun k => [k, n + k] := by
  unfold hedgePerm
  have : min n (n * n - n) = n := by
    apply Nat.min_eq_left
    have : n * 2 ≤ n * n := Nat.mul_le_mul_left n hn
    omega
  rw [this]

/-- the interleaving: position `2k` of the new order holds system `k` (`Y_{k+1}`), position `2k+1` holds system `n + k` (`X_{k+1}`) -/
theorem hedgePerm_getElem (n : ℕ) (hn : 2 ≤ n) (k : ℕ) (hk : k < n) :
    (hedgePerm n)[2 * k]? = some k ∧ (hedgePerm n)[2 * k + 1]? = some (n + k) := by
  rw [hedgePerm_eq n hn]
  have h : ∀ m, (List.range m).flatMap (fun k => [k, n + k]) = (List.range (2 * m)).map fun i => if i % 2 = 0 then i / 2 else n + i / 2 := by
    intro m
    induction m with
    | zero => rfl
    | succ m ih =>
      rw [List.range_succ, List.flatMap_append, ih, show 2 * (m + 1) = 2 * m + 1 + 1 by ring, List.range_succ, List.range_succ]
      simp only [List.flatMap_cons, List.flatMap_nil, List.append_nil, List.map_append, List.map_cons, List.map_nil, List.append_assoc,
        List.cons_append, List.nil_append]
      congr 2
      · have : (2 * m) % 2 = 0 := by omega
        simp [this]
      · have h1 : (2 * m + 1) % 2 = 1 := by omega
        have h2 : (2 * m + 1) / 2 = m := by omega
        simp [h1, h2]
  rw [h n]
  constructor
  · rw [List.getElem?_map, List.getElem?_range (by omega)]
    have : (2 * k) % 2 = 0 := by omega
    simp [this]
  · rw [List.getElem?_map, List.getElem?_range (by omega)]
    have h1 : (2 * k + 1) % 2 = 1 := by omega
    have h2 : (2 * k + 1) / 2 = k := by omega
    simp [h1, h2]


/-- position `i·n + j` of the new order (`Y₁…Yₙ Z₁…Zₙ X₁…Xₙ`) holds system `i + 3j` of `Y₁Z₁X₁ … YₙZₙXₙ` -/
theorem clonePerm_getElem (n i j : ℕ) (hi : i < 3) (hj : j < n) : (clonePerm n)[i * n + j]? = some (i + 3 * j) := by
  have hlen : ∀ i', ((List.range n).map fun j => i' + 3 * j).length = n := fun i' => by simp
  have hget : ∀ i', ((List.range n).map fun j => i' + 3 * j)[j]? = some (i' + 3 * j) := fun i' => by
    rw [List.getElem?_map, List.getElem?_range hj]; rfl
  have hc : clonePerm n = ((List.range n).map fun j => 0 + 3 * j) ++ (((List.range n).map fun j => 1 + 3 * j)
      ++ ((List.range n).map fun j => 2 + 3 * j)) := by
    simp [clonePerm, List.range_succ]
  rw [hc]
  interval_cases i
  · rw [Nat.zero_mul, Nat.zero_add, List.getElem?_append_left (by rw [hlen]; exact hj)]
    exact hget 0
  · rw [Nat.one_mul, List.getElem?_append_right (by rw [hlen]; omega), hlen, Nat.add_sub_cancel_left,
      List.getElem?_append_left (by rw [hlen]; exact hj)]
    exact hget 1
  · rw [List.getElem?_append_right (by rw [hlen]; omega), hlen, show 2 * n + j - n = n + j by omega,
      List.getElem?_append_right (by rw [hlen]; omega), hlen, Nat.add_sub_cancel_left]
    exact hget 2

/-- the traced systems of the cloning primal are the positions `≢ 2 (mod 3)`: the `Y_k` and `Z_k` -/
theorem mem_cloneSys (n e : ℕ) : e ∈ cloneSys n ↔ e + 1 < 3 * n ∧ e % 3 ≠ 2 := by
  simp only [cloneSys, List.mem_map, List.mem_filter, List.mem_range, Bool.and_eq_true, decide_eq_true_eq]
  constructor
  · rintro ⟨a, ⟨h1, h2, h3⟩, rfl⟩
    constructor <;> omega
  · rintro ⟨h1, h2⟩
    exact ⟨e + 1, ⟨h1, by omega, by omega⟩, by omega⟩

/-- the traced systems of the hedging primal are the even positions: the `Y_k` -/
theorem mem_hedgeSys (n e : ℕ) : e ∈ hedgeSys n ↔ e < 2 * n ∧ e % 2 = 0 := by
  simp only [hedgeSys, List.mem_map, List.mem_range]
  constructor
  · rintro ⟨a, h1, rfl⟩
    constructor <;> omega
  · rintro ⟨h1, h2⟩
    exact ⟨e / 2, by omega, by omega⟩


end IndexLists

/-! ## Symmetry of the counterfeiting operator for real ensembles -/

section CloneSymm
open EMat
variable {m : ℕ}

/-- exchange of the second and third tensor factor of `(ℂ^m)^{⊗3}`: `(i₁ i₂ i₃) ↦ (i₁ i₃ i₂)` -/
def swap23 (p : Fin (m * m * m)) : Fin (m * m * m) := pair (pair (fstIdx (fstIdx p)) (sndIdx p)) (sndIdx (fstIdx p))

theorem cloneVec_swap23_real (ψ : EMat m 1) (hψ : ∀ i, (ψ.get i ⟨0, Nat.one_pos⟩).im = 0) (p : Fin (m * m * m)) :
    (cloneVec ψ (swap23 p)).toC = (cloneVec ψ p).toC := by
  have hconj : ∀ i, ((ψ.get i ⟨0, Nat.one_pos⟩).conj).toC = (ψ.get i ⟨0, Nat.one_pos⟩).toC := by
    intro i
    have h := hψ i
    apply Complex.ext
    · simp
    · simp only [QI.toC_im, QI.conj_im, h]; simp
  simp only [cloneVec, swap23, QI.toC_mul, hconj, fstIdx_eq, sndIdx_eq, pair_eq, Equiv.symm_apply_apply]
  ring

/-- **For real ensembles the counterfeiting operator is invariant under exchanging its second and third tensor factor**
(`Z ↔ X`): `Q[(i₁ i₃ i₂), (j₁ j₃ j₂)] = Q[(i₁ i₂ i₃), (j₁ j₂ j₃)]`. -/
theorem cloneQ_swap23_real (states : List (EMat m 1)) (probs : List Rat)
    (hreal : ∀ s ∈ states, ∀ i, (s.get i ⟨0, Nat.one_pos⟩).im = 0) (p q : Fin (m * m * m)) :
    (cloneQ states probs).toM (swap23 p) (swap23 q) = (cloneQ states probs).toM p q := by
  have hget : ∀ k : Fin states.length, ∀ i, ((states.getD k.val zero).get i ⟨0, Nat.one_pos⟩).im = 0 := by
    intro k i
    rw [List.getD_eq_getElem?_getD, List.getElem?_eq_getElem k.isLt]
    exact hreal _ (List.getElem_mem k.isLt) i
  rw [toM_cloneQ]
  simp only [Matrix.sum_apply, Matrix.smul_apply, Matrix.vecMulVec_apply, Pi.star_apply]
  refine Finset.sum_congr rfl fun k _ => ?_
  rw [cloneVec_swap23_real _ (hget k) p, cloneVec_swap23_real _ (hget k) q]

end CloneSymm

end Toq.ExtGames
