import Toq.Proofs.Combinat
import Mathlib.GroupTheory.GroupAction.Quotient
import Mathlib.Data.Sym.Card
import Mathlib.Data.Fintype.CardEmbedding
/-!
# C18: ranks of the symmetric / antisymmetric projectors for all `d`, `p`; isometry forms; range characterisation

* `trace (symSpec d p) = C(d+p-1, p)`: Burnside's lemma for `Perm (Fin p)` acting on digit vectors `Fin p → Fin d`, whose orbits are
  the multisets of `p` digits (`Sym (Fin d) p`, stars and bars);
* `trace (antiSpec d p) = C(d, p)`: only injective digit vectors have a non-zero diagonal entry, which is `1/p!`;
* rank = trace for idempotents, hence the ranks;
* the contract of the `partial=True` forms (`VᵀV = 1`, `V Vᵀ = P`);
* the ranges of the two projectors are exactly the invariant / sign-covariant vectors.
-/
open Equiv Matrix

namespace Toq.Combinat.Spec
variable {d p : ℕ}

/-! ## traces -/

theorem trace_permMat (σ : Perm (Fin p)) :
    (permMat d p σ).trace = ((Finset.univ.filter (fun x : Fin p → Fin d => x = x ∘ σ)).card : ℚ) := by
  show ∑ x : Fin p → Fin d, (if x = x ∘ σ then (1 : ℚ) else 0) = _
  rw [Finset.sum_boole]

theorem trace_symSum :
    (symSum d p).trace = ((∑ σ : Perm (Fin p), (Finset.univ.filter (fun x : Fin p → Fin d => x = x ∘ σ)).card : ℕ) : ℚ) := by
  unfold symSum
  rw [Matrix.trace_sum]
  push_cast
  exact Finset.sum_congr rfl (fun σ _ => trace_permMat σ)

section burnside
attribute [local instance] arrowAction

/-- the multiset of digits of a digit vector -/
def digitSym (x : Fin p → Fin d) : Sym (Fin d) p := ⟨Finset.univ.val.map x, by simp⟩

theorem digitSym_smul (σ : Perm (Fin p)) (x : Fin p → Fin d) : digitSym (σ • x) = digitSym x := by
  apply Subtype.ext
  show Finset.univ.val.map (fun a => x (σ⁻¹ • a)) = Finset.univ.val.map x
  have : (fun a => x (σ⁻¹ • a)) = x ∘ (σ⁻¹ : Perm (Fin p)) := rfl
  rw [this, ← Multiset.map_map, Multiset.map_univ_val_equiv]

theorem exists_perm_of_digitSym_eq (x y : Fin p → Fin d) (h : digitSym x = digitSym y) :
    ∃ σ : Perm (Fin p), σ • y = x := by
  have hm : Finset.univ.val.map x = Finset.univ.val.map y := congrArg Subtype.val h
  have hc : ∀ v : Fin d, Fintype.card {a // x a = v} = Fintype.card {a // y a = v} := by
    intro v
    have := congrArg (Multiset.count v) hm
    rw [Multiset.count_map, Multiset.count_map] at this
    simp only [eq_comm (a := v)] at this
    rw [Fintype.card_subtype, Fintype.card_subtype, Finset.card_def, Finset.card_def, Finset.filter_val,
      Finset.filter_val]
    exact this
  let e : ∀ v : Fin d, {a // x a = v} ≃ {a // y a = v} := fun v => Fintype.equivOfCardEq (hc v)
  let τ : Perm (Fin p) := Equiv.ofFiberEquiv e
  have hτ : ∀ a, y (τ a) = x a := Equiv.ofFiberEquiv_map e
  refine ⟨τ⁻¹, ?_⟩
  funext a
  show y ((τ⁻¹)⁻¹ • a) = x a
  rw [inv_inv]
  exact hτ a

theorem digitSym_surjective : Function.Surjective (digitSym (d := d) (p := p)) := by
  rintro ⟨m, hm⟩
  obtain ⟨l, rfl⟩ := Quot.exists_rep m
  have hl : l.length = p := hm
  subst hl
  refine ⟨fun i => l.get i, ?_⟩
  apply Subtype.ext
  show Finset.univ.val.map (fun i => l.get i) = (l : Multiset (Fin d))
  rw [Fin.univ_val_map, List.ofFn_get]

open Classical in
/-- the orbits of the subsystem permutations on digit vectors are the multisets of `p` digits -/
noncomputable def orbitsEquivSym :
    Quotient (MulAction.orbitRel (Perm (Fin p)) (Fin p → Fin d)) ≃ Sym (Fin d) p :=
  Equiv.ofBijective
    (Quotient.lift digitSym (by
      rintro x y ⟨σ, rfl⟩
      exact digitSym_smul σ y))
    (by
      constructor
      · rintro ⟨x⟩ ⟨y⟩ h
        apply Quotient.sound
        obtain ⟨σ, hσ⟩ := exists_perm_of_digitSym_eq x y h
        exact ⟨σ, hσ⟩
      · intro s
        obtain ⟨x, hx⟩ := digitSym_surjective s
        exact ⟨Quotient.mk _ x, hx⟩)

open Classical in
theorem card_fixedBy (σ : Perm (Fin p)) :
    Fintype.card (MulAction.fixedBy (Fin p → Fin d) σ)
      = (Finset.univ.filter (fun x : Fin p → Fin d => x = x ∘ σ)).card := by
  rw [← Fintype.card_subtype]
  apply Fintype.card_congr
  apply Equiv.subtypeEquivRight
  intro x
  rw [MulAction.mem_fixedBy]
  constructor
  · intro h
    funext a
    have : x ((σ⁻¹ : Perm (Fin p)) (σ a)) = x (σ a) := congrFun h (σ a)
    rw [Perm.inv_def, Equiv.symm_apply_apply] at this
    exact this
  · intro h
    funext a
    show x ((σ⁻¹ : Perm (Fin p)) a) = x a
    have := congrFun h ((σ⁻¹ : Perm (Fin p)) a)
    rw [Function.comp_apply, Perm.inv_def, Equiv.apply_symm_apply] at this
    rw [Perm.inv_def]
    exact this

open Classical in
/-- Burnside: `Σ_σ #{x | x = x ∘ σ} = #multisets · p!` -/
theorem sum_card_fixed :
    ∑ σ : Perm (Fin p), (Finset.univ.filter (fun x : Fin p → Fin d => x = x ∘ σ)).card
      = Nat.multichoose d p * p.factorial := by
  have B := MulAction.sum_card_fixedBy_eq_card_orbits_mul_card_group (Perm (Fin p)) (Fin p → Fin d)
  rw [Fintype.card_congr orbitsEquivSym, Sym.card_sym_eq_multichoose, Fintype.card_fin, Fintype.card_perm,
    Fintype.card_fin] at B
  rw [← B]
  exact Finset.sum_congr rfl (fun σ _ => (card_fixedBy σ).symm)

end burnside

/-- **trace of the symmetric projector**, all `d`, `p` -/
theorem trace_symSpec : (symSpec d p).trace = (Nat.choose (d + p - 1) p : ℚ) := by
  rw [symSpec_eq, Matrix.trace_smul, trace_symSum, sum_card_fixed, Nat.multichoose_eq, smul_eq_mul]
  push_cast
  rw [mul_comm, mul_assoc, mul_inv_cancel₀ fact_ne_zero', mul_one]

/-! ### antisymmetric -/

/-- diagonal entry of the antisymmetric projector at an injective digit vector -/
theorem antiSpec_diag_of_injective (x : Fin p → Fin d) (hx : Function.Injective x) :
    antiSpec d p x x = (p.factorial : ℚ)⁻¹ := by
  rw [antiSpec_eq, Matrix.smul_apply, antiSum_apply, Finset.sum_eq_single (1 : Perm (Fin p))]
  · simp
  · intro σ _ hσ
    rw [if_neg, mul_zero]
    intro h
    apply hσ
    ext a
    have := congrFun h a
    simp only [Function.comp_apply] at this
    rw [← hx this]
    rfl
  · simp

open Classical in
theorem trace_antiSpec : (antiSpec d p).trace = (Nat.choose d p : ℚ) := by
  have h1 : (antiSpec d p).trace
      = ∑ x : Fin p → Fin d, if Function.Injective x then (p.factorial : ℚ)⁻¹ else 0 := by
    unfold Matrix.trace
    apply Finset.sum_congr rfl
    intro x _
    rw [Matrix.diag_apply]
    split_ifs with hx
    · exact antiSpec_diag_of_injective x hx
    · exact antiSpec_apply_of_not_injective x x hx
  rw [h1, ← Finset.sum_filter, Finset.sum_const, ← Fintype.card_subtype,
    Fintype.card_congr (Equiv.subtypeInjectiveEquivEmbedding (Fin p) (Fin d)), Fintype.card_embedding_eq,
    Fintype.card_fin, Fintype.card_fin, Nat.descFactorial_eq_factorial_mul_choose, nsmul_eq_mul]
  push_cast
  rw [mul_comm, ← mul_assoc, inv_mul_cancel₀ fact_ne_zero', one_mul]

/-! ## ranks -/

theorem rank_symSpec : (symSpec d p).rank = Nat.choose (d + p - 1) p := by
  have h := Toq.Combinat.rank_eq_trace_of_idempotent _ (symSpec_mul_self (d := d) (p := p))
  rw [trace_symSpec] at h
  exact_mod_cast h

theorem rank_antiSpec : (antiSpec d p).rank = Nat.choose d p := by
  have h := Toq.Combinat.rank_eq_trace_of_idempotent _ (antiSpec_mul_self (d := d) (p := p))
  rw [trace_antiSpec] at h
  exact_mod_cast h

end Toq.Combinat.Spec

/-! ## isometry (`partial=True`) forms: the contract `VᵀV = 1`, `V Vᵀ = P` -/

namespace Toq.Combinat
variable {K : Type} [Field K] {ι κ : Type} [Fintype ι] [DecidableEq ι] [Fintype κ] [DecidableEq κ]

/-- rank = trace for idempotent matrices over any field -/
theorem rank_eq_trace_of_idempotent_field (P : Matrix ι ι K) (h : P * P = P) : (P.rank : K) = P.trace := by
  have hproj : LinearMap.IsProj (LinearMap.range (Matrix.toLin' P)) (Matrix.toLin' P) := by
    constructor
    · intro x; exact LinearMap.mem_range_self _ x
    · rintro x ⟨z, rfl⟩
      rw [← LinearMap.comp_apply, ← Matrix.toLin'_mul, h]
  have := hproj.trace
  rw [Matrix.trace_toLin'_eq] at this
  rw [this]
  rfl

omit [Fintype ι] [DecidableEq ι] in
theorem eq_zero_of_rank_eq_zero (P : Matrix ι κ K) (h : P.rank = 0) : P = 0 := by
  unfold Matrix.rank at h
  have h2 : LinearMap.range P.mulVecLin = ⊥ := Submodule.finrank_eq_zero.mp h
  rw [LinearMap.range_eq_bot] at h2
  ext i j
  have := congrFun (LinearMap.congr_fun h2 (Pi.single j 1)) i
  simpa using this

/-- an idempotent of trace `0` over a field of characteristic `0` is `0` -/
theorem eq_zero_of_idempotent_of_trace [CharZero K] (P : Matrix ι ι K) (h : P * P = P) (ht : P.trace = 0) : P = 0 := by
  apply eq_zero_of_rank_eq_zero
  have := rank_eq_trace_of_idempotent_field P h
  rw [ht] at this
  exact_mod_cast this

/-- **What the harness measures implies the isometry contract.**  If `P` is a symmetric idempotent, the columns of `V` are orthonormal
    (`VᵀV = 1`), lie in the range of `P` (`P V = V`) and there are `rank P` of them, then `V Vᵀ = P`. -/
theorem isometry_of_residuals [CharZero K] (P : Matrix ι ι K) (V : Matrix ι κ K) (hT : Pᵀ = P) (hP : P * P = P)
    (hV : Vᵀ * V = 1) (hPV : P * V = V) (hk : Fintype.card κ = P.rank) : V * Vᵀ = P := by
  have hQP : V * Vᵀ * P = V * Vᵀ := by
    have := congrArg Matrix.transpose hPV
    rw [Matrix.transpose_mul, hT] at this
    rw [Matrix.mul_assoc, this]
  have hPQ : P * (V * Vᵀ) = V * Vᵀ := by rw [← Matrix.mul_assoc, hPV]
  have hQQ : V * Vᵀ * (V * Vᵀ) = V * Vᵀ := by
    rw [Matrix.mul_assoc, ← Matrix.mul_assoc Vᵀ, hV, Matrix.one_mul]
  have hid : (P - V * Vᵀ) * (P - V * Vᵀ) = P - V * Vᵀ := by
    rw [Matrix.sub_mul, Matrix.mul_sub, Matrix.mul_sub, hP, hPQ, hQP, hQQ]
    abel
  have htr : (P - V * Vᵀ).trace = 0 := by
    rw [Matrix.trace_sub, Matrix.trace_mul_comm, hV, Matrix.trace_one, ← rank_eq_trace_of_idempotent_field P hP, hk]
    exact sub_self _
  have := eq_zero_of_idempotent_of_trace _ hid htr
  exact (sub_eq_zero.mp this).symm

/-- **The isometry contract determines the shape and the column space.**  If `VᵀV = 1` and `V Vᵀ = P` then `V` has `rank P` columns, they lie in
    the range of `P`, and they span exactly the range of `P`. -/
theorem contract_of_isometry [CharZero K] (P : Matrix ι ι K) (V : Matrix ι κ K) (hV : Vᵀ * V = 1) (hVV : V * Vᵀ = P) :
    Fintype.card κ = P.rank ∧ P * V = V ∧ LinearMap.range V.mulVecLin = LinearMap.range P.mulVecLin := by
  have hPV : P * V = V := by rw [← hVV, Matrix.mul_assoc, hV, Matrix.mul_one]
  have hP : P * P = P := by rw [← hVV, Matrix.mul_assoc, ← Matrix.mul_assoc Vᵀ, hV, Matrix.one_mul]
  refine ⟨?_, hPV, ?_⟩
  · have h := rank_eq_trace_of_idempotent_field P hP
    have ht : P.trace = (Fintype.card κ : K) := by
      rw [← hVV, Matrix.trace_mul_comm, hV, Matrix.trace_one]
    rw [ht] at h
    exact_mod_cast h.symm
  · apply le_antisymm
    · rintro _ ⟨w, rfl⟩
      refine ⟨V.mulVec w, ?_⟩
      show P.mulVec (V.mulVec w) = V.mulVec w
      rw [Matrix.mulVec_mulVec, hPV]
    · rintro _ ⟨w, rfl⟩
      refine ⟨Vᵀ.mulVec w, ?_⟩
      show V.mulVec (Vᵀ.mulVec w) = P.mulVec w
      rw [Matrix.mulVec_mulVec, hVV]

end Toq.Combinat

/-! ## the ranges of the projectors; the `p = 1` corner -/

namespace Toq.Combinat.Spec
variable {d p : ℕ}

/-- `W_τ` permutes the tensor factors of a vector: `(W_τ v)[y] = v[y ∘ τ⁻¹]` -/
theorem permMat_mulVec (τ : Perm (Fin p)) (v : (Fin p → Fin d) → ℚ) (y : Fin p → Fin d) :
    (permMat d p τ).mulVec v y = v (y ∘ (τ⁻¹ : Perm (Fin p))) := by
  unfold Matrix.mulVec dotProduct permMat
  rw [Finset.sum_eq_single (y ∘ (τ⁻¹ : Perm (Fin p)))]
  · show (if y = (y ∘ (τ⁻¹ : Perm (Fin p))) ∘ τ then (1 : ℚ) else 0) * _ = _
    rw [if_pos, one_mul]
    ext a; simp
  · intro x _ hx
    show (if y = x ∘ τ then (1 : ℚ) else 0) * _ = _
    rw [if_neg, zero_mul]
    intro h
    apply hx
    rw [h]; ext a; simp
  · simp

theorem symSpec_mulVec_eq_iff (v : (Fin p → Fin d) → ℚ) :
    (symSpec d p).mulVec v = v ↔ ∀ τ : Perm (Fin p), (permMat d p τ).mulVec v = v := by
  constructor
  · intro h τ
    calc (permMat d p τ).mulVec v = (permMat d p τ).mulVec ((symSpec d p).mulVec v) := by rw [h]
      _ = (permMat d p τ * symSpec d p).mulVec v := Matrix.mulVec_mulVec _ _ _
      _ = v := by rw [permMat_mul_symSpec, h]
  · intro h
    unfold symSpec
    rw [Matrix.smul_mulVec, Matrix.sum_mulVec]
    simp only [h]
    rw [Finset.sum_const, Finset.card_univ, Fintype.card_perm, Fintype.card_fin, ← Nat.cast_smul_eq_nsmul ℚ, smul_smul,
      inv_mul_cancel₀ fact_ne_zero', one_smul]

theorem antiSpec_mulVec_eq_iff (v : (Fin p → Fin d) → ℚ) :
    (antiSpec d p).mulVec v = v ↔ ∀ τ : Perm (Fin p), (permMat d p τ).mulVec v = ((Perm.sign τ : ℤ) : ℚ) • v := by
  constructor
  · intro h τ
    calc (permMat d p τ).mulVec v = (permMat d p τ).mulVec ((antiSpec d p).mulVec v) := by rw [h]
      _ = (permMat d p τ * antiSpec d p).mulVec v := Matrix.mulVec_mulVec _ _ _
      _ = ((Perm.sign τ : ℤ) : ℚ) • v := by rw [permMat_mul_antiSpec, Matrix.smul_mulVec, h]
  · intro h
    unfold antiSpec
    rw [Matrix.smul_mulVec, Matrix.sum_mulVec]
    simp only [Matrix.smul_mulVec, h, smul_smul, sgn_sq, one_smul]
    rw [Finset.sum_const, Finset.card_univ, Fintype.card_perm, Fintype.card_fin, ← Nat.cast_smul_eq_nsmul ℚ, smul_smul,
      inv_mul_cancel₀ fact_ne_zero', one_smul]

/-- the range of an idempotent is its set of fixed vectors -/
theorem mem_range_iff_of_idempotent {ι : Type} [Fintype ι] [DecidableEq ι] (P : Matrix ι ι ℚ) (hP : P * P = P) (v : ι → ℚ) :
    v ∈ LinearMap.range P.mulVecLin ↔ P.mulVec v = v := by
  constructor
  · rintro ⟨w, rfl⟩
    show P.mulVec (P.mulVec w) = P.mulVec w
    rw [Matrix.mulVec_mulVec, hP]
  · intro h
    exact ⟨v, h⟩

theorem symSpec_one_copy : symSpec d 1 = 1 := by
  unfold symSpec
  rw [show (Finset.univ : Finset (Perm (Fin 1))) = {1} by decide, Finset.sum_singleton, permMat_one]
  simp

theorem antiSpec_one_copy : antiSpec d 1 = 1 := by
  unfold antiSpec
  rw [show (Finset.univ : Finset (Perm (Fin 1))) = {1} by decide, Finset.sum_singleton, permMat_one]
  simp

end Toq.Combinat.Spec

/-! ## back to the integer models -/

namespace Toq.Combinat
open Toq.Combinat.Spec

theorem traceN_symProjN {d p : ℕ} (hd : 0 < d) :
    traceN (d ^ p) (symProjN d p) = (p.factorial : ℤ) * (Nat.choose (d + p - 1) p : ℤ) := by
  have h := traceN_cast hd (symProjN d p) (symSpec d p) _ (fun y x => symProjN_eq y x)
  rw [trace_symSpec] at h
  exact_mod_cast h

theorem traceN_antisymProjN {d p : ℕ} (hd : 0 < d) :
    traceN (d ^ p) (antisymProjN d p) = (p.factorial : ℤ) * (Nat.choose d p : ℤ) := by
  have h := traceN_cast hd (antisymProjN d p) (antiSpec d p) _ (fun y x => antisymProjN_eq y x)
  rw [trace_antiSpec] at h
  exact_mod_cast h

/-- the model's integer matrix, read as a rational matrix on digit vectors -/
def modelMat {d p : ℕ} (M : ℕ → ℕ → ℤ) : Matrix (Fin p → Fin d) (Fin p → Fin d) ℚ :=
  fun y x => ((M (encD y) (encD x) : ℤ) : ℚ)

theorem rank_modelMat {d p : ℕ} (M : ℕ → ℕ → ℤ) (S : Matrix (Fin p → Fin d) (Fin p → Fin d) ℚ)
    (h : ∀ y x, ((M (encD y) (encD x) : ℤ) : ℚ) = (p.factorial : ℚ) * S y x) : (modelMat (d := d) (p := p) M).rank = S.rank := by
  have : modelMat (d := d) (p := p) M = (p.factorial : ℚ) • S := by
    ext y x; exact h y x
  rw [this]
  exact Matrix.rank_smul_of_mem_nonZeroDivisors S (mem_nonZeroDivisors_of_ne_zero fact_ne_zero')

end Toq.Combinat

/-! ## the `partial`-aware control flow -/

namespace Toq.Combinat
open Toq.Combinat.Spec

theorem binom_eq_choose : ∀ n k : ℕ, binom n k = Nat.choose n k
  | _, 0 => by simp [binom]
  | 0, k + 1 => by simp [binom]
  | n + 1, k + 1 => by rw [binom, binom_eq_choose n k, binom_eq_choose n (k + 1), Nat.choose_succ_succ]

theorem symForm_shape (d p : ℕ) (hp : 1 ≤ p) :
    (symForm d p true).shape = (d ^ p, (symSpec d p).rank) := by
  rw [rank_symSpec]
  unfold symForm
  by_cases h1 : p = 1
  · subst h1; simp [PartialForm.shape]
  · simp [h1, PartialForm.shape, binom_eq_choose]

theorem antisymForm_shape (d p : ℕ) (hp : 1 ≤ p) :
    (antisymForm d p true).shape = (d ^ p, (antiSpec d p).rank) := by
  rw [rank_antiSpec]
  unfold antisymForm
  by_cases h1 : p = 1
  · subst h1; simp [PartialForm.shape]
  · by_cases h2 : d < p
    · simp [h1, h2, PartialForm.shape, Nat.choose_eq_zero_of_lt h2]
    · simp [h1, h2, PartialForm.shape, binom_eq_choose]

end Toq.Combinat

/-! ## the isometry contract for a rational projector read in a field of characteristic `0` (where LAPACK's output lives) -/

namespace Toq.Combinat
variable {K : Type} [Field K] [CharZero K] {ι κ : Type} [Fintype ι] [DecidableEq ι] [Fintype κ] [DecidableEq κ]

/-- `P` with entries read in `K` -/
def castMat (K : Type) [Field K] [CharZero K] {ι : Type} (P : Matrix ι ι ℚ) : Matrix ι ι K := P.map (Rat.castHom K)

omit [DecidableEq ι] [DecidableEq κ] [Fintype κ] in
theorem castMat_idem (P : Matrix ι ι ℚ) (hP : P * P = P) : castMat K P * castMat K P = castMat K P := by
  unfold castMat
  rw [← Matrix.map_mul, hP]

theorem rank_castMat (P : Matrix ι ι ℚ) (hP : P * P = P) : (castMat K P).rank = P.rank := by
  have h1 := rank_eq_trace_of_idempotent_field (castMat K P) (castMat_idem P hP)
  have h2 := rank_eq_trace_of_idempotent_field P hP
  have h3 : (castMat K P).trace = (Rat.castHom K) P.trace := by
    unfold castMat
    exact (AddMonoidHom.map_trace (Rat.castHom K) P).symm
  rw [h3, ← h2] at h1
  simp only [eq_ratCast, Rat.cast_natCast] at h1
  exact_mod_cast h1

theorem isometry_of_residuals_cast (P : Matrix ι ι ℚ) (hT : Pᵀ = P) (hP : P * P = P) (V : Matrix ι κ K)
    (hV : Vᵀ * V = 1) (hPV : castMat K P * V = V) (hk : Fintype.card κ = P.rank) : V * Vᵀ = castMat K P := by
  apply isometry_of_residuals (castMat K P) V _ (castMat_idem P hP) hV hPV
  · rw [rank_castMat P hP]; exact hk
  · unfold castMat
    rw [← Matrix.transpose_map, hT]

end Toq.Combinat

/-! ## uniqueness: the projectors are determined by the clauses of the property -/

namespace Toq.Combinat
variable {K : Type} [Field K] [CharZero K] {ι : Type} [Fintype ι] [DecidableEq ι]

/-- two symmetric idempotents with `P Q = Q` (range of `Q` inside range of `P`) and the same rank are equal -/
theorem idempotent_eq_of_sub_of_rank (P Q : Matrix ι ι K) (hTP : Pᵀ = P) (hTQ : Qᵀ = Q) (hP : P * P = P) (hQ : Q * Q = Q)
    (hPQ : P * Q = Q) (hr : Q.rank = P.rank) : Q = P := by
  have hQP : Q * P = Q := by
    have := congrArg Matrix.transpose hPQ
    rwa [Matrix.transpose_mul, hTP, hTQ] at this
  have hid : (P - Q) * (P - Q) = P - Q := by
    rw [Matrix.sub_mul, Matrix.mul_sub, Matrix.mul_sub, hP, hPQ, hQP, hQ]
    abel
  have htr : (P - Q).trace = 0 := by
    rw [Matrix.trace_sub, ← rank_eq_trace_of_idempotent_field P hP, ← rank_eq_trace_of_idempotent_field Q hQ, hr]
    exact sub_self _
  have := eq_zero_of_idempotent_of_trace _ hid htr
  exact (sub_eq_zero.mp this).symm

end Toq.Combinat

namespace Toq.Combinat.Spec
variable {d p : ℕ}

theorem symSpec_mul_of_fixed (Q : Matrix (Fin p → Fin d) (Fin p → Fin d) ℚ) (h : ∀ τ : Perm (Fin p), permMat d p τ * Q = Q) :
    symSpec d p * Q = Q := by
  unfold symSpec
  rw [Matrix.smul_mul, Finset.sum_mul]
  simp only [h]
  rw [Finset.sum_const, Finset.card_univ, Fintype.card_perm, Fintype.card_fin, ← Nat.cast_smul_eq_nsmul ℚ, smul_smul,
    inv_mul_cancel₀ fact_ne_zero', one_smul]

theorem antiSpec_mul_of_sign (Q : Matrix (Fin p → Fin d) (Fin p → Fin d) ℚ)
    (h : ∀ τ : Perm (Fin p), permMat d p τ * Q = ((Perm.sign τ : ℤ) : ℚ) • Q) : antiSpec d p * Q = Q := by
  unfold antiSpec
  rw [Matrix.smul_mul, Finset.sum_mul]
  simp only [Matrix.smul_mul, h, smul_smul, sgn_sq, one_smul]
  rw [Finset.sum_const, Finset.card_univ, Fintype.card_perm, Fintype.card_fin, ← Nat.cast_smul_eq_nsmul ℚ, smul_smul,
    inv_mul_cancel₀ fact_ne_zero', one_smul]

theorem symSpec_unique' (Q : Matrix (Fin p → Fin d) (Fin p → Fin d) ℚ) (hT : Qᵀ = Q) (hQ : Q * Q = Q)
    (hfix : ∀ τ : Perm (Fin p), permMat d p τ * Q = Q) (hr : Q.rank = Nat.choose (d + p - 1) p) : Q = symSpec d p :=
  idempotent_eq_of_sub_of_rank _ Q symSpec_transpose hT symSpec_mul_self hQ (symSpec_mul_of_fixed Q hfix)
    (hr.trans rank_symSpec.symm)

theorem antiSpec_unique' (Q : Matrix (Fin p → Fin d) (Fin p → Fin d) ℚ) (hT : Qᵀ = Q) (hQ : Q * Q = Q)
    (hsgn : ∀ τ : Perm (Fin p), permMat d p τ * Q = ((Perm.sign τ : ℤ) : ℚ) • Q) (hr : Q.rank = Nat.choose d p) :
    Q = antiSpec d p :=
  idempotent_eq_of_sub_of_rank _ Q antiSpec_transpose hT antiSpec_mul_self hQ (antiSpec_mul_of_sign Q hsgn)
    (hr.trans rank_antiSpec.symm)

end Toq.Combinat.Spec
