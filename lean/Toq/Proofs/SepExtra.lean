import Toq.Proofs.Sep
import Mathlib.Algebra.BigOperators.Fin
import Mathlib.Algebra.BigOperators.Pi
import Mathlib.Analysis.InnerProductSpace.Positive
/-!
# Every mixture of product states has a symmetric extension of every order (C15, `has_symmetric_extension`)

For `ρ = Σ_i w_i (a_i a_iᴴ) ⊗ (b_i b_iᴴ)` and `k ≥ 0` the operator
`σ = Σ_i w_i' (a_i a_iᴴ) ⊗ (b_i b_iᴴ)^{⊗(k+1)}` on `m × (Fin (k+1) → n)` (copies of the second party indexed by
`Fin (k+1)`, a basis vector of the copies is a function `Fin (k+1) → n`)
* reduces to `ρ` when the copies `1 … k` are traced out (`reduce1`),
* is supported on the symmetric subspace of the copies (`IsBoseSym`: permuting the copies on either side does nothing),
* stays a mixture of product states across the cut `A | copies` after the partial transpose of ANY subset `S` of the
  copies (`ptCopies S`), hence is positive semidefinite and has a positive semidefinite partial transpose with respect
  to every subset of `{A, copy 0, …, copy k}`.
These are exactly the constraints that a symmetric-extension search imposes (PSD, partial trace equal to `ρ`,
`(1 ⊗ P_sym) σ (1 ⊗ P_sym) = σ`, PPT across the cuts), so a correct `has_symmetric_extension` accepts every
separable state at every level, with or without the PPT option.
-/

open Matrix
open scoped ComplexOrder MatrixOrder Kronecker

namespace Toq.Sep

section SymExt
variable {m n : Type*}

/-- `b ⊗ b ⊗ … ⊗ b` (`k` factors) as a vector indexed by `Fin k → n`, with the factors in `S` conjugated -/
def tpowC [Fintype n] (k : Nat) (S : Finset (Fin k)) (b : n → ℂ) : (Fin k → n) → ℂ :=
  fun f => ∏ j, if j ∈ S then (starRingEnd ℂ) (b (f j)) else b (f j)

/-- `b^{⊗k}` -/
def tpow [Fintype n] (k : Nat) (b : n → ℂ) : (Fin k → n) → ℂ := tpowC k ∅ b

theorem tpow_apply [Fintype n] (k : Nat) (b : n → ℂ) (f : Fin k → n) : tpow k b f = ∏ j, b (f j) := by
  simp [tpow, tpowC]

/-- partial transpose of the copies in `S`: the row and column labels of those copies are exchanged -/
def ptCopies {k : Nat} (S : Finset (Fin k)) (σ : Matrix (m × (Fin k → n)) (m × (Fin k → n)) ℂ) :
    Matrix (m × (Fin k → n)) (m × (Fin k → n)) ℂ :=
  fun i j => σ (i.1, fun l => if l ∈ S then j.2 l else i.2 l) (j.1, fun l => if l ∈ S then i.2 l else j.2 l)

/-- trace out the copies `1 … k`, keep the first party and copy `0` -/
def reduce1 [Fintype n] {k : Nat} (σ : Matrix (m × (Fin (k + 1) → n)) (m × (Fin (k + 1) → n)) ℂ) :
    Matrix (m × n) (m × n) ℂ :=
  fun i j => ∑ t : Fin k → n, σ (i.1, (Fin.cons i.2 t : Fin (k + 1) → n)) (j.1, (Fin.cons j.2 t : Fin (k + 1) → n))

/-- supported on the symmetric subspace of the copies: `(1 ⊗ P_π) σ = σ = σ (1 ⊗ P_π)` for every permutation `π` -/
def IsBoseSym {k : Nat} (σ : Matrix (m × (Fin k → n)) (m × (Fin k → n)) ℂ) : Prop :=
  ∀ (π : Equiv.Perm (Fin k)) (i j : m × (Fin k → n)),
    σ (i.1, i.2 ∘ π) j = σ i j ∧ σ i (j.1, j.2 ∘ π) = σ i j

theorem ptCopies_empty {k : Nat} (σ : Matrix (m × (Fin k → n)) (m × (Fin k → n)) ℂ) : ptCopies ∅ σ = σ := by
  ext i j; simp [ptCopies]

theorem ptCopies_smul {k : Nat} (S : Finset (Fin k)) (c : ℂ) (σ : Matrix (m × (Fin k → n)) (m × (Fin k → n)) ℂ) :
    ptCopies S (c • σ) = c • ptCopies S σ := rfl

theorem ptCopies_sum {k : Nat} (S : Finset (Fin k)) {K : Type*} (s : Finset K)
    (f : K → Matrix (m × (Fin k → n)) (m × (Fin k → n)) ℂ) :
    ptCopies S (∑ i ∈ s, f i) = ∑ i ∈ s, ptCopies S (f i) := by
  ext i j; simp [ptCopies, Matrix.sum_apply]

variable [Fintype n]

theorem tpow_comp_perm (k : Nat) (b : n → ℂ) (f : Fin k → n) (π : Equiv.Perm (Fin k)) :
    tpow k b (f ∘ π) = tpow k b f := by
  rw [tpow_apply, tpow_apply]
  exact Equiv.prod_comp π fun j => b (f j)

/-- the partial transpose of copies `S` of `A ⊗ (b bᴴ)^{⊗k}` is `A ⊗ (c cᴴ)` with the product vector `c` that has the
factors in `S` conjugated -/
theorem ptCopies_kron_proj {k : Nat} (S : Finset (Fin k)) (A : Matrix m m ℂ) (b : n → ℂ) :
    ptCopies S (A ⊗ₖ proj (tpow k b)) = A ⊗ₖ proj (tpowC k S b) := by
  ext i j
  simp only [ptCopies, kroneckerMap_apply, proj, vecMulVec_apply, Pi.star_apply, tpow, tpowC, Finset.notMem_empty,
    if_false]
  congr 1
  rw [star_prod, star_prod, ← Finset.prod_mul_distrib, ← Finset.prod_mul_distrib]
  refine Finset.prod_congr rfl fun l _ => ?_
  by_cases hl : l ∈ S
  · simp [hl, mul_comm]
  · simp [hl]

theorem tpow_cons (k : Nat) (b : n → ℂ) (x : n) (t : Fin k → n) :
    tpow (k + 1) b (Fin.cons x t : Fin (k + 1) → n) = b x * tpow k b t := by
  rw [tpow_apply, tpow_apply, Fin.prod_univ_succ]
  simp

theorem sum_normSq_tpow (k : Nat) (b : n → ℂ) :
    ∑ t : Fin k → n, tpow k b t * star (tpow k b t) = ((nsq b ^ k : ℝ) : ℂ) := by
  have h1 : ∀ t : Fin k → n, tpow k b t * star (tpow k b t)
      = ∏ j, ((Complex.normSq (b (t j)) : ℝ) : ℂ) := by
    intro t
    rw [tpow_apply, star_prod, ← Finset.prod_mul_distrib]
    refine Finset.prod_congr rfl fun j _ => ?_
    rw [Complex.star_def, Complex.mul_conj]
  simp_rw [h1]
  have h2 := (Finset.prod_univ_sum (fun _ : Fin k => (Finset.univ : Finset n))
    (fun (_ : Fin k) (x : n) => ((Complex.normSq (b x) : ℝ) : ℂ))).symm
  rw [Fintype.piFinset_univ] at h2
  rw [h2, Finset.prod_const, Finset.card_univ, Fintype.card_fin]
  unfold nsq
  push_cast
  rfl

theorem reduce1_smul {k : Nat} (c : ℂ) (σ : Matrix (m × (Fin (k + 1) → n)) (m × (Fin (k + 1) → n)) ℂ) :
    reduce1 (c • σ) = c • reduce1 σ := by
  ext i j; simp [reduce1, Finset.mul_sum]

theorem reduce1_sum {k : Nat} {K : Type*} (s : Finset K)
    (f : K → Matrix (m × (Fin (k + 1) → n)) (m × (Fin (k + 1) → n)) ℂ) :
    reduce1 (∑ i ∈ s, f i) = ∑ i ∈ s, reduce1 (f i) := by
  ext i j
  simp only [reduce1, Matrix.sum_apply]
  rw [Finset.sum_comm]

theorem reduce1_kron_proj (k : Nat) (A : Matrix m m ℂ) (b : n → ℂ) :
    reduce1 (A ⊗ₖ proj (tpow (k + 1) b)) = ((nsq b ^ k : ℝ) : ℂ) • (A ⊗ₖ proj b) := by
  ext i j
  simp only [reduce1, kroneckerMap_apply, proj, vecMulVec_apply, Pi.star_apply, tpow_cons, Matrix.smul_apply,
    smul_eq_mul, star_mul']
  rw [← sum_normSq_tpow k b, Finset.sum_mul]
  refine Finset.sum_congr rfl fun t _ => ?_
  ring

/-- **Symmetric extensions of every order.** -/
theorem IsSepMix.exists_symmetric_extension (k : Nat) {ρ : Matrix (m × n) (m × n) ℂ} (h : IsSepMix ρ) :
    ∃ σ : Matrix (m × (Fin (k + 1) → n)) (m × (Fin (k + 1) → n)) ℂ,
      reduce1 σ = ρ ∧ IsBoseSym σ ∧ ∀ S : Finset (Fin (k + 1)), IsSepMix (ptCopies S σ) := by
  obtain ⟨K, w, a, b, hw, rfl⟩ := h
  let w' : Fin K → ℝ := fun i => if nsq (b i) = 0 then 0 else w i / nsq (b i) ^ k
  have hw' : ∀ i, 0 ≤ w' i := fun i => by
    show 0 ≤ (if nsq (b i) = 0 then 0 else w i / nsq (b i) ^ k)
    split
    · exact le_rfl
    · exact div_nonneg (hw i) (pow_nonneg (nsq_nonneg _) _)
  refine ⟨∑ i, (w' i : ℂ) • (proj (a i) ⊗ₖ proj (tpow (k + 1) (b i))), ?_, ?_, ?_⟩
  · rw [reduce1_sum]
    refine Finset.sum_congr rfl fun i _ => ?_
    rw [reduce1_smul, reduce1_kron_proj, smul_smul]
    by_cases h0 : nsq (b i) = 0
    · have hb : b i = 0 := eq_zero_of_nsq_eq_zero h0
      simp [hb, proj_zero]
    · have : ((w' i : ℝ) : ℂ) * ((nsq (b i) ^ k : ℝ) : ℂ) = (w i : ℂ) := by
        rw [← Complex.ofReal_mul]
        congr 1
        show (if nsq (b i) = 0 then 0 else w i / nsq (b i) ^ k) * nsq (b i) ^ k = w i
        rw [if_neg h0]
        field_simp
      rw [this]
  · intro π i j
    simp only [Matrix.sum_apply, Matrix.smul_apply, kroneckerMap_apply, proj, vecMulVec_apply, Pi.star_apply,
      tpow_comp_perm]
    exact ⟨trivial, trivial⟩
  · intro S
    refine ⟨K, w', a, fun i => tpowC (k + 1) S (b i), hw', ?_⟩
    rw [ptCopies_sum]
    refine Finset.sum_congr rfl fun i _ => ?_
    rw [ptCopies_smul, ptCopies_kron_proj]

end SymExt

end Toq.Sep

namespace Toq.Sep

/-! ## A party of dimension one: every positive semidefinite operator is a mixture of product states
(the statement `if min_dim == 1: return True` of `is_separable`) -/

section Dim1
variable {m n : Type*} [Unique m] [Finite n]

/-- with a one-dimensional first party, `ρ = Σ_k v_k v_kᴴ = Σ_k (1·1ᴴ) ⊗ (b_k b_kᴴ)` with `b_k = v_k(⋆, ·)` -/
theorem isSepMix_of_unique_left (ρ : Matrix (m × n) (m × n) ℂ) (h : ρ.PosSemidef) : IsSepMix ρ := by
  obtain ⟨K, v, hv⟩ := Matrix.posSemidef_iff_eq_sum_vecMulVec.mp h
  refine ⟨K, fun _ => 1, fun _ _ => 1, fun k b => v k (default, b), fun _ => zero_le_one, ?_⟩
  ext ⟨a, b⟩ ⟨a', b'⟩
  have ha : a = default := Subsingleton.elim _ _
  have ha' : a' = default := Subsingleton.elim _ _
  subst ha ha'
  rw [hv, Matrix.sum_apply, Matrix.sum_apply]
  refine Finset.sum_congr rfl fun k _ => ?_
  simp [proj, vecMulVec_apply, kroneckerMap_apply]

end Dim1

end Toq.Sep
